#!/bin/bash
# conc-mutate.sh <name> <c10|c12> <file-in-repo> <old-text> <new-text>
# Mutation experiment for the C10 / C12 checks WITHOUT touching /repo: copies /repo and
# /verif/harness to /tmp/conc-mut, applies the textual mutation to the copy, builds the
# property's harness against it, runs harness + extracted model runner and reports whether
# the check would flag the mutant (correspondence mismatches or violations other than the
# known findings).  The extracted runner build/extract/<pid>/run must exist (bin/check <pid> once).
set -e
name=$1; prop=$2; file=$3; old=$4; new=$5
M=/tmp/conc-mut
if [ ! -d $M/repo ]; then
  mkdir -p $M/repo
  (cd /repo && tar --exclude=.git --exclude=testdata --exclude=benchmark --exclude=testc -cf - .) | tar -xf - -C $M/repo
fi
rm -rf $M/hm && cp -r /verif/harness $M/hm && sed -i "s#=> /repo#=> $M/repo#" $M/hm/go.mod
cp /repo/$file $M/repo/$file
python3 - "$M/repo/$file" "$old" "$new" <<'PY'
import sys
p,old,new=sys.argv[1:4]
s=open(p).read()
assert s.count(old)==1, ("mutation anchor must occur exactly once", s.count(old))
open(p,"w").write(s.replace(old,new))
PY
cd $M/hm && export GOFLAGS=-mod=mod GOPROXY=off
if ! go build -tags verif -o $M/h_$prop ./$prop 2>$M/build.err; then echo "$name: BUILD FAILED"; head -5 $M/build.err; cp /repo/$file $M/repo/$file; exit 0; fi
out=$M/out_$name; rm -rf $out; mkdir -p $out; cd $out
C10_DEADLINE_MS=3000 timeout 1800 $M/h_$prop -seed ${VERIF_SEED:-1} -tier quick -out $out > $out/stdout 2>&1 || echo "$name: harness exited non-zero (see $out/stdout)"
/verif/build/extract/$prop/run < $out/cases.txt > $out/model.txt 2>/dev/null || true
python3 - "$name" "$out" <<'PY'
import sys,json,os
name,out=sys.argv[1:3]
if not os.path.exists(out+"/direct.json"):
    print(f"{name}: harness died -> DETECTED (bin/check reports a broken harness)"); sys.exit()
d=json.load(open(out+"/direct.json"))
impl=[l.rstrip("\n") for l in open(out+"/impl.txt")]
model=[l.rstrip("\n") for l in open(out+"/model.txt")]
mism=sum(1 for a,b in zip(impl,model) if "I "+a!=b)
known={"site=lossy.EncodeFrame.useParallel","site=lossless.hashchain.Fill"}
keys={}
for v in d["violations"]: keys[v["key"]]=keys.get(v["key"],0)+1
unk={k:v for k,v in keys.items() if k not in known}
print(f"{name}: correspondence mismatches {mism}/{len(impl)}, unknown violations {unk} -> {'DETECTED' if (mism or unk) else 'MISSED'}")
PY
cp /repo/$file $M/repo/$file
