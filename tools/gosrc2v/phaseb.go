package main

// phaseb.go — emits coq/Gen/PhaseB.v: which fields of lossy.VP8Encoder the two
// overlapped phases of encodeFrameParallel touch.
//
//	Phase A = the row workers:      call graph of encodeRow
//	Phase B = the token recorder:   call graph of recordAllTokens, without the
//	          statements guarded by `if enc.parallelRS == nil { ... }` (skipped
//	          while the workers are running)
//
// The analysis is syntactic (package-local call graph through methods of
// *VP8Encoder and package functions; encoder values are the identifiers declared
// with type *VP8Encoder):
//
//	write to field F:  enc.F (possibly under index / selector chains) on the left of
//	                   an assignment or ++/--, first argument of copy/clear, a method
//	                   call on enc.F (pointer-receiver mutators such as
//	                   enc.tokens.AddToken), &enc.F assigned to a variable;
//	read of field F:   every other mention of enc.F.
//
// Properties/C10.v states that Phase B's writes are disjoint from everything Phase A
// touches and Phase A's writes from everything Phase B reads, except the fields
// handed over row by row through done[y] (ConcPhaseB.synchronised).  Re-enabling
// refreshProbas in overlapped mode, or a new shared write, breaks the obligation.

import (
	"bytes"
	"fmt"
	"go/ast"
	"go/token"
	"sort"
	"strings"
)

func init() { extraGenerators = append(extraGenerators, genPhaseB) }

type fieldUse struct{ reads, writes map[string]bool }

func genPhaseB() (string, string) {
	p, err := load("lossy", "internal/lossy")
	if err != nil {
		refuse("phaseb: cannot load internal/lossy: %v", err)
		return "PhaseB.v", "(* not generated *)\n"
	}
	// fields of VP8Encoder
	fields := map[string]bool{}
	funcs := map[string]*ast.FuncDecl{}   // package functions by name
	methods := map[string]*ast.FuncDecl{} // methods of *VP8Encoder by name
	for _, f := range p.files {
		for _, d := range f.Decls {
			switch dd := d.(type) {
			case *ast.GenDecl:
				if dd.Tok != token.TYPE {
					continue
				}
				for _, s := range dd.Specs {
					ts := s.(*ast.TypeSpec)
					if ts.Name.Name != "VP8Encoder" {
						continue
					}
					st, ok := ts.Type.(*ast.StructType)
					if !ok {
						refuse("phaseb: VP8Encoder is not a struct")
						continue
					}
					for _, fl := range st.Fields.List {
						for _, n := range fl.Names {
							fields[n.Name] = true
						}
					}
				}
			case *ast.FuncDecl:
				if dd.Body == nil {
					continue
				}
				if dd.Recv == nil {
					funcs[dd.Name.Name] = dd
				} else if isEncPtr(dd.Recv.List[0].Type) {
					methods[dd.Name.Name] = dd
				}
			}
		}
	}
	if len(fields) == 0 {
		refuse("phaseb: struct VP8Encoder not found")
	}
	refusedBefore := len(refused) // other passes' refusals do not concern this one
	for _, need := range []string{"encodeRow", "recordAllTokens", "refreshProbas"} {
		if methods[need] == nil {
			refuse("phaseb: method (*VP8Encoder).%s not found", need)
		}
	}
	if len(refused) > refusedBefore {
		return "PhaseB.v", "(* not generated *)\n"
	}

	// which parameters a function writes through (pointer / slice parameters):
	// p.x = .., p[i] = .., *p = .., p++ , copy(p, ..), clear(p), or passing p on
	// to a written parameter of another package function (fixpoint)
	type fkey struct {
		name   string
		method bool
	}
	allFuncs := map[fkey]*ast.FuncDecl{}
	for n, fd := range funcs {
		allFuncs[fkey{n, false}] = fd
	}
	for n, fd := range methods {
		allFuncs[fkey{n, true}] = fd
	}
	paramIndex := func(fd *ast.FuncDecl) map[string]int {
		m := map[string]int{}
		k := 0
		for _, prm := range fd.Type.Params.List {
			if len(prm.Names) == 0 {
				k++
				continue
			}
			for _, n := range prm.Names {
				m[n.Name] = k
				k++
			}
		}
		return m
	}
	var rootIdent func(e ast.Expr) (string, bool)
	rootIdent = func(e ast.Expr) (string, bool) {
		switch x := e.(type) {
		case *ast.Ident:
			return x.Name, true
		case *ast.SelectorExpr:
			return rootIdent(x.X)
		case *ast.IndexExpr:
			return rootIdent(x.X)
		case *ast.SliceExpr:
			return rootIdent(x.X)
		case *ast.StarExpr:
			return rootIdent(x.X)
		case *ast.ParenExpr:
			return rootIdent(x.X)
		case *ast.UnaryExpr:
			if x.Op == token.AND {
				return rootIdent(x.X)
			}
		}
		return "", false
	}
	paramWrites := map[fkey]map[int]bool{}
	for k := range allFuncs {
		paramWrites[k] = map[int]bool{}
	}
	for changed := true; changed; {
		changed = false
		for k, fd := range allFuncs {
			pi := paramIndex(fd)
			mark := func(e ast.Expr) {
				if id, ok := rootIdent(e); ok {
					if idx, ok := pi[id]; ok && !paramWrites[k][idx] {
						// a plain `p = ...` rebinding of the parameter itself is not a write through it
						if _, plain := e.(*ast.Ident); plain {
							return
						}
						paramWrites[k][idx] = true
						changed = true
					}
				}
			}
			ast.Inspect(fd.Body, func(x ast.Node) bool {
				switch v := x.(type) {
				case *ast.AssignStmt:
					for _, l := range v.Lhs {
						mark(l)
					}
				case *ast.IncDecStmt:
					mark(v.X)
				case *ast.CallExpr:
					var callee fkey
					found := false
					switch fn := v.Fun.(type) {
					case *ast.Ident:
						if (fn.Name == "copy" || fn.Name == "clear") && len(v.Args) > 0 {
							if _, plain := v.Args[0].(*ast.Ident); plain {
								// copy(p, ...) writes through the slice parameter p
								if idx, ok := pi[v.Args[0].(*ast.Ident).Name]; ok && !paramWrites[k][idx] {
									paramWrites[k][idx] = true
									changed = true
								}
							} else {
								mark(v.Args[0])
							}
						}
						if _, ok := funcs[fn.Name]; ok {
							callee, found = fkey{fn.Name, false}, true
						}
					case *ast.SelectorExpr:
						if _, ok := methods[fn.Sel.Name]; ok {
							callee, found = fkey{fn.Sel.Name, true}, true
						}
					}
					if found {
						for ai, a := range v.Args {
							if paramWrites[callee][ai] {
								if id, ok := rootIdent(a); ok {
									if idx, ok := pi[id]; ok && !paramWrites[k][idx] {
										paramWrites[k][idx] = true
										changed = true
									}
								}
							}
						}
					}
				}
				return true
			})
		}
	}

	analyse := func(root string, skipGuarded bool) (fieldUse, []string, bool) {
		use := fieldUse{map[string]bool{}, map[string]bool{}}
		seen := map[string]bool{}
		var order []string
		guardFound := false
		var visitFunc func(fd *ast.FuncDecl, key string)
		visitFunc = func(fd *ast.FuncDecl, key string) {
			if seen[key] {
				return
			}
			seen[key] = true
			order = append(order, key)
			// identifiers that denote the encoder in this function
			encIDs := map[string]bool{}
			if fd.Recv != nil && len(fd.Recv.List[0].Names) > 0 {
				encIDs[fd.Recv.List[0].Names[0].Name] = true
			}
			for _, prm := range fd.Type.Params.List {
				if isEncPtr(prm.Type) {
					for _, n := range prm.Names {
						encIDs[n.Name] = true
					}
				}
			}
			// root field of an expression like enc.F[i].g
			var rootField func(e ast.Expr) (string, bool)
			rootField = func(e ast.Expr) (string, bool) {
				switch x := e.(type) {
				case *ast.SelectorExpr:
					if id, ok := x.X.(*ast.Ident); ok && encIDs[id.Name] && fields[x.Sel.Name] {
						return x.Sel.Name, true
					}
					return rootField(x.X)
				case *ast.IndexExpr:
					return rootField(x.X)
				case *ast.SliceExpr:
					return rootField(x.X)
				case *ast.StarExpr:
					return rootField(x.X)
				case *ast.ParenExpr:
					return rootField(x.X)
				}
				return "", false
			}
			written := map[ast.Node]bool{} // selector nodes already counted as writes
			markWrite := func(e ast.Expr) {
				if f, ok := rootField(e); ok {
					use.writes[f] = true
					// the innermost enc.F selector is not also a read
					ast.Inspect(e, func(n ast.Node) bool {
						if s, ok := n.(*ast.SelectorExpr); ok {
							if id, ok := s.X.(*ast.Ident); ok && encIDs[id.Name] && s.Sel.Name == f {
								written[s] = true
							}
						}
						return true
					})
				}
			}
			var walk func(n ast.Node)
			walk = func(n ast.Node) {
				ast.Inspect(n, func(x ast.Node) bool {
					switch v := x.(type) {
					case *ast.IfStmt:
						if skipGuarded && isParallelRSNil(v.Cond, encIDs) {
							guardFound = true
							if v.Else != nil {
								walk(v.Else)
							}
							return false // body skipped in overlapped mode
						}
					case *ast.AssignStmt:
						for _, l := range v.Lhs {
							markWrite(l)
						}
						for _, r := range v.Rhs {
							if u, ok := r.(*ast.UnaryExpr); ok && u.Op == token.AND {
								markWrite(u.X) // alias of a field: later writes go through it
							}
						}
					case *ast.IncDecStmt:
						markWrite(v.X)
					case *ast.CallExpr:
						switch fn := v.Fun.(type) {
						case *ast.Ident:
							if (fn.Name == "copy" || fn.Name == "clear") && len(v.Args) > 0 {
								markWrite(v.Args[0])
							}
							if callee := funcs[fn.Name]; callee != nil {
								for ai, a := range v.Args {
									if paramWrites[fkey{fn.Name, false}][ai] {
										if u, ok := a.(*ast.UnaryExpr); ok && u.Op == token.AND {
											a = u.X
										}
										markWrite(a) // the callee writes through this argument
									}
								}
								visitFunc(callee, fn.Name)
							}
						case *ast.SelectorExpr:
							if id, ok := fn.X.(*ast.Ident); ok && encIDs[id.Name] {
								if callee := methods[fn.Sel.Name]; callee != nil {
									for ai, a := range v.Args {
										if paramWrites[fkey{fn.Sel.Name, true}][ai] {
											if u, ok := a.(*ast.UnaryExpr); ok && u.Op == token.AND {
												a = u.X
											}
											markWrite(a)
										}
									}
									visitFunc(callee, "(*VP8Encoder)."+fn.Sel.Name)
								}
							} else if _, ok := rootField(fn.X); ok {
								markWrite(fn.X) // method call on a field value
							}
						}
					}
					return true
				})
			}
			walk(fd.Body)
			// reads: every enc.F mention not counted as a write target
			ast.Inspect(fd.Body, func(x ast.Node) bool {
				if ifs, ok := x.(*ast.IfStmt); ok && skipGuarded && isParallelRSNil(ifs.Cond, encIDs) {
					// the condition itself is a read of parallelRS
					use.reads["parallelRS"] = true
					if ifs.Else != nil {
						return true
					}
					return false
				}
				if s, ok := x.(*ast.SelectorExpr); ok {
					if id, ok := s.X.(*ast.Ident); ok && encIDs[id.Name] && fields[s.Sel.Name] && !written[s] {
						use.reads[s.Sel.Name] = true
					}
				}
				return true
			})
		}
		visitFunc(methods[root], "(*VP8Encoder)."+root)
		return use, order, guardFound
	}

	a, aFuncs, _ := analyse("encodeRow", false)
	b, bFuncs, guard := analyse("recordAllTokens", true)
	bAll, _, _ := analyse("recordAllTokens", false)

	var out bytes.Buffer
	out.WriteString("(* GENERATED by tools/gosrc2v (phaseb.go) from /repo's current source. Do not edit. *)\nFrom Coq Require Import List String.\nImport ListNotations.\nOpen Scope string_scope.\n\n")
	emit := func(name, doc string, m map[string]bool) {
		var l []string
		for k := range m {
			l = append(l, k)
		}
		sort.Strings(l)
		q := make([]string, len(l))
		for i, s := range l {
			q[i] = fmt.Sprintf("%q", s)
		}
		fmt.Fprintf(&out, "(* %s *)\nDefinition %s : list string :=\n  [%s].\n\n", doc, name, strings.Join(q, "; "))
	}
	// whether recordAllTokens still skips statements under `if enc.parallelRS == nil { ... }`
	// (the probability refresh) while the workers run; checked by Properties/C10.v
	fmt.Fprintf(&out, "Definition refresh_guard_present : bool := %v.\n\n", guard)
	emit("phaseA_reads", "VP8Encoder fields read in the call graph of encodeRow (row workers)", a.reads)
	emit("phaseA_writes", "VP8Encoder fields written in the call graph of encodeRow", a.writes)
	emit("phaseB_reads", "VP8Encoder fields read in the call graph of recordAllTokens, overlapped mode (bodies of `if enc.parallelRS == nil` skipped)", b.reads)
	emit("phaseB_writes", "VP8Encoder fields written in the call graph of recordAllTokens, overlapped mode", b.writes)
	emit("phaseB_writes_serial_mode", "the same with the guarded statements included (serial mode: refreshProbas runs)", bAll.writes)
	fmt.Fprintf(&out, "(* functions visited: Phase A %d, Phase B %d *)\nDefinition phaseA_functions : list string :=\n  [%s].\nDefinition phaseB_functions : list string :=\n  [%s].\n",
		len(aFuncs), len(bFuncs), quoteList(aFuncs), quoteList(bFuncs))
	return "PhaseB.v", out.String()
}

func quoteList(l []string) string {
	q := make([]string, len(l))
	for i, s := range l {
		q[i] = fmt.Sprintf("%q", s)
	}
	return strings.Join(q, "; ")
}

func isEncPtr(t ast.Expr) bool {
	st, ok := t.(*ast.StarExpr)
	if !ok {
		return false
	}
	id, ok := st.X.(*ast.Ident)
	return ok && id.Name == "VP8Encoder"
}

// isParallelRSNil recognises `enc.parallelRS == nil`.
func isParallelRSNil(c ast.Expr, encIDs map[string]bool) bool {
	be, ok := c.(*ast.BinaryExpr)
	if !ok || be.Op != token.EQL {
		return false
	}
	sel, ok := be.X.(*ast.SelectorExpr)
	if !ok || sel.Sel.Name != "parallelRS" {
		return false
	}
	id, ok := sel.X.(*ast.Ident)
	if !ok || !encIDs[id.Name] {
		return false
	}
	n, ok := be.Y.(*ast.Ident)
	return ok && n.Name == "nil"
}
