// globals.go — Gen/Globals.v: package-level variables that are written after their
// declaration, and in which context (property C11: a global table mutated lazily per
// call would make results depend on history in a way the sync.Pool model does not
// explain).
//
// For every package of the module (non-test files, no verif tag) and every package-level
// variable the translator lists each WRITE site:
//
//	v = e, v op= e, v++                          whole variable
//	v[i] = e, v.f = e, v[i].f[j] = e, …           element / field through the variable
//	clear(v), copy(v[…], …)                       builtin writers
//	f(v) / f(v[a:b]) where f is a module function whose parameter is written
//	    (element store, copy destination, clear) in its own body          "via:f"
//	&v, &v[i] taken outside a method call / sync primitive                 "addr"
//
// together with the CONTEXT of the enclosing function:
//
//	init       the function is an init function, or every path to it starts in one
//	once       lexically inside the function literal given to (sync.Once).Do, or the
//	           function is reachable only from such literals / init functions
//	runtime    anything else (exported, referenced from another package, or called
//	           from a runtime function)
//
// Variables whose type is a synchronisation / pooling primitive (sync.Pool, sync.Once,
// sync.Mutex, sync.RWMutex, sync.WaitGroup, sync/atomic types, arrays of them) are
// listed separately (sync_globals): they are mutable at run time by design and are
// modelled elsewhere (pools: this property; atomics: C10).
//
// The translator REFUSES on a write it cannot attribute: a package-level variable
// whose address is taken at run time (outside init / once), a package-level variable of
// pointer, map, chan or func type that is re-assigned at run time is reported as a
// runtime write (not refused: the Coq obligation fails), and a goroutine or deferred
// closure writing a global inside an init function is refused.
package main

import (
	"bytes"
	"fmt"
	"go/ast"
	"go/token"
	"go/types"
	"sort"
	"strings"
)

func init() { extraGenerators = append(extraGenerators, genGlobals) }

func isSyncPrimitive(t types.Type) bool {
	switch x := t.(type) {
	case *types.Named:
		o := x.Obj()
		if o != nil && o.Pkg() != nil && (o.Pkg().Path() == "sync" || o.Pkg().Path() == "sync/atomic") {
			return true
		}
		if st, ok := x.Underlying().(*types.Struct); ok && st.NumFields() > 0 {
			// a struct made only of primitives (padding fields allowed) counts as one
			all := true
			for i := 0; i < st.NumFields(); i++ {
				ft := st.Field(i).Type()
				if !isSyncPrimitive(ft) {
					if _, isArr := ft.Underlying().(*types.Array); !(isArr && st.Field(i).Name() == "_") {
						all = false
					}
				}
			}
			return all
		}
	case *types.Array:
		return isSyncPrimitive(x.Elem())
	case *types.Pointer:
		return isSyncPrimitive(x.Elem())
	}
	return false
}

type globalWrite struct{ v, fn, kind, ctx string }

type globalsPkg struct {
	sp      *skelPkg
	alias   string
	globals map[types.Object]string
	// per function: lexical regions inside Once.Do literals
	ctx map[string]map[string]bool // function → set of contexts
}

// rootVar: the package-level variable an lvalue expression is rooted at (through
// index, field, slice, deref, parens), or nil.
func (gp *globalsPkg) rootVar(e ast.Expr) types.Object {
	for {
		switch x := e.(type) {
		case *ast.ParenExpr:
			e = x.X
		case *ast.IndexExpr:
			e = x.X
		case *ast.SliceExpr:
			e = x.X
		case *ast.StarExpr:
			e = x.X
		case *ast.SelectorExpr:
			// pkg.Var of another package is not ours; x.f: go down to x
			if id, ok := x.X.(*ast.Ident); ok {
				if _, isPkg := gp.sp.p.info.Uses[id].(*types.PkgName); isPkg {
					return nil
				}
			}
			e = x.X
		case *ast.Ident:
			obj := gp.sp.p.info.Uses[x]
			if obj == nil {
				obj = gp.sp.p.info.Defs[x]
			}
			if _, ok := gp.globals[obj]; ok {
				return obj
			}
			return nil
		default:
			return nil
		}
	}
}

// addrUse classifies &G… inside fd: "read" when the address is bound to a local (p := &G…
// or p = &G…) and nothing in the function stores through p, passes p to a function that
// writes the corresponding parameter, or lets p escape (return, assignment to anything
// but a local, send, composite literal); "write" when a store through p is found;
// "escape" otherwise.
func (gp *globalsPkg) addrUse(fd *ast.FuncDecl, u *ast.UnaryExpr, pw map[*types.Func]map[int]bool) string {
	info := gp.sp.p.info
	var local types.Object
	ast.Inspect(fd.Body, func(n ast.Node) bool {
		if as, ok := n.(*ast.AssignStmt); ok && len(as.Lhs) == len(as.Rhs) {
			for i, r := range as.Rhs {
				if r == ast.Expr(u) {
					if id, ok := as.Lhs[i].(*ast.Ident); ok {
						if o := info.Defs[id]; o != nil {
							local = o
						} else if o := info.Uses[id]; o != nil && o.Parent() != gp.sp.p.pkg.Scope() {
							local = o
						}
					}
				}
			}
		}
		return true
	})
	if local == nil {
		return "escape"
	}
	res := "read"
	var stack []ast.Node
	ast.Inspect(fd.Body, func(n ast.Node) bool {
		if n == nil {
			stack = stack[:len(stack)-1]
			return true
		}
		stack = append(stack, n)
		id, ok := n.(*ast.Ident)
		if !ok || info.Uses[id] != local {
			return true
		}
		// climb through index / deref / field / slice / parens
		cur := ast.Node(id)
		through := false
		i := len(stack) - 2
	climb:
		for ; i >= 0; i-- {
			switch par := stack[i].(type) {
			case *ast.ParenExpr:
				cur = par
			case *ast.IndexExpr:
				if par.X != cur {
					return true // used as an index: a load
				}
				cur, through = par, true
			case *ast.StarExpr:
				cur, through = par, true
			case *ast.SelectorExpr:
				cur, through = par, true
			case *ast.SliceExpr:
				if par.X != cur {
					return true
				}
				cur = par
			default:
				break climb
			}
		}
		if i < 0 {
			return true
		}
		switch par := stack[i].(type) {
		case *ast.AssignStmt:
			for _, l := range par.Lhs {
				if l == cur {
					if through {
						res = "write"
					}
					return true // p = … re-binding the local itself
				}
			}
			// on the right-hand side: copying the pointer somewhere
			if !through {
				for k, r := range par.Rhs {
					if r == cur {
						if lid, ok := par.Lhs[k].(*ast.Ident); !ok || (info.Defs[lid] == nil && (info.Uses[lid] == nil || info.Uses[lid].Parent() == gp.sp.p.pkg.Scope())) {
							if res != "write" {
								res = "escape"
							}
						} else if res != "write" {
							res = "escape" // a second local alias: not followed
						}
					}
				}
			}
		case *ast.IncDecStmt:
			if through {
				res = "write"
			}
		case *ast.CallExpr:
			for k, a := range par.Args {
				if a != cur {
					continue
				}
				if tv, ok := info.Types[a]; ok && !isRefType(tv.Type) {
					continue // a loaded value
				}
				name := calleeName(par)
				if _, isB := info.Uses[identOf(par.Fun)].(*types.Builtin); isB {
					if (name == "copy" && k == 0) || name == "clear" {
						res = "write"
					}
					continue
				}
				var fo *types.Func
				switch f := par.Fun.(type) {
				case *ast.Ident:
					fo, _ = info.Uses[f].(*types.Func)
				case *ast.SelectorExpr:
					fo, _ = info.Uses[f.Sel].(*types.Func)
				}
				if w, ok := pw[fo]; ok && fo != nil {
					if w[k] {
						res = "write"
					}
				} else if res != "write" {
					res = "escape" // function outside the module / function value
				}
			}
		case *ast.ReturnStmt, *ast.SendStmt, *ast.KeyValueExpr, *ast.CompositeLit:
			if !through && res != "write" {
				res = "escape"
			}
		case *ast.UnaryExpr:
			if par.Op == token.AND && res != "write" {
				res = "escape"
			}
		}
		return true
	})
	return res
}

// paramWritten reports, for a module function, which parameter indices have their
// elements written in the body (store through index / field, copy destination, clear).
func paramWritten(sp *skelPkg, fd *ast.FuncDecl) map[int]bool {
	out := map[int]bool{}
	idx := map[types.Object]int{}
	k := 0
	if fd.Type.Params != nil {
		for _, fl := range fd.Type.Params.List {
			if len(fl.Names) == 0 {
				k++
				continue
			}
			for _, n := range fl.Names {
				idx[sp.p.info.Defs[n]] = k
				k++
			}
		}
	}
	root := func(e ast.Expr) (types.Object, bool) {
		through := false
		for {
			switch x := e.(type) {
			case *ast.ParenExpr:
				e = x.X
			case *ast.IndexExpr:
				e, through = x.X, true
			case *ast.SliceExpr:
				e = x.X
			case *ast.StarExpr:
				e, through = x.X, true
			case *ast.SelectorExpr:
				e, through = x.X, true
			case *ast.Ident:
				return sp.p.info.Uses[x], through
			default:
				return nil, false
			}
		}
	}
	ast.Inspect(fd.Body, func(n ast.Node) bool {
		switch x := n.(type) {
		case *ast.AssignStmt:
			for _, l := range x.Lhs {
				if o, through := root(l); o != nil && through {
					if i, ok := idx[o]; ok {
						out[i] = true
					}
				}
			}
		case *ast.IncDecStmt:
			if o, through := root(x.X); o != nil && through {
				if i, ok := idx[o]; ok {
					out[i] = true
				}
			}
		case *ast.CallExpr:
			name := calleeName(x)
			if (name == "copy" || name == "clear") && len(x.Args) > 0 {
				if o, _ := root(x.Args[0]); o != nil {
					if i, ok := idx[o]; ok {
						out[i] = true
					}
				}
			}
		}
		return true
	})
	return out
}

func genGlobals() (string, string) {
	aliasDir := map[string]string{}
	for _, pd := range pkgDirs {
		aliasDir[pd.alias] = pd.dir
	}
	pkgs := map[string]*skelPkg{}
	byPkg := map[*types.Package]string{}
	for _, pd := range pkgDirs {
		p, err := load(pd.alias, pd.dir)
		if err != nil {
			refuse("globals: cannot load %s: %v", pd.alias, err)
			continue
		}
		pkgs[pd.alias] = newSkelPkg(p)
		byPkg[p.pkg] = pd.alias
	}
	// parameters written by module functions
	pw := map[*types.Func]map[int]bool{}
	for _, sp := range pkgs {
		for fn, name := range sp.funcs {
			pw[fn] = paramWritten(sp, sp.decls[name])
		}
	}
	var writes []globalWrite
	var syncVars, allVars []string
	for _, pd := range pkgDirs {
		sp := pkgs[pd.alias]
		if sp == nil {
			continue
		}
		p := sp.p
		gp := &globalsPkg{sp: sp, alias: pd.alias, globals: map[types.Object]string{}}
		for _, name := range p.pkg.Scope().Names() {
			if v, ok := p.pkg.Scope().Lookup(name).(*types.Var); ok {
				if isSyncPrimitive(v.Type()) {
					syncVars = append(syncVars, pd.alias+"."+name)
					continue
				}
				gp.globals[v] = name
				allVars = append(allVars, pd.alias+"."+name)
			}
		}
		// ---- contexts: call graph with lexical once-regions
		type edge struct {
			callee string
			once   bool
		}
		callers := map[string][]struct {
			from string
			once bool
		}{}
		onceArgFuncs := map[string]bool{}
		isOnceDo := func(c *ast.CallExpr) bool {
			sel, ok := c.Fun.(*ast.SelectorExpr)
			if !ok || sel.Sel.Name != "Do" {
				return false
			}
			tv, ok := p.info.Types[sel.X]
			if !ok {
				return false
			}
			t := tv.Type
			if pt, ok := t.(*types.Pointer); ok {
				t = pt.Elem()
			}
			n, ok := t.(*types.Named)
			return ok && n.Obj().Pkg() != nil && n.Obj().Pkg().Path() == "sync" && n.Obj().Name() == "Once"
		}
		// walk every function with a "inside once literal" flag
		type site struct {
			fn   string
			once bool
			node ast.Node
		}
		var stmtsSites []site
		for _, name := range sp.names {
			fd := sp.decls[name]
			var walk func(n ast.Node, once bool)
			walk = func(n ast.Node, once bool) {
				ast.Inspect(n, func(m ast.Node) bool {
					if m == nil {
						return true
					}
					switch x := m.(type) {
					case *ast.CallExpr:
						if isOnceDo(x) && len(x.Args) == 1 {
							switch a := x.Args[0].(type) {
							case *ast.FuncLit:
								walk(a.Body, true)
								return false
							case *ast.Ident:
								if fo, ok := p.info.Uses[a].(*types.Func); ok {
									if g, ok := sp.funcs[fo]; ok {
										onceArgFuncs[g] = true
										return false
									}
								}
								refuseSkel("globals: %s.%s: argument of (sync.Once).Do is neither a literal nor a package function", pd.alias, name)
							default:
								refuseSkel("globals: %s.%s: argument of (sync.Once).Do is neither a literal nor a package function", pd.alias, name)
							}
							return false
						}
						var fo *types.Func
						switch f := x.Fun.(type) {
						case *ast.Ident:
							fo, _ = p.info.Uses[f].(*types.Func)
						case *ast.SelectorExpr:
							fo, _ = p.info.Uses[f.Sel].(*types.Func)
						}
						if fo != nil {
							if g, ok := sp.funcs[fo]; ok {
								callers[g] = append(callers[g], struct {
									from string
									once bool
								}{name, once})
							}
						}
						stmtsSites = append(stmtsSites, site{name, once, x})
					case *ast.AssignStmt, *ast.IncDecStmt, *ast.UnaryExpr:
						stmtsSites = append(stmtsSites, site{name, once, x})
					case *ast.GoStmt, *ast.DeferStmt:
						if strings.HasPrefix(name, "init@") {
							var body ast.Node = x
							found := false
							ast.Inspect(body, func(q ast.Node) bool {
								if as, ok := q.(*ast.AssignStmt); ok {
									for _, l := range as.Lhs {
										if gp.rootVar(l) != nil {
											found = true
										}
									}
								}
								return true
							})
							if found {
								refuseSkel("globals: %s.%s writes a package-level variable from a goroutine / deferred call inside init", pd.alias, name)
							}
						}
					}
					return true
				})
			}
			walk(fd.Body, false)
		}
		// fixed point of contexts
		ctx := map[string]map[string]bool{}
		add := func(f, c string) bool {
			if ctx[f] == nil {
				ctx[f] = map[string]bool{}
			}
			if ctx[f][c] {
				return false
			}
			ctx[f][c] = true
			return true
		}
		for _, name := range sp.names {
			switch {
			case strings.HasPrefix(name, "init@"):
				add(name, "init")
			}
			if onceArgFuncs[name] {
				add(name, "once")
			}
			if len(callers[name]) == 0 && !strings.HasPrefix(name, "init@") && !onceArgFuncs[name] {
				add(name, "runtime") // entry point from outside (or dead): assume run time
			}
			if sp.ext[name] && !strings.HasPrefix(name, "init@") {
				add(name, "runtime")
			}
		}
		for changed := true; changed; {
			changed = false
			for _, name := range sp.names {
				for _, c := range callers[name] {
					if c.once {
						if add(name, "once") {
							changed = true
						}
						continue
					}
					for cc := range ctx[c.from] {
						if add(name, cc) {
							changed = true
						}
					}
				}
			}
		}
		ctxOf := func(fn string, once bool) string {
			if once {
				return "once"
			}
			cs := ctx[fn]
			if cs["runtime"] || len(cs) == 0 {
				return "runtime"
			}
			if cs["once"] {
				return "once"
			}
			return "init"
		}
		// ---- write sites
		for _, s := range stmtsSites {
			switch x := s.node.(type) {
			case *ast.AssignStmt:
				if x.Tok == token.DEFINE {
					continue
				}
				for _, l := range x.Lhs {
					if o := gp.rootVar(l); o != nil {
						kind := "elem"
						if id, ok := l.(*ast.Ident); ok && p.info.Uses[id] == o {
							kind = "set"
						}
						writes = append(writes, globalWrite{pd.alias + "." + gp.globals[o], s.fn, kind, ctxOf(s.fn, s.once)})
					}
				}
			case *ast.IncDecStmt:
				if o := gp.rootVar(x.X); o != nil {
					writes = append(writes, globalWrite{pd.alias + "." + gp.globals[o], s.fn, "elem", ctxOf(s.fn, s.once)})
				}
			case *ast.UnaryExpr:
				if x.Op == token.AND {
					if o := gp.rootVar(x.X); o != nil {
						c := ctxOf(s.fn, s.once)
						switch gp.addrUse(sp.decls[s.fn], x, pw) {
						case "read":
							// p := &G[i] followed only by loads through p
						case "write":
							writes = append(writes, globalWrite{pd.alias + "." + gp.globals[o], s.fn, "addr-store", c})
						default:
							if c == "runtime" {
								refuseSkel("globals: address of package-level variable %s.%s escapes at run time in %s", pd.alias, gp.globals[o], s.fn)
							}
							writes = append(writes, globalWrite{pd.alias + "." + gp.globals[o], s.fn, "addr", c})
						}
					}
				}
			case *ast.CallExpr:
				name := calleeName(x)
				if (name == "clear" || name == "copy") && len(x.Args) > 0 {
					if _, isB := p.info.Uses[identOf(x.Fun)].(*types.Builtin); isB {
						if o := gp.rootVar(x.Args[0]); o != nil {
							writes = append(writes, globalWrite{pd.alias + "." + gp.globals[o], s.fn, name, ctxOf(s.fn, s.once)})
						}
					}
				}
				var fo *types.Func
				switch f := x.Fun.(type) {
				case *ast.Ident:
					fo, _ = p.info.Uses[f].(*types.Func)
				case *ast.SelectorExpr:
					fo, _ = p.info.Uses[f.Sel].(*types.Func)
				}
				if fo != nil {
					if w, ok := pw[fo]; ok {
						for k, a := range x.Args {
							if !w[k] {
								continue
							}
							// only reference-passing arguments alias the global: slices, pointers, maps
							if tv, ok := p.info.Types[a]; ok && isRefType(tv.Type) {
								if o := gp.rootVar(a); o != nil {
									writes = append(writes, globalWrite{pd.alias + "." + gp.globals[o], s.fn, "via:" + fo.Name(), ctxOf(s.fn, s.once)})
								}
							}
						}
					}
				}
			}
		}
	}
	sort.Slice(writes, func(i, j int) bool {
		a, b := writes[i], writes[j]
		if a.v != b.v {
			return a.v < b.v
		}
		if a.fn != b.fn {
			return a.fn < b.fn
		}
		if a.kind != b.kind {
			return a.kind < b.kind
		}
		return a.ctx < b.ctx
	})
	var b bytes.Buffer
	b.WriteString("(* GENERATED by tools/gosrc2v (globals.go) from /repo's current source. Do not edit. *)\n")
	b.WriteString("From Coq Require Import String List.\nImport ListNotations.\nOpen Scope string_scope.\n\n")
	b.WriteString("(* every write to a package-level variable after its declaration: (variable, (function, (kind, context))) *)\n")
	b.WriteString("Definition global_writes : list (string * (string * (string * string))) :=\n  [")
	last := globalWrite{}
	first := true
	for _, w := range writes {
		if w == last {
			continue
		}
		last = w
		if !first {
			b.WriteString(";\n   ")
		}
		first = false
		fmt.Fprintf(&b, `("%s", ("%s", ("%s", "%s")))`, w.v, w.fn, w.kind, w.ctx)
	}
	b.WriteString("].\n\n")
	sort.Strings(syncVars)
	sort.Strings(allVars)
	fmt.Fprintf(&b, "(* package-level variables of synchronisation / pooling types (mutable at run time by design) *)\nDefinition sync_globals : list string :=\n  %s.\n\n", wrap(coqStrList(syncVars)))
	fmt.Fprintf(&b, "(* number of other package-level variables examined *)\nDefinition plain_globals_count : nat := %d.\n", len(allVars))
	return "Globals.v", b.String()
}
