package main

// partshapes.go — emits coq/Gen/PartShapes.v: for every go statement of the library, WHAT
// the spawn loop computes, as arithmetic expressions (not text):
//
//	nw     the number of iterations of the spawn loop, as a function of "#n" (what
//	       runtime.GOMAXPROCS(0) returned / the worker count handed in) and of free variables;
//	start, stop   the half-open range handed to worker "#w" (the arguments of the
//	       verifhook.Range call in the loop), over "#w", "#n" and the free variables;
//	break  whether the loop leaves at the first empty range.
//
// The expressions are obtained by SYMBOLIC EVALUATION of the statements on the path from the
// function entry to the go statement: assignments substitute, `if c { x = e }` becomes a
// conditional expression, the builtins min / max, conversions, shifts by constants and
// package-local helper functions (bodies made of assignments, conditional assignments and
// returns; multiple results allowed) are evaluated / inlined, everything else that is a pure
// value (selectors, len(...), calls that do not mention a tracked variable) is a free
// variable.  Names of variables, extraction into helpers, `if e > T { e = T }` versus
// min(e, T), the way a ceiling division is written — none of this is compared anywhere: Coq
// EVALUATES the expressions (ConcPartExpr.v): a bounded sweep decides exact cover of one
// interval for every worker count, and a certifier recognises the chunk / floor-remainder /
// proportional families semantically (affine decomposition in "#w") and proves the cover
// for all sizes and all n.
//
// A go statement whose spawn arithmetic cannot be expressed (loop condition not `w < N`,
// a range expression using an operator or statement form the evaluator does not know) is
// emitted with kind "ranges?: <reason>" (a spawn loop whose arithmetic is not understood) or
// "unknown: <reason>" (the spawn structure itself is not understood): Properties/C12.v fails on
// both, Properties/C10.v only on the second.  The translator itself does not refuse here, so
// that no other property's check is affected.

import (
	"bytes"
	"fmt"
	"go/ast"
	"go/token"
	"path/filepath"
	"sort"
	"strconv"
	"strings"
)

func init() { extraGenerators = append(extraGenerators, genPartShapes) }

// ---- expressions

type psExpr struct {
	op         string // var const add sub mul div mod min max if
	name       string
	z          int64
	a, b, x, y *psExpr
	cmp        string // OLt OLe OGt OGe OEq ONe
}

func psVar(n string) *psExpr  { return &psExpr{op: "var", name: n} }
func psConst(z int64) *psExpr { return &psExpr{op: "const", z: z} }
func psBin(op string, a, b *psExpr) *psExpr {
	if a == nil || b == nil {
		return nil
	}
	return &psExpr{op: op, a: a, b: b}
}
func psIf(cmp string, a, b, x, y *psExpr) *psExpr {
	if a == nil || b == nil || x == nil || y == nil {
		return nil
	}
	return &psExpr{op: "if", cmp: cmp, a: a, b: b, x: x, y: y}
}

func (e *psExpr) coq() string {
	switch e.op {
	case "var":
		return "(PVar " + concCoqString(e.name) + ")"
	case "const":
		if e.z < 0 {
			return fmt.Sprintf("(PConst (%d))", e.z)
		}
		return fmt.Sprintf("(PConst %d)", e.z)
	case "if":
		return fmt.Sprintf("(PIf %s %s %s %s %s)", e.cmp, e.a.coq(), e.b.coq(), e.x.coq(), e.y.coq())
	}
	c := map[string]string{"add": "PAdd", "sub": "PSub", "mul": "PMul", "div": "PDiv", "mod": "PMod", "min": "PMin", "max": "PMax"}[e.op]
	return fmt.Sprintf("(%s %s %s)", c, e.a.coq(), e.b.coq())
}

func (e *psExpr) vars(into map[string]bool) {
	if e == nil {
		return
	}
	if e.op == "var" {
		into[e.name] = true
	}
	for _, s := range []*psExpr{e.a, e.b, e.x, e.y} {
		s.vars(into)
	}
}

func (e *psExpr) mentions(n string) bool {
	m := map[string]bool{}
	e.vars(m)
	return m[n]
}

// ---- symbolic evaluation

type psState struct {
	store   map[string]*psExpr // nil value: assigned something the evaluator does not understand
	funcs   map[string]*ast.FuncDecl
	why     *string // first reason something was not understood
	tracked map[string]bool
}

func (s *psState) clone() *psState {
	m := make(map[string]*psExpr, len(s.store))
	for k, v := range s.store {
		m[k] = v
	}
	return &psState{store: m, funcs: s.funcs, why: s.why, tracked: s.tracked}
}

func (s *psState) note(format string, a ...any) {
	if *s.why == "" {
		*s.why = fmt.Sprintf(format, a...)
	}
}

// mentionsTracked: does the expression mention an identifier the store knows (so that
// treating it as an opaque free variable would lose a dependency)?
func (s *psState) mentionsTracked(e ast.Expr) bool {
	found := false
	ast.Inspect(e, func(x ast.Node) bool {
		if id, ok := x.(*ast.Ident); ok {
			if _, ok := s.store[id.Name]; ok {
				found = true
			}
		}
		return !found
	})
	return found
}

func (s *psState) atom(e ast.Expr) *psExpr {
	if s.mentionsTracked(e) {
		s.note("expression %s is not arithmetic the evaluator knows", uvPrint(e))
		return nil
	}
	return psVar(uvPrint(e))
}

var psCmp = map[token.Token]string{token.LSS: "OLt", token.LEQ: "OLe", token.GTR: "OGt", token.GEQ: "OGe", token.EQL: "OEq", token.NEQ: "ONe"}

func (s *psState) expr(e ast.Expr, depth int) *psExpr {
	switch v := e.(type) {
	case *ast.ParenExpr:
		return s.expr(v.X, depth)
	case *ast.Ident:
		if val, ok := s.store[v.Name]; ok {
			if val == nil {
				s.note("variable %s holds a value the evaluator does not understand", v.Name)
			}
			return val
		}
		return psVar(v.Name)
	case *ast.BasicLit:
		if v.Kind == token.INT {
			if z, err := strconv.ParseInt(v.Value, 0, 64); err == nil {
				return psConst(z)
			}
		}
		return s.atom(e)
	case *ast.UnaryExpr:
		if v.Op == token.SUB {
			return psBin("sub", psConst(0), s.expr(v.X, depth))
		}
		if v.Op == token.ADD {
			return s.expr(v.X, depth)
		}
		return s.atom(e)
	case *ast.BinaryExpr:
		op := map[token.Token]string{token.ADD: "add", token.SUB: "sub", token.MUL: "mul", token.QUO: "div", token.REM: "mod"}[v.Op]
		if op != "" {
			return psBin(op, s.expr(v.X, depth), s.expr(v.Y, depth))
		}
		if v.Op == token.SHR || v.Op == token.SHL {
			if lit, ok := v.Y.(*ast.BasicLit); ok && lit.Kind == token.INT {
				if k, err := strconv.Atoi(lit.Value); err == nil && k >= 0 && k < 62 {
					if v.Op == token.SHR {
						return psBin("div", s.expr(v.X, depth), psConst(1<<uint(k)))
					}
					return psBin("mul", s.expr(v.X, depth), psConst(1<<uint(k)))
				}
			}
		}
		return s.atom(e)
	case *ast.CallExpr:
		if id, ok := v.Fun.(*ast.Ident); ok {
			switch id.Name {
			case "min", "max":
				if len(v.Args) >= 2 {
					r := s.expr(v.Args[0], depth)
					for _, a := range v.Args[1:] {
						r = psBin(id.Name, r, s.expr(a, depth))
					}
					return r
				}
			case "len", "cap":
				// opaque non-negative value
				return psVar(uvPrint(e))
			case "int", "int32", "int64", "uint", "uint32", "uint64":
				if len(v.Args) == 1 {
					return s.expr(v.Args[0], depth)
				}
			}
			if fd := s.funcs[id.Name]; fd != nil && depth < 3 {
				if rs := s.inline(fd, v.Args, depth+1); len(rs) == 1 {
					return rs[0]
				}
			}
			return s.atom(e)
		}
		if sel, ok := v.Fun.(*ast.SelectorExpr); ok {
			if pk, ok := sel.X.(*ast.Ident); ok {
				if pk.Name == "runtime" && (sel.Sel.Name == "GOMAXPROCS" || sel.Sel.Name == "NumCPU") {
					return psVar("#n")
				}
				if pk.Name == "verifhook" && (sel.Sel.Name == "Workers") && len(v.Args) == 2 {
					return s.expr(v.Args[1], depth)
				}
			}
		}
		return s.atom(e)
	}
	return s.atom(e)
}

func (s *psState) cond(e ast.Expr, depth int) (string, *psExpr, *psExpr, bool) {
	if p, ok := e.(*ast.ParenExpr); ok {
		return s.cond(p.X, depth)
	}
	be, ok := e.(*ast.BinaryExpr)
	if !ok || psCmp[be.Op] == "" {
		return "", nil, nil, false
	}
	a, b := s.expr(be.X, depth), s.expr(be.Y, depth)
	if a == nil || b == nil {
		return "", nil, nil, false
	}
	return psCmp[be.Op], a, b, true
}

// assignedIdents lists the identifiers assigned anywhere below n.
func psAssigned(n ast.Node) []string {
	var out []string
	ast.Inspect(n, func(x ast.Node) bool {
		switch v := x.(type) {
		case *ast.AssignStmt:
			for _, l := range v.Lhs {
				if id, ok := l.(*ast.Ident); ok && id.Name != "_" {
					out = append(out, id.Name)
				}
			}
		case *ast.IncDecStmt:
			if id, ok := v.X.(*ast.Ident); ok {
				out = append(out, id.Name)
			}
		case *ast.RangeStmt:
			for _, e := range []ast.Expr{v.Key, v.Value} {
				if id, ok := e.(*ast.Ident); ok && id.Name != "_" {
					out = append(out, id.Name)
				}
			}
		}
		return true
	})
	return out
}

// simpleAssigns: is the block made of plain assignments to identifiers only?
func psSimpleAssigns(b *ast.BlockStmt) bool {
	for _, st := range b.List {
		if isHookStmt(st) {
			continue
		}
		if ids, ok := st.(*ast.IncDecStmt); ok {
			if _, ok := ids.X.(*ast.Ident); ok {
				continue
			}
			return false
		}
		as, ok := st.(*ast.AssignStmt)
		if !ok || len(as.Lhs) != len(as.Rhs) {
			return false
		}
		for _, l := range as.Lhs {
			if _, ok := l.(*ast.Ident); !ok {
				return false
			}
		}
	}
	return true
}

func (s *psState) assign(as *ast.AssignStmt, depth int) {
	if len(as.Lhs) == len(as.Rhs) {
		vals := make([]*psExpr, len(as.Rhs))
		for i, r := range as.Rhs {
			id, ok := as.Lhs[i].(*ast.Ident)
			if !ok || id.Name == "_" {
				continue
			}
			switch as.Tok {
			case token.DEFINE, token.ASSIGN:
				// values nobody asks for may be anything: evaluate quietly
				q := s.clone()
				var dummy string
				q.why = &dummy
				vals[i] = q.expr(r, depth)
			case token.ADD_ASSIGN:
				vals[i] = psBin("add", s.expr(id, depth), s.expr(r, depth))
			case token.SUB_ASSIGN:
				vals[i] = psBin("sub", s.expr(id, depth), s.expr(r, depth))
			case token.MUL_ASSIGN:
				vals[i] = psBin("mul", s.expr(id, depth), s.expr(r, depth))
			case token.QUO_ASSIGN:
				vals[i] = psBin("div", s.expr(id, depth), s.expr(r, depth))
			default:
				vals[i] = nil
			}
		}
		for i := range as.Rhs {
			if id, ok := as.Lhs[i].(*ast.Ident); ok && id.Name != "_" {
				s.store[id.Name] = vals[i]
			}
		}
		return
	}
	// a, b := f(...)
	if len(as.Rhs) == 1 {
		if ce, ok := as.Rhs[0].(*ast.CallExpr); ok {
			if id, ok := ce.Fun.(*ast.Ident); ok && s.funcs[id.Name] != nil && depth < 3 {
				if rs := s.inline(s.funcs[id.Name], ce.Args, depth+1); len(rs) == len(as.Lhs) {
					for i, l := range as.Lhs {
						if lid, ok := l.(*ast.Ident); ok && lid.Name != "_" {
							s.store[lid.Name] = rs[i]
						}
					}
					return
				}
			}
		}
	}
	for _, l := range as.Lhs {
		if id, ok := l.(*ast.Ident); ok && id.Name != "_" {
			s.store[id.Name] = nil
		}
	}
}

// ifAssign: `if c { x = e ... } [else { ... }]` with plain assignments becomes conditional values.
func (s *psState) ifAssign(is *ast.IfStmt, depth int) bool {
	if is.Init != nil || !psSimpleAssigns(is.Body) {
		return false
	}
	var els *ast.BlockStmt
	if is.Else != nil {
		eb, ok := is.Else.(*ast.BlockStmt)
		if !ok || !psSimpleAssigns(eb) {
			return false
		}
		els = eb
	}
	op, a, b, ok := s.cond(is.Cond, depth)
	th, el := s.clone(), s.clone()
	for _, st := range is.Body.List {
		if !isHookStmt(st) {
			th.effect(st, depth)
		}
	}
	if els != nil {
		for _, st := range els.List {
			if !isHookStmt(st) {
				el.effect(st, depth)
			}
		}
	}
	names := psAssigned(is.Body)
	if els != nil {
		names = append(names, psAssigned(els)...)
	}
	for _, n := range names {
		if !ok {
			s.store[n] = nil
			continue
		}
		tv, tok := th.store[n]
		ev, eok := el.store[n]
		if !tok {
			tv = psVar(n)
		}
		if !eok {
			ev = psVar(n)
		}
		s.store[n] = psIf(op, a, b, tv, ev)
	}
	return true
}

// effect applies a statement that does not contain the go statement we are heading for.
func (s *psState) effect(st ast.Stmt, depth int) {
	switch v := st.(type) {
	case *ast.AssignStmt:
		s.assign(v, depth)
	case *ast.IncDecStmt:
		if id, ok := v.X.(*ast.Ident); ok {
			op := "add"
			if v.Tok == token.DEC {
				op = "sub"
			}
			s.store[id.Name] = psBin(op, s.expr(id, depth), psConst(1))
		}
	case *ast.DeclStmt:
		if gd, ok := v.Decl.(*ast.GenDecl); ok {
			for _, sp := range gd.Specs {
				if vs, ok := sp.(*ast.ValueSpec); ok {
					for i, n := range vs.Names {
						if i < len(vs.Values) {
							q := s.clone()
							var dummy string
							q.why = &dummy
							s.store[n.Name] = q.expr(vs.Values[i], depth)
						} else if t, ok := vs.Type.(*ast.Ident); ok && strings.HasPrefix(strings.TrimPrefix(t.Name, "u"), "int") {
							s.store[n.Name] = psConst(0)
						} else {
							delete(s.store, n.Name)
						}
					}
				}
			}
		}
	case *ast.IfStmt:
		if s.ifAssign(v, depth) {
			return
		}
		// a branch that leaves the function (`if n == 1 { return serial(...) }`) only
		// restricts the path; anything else makes the variables it assigns unknown
		leaves := false
		if n := len(v.Body.List); n > 0 {
			_, leaves = v.Body.List[n-1].(*ast.ReturnStmt)
		}
		if leaves && v.Else == nil {
			return
		}
		for _, n := range psAssigned(v) {
			s.store[n] = nil
		}
	case *ast.ExprStmt, *ast.DeferStmt, *ast.GoStmt, *ast.SendStmt, *ast.EmptyStmt:
	default:
		for _, n := range psAssigned(st) {
			s.store[n] = nil
		}
	}
}

// inline evaluates a package-local helper: assignments, conditional assignments,
// `if c { return ... }` followed by more code, and a final return.
func (s *psState) inline(fd *ast.FuncDecl, args []ast.Expr, depth int) []*psExpr {
	if fd.Body == nil || fd.Type.Results == nil || fd.Recv != nil {
		return nil
	}
	in := &psState{store: map[string]*psExpr{}, funcs: s.funcs, why: s.why, tracked: s.tracked}
	i := 0
	for _, f := range fd.Type.Params.List {
		for _, n := range f.Names {
			if i >= len(args) {
				return nil
			}
			in.store[n.Name] = s.expr(args[i], depth)
			i++
		}
	}
	if i != len(args) {
		return nil
	}
	var resNames []string
	for _, f := range fd.Type.Results.List {
		for _, n := range f.Names {
			resNames = append(resNames, n.Name)
			in.store[n.Name] = psConst(0)
		}
	}
	var run func(list []ast.Stmt, st *psState) []*psExpr
	run = func(list []ast.Stmt, st *psState) []*psExpr {
		for k, stm := range list {
			switch v := stm.(type) {
			case *ast.ReturnStmt:
				var out []*psExpr
				if len(v.Results) == 0 {
					for _, n := range resNames {
						out = append(out, st.store[n])
					}
					return out
				}
				for _, r := range v.Results {
					out = append(out, st.expr(r, depth))
				}
				return out
			case *ast.IfStmt:
				// if c { ...; return a } rest  ==>  c ? a : rest
				if n := len(v.Body.List); n > 0 && v.Else == nil && v.Init == nil {
					if _, isRet := v.Body.List[n-1].(*ast.ReturnStmt); isRet {
						op, a, b, ok := st.cond(v.Cond, depth)
						if !ok {
							return nil
						}
						th := run(v.Body.List, st.clone())
						el := run(list[k+1:], st.clone())
						if th == nil || el == nil || len(th) != len(el) {
							return nil
						}
						out := make([]*psExpr, len(th))
						for j := range th {
							out[j] = psIf(op, a, b, th[j], el[j])
						}
						return out
					}
				}
				st.effect(v, depth)
			default:
				st.effect(stm, depth)
			}
		}
		return nil
	}
	rs := run(fd.Body.List, in)
	for _, r := range rs {
		if r == nil {
			return nil
		}
	}
	return rs
}

// ---- sites

type psSite struct {
	file, fn, kind  string
	line            int
	nw, start, stop *psExpr
	brk             bool
}

func psContainsGo(n ast.Node) bool {
	found := false
	ast.Inspect(n, func(x ast.Node) bool {
		if _, ok := x.(*ast.GoStmt); ok {
			found = true
		}
		if _, ok := x.(*ast.FuncLit); ok && !found {
			// a go statement inside a nested function literal belongs to that literal;
			// still a go statement of this function for our purposes
			return true
		}
		return !found
	})
	return found
}

func genPartShapes() (string, string) {
	var sites []psSite
	for _, pd := range pkgDirs {
		p, err := load(pd.alias, pd.dir)
		if err != nil {
			continue
		}
		funcs := map[string]*ast.FuncDecl{}
		for _, f := range p.files {
			for _, d := range f.Decls {
				if fd, ok := d.(*ast.FuncDecl); ok && fd.Recv == nil && fd.Body != nil {
					funcs[fd.Name.Name] = fd
				}
			}
		}
		for _, f := range p.files {
			fname := filepath.ToSlash(filepath.Join(pd.dir, filepath.Base(p.fset.Position(f.Pos()).Filename)))
			for _, d := range f.Decls {
				fd, ok := d.(*ast.FuncDecl)
				if !ok || fd.Body == nil || !psContainsGo(fd.Body) {
					continue
				}
				add := func(g *ast.GoStmt, s psSite) {
					s.file, s.fn, s.line = fname, fd.Name.Name, p.fset.Position(g.Pos()).Line
					sites = append(sites, s)
				}
				var walk func(list []ast.Stmt, st *psState)
				spawnLoop := func(loop *ast.ForStmt, st *psState) {
					var why string
					st = st.clone()
					st.why = &why
					// "unknown": the spawn structure itself is not understood; "ranges?": it is a
					// spawn loop, but its range arithmetic could not be expressed
					structUnknown := func(g *ast.GoStmt, format string, a ...any) {
						add(g, psSite{kind: "unknown: " + fmt.Sprintf(format, a...)})
					}
					unknown := func(g *ast.GoStmt, format string, a ...any) {
						add(g, psSite{kind: "ranges?: " + fmt.Sprintf(format, a...)})
					}
					var g *ast.GoStmt
					for _, s2 := range loop.Body.List {
						if gs, ok := s2.(*ast.GoStmt); ok {
							g = gs
							break
						}
					}
					// loop header: for w := 0; w < N; w++
					W := ""
					if as, ok := loop.Init.(*ast.AssignStmt); ok && len(as.Lhs) == 1 && len(as.Rhs) == 1 {
						if id, ok := as.Lhs[0].(*ast.Ident); ok {
							if lit, ok := as.Rhs[0].(*ast.BasicLit); ok && lit.Value == "0" {
								W = id.Name
							}
						}
					}
					be, okc := loop.Cond.(*ast.BinaryExpr)
					inc, oki := loop.Post.(*ast.IncDecStmt)
					if W == "" || !okc || be.Op != token.LSS || uvPrint(be.X) != W || !oki || inc.Tok != token.INC || uvPrint(inc.X) != W {
						structUnknown(g, "spawn loop is not `for w := 0; w < N; w++`")
						return
					}
					// the loop bound: a variable never assigned before is the worker count handed in
					if id, ok := be.Y.(*ast.Ident); ok {
						if _, known := st.store[id.Name]; !known {
							st.store[id.Name] = psVar("#n")
						}
					}
					nw := st.expr(be.Y, 0)
					nwWhy := why
					why = ""
					st.store[W] = psVar("#w")
					var start, stop *psExpr
					brk := false
					type brkCond struct {
						op   string
						a, b *psExpr
					}
					var brks []brkCond
					haveRange := false
					for _, s2 := range loop.Body.List {
						if s2 == ast.Stmt(g) {
							break
						}
						if es, ok := s2.(*ast.ExprStmt); ok {
							if ce, ok := es.X.(*ast.CallExpr); ok {
								if sel, ok := ce.Fun.(*ast.SelectorExpr); ok && uvPrint(sel.X) == "verifhook" && sel.Sel.Name == "Range" && len(ce.Args) == 3 {
									start, stop = st.expr(ce.Args[1], 0), st.expr(ce.Args[2], 0)
									haveRange = true
								}
							}
							continue
						}
						if is, ok := s2.(*ast.IfStmt); ok && is.Else == nil && is.Init == nil && len(is.Body.List) == 1 {
							if br, ok := is.Body.List[0].(*ast.BranchStmt); ok && br.Tok == token.BREAK {
								op, a, b, ok := st.cond(is.Cond, 0)
								if !ok {
									unknown(g, "break condition %s", uvPrint(is.Cond))
									return
								}
								brks = append(brks, brkCond{op, a, b})
								continue
							}
						}
						st.effect(s2, 0)
					}
					if !haveRange {
						// no range is handed out through the hook: do the goroutine's arguments
						// carry values computed from the loop variable?
						var derived []*psExpr
						for _, a := range g.Call.Args {
							q := st.clone()
							var dummy string
							q.why = &dummy
							if v := q.expr(a, 0); v != nil && v.mentions("#w") && v.op != "var" {
								derived = append(derived, v)
							}
						}
						switch len(derived) {
						case 0:
							if nw == nil {
								nw = psVar("?")
							}
							add(g, psSite{kind: "workers", nw: nw})
						case 2:
							start, stop = derived[0], derived[1]
						default:
							unknown(g, "%d goroutine arguments derived from the loop variable and no verifhook.Range", len(derived))
							return
						}
						if len(derived) == 0 {
							return
						}
					}
					if nw == nil {
						unknown(g, "number of workers: %s", nwWhy)
						return
					}
					if start == nil || stop == nil {
						unknown(g, "range expressions: %s", why)
						return
					}
					for _, bc := range brks {
						// only `if start >= stop { break }` (or stop <= start)
						ok := (bc.op == "OGe" && bc.a.coq() == start.coq() && bc.b.coq() == stop.coq()) ||
							(bc.op == "OLe" && bc.a.coq() == stop.coq() && bc.b.coq() == start.coq())
						if !ok {
							unknown(g, "break condition is not `start >= end`")
							return
						}
						brk = true
					}
					add(g, psSite{kind: "ranges", nw: nw, start: start, stop: stop, brk: brk})
				}
				walk = func(list []ast.Stmt, st *psState) {
					for _, stm := range list {
						if !psContainsGo(stm) {
							st.effect(stm, 0)
							continue
						}
						switch v := stm.(type) {
						case *ast.GoStmt:
							add(v, psSite{kind: "single"})
						case *ast.ForStmt:
							direct := false
							for _, s2 := range v.Body.List {
								if _, ok := s2.(*ast.GoStmt); ok {
									direct = true
								}
							}
							if direct {
								spawnLoop(v, st)
							} else {
								in := st.clone()
								for _, n := range psAssigned(v) {
									in.store[n] = nil
								}
								walk(v.Body.List, in)
							}
							for _, n := range psAssigned(v) {
								st.store[n] = nil
							}
						case *ast.RangeStmt:
							direct := false
							for _, s2 := range v.Body.List {
								if g, ok := s2.(*ast.GoStmt); ok {
									direct = true
									add(g, psSite{kind: "workers", nw: psVar("len(" + uvPrint(v.X) + ")")})
								}
							}
							if !direct {
								in := st.clone()
								for _, n := range psAssigned(v) {
									in.store[n] = nil
								}
								walk(v.Body.List, in)
							}
							for _, n := range psAssigned(v) {
								st.store[n] = nil
							}
						case *ast.IfStmt:
							in := st.clone()
							if v.Init != nil {
								in.effect(v.Init, 0)
							}
							walk(v.Body.List, in.clone())
							switch e := v.Else.(type) {
							case *ast.BlockStmt:
								walk(e.List, in.clone())
							case *ast.IfStmt:
								walk([]ast.Stmt{e}, in.clone())
							}
							for _, n := range psAssigned(v) {
								st.store[n] = nil
							}
						case *ast.BlockStmt:
							walk(v.List, st)
						case *ast.SwitchStmt:
							for _, cl := range v.Body.List {
								if cc, ok := cl.(*ast.CaseClause); ok {
									walk(cc.Body, st.clone())
								}
							}
						default:
							// a go statement inside something else (function literal assigned to a
							// variable, select, ...): it exists, its spawn pattern is not understood
							ast.Inspect(stm, func(x ast.Node) bool {
								if g, ok := x.(*ast.GoStmt); ok {
									add(g, psSite{kind: "unknown: go statement inside " + fmt.Sprintf("%T", stm)})
								}
								return true
							})
						}
					}
				}
				var why string
				st0 := &psState{store: map[string]*psExpr{}, funcs: funcs, why: &why}
				// a parameter that bounds a spawn loop is the worker count handed in
				params := map[string]bool{}
				for _, f := range fd.Type.Params.List {
					for _, n := range f.Names {
						params[n.Name] = true
					}
				}
				ast.Inspect(fd.Body, func(x ast.Node) bool {
					if fs, ok := x.(*ast.ForStmt); ok {
						for _, s2 := range fs.Body.List {
							if _, isGo := s2.(*ast.GoStmt); isGo {
								if be, ok := fs.Cond.(*ast.BinaryExpr); ok {
									if id, ok := be.Y.(*ast.Ident); ok && params[id.Name] {
										st0.store[id.Name] = psVar("#n")
									}
								}
							}
						}
					}
					return true
				})
				walk(fd.Body.List, st0)
			}
		}
	}
	sort.SliceStable(sites, func(i, j int) bool {
		if sites[i].file != sites[j].file {
			return sites[i].file < sites[j].file
		}
		return sites[i].line < sites[j].line
	})
	var out bytes.Buffer
	out.WriteString("(* GENERATED by tools/gosrc2v (partshapes.go) from /repo's current source. Do not edit. *)\nFrom Coq Require Import String List ZArith.\nFrom Webp Require Import Conc.ConcPartExpr.\nImport ListNotations.\nOpen Scope string_scope.\nOpen Scope Z_scope.\n\n")
	// sub-expressions that occur more than once are emitted once, as named definitions
	refs := map[*psExpr]int{}
	var count func(e *psExpr)
	count = func(e *psExpr) {
		if e == nil {
			return
		}
		refs[e]++
		if refs[e] > 1 {
			return
		}
		for _, c := range []*psExpr{e.a, e.b, e.x, e.y} {
			count(c)
		}
	}
	zero := psConst(0)
	for i := range sites {
		if sites[i].nw == nil {
			sites[i].nw = zero
		}
		if sites[i].start == nil || sites[i].stop == nil {
			sites[i].start, sites[i].stop = zero, zero
		}
		count(sites[i].nw)
		count(sites[i].start)
		count(sites[i].stop)
	}
	names := map[*psExpr]string{}
	var emit func(e *psExpr) string
	emit = func(e *psExpr) string {
		if n, ok := names[e]; ok {
			return n
		}
		var txt string
		switch e.op {
		case "var", "const":
			return e.coq()
		case "if":
			txt = fmt.Sprintf("(PIf %s %s %s %s %s)", e.cmp, emit(e.a), emit(e.b), emit(e.x), emit(e.y))
		default:
			c := map[string]string{"add": "PAdd", "sub": "PSub", "mul": "PMul", "div": "PDiv", "mod": "PMod", "min": "PMin", "max": "PMax"}[e.op]
			txt = fmt.Sprintf("(%s %s %s)", c, emit(e.a), emit(e.b))
		}
		if refs[e] > 1 {
			n := fmt.Sprintf("e%d", len(names)+1)
			names[e] = n
			fmt.Fprintf(&out, "Definition %s : pexpr := %s.\n", n, txt)
			return n
		}
		return txt
	}
	type row struct{ nw, start, stop string }
	rows := make([]row, len(sites))
	for i, s := range sites {
		rows[i] = row{emit(s.nw), emit(s.start), emit(s.stop)}
	}
	out.WriteString("\n(* every go statement: file, function, kind (ranges / workers / single / unknown: reason), number of\n   spawn-loop iterations, range handed to worker #w, break at the first empty range, free variables *)\nDefinition sites : list site :=\n  [")
	for i, s := range sites {
		if i > 0 {
			out.WriteString(";\n   ")
		}
		vs := map[string]bool{}
		s.nw.vars(vs)
		s.start.vars(vs)
		s.stop.vars(vs)
		delete(vs, "#n")
		delete(vs, "#w")
		var vnames []string
		for v := range vs {
			vnames = append(vnames, concCoqString(v))
		}
		sort.Strings(vnames)
		fmt.Fprintf(&out, "mkSite %s %s %s\n     %s\n     %s\n     %s\n     %v [%s]", concCoqString(s.file), concCoqString(s.fn), concCoqString(s.kind),
			rows[i].nw, rows[i].start, rows[i].stop, s.brk, strings.Join(vnames, "; "))
	}
	out.WriteString("].\n")
	return "PartShapes.v", out.String()
}
