package main

// partshapes.go — emits coq/Gen/PartShapes.v: for every go statement of the library, the
// SHAPE of the partition arithmetic around it, recognised from the source:
// the statements that clamp the worker count and define the chunk size before the spawn
// loop, and the statements that compute one worker's range inside it, are printed with the
// role-carrying identifiers normalised (N worker count, W loop variable, C chunk, S / E
// start / end of the range, T total) and looked up in a table of known shapes.  Statements
// that do not take part in the arithmetic (they neither assign the worker count nor derive
// a value from the loop variable) are ignored, as are the names of the variables.  An unknown
// shape makes the translator REFUSE.  Properties/C12.v states that the generated
// (file, function, shape) list equals the modelled one, where every shape is the model
// function ([ranges_ceil], [ranges_prop], ...) whose exact-cover theorem is proved for all
// n: a site whose arithmetic changes (e.g. floor instead of ceil chunks) breaks a proof
// obligation, not only the differential run.

import (
	"bytes"
	"fmt"
	"go/ast"
	"go/token"
	"path/filepath"
	"regexp"
	"sort"
	"strings"
)

func init() { extraGenerators = append(extraGenerators, genPartShapes) }

// known shapes: normalised code -> shape name (the model function it corresponds to)
var partShapeTable = map[string]string{
	// ceil-sized chunks, clipped: start = w*c, end = min(start+c, T), c = ceil(T/n'), n' = min(n, T)
	"PRE: N := runtime.GOMAXPROCS(0) ; if N > T { N = T } ; C := (T + N - 1) / N | LOOP: S := W * C ; E := S + C ; if E > T { E = T }": "ranges_ceil",
	// proportional bounds: start = w*T/n', end = (w+1)*T/n', n' = min(n, T)
	"PRE: N := runtime.GOMAXPROCS(0) ; if N > T { N = T } | LOOP: S := W * T / N ; E := (W + 1) * T / N": "ranges_prop",
	// floor-sized chunks, last worker takes the remainder, n not clipped (argbToNRGBA)
	"PRE: C := T / N | LOOP: S := W * C ; E := S + C ; if W == N-1 { E = T }": "ranges_argb_to_nrgba",
	// floor-sized chunks with offset, last worker takes the remainder, n' = min(n, rows)
	"PRE: if N > numRows { N = numRows } ; C := numRows / N | LOOP: S := yStart + W*C ; E := S + C ; if W == N-1 { E = T }": "ranges_inv_cross_color",
	// hash chain positions [1, size-1)
	"PRE: if N > size/1000 { N = size / 1000 } ; if N < 1 { N = 1 } ; C := (size - 2 + N - 1) / N | LOOP: S := 1 + W*C ; E := S + C ; if E > size-1 { E = size - 1 }": "ranges_hashchain",
	// computeAlphas: serial path for one worker, ceil-sized row chunks with break
	"PRE: N := runtime.GOMAXPROCS(0) ; if N > total { N = total } ; if N < 1 { N = 1 } ; if N == 1 { return computeAlphasSerial(enc, alphas) } ; C := (T + N - 1) / N | LOOP: S := W * C ; E := S + C ; if E > T { E = T } ; if S >= E { break }": "ranges_compute_alphas",
	// work queues: only the worker count is derived from n
	"PRE: N := runtime.GOMAXPROCS(0) ; if N > 6 { N = 6 } ; if N > mbH { N = mbH } ; if N < 1 { N = 1 } | LOOP: ": "workers_encode_parallel",
	"PRE: N := runtime.GOMAXPROCS(0) ; if N > len(toDecodeIdx) { N = len(toDecodeIdx) } | LOOP: ":                                                                                                "workers_decode_frames",
	// the goroutine that closes the results channel after wg.Wait()
	"PRE:  | LOOP: <not in a spawn loop>": "join_closer",
}

func partNormalise(pre, in []string) string {
	return "PRE: " + strings.Join(pre, " ; ") + " | LOOP: " + strings.Join(in, " ; ")
}

func genPartShapes() (string, string) {
	type rec struct {
		file, fn, shape, code string
		line                  int
	}
	var recs []rec
	identRe := func(name string) *regexp.Regexp { return regexp.MustCompile(`\b` + regexp.QuoteMeta(name) + `\b`) }
	for _, pd := range pkgDirs {
		p, err := load(pd.alias, pd.dir)
		if err != nil {
			continue
		}
		for _, f := range p.files {
			fname := filepath.ToSlash(filepath.Join(pd.dir, filepath.Base(p.fset.Position(f.Pos()).Filename)))
			for _, d := range f.Decls {
				fd, ok := d.(*ast.FuncDecl)
				if !ok || fd.Body == nil {
					continue
				}
				// every block, to find the block whose for-loop spawns the goroutine
				var visitBlock func(b *ast.BlockStmt)
				handleGo := func(block *ast.BlockStmt, idx int, loop *ast.ForStmt, g *ast.GoStmt) {
					line := p.fset.Position(g.Pos()).Line
					if loop == nil {
						recs = append(recs, rec{fname, fd.Name.Name, partShapeTable["PRE:  | LOOP: <not in a spawn loop>"], "PRE:  | LOOP: <not in a spawn loop>", line})
						return
					}
					// N and W from the loop condition W < N
					N, W := "", ""
					if be, ok := loop.Cond.(*ast.BinaryExpr); ok && be.Op == token.LSS {
						W, N = uvPrint(be.X), uvPrint(be.Y)
					}
					if N == "" || W == "" {
						recs = append(recs, rec{fname, fd.Name.Name, "", "PRE:  | LOOP: <unrecognised loop condition " + uvPrint(loop.Cond) + ">", line})
						return
					}
					skip := func(st ast.Stmt) bool {
						s := uvPrint(st)
						return isHookStmt(st) || strings.Contains(s, "verifhook.") || strings.HasPrefix(s, "var ") ||
							strings.Contains(s, ".Add(") || strings.Contains(s, "wg.") || strings.Contains(s, "WaitGroup")
					}
					// Only the statements that take part in the partition arithmetic are kept:
				// before the loop, assignments to the worker count N (also inside an if), the
				// definition of a chunk size from N, and an `if <N ...> { return ... }` that
				// switches to a serial path; inside the loop, assignments / ifs that mention
				// the loop variable or a value derived from it.  Everything else (logging,
				// unrelated set-up, uses of N that do not change it) is a no-op for the shape.
				assigns := func(st ast.Stmt, name string) bool {
					found := false
					ast.Inspect(st, func(x ast.Node) bool {
						switch v := x.(type) {
						case *ast.AssignStmt:
							for _, l := range v.Lhs {
								if id, ok := l.(*ast.Ident); ok && id.Name == name {
									found = true
								}
							}
						case *ast.IncDecStmt:
							if id, ok := v.X.(*ast.Ident); ok && id.Name == name {
								found = true
							}
						}
						return !found
					})
					return found
				}
				chunkDef := regexp.MustCompile(`^(\w+) := .*/ ` + regexp.QuoteMeta(N) + `$`)
				var pre []string
				for _, st := range block.List[:idx] {
					txt := uvPrint(st)
					if skip(st) || !identRe(N).MatchString(txt) {
						continue
					}
					keep := assigns(st, N) || chunkDef.MatchString(txt)
					if is, ok := st.(*ast.IfStmt); ok && identRe(N).MatchString(uvPrint(is.Cond)) && strings.Contains(txt, "return") {
						keep = true
					}
					if keep {
						pre = append(pre, txt)
					}
				}
				var in []string
				derived := []string{W}
				for _, s := range pre {
					if m := chunkDef.FindStringSubmatch(s); m != nil {
						derived = append(derived, m[1])
					}
				}
				mentions := func(txt string) bool {
					for _, d := range derived {
						if identRe(d).MatchString(txt) {
							return true
						}
					}
					return false
				}
				for _, st := range loop.Body.List {
					if st == ast.Stmt(g) {
						break
					}
					if skip(st) {
						continue
					}
					txt := uvPrint(st)
					switch v := st.(type) {
					case *ast.AssignStmt:
						if !mentions(txt) {
							continue
						}
						if v.Tok == token.DEFINE {
							for _, l := range v.Lhs {
								if id, ok := l.(*ast.Ident); ok {
									derived = append(derived, id.Name)
								}
							}
						}
					case *ast.IfStmt:
						if !mentions(txt) {
							continue
						}
					default:
						continue
					}
					in = append(in, txt)
				}
				// roles
					C, S, E, T := "", "", "", ""
					for _, s := range pre {
						if m := regexp.MustCompile(`^(\w+) := .*/ ` + regexp.QuoteMeta(N) + `$`).FindStringSubmatch(s); m != nil {
							C = m[1]
						}
					}
					defs := regexp.MustCompile(`^(\w+) := `)
					for _, s := range in {
						if m := defs.FindStringSubmatch(s); m != nil {
							if S == "" {
								S = m[1]
							} else if E == "" {
								E = m[1]
							}
						}
					}
					if E != "" {
						for _, s := range in {
							if m := regexp.MustCompile(`^if ` + regexp.QuoteMeta(E) + ` > (.+) \{ ` + regexp.QuoteMeta(E) + ` = (.+) \}$`).FindStringSubmatch(s); m != nil && m[1] == m[2] {
								T = m[1]
							}
							if m := regexp.MustCompile(`^if ` + regexp.QuoteMeta(W) + ` == ` + regexp.QuoteMeta(N) + `-1 \{ ` + regexp.QuoteMeta(E) + ` = (.+) \}$`).FindStringSubmatch(s); m != nil {
								T = m[1]
							}
						}
					}
					if T == "" && S != "" {
						for _, s := range in {
							if m := regexp.MustCompile(`^` + regexp.QuoteMeta(S) + ` := ` + regexp.QuoteMeta(W) + ` \* (.+) / ` + regexp.QuoteMeta(N) + `$`).FindStringSubmatch(s); m != nil {
								T = m[1]
							}
						}
					}
					isIdent := regexp.MustCompile(`^\w+$`)
					norm := func(s string) string {
						for _, kv := range [][2]string{{N, "N"}, {W, "W"}, {C, "C"}, {S, "S"}, {E, "E"}} {
							if kv[0] != "" {
								s = identRe(kv[0]).ReplaceAllString(s, kv[1])
							}
						}
						if T != "" {
							if isIdent.MatchString(T) {
								s = identRe(T).ReplaceAllString(s, "T")
							} else {
								s = strings.ReplaceAll(s, T, "T")
							}
						}
						return s
					}
					for i := range pre {
						pre[i] = norm(pre[i])
					}
					for i := range in {
						in[i] = norm(in[i])
					}
					code := partNormalise(pre, in)
					recs = append(recs, rec{fname, fd.Name.Name, partShapeTable[code], code, line})
				}
				visitBlock = func(b *ast.BlockStmt) {
					for i, st := range b.List {
						switch v := st.(type) {
						case *ast.GoStmt:
							handleGo(b, i, nil, v)
						case *ast.ForStmt:
							spawned := false
							for _, s2 := range v.Body.List {
								if g, ok := s2.(*ast.GoStmt); ok {
									handleGo(b, i, v, g)
									spawned = true
								}
							}
							if !spawned {
								visitBlock(v.Body)
							}
						case *ast.IfStmt:
							visitBlock(v.Body)
							if eb, ok := v.Else.(*ast.BlockStmt); ok {
								visitBlock(eb)
							}
						case *ast.BlockStmt:
							visitBlock(v)
						case *ast.RangeStmt:
							visitBlock(v.Body)
						case *ast.SwitchStmt:
							for _, cl := range v.Body.List {
								if cc, ok := cl.(*ast.CaseClause); ok {
									visitBlock(&ast.BlockStmt{List: cc.Body})
								}
							}
						}
					}
				}
				visitBlock(fd.Body)
			}
		}
	}
	sort.SliceStable(recs, func(i, j int) bool {
		if recs[i].file != recs[j].file {
			return recs[i].file < recs[j].file
		}
		return recs[i].line < recs[j].line
	})
	var out bytes.Buffer
	out.WriteString("(* GENERATED by tools/gosrc2v (partshapes.go) from /repo's current source. Do not edit. *)\nFrom Coq Require Import List String.\nImport ListNotations.\nOpen Scope string_scope.\n\n")
	out.WriteString("(* every go statement: (file, enclosing function, recognised partition shape) *)\nDefinition site_shapes : list (string * string * string) :=\n  [")
	for i, r := range recs {
		if r.shape == "" {
			refuse("partshapes: %s %s (line %d): unknown partition shape: %s", r.file, r.fn, r.line, r.code)
		}
		if i > 0 {
			out.WriteString(";\n   ")
		}
		fmt.Fprintf(&out, "(%s, %s, %s)", concCoqString(r.file), concCoqString(r.fn), concCoqString(r.shape))
	}
	out.WriteString("].\n\n(* the normalised code each shape was recognised from *)\nDefinition site_codes : list string :=\n  [")
	for i, r := range recs {
		if i > 0 {
			out.WriteString(";\n   ")
		}
		out.WriteString(concCoqString(r.code))
	}
	out.WriteString("].\n")
	return "PartShapes.v", out.String()
}
