package main

// scratchregion.go — emits coq/Gen/ScratchRegion.v: for the two analysis kernels of
// internal/lossy/encode_analysis.go (computeMBAlphaDCTWith, computeMBUVAlphaDCTWith) and
// each of their scratch parameters, the set of cells STORED and the set of cells READ,
// as (row, column) pairs of a dsp.BPS-strided buffer (index = row*BPS + column).
//
// The kernel bodies are evaluated symbolically: loops with constant bounds are unrolled,
// index expressions are affine in the loop variables with coefficients that are integers or
// dsp.BPS, package-local callees are entered with the argument's base offset,
// dsp.FTransformDirect(src, ref, out) reads a 4x4 block (rows 0..3, columns 0..3) of src and
// ref and stores out[0..15].  Stores under an `if` without `else` do not count as stores;
// the stores of a `switch` are those made by EVERY clause (the clause values and the range
// of the tag are emitted so that exhaustiveness is checked in Coq).  Anything else — a
// non-constant loop bound around an access, a non-affine index — makes the translator
// refuse.  Properties/C12.v checks by computation that every cell read is a cell stored.

import (
	"bytes"
	"fmt"
	"go/ast"
	"go/constant"
	"go/token"
	"sort"
	"strings"
)

func init() { extraGenerators = append(extraGenerators, genScratchRegion) }

type srAff struct {
	c int
	v map[string]int
}

func srConst(c int) srAff { return srAff{c, map[string]int{}} }
func (a srAff) isConst() bool {
	for _, k := range a.v {
		if k != 0 {
			return false
		}
	}
	return true
}
func srAdd(a, b srAff) srAff {
	r := srAff{a.c + b.c, map[string]int{}}
	for k, v := range a.v {
		r.v[k] += v
	}
	for k, v := range b.v {
		r.v[k] += v
	}
	return r
}
func srScale(a srAff, k int) srAff {
	r := srAff{a.c * k, map[string]int{}}
	for n, v := range a.v {
		r.v[n] = v * k
	}
	return r
}

// value = A*BPS + B
type srVal struct{ A, B srAff }

type srLoop struct {
	v      string
	lo, hi int
}

type srCell struct{ r, c int }

type srSets struct{ w, r map[srCell]bool }

func srNew() srSets { return srSets{map[srCell]bool{}, map[srCell]bool{}} }

type srCtx struct {
	p     *pkgInfo
	funcs map[string]*ast.FuncDecl
	bad   *string
	// switch facts: function, tag, case values
	switches *[]string
}

func (cx *srCtx) fail(format string, a ...any) {
	if *cx.bad == "" {
		*cx.bad = fmt.Sprintf(format, a...)
	}
}

func (cx *srCtx) constInt(e ast.Expr) (int, bool) {
	if tv, ok := cx.p.info.Types[e]; ok && tv.Value != nil {
		if v, ok := constant.Int64Val(constant.ToInt(tv.Value)); ok {
			return int(v), true
		}
	}
	return 0, false
}

// eval evaluates an index expression; env: local definitions (off := ...), loop variables are free.
func (cx *srCtx) eval(e ast.Expr, env map[string]srVal, loops []srLoop) (srVal, bool) {
	if c, ok := cx.constInt(e); ok {
		if sel, isSel := e.(*ast.SelectorExpr); isSel && sel.Sel.Name == "BPS" {
			return srVal{srConst(1), srConst(0)}, true
		}
		return srVal{srConst(0), srConst(c)}, true
	}
	switch x := e.(type) {
	case *ast.ParenExpr:
		return cx.eval(x.X, env, loops)
	case *ast.Ident:
		if v, ok := env[x.Name]; ok {
			return v, true
		}
		for _, l := range loops {
			if l.v == x.Name {
				return srVal{srConst(0), srAff{0, map[string]int{x.Name: 1}}}, true
			}
		}
		return srVal{}, false
	case *ast.BinaryExpr:
		a, ok1 := cx.eval(x.X, env, loops)
		b, ok2 := cx.eval(x.Y, env, loops)
		if !ok1 || !ok2 {
			return srVal{}, false
		}
		switch x.Op {
		case token.ADD:
			return srVal{srAdd(a.A, b.A), srAdd(a.B, b.B)}, true
		case token.MUL:
			// one side must be a plain integer, or one side pure BPS and the other BPS-free
			if a.A.isConst() && a.A.c == 0 && a.B.isConst() {
				return srVal{srScale(b.A, a.B.c), srScale(b.B, a.B.c)}, true
			}
			if b.A.isConst() && b.A.c == 0 && b.B.isConst() {
				return srVal{srScale(a.A, b.B.c), srScale(a.B, b.B.c)}, true
			}
			pureBPS := func(v srVal) bool { return v.A.isConst() && v.A.c == 1 && v.B.isConst() && v.B.c == 0 }
			bpsFree := func(v srVal) bool { return v.A.isConst() && v.A.c == 0 }
			if pureBPS(b) && bpsFree(a) {
				return srVal{a.B, srConst(0)}, true
			}
			if pureBPS(a) && bpsFree(b) {
				return srVal{b.B, srConst(0)}, true
			}
		}
	}
	return srVal{}, false
}

// enumerate all cells of val (+ footprint) over the loop ranges
func srCells(v srVal, loops []srLoop, rows, cols int, into map[srCell]bool) {
	var rec func(i int, asg map[string]int)
	rec = func(i int, asg map[string]int) {
		if i == len(loops) {
			evalAff := func(a srAff) int {
				s := a.c
				for n, k := range a.v {
					s += k * asg[n]
				}
				return s
			}
			r0, c0 := evalAff(v.A), evalAff(v.B)
			for r := 0; r < rows; r++ {
				for c := 0; c < cols; c++ {
					into[srCell{r0 + r, c0 + c}] = true
				}
			}
			return
		}
		for x := loops[i].lo; x < loops[i].hi; x++ {
			asg[loops[i].v] = x
			rec(i+1, asg)
		}
	}
	rec(0, map[string]int{})
}

func srMentions(n ast.Node, name string) bool {
	found := false
	ast.Inspect(n, func(x ast.Node) bool {
		if id, ok := x.(*ast.Ident); ok && id.Name == name {
			found = true
		}
		return !found
	})
	return found
}

// paramUse: e is `p`, `p[lo:]`, `p[:]` -> base offset; ok=false if e is not such a use of p
func (cx *srCtx) paramBase(e ast.Expr, p string, base srVal, env map[string]srVal, loops []srLoop) (srVal, bool) {
	switch x := e.(type) {
	case *ast.Ident:
		if x.Name == p {
			return base, true
		}
	case *ast.SliceExpr:
		if id, ok := x.X.(*ast.Ident); ok && id.Name == p && x.High == nil {
			if x.Low == nil {
				return base, true
			}
			if off, ok := cx.eval(x.Low, env, loops); ok {
				return srVal{srAdd(base.A, off.A), srAdd(base.B, off.B)}, true
			}
			cx.fail("non-affine slice offset %s", uvPrint(x))
		}
	}
	return srVal{}, false
}

func (cx *srCtx) walkStmts(fn string, list []ast.Stmt, p string, base srVal, env map[string]srVal, loops []srLoop, depth int) srSets {
	out := srNew()
	merge := func(s srSets) {
		for k := range s.w {
			out.w[k] = true
		}
		for k := range s.r {
			out.r[k] = true
		}
	}
	for _, st := range list {
		merge(cx.walkStmt(fn, st, p, base, env, loops, depth))
	}
	return out
}

func (cx *srCtx) exprReads(fn string, e ast.Expr, p string, base srVal, env map[string]srVal, loops []srLoop, depth int, out srSets) {
	if e == nil || !srMentions(e, p) {
		return
	}
	switch x := e.(type) {
	case *ast.IndexExpr:
		if id, ok := x.X.(*ast.Ident); ok && id.Name == p {
			if idx, ok := cx.eval(x.Index, env, loops); ok {
				srCells(srVal{srAdd(base.A, idx.A), srAdd(base.B, idx.B)}, loops, 1, 1, out.r)
			} else {
				cx.fail("%s: non-affine read index %s", fn, uvPrint(x))
			}
			return
		}
	case *ast.CallExpr:
		cx.call(fn, x, p, base, env, loops, depth, out)
		return
	}
	// generic descent
	ast.Inspect(e, func(n ast.Node) bool {
		if n == ast.Node(e) {
			return true
		}
		if sub, ok := n.(ast.Expr); ok {
			switch sub.(type) {
			case *ast.IndexExpr, *ast.CallExpr:
				cx.exprReads(fn, sub, p, base, env, loops, depth, out)
				return false
			case *ast.Ident:
				if sub.(*ast.Ident).Name == p {
					cx.fail("%s: scratch parameter %s used in an unsupported way in %s", fn, p, uvPrint(e))
				}
			}
		}
		return true
	})
}

func (cx *srCtx) call(fn string, ce *ast.CallExpr, p string, base srVal, env map[string]srVal, loops []srLoop, depth int, out srSets) {
	name := ""
	switch f := ce.Fun.(type) {
	case *ast.Ident:
		name = f.Name
	case *ast.SelectorExpr:
		name = f.Sel.Name
	}
	for i, a := range ce.Args {
		if !srMentions(a, p) {
			continue
		}
		b, ok := cx.paramBase(a, p, base, env, loops)
		if !ok {
			// e.g. int(tmpCoeffs[k]) : an expression argument
			cx.exprReads(fn, a, p, base, env, loops, depth, out)
			continue
		}
		switch {
		case name == "FTransformDirect" && (i == 0 || i == 1):
			srCells(b, loops, 4, 4, out.r)
		case name == "FTransformDirect" && i == 2:
			srCells(b, loops, 1, 16, out.w)
		default:
			fd := cx.funcs[name]
			if fd == nil || depth > 4 {
				cx.fail("%s: scratch parameter %s passed to %s, which is not analysed", fn, p, name)
				continue
			}
			k := 0
			for _, fl := range fd.Type.Params.List {
				for _, n := range fl.Names {
					if k == i {
						// loop variables of the caller stay free in the base offset
						sub := cx.walkStmts(name, fd.Body.List, n.Name, b, map[string]srVal{}, loops, depth+1)
						for c := range sub.w {
							out.w[c] = true
						}
						for c := range sub.r {
							out.r[c] = true
						}
					}
					k++
				}
			}
		}
	}
}

func (cx *srCtx) walkStmt(fn string, st ast.Stmt, p string, base srVal, env map[string]srVal, loops []srLoop, depth int) srSets {
	out := srNew()
	if st == nil {
		return out
	}
	switch v := st.(type) {
	case *ast.BlockStmt:
		return cx.walkStmts(fn, v.List, p, base, env, loops, depth)
	case *ast.ForStmt:
		if !srMentions(v.Body, p) {
			return out
		}
		as, ok := v.Init.(*ast.AssignStmt)
		var lv string
		lo, hi, okb := 0, 0, false
		if ok && len(as.Lhs) == 1 && len(as.Rhs) == 1 {
			if id, isID := as.Lhs[0].(*ast.Ident); isID {
				lv = id.Name
				if c, ok := cx.constInt(as.Rhs[0]); ok {
					lo = c
					if be, ok := v.Cond.(*ast.BinaryExpr); ok {
						if c2, ok := cx.constInt(be.Y); ok && uvPrint(be.X) == lv {
							switch be.Op {
							case token.LSS:
								hi, okb = c2, true
							case token.LEQ:
								hi, okb = c2+1, true
							}
						}
					}
				}
			}
		}
		if !okb {
			cx.fail("%s: loop with non-constant bounds around an access to %s: %s", fn, p, uvPrint(v.Cond))
			return out
		}
		return cx.walkStmts(fn, v.Body.List, p, base, env, append(append([]srLoop{}, loops...), srLoop{lv, lo, hi}), depth)
	case *ast.IfStmt:
		cx.exprReads(fn, v.Cond, p, base, env, loops, depth, out)
		a := cx.walkStmt(fn, v.Body, p, base, env, loops, depth)
		b := srNew()
		if v.Else != nil {
			b = cx.walkStmt(fn, v.Else, p, base, env, loops, depth)
		}
		for c := range a.r {
			out.r[c] = true
		}
		for c := range b.r {
			out.r[c] = true
		}
		for c := range a.w {
			if b.w[c] {
				out.w[c] = true
			}
		}
		return out
	case *ast.SwitchStmt:
		if !srMentions(v.Body, p) {
			return out
		}
		var vals []string
		first := true
		for _, cl := range v.Body.List {
			cc := cl.(*ast.CaseClause)
			for _, e := range cc.List {
				if c, ok := cx.constInt(e); ok {
					vals = append(vals, fmt.Sprint(c))
				} else {
					vals = append(vals, "?")
				}
			}
			s := cx.walkStmts(fn, cc.Body, p, base, env, loops, depth)
			for c := range s.r {
				out.r[c] = true
			}
			if first {
				for c := range s.w {
					out.w[c] = true
				}
				first = false
			} else {
				for c := range out.w {
					if !s.w[c] {
						delete(out.w, c)
					}
				}
			}
		}
		*cx.switches = append(*cx.switches, fmt.Sprintf("%s|%s|%s|%s", fn, p, uvPrint(v.Tag), strings.Join(vals, ",")))
		return out
	case *ast.AssignStmt:
		for _, r := range v.Rhs {
			cx.exprReads(fn, r, p, base, env, loops, depth, out)
		}
		for _, l := range v.Lhs {
			if ie, ok := l.(*ast.IndexExpr); ok {
				if id, ok := ie.X.(*ast.Ident); ok && id.Name == p {
					idx, ok := cx.eval(ie.Index, env, loops)
					if !ok {
						cx.fail("%s: non-affine store index %s", fn, uvPrint(ie))
						continue
					}
					cell := srVal{srAdd(base.A, idx.A), srAdd(base.B, idx.B)}
					if v.Tok == token.ASSIGN {
						srCells(cell, loops, 1, 1, out.w)
					} else {
						srCells(cell, loops, 1, 1, out.r)
					}
					continue
				}
			}
			if srMentions(l, p) {
				cx.fail("%s: unsupported store through %s: %s", fn, p, uvPrint(l))
			}
		}
		// local definitions usable in later index expressions (off := by*4*dsp.BPS + bx*4)
		if v.Tok == token.DEFINE && len(v.Lhs) == 1 && len(v.Rhs) == 1 {
			if id, ok := v.Lhs[0].(*ast.Ident); ok {
				if val, ok := cx.eval(v.Rhs[0], env, loops); ok {
					env[id.Name] = val
				} else {
					delete(env, id.Name)
				}
			}
		}
		return out
	case *ast.ExprStmt:
		cx.exprReads(fn, v.X, p, base, env, loops, depth, out)
		return out
	case *ast.IncDecStmt:
		cx.exprReads(fn, v.X, p, base, env, loops, depth, out)
		return out
	case *ast.ReturnStmt:
		for _, r := range v.Results {
			cx.exprReads(fn, r, p, base, env, loops, depth, out)
		}
		return out
	case *ast.BranchStmt, *ast.DeclStmt, *ast.EmptyStmt:
		if srMentions(st, p) {
			cx.fail("%s: unsupported statement touching %s: %s", fn, p, uvPrint(st))
		}
		return out
	}
	if srMentions(st, p) {
		cx.fail("%s: unsupported statement touching %s: %s", fn, p, uvPrint(st))
	}
	return out
}

func genScratchRegion() (string, string) {
	p, err := load("lossy", "internal/lossy")
	if err != nil {
		refuse("scratchregion: cannot load internal/lossy: %v", err)
		return "ScratchRegion.v", "(* not generated *)\n"
	}
	funcs := map[string]*ast.FuncDecl{}
	for _, f := range p.files {
		for _, d := range f.Decls {
			if fd, ok := d.(*ast.FuncDecl); ok && fd.Body != nil && fd.Recv == nil {
				funcs[fd.Name.Name] = fd
			}
		}
	}
	bad := ""
	var switches []string
	cx := &srCtx{p: p, funcs: funcs, bad: &bad, switches: &switches}
	var out bytes.Buffer
	out.WriteString("(* GENERATED by tools/gosrc2v (scratchregion.go) from /repo's current source. Do not edit. *)\nFrom Coq Require Import List String.\nImport ListNotations.\nOpen Scope string_scope.\n\n")
	cells := func(m map[srCell]bool) string {
		var l []srCell
		for c := range m {
			l = append(l, c)
		}
		sort.Slice(l, func(i, j int) bool { return l[i].r < l[j].r || (l[i].r == l[j].r && l[i].c < l[j].c) })
		s := make([]string, len(l))
		for i, c := range l {
			s[i] = fmt.Sprintf("(%d,%d)", c.r, c.c)
		}
		return "[" + strings.Join(s, ";") + "]"
	}
	out.WriteString("(* kernel, scratch parameter, cells stored, cells read; a cell is (row, column), index = row*BPS + column *)\nDefinition kernel_regions : list (string * string * list (nat * nat) * list (nat * nat)) :=\n  [")
	firstRec := true
	for _, k := range []struct {
		name   string
		params []string
	}{{"computeMBAlphaDCTWith", []string{"src", "pred", "tmpCoeffs"}}, {"computeMBUVAlphaDCTWith", []string{"srcU", "srcV", "predU", "predV", "tmpCoeffs"}}} {
		fd := funcs[k.name]
		if fd == nil {
			refuse("scratchregion: kernel %s not found", k.name)
			continue
		}
		for _, prm := range k.params {
			s := cx.walkStmts(k.name, fd.Body.List, prm, srVal{srConst(0), srConst(0)}, map[string]srVal{}, nil, 0)
			for c := range s.w {
				if c.r < 0 || c.c < 0 {
					cx.fail("%s: negative cell for %s", k.name, prm)
				}
			}
			if !firstRec {
				out.WriteString(";\n   ")
			}
			firstRec = false
			fmt.Fprintf(&out, "(%s, %s,\n    %s,\n    %s)", concCoqString(k.name), concCoqString(prm), cells(s.w), cells(s.r))
		}
	}
	out.WriteString("].\n\n")
	if bad != "" {
		refuse("scratchregion: %s", bad)
	}
	bps := 0
	if dp, err := load("dsp", "internal/dsp"); err == nil {
		if s, ok := lookupConstInt(dp, "BPS"); ok {
			fmt.Sscan(s, &bps)
		}
	}
	fmt.Fprintf(&out, "Definition bps : nat := %d.\n\n", bps)
	sort.Strings(switches)
	var uniq []string
	for i, s := range switches {
		if i == 0 || s != switches[i-1] {
			uniq = append(uniq, s)
		}
	}
	out.WriteString("(* switch statements whose clauses were taken as alternatives: function|parameter|tag|case values *)\nDefinition region_switches : list string :=\n  [")
	for i, s := range uniq {
		if i > 0 {
			out.WriteString("; ")
		}
		out.WriteString(concCoqString(s))
	}
	out.WriteString("]%string.\n")
	// the range of the tag of generateI16Prediction's switch: the mode loop of computeMBAlphaDCTWith
	if c, ok := lookupConstInt(p, "maxIntra16Mode"); ok {
		fmt.Fprintf(&out, "Definition max_intra16_mode : nat := %s.\n", c)
	}
	return "ScratchRegion.v", out.String()
}

func lookupConstInt(p *pkgInfo, name string) (string, bool) {
	for _, f := range p.files {
		for _, d := range f.Decls {
			gd, ok := d.(*ast.GenDecl)
			if !ok || gd.Tok != token.CONST {
				continue
			}
			for _, s := range gd.Specs {
				vs := s.(*ast.ValueSpec)
				for _, n := range vs.Names {
					if n.Name == name {
						if obj, ok := p.info.Defs[n].(interface{ Val() constant.Value }); ok {
							return zlit(obj.Val())
						}
					}
				}
			}
		}
	}
	return "", false
}
