// lanecalls.go — C13: emits coq/Gen/LaneCalls.v
//
//  1. asm_routines: every assembly routine (TEXT ·name) of the module with its
//     file, so that Coq can check that each one has a lane model + theorem or an
//     explicit entry in the list of routines covered by differential execution
//     only (a new .s routine fails the obligation until somebody looks at it).
//
//  2. lane_events: every call in internal/lossy of a kernel that has a
//     16-bit-lane implementation (forward/inverse DCT and WHT, quantise,
//     dequantise) together with the provenance of its coefficient input, so that
//     "the encoder feeds its kernels along the chain  bytes -> FDCT -> quantise
//     -> dequantise (-> WHT) -> IDCT" is a checked fact (Arch/ArchLaneCalls.v)
//     instead of something read from the source.
//
// Provenance is computed per function in source order (straight-line
// approximation: the last write to a buffer wins; both arms of an if/else write
// the same kind in this code base), over buffer *bases* (field or local name
// with slicing / indexing stripped; a slice with literal bounds such as
// Coeffs[384:400] is its own base).  A buffer read before it is written in the
// function takes the set of kinds it has at the end of every other function of
// the package that writes it.  Kinds:
//
//	fdct   output of FTransformDirect/FTransform/FTransform2 on two []byte planes
//	fdct0  the same with element 0 zeroed
//	dcs    elements gathered from fdct buffers (the sixteen DCs)
//	fwht   FTransformWHT of dcs
//	lvS    QuantizeCoeffs / TrellisQuantizeBlock output with quantiser seg.S (S = Y1, Y2, UV)
//	dqS    DequantCoeffs output with quantiser seg.S
//	iwht   TransformWHT output (or elements copied from it)
//	dqS+dc dqS whose element 0 was overwritten by an iwht element
//	?      anything else (an unrecognised write)
//
// Anything the pass cannot classify is emitted as "?" and fails the Coq
// obligation; calls that merely receive one of the tracked buffers are listed in
// lane_buffer_readers, which Coq pins to the reviewed list.
package main

import (
	"bytes"
	"fmt"
	"go/ast"
	"go/constant"
	"go/token"
	"go/types"
	"os"
	"path/filepath"
	"regexp"
	"sort"
	"strings"
)

func init() { extraGenerators = append(extraGenerators, genLaneCalls) }

type laneEvent struct {
	pos    string
	kernel string
	sq     string
	kinds  []string
}

type laneFn struct {
	p      *pkgInfo
	name   string
	state  map[string]string // base -> kind, last write in this function
	events []laneEvent
	reads  map[string]bool // bases read before written (need the package summary)
	params map[string]bool // bases that are parameters of the function
	defs   map[string]string // local identifier -> source text of its := definition (last one seen)
}

// exprText renders an expression compactly (identifiers, literals, + - * and parentheses).
func exprText(e ast.Expr) string {
	switch x := e.(type) {
	case *ast.Ident:
		return x.Name
	case *ast.BasicLit:
		return x.Value
	case *ast.ParenExpr:
		return "(" + exprText(x.X) + ")"
	case *ast.BinaryExpr:
		return exprText(x.X) + x.Op.String() + exprText(x.Y)
	case *ast.SelectorExpr:
		return exprText(x.X) + "." + x.Sel.Name
	case *ast.IndexExpr:
		return exprText(x.X) + "[" + exprText(x.Index) + "]"
	case *ast.UnaryExpr:
		return x.Op.String() + exprText(x.X)
	case *ast.CallExpr:
		var as []string
		for _, a := range x.Args {
			as = append(as, exprText(a))
		}
		return exprText(x.Fun) + "(" + strings.Join(as, ",") + ")"
	case *ast.StarExpr:
		return "*" + exprText(x.X)
	}
	return "?"
}

// coeffRegion classifies an index / slice lower bound into the region of
// MBEncInfo.Coeffs it addresses: Y (luma blocks 0..15), UV (chroma blocks 16..23)
// or ? - from the defining expression of the offset variable.
func (lf *laneFn) coeffRegion(low ast.Expr) string {
	if low == nil {
		return "?"
	}
	t := exprText(low)
	if id, ok := low.(*ast.Ident); ok {
		if d, ok := lf.defs[id.Name]; ok {
			t = d
		}
	}
	switch {
	case t == "blockIdx*16":
		return "Y"
	case t == "(uvBase+blockIdx)*16" || t == "(16+blockIdx)*16" || t == "(20+blockIdx)*16":
		return "UV"
	}
	return "?" + t
}

var laneCalled = map[string]bool{} // functions of internal/lossy referenced anywhere in the module

var laneTrackedKernels = map[string]string{
	"FTransformDirect": "fdct", "FTransform": "fdct", "FTransform2": "fdct",
	"FTransformWHT": "fwht", "TransformWHT": "iwht",
	"ITransformDirect": "idct", "ITransform": "idct",
	"QuantizeCoeffs": "quant", "TrellisQuantizeBlock": "quant", "quantizeCoeffsGo": "quant",
	"DequantCoeffs": "dequant", "dequantCoeffsGo": "dequant",
	"getCoeffsInline": "stream",
}

func laneCallee(c *ast.CallExpr) string {
	switch f := c.Fun.(type) {
	case *ast.Ident:
		return f.Name
	case *ast.SelectorExpr:
		return f.Sel.Name
	}
	return ""
}

// baseKey strips slicing / indexing / address-of and returns the buffer base;
// elem reports an element access and idx0 whether its index is the literal 0.
func (lf *laneFn) baseKey(e ast.Expr) (key string, elem bool, idx0 bool) {
	switch x := e.(type) {
	case *ast.ParenExpr:
		return lf.baseKey(x.X)
	case *ast.UnaryExpr:
		if x.Op == token.AND {
			return lf.baseKey(x.X)
		}
	case *ast.SliceExpr:
		k, _, _ := lf.baseKey(x.X)
		lo, hi := lf.constOf(x.Low), lf.constOf(x.High)
		if lo != "" && hi != "" {
			return k + "[" + lo + ":" + hi + "]", false, false
		}
		if k == "Coeffs" && x.Low != nil {
			return k + "@" + lf.coeffRegion(x.Low), false, false
		}
		return k, false, false
	case *ast.IndexExpr:
		k, _, _ := lf.baseKey(x.X)
		if k == "Coeffs" {
			if tv, ok := lf.p.info.Types[e]; ok {
				if _, isArr := tv.Type.Underlying().(*types.Array); !isArr {
					if _, isSl := tv.Type.Underlying().(*types.Slice); !isSl {
						return k + "@" + lf.coeffRegion(x.Index), true, lf.constOf(x.Index) == "0"
					}
				}
			}
		}
		// element of an array of arrays (tmpAllQ[blockIdx]) is still a buffer
		if tv, ok := lf.p.info.Types[e]; ok {
			switch tv.Type.Underlying().(type) {
			case *types.Array, *types.Slice:
				return k, false, false
			}
		}
		return k, true, lf.constOf(x.Index) == "0"
	case *ast.SelectorExpr:
		return x.Sel.Name, false, false
	case *ast.Ident:
		return lf.name + "." + x.Name, false, false
	}
	return "", false, false
}

func (lf *laneFn) constOf(e ast.Expr) string {
	if e == nil {
		return ""
	}
	if tv, ok := lf.p.info.Types[e]; ok && tv.Value != nil && tv.Value.Kind() == constant.Int {
		return tv.Value.ExactString()
	}
	return ""
}

func (lf *laneFn) isBytes(e ast.Expr) bool {
	tv, ok := lf.p.info.Types[e]
	if !ok {
		return false
	}
	s, ok := tv.Type.Underlying().(*types.Slice)
	if !ok {
		return false
	}
	b, ok := s.Elem().Underlying().(*types.Basic)
	return ok && b.Kind() == types.Uint8
}

func (lf *laneFn) isInt16Buf(e ast.Expr) bool {
	tv, ok := lf.p.info.Types[e]
	if !ok {
		return false
	}
	var el types.Type
	switch t := tv.Type.Underlying().(type) {
	case *types.Slice:
		el = t.Elem()
	case *types.Array:
		el = t.Elem()
	case *types.Pointer:
		if a, ok := t.Elem().Underlying().(*types.Array); ok {
			el = a.Elem()
		}
	}
	if el == nil {
		return false
	}
	if a, ok := el.Underlying().(*types.Array); ok { // [16][16]int16
		el = a.Elem()
	}
	b, ok := el.Underlying().(*types.Basic)
	return ok && b.Kind() == types.Int16
}

var laneSummary = map[string]map[string]bool{} // base -> kinds at the end of the functions writing it

func (lf *laneFn) read(key string) []string {
	if k, ok := lf.state[key]; ok {
		return []string{k}
	}
	// a literal region of a buffer falls back to the whole buffer's state
	if i := strings.Index(key, "["); i > 0 && !strings.Contains(key, "@") {
		if k, ok := lf.state[key[:i]]; ok {
			return []string{k}
		}
	}
	lf.reads[key] = true
	var ks []string
	for k := range laneSummary[key] {
		ks = append(ks, k)
	}
	if len(ks) == 0 {
		if i := strings.Index(key, "["); i > 0 {
			for k := range laneSummary[key[:i]] {
				ks = append(ks, k)
			}
		}
	}
	if len(ks) == 0 {
		if lf.params[key] {
			if laneCalled[lf.name] {
				ks = []string{"param"}
			} else {
				ks = []string{"param-uncalled"} // exported wrapper nobody in the module calls
			}
		} else {
			ks = []string{"?"}
		}
	}
	sort.Strings(ks)
	return ks
}

func oneKind(ks []string) string {
	if len(ks) == 1 {
		return ks[0]
	}
	return "{" + strings.Join(ks, ",") + "}"
}

func (lf *laneFn) sqName(e ast.Expr) string {
	k, _, _ := lf.baseKey(e)
	switch k {
	case "Y1", "Y2", "UV":
		return k
	}
	// a *SegmentQuant parameter (TrellisQuantizeBlock's own body etc.)
	return "param"
}

func (lf *laneFn) pos(n ast.Node) string {
	p := lf.p.fset.Position(n.Pos())
	rel, _ := filepath.Rel(repo, p.Filename)
	return fmt.Sprintf("%s:%d", rel, p.Line)
}

var laneReaders = map[string]bool{}

// segment identity: (position, fact, text)
//   sqroot   the root of a quantiser argument (&seg.Y1 -> "seg") and how seg is bound
//   segcall  a call passing a *SegmentInfo: the argument text
//   segbind  a local binding of a *SegmentInfo variable
var laneSegFacts [][3]string

func (lf *laneFn) isSegInfoPtr(e ast.Expr) bool {
	tv, ok := lf.p.info.Types[e]
	if !ok {
		return false
	}
	pt, ok := tv.Type.(*types.Pointer)
	if !ok {
		return false
	}
	n, ok := pt.Elem().(*types.Named)
	return ok && n.Obj().Name() == "SegmentInfo"
}

func (lf *laneFn) sqRoot(e ast.Expr) string {
	// &seg.Y1 -> seg
	for {
		switch x := e.(type) {
		case *ast.UnaryExpr:
			e = x.X
			continue
		case *ast.ParenExpr:
			e = x.X
			continue
		case *ast.SelectorExpr:
			if id, ok := x.X.(*ast.Ident); ok {
				if lf.params[lf.name+"."+id.Name] {
					return "param:" + id.Name
				}
				if d, ok := lf.defs[id.Name]; ok {
					return "local:" + d
				}
				return "other:" + id.Name
			}
			return "other:" + exprText(x.X)
		}
		return "other:" + exprText(e)
	}
}

func (lf *laneFn) call(c *ast.CallExpr) {
	for _, a := range c.Args {
		if lf.isSegInfoPtr(a) {
			laneSegFacts = append(laneSegFacts, [3]string{lf.pos(c), "segcall", lf.name + "|" + exprText(a)})
		}
	}
	name := laneCallee(c)
	kind, tracked := laneTrackedKernels[name]
	if !tracked {
		if name == "copy" && len(c.Args) == 2 && lf.isInt16Buf(c.Args[0]) {
			dk, _, _ := lf.baseKey(c.Args[0])
			sk, _, _ := lf.baseKey(c.Args[1])
			lf.state[dk] = oneKind(lf.read(sk))
			return
		}
		for _, a := range c.Args {
			if lf.isInt16Buf(a) {
				if k, _, _ := lf.baseKey(a); k != "" {
					laneReaders[name] = true
				}
			}
		}
		return
	}
	ev := laneEvent{pos: lf.pos(c), kernel: name}
	arg := func(i int) ast.Expr {
		if i < len(c.Args) {
			return c.Args[i]
		}
		return nil
	}
	switch kind {
	case "stream":
		// the decoder's token parser stores int16(level * dq) unclamped
		if o, _, _ := lf.baseKey(arg(6)); o != "" {
			lf.state[o] = "stream"
		}
		return
	case "fdct":
		if !lf.isBytes(arg(0)) || !lf.isBytes(arg(1)) {
			ev.kinds = []string{"?"}
		} else {
			ev.kinds = []string{"bytes"}
		}
		k, _, _ := lf.baseKey(arg(2))
		lf.state[k] = "fdct"
	case "fwht":
		k, _, _ := lf.baseKey(arg(0))
		ev.kinds = lf.read(k)
		o, _, _ := lf.baseKey(arg(1))
		lf.state[o] = "fwht"
	case "iwht":
		k, _, _ := lf.baseKey(arg(0))
		ev.kinds = lf.read(k)
		o, _, _ := lf.baseKey(arg(1))
		lf.state[o] = "iwht"
	case "idct":
		k, _, _ := lf.baseKey(arg(1))
		ev.kinds = lf.read(k)
	case "quant":
		k, _, _ := lf.baseKey(arg(0))
		ev.kinds = lf.read(k)
		ev.sq = lf.sqName(arg(2))
		laneSegFacts = append(laneSegFacts, [3]string{ev.pos, "sqroot", lf.name + "|" + lf.sqRoot(arg(2))})
		o, _, _ := lf.baseKey(arg(1))
		lf.state[o] = "lv" + ev.sq
	case "dequant":
		k, _, _ := lf.baseKey(arg(0))
		ev.kinds = lf.read(k)
		ev.sq = lf.sqName(arg(2))
		laneSegFacts = append(laneSegFacts, [3]string{ev.pos, "sqroot", lf.name + "|" + lf.sqRoot(arg(2))})
		o, _, _ := lf.baseKey(arg(1))
		lf.state[o] = "dq" + ev.sq
	}
	lf.events = append(lf.events, ev)
}

func (lf *laneFn) assign(lhs, rhs ast.Expr) {
	if !lf.isInt16Buf(lhs) {
		// element write into an int16 buffer?
		ix, ok := lhs.(*ast.IndexExpr)
		if !ok || !lf.isInt16Buf(ix.X) {
			return
		}
	}
	dk, delem, d0 := lf.baseKey(lhs)
	if dk == "" {
		return
	}
	if !delem {
		// whole-buffer assignment (array copy)
		if sk, _, _ := lf.baseKey(rhs); sk != "" && lf.isInt16Buf(rhs) {
			lf.state[dk] = oneKind(lf.read(sk))
		} else if _, isLit := rhs.(*ast.CompositeLit); isLit {
			lf.state[dk] = "zero"
		} else {
			lf.state[dk] = "?"
		}
		return
	}
	cur := "?"
	if ks := lf.read(dk); len(ks) == 1 {
		cur = ks[0]
	} else {
		cur = oneKind(ks)
	}
	if lf.constOf(rhs) == "0" {
		if cur == "fdct" && d0 {
			lf.state[dk] = "fdct0"
		}
		return // zeroing an element never widens a range
	}
	// element copied from another buffer (possibly through a conversion)
	src := rhs
	if ce, ok := src.(*ast.CallExpr); ok && len(ce.Args) == 1 { // int16(x) etc.
		src = ce.Args[0]
	}
	if ix, ok := src.(*ast.IndexExpr); ok && lf.isInt16Buf(ix.X) {
		sk, _, _ := lf.baseKey(ix)
		sks := lf.read(sk)
		s := oneKind(sks)
		switch {
		case s == "fdct":
			lf.state[dk] = "dcs"
		case s == "iwht" && d0 && strings.HasPrefix(cur, "dq") && !strings.HasSuffix(cur, "+dc"):
			lf.state[dk] = cur + "+dc"
		case s == "iwht" && d0 && strings.HasSuffix(cur, "+dc"):
		case s == "iwht":
			lf.state[dk] = "iwht"
		case s == cur:
		default:
			lf.state[dk] = "?"
		}
		return
	}
	lf.state[dk] = "?"
}

func (lf *laneFn) walk(n ast.Node) {
	ast.Inspect(n, func(x ast.Node) bool {
		switch s := x.(type) {
		case *ast.FuncLit:
			return true
		case *ast.IfStmt:
			if s.Init != nil {
				lf.walk(s.Init)
			}
			lf.walk(s.Cond)
			pre := map[string]string{}
			for k, v := range lf.state {
				pre[k] = v
			}
			lf.walk(s.Body)
			thenState := lf.state
			lf.state = pre
			if s.Else != nil {
				lf.walk(s.Else)
			}
			// merge: a buffer written differently in the two arms holds either kind
			for k, v := range thenState {
				if w, ok := lf.state[k]; !ok {
					lf.state[k] = v
				} else if w != v {
					ks := []string{v, w}
					sort.Strings(ks)
					lf.state[k] = "{" + strings.Join(ks, ",") + "}"
				}
			}
			return false
		case *ast.AssignStmt:
			// calls on the right-hand side first (nz := QuantizeCoeffs(...))
			for _, r := range s.Rhs {
				lf.walk(r)
			}
			if len(s.Lhs) == len(s.Rhs) && (s.Tok == token.ASSIGN || s.Tok == token.DEFINE) {
				for i := range s.Lhs {
					if id, ok := s.Lhs[i].(*ast.Ident); ok {
						lf.defs[id.Name] = exprText(s.Rhs[i])
						if lf.isSegInfoPtr(s.Rhs[i]) {
							laneSegFacts = append(laneSegFacts, [3]string{lf.pos(s), "segbind", lf.name + "|" + id.Name + ":=" + exprText(s.Rhs[i])})
						}
					}
					lf.assign(s.Lhs[i], s.Rhs[i])
				}
			}
			return false
		case *ast.CallExpr:
			for _, a := range s.Args {
				lf.walk(a)
			}
			lf.call(s)
			return false
		}
		return true
	})
}

var asmTextRE = regexp.MustCompile(`(?m)^TEXT\s+·([A-Za-z0-9_]+)\(SB\)`)

func genLaneCalls() (string, string) {
	p, err := load("lossy", "internal/lossy")
	if err != nil {
		refuse("lanecalls: cannot load internal/lossy: %v", err)
		return "LaneCalls.v", ""
	}
	laneSummary = map[string]map[string]bool{}
	laneReaders = map[string]bool{}
	laneCalled = map[string]bool{}
	for _, q := range loaded {
		if q.info == nil {
			continue
		}
		for _, obj := range q.info.Uses {
			if f, ok := obj.(*types.Func); ok && f.Pkg() != nil && f.Pkg() == p.pkg {
				laneCalled[f.Name()] = true
			}
		}
	}
	var all []laneEvent
	// two rounds: the first computes the end-of-function summaries, the second
	// resolves reads of buffers written by other functions
	for round := 0; round < 3; round++ {
		all = nil
		laneSegFacts = nil
		next := map[string]map[string]bool{}
		for _, f := range p.files {
			fn := p.fset.Position(f.Pos()).Filename
			if strings.HasPrefix(filepath.Base(fn), "verif_") {
				continue
			}
			for _, d := range f.Decls {
				fd, ok := d.(*ast.FuncDecl)
				if !ok || fd.Body == nil {
					continue
				}
				lf := &laneFn{p: p, name: fd.Name.Name, state: map[string]string{}, reads: map[string]bool{}, params: map[string]bool{}, defs: map[string]string{}}
				if fd.Type.Params != nil {
					for _, fl := range fd.Type.Params.List {
						for _, n := range fl.Names {
							lf.params[fd.Name.Name+"."+n.Name] = true
						}
					}
				}
				lf.walk(fd.Body)
				all = append(all, lf.events...)
				for k, v := range lf.state {
					if strings.Contains(k, ".") { // function-local buffer
						continue
					}
					if next[k] == nil {
						next[k] = map[string]bool{}
					}
					next[k][v] = true
				}
			}
		}
		laneSummary = next
	}
	sort.Slice(all, func(i, j int) bool { return all[i].pos < all[j].pos })
	if len(all) < 40 {
		refuse("lanecalls: only %d kernel calls found in internal/lossy (expected ~100): pass out of date", len(all))
	}

	// assembly inventory
	type rt struct{ file, name string }
	var rts []rt
	filepath.Walk(repo, func(path string, fi os.FileInfo, err error) error {
		if err != nil {
			return nil
		}
		if fi.IsDir() {
			if fi.Name() == ".git" || fi.Name() == "testdata" {
				return filepath.SkipDir
			}
			return nil
		}
		if !strings.HasSuffix(path, ".s") {
			return nil
		}
		data, err := os.ReadFile(path)
		if err != nil {
			return nil
		}
		rel, _ := filepath.Rel(repo, path)
		for _, m := range asmTextRE.FindAllStringSubmatch(string(data), -1) {
			rts = append(rts, rt{rel, m[1]})
		}
		return nil
	})
	sort.Slice(rts, func(i, j int) bool { return rts[i].name < rts[j].name })

	var b bytes.Buffer
	b.WriteString("(* GENERATED by tools/gosrc2v (lanecalls.go) from /repo's current source. Do not edit. *)\n")
	b.WriteString("From Coq Require Import List String.\nImport ListNotations.\nOpen Scope string_scope.\n\n")
	b.WriteString("(* (file, routine) for every TEXT symbol of every .s file *)\n")
	b.WriteString("Definition asm_routines : list (string * string) := [\n")
	for i, r := range rts {
		sep := ";"
		if i == len(rts)-1 {
			sep = ""
		}
		fmt.Fprintf(&b, " (\"%s\", \"%s\")%s\n", coqString(r.file), coqString(r.name), sep)
	}
	b.WriteString("].\n\n")
	b.WriteString("(* (position, kernel, quantiser, provenance kinds of the coefficient input) for every\n   call of a lane kernel in internal/lossy *)\n")
	b.WriteString("Definition lane_events : list (string * string * string * list string) := [\n")
	for i, e := range all {
		sep := ";"
		if i == len(all)-1 {
			sep = ""
		}
		var ks []string
		for _, k := range e.kinds {
			ks = append(ks, "\""+coqString(k)+"\"")
		}
		fmt.Fprintf(&b, " (\"%s\", \"%s\", \"%s\", [%s])%s\n", coqString(e.pos), e.kernel, e.sq, strings.Join(ks, "; "), sep)
	}
	b.WriteString("].\n\n")
	sort.Slice(laneSegFacts, func(i, j int) bool {
		if laneSegFacts[i][0] != laneSegFacts[j][0] {
			return laneSegFacts[i][0] < laneSegFacts[j][0]
		}
		return laneSegFacts[i][1]+laneSegFacts[i][2] < laneSegFacts[j][1]+laneSegFacts[j][2]
	})
	b.WriteString("(* segment identity: the root of every quantiser argument, every call passing a *SegmentInfo,\n   every local binding of one *)\n")
	b.WriteString("Definition lane_seg_facts : list (string * string * string) := [\n")
	for i, f := range laneSegFacts {
		sep := ";"
		if i == len(laneSegFacts)-1 {
			sep = ""
		}
		fmt.Fprintf(&b, " (\"%s\", \"%s\", \"%s\")%s\n", coqString(f[0]), f[1], coqString(f[2]), sep)
	}
	b.WriteString("].\n\n")
	var rd []string
	for k := range laneReaders {
		rd = append(rd, k)
	}
	sort.Strings(rd)
	b.WriteString("(* functions (other than the kernels) that receive an int16 coefficient buffer *)\n")
	b.WriteString("Definition lane_buffer_readers : list string := [")
	for i, r := range rd {
		if i > 0 {
			b.WriteString("; ")
		}
		fmt.Fprintf(&b, "\"%s\"", coqString(r))
	}
	b.WriteString("].\n")
	return "LaneCalls.v", b.String()
}
