// fields.go — Gen/Fields.v: the pooled object types of deepteams/webp, as the
// source says today (property C11: results do not depend on earlier calls).
//
// For every pooled struct type it emits
//
//	<pkg>_<Type>_fields : list string              the struct's field names, in order
//
// for every reset / acquire / release / init function it emits
//
//	<pkg>_<Func>_writes : list (string * string)   (field, kind) for every write to a field of
//	                                               the pooled object (receiver, or the variable the
//	                                               pool's Get result is bound to)
//	<pkg>_<Func>_gate   : list string              fields compared in the condition that decides
//	                                               whether the pooled object is reused
//	<pkg>_<Func>_calls  : list string              methods invoked on the pooled object
//	<pkg>_<Func>_touches: list string              every field mentioned (selected functions)
//
// and the list of all sync.Pool variables of the non-test sources (sync_pools).
//
// Write kinds (strongest wins when a field is written several times):
//
//	set    x.f = e            executed on every path through the analysed block
//	                          (an if/else or switch-with-default counts when every branch writes f)
//	clear  clear(x.f)         on every path
//	fill   for i := range x.f { x.f[i] = e }   whole current length re-initialised, every path
//	copy   copy(x.f, src)     on every path
//	call   F(&x.f) / F(x.f[:]) / x.f.M(...)    reset delegated to a callee, every path
//	part   x.f.g = e, x.f[k] = e, x.f.g.M(), writes through p := &x.f    only part of f
//	cond   any of the above under a condition / in a loop that may not run
//
// It refuses when a named type, function, pool variable or the pool-hit block
// shape (`if v := P.Get(); v != nil { obj := v.(*T) … }` or `obj := P.Get().(*T)`)
// is no longer found.
package main

import (
	"bytes"
	"fmt"
	"go/ast"
	"go/token"
	"go/types"
	"sort"
	"strings"
)

func init() { extraGenerators = append(extraGenerators, genFields) }

var kindRank = map[string]int{"set": 6, "clear": 5, "fill": 5, "copy": 5, "call": 4, "part": 2, "cond": 1}

// wset is an ordered field → kind map.
type wset struct {
	order []string
	kind  map[string]string
}

func newWset() *wset { return &wset{kind: map[string]string{}} }

func (w *wset) add(f, k string) {
	old, ok := w.kind[f]
	if !ok {
		w.order = append(w.order, f)
		w.kind[f] = k
		return
	}
	if kindRank[k] > kindRank[old] {
		w.kind[f] = k
	}
}

func (w *wset) merge(o *wset) {
	for _, f := range o.order {
		w.add(f, o.kind[f])
	}
}

// weaken returns a copy where everything is conditional (part stays part).
func (w *wset) weaken() *wset {
	r := newWset()
	for _, f := range w.order {
		k := w.kind[f]
		if k != "part" {
			k = "cond"
		}
		r.add(f, k)
	}
	return r
}

func strong(k string) bool { return kindRank[k] >= 4 }

// joinBranches: a field is strongly written only if every branch writes it strongly.
func joinBranches(bs []*wset) *wset {
	r := newWset()
	for i, b := range bs {
		for _, f := range b.order {
			k := b.kind[f]
			if strong(k) {
				all := true
				for j, o := range bs {
					if j != i && !strong(o.kind[f]) {
						all = false
					}
				}
				if all {
					if k != "call" {
						k = "set"
					}
				} else {
					k = "cond"
				}
			} else if k != "part" {
				k = "cond"
			}
			r.add(f, k)
		}
	}
	return r
}

// analyser walks statements looking for writes to fields of the object `obj`.
type analyser struct {
	obj     string
	aliases map[string]string // p := &obj.f  → p ↦ f
	calls   []string
	gate    []string
	touches map[string]bool
	resizes  [][2]string // (field, length expression): if cap(x.f) >= n { x.f = x.f[:n] … } else { x.f = make(T, n) }
	reslices []string // fields bound to a local by v := obj.f[:hi] (length re-established from this call's dimensions)
	hitBody bool // treat `if cond-on-obj { …; return }` as the reuse gate
	pkg     *pkgInfo        // package of the analysed function (to follow callees)
	active  map[string]bool // functions being inlined (recursion guard)
	depth   int
}

// calleeDecl resolves a call to a module function with a body; it returns the
// declaration, its package and its unique name.
func (a *analyser) calleeDecl(c *ast.CallExpr) (*ast.FuncDecl, *pkgInfo, string) {
	if a.pkg == nil {
		return nil, nil, ""
	}
	var id *ast.Ident
	switch f := c.Fun.(type) {
	case *ast.Ident:
		id = f
	case *ast.SelectorExpr:
		id = f.Sel
	}
	if id == nil {
		return nil, nil, ""
	}
	fo, ok := a.pkg.info.Uses[id].(*types.Func)
	if !ok || fo.Pkg() == nil {
		return nil, nil, ""
	}
	for _, p := range loaded {
		if p.pkg != fo.Pkg() {
			continue
		}
		for _, f := range p.files {
			for _, d := range f.Decls {
				if fd, ok := d.(*ast.FuncDecl); ok && fd.Body != nil && p.info.Defs[fd.Name] == types.Object(fo) {
					return fd, p, p.alias + "." + funcUniqueName(fd)
				}
			}
		}
	}
	return nil, nil, ""
}

// inlineCallee merges into w what a module callee writes to the object when the
// object is its receiver (obj.m(…)) or one of its arguments (f(obj, …)): a reset
// function may be split into helpers without changing what the acquire path resets.
func (a *analyser) inlineCallee(c *ast.CallExpr, w *wset) {
	if a.depth >= 6 {
		return
	}
	fd, p, name := a.calleeDecl(c)
	if fd == nil || a.active[name] {
		return
	}
	var objNames []string
	if sel, ok := c.Fun.(*ast.SelectorExpr); ok {
		if id, ok := sel.X.(*ast.Ident); ok && id.Name == a.obj && fd.Recv != nil && len(fd.Recv.List) == 1 && len(fd.Recv.List[0].Names) == 1 {
			objNames = append(objNames, fd.Recv.List[0].Names[0].Name)
		}
	}
	k := 0
	if fd.Type.Params != nil {
		for _, fl := range fd.Type.Params.List {
			n := len(fl.Names)
			if n == 0 {
				n = 1
			}
			for j := 0; j < n; j++ {
				if k < len(c.Args) && j < len(fl.Names) {
					if id, ok := c.Args[k].(*ast.Ident); ok && id.Name == a.obj {
						objNames = append(objNames, fl.Names[j].Name)
					}
				}
				k++
			}
		}
	}
	for _, on := range objNames {
		if on == "_" {
			continue
		}
		sub := &analyser{obj: on, aliases: map[string]string{}, pkg: p, active: a.active, depth: a.depth + 1}
		a.active[name] = true
		w.merge(sub.seq(fd.Body.List, "", ""))
		delete(a.active, name)
	}
}

// rootField returns (field, depth) for an expression rooted at obj: depth 1 = obj.f,
// 2 = obj.f[i] (index only), 3 = anything deeper.  ok=false if not rooted at obj.
func (a *analyser) rootField(e ast.Expr) (field string, depth int, idx ast.Expr, ok bool) {
	var chain []ast.Expr
	for {
		chain = append(chain, e)
		switch x := e.(type) {
		case *ast.ParenExpr:
			e = x.X
		case *ast.SelectorExpr:
			e = x.X
		case *ast.IndexExpr:
			e = x.X
		case *ast.SliceExpr:
			e = x.X
		case *ast.StarExpr:
			e = x.X
		case *ast.Ident:
			if x.Name == a.obj {
				// chain[len-2] must be obj.f
				if len(chain) < 2 {
					return "", 0, nil, false
				}
				sel, isSel := chain[len(chain)-2].(*ast.SelectorExpr)
				if !isSel {
					return "", 0, nil, false
				}
				rest := chain[:len(chain)-2]
				switch {
				case len(rest) == 0:
					return sel.Sel.Name, 1, nil, true
				case len(rest) == 1:
					if ix, isIx := rest[0].(*ast.IndexExpr); isIx {
						return sel.Sel.Name, 2, ix.Index, true
					}
				}
				return sel.Sel.Name, 3, nil, true
			}
			if f, isAlias := a.aliases[x.Name]; isAlias && len(chain) >= 2 {
				return f, 3, nil, true
			}
			return "", 0, nil, false
		default:
			return "", 0, nil, false
		}
	}
}

func (a *analyser) noteTouches(n ast.Node) {
	if a.touches == nil || n == nil {
		return
	}
	ast.Inspect(n, func(m ast.Node) bool {
		if sel, ok := m.(*ast.SelectorExpr); ok {
			if id, ok := sel.X.(*ast.Ident); ok && id.Name == a.obj {
				a.touches[sel.Sel.Name] = true
			}
		}
		return true
	})
}

func condFields(a *analyser, e ast.Expr) []string {
	var out []string
	seen := map[string]bool{}
	ast.Inspect(e, func(m ast.Node) bool {
		if sel, ok := m.(*ast.SelectorExpr); ok {
			if id, ok := sel.X.(*ast.Ident); ok && id.Name == a.obj && !seen[sel.Sel.Name] {
				seen[sel.Sel.Name] = true
				out = append(out, sel.Sel.Name)
			}
		}
		return true
	})
	return out
}

func endsWithReturn(b *ast.BlockStmt) bool {
	if b == nil || len(b.List) == 0 {
		return false
	}
	_, ok := b.List[len(b.List)-1].(*ast.ReturnStmt)
	return ok
}

func (a *analyser) callExpr(c *ast.CallExpr, w *wset) {
	// builtin clear / copy
	if id, ok := c.Fun.(*ast.Ident); ok {
		if id.Name == "clear" && len(c.Args) == 1 {
			if f, d, _, ok := a.rootField(c.Args[0]); ok {
				if d == 1 {
					w.add(f, "clear")
				} else {
					w.add(f, "part")
				}
				return
			}
		}
		if id.Name == "copy" && len(c.Args) == 2 {
			if f, d, _, ok := a.rootField(c.Args[0]); ok {
				if d == 1 {
					w.add(f, "copy")
				} else {
					w.add(f, "part")
				}
			}
			return
		}
	}
	a.inlineCallee(c, w)
	// method call on the object or on one of its fields
	if sel, ok := c.Fun.(*ast.SelectorExpr); ok {
		if id, ok := sel.X.(*ast.Ident); ok && id.Name == a.obj {
			a.calls = append(a.calls, sel.Sel.Name)
		} else if f, d, _, ok := a.rootField(sel.X); ok {
			if d == 1 {
				w.add(f, "call")
				a.calls = append(a.calls, f+"."+sel.Sel.Name)
			} else {
				w.add(f, "part")
			}
		}
	}
	// &obj.f or obj.f[:] passed to a callee
	for _, arg := range c.Args {
		switch x := arg.(type) {
		case *ast.UnaryExpr:
			if x.Op == token.AND {
				if f, d, _, ok := a.rootField(x.X); ok {
					if d == 1 {
						w.add(f, "call")
						a.calls = append(a.calls, calleeName(c)+"(&"+f+")")
					} else {
						w.add(f, "part")
					}
				}
			}
		case *ast.SliceExpr:
			if x.Low == nil && x.High == nil {
				if f, d, _, ok := a.rootField(x.X); ok && d == 1 {
					w.add(f, "call")
					a.calls = append(a.calls, calleeName(c)+"("+f+"[:])")
				}
			}
		}
	}
}

func calleeName(c *ast.CallExpr) string {
	switch f := c.Fun.(type) {
	case *ast.Ident:
		return f.Name
	case *ast.SelectorExpr:
		return f.Sel.Name
	}
	return "?"
}

// seq analyses a statement list; rangeOver/rangeKey describe the innermost
// enclosing `for key := range obj.f` loop (for the fill pattern).
func (a *analyser) seq(stmts []ast.Stmt, rangeOver, rangeKey string) *wset {
	w := newWset()
	for _, s := range stmts {
		w.merge(a.stmt(s, rangeOver, rangeKey))
	}
	return w
}

func (a *analyser) stmt(s ast.Stmt, rangeOver, rangeKey string) *wset {
	w := newWset()
	switch x := s.(type) {
	case *ast.AssignStmt:
		a.noteTouches(x)
		// alias definitions p := &obj.f
		if x.Tok == token.DEFINE && len(x.Lhs) == len(x.Rhs) {
			for i, r := range x.Rhs {
				if u, ok := r.(*ast.UnaryExpr); ok && u.Op == token.AND {
					if f, _, _, ok := a.rootField(u.X); ok {
						if id, ok := x.Lhs[i].(*ast.Ident); ok {
							a.aliases[id.Name] = f
						}
					}
				}
			}
		}
		for _, r := range x.Rhs {
			if se, ok := r.(*ast.SliceExpr); ok && se.High != nil {
				if f, d, _, ok := a.rootField(se.X); ok && d == 1 {
					a.reslices = append(a.reslices, f)
				}
			}
		}
		for _, l := range x.Lhs {
			f, d, idx, ok := a.rootField(l)
			if !ok {
				continue
			}
			switch {
			case d == 1 && x.Tok == token.ASSIGN:
				w.add(f, "set")
			case d == 2 && x.Tok == token.ASSIGN && rangeOver == f && identName(idx) == rangeKey && rangeKey != "":
				w.add(f, "fill")
			default:
				w.add(f, "part")
			}
		}
		for _, r := range x.Rhs {
			if c, ok := r.(*ast.CallExpr); ok {
				a.callExpr(c, w)
			}
		}
	case *ast.IncDecStmt:
		a.noteTouches(x)
		if f, _, _, ok := a.rootField(x.X); ok {
			w.add(f, "part")
		}
	case *ast.ExprStmt:
		a.noteTouches(x)
		if c, ok := x.X.(*ast.CallExpr); ok {
			a.callExpr(c, w)
		}
	case *ast.BlockStmt:
		w.merge(a.seq(x.List, rangeOver, rangeKey))
	case *ast.IfStmt:
		if x.Init != nil {
			w.merge(a.stmt(x.Init, rangeOver, rangeKey))
		}
		a.noteTouches(x.Cond)
		a.noteResize(x)
		if a.hitBody && x.Else == nil && endsWithReturn(x.Body) && len(condFields(a, x.Cond)) > 0 && len(a.gate) == 0 {
			// the reuse gate: its body is the path on which the pooled object is kept
			a.gate = condFields(a, x.Cond)
			w.merge(a.seq(x.Body.List, rangeOver, rangeKey))
			return w
		}
		branches := []*wset{a.seq(x.Body.List, rangeOver, rangeKey)}
		hasElse := false
		e := x.Else
		for e != nil {
			switch y := e.(type) {
			case *ast.BlockStmt:
				branches = append(branches, a.seq(y.List, rangeOver, rangeKey))
				hasElse = true
				e = nil
			case *ast.IfStmt:
				if y.Init != nil {
					w.merge(a.stmt(y.Init, rangeOver, rangeKey).weaken())
				}
				a.noteTouches(y.Cond)
				branches = append(branches, a.seq(y.Body.List, rangeOver, rangeKey))
				e = y.Else
			default:
				e = nil
			}
		}
		if hasElse {
			w.merge(joinBranches(branches))
		} else {
			for _, b := range branches {
				w.merge(b.weaken())
			}
		}
	case *ast.RangeStmt:
		a.noteTouches(x.X)
		over, key := "", ""
		if f, d, _, ok := a.rootField(x.X); ok && d == 1 {
			over, key = f, identName(x.Key)
		}
		body := a.seq(x.Body.List, over, key)
		for _, f := range body.order {
			k := body.kind[f]
			if k == "fill" && f == over {
				w.add(f, "fill")
			} else if k == "part" {
				w.add(f, "part")
			} else {
				w.add(f, "cond")
			}
		}
	case *ast.ForStmt:
		if x.Init != nil {
			w.merge(a.stmt(x.Init, rangeOver, rangeKey))
		}
		a.noteTouches(x.Cond)
		body := a.seq(x.Body.List, "", "")
		if x.Post != nil {
			body.merge(a.stmt(x.Post, "", ""))
		}
		w.merge(body.weaken())
	case *ast.SwitchStmt:
		if x.Init != nil {
			w.merge(a.stmt(x.Init, rangeOver, rangeKey))
		}
		a.noteTouches(x.Tag)
		var branches []*wset
		hasDefault := false
		for _, cc := range x.Body.List {
			c := cc.(*ast.CaseClause)
			if c.List == nil {
				hasDefault = true
			}
			for _, e := range c.List {
				a.noteTouches(e)
			}
			branches = append(branches, a.seq(c.Body, rangeOver, rangeKey))
		}
		if hasDefault {
			w.merge(joinBranches(branches))
		} else {
			for _, b := range branches {
				w.merge(b.weaken())
			}
		}
	case *ast.TypeSwitchStmt:
		for _, cc := range x.Body.List {
			c := cc.(*ast.CaseClause)
			w.merge(a.seq(c.Body, rangeOver, rangeKey).weaken())
		}
	case *ast.DeferStmt:
		a.noteTouches(x.Call)
	case *ast.ReturnStmt:
		a.noteTouches(x)
	case *ast.DeclStmt:
		a.noteTouches(x)
	case *ast.GoStmt:
		a.noteTouches(x.Call)
	case *ast.LabeledStmt:
		w.merge(a.stmt(x.Stmt, rangeOver, rangeKey))
	}
	return w
}

// noteResize recognises the reuse-or-grow guard
//
//	if cap(x.f) >= n { x.f = x.f[:n] … } else { x.f = make(T, n) }     (or make(T, n, c) with len n)
//
// whose two branches leave x.f with the same length expression n.
func (a *analyser) noteResize(x *ast.IfStmt) {
	be, ok := x.Cond.(*ast.BinaryExpr)
	if !ok || be.Op != token.GEQ {
		return
	}
	c, ok := be.X.(*ast.CallExpr)
	if !ok || identName(c.Fun) != "cap" || len(c.Args) != 1 {
		return
	}
	f, d, _, ok := a.rootField(c.Args[0])
	if !ok || d != 1 {
		return
	}
	els, ok := x.Else.(*ast.BlockStmt)
	if !ok {
		return
	}
	lenIn := func(stmts []ast.Stmt, wantMake bool) (string, bool) {
		for _, s := range stmts {
			as, ok := s.(*ast.AssignStmt)
			if !ok || as.Tok != token.ASSIGN || len(as.Lhs) != 1 || len(as.Rhs) != 1 {
				continue
			}
			if g, d, _, ok := a.rootField(as.Lhs[0]); !ok || d != 1 || g != f {
				continue
			}
			switch r := as.Rhs[0].(type) {
			case *ast.SliceExpr:
				if wantMake || r.Low != nil || r.High == nil {
					continue
				}
				if g, d, _, ok := a.rootField(r.X); ok && d == 1 && g == f {
					return types.ExprString(r.High), true
				}
			case *ast.CallExpr:
				if wantMake && identName(r.Fun) == "make" && len(r.Args) >= 2 {
					return types.ExprString(r.Args[1]), true
				}
			}
		}
		return "", false
	}
	n1, ok1 := lenIn(x.Body.List, false)
	n2, ok2 := lenIn(els.List, true)
	if ok1 && ok2 && n1 == n2 {
		a.resizes = append(a.resizes, [2]string{f, n1})
	}
}

func identName(e ast.Expr) string {
	if id, ok := e.(*ast.Ident); ok {
		return id.Name
	}
	return ""
}

func findStruct(p *pkgInfo, name string) *ast.StructType {
	for _, f := range p.files {
		for _, d := range f.Decls {
			gd, ok := d.(*ast.GenDecl)
			if !ok || gd.Tok != token.TYPE {
				continue
			}
			for _, s := range gd.Specs {
				ts := s.(*ast.TypeSpec)
				if ts.Name.Name == name {
					if st, ok := ts.Type.(*ast.StructType); ok {
						return st
					}
				}
			}
		}
	}
	return nil
}

func structFieldNames(st *ast.StructType) []string {
	var out []string
	for _, f := range st.Fields.List {
		if len(f.Names) == 0 {
			// embedded
			t := f.Type
			if s, ok := t.(*ast.StarExpr); ok {
				t = s.X
			}
			switch x := t.(type) {
			case *ast.Ident:
				out = append(out, x.Name)
			case *ast.SelectorExpr:
				out = append(out, x.Sel.Name)
			}
			continue
		}
		for _, n := range f.Names {
			if n.Name != "_" {
				out = append(out, n.Name)
			}
		}
	}
	return out
}

// findFunc finds a function (recv == "") or method (recv = receiver type name);
// returns the declaration and the receiver variable name.
func findFunc(p *pkgInfo, recv, name string) (*ast.FuncDecl, string) {
	for _, f := range p.files {
		for _, d := range f.Decls {
			fd, ok := d.(*ast.FuncDecl)
			if !ok || fd.Name.Name != name || fd.Body == nil {
				continue
			}
			if recv == "" {
				if fd.Recv == nil {
					return fd, ""
				}
				continue
			}
			if fd.Recv == nil || len(fd.Recv.List) != 1 {
				continue
			}
			t := fd.Recv.List[0].Type
			if s, ok := t.(*ast.StarExpr); ok {
				t = s.X
			}
			if id, ok := t.(*ast.Ident); ok && id.Name == recv {
				rn := ""
				if len(fd.Recv.List[0].Names) == 1 {
					rn = fd.Recv.List[0].Names[0].Name
				}
				return fd, rn
			}
		}
	}
	return nil, ""
}

// isPoolGet reports whether e is <pool>.Get() (pool may be indexed: pools[i].Get()).
func isPoolGet(e ast.Expr, pool string) bool {
	c, ok := e.(*ast.CallExpr)
	if !ok {
		return false
	}
	sel, ok := c.Fun.(*ast.SelectorExpr)
	if !ok || sel.Sel.Name != "Get" {
		return false
	}
	x := sel.X
	if ix, ok := x.(*ast.IndexExpr); ok {
		x = ix.X
	}
	id, ok := x.(*ast.Ident)
	return ok && id.Name == pool
}

func typeAssertTarget(e ast.Expr) (inner ast.Expr, typ string, ok bool) {
	ta, isTA := e.(*ast.TypeAssertExpr)
	if !isTA || ta.Type == nil {
		return nil, "", false
	}
	t := ta.Type
	if s, isStar := t.(*ast.StarExpr); isStar {
		t = s.X
	}
	switch x := t.(type) {
	case *ast.Ident:
		return ta.X, x.Name, true
	case *ast.SelectorExpr:
		return ta.X, x.Sel.Name, true
	}
	return nil, "", false
}

// poolHit locates the statements executed on a pooled object inside fn and the
// variable the object is bound to.  Two shapes are recognised:
//
//	if v := P.Get(); v != nil { obj := v.(*T); … }       → the block after the binding
//	obj := P.Get().(*T); …                                → the rest of the function
func poolHit(fn *ast.FuncDecl, pool, typ string) (stmts []ast.Stmt, obj string, ok bool) {
	for i, s := range fn.Body.List {
		switch x := s.(type) {
		case *ast.IfStmt:
			as, isAs := x.Init.(*ast.AssignStmt)
			if !isAs || len(as.Rhs) != 1 || !isPoolGet(as.Rhs[0], pool) {
				continue
			}
			v := identName(as.Lhs[0])
			be, isBin := x.Cond.(*ast.BinaryExpr)
			if !isBin || be.Op != token.NEQ || identName(be.X) != v || identName(be.Y) != "nil" {
				continue
			}
			for j, b := range x.Body.List {
				bs, isAs := b.(*ast.AssignStmt)
				if !isAs || len(bs.Rhs) != 1 {
					continue
				}
				inner, t, isTA := typeAssertTarget(bs.Rhs[0])
				if isTA && t == typ && identName(inner) == v {
					return x.Body.List[j+1:], identName(bs.Lhs[0]), true
				}
			}
		case *ast.AssignStmt:
			if len(x.Rhs) != 1 {
				continue
			}
			inner, t, isTA := typeAssertTarget(x.Rhs[0])
			if isTA && t == typ && isPoolGet(inner, pool) {
				return fn.Body.List[i+1:], identName(x.Lhs[0]), true
			}
		}
	}
	return nil, "", false
}

func coqStrList(xs []string) string {
	q := make([]string, len(xs))
	for i, x := range xs {
		q[i] = `"` + x + `"`
	}
	return "[" + strings.Join(q, "; ") + "]"
}

func coqPairList(w *wset) string {
	q := make([]string, len(w.order))
	for i, f := range w.order {
		q[i] = fmt.Sprintf(`("%s", "%s")`, f, w.kind[f])
	}
	return "[" + strings.Join(q, "; ") + "]"
}

// fnSpec names one function to analyse for one pooled type.
type fnSpec struct {
	alias   string // package of the function
	recv    string // receiver type ("" = plain function)
	name    string
	mode    string // "recv" whole body on the receiver | "param:<name>" whole body on a parameter | "hit:<pool>" pool-hit block | "var:<name>" whole body on a local variable
	touches bool
}

type typeSpec struct {
	alias, typ string
	fns        []fnSpec
}

var pooledTypes = []typeSpec{
	{"lossy", "VP8Encoder", []fnSpec{
		{"lossy", "VP8Encoder", "resetForReuse", "recv", false},
		{"lossy", "", "NewEncoder", "hit:encoderPool", false},
		{"lossy", "", "NewEncoderFromYUV", "hit:encoderPool", false},
		{"lossy", "", "ReleaseEncoder", "param:enc", false},
		{"lossy", "VP8Encoder", "initSegments", "recv", false},
		{"lossy", "VP8Encoder", "initEncoderParams", "recv", false},
		{"lossy", "VP8Encoder", "allocateBuffers", "recv", false},
		{"lossy", "VP8Encoder", "importImage", "recv", true},
		{"lossy", "VP8Encoder", "importYCbCr", "recv", true},
		{"lossy", "VP8Encoder", "EncodeFrame", "recv", true},
	}},
	{"lossy", "TokenBuffer", []fnSpec{
		{"lossy", "TokenBuffer", "Reset", "recv", false},
		{"lossy", "TokenBuffer", "Init", "recv", false},
		{"lossy", "TokenBuffer", "addPage", "recv", false},
	}},
	{"lossy", "Decoder", []fnSpec{
		{"lossy", "", "acquireDecoder", "hit:lossyDecoderPool", false},
		{"lossy", "", "ReleaseDecoder", "param:dec", false},
		{"lossy", "Decoder", "parseHeaders", "recv", false},
		{"lossy", "Decoder", "parseSegmentHeader", "recv", false},
		{"lossy", "Decoder", "parseFilterHeader", "recv", false},
		{"lossy", "Decoder", "parsePartitions", "recv", false},
		{"lossy", "Decoder", "initFrame", "recv", false},
		{"lossy", "Decoder", "precomputeFilterStrengths", "recv", false},
		{"lossy", "Decoder", "parseFrame", "recv", true},
		{"lossy", "", "DecodeFrame", "var:dec", true},
	}},
	{"lossless", "Encoder", []fnSpec{
		{"lossless", "", "acquireEncoder", "hit:losslessEncoderPool", false},
		{"lossless", "", "releaseEncoder", "param:enc", false},
		{"lossless", "", "Encode", "var:enc", false},
		{"lossless", "", "EncodeToWriter", "var:enc", false},
	}},
	{"lossless", "Decoder", []fnSpec{
		{"lossless", "", "acquireDecoder", "hit:losslessDecoderPool", false},
		{"lossless", "", "releaseDecoder", "param:dec", false},
		{"lossless", "", "DecodeVP8L", "var:dec", false},
		{"lossless", "Decoder", "decodeHeader", "recv", false},
		{"lossless", "Decoder", "decodeImageStream", "recv", false},
	}},
	{"lossy", "parallelState", []fnSpec{
		{"lossy", "", "getParallelState", "hit:parallelPool", false},
		{"lossy", "", "putParallelState", "param:ps", false},
		{"lossy", "VP8Encoder", "encodeFrameParallel", "var:ps", true},
	}},
	{"lossy", "RowWorker", []fnSpec{
		{"lossy", "", "initRowWorker", "param:w", false},
		{"lossy", "VP8Encoder", "encodeRow", "param:w", false},
	}},
	{"lossy", "importUVWorker", []fnSpec{
		{"lossy", "", "getImportUVWorker", "hit:importUVWorkerPool", false},
	}},
	{"bitio", "BoolWriter", []fnSpec{
		{"bitio", "BoolWriter", "Reset", "recv", false},
		{"lossy", "", "getBoolWriter", "hit:boolWriterPool", false},
		{"lossy", "", "putBoolWriter", "param:bw", false},
	}},
	{"root", "argbBuf", []fnSpec{
		{"root", "", "encodeLossless", "hit:argbPool", false},
		{"root", "", "encodeLosslessToWriter", "hit:argbPool", false},
	}},
}

// constZeroCandidates: fields the model classifies ConstZero (allocated once, then only
// read).  For each the translator lists EVERY access in the package, so that a new
// write - or handing the buffer to another callee - changes the regenerated list.
var constZeroCandidates = []struct{ alias, typ, field string }{
	{"lossy", "VP8Encoder", "yuvP"},
}

// fieldAccesses lists (function, kind) for every selector expression x.<field> whose
// x has type T or *T, in all functions of the package.  Kinds:
//
//	set            x.f = e            (also x.f, y = …)
//	elem-write     x.f[i] = e, x.f[i]++, x.f[i] op= e
//	clear          clear(x.f)
//	copy-dst       copy(x.f…, src)
//	addr           &x.f, &x.f[i]
//	arg:F#k        x.f (or a re-slice of it) passed as k-th argument (0-based) of F
//	len            len(x.f) / cap(x.f)
//	read           anything else
func fieldAccesses(p *pkgInfo, typ, field string) (out [][2]string, found bool) {
	isT := func(e ast.Expr) bool {
		tv, ok := p.info.Types[e]
		if !ok || tv.Type == nil {
			return false
		}
		t := tv.Type
		if pt, ok := t.(*types.Pointer); ok {
			t = pt.Elem()
		}
		n, ok := t.(*types.Named)
		return ok && n.Obj().Name() == typ
	}
	seen := map[[2]string]bool{}
	for _, f := range p.files {
		for _, d := range f.Decls {
			fd, ok := d.(*ast.FuncDecl)
			if !ok || fd.Body == nil {
				continue
			}
			var stack []ast.Node
			ast.Inspect(fd.Body, func(n ast.Node) bool {
				if n == nil {
					stack = stack[:len(stack)-1]
					return true
				}
				stack = append(stack, n)
				sel, ok := n.(*ast.SelectorExpr)
				if !ok || sel.Sel.Name != field || !isT(sel.X) {
					return true
				}
				found = true
				kind := classifyAccess(stack)
				k := [2]string{fd.Name.Name, kind}
				if !seen[k] {
					seen[k] = true
					out = append(out, k)
				}
				return true
			})
		}
	}
	sort.Slice(out, func(i, j int) bool {
		if out[i][0] != out[j][0] {
			return out[i][0] < out[j][0]
		}
		return out[i][1] < out[j][1]
	})
	return
}

// classifyAccess looks at the ancestors of the selector (last element of stack).
func classifyAccess(stack []ast.Node) string {
	cur := ast.Node(stack[len(stack)-1])
	indexed := false
	for i := len(stack) - 2; i >= 0; i-- {
		switch par := stack[i].(type) {
		case *ast.ParenExpr:
			cur = par
			continue
		case *ast.SliceExpr:
			if par.X == cur {
				cur = par
				continue
			}
			return "read"
		case *ast.IndexExpr:
			if par.X == cur {
				cur = par
				indexed = true
				continue
			}
			return "read"
		case *ast.UnaryExpr:
			if par.Op == token.AND {
				return "addr"
			}
			return "read"
		case *ast.AssignStmt:
			for _, l := range par.Lhs {
				if l == cur {
					if indexed {
						return "elem-write"
					}
					return "set"
				}
			}
			return "read"
		case *ast.IncDecStmt:
			if par.X == cur {
				return "elem-write"
			}
			return "read"
		case *ast.CallExpr:
			for k, a := range par.Args {
				if a != cur {
					continue
				}
				if indexed {
					return "read" // an element value is passed, not the buffer
				}
				name := calleeName(par)
				switch {
				case name == "clear":
					return "clear"
				case name == "copy" && k == 0:
					return "copy-dst"
				case name == "copy":
					return "read"
				case name == "len" || name == "cap":
					return "len"
				}
				return fmt.Sprintf("arg:%s#%d", name, k)
			}
			return "read"
		default:
			return "read"
		}
	}
	return "read"
}

// expected sync.Pool declarations that must still exist (refuse when one disappears;
// new ones are reported through sync_pools and break pools_all_modelled in Coq).
var expectedPools = []string{
	"root.argbPool", "lossless.losslessEncoderPool", "lossless.losslessDecoderPool",
	"lossy.parallelPool", "lossy.importUVWorkerPool", "lossy.encoderPool",
	"lossy.lossyDecoderPool", "lossy.boolWriterPool", "pool.pools",
}

func isSyncPoolType(t types.Type) bool {
	switch x := t.(type) {
	case *types.Named:
		o := x.Obj()
		return o != nil && o.Pkg() != nil && o.Pkg().Path() == "sync" && o.Name() == "Pool"
	case *types.Array:
		return isSyncPoolType(x.Elem())
	case *types.Slice:
		return isSyncPoolType(x.Elem())
	case *types.Pointer:
		return isSyncPoolType(x.Elem())
	}
	return false
}

func isSyncPoolExpr(e ast.Expr) bool {
	switch x := e.(type) {
	case *ast.SelectorExpr:
		id, ok := x.X.(*ast.Ident)
		return ok && id.Name == "sync" && x.Sel.Name == "Pool"
	case *ast.ArrayType:
		return isSyncPoolExpr(x.Elt)
	case *ast.StarExpr:
		return isSyncPoolExpr(x.X)
	case *ast.CompositeLit:
		return x.Type != nil && isSyncPoolExpr(x.Type)
	case *ast.UnaryExpr:
		return isSyncPoolExpr(x.X)
	}
	return false
}

// syncPools lists every package-level variable, struct field or local variable of
// type sync.Pool (or array/slice/pointer of it) in the non-test sources.
func syncPools() []string {
	var out []string
	for _, pd := range pkgDirs {
		p, err := load(pd.alias, pd.dir)
		if err != nil {
			refuse("fields: cannot load %s: %v", pd.dir, err)
			continue
		}
		for _, f := range p.files {
			// package level
			for _, d := range f.Decls {
				gd, ok := d.(*ast.GenDecl)
				if !ok || gd.Tok != token.VAR {
					continue
				}
				for _, s := range gd.Specs {
					vs := s.(*ast.ValueSpec)
					for i, n := range vs.Names {
						is := false
						if obj := p.info.Defs[n]; obj != nil && obj.Type() != nil && isSyncPoolType(obj.Type()) {
							is = true
						}
						if vs.Type != nil && isSyncPoolExpr(vs.Type) {
							is = true
						}
						if i < len(vs.Values) && isSyncPoolExpr(vs.Values[i]) {
							is = true
						}
						if is {
							out = append(out, pd.alias+"."+n.Name)
						}
					}
				}
			}
			// struct fields and locals holding a pool
			ast.Inspect(f, func(n ast.Node) bool {
				switch x := n.(type) {
				case *ast.TypeSpec:
					if st, ok := x.Type.(*ast.StructType); ok {
						for _, fl := range st.Fields.List {
							if isSyncPoolExpr(fl.Type) {
								for _, nm := range fl.Names {
									out = append(out, pd.alias+"."+x.Name.Name+"."+nm.Name)
								}
								if len(fl.Names) == 0 {
									out = append(out, pd.alias+"."+x.Name.Name+".Pool")
								}
							}
						}
					}
				case *ast.FuncDecl:
					if x.Body == nil {
						return false
					}
					ast.Inspect(x.Body, func(m ast.Node) bool {
						switch y := m.(type) {
						case *ast.DeclStmt:
							if gd, ok := y.Decl.(*ast.GenDecl); ok && gd.Tok == token.VAR {
								for _, s := range gd.Specs {
									vs := s.(*ast.ValueSpec)
									if vs.Type != nil && isSyncPoolExpr(vs.Type) {
										for _, nm := range vs.Names {
											out = append(out, pd.alias+"."+x.Name.Name+"#"+nm.Name)
										}
									}
								}
							}
						case *ast.AssignStmt:
							if y.Tok == token.DEFINE {
								for i, r := range y.Rhs {
									if isSyncPoolExpr(r) && i < len(y.Lhs) {
										out = append(out, pd.alias+"."+x.Name.Name+"#"+identName(y.Lhs[i]))
									}
								}
							}
						}
						return true
					})
					return false
				}
				return true
			})
		}
	}
	sort.Strings(out)
	return out
}

func genFields() (string, string) {
	var b bytes.Buffer
	b.WriteString("(* GENERATED by tools/gosrc2v (fields.go) from /repo's current source. Do not edit. *)\n")
	b.WriteString("From Coq Require Import String List.\nImport ListNotations.\nOpen Scope string_scope.\n\n")

	aliasDir := map[string]string{}
	for _, pd := range pkgDirs {
		aliasDir[pd.alias] = pd.dir
	}
	for _, ts := range pooledTypes {
		p, err := load(ts.alias, aliasDir[ts.alias])
		if err != nil {
			refuse("fields: cannot load %s: %v", ts.alias, err)
			continue
		}
		st := findStruct(p, ts.typ)
		if st == nil {
			refuse("fields: struct type %s.%s not found", ts.alias, ts.typ)
			continue
		}
		fmt.Fprintf(&b, "(* ---- %s.%s ---- *)\n", ts.alias, ts.typ)
		fmt.Fprintf(&b, "Definition %s_%s_fields : list string :=\n  %s.\n", ts.alias, ts.typ, wrap(coqStrList(structFieldNames(st))))
		for _, fs := range ts.fns {
			q, err := load(fs.alias, aliasDir[fs.alias])
			if err != nil {
				refuse("fields: cannot load %s: %v", fs.alias, err)
				continue
			}
			fd, recvName := findFunc(q, fs.recv, fs.name)
			label := fs.name
			if fs.recv != "" {
				label = fs.recv + "." + fs.name
			}
			if fd == nil {
				refuse("fields: function %s.%s not found (pooled type %s)", fs.alias, label, ts.typ)
				continue
			}
			a := &analyser{aliases: map[string]string{}, pkg: q, active: map[string]bool{}}
			if fs.touches {
				a.touches = map[string]bool{}
			}
			var stmts []ast.Stmt
			switch {
			case fs.mode == "recv":
				if recvName == "" {
					refuse("fields: %s.%s has no named receiver", fs.alias, label)
					continue
				}
				a.obj = recvName
				stmts = fd.Body.List
			case strings.HasPrefix(fs.mode, "param:"), strings.HasPrefix(fs.mode, "var:"):
				name := fs.mode[strings.Index(fs.mode, ":")+1:]
				found := false
				if strings.HasPrefix(fs.mode, "param:") {
					for _, fl := range fd.Type.Params.List {
						for _, n := range fl.Names {
							if n.Name == name {
								found = true
							}
						}
					}
				} else {
					ast.Inspect(fd.Body, func(n ast.Node) bool {
						if as, ok := n.(*ast.AssignStmt); ok && as.Tok == token.DEFINE {
							for _, l := range as.Lhs {
								if identName(l) == name {
									found = true
								}
							}
						}
						return true
					})
					// named results count as variables too
					if fd.Type.Results != nil {
						for _, fl := range fd.Type.Results.List {
							for _, n := range fl.Names {
								if n.Name == name {
									found = true
								}
							}
						}
					}
				}
				if !found {
					refuse("fields: %s.%s no longer has a %s", fs.alias, label, fs.mode)
					continue
				}
				a.obj = name
				stmts = fd.Body.List
			case strings.HasPrefix(fs.mode, "hit:"):
				pool := fs.mode[4:]
				var ok bool
				stmts, a.obj, ok = poolHit(fd, pool, ts.typ)
				if !ok {
					refuse("fields: %s.%s: pool-hit block on %s (type %s) not found", fs.alias, label, pool, ts.typ)
					continue
				}
				a.hitBody = true
			}
			w := a.seq(stmts, "", "")
			base := fmt.Sprintf("%s_%s_%s", fs.alias, ts.typ, fs.name)
			fmt.Fprintf(&b, "Definition %s_writes : list (string * string) :=\n  %s.\n", base, wrap(coqPairList(w)))
			if a.hitBody {
				fmt.Fprintf(&b, "Definition %s_gate : list string := %s.\n", base, coqStrList(a.gate))
			}
			if len(a.calls) > 0 || a.hitBody {
				fmt.Fprintf(&b, "Definition %s_calls : list string := %s.\n", base, wrap(coqStrList(a.calls)))
			}
			{
				q := make([]string, len(a.resizes))
				for i, r := range a.resizes {
					q[i] = fmt.Sprintf(`("%s", "%s")`, r[0], strings.ReplaceAll(r[1], `"`, "'"))
				}
				if len(q) > 0 {
					fmt.Fprintf(&b, "Definition %s_resizes : list (string * string) :=\n  %s.\n", base, wrap("["+strings.Join(q, "; ")+"]"))
				}
			}
			if fs.touches {
				var t []string
				for _, f := range structFieldNames(st) {
					if a.touches[f] {
						t = append(t, f)
					}
				}
				fmt.Fprintf(&b, "Definition %s_touches : list string :=\n  %s.\n", base, wrap(coqStrList(t)))
				fmt.Fprintf(&b, "Definition %s_reslices : list string :=\n  %s.\n", base, wrap(coqStrList(a.reslices)))
			}
		}
		b.WriteString("\n")
	}

	// package-wide access lists of fields classified ConstZero by the model
	for _, cz := range constZeroCandidates {
		p, err := load(cz.alias, aliasDir[cz.alias])
		if err != nil {
			refuse("fields: cannot load %s: %v", cz.alias, err)
			continue
		}
		acc, found := fieldAccesses(p, cz.typ, cz.field)
		if !found {
			refuse("fields: no access to %s.%s.%s found in the package (field renamed or removed?)", cz.alias, cz.typ, cz.field)
		}
		q := make([]string, len(acc))
		for i, a := range acc {
			q[i] = fmt.Sprintf(`("%s", "%s")`, a[0], a[1])
		}
		fmt.Fprintf(&b, "(* every access to %s.%s.%s in the non-test sources of the package: (function, kind) *)\nDefinition %s_%s_%s_accesses : list (string * string) :=\n  %s.\n\n",
			cz.alias, cz.typ, cz.field, cz.alias, cz.typ, cz.field, wrap("["+strings.Join(q, "; ")+"]"))
	}

	pools := syncPools()
	have := map[string]bool{}
	for _, p := range pools {
		have[p] = true
	}
	for _, e := range expectedPools {
		if !have[e] {
			refuse("fields: sync.Pool variable %s not found", e)
		}
	}
	fmt.Fprintf(&b, "(* every sync.Pool variable / field / local of the non-test sources *)\nDefinition sync_pools : list string :=\n  %s.\n", wrap(coqStrList(pools)))
	return "Fields.v", b.String()
}
