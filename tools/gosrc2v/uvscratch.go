package main

// uvscratch.go — emits coq/Gen/UVScratch.v: the index facts of the UV import path
// (internal/lossy/encode.go importImage, UV worker goroutines) that
// Conc/ConcUVScratch.v's "every scratch cell that reaches the output was written in the
// same call" theorem is about:
//
//	dsp.AccumulateRGBA   main loop: bound text, step of j and of dIdx, the (stride
//	                     coefficient, constant) pairs of every read r|g|b|a[j + c*stride + k],
//	                     the constants k of every write dst[dIdx + k]
//	dsp.ConvertRGBA32ToUV loop: bound text, multiplier m and constants k of every read rgb[i*m + k]
//	importImage UV goroutine: the statements of the row-pair loop body, printed, and the
//	                     uvWidth definition
//
// Index expressions are parsed structurally (sums of the loop variable, "stride" and integer
// literals); anything else makes the translator refuse.

import (
	"bytes"
	"fmt"
	"go/ast"
	"go/format"
	"go/parser"
	"go/token"
	"path/filepath"
	"sort"
	"strconv"
	"strings"
)

func init() { extraGenerators = append(extraGenerators, genUVScratch) }

func uvPrint(n ast.Node) string {
	var b bytes.Buffer
	format.Node(&b, token.NewFileSet(), n)
	return strings.Join(strings.Fields(b.String()), " ")
}

// linear parses e as base*mult + coef*stride + k where base is the identifier baseName.
func uvLinear(e ast.Expr, baseName string) (mult, coef, k int, ok bool) {
	var terms func(e ast.Expr) bool
	terms = func(e ast.Expr) bool {
		switch x := e.(type) {
		case *ast.ParenExpr:
			return terms(x.X)
		case *ast.BinaryExpr:
			if x.Op == token.ADD {
				return terms(x.X) && terms(x.Y)
			}
			if x.Op == token.MUL {
				id, ok1 := x.X.(*ast.Ident)
				lit, ok2 := x.Y.(*ast.BasicLit)
				if ok1 && ok2 && id.Name == baseName && lit.Kind == token.INT && mult == 0 {
					mult, _ = strconv.Atoi(lit.Value)
					return true
				}
			}
			return false
		case *ast.Ident:
			if x.Name == baseName && mult == 0 {
				mult = 1
				return true
			}
			if x.Name == "stride" {
				coef++
				return true
			}
			return false
		case *ast.BasicLit:
			if x.Kind == token.INT {
				v, _ := strconv.Atoi(x.Value)
				k += v
				return true
			}
		}
		return false
	}
	ok = terms(e) && mult != 0
	return
}

func genUVScratch() (string, string) {
	fail := func(format string, a ...any) (string, string) {
		refuse("uvscratch: "+format, a...)
		return "UVScratch.v", "(* not generated *)\n"
	}
	parse := func(rel string) map[string]*ast.FuncDecl {
		f, err := parser.ParseFile(token.NewFileSet(), filepath.Join(repo, rel), nil, 0)
		if err != nil {
			refuse("uvscratch: cannot parse %s: %v", rel, err)
			return nil
		}
		m := map[string]*ast.FuncDecl{}
		for _, d := range f.Decls {
			if fd, ok := d.(*ast.FuncDecl); ok && fd.Body != nil {
				m[fd.Name.Name] = fd
			}
		}
		return m
	}
	dsp := parse("internal/dsp/yuv.go")
	lossy := parse("internal/lossy/encode.go")
	if dsp == nil || lossy == nil {
		return "UVScratch.v", "(* not generated *)\n"
	}
	acc, conv, imp := dsp["AccumulateRGBA"], dsp["ConvertRGBA32ToUV"], lossy["importImage"]
	if acc == nil || conv == nil || imp == nil {
		return fail("AccumulateRGBA / ConvertRGBA32ToUV / importImage not found")
	}
	firstFor := func(b *ast.BlockStmt) *ast.ForStmt {
		for _, st := range b.List {
			if fs, ok := st.(*ast.ForStmt); ok {
				return fs
			}
		}
		return nil
	}
	// ---- AccumulateRGBA main loop
	accLoop := firstFor(acc.Body)
	if accLoop == nil {
		return fail("AccumulateRGBA: main loop not found")
	}
	type pair struct{ a, b int }
	reads := map[pair]bool{}
	writes := map[int]bool{}
	jstep, dstep := 0, 0
	bad := ""
	lhs := map[ast.Expr]bool{}
	ast.Inspect(accLoop.Body, func(x ast.Node) bool {
		if as, ok := x.(*ast.AssignStmt); ok {
			for _, l := range as.Lhs {
				lhs[l] = true
			}
			if as.Tok == token.ADD_ASSIGN && len(as.Lhs) == 1 && len(as.Rhs) == 1 {
				if id, ok := as.Lhs[0].(*ast.Ident); ok {
					if lit, ok := as.Rhs[0].(*ast.BasicLit); ok && lit.Kind == token.INT {
						v, _ := strconv.Atoi(lit.Value)
						if id.Name == "j" {
							jstep += v
						}
						if id.Name == "dIdx" {
							dstep += v
						}
					}
				}
			}
		}
		return true
	})
	ast.Inspect(accLoop.Body, func(x ast.Node) bool {
		ie, ok := x.(*ast.IndexExpr)
		if !ok {
			return true
		}
		id, ok := ie.X.(*ast.Ident)
		if !ok {
			return true
		}
		switch id.Name {
		case "r", "g", "b", "a":
			m, c, k, ok := uvLinear(ie.Index, "j")
			if !ok || m != 1 || lhs[ie] {
				bad = "AccumulateRGBA: unexpected access " + uvPrint(ie)
				return false
			}
			reads[pair{c, k}] = true
		case "dst":
			m, c, k, ok := uvLinear(ie.Index, "dIdx")
			if !ok || m != 1 || c != 0 || !lhs[ie] {
				bad = "AccumulateRGBA: unexpected access " + uvPrint(ie)
				return false
			}
			writes[k] = true
		}
		return true
	})
	if bad != "" {
		return fail("%s", bad)
	}
	// ---- ConvertRGBA32ToUV loop
	convLoop := firstFor(conv.Body)
	if convLoop == nil {
		return fail("ConvertRGBA32ToUV: loop not found")
	}
	convMult := 0
	convReads := map[int]bool{}
	ast.Inspect(convLoop.Body, func(x ast.Node) bool {
		ie, ok := x.(*ast.IndexExpr)
		if !ok {
			return true
		}
		if id, ok := ie.X.(*ast.Ident); ok && id.Name == "rgb" {
			m, c, k, ok := uvLinear(ie.Index, "i")
			if !ok || c != 0 || (convMult != 0 && convMult != m) {
				bad = "ConvertRGBA32ToUV: unexpected access " + uvPrint(ie)
				return false
			}
			convMult = m
			convReads[k] = true
		}
		return true
	})
	if bad != "" {
		return fail("%s", bad)
	}
	// ---- importImage: the UV goroutine (the second go statement), its `for y := startPair` loop
	var goStmts []*ast.GoStmt
	ast.Inspect(imp.Body, func(x ast.Node) bool {
		if g, ok := x.(*ast.GoStmt); ok {
			goStmts = append(goStmts, g)
			return false
		}
		return true
	})
	if len(goStmts) != 2 {
		return fail("importImage: expected 2 go statements, found %d", len(goStmts))
	}
	fl, ok := goStmts[1].Call.Fun.(*ast.FuncLit)
	if !ok {
		return fail("importImage: UV go statement is not a function literal")
	}
	var pairLoop *ast.ForStmt
	var prelude []string
	for _, st := range fl.Body.List {
		if fs, ok := st.(*ast.ForStmt); ok && pairLoop == nil {
			if as, ok := fs.Init.(*ast.AssignStmt); ok && len(as.Lhs) == 1 && uvPrint(as.Lhs[0]) == "y" {
				pairLoop = fs
				continue
			}
		}
		prelude = append(prelude, uvPrint(st))
	}
	if pairLoop == nil {
		return fail("importImage: row-pair loop (for y := startPair ...) not found in the UV goroutine")
	}
	var body []string
	for _, st := range pairLoop.Body.List {
		body = append(body, uvPrint(st))
	}
	uvWidthDef := ""
	ast.Inspect(imp.Body, func(x ast.Node) bool {
		if as, ok := x.(*ast.AssignStmt); ok && as.Tok == token.DEFINE && len(as.Lhs) == 1 && uvPrint(as.Lhs[0]) == "uvWidth" {
			uvWidthDef = uvPrint(as.Rhs[0])
		}
		return true
	})
	// ---- emit
	var out bytes.Buffer
	out.WriteString("(* GENERATED by tools/gosrc2v (uvscratch.go) from /repo's current source. Do not edit. *)\nFrom Coq Require Import List String.\nImport ListNotations.\n\n")
	var rp []pair
	for p := range reads {
		rp = append(rp, p)
	}
	sort.Slice(rp, func(i, j int) bool { return rp[i].a < rp[j].a || (rp[i].a == rp[j].a && rp[i].b < rp[j].b) })
	ints := func(m map[int]bool) string {
		var l []int
		for k := range m {
			l = append(l, k)
		}
		sort.Ints(l)
		s := make([]string, len(l))
		for i, v := range l {
			s[i] = strconv.Itoa(v)
		}
		return "[" + strings.Join(s, "; ") + "]"
	}
	var rs []string
	for _, p := range rp {
		rs = append(rs, fmt.Sprintf("(%d, %d)", p.a, p.b))
	}
	fmt.Fprintf(&out, "(* dsp.AccumulateRGBA, main loop: reads r|g|b|a[j + a*stride + b] as (a, b); writes dst[dIdx + k] *)\n")
	fmt.Fprintf(&out, "Definition acc_loop_bound : string := %s.\n", concCoqString(uvPrint(accLoop.Cond)))
	fmt.Fprintf(&out, "Definition acc_j_step : nat := %d.\nDefinition acc_reads : list (nat * nat) := [%s].\n", jstep, strings.Join(rs, "; "))
	fmt.Fprintf(&out, "Definition acc_dst_step : nat := %d.\nDefinition acc_dst_writes : list nat := %s.\n\n", dstep, ints(writes))
	fmt.Fprintf(&out, "(* dsp.ConvertRGBA32ToUV: reads rgb[i*m + k] *)\nDefinition conv_loop_bound : string := %s.\nDefinition conv_mult : nat := %d.\nDefinition conv_reads : list nat := %s.\n\n",
		concCoqString(uvPrint(convLoop.Cond)), convMult, ints(convReads))
	fmt.Fprintf(&out, "(* importImage: uvWidth, the UV goroutine's statements before the row-pair loop, and the loop body *)\nDefinition uv_width_def : string := %s.\n", concCoqString(uvWidthDef))
	emitList := func(name string, l []string) {
		fmt.Fprintf(&out, "Definition %s : list string :=\n  [", name)
		for i, s := range l {
			if i > 0 {
				out.WriteString(";\n   ")
			}
			out.WriteString(concCoqString(s))
		}
		out.WriteString("]%string.\n")
	}
	emitList("uv_goroutine_prelude", prelude)
	emitList("uv_pair_loop_body", body)
	return "UVScratch.v", out.String()
}
