// owner.go — Gen/Owner.v: where the values handed back to the caller come from
// (property C11, "returned values are never modified later": results are built in
// fresh allocations or copied out of pooled storage before the pooled object is Put).
//
// Starting from the functions through which the public API returns images and byte
// slices, and following every package-local / module-local callee that contributes a
// returned value, the translator lists for every return statement the ORIGIN of each
// reference-typed operand (slice, pointer, map, interface):
//
//	nil                    the nil literal
//	fresh:make             make(…)
//	fresh:append-nil       append([]T(nil), …) / append([]T{}, …)
//	fresh:lit              composite literal (its reference-typed element values are
//	                       listed as further sites of the same function)
//	ext:<pkg.Func>         result of a function outside the module (image.NewNRGBA, …)
//	call:<alias.Func>      result of a module function (listed itself)
//	param:<name>           a parameter of the function (the caller's own value)
//	pooled:<Type.field>    storage of a pooled object (field of VP8Encoder, Decoder, …)
//	pooled:<Type>          the pooled object itself
//	method:<Type.Method>   result of a method of an external type on a local
//	unknown:<expr>         anything else
//
// A local variable is replaced by the origins of everything assigned to it in the
// function (re-slicing v[a:b] keeps the origin of v).  The Coq side decides which
// origins are acceptable (PoolProofs.returned_values_fresh).
package main

import (
	"bytes"
	"fmt"
	"go/ast"
	"go/token"
	"go/types"
	"sort"
	"strings"
)

func init() { extraGenerators = append(extraGenerators, genOwner) }

var ownerSeeds = []struct{ alias, name string }{
	{"root", "decodeBytes"},
	{"root", "decodeFrameForAnimation"},
	{"root", "encodeLossless"},
	{"root", "encodeLossyWithAlpha"},
	{"root", "encodeFrameForAnimation"},
	{"root", "simpleEncodeForAnimation"},
}

var pooledTypeNames = map[string]bool{
	"VP8Encoder": true, "TokenBuffer": true, "Decoder": true, "Encoder": true, "parallelState": true,
	"RowWorker": true, "importUVWorker": true, "BoolWriter": true, "argbBuf": true, "LosslessWriter": true,
}

type ownerCtx struct {
	sites map[[2]string]bool
	done  map[string]bool
	work  []string
	pkgs  map[string]*skelPkg // by alias
	byPkg map[*types.Package]string
}

func isRefType(t types.Type) bool {
	if t == nil {
		return false
	}
	switch u := t.Underlying().(type) {
	case *types.Slice, *types.Pointer, *types.Map, *types.Chan:
		return true
	case *types.Interface:
		// error values carry no image / byte storage
		if n, ok := t.(*types.Named); ok && n.Obj().Name() == "error" && n.Obj().Pkg() == nil {
			return false
		}
		return true
	case *types.Struct:
		_ = u
		return false
	}
	return false
}

// carriesRefs: a struct / array type with reference-typed parts (copying it shares them).
func carriesRefs(t types.Type) bool {
	switch u := t.Underlying().(type) {
	case *types.Struct:
		for i := 0; i < u.NumFields(); i++ {
			ft := u.Field(i).Type()
			if isRefType(ft) || carriesRefs(ft) {
				return true
			}
		}
	case *types.Array:
		return isRefType(u.Elem()) || carriesRefs(u.Elem())
	}
	return false
}

func (oc *ownerCtx) add(fn, kind string) { oc.sites[[2]string{fn, kind}] = true }

// origins classifies expression e inside function fd of package sp.
func (oc *ownerCtx) origins(sp *skelPkg, alias string, fd *ast.FuncDecl, e ast.Expr, depth int, seen map[types.Object]bool) []string {
	info := sp.p.info
	for {
		if p, ok := e.(*ast.ParenExpr); ok {
			e = p.X
			continue
		}
		break
	}
	if depth > 12 {
		return []string{"unknown:too-deep"}
	}
	switch x := e.(type) {
	case *ast.Ident:
		if x.Name == "nil" {
			return []string{"nil"}
		}
		obj := info.Uses[x]
		if obj == nil {
			obj = info.Defs[x]
		}
		v, ok := obj.(*types.Var)
		if !ok {
			return []string{"unknown:" + x.Name}
		}
		if v.Parent() == sp.p.pkg.Scope() {
			return []string{"global:" + alias + "." + v.Name()}
		}
		if seen[v] {
			return nil
		}
		seen[v] = true
		// parameter / receiver?
		if fd.Type.Params != nil {
			for _, fl := range fd.Type.Params.List {
				for _, n := range fl.Names {
					if info.Defs[n] == obj {
						return []string{"param:" + n.Name}
					}
				}
			}
		}
		if fd.Recv != nil {
			for _, fl := range fd.Recv.List {
				for _, n := range fl.Names {
					if info.Defs[n] == obj {
						if tn := namedOf(v.Type()); pooledTypeNames[tn] {
							return []string{"pooled:" + tn}
						}
						return []string{"param:" + n.Name}
					}
				}
			}
		}
		// local (or named result): everything assigned to it
		var out []string
		found := false
		ast.Inspect(fd.Body, func(n ast.Node) bool {
			switch s := n.(type) {
			case *ast.AssignStmt:
				for i, l := range s.Lhs {
					id, ok := l.(*ast.Ident)
					if !ok || (info.Defs[id] != obj && info.Uses[id] != obj) {
						continue
					}
					found = true
					if len(s.Rhs) == len(s.Lhs) {
						out = append(out, oc.origins(sp, alias, fd, s.Rhs[i], depth+1, seen)...)
					} else if len(s.Rhs) == 1 {
						// multi-value call or type assertion / map lookup
						out = append(out, oc.originsMulti(sp, alias, fd, s.Rhs[0], i, depth+1, seen)...)
					}
				}
			case *ast.ValueSpec:
				for i, id := range s.Names {
					if info.Defs[id] != obj {
						continue
					}
					found = true
					if i < len(s.Values) {
						out = append(out, oc.origins(sp, alias, fd, s.Values[i], depth+1, seen)...)
					} else if len(s.Values) == 0 {
						out = append(out, "nil")
					}
				}
			case *ast.RangeStmt:
				for _, l := range []ast.Expr{s.Key, s.Value} {
					if id, ok := l.(*ast.Ident); ok && info.Defs[id] == obj {
						found = true
						out = append(out, "unknown:range-var "+id.Name)
					}
				}
			}
			return true
		})
		if !found {
			out = append(out, "nil") // named result never assigned: zero value
		}
		if tn := namedOf(v.Type()); pooledTypeNames[tn] && !found {
			return []string{"pooled:" + tn}
		}
		return out
	case *ast.SliceExpr:
		return oc.origins(sp, alias, fd, x.X, depth+1, seen)
	case *ast.StarExpr:
		return oc.origins(sp, alias, fd, x.X, depth+1, seen)
	case *ast.UnaryExpr:
		if x.Op == token.AND {
			if cl, ok := x.X.(*ast.CompositeLit); ok {
				return oc.origins(sp, alias, fd, cl, depth+1, seen)
			}
			// &local where local is a function-local VALUE (struct, array, scalar): the
			// address of a private copy - fresh, unless the value itself carries references
			if id, ok := x.X.(*ast.Ident); ok {
				if v, ok := info.Uses[id].(*types.Var); ok && v.Parent() != sp.p.pkg.Scope() && !v.IsField() {
					if !isRefType(v.Type()) && !carriesRefs(v.Type()) {
						return []string{"fresh:addr-of-local-copy"}
					}
				}
			}
			return oc.origins(sp, alias, fd, x.X, depth+1, seen)
		}
	case *ast.CompositeLit:
		out := []string{"fresh:lit"}
		for _, el := range x.Elts {
			val := el
			if kv, ok := el.(*ast.KeyValueExpr); ok {
				val = kv.Value
			}
			if tv, ok := info.Types[val]; ok && isRefType(tv.Type) {
				out = append(out, oc.origins(sp, alias, fd, val, depth+1, seen)...)
			}
		}
		return out
	case *ast.SelectorExpr:
		// field of a pooled object?
		if tv, ok := info.Types[x.X]; ok {
			if tn := namedOf(tv.Type); pooledTypeNames[tn] {
				return []string{"pooled:" + tn + "." + x.Sel.Name}
			}
		}
		if _, isPkg := info.Uses[identOf(x.X)].(*types.PkgName); isPkg {
			return []string{"unknown:" + types.ExprString(x)}
		}
		// field of another struct value: origin of the struct
		return oc.origins(sp, alias, fd, x.X, depth+1, seen)
	case *ast.IndexExpr:
		return oc.origins(sp, alias, fd, x.X, depth+1, seen)
	case *ast.TypeAssertExpr:
		return oc.origins(sp, alias, fd, x.X, depth+1, seen)
	case *ast.CallExpr:
		return oc.originsMulti(sp, alias, fd, x, 0, depth, seen)
	case *ast.BasicLit, *ast.FuncLit:
		return []string{"fresh:lit"}
	}
	return []string{"unknown:" + types.ExprString(e)}
}

func identOf(e ast.Expr) *ast.Ident {
	id, _ := e.(*ast.Ident)
	return id
}

// originsMulti: result number idx of a call (or the value of a conversion / builtin).
func (oc *ownerCtx) originsMulti(sp *skelPkg, alias string, fd *ast.FuncDecl, e ast.Expr, idx, depth int, seen map[types.Object]bool) []string {
	info := sp.p.info
	c, ok := e.(*ast.CallExpr)
	if !ok {
		return oc.origins(sp, alias, fd, e, depth+1, seen)
	}
	// conversion T(x)
	if tv, ok := info.Types[c.Fun]; ok && tv.IsType() && len(c.Args) == 1 {
		return oc.origins(sp, alias, fd, c.Args[0], depth+1, seen)
	}
	var fnObj *types.Func
	switch f := c.Fun.(type) {
	case *ast.Ident:
		switch f.Name {
		case "make", "new":
			if _, isB := info.Uses[f].(*types.Builtin); isB {
				return []string{"fresh:make"}
			}
		case "append":
			if _, isB := info.Uses[f].(*types.Builtin); isB && len(c.Args) > 0 {
				a0 := c.Args[0]
				if cv, ok := a0.(*ast.CallExpr); ok && len(cv.Args) == 1 && identName(cv.Args[0]) == "nil" {
					return []string{"fresh:append-nil"}
				}
				if cl, ok := a0.(*ast.CompositeLit); ok && len(cl.Elts) == 0 {
					return []string{"fresh:append-nil"}
				}
				return oc.origins(sp, alias, fd, a0, depth+1, seen) // may grow in place: origin of the base
			}
		}
		fnObj, _ = info.Uses[f].(*types.Func)
	case *ast.SelectorExpr:
		fnObj, _ = info.Uses[f.Sel].(*types.Func)
	}
	if fnObj == nil {
		return []string{"unknown:" + types.ExprString(c.Fun) + "()"}
	}
	// the result must be reference-typed to matter
	if sig, ok := fnObj.Type().(*types.Signature); ok && idx < sig.Results().Len() {
		if !isRefType(sig.Results().At(idx).Type()) {
			return nil
		}
	}
	if a, inModule := oc.byPkg[fnObj.Pkg()]; inModule {
		q := oc.pkgs[a]
		if name, ok := q.funcs[fnObj]; ok {
			full := fmt.Sprintf("%s.%s#%d", a, name, idx)
			oc.enqueue(a + "." + name)
			return []string{"call:" + full}
		}
		return []string{"unknown:bodyless " + fnObj.FullName()}
	}
	if sel, ok := c.Fun.(*ast.SelectorExpr); ok {
		if _, isPkg := info.Uses[identOf(sel.X)].(*types.PkgName); !isPkg {
			// method of an external type on some value
			recv := ""
			if sig, ok := fnObj.Type().(*types.Signature); ok && sig.Recv() != nil {
				recv = namedOf(sig.Recv().Type())
			}
			return []string{"method:" + recv + "." + fnObj.Name()}
		}
	}
	pkgName := ""
	if fnObj.Pkg() != nil {
		pkgName = fnObj.Pkg().Name()
	}
	return []string{"ext:" + pkgName + "." + fnObj.Name()}
}

func (oc *ownerCtx) enqueue(full string) {
	if !oc.done[full] {
		oc.done[full] = true
		oc.work = append(oc.work, full)
	}
}

func (oc *ownerCtx) drain() {
	for len(oc.work) > 0 {
		full := oc.work[0]
		oc.work = oc.work[1:]
		i := strings.Index(full, ".")
		alias, name := full[:i], full[i+1:]
		sp := oc.pkgs[alias]
		fd := sp.decls[name]
		if fd == nil {
			refuse("owner: function %s has no body", full)
			continue
		}
		sig, _ := sp.p.info.Defs[fd.Name].Type().(*types.Signature)
		ast.Inspect(fd.Body, func(n ast.Node) bool {
			if _, ok := n.(*ast.FuncLit); ok {
				return false
			}
			rs, ok := n.(*ast.ReturnStmt)
			if !ok {
				return true
			}
			if len(rs.Results) == 0 && sig != nil {
				// naked return: the named results
				for k := 0; k < sig.Results().Len(); k++ {
					rv := sig.Results().At(k)
					if !isRefType(rv.Type()) || rv.Name() == "" {
						continue
					}
					for _, fl := range fd.Type.Results.List {
						for _, nm := range fl.Names {
							if nm.Name == rv.Name() {
								for _, o := range oc.origins(sp, alias, fd, nm, 0, map[types.Object]bool{}) {
									oc.add(fmt.Sprintf("%s#%d", full, k), o)
								}
							}
						}
					}
				}
				return true
			}
			if len(rs.Results) == 1 && sig != nil && sig.Results().Len() > 1 {
				for k := 0; k < sig.Results().Len(); k++ {
					if isRefType(sig.Results().At(k).Type()) {
						for _, o := range oc.originsMulti(sp, alias, fd, rs.Results[0], k, 0, map[types.Object]bool{}) {
							oc.add(fmt.Sprintf("%s#%d", full, k), o)
						}
					}
				}
				return true
			}
			for k, r := range rs.Results {
				tv, ok := sp.p.info.Types[r]
				if !ok || (!isRefType(tv.Type) && identName(r) != "nil") {
					continue
				}
				if sig != nil && k < sig.Results().Len() && !isRefType(sig.Results().At(k).Type()) {
					continue
				}
				for _, o := range oc.origins(sp, alias, fd, r, 0, map[types.Object]bool{}) {
					oc.add(fmt.Sprintf("%s#%d", full, k), o)
				}
			}
			return true
		})
	}
}

func genOwner() (string, string) {
	aliasDir := map[string]string{}
	for _, pd := range pkgDirs {
		aliasDir[pd.alias] = pd.dir
	}
	oc := &ownerCtx{sites: map[[2]string]bool{}, done: map[string]bool{}, pkgs: map[string]*skelPkg{}, byPkg: map[*types.Package]string{}}
	for _, pd := range pkgDirs {
		p, err := load(pd.alias, pd.dir)
		if err != nil {
			refuse("owner: cannot load %s: %v", pd.alias, err)
			continue
		}
		oc.pkgs[pd.alias] = newSkelPkg(p)
		oc.byPkg[p.pkg] = pd.alias
	}
	for _, s := range ownerSeeds {
		sp := oc.pkgs[s.alias]
		if sp == nil || sp.decls[s.name] == nil {
			refuse("owner: entry function %s.%s not found", s.alias, s.name)
			continue
		}
		oc.enqueue(s.alias + "." + s.name)
	}
	oc.drain()
	// ---- public API surface: every exported function / method of the non-internal packages
	// that returns a reference-typed value is a root as well
	apiRoots := map[string]bool{}
	for _, pd := range pkgDirs {
		if strings.HasPrefix(pd.dir, "internal") {
			continue
		}
		sp := oc.pkgs[pd.alias]
		if sp == nil {
			continue
		}
		for _, name := range sp.names {
			fd := sp.decls[name]
			if !ast.IsExported(fd.Name.Name) {
				continue
			}
			if fd.Recv != nil {
				// methods of exported types only
				if i := strings.Index(name, "."); i > 0 && !ast.IsExported(name[:i]) {
					continue
				}
			}
			sig, _ := sp.p.info.Defs[fd.Name].Type().(*types.Signature)
			if sig == nil {
				continue
			}
			has := false
			for k := 0; k < sig.Results().Len(); k++ {
				if isRefType(sig.Results().At(k).Type()) {
					has = true
				}
			}
			if has {
				apiRoots[pd.alias+"."+name] = true
				oc.enqueue(pd.alias + "." + name)
			}
		}
	}
	oc.drain()
	var apiList []string
	for k := range apiRoots {
		apiList = append(apiList, k)
	}
	sort.Strings(apiList)
	var keys [][2]string
	for k := range oc.sites {
		keys = append(keys, k)
	}
	sort.Slice(keys, func(i, j int) bool {
		if keys[i][0] != keys[j][0] {
			return keys[i][0] < keys[j][0]
		}
		return keys[i][1] < keys[j][1]
	})
	var b bytes.Buffer
	b.WriteString("(* GENERATED by tools/gosrc2v (owner.go) from /repo's current source. Do not edit. *)\n")
	b.WriteString("From Coq Require Import String List.\nImport ListNotations.\nOpen Scope string_scope.\n\n")
	b.WriteString("(* (function#result index, origin) for every return statement of every function that\n   contributes a value the public API hands back *)\n")
	b.WriteString("Definition owner_sites : list (string * string) :=\n  [")
	for i, k := range keys {
		if i > 0 {
			b.WriteString(";\n   ")
		}
		fmt.Fprintf(&b, `("%s", "%s")`, k[0], strings.ReplaceAll(k[1], `"`, "'"))
	}
	b.WriteString("].\n\n")
	fmt.Fprintf(&b, "(* exported functions / methods of the public (non-internal) packages that return a\n   reference-typed value: all of them are analysed above *)\nDefinition api_reference_returning : list string :=\n  %s.\n", wrap(coqStrList(apiList)))
	return "Owner.v", b.String()
}
