module gosrc2v

go 1.24.2
