// skel.go — Gen/Skel.v: per-field access skeletons of the pooled codec objects
// (property C11, frame condition "a Scratch field is completely overwritten before
// it is read").
//
// For every field f of the pooled single-instance types (lossy.VP8Encoder,
// lossy.TokenBuffer, lossy.Decoder, lossy.parallelState, lossless.Encoder,
// lossless.Decoder) the translator abstracts every function of the package into a
// skeleton over three events
//
//	Fill    f is completely (re)initialised with content that does not depend on its
//	        old content:  for i := range X { X[i] = c } (single-statement body),
//	        clear(X), X = make(…), X = T{…}, X = nil, X = v / v[…] with v a local
//	        made in the same function
//	Touch   any other mention of f (read, partial write, passing it or a slice of it
//	        to a callee, taking its address, capturing it, re-slicing it)
//	Call g  a call of the package-local function or method g
//
// combined with Seq / Alt (if, switch, select) / Loop (for, range; zero or more
// times) / IfC c (an if whose condition tests a never-reassigned parameter of the
// function against nil, or is such a boolean parameter: all IfC on the same parameter
// in one activation of the function take the same branch).  len(X) and cap(X) are not events.  X is x.f for any x of the pooled type,
// or an alias: a local bound by v := x.f, v := x.f[lo:hi], v := &x.f, or a field of
// another struct assigned from it (it.topY = enc.itTopY makes MBIterator.topY an alias
// of VP8Encoder.itTopY everywhere in the package).
//
// The ANALYSIS (first event of every trace from every root is a Fill) is done and
// proved sound in Coq (theories/Conc/PoolSkel.v); the translator only abstracts.
// Conservative choices: a statement that mentions f in a way not recognised above is
// a Touch placed BEFORE the calls of the same statement; the body of a function
// literal is placed (as optional) where the literal is written; deferred calls are
// placed (as optional) at the end of the function; everything after a statement that
// may return is optional (break / continue only cut an iteration short, which the
// analysis tolerates: safety is prefix-closed and a loop never counts as a Fill).
//
// Status of a field: "ok" — the skeleton is meaningful; otherwise the reason it is
// not (the Coq side then leaves the field undecided):
//
//	reshaped      some function re-slices f with an explicit upper bound or appends to
//	              it (a later read could reach elements an earlier Fill did not cover)
//	exported      the field is exported (other packages may access it)
//	alias-escapes f is stored into a package-level variable, a map, a channel, or
//	              returned
//
// The translator REFUSES (exit 1) on shapes it does not abstract: a package-local
// function or method used as a value (not called), a call through an interface that a
// type of the package implements, the pooled type embedded in another struct, a pooled
// object copied or overwritten as a whole (*p on either side of an assignment, passed
// or returned by value), goto, or a statement kind it does not know.
package main

import (
	"bytes"
	"fmt"
	"go/ast"
	"go/token"
	"go/types"
	"sort"
	"strings"
)

func init() { extraGenerators = append(extraGenerators, genSkel) }

var skelRefused = map[string]bool{}

func refuseSkel(format string, a ...any) {
	m := fmt.Sprintf(format, a...)
	if !skelRefused[m] {
		skelRefused[m] = true
		refuse("%s", m)
	}
}

var skelTypes = []struct{ alias, typ string }{
	{"lossy", "VP8Encoder"},
	{"lossy", "TokenBuffer"},
	{"lossy", "Decoder"},
	{"lossy", "parallelState"},
	{"lossless", "Encoder"},
	{"lossless", "Decoder"},
}

// ---- skeleton terms -------------------------------------------------------

type sk interface{ coq() string }
type skSkip struct{}
type skFill struct{}
type skTouch struct{}
type skSeq struct{ a, b sk }
type skAlt struct{ a, b sk }
type skLoop struct{ a sk }
type skCall struct{ g string }
type skIfC struct {
	c    string
	a, b sk
}

func (skSkip) coq() string   { return "Skip" }
func (skFill) coq() string   { return "Fill" }
func (skTouch) coq() string  { return "Touch" }
func (s skSeq) coq() string  { return "(Seq " + s.a.coq() + " " + s.b.coq() + ")" }
func (s skAlt) coq() string  { return "(Alt " + s.a.coq() + " " + s.b.coq() + ")" }
func (s skLoop) coq() string { return "(Loop " + s.a.coq() + ")" }
func (s skCall) coq() string { return `(Call "` + s.g + `")` }
func (s skIfC) coq() string  { return `(IfC "` + s.c + `" ` + s.a.coq() + " " + s.b.coq() + ")" }

func ifc(c string, a, b sk) sk {
	if isSkip(a) && isSkip(b) {
		return skSkip{}
	}
	return skIfC{c, a, b}
}

func isSkip(s sk) bool { _, ok := s.(skSkip); return ok }

func seq(xs ...sk) sk {
	var out sk = skSkip{}
	for i := len(xs) - 1; i >= 0; i-- {
		if isSkip(xs[i]) {
			continue
		}
		if isSkip(out) {
			out = xs[i]
		} else {
			out = skSeq{xs[i], out}
		}
	}
	return out
}

func alt(a, b sk) sk {
	if isSkip(a) && isSkip(b) {
		return skSkip{}
	}
	return skAlt{a, b}
}

func loop(a sk) sk {
	if isSkip(a) {
		return skSkip{}
	}
	return skLoop{a}
}

func opt(a sk) sk { return alt(a, skSkip{}) }

// ---- per-package context --------------------------------------------------

type skelPkg struct {
	p     *pkgInfo
	funcs map[*types.Func]string // package-local functions and methods → unique name
	asm   map[*types.Func]bool   // declared without body (assembly): can reach a field only through its arguments
	decls map[string]*ast.FuncDecl
	names []string
	ext   map[string]bool // functions referenced from another package of the module (non-test, no verif tag): the entry points
}

func funcUniqueName(fd *ast.FuncDecl) string {
	if fd.Recv != nil && len(fd.Recv.List) == 1 {
		t := fd.Recv.List[0].Type
		if s, ok := t.(*ast.StarExpr); ok {
			t = s.X
		}
		if id, ok := t.(*ast.Ident); ok {
			return id.Name + "." + fd.Name.Name
		}
	}
	return fd.Name.Name
}

func newSkelPkg(p *pkgInfo) *skelPkg {
	sp := &skelPkg{p: p, funcs: map[*types.Func]string{}, asm: map[*types.Func]bool{}, decls: map[string]*ast.FuncDecl{}}
	for _, f := range p.files {
		for _, d := range f.Decls {
			fd, ok := d.(*ast.FuncDecl)
			if !ok {
				continue
			}
			if fd.Body == nil {
				if obj, ok := p.info.Defs[fd.Name].(*types.Func); ok && fd.Recv == nil {
					sp.asm[obj] = true
				}
				continue
			}
			name := funcUniqueName(fd)
			if fd.Name.Name == "init" {
				name = fmt.Sprintf("init@%d", p.fset.Position(fd.Pos()).Line)
			}
			if obj, ok := p.info.Defs[fd.Name].(*types.Func); ok {
				sp.funcs[obj] = name
			}
			if _, dup := sp.decls[name]; dup {
				refuseSkel("skel: two functions named %s in package %s", name, p.alias)
			}
			sp.decls[name] = fd
			sp.names = append(sp.names, name)
		}
	}
	sort.Strings(sp.names)
	// entry points: package functions referenced from the other packages of the module,
	// plus init functions and (package main) main
	sp.ext = map[string]bool{}
	for _, pd := range pkgDirs {
		if pd.alias == p.alias {
			continue
		}
		q, err := load(pd.alias, pd.dir)
		if err != nil {
			continue
		}
		for _, obj := range q.info.Uses {
			if fn, ok := obj.(*types.Func); ok && fn.Pkg() == p.pkg {
				if name, ok := sp.funcs[fn]; ok {
					sp.ext[name] = true
				}
			}
		}
	}
	for _, name := range sp.names {
		if strings.HasPrefix(name, "init@") || name == "main" {
			sp.ext[name] = true
		}
	}
	return sp
}

func namedOf(t types.Type) string {
	if t == nil {
		return ""
	}
	if pt, ok := t.(*types.Pointer); ok {
		t = pt.Elem()
	}
	if n, ok := t.(*types.Named); ok {
		return n.Obj().Name()
	}
	return ""
}

// ---- per-field abstraction ------------------------------------------------

type fieldKey struct{ typ, field string }

type skelField struct {
	sp      *skelPkg
	typ     string
	field   string
	aliases map[fieldKey]bool // (T,f) and every struct field assigned from it
	status  string
	// exclusive alias fill: set when every mention of f in the package is len/cap or a
	// local alias definition inside one function
	exclusiveFn string
}

func (sf *skelField) typeOfExpr(e ast.Expr) string {
	if tv, ok := sf.sp.p.info.Types[e]; ok {
		return namedOf(tv.Type)
	}
	return ""
}

// isFieldSel: e is x.g with (type of x, g) an alias of the field.
func (sf *skelField) isFieldSel(e ast.Expr) bool {
	sel, ok := e.(*ast.SelectorExpr)
	if !ok {
		return false
	}
	return sf.aliases[fieldKey{sf.typeOfExpr(sel.X), sel.Sel.Name}]
}

// mentions reports whether n contains the field (or a local alias) outside len()/cap().
func (sf *skelField) mentions(n ast.Node, locals map[string]bool) bool {
	if n == nil {
		return false
	}
	found := false
	ast.Inspect(n, func(m ast.Node) bool {
		if found || m == nil {
			return false
		}
		switch x := m.(type) {
		case *ast.CallExpr:
			if id, ok := x.Fun.(*ast.Ident); ok && (id.Name == "len" || id.Name == "cap") && len(x.Args) == 1 {
				if sf.isX(x.Args[0], locals) {
					return false
				}
			}
		case *ast.SelectorExpr:
			if sf.isFieldSel(x) {
				found = true
				return false
			}
		case *ast.Ident:
			if locals[x.Name] {
				found = true
				return false
			}
		case *ast.FuncLit:
			// handled by the caller (bodies of literals are abstracted separately)
		}
		return true
	})
	return found
}

// isX: e (parens stripped) is exactly the field selector, a local alias, or *alias.
func (sf *skelField) isX(e ast.Expr, locals map[string]bool) bool {
	for {
		if p, ok := e.(*ast.ParenExpr); ok {
			e = p.X
			continue
		}
		break
	}
	if st, ok := e.(*ast.StarExpr); ok {
		e = st.X
	}
	if id, ok := e.(*ast.Ident); ok {
		return locals[id.Name]
	}
	return sf.isFieldSel(e)
}

// aliasSource: e is X, X[lo:hi] (any bounds) or &X; sliced reports an explicit high bound.
func (sf *skelField) aliasSource(e ast.Expr, locals map[string]bool) (ok, sliced bool) {
	for {
		if p, isP := e.(*ast.ParenExpr); isP {
			e = p.X
			continue
		}
		break
	}
	switch x := e.(type) {
	case *ast.SliceExpr:
		if sf.isX(x.X, locals) {
			return true, x.High != nil
		}
	case *ast.UnaryExpr:
		if x.Op == token.AND && sf.isX(x.X, locals) {
			return true, false
		}
	default:
		if sf.isX(e, locals) {
			return true, false
		}
	}
	return false, false
}

type fnAbs struct {
	sf       *skelField
	fn       string
	locals   map[string]bool // local identifiers aliasing the field
	made     map[string]bool // locals defined by v := make(…) (fresh zeroed storage)
	bound    map[string]bool // struct-field aliases (printed) assigned from the field in this function
	deferred []sk
}

func (fa *fnAbs) mentions(n ast.Node) bool { return fa.sf.mentions(n, fa.locals) }

// calls returns the Call events of the package-local calls in n (AST order) and
// refuses on function values; function literals are abstracted in place (optional).
func (fa *fnAbs) calls(n ast.Node) sk {
	if n == nil {
		return skSkip{}
	}
	var out []sk
	sp := fa.sf.sp
	ast.Inspect(n, func(m ast.Node) bool {
		switch x := m.(type) {
		case *ast.FuncLit:
			out = append(out, opt(fa.block(x.Body.List)))
			return false
		case *ast.CallExpr:
			var callee sk = skSkip{}
			resolve := func(id *ast.Ident) {
				obj, ok := sp.p.info.Uses[id].(*types.Func)
				if !ok {
					return // builtin, conversion, local function value (its literal is abstracted where written)
				}
				if name, local := sp.funcs[obj]; local {
					callee = skCall{name}
					return
				}
				if sp.asm[obj] {
					return
				}
				if obj.Pkg() == sp.p.pkg && obj.Pkg() != nil {
					// interface method declared in this package: fine unless a package type implements it
					if sig, ok := obj.Type().(*types.Signature); ok && sig.Recv() != nil {
						if iface, ok := sig.Recv().Type().Underlying().(*types.Interface); ok {
							for _, tn := range sp.p.pkg.Scope().Names() {
								if t, ok := sp.p.pkg.Scope().Lookup(tn).(*types.TypeName); ok {
									if _, isIface := t.Type().Underlying().(*types.Interface); isIface {
										continue
									}
									if types.Implements(t.Type(), iface) || types.Implements(types.NewPointer(t.Type()), iface) {
										refuseSkel("skel: %s.%s calls %s through an interface implemented by %s", sp.p.alias, fa.fn, obj.FullName(), tn)
									}
								}
							}
							return
						}
					}
					refuseSkel("skel: %s.%s: call of %s cannot be resolved to a function body", sp.p.alias, fa.fn, obj.FullName())
				}
			}
			switch f := x.Fun.(type) {
			case *ast.Ident:
				resolve(f)
			case *ast.SelectorExpr:
				resolve(f.Sel)
				out = append(out, fa.calls(f.X))
			default:
				out = append(out, fa.calls(x.Fun))
			}
			for _, a := range x.Args {
				out = append(out, fa.calls(a))
			}
			out = append(out, callee)
			return false
		case *ast.Ident:
			if obj, ok := sp.p.info.Uses[x].(*types.Func); ok {
				if name, local := sp.funcs[obj]; local {
					refuseSkel("skel: %s.%s uses function %s as a value", sp.p.alias, fa.fn, name)
				}
			}
		case *ast.SelectorExpr:
			if obj, ok := sp.p.info.Uses[x.Sel].(*types.Func); ok {
				if name, local := sp.funcs[obj]; local {
					refuseSkel("skel: %s.%s uses method %s as a value", sp.p.alias, fa.fn, name)
				}
			}
			out = append(out, fa.calls(x.X))
			return false
		}
		return true
	})
	return seq(out...)
}

// simple abstracts a statement without control flow: Touch (if it mentions the field)
// followed by its calls.
func (fa *fnAbs) simple(n ast.Node) sk {
	if n == nil {
		return skSkip{}
	}
	c := fa.calls(n)
	if fa.mentionsOutsideLits(n) {
		return seq(skTouch{}, c)
	}
	return c
}

// mentionsOutsideLits: like mentions but ignoring function literal bodies (abstracted by calls()).
func (fa *fnAbs) mentionsOutsideLits(n ast.Node) bool {
	found := false
	var visit func(m ast.Node) bool
	visit = func(m ast.Node) bool {
		if found || m == nil {
			return false
		}
		if _, ok := m.(*ast.FuncLit); ok {
			return false
		}
		if c, ok := m.(*ast.CallExpr); ok {
			if id, ok := c.Fun.(*ast.Ident); ok && (id.Name == "len" || id.Name == "cap") && len(c.Args) == 1 && fa.sf.isX(c.Args[0], fa.locals) {
				return false
			}
		}
		switch x := m.(type) {
		case *ast.SelectorExpr:
			if fa.sf.isFieldSel(x) {
				found = true
				return false
			}
		case *ast.Ident:
			if fa.locals[x.Name] {
				found = true
				return false
			}
		}
		return true
	}
	ast.Inspect(n, visit)
	return found
}

// constantLike: e cannot depend on the field's content (no mention) and has no calls
// to package-local functions.
func (fa *fnAbs) constantLike(e ast.Expr) bool {
	return !fa.mentions(e) && isSkip(fa.calls(e))
}

func (fa *fnAbs) isFreshRHS(e ast.Expr) bool {
	for {
		if p, ok := e.(*ast.ParenExpr); ok {
			e = p.X
			continue
		}
		break
	}
	switch x := e.(type) {
	case *ast.CallExpr:
		if id, ok := x.Fun.(*ast.Ident); ok && id.Name == "make" {
			for _, a := range x.Args[1:] {
				if !fa.constantLike(a) {
					return false
				}
			}
			return true
		}
	case *ast.CompositeLit:
		return fa.constantLike(x)
	case *ast.Ident:
		return x.Name == "nil" || fa.made[x.Name]
	case *ast.SliceExpr:
		if id, ok := x.X.(*ast.Ident); ok && fa.made[id.Name] {
			return fa.constantLike(x.Low) && fa.constantLike(x.High) && fa.constantLike(x.Max)
		}
	}
	return false
}

// stableGuard recognises a condition whose value cannot change during one activation of
// the function: p != nil, p == nil, b or !b where p / b is a PARAMETER of the function
// that is never assigned and whose address is never taken in the body.  All if
// statements of the function on the same parameter are then correlated (IfC).
func (fa *fnAbs) stableGuard(cond ast.Expr) (name string, negated, ok bool) {
	var id *ast.Ident
	switch x := cond.(type) {
	case *ast.BinaryExpr:
		if (x.Op != token.NEQ && x.Op != token.EQL) || identName(x.Y) != "nil" {
			return "", false, false
		}
		id, _ = x.X.(*ast.Ident)
		negated = x.Op == token.EQL
	case *ast.UnaryExpr:
		if x.Op != token.NOT {
			return "", false, false
		}
		id, _ = x.X.(*ast.Ident)
		negated = true
	case *ast.Ident:
		id = x
	}
	if id == nil {
		return "", false, false
	}
	info := fa.sf.sp.p.info
	obj := info.Uses[id]
	fd := fa.sf.sp.decls[fa.fn]
	isParam := false
	if fd.Type.Params != nil {
		for _, fl := range fd.Type.Params.List {
			for _, n := range fl.Names {
				if info.Defs[n] == obj && obj != nil {
					isParam = true
				}
			}
		}
	}
	if !isParam {
		return "", false, false
	}
	stable := true
	ast.Inspect(fd.Body, func(n ast.Node) bool {
		switch y := n.(type) {
		case *ast.AssignStmt:
			for _, l := range y.Lhs {
				if lid, ok := l.(*ast.Ident); ok && info.Uses[lid] == obj {
					stable = false
				}
			}
		case *ast.IncDecStmt:
			if lid, ok := y.X.(*ast.Ident); ok && info.Uses[lid] == obj {
				stable = false
			}
		case *ast.UnaryExpr:
			if y.Op == token.AND {
				if lid, ok := y.X.(*ast.Ident); ok && info.Uses[lid] == obj {
					stable = false
				}
			}
		}
		return true
	})
	if !stable {
		return "", false, false
	}
	return id.Name, negated, true
}

// fillTargetOK: a Fill through a struct-field alias of ANOTHER type (it.topY) counts
// only when the alias was bound to the field earlier in the same function; the field
// itself and local aliases always count.
func (fa *fnAbs) fillTargetOK(e ast.Expr) bool {
	for {
		if p, ok := e.(*ast.ParenExpr); ok {
			e = p.X
			continue
		}
		break
	}
	if st, ok := e.(*ast.StarExpr); ok {
		e = st.X
	}
	sel, ok := e.(*ast.SelectorExpr)
	if !ok {
		return true
	}
	if fa.sf.typeOfExpr(sel.X) == fa.sf.typ && sel.Sel.Name == fa.sf.field {
		return true
	}
	return fa.bound[types.ExprString(sel)]
}

// block abstracts a statement list.  A statement that may return (a return statement
// anywhere inside it, function literals excepted) makes everything after it optional.
func (fa *fnAbs) block(stmts []ast.Stmt) sk {
	parts := make([]sk, len(stmts))
	for i, s := range stmts { // in source order: alias / made-local tracking is flow-ordered
		parts[i] = fa.stmt(s)
	}
	var rest sk = skSkip{}
	for i := len(stmts) - 1; i >= 0; i-- {
		if mayReturn(stmts[i]) {
			rest = opt(rest)
		}
		rest = seq(parts[i], rest)
	}
	return rest
}

func mayReturn(n ast.Node) bool {
	found := false
	ast.Inspect(n, func(m ast.Node) bool {
		if found {
			return false
		}
		switch m.(type) {
		case *ast.FuncLit:
			return false
		case *ast.ReturnStmt:
			found = true
			return false
		}
		return true
	})
	return found
}

func (fa *fnAbs) stmt(s ast.Stmt) sk {
	sf := fa.sf
	switch x := s.(type) {
	case nil:
		return skSkip{}
	case *ast.BlockStmt:
		return fa.block(x.List)
	case *ast.ExprStmt:
		// clear(X)
		if c, ok := x.X.(*ast.CallExpr); ok {
			if id, ok := c.Fun.(*ast.Ident); ok && id.Name == "clear" && len(c.Args) == 1 && sf.isX(c.Args[0], fa.locals) && fa.fillTargetOK(c.Args[0]) {
				return skFill{}
			}
		}
		return fa.simple(x)
	case *ast.AssignStmt:
		// remember locals made fresh
		if x.Tok == token.DEFINE && len(x.Lhs) == len(x.Rhs) {
			for i, r := range x.Rhs {
				if c, ok := r.(*ast.CallExpr); ok {
					if id, ok := c.Fun.(*ast.Ident); ok && id.Name == "make" {
						if l, ok := x.Lhs[i].(*ast.Ident); ok && !fa.mentions(c) {
							fa.made[l.Name] = true
						}
					}
				}
			}
		}
		if len(x.Lhs) == 1 && len(x.Rhs) == 1 {
			l, r := x.Lhs[0], x.Rhs[0]
			// X = fresh
			if x.Tok == token.ASSIGN && sf.isFieldSel(l) && fa.isFreshRHS(r) {
				return seq(fa.calls(r), skFill{})
			}
			// alias definitions
			if ok, sliced := sf.aliasSource(r, fa.locals); ok {
				if id, isId := l.(*ast.Ident); isId && (x.Tok == token.DEFINE || x.Tok == token.ASSIGN) && id.Name != "_" {
					if sliced && sf.exclusiveFn != fa.fn {
						// re-slice with an upper bound outside the exclusive pattern
						return skTouch{}
					}
					fa.locals[id.Name] = true
					return fa.calls(r)
				}
				if sel, isSel := l.(*ast.SelectorExpr); isSel && x.Tok == token.ASSIGN {
					if sf.aliases[fieldKey{sf.typeOfExpr(sel.X), sel.Sel.Name}] && !sliced {
						// struct-field alias (it.topY = enc.itTopY) or X = X
						fa.bound[types.ExprString(sel)] = true
						return fa.calls(r)
					}
				}
				return seq(skTouch{}, fa.calls(x))
			}
		}
		return fa.simple(x)
	case *ast.IncDecStmt, *ast.SendStmt, *ast.DeclStmt, *ast.EmptyStmt:
		return fa.simple(x)
	case *ast.ReturnStmt:
		return fa.simple(x)
	case *ast.BranchStmt:
		if x.Tok == token.GOTO {
			refuseSkel("skel: %s.%s uses goto", sf.sp.p.alias, fa.fn)
		}
		return skSkip{}
	case *ast.LabeledStmt:
		return fa.stmt(x.Stmt)
	case *ast.GoStmt:
		return opt(fa.simple(x.Call))
	case *ast.DeferStmt:
		fa.deferred = append(fa.deferred, opt(fa.simple(x.Call)))
		// arguments are evaluated now
		var args []sk
		for _, a := range x.Call.Args {
			args = append(args, fa.simple(a))
		}
		return seq(args...)
	case *ast.IfStmt:
		var els sk = skSkip{}
		if x.Else != nil {
			els = fa.stmt(x.Else)
		}
		if name, neg, ok := fa.stableGuard(x.Cond); ok && x.Init == nil {
			th := fa.block(x.Body.List)
			if neg {
				return ifc(name, els, th)
			}
			return ifc(name, th, els)
		}
		return seq(fa.stmt(x.Init), fa.simple(x.Cond), alt(fa.block(x.Body.List), els))
	case *ast.ForStmt:
		cond := fa.simple(x.Cond)
		return seq(fa.stmt(x.Init), cond, loop(seq(fa.block(x.Body.List), fa.stmt(x.Post), cond)))
	case *ast.RangeStmt:
		// for i := range X { X[i] = c }
		if sf.isX(x.X, fa.locals) && x.Value == nil && len(x.Body.List) == 1 {
			if as, ok := x.Body.List[0].(*ast.AssignStmt); ok && as.Tok == token.ASSIGN && len(as.Lhs) == 1 && len(as.Rhs) == 1 {
				if ix, ok := as.Lhs[0].(*ast.IndexExpr); ok && sf.isX(ix.X, fa.locals) && identName(ix.Index) == identName(x.Key) && identName(x.Key) != "" &&
					types.ExprString(ix.X) == types.ExprString(x.X) && fa.constantLike(as.Rhs[0]) && fa.fillTargetOK(x.X) {
					return skFill{}
				}
			}
		}
		return seq(fa.simple(x.X), loop(fa.block(x.Body.List)))
	case *ast.SwitchStmt:
		var clauses sk = skSkip{}
		hasDefault := false
		var heads []sk
		for i := len(x.Body.List) - 1; i >= 0; i-- {
			cc := x.Body.List[i].(*ast.CaseClause)
			if cc.List == nil {
				hasDefault = true
			}
			for _, e := range cc.List {
				heads = append(heads, fa.simple(e))
			}
			body := fa.block(cc.Body)
			if i == len(x.Body.List)-1 {
				clauses = body
			} else {
				clauses = skAlt{body, clauses}
			}
		}
		if !hasDefault {
			clauses = opt(clauses)
		}
		if len(x.Body.List) == 0 {
			clauses = skSkip{}
		}
		return seq(fa.stmt(x.Init), fa.simple(x.Tag), seq(heads...), clauses)
	case *ast.TypeSwitchStmt:
		var clauses sk = skSkip{}
		for _, c := range x.Body.List {
			clauses = alt(fa.block(c.(*ast.CaseClause).Body), clauses)
		}
		return seq(fa.stmt(x.Init), fa.stmt(x.Assign), clauses)
	case *ast.SelectStmt:
		var clauses sk = skSkip{}
		for _, c := range x.Body.List {
			cc := c.(*ast.CommClause)
			clauses = alt(seq(fa.stmt(cc.Comm), fa.block(cc.Body)), clauses)
		}
		return clauses
	}
	refuseSkel("skel: %s.%s: statement %T not abstracted", sf.sp.p.alias, fa.fn, s)
	return skTouch{}
}

// abstractFunc returns the skeleton of one function for one field.
func (sf *skelField) abstractFunc(name string) sk {
	fd := sf.sp.decls[name]
	fa := &fnAbs{sf: sf, fn: name, locals: map[string]bool{}, made: map[string]bool{}, bound: map[string]bool{}}
	body := fa.block(fd.Body.List)
	for i := len(fa.deferred) - 1; i >= 0; i-- {
		body = seq(body, fa.deferred[i])
	}
	// keep the correlation only for guards that protect a Fill of this field somewhere in
	// the function; every other IfC becomes a plain Alt (an over-approximation) so that
	// the analysis does not enumerate valuations of guards that cannot matter
	keep := map[string]bool{}
	guardsWithFill(body, keep)
	return relaxGuards(body, keep)
}

func containsFill(s sk) bool {
	switch x := s.(type) {
	case skFill:
		return true
	case skSeq:
		return containsFill(x.a) || containsFill(x.b)
	case skAlt:
		return containsFill(x.a) || containsFill(x.b)
	case skLoop:
		return containsFill(x.a)
	case skIfC:
		return containsFill(x.a) || containsFill(x.b)
	}
	return false
}

func guardsWithFill(s sk, keep map[string]bool) {
	switch x := s.(type) {
	case skSeq:
		guardsWithFill(x.a, keep)
		guardsWithFill(x.b, keep)
	case skAlt:
		guardsWithFill(x.a, keep)
		guardsWithFill(x.b, keep)
	case skLoop:
		guardsWithFill(x.a, keep)
	case skIfC:
		if containsFill(x.a) || containsFill(x.b) {
			keep[x.c] = true
		}
		guardsWithFill(x.a, keep)
		guardsWithFill(x.b, keep)
	}
}

func relaxGuards(s sk, keep map[string]bool) sk {
	switch x := s.(type) {
	case skSeq:
		return seq(relaxGuards(x.a, keep), relaxGuards(x.b, keep))
	case skAlt:
		return alt(relaxGuards(x.a, keep), relaxGuards(x.b, keep))
	case skLoop:
		return loop(relaxGuards(x.a, keep))
	case skIfC:
		a, b := relaxGuards(x.a, keep), relaxGuards(x.b, keep)
		if keep[x.c] {
			return ifc(x.c, a, b)
		}
		return alt(a, b)
	}
	return s
}

// computeAliases: struct fields assigned from the field anywhere in the package
// (fixpoint), and the field's status.
func (sf *skelField) computeAliases() {
	sf.aliases = map[fieldKey]bool{{sf.typ, sf.field}: true}
	sf.status = "ok"
	if ast.IsExported(sf.field) {
		sf.status = "exported"
	}
	p := sf.sp.p
	for changed := true; changed; {
		changed = false
		for _, f := range p.files {
			ast.Inspect(f, func(n ast.Node) bool {
				switch x := n.(type) {
				case *ast.AssignStmt:
					if len(x.Lhs) != len(x.Rhs) {
						return true
					}
					for i, r := range x.Rhs {
						if ok, _ := sf.aliasSource(r, nil); !ok {
							continue
						}
						switch l := x.Lhs[i].(type) {
						case *ast.SelectorExpr:
							k := fieldKey{sf.typeOfExpr(l.X), l.Sel.Name}
							if k.typ == "" {
								sf.status = "alias-escapes"
							} else if !sf.aliases[k] {
								sf.aliases[k] = true
								changed = true
							}
						case *ast.Ident:
							// local alias (handled per function) — unless package-level
							if obj := p.info.Uses[l]; obj != nil && obj.Parent() == p.pkg.Scope() {
								sf.status = "alias-escapes"
							}
							if obj := p.info.Defs[l]; obj != nil && obj.Parent() == p.pkg.Scope() {
								sf.status = "alias-escapes"
							}
						default:
							sf.status = "alias-escapes" // map element, index, deref …
						}
					}
				case *ast.KeyValueExpr:
					if ok, _ := sf.aliasSource(x.Value, nil); ok {
						sf.status = "alias-escapes" // stored in a composite literal
					}
				case *ast.ReturnStmt:
					for _, r := range x.Results {
						if ok, _ := sf.aliasSource(r, nil); ok {
							sf.status = "alias-escapes"
						}
					}
				case *ast.SendStmt:
					if ok, _ := sf.aliasSource(x.Value, nil); ok {
						sf.status = "alias-escapes"
					}
				}
				return true
			})
		}
	}
}

// scanShape: decides "reshaped" and the exclusive-alias function.
func (sf *skelField) scanShape() {
	p := sf.sp.p
	type mention struct {
		fn   string
		kind string // "alias-def", "other"
	}
	var ms []mention
	reshaped := false
	for name, fd := range sf.sp.decls {
		var stack []ast.Node
		ast.Inspect(fd.Body, func(n ast.Node) bool {
			if n == nil {
				stack = stack[:len(stack)-1]
				return true
			}
			stack = append(stack, n)
			sel, ok := n.(*ast.SelectorExpr)
			if !ok || !sf.isFieldSel(sel) {
				// append(X, …)
				if c, ok := n.(*ast.CallExpr); ok {
					if id, ok := c.Fun.(*ast.Ident); ok && id.Name == "append" && len(c.Args) > 0 && sf.isX(c.Args[0], nil) {
						reshaped = true
					}
				}
				return true
			}
			// classify by parents
			kind := "other"
			if len(stack) >= 2 {
				switch par := stack[len(stack)-2].(type) {
				case *ast.CallExpr:
					if id, ok := par.Fun.(*ast.Ident); ok && (id.Name == "len" || id.Name == "cap") {
						kind = "len"
					}
				case *ast.SliceExpr:
					if par.X == ast.Expr(sel) {
						// v := x.f[lo:hi] directly as the RHS of a := definition of a local
						if len(stack) >= 3 {
							if as, ok := stack[len(stack)-3].(*ast.AssignStmt); ok && as.Tok == token.DEFINE && len(as.Lhs) == 1 && len(as.Rhs) == 1 && as.Rhs[0] == ast.Expr(par) {
								kind = "alias-def"
							}
						}
						if kind != "alias-def" && par.High != nil {
							reshaped = true
						}
					}
				case *ast.AssignStmt:
					if par.Tok == token.DEFINE && len(par.Lhs) == 1 && len(par.Rhs) == 1 && par.Rhs[0] == ast.Expr(sel) {
						kind = "alias-def"
					}
				}
			}
			if kind != "len" {
				ms = append(ms, mention{name, kind})
			}
			return true
		})
	}
	_ = p
	// exclusive: all non-len mentions are alias definitions in one function, or the
	// field's own allocation statements (X = make / composite literal key do not count:
	// composite literal keys are not selectors)
	fn := ""
	excl := len(ms) > 0
	for _, m := range ms {
		if m.kind != "alias-def" {
			excl = false
			break
		}
		if fn == "" {
			fn = m.fn
		} else if fn != m.fn {
			excl = false
			break
		}
	}
	if excl {
		sf.exclusiveFn = fn
	}
	if reshaped && sf.status == "ok" {
		sf.status = "reshaped"
	}
}

func genSkel() (string, string) {
	var b bytes.Buffer
	b.WriteString("(* GENERATED by tools/gosrc2v (skel.go) from /repo's current source. Do not edit. *)\n")
	b.WriteString("From Coq Require Import String List.\nFrom Webp Require Import Conc.PoolSkel.\nImport ListNotations.\nOpen Scope string_scope.\n\n")
	aliasDir := map[string]string{}
	for _, pd := range pkgDirs {
		aliasDir[pd.alias] = pd.dir
	}
	pkgs := map[string]*skelPkg{}
	var keys []string
	for _, st := range skelTypes {
		p, err := load(st.alias, aliasDir[st.alias])
		if err != nil {
			refuseSkel("skel: cannot load %s: %v", st.alias, err)
			continue
		}
		sp := pkgs[st.alias]
		if sp == nil {
			sp = newSkelPkg(p)
			pkgs[st.alias] = sp
		}
		strct := findStruct(p, st.typ)
		if strct == nil {
			refuseSkel("skel: struct type %s.%s not found", st.alias, st.typ)
			continue
		}
		// the pooled type must not be embedded anywhere (promoted fields would hide accesses)
		for _, f := range p.files {
			ast.Inspect(f, func(n ast.Node) bool {
				if s, ok := n.(*ast.StructType); ok {
					for _, fl := range s.Fields.List {
						if len(fl.Names) == 0 {
							t := fl.Type
							if se, ok := t.(*ast.StarExpr); ok {
								t = se.X
							}
							if id, ok := t.(*ast.Ident); ok && id.Name == st.typ {
								refuseSkel("skel: %s.%s is embedded in another struct", st.alias, st.typ)
							}
						}
					}
				}
				return true
			})
		}
		// a pooled object must never be copied or overwritten as a whole
		for _, f := range p.files {
			ast.Inspect(f, func(n ast.Node) bool {
				isVal := func(e ast.Expr) bool {
					if _, lit := e.(*ast.CompositeLit); lit {
						return false
					}
					tv, ok := p.info.Types[e]
					if !ok || tv.Type == nil {
						return false
					}
					nt, ok := tv.Type.(*types.Named)
					return ok && nt.Obj().Name() == st.typ && nt.Obj().Pkg() == p.pkg
				}
				switch x := n.(type) {
				case *ast.AssignStmt:
					for _, e := range append(append([]ast.Expr{}, x.Lhs...), x.Rhs...) {
						if isVal(e) {
							refuseSkel("skel: a %s.%s value is copied or overwritten as a whole at %s", st.alias, st.typ, p.fset.Position(e.Pos()))
						}
					}
				case *ast.CallExpr:
					for _, e := range x.Args {
						if isVal(e) {
							refuseSkel("skel: a %s.%s value is passed by value at %s", st.alias, st.typ, p.fset.Position(e.Pos()))
						}
					}
				case *ast.ReturnStmt:
					for _, e := range x.Results {
						if isVal(e) {
							refuseSkel("skel: a %s.%s value is returned by value at %s", st.alias, st.typ, p.fset.Position(e.Pos()))
						}
					}
				}
				return true
			})
		}
		for _, field := range structFieldNames(strct) {
			sf := &skelField{sp: sp, typ: st.typ, field: field}
			sf.computeAliases()
			sf.scanShape()
			env := map[string]sk{}
			called := map[string]bool{}
			for _, name := range sp.names {
				s := sf.abstractFunc(name)
				env[name] = s
				collectCalls(s, called)
			}
			// keep only functions whose skeleton (transitively) has an event
			relevant := map[string]bool{}
			for changed := true; changed; {
				changed = false
				for _, name := range sp.names {
					if relevant[name] {
						continue
					}
					if hasEvent(env[name], relevant) {
						relevant[name] = true
						changed = true
					}
				}
			}
			var roots, envLines []string
			for _, name := range sp.names {
				if !relevant[name] {
					continue
				}
				envLines = append(envLines, fmt.Sprintf(`("%s", %s)`, name, prune(env[name], relevant).coq()))
				if sp.ext[name] {
					roots = append(roots, name)
				}
			}
			key := st.alias + "." + st.typ + "." + field
			keys = append(keys, key)
			var al []string
			for k := range sf.aliases {
				if k != (fieldKey{st.typ, field}) {
					al = append(al, k.typ+"."+k.field)
				}
			}
			sort.Strings(al)
			fmt.Fprintf(&b, "(* %s  status %s  aliases %v *)\n", key, sf.status, al)
			fmt.Fprintf(&b, "Definition skel_%s_%s_%s : skel_entry :=\n  {| se_status := \"%s\";\n     se_roots := %s;\n     se_env := [%s] |}.\n\n",
				st.alias, st.typ, field, sf.status, coqStrList(roots), strings.Join(envLines, ";\n       "))
		}
	}
	// ---- instance discipline: through which expressions are the fields of a pooled type
	// reached, and which values of the type are passed on, per function
	for _, st := range skelTypes {
		sp := pkgs[st.alias]
		if sp == nil {
			continue
		}
		var lines []string
		for _, name := range sp.names {
			bases := instanceBases(sp, st.typ, sp.decls[name])
			for _, bs := range bases {
				lines = append(lines, fmt.Sprintf(`("%s", "%s")`, name, bs))
			}
		}
		fmt.Fprintf(&b, "(* %s.%s: (function, expression of that type whose fields are accessed / that is passed on or called on) *)\nDefinition inst_%s_%s : list (string * string) :=\n  [%s].\n\n",
			st.alias, st.typ, st.alias, st.typ, strings.Join(lines, ";\n   "))
	}
	b.WriteString("Definition skel_table : list (string * skel_entry) :=\n  [")
	for i, k := range keys {
		if i > 0 {
			b.WriteString(";\n   ")
		}
		parts := strings.SplitN(k, ".", 3)
		fmt.Fprintf(&b, `("%s", skel_%s_%s_%s)`, k, parts[0], parts[1], parts[2])
	}
	b.WriteString("].\n")
	return "Skel.v", b.String()
}

func lastPart(name string) string {
	if i := strings.LastIndex(name, "."); i >= 0 {
		return name[i+1:]
	}
	return name
}

func collectCalls(s sk, into map[string]bool) {
	switch x := s.(type) {
	case skSeq:
		collectCalls(x.a, into)
		collectCalls(x.b, into)
	case skAlt:
		collectCalls(x.a, into)
		collectCalls(x.b, into)
	case skLoop:
		collectCalls(x.a, into)
	case skIfC:
		collectCalls(x.a, into)
		collectCalls(x.b, into)
	case skCall:
		into[x.g] = true
	}
}

func hasEvent(s sk, relevant map[string]bool) bool {
	switch x := s.(type) {
	case skFill, skTouch:
		return true
	case skSeq:
		return hasEvent(x.a, relevant) || hasEvent(x.b, relevant)
	case skAlt:
		return hasEvent(x.a, relevant) || hasEvent(x.b, relevant)
	case skLoop:
		return hasEvent(x.a, relevant)
	case skIfC:
		return hasEvent(x.a, relevant) || hasEvent(x.b, relevant)
	case skCall:
		return relevant[x.g]
	}
	return false
}

// prune replaces calls of irrelevant functions (no event reachable) by Skip.
func prune(s sk, relevant map[string]bool) sk {
	switch x := s.(type) {
	case skSeq:
		return seq(prune(x.a, relevant), prune(x.b, relevant))
	case skAlt:
		return alt(prune(x.a, relevant), prune(x.b, relevant))
	case skLoop:
		return loop(prune(x.a, relevant))
	case skIfC:
		return ifc(x.c, prune(x.a, relevant), prune(x.b, relevant))
	case skCall:
		if !relevant[x.g] {
			return skSkip{}
		}
	}
	return s
}

// instanceBases lists the distinct expressions of type T / *T that a function uses as
// the base of a field access, as a method receiver, or as a call argument.  Variables
// declared inside an if-block that ends in a return are prefixed with "ret:" (their
// scope cannot coexist with the code after the if).  Composite literals and pool
// acquisitions (type assertions) are not bases; an expression that is neither an
// identifier nor a field path from one is reported as "other:<expr>".
func instanceBases(sp *skelPkg, typ string, fd *ast.FuncDecl) []string {
	info := sp.p.info
	isT := func(e ast.Expr) bool {
		tv, ok := info.Types[e]
		if !ok || tv.Type == nil {
			return false
		}
		t := tv.Type
		if pt, ok := t.(*types.Pointer); ok {
			t = pt.Elem()
		}
		n, ok := t.(*types.Named)
		return ok && n.Obj().Name() == typ && n.Obj().Pkg() == sp.p.pkg
	}
	// variables declared in an if-body ending with return
	retScoped := map[types.Object]bool{}
	ast.Inspect(fd.Body, func(n ast.Node) bool {
		if is, ok := n.(*ast.IfStmt); ok && is.Else == nil && endsWithReturn(is.Body) {
			ast.Inspect(is.Body, func(m ast.Node) bool {
				if as, ok := m.(*ast.AssignStmt); ok && as.Tok == token.DEFINE {
					for _, l := range as.Lhs {
						if id, ok := l.(*ast.Ident); ok {
							if o := info.Defs[id]; o != nil {
								retScoped[o] = true
							}
						}
					}
				}
				return true
			})
		}
		return true
	})
	seen := map[string]bool{}
	var out []string
	note := func(e ast.Expr) {
		for {
			if p, ok := e.(*ast.ParenExpr); ok {
				e = p.X
				continue
			}
			if u, ok := e.(*ast.UnaryExpr); ok && u.Op == token.AND {
				e = u.X
				continue
			}
			if st, ok := e.(*ast.StarExpr); ok {
				e = st.X
				continue
			}
			break
		}
		switch e.(type) {
		case *ast.CompositeLit, *ast.TypeAssertExpr:
			return
		case *ast.CallExpr:
			// result of a call (acquire function): fine when bound to a variable, which is then the base
			return
		}
		s := types.ExprString(e)
		ok := false
		root := e
		for {
			if sel, isSel := root.(*ast.SelectorExpr); isSel {
				root = sel.X
				continue
			}
			break
		}
		if id, isId := root.(*ast.Ident); isId {
			ok = true
			if o := info.Uses[id]; o != nil && retScoped[o] {
				s = "ret:" + s
			}
		}
		if !ok {
			s = "other:" + s
		}
		if !seen[s] {
			seen[s] = true
			out = append(out, s)
		}
	}
	ast.Inspect(fd.Body, func(n ast.Node) bool {
		switch x := n.(type) {
		case *ast.SelectorExpr:
			if isT(x.X) {
				note(x.X)
			}
		case *ast.CallExpr:
			for _, a := range x.Args {
				if isT(a) {
					note(a)
				}
			}
		case *ast.IndexExpr:
			if isT(x) {
				// element of a slice of T (several instances)
				s := "other:" + types.ExprString(x)
				if !seen[s] {
					seen[s] = true
					out = append(out, s)
				}
			}
		}
		return true
	})
	sort.Strings(out)
	return out
}
