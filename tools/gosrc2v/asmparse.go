// asmparse.go — C13: emits coq/Gen/AsmAmd64.v
//
// Parses the Go-assembler source of every amd64 routine of the module
// (internal/dsp/*_amd64.s, internal/lossy/*_amd64.s) into instruction lists
//
//	item ::= L label | I mnemonic [operand ...]
//	operand ::= R reg | Imm n | Mem disp base index scale | FP name off | Sym name off
//
// (#define macros substituted, displacement expressions such as -1+2*BPS
// evaluated, comments dropped, DATA/GLOBL tables emitted separately) so that
// Coq can (a) interpret the instruction list of a routine with the semantics of
// Arch/ArchAsm.v and prove it equal to the lane model — the model is then
// regenerated from the source instead of read by hand — and (b) pin every other
// routine, amd64 and arm64, by a digest of its normalised body: a changed .s body
// breaks the obligation.
//
// For the routines whose semantics is claimed (asmClaimed) an unknown mnemonic
// or operand form is a REFUSAL.
package main

import (
	"bytes"
	"crypto/sha256"
	"encoding/hex"
	"fmt"
	"os"
	"path/filepath"
	"regexp"
	"sort"
	"strconv"
	"strings"
)

func init() { extraGenerators = append(extraGenerators, genAsmAmd64) }

// routines interpreted by Arch/ArchAsm.v and the mnemonics its semantics covers
var asmClaimed = map[string]bool{"sse4x4SSE2": true, "sse16x16SSE2": true,
	"transformWHTSSE2": true, "fTransformWHTSSE2": true, "iTransformOneSSE2": true, "iTransformOneAVX2": true}
var asmKnownMnemonics = map[string]bool{
	"MOVQ": true, "MOVL": true, "PXOR": true, "PUNPCKLBW": true, "PSUBW": true, "PMADDWL": true,
	"PADDL": true, "PSHUFD": true, "RET": true, "ADDQ": true, "DECQ": true, "JNZ": true, "XORQ": true,
	"MOVOU": true, "MOVO": true, "MOVW": true, "PEXTRW": true, "PADDW": true, "PSRAW": true, "PMULHW": true,
	"PUNPCKLWL": true, "MOVLHPS": true, "MOVHLPS": true, "PACKUSWB": true,
	"VPADDW": true, "VPSUBW": true, "VPSHUFD": true, "VPSRAW": true, "VPUNPCKLWD": true, "VPUNPCKLBW": true,
	"VPUNPCKLQDQ": true, "VPUNPCKHQDQ": true, "VPXOR": true, "VZEROUPPER": true, "VPMULHW": true, "VPACKUSWB": true,
}

// asmDecodeVEX decodes a raw-encoded VEX instruction (LONG [; BYTE]) of the
// register-register forms the AVX2 files use (Go's assembler lacks some
// mnemonics).  Returns the mnemonic and the operands in Go order
// (second source, first source, destination).
func asmDecodeVEX(b []byte) (string, []asmOp, bool) {
	var r, x, bb, l, vvvv, mm, pp int
	var rest []byte
	switch {
	case len(b) == 4 && b[0] == 0xC5:
		r, x, bb, mm = int(b[1]>>7)^1, 0, 0, 1
		vvvv, l, pp = int(^(b[1]>>3))&15, int(b[1]>>2)&1, int(b[1])&3
		rest = b[2:]
	case len(b) == 5 && b[0] == 0xC4:
		r, x, bb, mm = int(b[1]>>7)^1, int(b[1]>>6&1)^1, int(b[1]>>5&1)^1, int(b[1])&31
		vvvv, l, pp = int(^(b[2]>>3))&15, int(b[2]>>2)&1, int(b[2])&3
		rest = b[3:]
	default:
		return "", nil, false
	}
	_ = x
	if mm != 1 || pp != 1 || len(rest) != 2 || rest[1]>>6 != 3 {
		return "", nil, false
	}
	names := map[byte]string{0xE5: "VPMULHW", 0x67: "VPACKUSWB", 0x6B: "VPACKSSDW", 0xF5: "VPMADDWD"}
	mn, ok := names[rest[0]]
	if !ok {
		return "", nil, false
	}
	reg, rm := int(rest[1]>>3&7)+8*r, int(rest[1]&7)+8*bb
	pre := "X"
	if l == 1 {
		pre = "Y"
	}
	mk := func(n int) asmOp { return asmOp{kind: "R", name: fmt.Sprintf("%s%d", pre, n)} }
	return mn, []asmOp{mk(rm), mk(vvvv), mk(reg)}, true
}

type asmOp struct {
	kind  string // R Imm Mem FP Sym
	name  string // register / FP name / symbol
	n     int64  // immediate / displacement / offset
	index string
	scale int64
}

type asmItem struct {
	label string
	mn    string
	ops   []asmOp
}

type asmRoutine struct {
	file, name string
	raw        [][]string // arm64: mnemonic followed by the raw operand strings
	items      []asmItem
	norm       string // normalised text for the digest
}

var (
	asmTextLine = regexp.MustCompile(`^TEXT\s+·([A-Za-z0-9_]+)\(SB\)`)
	asmLabelRE  = regexp.MustCompile(`^([A-Za-z_][A-Za-z0-9_]*):$`)
	asmMemRE    = regexp.MustCompile(`^([^()]*)\(([A-Z][A-Z0-9]*)\)(?:\(([A-Z][A-Z0-9]*)\*([0-9]+)\))?$`)
	asmFPRE     = regexp.MustCompile(`^([A-Za-z_][A-Za-z0-9_]*)\+([0-9]+)\(FP\)$`)
	asmSymRE    = regexp.MustCompile(`^\$?([A-Za-z_·][A-Za-z0-9_·]*)(<>)?(?:\+((?:0x)?[0-9a-fA-F]+))?\(SB\)$`)
	asmRegRE    = regexp.MustCompile(`^(?:[A-D]X|[SD]I|[SB]P|R[0-9]+|[A-D]L|[XY][0-9]+|[A-D]H)$`)
)

// evalExpr evaluates integer expressions with + - * and parentheses-free macros.
func asmEval(s string, macros map[string]string) (int64, bool) {
	s = strings.TrimSpace(s)
	if s == "" {
		return 0, true
	}
	// tokenise
	var toks []string
	cur := ""
	for _, r := range s {
		switch r {
		case '+', '-', '*':
			if cur != "" {
				toks = append(toks, cur)
				cur = ""
			}
			toks = append(toks, string(r))
		case ' ', '\t':
		default:
			cur += string(r)
		}
	}
	if cur != "" {
		toks = append(toks, cur)
	}
	atom := func(t string) (int64, bool) {
		if m, ok := macros[t]; ok {
			t = strings.TrimPrefix(strings.TrimSpace(m), "$")
		}
		v, err := strconv.ParseInt(t, 0, 64)
		if err != nil {
			u, err2 := strconv.ParseUint(t, 0, 64)
			if err2 != nil {
				return 0, false
			}
			return int64(u), true
		}
		return v, true
	}
	// term := atom ('*' atom)* ; expr := ['-'] term (('+'|'-') term)*
	pos := 0
	term := func() (int64, bool) {
		if pos >= len(toks) {
			return 0, false
		}
		v, ok := atom(toks[pos])
		if !ok {
			return 0, false
		}
		pos++
		for pos+1 < len(toks) && toks[pos] == "*" {
			w, ok := atom(toks[pos+1])
			if !ok {
				return 0, false
			}
			v *= w
			pos += 2
		}
		return v, true
	}
	sign := int64(1)
	if pos < len(toks) && (toks[pos] == "-" || toks[pos] == "+") {
		if toks[pos] == "-" {
			sign = -1
		}
		pos++
	}
	v, ok := term()
	if !ok {
		return 0, false
	}
	v *= sign
	for pos < len(toks) {
		op := toks[pos]
		pos++
		w, ok := term()
		if !ok || (op != "+" && op != "-") {
			return 0, false
		}
		if op == "+" {
			v += w
		} else {
			v -= w
		}
	}
	return v, true
}

func asmParseOperand(s string, macros map[string]string) (asmOp, bool) {
	s = strings.TrimSpace(s)
	if m, ok := macros[s]; ok { // #define BPS $32 used as a whole operand
		s = strings.TrimSpace(m)
	}
	if asmRegRE.MatchString(s) {
		return asmOp{kind: "R", name: s}, true
	}
	if m := asmFPRE.FindStringSubmatch(s); m != nil {
		n, _ := strconv.ParseInt(m[2], 10, 64)
		return asmOp{kind: "FP", name: m[1], n: n}, true
	}
	if m := asmSymRE.FindStringSubmatch(s); m != nil {
		var n int64
		if m[3] != "" {
			n, _ = strconv.ParseInt(m[3], 0, 64)
		}
		return asmOp{kind: "Sym", name: strings.ReplaceAll(m[1], "·", ""), n: n}, true
	}
	if strings.HasPrefix(s, "$") {
		if v, ok := asmEval(s[1:], macros); ok {
			return asmOp{kind: "Imm", n: v}, true
		}
		return asmOp{}, false
	}
	if m := asmMemRE.FindStringSubmatch(s); m != nil {
		d, ok := asmEval(m[1], macros)
		if !ok {
			return asmOp{}, false
		}
		op := asmOp{kind: "Mem", n: d, name: m[2], index: m[3]}
		if m[4] != "" {
			op.scale, _ = strconv.ParseInt(m[4], 10, 64)
		}
		return op, true
	}
	// a bare label (jump target) or TEXT frame size
	if regexp.MustCompile(`^[A-Za-z_][A-Za-z0-9_]*$`).MatchString(s) {
		return asmOp{kind: "Sym", name: s}, true
	}
	return asmOp{}, false
}

func (o asmOp) coq() string {
	z := func(n int64) string {
		if n < 0 {
			return fmt.Sprintf("(%d)", n)
		}
		return fmt.Sprint(n)
	}
	switch o.kind {
	case "R":
		return fmt.Sprintf("R \"%s\"", o.name)
	case "Imm":
		return "Imm " + z(o.n)
	case "Mem":
		return fmt.Sprintf("Mem %s \"%s\" \"%s\" %s", z(o.n), o.name, o.index, z(o.scale))
	case "FP":
		return fmt.Sprintf("FP \"%s\" %s", o.name, z(o.n))
	}
	return fmt.Sprintf("Sym \"%s\" %s", coqString(o.name), z(o.n))
}

func (o asmOp) text() string {
	return fmt.Sprintf("%s:%s:%d:%s:%d", o.kind, o.name, o.n, o.index, o.scale)
}

func asmSplitOperands(s string) []string {
	var out []string
	depth := 0
	cur := ""
	for _, r := range s {
		switch {
		case r == '(':
			depth++
			cur += string(r)
		case r == ')':
			depth--
			cur += string(r)
		case r == ',' && depth == 0:
			out = append(out, cur)
			cur = ""
		default:
			cur += string(r)
		}
	}
	if strings.TrimSpace(cur) != "" {
		out = append(out, cur)
	}
	return out
}

var (
	asmRegAmd64 = regexp.MustCompile(`\b([XY][0-9]+|[A-D]X|[SD]I|BP|R(?:8|9|1[0-5]))\b`)
	asmRegArm64 = regexp.MustCompile(`\b([VRF][0-9]+)\b`)
	asmWordRE   = regexp.MustCompile(`[A-Za-z_][A-Za-z0-9_]*`)
)

// asmCanonical makes the digest of a routine body insensitive to what cannot
// change its behaviour: comments and blank lines (already removed), spacing,
// label names (renamed L0, L1, ... in order of definition) and a consistent
// renaming of registers (vector and general registers renamed in order of first
// occurrence; X<n> and Y<n> share one name space).  Raw-encoded instructions
// (LONG / WORD / BYTE) keep their bytes.
func asmCanonical(norm string, arm bool) string {
	lines := strings.Split(norm, "\n")
	labels := map[string]string{}
	for _, l := range lines {
		if m := asmLabelRE.FindStringSubmatch(strings.TrimSpace(l)); m != nil {
			if _, ok := labels[m[1]]; !ok {
				labels[m[1]] = fmt.Sprintf("L%d", len(labels))
			}
		}
	}
	vec, gen := map[string]string{}, map[string]string{}
	re := asmRegAmd64
	if arm {
		re = asmRegArm64
	}
	var out []string
	for i, l := range lines {
		if i == 0 || l == "" { // TEXT header (name, frame size) kept as is
			out = append(out, l)
			continue
		}
		raw := strings.HasPrefix(l, "LONG ") || strings.HasPrefix(l, "WORD ") || strings.HasPrefix(l, "BYTE ")
		if !raw {
			l = re.ReplaceAllStringFunc(l, func(r string) string {
				switch {
				case !arm && (r[0] == 'X' || r[0] == 'Y') && len(r) > 1 && r[1] >= '0' && r[1] <= '9':
					k := r[1:]
					if _, ok := vec[k]; !ok {
						vec[k] = fmt.Sprintf("%d", len(vec))
					}
					return string(r[0]) + "#" + vec[k]
				case arm && (r[0] == 'V' || r[0] == 'F'):
					if _, ok := vec[r]; !ok {
						vec[r] = fmt.Sprintf("%d", len(vec))
					}
					return string(r[0]) + "#" + vec[r]
				default:
					if _, ok := gen[r]; !ok {
						gen[r] = fmt.Sprintf("%d", len(gen))
					}
					return "G#" + gen[r]
				}
			})
		}
		l = asmWordRE.ReplaceAllStringFunc(l, func(w string) string {
			if c, ok := labels[w]; ok {
				return c
			}
			return w
		})
		out = append(out, l)
	}
	return strings.Join(out, "\n")
}

// ---- canonical instruction order ----
//
// Within a basic block (no label inside, a jump / RET only at the end) the
// instructions are re-ordered into a deterministic topological order of their
// dependency graph, so that moving an instruction past instructions it does not
// depend on leaves the digest unchanged.  The dependency relation is a superset
// of the true one (so equal digests still mean "legal re-orderings of each
// other", never more):
//   - registers: every operand is read; the last operand is also written
//     (X<n>/Y<n> are one register; AL/AH/AX... are one register);
//   - flags: every instruction that is not a SIMD instruction or a move reads
//     and writes the flags; conditional jumps read them;
//   - memory: loads commute with loads; a store commutes with another access only
//     if both are disp(base) with the same base register, no index, known sizes
//     and disjoint byte ranges (the register dependencies order them against
//     any redefinition of the base); FP-frame slots only conflict with the same
//     slot; read-only DATA symbols conflict with nothing; anything else conflicts;
//   - raw-encoded or unparsed instructions, CPUID, and unknown operand forms are barriers.
func asmRegKey(r string) string {
	if len(r) >= 2 && (r[0] == 'X' || r[0] == 'Y') && r[1] >= '0' && r[1] <= '9' {
		return "V" + r[1:]
	}
	switch r {
	case "AL", "AH":
		return "AX"
	case "BL", "BH":
		return "BX"
	case "CL", "CH":
		return "CX"
	case "DL", "DH":
		return "DX"
	}
	return r
}

// asmOrdinary: mnemonics whose only effects are: read every operand, write the last
// operand, and (for the non-SIMD, non-move ones) read/write the flags.  No implicit
// register, no stack access, no partial effect on registers that are not operands.
var asmOrdinary = func() map[string]bool {
	m := map[string]bool{}
	for _, w := range strings.Fields(`ADDL ADDQ ANDL ANDQ BTL CMPL CMPQ DECQ IMULL INCQ LEAQ
		MOVB MOVBQZX MOVD MOVHLPS MOVL MOVLHPS MOVO MOVOU MOVQ MOVW MOVWLSX NEGQ ORL
		PACKSSLW PACKUSWB PADDB PADDD PADDL PADDQ PADDW PAND PANDN PCMPEQL PCMPEQW PCMPGTL PEXTRW
		PMADDWL PMAXSW PMINSW PMULHW PMULLW POR PSADBW PSHUFD PSHUFLW PSLLL PSLLW PSRAL PSRAW
		PSRLDQ PSRLL PSRLQ PSUBB PSUBL PSUBUSW PSUBW PUNPCKHBW PUNPCKHLQ PUNPCKHWL PUNPCKLBW
		PUNPCKLLQ PUNPCKLWL PXOR SARQ SHLL SHLQ SHRL SHRQ SUBL SUBQ TESTQ
		VBROADCASTI128 VEXTRACTI128 VINSERTI128 VMOVDQA VMOVDQU VPACKSSDW VPACKUSWB VPADDB VPADDD
		VPADDQ VPADDW VPAND VPANDN VPBROADCASTD VPBROADCASTQ VPBROADCASTW VPCMPEQD VPCMPEQW
		VPCMPGTD VPERMQ VPMADDWD VPMAXSW VPMINSW VPMULHW VPOR VPSHUFD VPSLLD VPSLLW VPSRAD VPSRAW
		VPSRLD VPSRLQ VPSUBB VPSUBD VPSUBUSW VPSUBW VPUNPCKHBW VPUNPCKHDQ VPUNPCKHQDQ VPUNPCKHWD
		VPUNPCKLBW VPUNPCKLDQ VPUNPCKLQDQ VPUNPCKLWD VPXOR XORL XORQ`) {
		m[w] = true
	}
	return m
}()

func asmIsSIMD(mn string) bool {
	return strings.HasPrefix(mn, "P") || strings.HasPrefix(mn, "V") || mn == "MOVO" || mn == "MOVOU" ||
		mn == "MOVLHPS" || mn == "MOVHLPS" || mn == "MOVD"
}

func asmAccessSize(mn string, ops []asmOp) int64 {
	switch mn {
	case "MOVOU", "MOVO":
		return 16
	case "VMOVDQU", "VMOVDQA":
		for _, o := range ops {
			if o.kind == "R" && strings.HasPrefix(o.name, "Y") {
				return 32
			}
		}
		return 16
	case "MOVQ":
		return 8
	case "MOVL", "MOVD":
		return 4
	case "MOVW", "MOVWLSX":
		return 2
	case "MOVB", "MOVBQZX":
		return 1
	}
	return 0 // unknown
}

type asmEff struct {
	reads, writes map[string]bool
	barrier       bool
	// memory access: kind "" none, "ld", "st"; class: "fp:<slot>", "ro", "mem"
	mkind, mclass, mbase string
	mlo, mhi             int64
	mknown               bool
}

func asmEffects(it asmItem) asmEff {
	e := asmEff{reads: map[string]bool{}, writes: map[string]bool{}}
	mn := it.mn
	if it.label != "" || !asmOrdinary[mn] {
		// labels, jumps, RET, raw bytes, CPUID, VZEROUPPER, and every mnemonic whose
		// operand roles have not been reviewed (implicit registers, stack, ...)
		e.barrier = true
		return e
	}
	if !asmIsSIMD(mn) && !strings.HasPrefix(mn, "MOV") && !strings.HasPrefix(mn, "LEA") {
		e.reads["FLAGS"], e.writes["FLAGS"] = true, true
	}
	nm := 0
	for i, o := range it.ops {
		last := i == len(it.ops)-1
		switch o.kind {
		case "R":
			e.reads[asmRegKey(o.name)] = true
			if last {
				e.writes[asmRegKey(o.name)] = true
			}
		case "Imm":
		case "Mem":
			nm++
			e.reads[asmRegKey(o.name)] = true
			if o.index != "" {
				e.reads[asmRegKey(o.index)] = true
			}
			e.mkind, e.mclass = "ld", "mem"
			if last {
				e.mkind = "st"
			}
			if mn == "LEAQ" {
				e.mkind, e.mclass = "", ""
				continue
			}
			if sz := asmAccessSize(mn, it.ops); sz > 0 && o.index == "" {
				e.mbase, e.mlo, e.mhi, e.mknown = asmRegKey(o.name), o.n, o.n+sz, true
			}
		case "FP":
			nm++
			e.mkind, e.mclass = "ld", "fp:"+o.name
			if last {
				e.mkind = "st"
			}
		case "Sym":
			if strings.HasPrefix(o.name, "?") {
				e.barrier = true
			}
			nm++
			if e.mkind == "" {
				e.mkind, e.mclass = "ld", "ro"
			}
			if last {
				e.barrier = true // a store to a symbol: not expected
			}
		}
	}
	if nm > 1 {
		e.barrier = true
	}
	return e
}

func asmMemConflict(a, b asmEff) bool {
	if a.mkind == "" || b.mkind == "" {
		return false
	}
	if a.mkind == "ld" && b.mkind == "ld" {
		return false
	}
	if a.mclass == "ro" || b.mclass == "ro" {
		return false
	}
	if strings.HasPrefix(a.mclass, "fp:") || strings.HasPrefix(b.mclass, "fp:") {
		return true // a store next to an argument/result slot access: keep the order
	}
	if a.mknown && b.mknown && a.mbase == b.mbase {
		return a.mlo < b.mhi && b.mlo < a.mhi
	}
	return true
}

func asmDepends(a, b asmEff) bool { // b (later) must stay after a (earlier)
	if a.barrier || b.barrier {
		return true
	}
	for r := range a.writes {
		if b.reads[r] || b.writes[r] {
			return true
		}
	}
	for r := range a.reads {
		if b.writes[r] {
			return true
		}
	}
	return asmMemConflict(a, b)
}

// shape: the instruction with register names abstracted (the renaming is applied afterwards)
func asmShape(it asmItem) string {
	var sb strings.Builder
	sb.WriteString(it.mn)
	for _, o := range it.ops {
		switch o.kind {
		case "R":
			c := "G"
			if k := asmRegKey(o.name); strings.HasPrefix(k, "V") {
				c = string(o.name[0])
			}
			sb.WriteString(" " + c)
		case "Mem":
			fmt.Fprintf(&sb, " %d(_)", o.n)
			if o.index != "" {
				fmt.Fprintf(&sb, "(_*%d)", o.scale)
			}
		default:
			sb.WriteString(" " + o.text())
		}
	}
	return sb.String()
}

func asmReorder(items []asmItem) []asmItem {
	var out []asmItem
	flush := func(blk []asmItem) {
		n := len(blk)
		effs := make([]asmEff, n)
		for i := range blk {
			effs[i] = asmEffects(blk[i])
		}
		indeg := make([]int, n)
		succ := make([][]int, n)
		for i := 0; i < n; i++ {
			for j := i + 1; j < n; j++ {
				if asmDepends(effs[i], effs[j]) {
					succ[i] = append(succ[i], j)
					indeg[j]++
				}
			}
		}
		done := make([]bool, n)
		for k := 0; k < n; k++ {
			best := -1
			for i := 0; i < n; i++ {
				if done[i] || indeg[i] != 0 {
					continue
				}
				if best < 0 || asmShape(blk[i]) < asmShape(blk[best]) {
					best = i // ties: the earlier one (stable)
				}
			}
			done[best] = true
			out = append(out, blk[best])
			for _, j := range succ[best] {
				indeg[j]--
			}
		}
	}
	var blk []asmItem
	for _, it := range items {
		if it.label != "" {
			flush(blk)
			blk = nil
			out = append(out, it)
			continue
		}
		blk = append(blk, it)
		if it.mn == "RET" || strings.HasPrefix(it.mn, "J") || it.mn == "CALL" {
			flush(blk)
			blk = nil
		}
	}
	flush(blk)
	return out
}

func asmOpText(o asmOp) string {
	switch o.kind {
	case "R":
		return o.name
	case "Imm":
		return fmt.Sprintf("$%d", o.n)
	case "Mem":
		s := fmt.Sprintf("%d(%s)", o.n, o.name)
		if o.index != "" {
			s += fmt.Sprintf("(%s*%d)", o.index, o.scale)
		}
		return s
	case "FP":
		return fmt.Sprintf("%s+%d(FP)", o.name, o.n)
	}
	return fmt.Sprintf("%s+%d(SB)", o.name, o.n)
}

func asmRender(items []asmItem) string {
	var sb strings.Builder
	for _, it := range items {
		if it.label != "" {
			sb.WriteString(it.label + ":\n")
			continue
		}
		sb.WriteString(it.mn)
		for i, o := range it.ops {
			if i == 0 {
				sb.WriteString(" ")
			} else {
				sb.WriteString(", ")
			}
			sb.WriteString(asmOpText(o))
		}
		sb.WriteString("\n")
	}
	return sb.String()
}

func genAsmAmd64() (string, string) {
	var files []string
	for _, d := range []string{"internal/dsp", "internal/lossy"} {
		ents, _ := os.ReadDir(filepath.Join(repo, d))
		for _, e := range ents {
			if strings.HasSuffix(e.Name(), ".s") {
				files = append(files, filepath.Join(d, e.Name()))
			}
		}
	}
	sort.Strings(files)
	var routines []asmRoutine
	type dataEnt struct {
		sym  string
		off  int64
		size int64
		val  string
	}
	var data []dataEnt
	for _, f := range files {
		raw, err := os.ReadFile(filepath.Join(repo, f))
		if err != nil {
			refuse("asmparse: %v", err)
			continue
		}
		amd64 := strings.HasSuffix(f, "_amd64.s")
		macros := map[string]string{}
		var cur *asmRoutine
		flush := func() {
			if cur != nil {
				routines = append(routines, *cur)
				cur = nil
			}
		}
		for ln, line := range strings.Split(string(raw), "\n") {
			if i := strings.Index(line, "//"); i >= 0 {
				line = line[:i]
			}
			line = strings.TrimSpace(line)
			if line == "" || strings.HasPrefix(line, "#include") {
				continue
			}
			if strings.HasPrefix(line, "#define") {
				fs := strings.Fields(line)
				if len(fs) >= 3 {
					macros[fs[1]] = strings.Join(fs[2:], " ")
				}
				continue
			}
			if m := asmTextLine.FindStringSubmatch(line); m != nil {
				flush()
				cur = &asmRoutine{file: f, name: m[1]}
				cur.norm = "TEXT " + strings.Join(strings.Fields(line), " ") + "\n"
				continue
			}
			if strings.HasPrefix(line, "DATA") || strings.HasPrefix(line, "GLOBL") {
				if strings.HasPrefix(line, "DATA") && amd64 {
					// DATA sym<>+0x08(SB)/8, $0x...
					rest := strings.TrimSpace(strings.TrimPrefix(line, "DATA"))
					parts := asmSplitOperands(rest)
					if len(parts) == 2 {
						lhs := strings.TrimSpace(parts[0])
						sz := int64(0)
						if i := strings.LastIndex(lhs, "/"); i >= 0 {
							sz, _ = strconv.ParseInt(lhs[i+1:], 10, 64)
							lhs = lhs[:i]
						}
						if op, ok := asmParseOperand(lhs, macros); ok && op.kind == "Sym" {
							v := strings.TrimPrefix(strings.TrimSpace(parts[1]), "$")
							if u, err := strconv.ParseUint(v, 0, 64); err == nil {
								data = append(data, dataEnt{op.name, op.n, sz, fmt.Sprint(u)})
							} else if s, err := strconv.ParseInt(v, 0, 64); err == nil {
								data = append(data, dataEnt{op.name, op.n, sz, fmt.Sprint(uint64(s))})
							} else {
								refuse("asmparse: %s:%d: DATA value %q", f, ln+1, v)
							}
						}
					}
				}
				// data tables take part in the digest of the file's first routine users via asm_data
				continue
			}
			if cur == nil {
				continue
			}
			cur.norm += strings.Join(strings.Fields(line), " ") + "\n"
			if !amd64 {
				// arm64: no semantics yet - the instruction list (mnemonic, raw operands) is emitted for
				// inspection and future interpretation; pinned through the digest
				if m := asmLabelRE.FindStringSubmatch(line); m != nil {
					cur.raw = append(cur.raw, []string{"L", m[1]})
				} else {
					mn, rest := line, ""
					if i := strings.IndexAny(line, " \t"); i >= 0 {
						mn, rest = line[:i], line[i+1:]
					}
					ent := []string{mn}
					depth := 0
					curop := ""
					for _, r := range rest {
						switch {
						case r == '(' || r == '[':
							depth++
							curop += string(r)
						case r == ')' || r == ']':
							depth--
							curop += string(r)
						case r == ',' && depth == 0:
							ent = append(ent, strings.TrimSpace(curop))
							curop = ""
						default:
							curop += string(r)
						}
					}
					if strings.TrimSpace(curop) != "" {
						ent = append(ent, strings.TrimSpace(curop))
					}
					cur.raw = append(cur.raw, ent)
				}
				continue
			}
			if strings.HasPrefix(line, "LONG ") {
				// raw-encoded VEX instruction: decode it when it is one of the known forms
				var bs []byte
				okb := true
				for _, st := range strings.Split(line, ";") {
					f := strings.Fields(strings.TrimSpace(st))
					if len(f) != 2 {
						okb = false
						break
					}
					v, err := strconv.ParseUint(strings.TrimPrefix(f[1], "$"), 0, 64)
					if err != nil {
						okb = false
						break
					}
					switch f[0] {
					case "LONG":
						bs = append(bs, byte(v), byte(v>>8), byte(v>>16), byte(v>>24))
					case "BYTE":
						bs = append(bs, byte(v))
					default:
						okb = false
					}
				}
				if okb {
					if mn, ops, ok := asmDecodeVEX(bs); ok {
						cur.items = append(cur.items, asmItem{mn: mn, ops: ops})
						continue
					}
				}
				if asmClaimed[cur.name] {
					refuse("asmparse: %s:%d: raw-encoded instruction %q in claimed routine %s cannot be decoded", f, ln+1, line, cur.name)
				}
			}
			if strings.Contains(line, ";") { // several statements on one line (LONG ...; BYTE ...)
				stmts := strings.Split(line, ";")
				for _, st := range stmts[:len(stmts)-1] {
					st = strings.TrimSpace(st)
					if i := strings.IndexAny(st, " \t"); i >= 0 {
						it := asmItem{mn: st[:i]}
						if op, ok := asmParseOperand(st[i+1:], macros); ok {
							it.ops = append(it.ops, op)
						} else {
							it.ops = append(it.ops, asmOp{kind: "Sym", name: "?" + strings.TrimSpace(st[i+1:])})
						}
						cur.items = append(cur.items, it)
					}
				}
				line = strings.TrimSpace(stmts[len(stmts)-1])
			}
			if m := asmLabelRE.FindStringSubmatch(line); m != nil {
				cur.items = append(cur.items, asmItem{label: m[1]})
				continue
			}
			fs := strings.SplitN(line, " ", 2)
			if i := strings.IndexAny(line, " \t"); i >= 0 {
				fs = []string{line[:i], line[i+1:]}
			}
			it := asmItem{mn: fs[0]}
			if len(fs) == 2 {
				for _, o := range asmSplitOperands(fs[1]) {
					op, ok := asmParseOperand(o, macros)
					if !ok {
						if asmClaimed[cur.name] {
							refuse("asmparse: %s:%d: operand %q of %s not understood in claimed routine %s", f, ln+1, o, it.mn, cur.name)
						}
						op = asmOp{kind: "Sym", name: "?" + strings.TrimSpace(o)}
					}
					it.ops = append(it.ops, op)
				}
			}
			if asmClaimed[cur.name] && !asmKnownMnemonics[it.mn] {
				refuse("asmparse: %s:%d: mnemonic %s in claimed routine %s has no semantics in Arch/ArchAsm.v", f, ln+1, it.mn, cur.name)
			}
			cur.items = append(cur.items, it)
		}
		flush()
	}
	for name := range asmClaimed {
		found := false
		for _, r := range routines {
			if r.name == name {
				found = true
			}
		}
		if !found {
			refuse("asmparse: claimed routine %s not found", name)
		}
	}
	sort.Slice(routines, func(i, j int) bool { return routines[i].name < routines[j].name })

	var b bytes.Buffer
	b.WriteString("(* GENERATED by tools/gosrc2v (asmparse.go) from /repo's current assembly sources. Do not edit. *)\n")
	b.WriteString("From Coq Require Import ZArith List String.\nImport ListNotations.\nOpen Scope Z_scope.\nOpen Scope string_scope.\n\n")
	b.WriteString("Inductive opnd : Type :=\n| R (name : string)\n| Imm (n : Z)\n| Mem (disp : Z) (base index : string) (scale : Z)\n| FP (name : string) (off : Z)\n| Sym (name : string) (off : Z).\n")
	b.WriteString("Inductive item : Type :=\n| L (label : string)\n| I (mnemonic : string) (ops : list opnd).\n\n")
	nins := 0
	for _, r := range routines {
		if !strings.HasSuffix(r.file, "_amd64.s") {
			continue
		}
		fmt.Fprintf(&b, "(* %s *)\nDefinition asm_%s : list item := [\n", r.file, r.name)
		for i, it := range r.items {
			sep := ";"
			if i == len(r.items)-1 {
				sep = ""
			}
			if it.label != "" {
				fmt.Fprintf(&b, " L \"%s\"%s\n", it.label, sep)
				continue
			}
			nins++
			var ops []string
			for _, o := range it.ops {
				ops = append(ops, o.coq())
			}
			fmt.Fprintf(&b, " I \"%s\" [%s]%s\n", it.mn, strings.Join(ops, "; "), sep)
		}
		b.WriteString("].\n\n")
	}
	if nins < 1500 {
		refuse("asmparse: only %d amd64 instructions parsed (expected ~2000)", nins)
	}
	b.WriteString("(* arm64 routines: (mnemonic, raw operand strings); labels as (\"L\", [name]).  No semantics yet. *)\n")
	narm := 0
	for _, r := range routines {
		if !strings.HasSuffix(r.file, "_arm64.s") {
			continue
		}
		fmt.Fprintf(&b, "(* %s *)\nDefinition arm64_%s : list (string * list string) := [\n", r.file, r.name)
		for i, e := range r.raw {
			sep := ";"
			if i == len(r.raw)-1 {
				sep = ""
			}
			var ops []string
			for _, o := range e[1:] {
				ops = append(ops, "\""+coqString(o)+"\"")
			}
			fmt.Fprintf(&b, " (\"%s\", [%s])%s\n", coqString(e[0]), strings.Join(ops, "; "), sep)
			narm++
		}
		b.WriteString("].\n\n")
	}
	fmt.Fprintf(&b, "Definition arm64_instruction_count : Z := %d.\n\n", narm)
	b.WriteString("(* DATA tables of the amd64 files: (symbol, offset, size, value) *)\n")
	b.WriteString("Definition asm_data : list (string * Z * Z * Z) := [\n")
	for i, d := range data {
		sep := ";"
		if i == len(data)-1 {
			sep = ""
		}
		fmt.Fprintf(&b, " (\"%s\", %d, %d, %s)%s\n", coqString(d.sym), d.off, d.size, d.val, sep)
	}
	b.WriteString("].\n\n")
	b.WriteString("(* (routine, sha256 of the canonical body: comments and blank lines removed, whitespace\n   collapsed, labels and registers renamed canonically) for every routine, amd64 and arm64 *)\n")
	b.WriteString("Definition asm_digests : list (string * string) := [\n")
	for i, r := range routines {
		sep := ";"
		if i == len(routines)-1 {
			sep = ""
		}
		var dg string
		switch {
		case asmClaimed[r.name]:
			// the lane model of this routine is derived from its instruction list by proof
			// (Arch/ArchAsm.v): any edit is re-judged by that proof, no pin needed
			dg = "proved"
		case strings.HasSuffix(r.file, "_arm64.s"):
			h := sha256.Sum256([]byte(asmCanonical(r.norm, true)))
			dg = hex.EncodeToString(h[:8])
		default:
			hdr := strings.SplitN(r.norm, "\n", 2)[0]
			h := sha256.Sum256([]byte(asmCanonical(hdr+"\n"+asmRender(asmReorder(r.items)), false)))
			dg = hex.EncodeToString(h[:8])
		}
		fmt.Fprintf(&b, " (\"%s\", \"%s\")%s\n", r.name, dg, sep)
	}
	b.WriteString("].\n\n")
	dh := sha256.New()
	for _, d := range data {
		fmt.Fprintf(dh, "%s %d %d %s\n", d.sym, d.off, d.size, d.val)
	}
	fmt.Fprintf(&b, "Definition asm_data_digest : string := \"%s\".\n", hex.EncodeToString(dh.Sum(nil)[:8]))
	return "AsmAmd64.v", b.String()
}
