// intwidth.go — C13: emits coq/Gen/IntWidth.v, the list of every constant
// expression of /repo that the Go compiler has to represent as `int`, `uint` or
// `uintptr` when it compiles the module for a target whose int is 32 bits wide.
//
// For each package the file set is the one `go build` selects for a 32-bit
// target (GOARCH 386, arm, mipsle, wasm — no build tags), type-checked with
// 64-bit sizes so that a value that does not fit 32 bits is *recorded* with its
// exact value instead of being rejected.  Listed is every expression e with a
// constant value whose final type (after the implicit conversion of untyped
// constants: assignment, operand of an int expression, argument, index, shift
// count, …) has underlying kind int / uint / uintptr, together with the role it
// plays.  Coq re-checks `-2^31 <= v < 2^31` resp. `0 <= v < 2^32` over the whole
// list on every run (Properties/C13.v) — exactly the representability check the
// compiler performs for such a target, derived independently of it.
package main

import (
	"bytes"
	"fmt"
	"go/ast"
	"go/build"
	"go/constant"
	"go/parser"
	"go/token"
	"go/types"
	"os"
	"path/filepath"
	"sort"
	"strings"
)

func init() { extraGenerators = append(extraGenerators, genIntWidth) }

// 32-bit targets whose file selection is inspected.
var intWidthTargets = []struct{ goos, goarch string }{
	{"linux", "386"}, {"linux", "arm"}, {"linux", "mipsle"}, {"js", "wasm"}, {"windows", "386"},
}

type iwEntry struct {
	file      string // repo-relative
	line, col int
	kind      string // "int" | "uint"
	val       string // Coq Z literal
	src       string // source text (shortened)
}

type iwLoader struct {
	goos, goarch string
	sizes        types.Sizes
	std          types.Importer
	quiet        bool // 32-bit pass: type errors (overflows) are expected, not refusals
	pkgs         map[string]*types.Package
	entries      map[string]iwEntry // key file:line:col
	nfiles       int
}

func (l *iwLoader) Import(path string) (*types.Package, error) {
	const mod = "github.com/deepteams/webp"
	if path == mod || strings.HasPrefix(path, mod+"/") {
		rel := strings.TrimPrefix(strings.TrimPrefix(path, mod), "/")
		if rel == "" {
			rel = "."
		}
		return l.load(rel)
	}
	return l.std.Import(path)
}

func (l *iwLoader) load(dir string) (*types.Package, error) {
	if p, ok := l.pkgs[dir]; ok {
		return p, nil
	}
	full := filepath.Join(repo, dir)
	ents, err := os.ReadDir(full)
	if err != nil {
		return nil, err
	}
	ctx := build.Default
	ctx.GOOS, ctx.GOARCH, ctx.CgoEnabled = l.goos, l.goarch, false
	ctx.BuildTags, ctx.ToolTags = nil, nil
	fset := token.NewFileSet()
	var files []*ast.File
	for _, e := range ents {
		n := e.Name()
		if e.IsDir() || !strings.HasSuffix(n, ".go") || strings.HasSuffix(n, "_test.go") {
			continue
		}
		if ok, err := ctx.MatchFile(full, n); err != nil || !ok {
			continue
		}
		f, err := parser.ParseFile(fset, filepath.Join(full, n), nil, 0)
		if err != nil {
			return nil, err
		}
		files = append(files, f)
	}
	l.nfiles += len(files)
	info := &types.Info{Types: map[ast.Expr]types.TypeAndValue{}}
	var terrs []string
	conf := types.Config{Importer: l, Sizes: l.sizes, FakeImportC: true,
		Error: func(err error) { terrs = append(terrs, err.Error()) }}
	path := "github.com/deepteams/webp"
	if dir != "." {
		path += "/" + dir
	}
	pkg, _ := conf.Check(path, fset, files, info)
	l.pkgs[dir] = pkg
	if len(terrs) > 0 && !l.quiet {
		// a package that does not type-check with 64-bit sizes for this file
		// selection cannot be listed completely
		refuse("intwidth: %s does not type-check for %s/%s: %s", dir, l.goos, l.goarch, terrs[0])
	}
	for e, tv := range info.Types {
		if tv.Value == nil || tv.Type == nil {
			continue
		}
		b, ok := tv.Type.Underlying().(*types.Basic)
		if !ok {
			continue
		}
		kind := ""
		switch b.Kind() {
		case types.Int:
			kind = "int"
		case types.Uint, types.Uintptr:
			kind = "uint"
		default:
			continue
		}
		v := tv.Value
		if v.Kind() == constant.Float {
			v = constant.ToInt(v)
		}
		if v.Kind() != constant.Int {
			if !l.quiet {
				refuse("intwidth: constant of type %s with non-integer value at %s", b.Name(), fset.Position(e.Pos()))
			}
			continue
		}
		s, _ := zlit(v)
		pos := fset.Position(e.Pos())
		rel, _ := filepath.Rel(repo, pos.Filename)
		var sb bytes.Buffer
		// source text of the expression (for the reader of a failing obligation)
		if data, err := os.ReadFile(pos.Filename); err == nil {
			a, z := fset.Position(e.Pos()).Offset, fset.Position(e.End()).Offset
			if a >= 0 && z <= len(data) && a < z {
				t := string(data[a:z])
				t = strings.Join(strings.Fields(t), " ")
				if len(t) > 40 {
					t = t[:37] + "..."
				}
				sb.WriteString(t)
			}
		}
		key := fmt.Sprintf("%s:%d:%d:%d", rel, pos.Line, pos.Column, fset.Position(e.End()).Offset)
		l.entries[key] = iwEntry{rel, pos.Line, pos.Column, kind, s, sb.String()}
	}
	return pkg, nil
}

func coqString(s string) string {
	var b strings.Builder
	for _, r := range s {
		switch {
		case r == '"':
			b.WriteString("\"\"")
		case r < 32 || r > 126:
			b.WriteByte('?')
		default:
			b.WriteRune(r)
		}
	}
	return b.String()
}

func genIntWidth() (string, string) {
	all := map[string]iwEntry{}
	var targets []string
	for _, t := range intWidthTargets {
		l := &iwLoader{goos: t.goos, goarch: t.goarch, sizes: types.SizesFor("gc", "amd64"), std: theImporter.std,
			pkgs: map[string]*types.Package{}, entries: map[string]iwEntry{}}
		for _, pd := range pkgDirs {
			if _, err := l.load(pd.dir); err != nil {
				refuse("intwidth: cannot load %s for %s/%s: %v", pd.dir, t.goos, t.goarch, err)
			}
		}
		for k, e := range l.entries {
			all[k] = e
		}
		targets = append(targets, fmt.Sprintf("%s/%s (%d files)", t.goos, t.goarch, l.nfiles))
	}
	// Width-dependent constant expressions (math.MaxInt, ^uint(0)>>1, bits.UintSize, ...)
	// have a different value where int is 32 bits wide.  Second pass: the same
	// sources evaluated with 32-bit sizes against the width-dependent standard packages
	// (math, math/bits, strconv) type-checked for GOARCH=386.  Where that pass records a value different from the 64-bit
	// one, the 32-bit value is the one the target's compiler sees and is listed
	// (the 64-bit value is kept in a comment).  Where it records none (the
	// expression does not type-check with 32-bit int: overflow), the 64-bit
	// value stays and fails the range obligation.
	widthDep := map[string]string{} // key -> 64-bit value
	{
		std386 := &std32Importer{pkgs: map[string]*types.Package{}}
		l := &iwLoader{goos: "linux", goarch: "386", sizes: types.SizesFor("gc", "386"), std: std386, quiet: true,
			pkgs: map[string]*types.Package{}, entries: map[string]iwEntry{}}
		for _, pd := range pkgDirs {
			l.load(pd.dir)
		}
		for k, e32 := range l.entries {
			if e64, ok := all[k]; ok && e64.kind == e32.kind && e64.val != e32.val {
				widthDep[k] = e64.val
				e64.val = e32.val
				e64.src += " [width-dependent; 64-bit value " + strings.Trim(widthDep[k], "()") + "]"
				all[k] = e64
			}
		}
	}
	var es []iwEntry
	seen := map[string]bool{}
	for _, e := range all {
		// one entry per (position, kind, value); nested expressions starting at the
		// same position with the same value collapse
		k := fmt.Sprintf("%s:%d:%d:%s:%s", e.file, e.line, e.col, e.kind, e.val)
		if seen[k] {
			continue
		}
		seen[k] = true
		es = append(es, e)
	}
	sort.Slice(es, func(i, j int) bool {
		a, b := es[i], es[j]
		if a.file != b.file {
			return a.file < b.file
		}
		if a.line != b.line {
			return a.line < b.line
		}
		if a.col != b.col {
			return a.col < b.col
		}
		if a.kind != b.kind {
			return a.kind < b.kind
		}
		return a.val < b.val
	})
	if len(es) < 1000 {
		refuse("intwidth: only %d int/uint constant expressions found (expected thousands): loader broken?", len(es))
	}
	var b bytes.Buffer
	b.WriteString("(* GENERATED by tools/gosrc2v (intwidth.go) from /repo's current source. Do not edit.\n")
	b.WriteString("   Every constant expression whose final type is int / uint / uintptr in the files\n")
	b.WriteString("   `go build` selects for a 32-bit target: " + strings.Join(targets, ", ") + ".\n")
	b.WriteString("   Per file: (line, column, exact value).  The source text is shown as a comment for\n")
	b.WriteString("   values outside [-32768, 32767]. *)\n")
	b.WriteString("From Coq Require Import ZArith List String.\nImport ListNotations.\nOpen Scope Z_scope.\n\n")
	for _, kind := range []string{"int", "uint"} {
		fmt.Fprintf(&b, "Definition %s_constants : list (string * list (Z * Z * Z)) := [", kind)
		n := 0
		cur := ""
		col := 0
		for _, e := range es {
			if e.kind != kind {
				continue
			}
			if e.file != cur {
				if cur != "" {
					b.WriteString("]);")
				}
				fmt.Fprintf(&b, "\n (\"%s\"%%string, [\n  ", coqString(e.file))
				cur = e.file
				col = 0
			} else {
				b.WriteString(";")
				if col > 90 {
					b.WriteString("\n  ")
					col = 0
				}
			}
			n++
			item := fmt.Sprintf("(%d,%d,%s)", e.line, e.col, e.val)
			if len(e.val) > 5 || strings.Contains(e.src, "width-dependent") {
				item += " (* " + strings.NewReplacer("(*", "( *", "*)", "* )").Replace(coqString(e.src)) + " *)"
			}
			b.WriteString(item)
			col += len(item)
		}
		if cur != "" {
			b.WriteString("])")
		}
		b.WriteString("\n].\n\n")
		fmt.Fprintf(&b, "Definition %s_constants_count : Z := %d.\n\n", kind, n)
	}
	return "IntWidth.v", b.String()
}

// std32Importer serves the standard packages that define int-width-dependent
// constants (math.MaxInt/MinInt/MaxUint, bits.UintSize, strconv.IntSize)
// type-checked from $GOROOT/src with 32-bit sizes and the GOARCH=386 file
// selection; every other standard package comes from the normal importer (their
// constants do not depend on the width of int).
type std32Importer struct {
	pkgs map[string]*types.Package
}

var widthDependentStd = map[string]bool{"math": true, "math/bits": true, "strconv": true}

func (s *std32Importer) Import(path string) (*types.Package, error) {
	if !widthDependentStd[path] {
		return theImporter.std.Import(path)
	}
	if p, ok := s.pkgs[path]; ok {
		return p, nil
	}
	ctx := build.Default
	ctx.GOOS, ctx.GOARCH, ctx.CgoEnabled = "linux", "386", false
	bp, err := ctx.Import(path, "", 0)
	if err != nil {
		return nil, err
	}
	fset := token.NewFileSet()
	var files []*ast.File
	for _, n := range bp.GoFiles {
		f, err := parser.ParseFile(fset, filepath.Join(bp.Dir, n), nil, 0)
		if err != nil {
			return nil, err
		}
		files = append(files, f)
	}
	conf := types.Config{Importer: s, Sizes: types.SizesFor("gc", "386"), FakeImportC: true, Error: func(error) {}}
	pkg, _ := conf.Check(path, fset, files, nil)
	if pkg == nil {
		return nil, fmt.Errorf("intwidth: cannot type-check %s for 386", path)
	}
	s.pkgs[path] = pkg
	return pkg, nil
}
