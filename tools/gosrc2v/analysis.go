package main

// analysis.go — emits coq/Gen/Analysis.v for lossy computeAlphas
// (internal/lossy/encode_analysis.go): the per-macroblock loop body of the serial
// path (computeAlphasSerial) and of the worker goroutines (computeAlphas), each
// normalised by replacing the calls of the luma / uv analysis wrappers by LUMA(mbX, mbY)
// / UV(mbX, mbY) and the accumulator variable by ACC, and for each wrapper the kernel it
// calls with which leading arguments.  Properties/C12.v states that the two bodies are
// the same text and that the serial and worker wrappers call the same kernels on the
// same (enc, mbX, mbY) — so a change of the mixing formula, of the index arithmetic or of
// the kernel in only one of the two paths breaks a proof obligation.

import (
	"bytes"
	"fmt"
	"go/ast"
	"go/format"
	"go/parser"
	"go/token"
	"path/filepath"
	"strings"
)

func init() { extraGenerators = append(extraGenerators, genAnalysis) }

func concCoqString(s string) string { return "\"" + strings.ReplaceAll(s, "\"", "\"\"") + "\"" }

func genAnalysis() (string, string) {
	const rel = "internal/lossy/encode_analysis.go"
	fset := token.NewFileSet()
	file, err := parser.ParseFile(fset, filepath.Join(repo, rel), nil, 0) // private AST: it is rewritten below
	if err != nil {
		refuse("analysis: cannot parse %s: %v", rel, err)
		return "Analysis.v", "(* not generated *)\n"
	}
	funcs := map[string]*ast.FuncDecl{}
	for _, d := range file.Decls {
		if fd, ok := d.(*ast.FuncDecl); ok && fd.Body != nil && fd.Recv == nil {
			funcs[fd.Name.Name] = fd
		}
	}
	lumaW := map[string]bool{"computeMBAlphaDCT": true, "computeMBAlphaDCTWorker": true}
	uvW := map[string]bool{"computeMBUVAlphaDCT": true, "computeMBUVAlphaDCTWorker": true}
	acc := map[string]bool{"uvAlphaSum": true, "localUVSum": true}
	for _, n := range []string{"computeAlphas", "computeAlphasSerial", "computeMBAlphaDCT", "computeMBAlphaDCTWorker", "computeMBUVAlphaDCT", "computeMBUVAlphaDCTWorker"} {
		if funcs[n] == nil {
			refuse("analysis: function %s not found in %s", n, rel)
		}
	}
	if len(refused) > 0 {
		return "Analysis.v", "(* not generated *)\n"
	}

	// innermost `for mbX := ...` loop body below a node
	var findMBXLoop func(n ast.Node) *ast.BlockStmt
	findMBXLoop = func(n ast.Node) *ast.BlockStmt {
		var res *ast.BlockStmt
		ast.Inspect(n, func(x ast.Node) bool {
			if res != nil {
				return false
			}
			if fs, ok := x.(*ast.ForStmt); ok {
				if as, ok := fs.Init.(*ast.AssignStmt); ok && len(as.Lhs) == 1 {
					if id, ok := as.Lhs[0].(*ast.Ident); ok && id.Name == "mbX" {
						res = fs.Body
						return false
					}
				}
			}
			return true
		})
		return res
	}
	normalise := func(body *ast.BlockStmt) string {
		ast.Inspect(body, func(x ast.Node) bool {
			switch v := x.(type) {
			case *ast.CallExpr:
				if id, ok := v.Fun.(*ast.Ident); ok && (lumaW[id.Name] || uvW[id.Name]) {
					name := "LUMA"
					if uvW[id.Name] {
						name = "UV"
					}
					var args []ast.Expr
					for _, a := range v.Args {
						if ai, ok := a.(*ast.Ident); ok && (ai.Name == "mbX" || ai.Name == "mbY") {
							args = append(args, ast.NewIdent(ai.Name))
						}
					}
					v.Fun = ast.NewIdent(name)
					v.Args = args
				}
			case *ast.Ident:
				if acc[v.Name] {
					v.Name = "ACC"
				}
			}
			return true
		})
		var b bytes.Buffer
		for _, st := range body.List {
			var sb bytes.Buffer
			if err := format.Node(&sb, token.NewFileSet(), st); err != nil {
				refuse("analysis: cannot print a statement: %v", err)
			}
			b.WriteString(strings.TrimSpace(sb.String()))
			b.WriteString("\n")
		}
		return b.String()
	}
	serialBody := findMBXLoop(funcs["computeAlphasSerial"].Body)
	// the worker body is inside the go statement's function literal
	var workerBody *ast.BlockStmt
	ast.Inspect(funcs["computeAlphas"].Body, func(x ast.Node) bool {
		if gs, ok := x.(*ast.GoStmt); ok && workerBody == nil {
			if fl, ok := gs.Call.Fun.(*ast.FuncLit); ok {
				workerBody = findMBXLoop(fl.Body)
			}
			return false
		}
		return true
	})
	if serialBody == nil || workerBody == nil {
		refuse("analysis: per-macroblock loop (for mbX := ...) not found in computeAlphasSerial / the goroutine of computeAlphas")
		return "Analysis.v", "(* not generated *)\n"
	}
	// wrappers: single `return kernel(args...)`
	type wrap struct{ name, kernel, lead, scratchRoots string }
	var wraps []wrap
	for _, n := range []string{"computeMBAlphaDCT", "computeMBAlphaDCTWorker", "computeMBUVAlphaDCT", "computeMBUVAlphaDCTWorker"} {
		fd := funcs[n]
		ok := false
		if len(fd.Body.List) == 1 {
			if rs, isRet := fd.Body.List[0].(*ast.ReturnStmt); isRet && len(rs.Results) == 1 {
				if ce, isCall := rs.Results[0].(*ast.CallExpr); isCall {
					if k, isID := ce.Fun.(*ast.Ident); isID && len(ce.Args) >= 3 {
						var lead, roots []string
						for i, a := range ce.Args {
							var sb bytes.Buffer
							format.Node(&sb, token.NewFileSet(), a)
							if i < 3 {
								lead = append(lead, sb.String())
							} else {
								// root identifier of the scratch argument
								r := a
								for {
									switch t := r.(type) {
									case *ast.UnaryExpr:
										r = t.X
										continue
									case *ast.SliceExpr:
										r = t.X
										continue
									case *ast.SelectorExpr:
										r = t.X
										continue
									}
									break
								}
								if id, isID := r.(*ast.Ident); isID {
									roots = append(roots, id.Name)
								} else {
									roots = append(roots, "?")
								}
							}
						}
						wraps = append(wraps, wrap{n, k.Name, strings.Join(lead, ", "), strings.Join(roots, ",")})
						ok = true
					}
				}
			}
		}
		if !ok {
			refuse("analysis: %s is no longer a single `return kernel(enc, mbX, mbY, scratch...)`", n)
		}
	}
	var out bytes.Buffer
	out.WriteString("(* GENERATED by tools/gosrc2v (analysis.go) from /repo's current source. Do not edit. *)\nFrom Coq Require Import List String.\nImport ListNotations.\nOpen Scope string_scope.\n\n")
	fmt.Fprintf(&out, "(* per-macroblock loop body of computeAlphasSerial, normalised *)\nDefinition serial_body : string :=\n%s.\n\n", concCoqString(normalise(serialBody)))
	fmt.Fprintf(&out, "(* per-macroblock loop body of the worker goroutines of computeAlphas, normalised *)\nDefinition worker_body : string :=\n%s.\n\n", concCoqString(normalise(workerBody)))
	out.WriteString("(* wrapper, kernel it returns, leading arguments, root identifiers of the scratch arguments *)\nDefinition wrappers : list (string * string * string * string) :=\n  [")
	for i, w := range wraps {
		if i > 0 {
			out.WriteString(";\n   ")
		}
		fmt.Fprintf(&out, "(%s, %s, %s, %s)", concCoqString(w.name), concCoqString(w.kernel), concCoqString(w.lead), concCoqString(w.scratchRoots))
	}
	out.WriteString("].\n")
	return "Analysis.v", out.String()
}
