package main

// analysis.go — emits coq/Gen/Analysis.v for lossy computeAlphas
// (internal/lossy/encode_analysis.go): the per-macroblock loop body of the serial
// path (computeAlphasSerial) and of the worker goroutines (computeAlphas), each
// normalised by replacing the calls of the luma / uv analysis wrappers by LUMA(mbX, mbY)
// / UV(mbX, mbY) and the accumulator variable by ACC, and for each wrapper the kernel it
// calls with which leading arguments.  Properties/C12.v states that the two bodies are
// the same text and that the serial and worker wrappers call the same kernels on the
// same (enc, mbX, mbY) — so a change of the mixing formula, of the index arithmetic or of
// the kernel in only one of the two paths breaks a proof obligation.

import (
	"bytes"
	"fmt"
	"go/ast"
	"go/format"
	"go/parser"
	"go/token"
	"path/filepath"
	"strings"
)

func init() { extraGenerators = append(extraGenerators, genAnalysis) }

func concCoqString(s string) string { return "\"" + strings.ReplaceAll(s, "\"", "\"\"") + "\"" }

func genAnalysis() (string, string) {
	const rel = "internal/lossy/encode_analysis.go"
	fset := token.NewFileSet()
	file, err := parser.ParseFile(fset, filepath.Join(repo, rel), nil, 0) // private AST: it is rewritten below
	if err != nil {
		refuse("analysis: cannot parse %s: %v", rel, err)
		return "Analysis.v", "(* not generated *)\n"
	}
	funcs := map[string]*ast.FuncDecl{}
	for _, d := range file.Decls {
		if fd, ok := d.(*ast.FuncDecl); ok && fd.Body != nil && fd.Recv == nil {
			funcs[fd.Name.Name] = fd
		}
	}
	lumaW := map[string]bool{"computeMBAlphaDCT": true, "computeMBAlphaDCTWorker": true}
	uvW := map[string]bool{"computeMBUVAlphaDCT": true, "computeMBUVAlphaDCTWorker": true}
	acc := map[string]bool{"uvAlphaSum": true, "localUVSum": true}
	refusedBefore := len(refused) // other passes' refusals do not concern this one
	for _, n := range []string{"computeAlphas", "computeAlphasSerial", "computeMBAlphaDCT", "computeMBAlphaDCTWorker", "computeMBUVAlphaDCT", "computeMBUVAlphaDCTWorker"} {
		if funcs[n] == nil {
			refuse("analysis: function %s not found in %s", n, rel)
		}
	}
	if len(refused) > refusedBefore {
		return "Analysis.v", "(* not generated *)\n"
	}

	// innermost `for mbX := ...` loop body below a node
	var findMBXLoop func(n ast.Node) *ast.BlockStmt
	findMBXLoop = func(n ast.Node) *ast.BlockStmt {
		var res *ast.BlockStmt
		ast.Inspect(n, func(x ast.Node) bool {
			if res != nil {
				return false
			}
			if fs, ok := x.(*ast.ForStmt); ok {
				if as, ok := fs.Init.(*ast.AssignStmt); ok && len(as.Lhs) == 1 {
					if id, ok := as.Lhs[0].(*ast.Ident); ok && id.Name == "mbX" {
						res = fs.Body
						return false
					}
				}
			}
			return true
		})
		return res
	}
	normalise := func(body *ast.BlockStmt) string {
		ast.Inspect(body, func(x ast.Node) bool {
			switch v := x.(type) {
			case *ast.CallExpr:
				if id, ok := v.Fun.(*ast.Ident); ok && (lumaW[id.Name] || uvW[id.Name]) {
					name := "LUMA"
					if uvW[id.Name] {
						name = "UV"
					}
					var args []ast.Expr
					for _, a := range v.Args {
						if ai, ok := a.(*ast.Ident); ok && (ai.Name == "mbX" || ai.Name == "mbY") {
							args = append(args, ast.NewIdent(ai.Name))
						}
					}
					v.Fun = ast.NewIdent(name)
					v.Args = args
				}
			case *ast.Ident:
				if acc[v.Name] {
					v.Name = "ACC"
				}
			}
			return true
		})
		// names declared inside the body (x := ...) are renamed L0, L1, ... in order of
		// declaration: the two loops may call their locals differently
		locals := map[string]string{}
		sels := map[*ast.Ident]bool{}
		ast.Inspect(body, func(x ast.Node) bool {
			switch v := x.(type) {
			case *ast.SelectorExpr:
				sels[v.Sel] = true
			case *ast.AssignStmt:
				if v.Tok == token.DEFINE {
					for _, l := range v.Lhs {
						if id, ok := l.(*ast.Ident); ok && id.Name != "_" && locals[id.Name] == "" {
							locals[id.Name] = fmt.Sprintf("L%d", len(locals))
						}
					}
				}
			}
			return true
		})
		ast.Inspect(body, func(x ast.Node) bool {
			if id, ok := x.(*ast.Ident); ok && !sels[id] && locals[id.Name] != "" {
				id.Name = locals[id.Name]
			}
			return true
		})
		var b bytes.Buffer
		for _, st := range body.List {
			if isHookStmt(st) {
				continue
			}
			var sb bytes.Buffer
			if err := format.Node(&sb, token.NewFileSet(), st); err != nil {
				refuse("analysis: cannot print a statement: %v", err)
			}
			b.WriteString(strings.TrimSpace(sb.String()))
			b.WriteString("\n")
		}
		return b.String()
	}
	serialBody := findMBXLoop(funcs["computeAlphasSerial"].Body)
	// the worker body is inside the go statement's function literal
	var workerBody *ast.BlockStmt
	ast.Inspect(funcs["computeAlphas"].Body, func(x ast.Node) bool {
		if gs, ok := x.(*ast.GoStmt); ok && workerBody == nil {
			if fl, ok := gs.Call.Fun.(*ast.FuncLit); ok {
				workerBody = findMBXLoop(fl.Body)
			}
			return false
		}
		return true
	})
	if serialBody == nil || workerBody == nil {
		refuse("analysis: per-macroblock loop (for mbX := ...) not found in computeAlphasSerial / the goroutine of computeAlphas")
		return "Analysis.v", "(* not generated *)\n"
	}
	// wrappers: single `return kernel(args...)`
	type wrap struct{ name, kernel, lead, scratchRoots, role, class string }
	var wraps []wrap
	for _, n := range []string{"computeMBAlphaDCT", "computeMBAlphaDCTWorker", "computeMBUVAlphaDCT", "computeMBUVAlphaDCTWorker"} {
		fd := funcs[n]
		ok := false
		if len(fd.Body.List) == 1 {
			if rs, isRet := fd.Body.List[0].(*ast.ReturnStmt); isRet && len(rs.Results) == 1 {
				if ce, isCall := rs.Results[0].(*ast.CallExpr); isCall {
					if k, isID := ce.Fun.(*ast.Ident); isID && len(ce.Args) >= 3 {
						var lead, roots []string
						for i, a := range ce.Args {
							var sb bytes.Buffer
							format.Node(&sb, token.NewFileSet(), a)
							if i < 3 {
								lead = append(lead, sb.String())
							} else {
								// root identifier of the scratch argument
								r := a
								for {
									switch t := r.(type) {
									case *ast.UnaryExpr:
										r = t.X
										continue
									case *ast.SliceExpr:
										r = t.X
										continue
									case *ast.SelectorExpr:
										r = t.X
										continue
									}
									break
								}
								if id, isID := r.(*ast.Ident); isID {
									roots = append(roots, id.Name)
								} else {
									roots = append(roots, "?")
								}
							}
						}
						// role and scratch class: a worker wrapper must take every scratch
						// argument from a parameter other than the shared encoder (its first one)
						role, class := "serial", "n/a"
						if strings.HasSuffix(n, "Worker") {
							role, class = "worker", "own-only"
							shared := ""
							if fd.Type.Params != nil && len(fd.Type.Params.List) > 0 && len(fd.Type.Params.List[0].Names) > 0 {
								shared = fd.Type.Params.List[0].Names[0].Name
							}
							for _, r := range roots {
								if r == shared || r == "?" {
									class = "uses-shared"
								}
							}
						}
						wraps = append(wraps, wrap{n, k.Name, strings.Join(lead, ", "), strings.Join(roots, ","), role, class})
						ok = true
					}
				}
			}
		}
		if !ok {
			refuse("analysis: %s is no longer a single `return kernel(enc, mbX, mbY, scratch...)`", n)
		}
	}
	// ---- first access of every scratch parameter of the two kernels: "write" when the first
	// statement (in program order, descending into loops / branches / package-local callees)
	// that touches the parameter only stores into it; "read" otherwise.
	knownWriters := map[string]int{"FTransformDirect": 2} // dsp functions: index of the output argument
	var firstAccess func(fd *ast.FuncDecl, param string, depth int) string
	rootOf := func(e ast.Expr) string {
		for {
			switch t := e.(type) {
			case *ast.IndexExpr:
				e = t.X
				continue
			case *ast.SliceExpr:
				e = t.X
				continue
			case *ast.UnaryExpr:
				e = t.X
				continue
			case *ast.StarExpr:
				e = t.X
				continue
			case *ast.ParenExpr:
				e = t.X
				continue
			case *ast.Ident:
				return t.Name
			}
			return ""
		}
	}
	mentions := func(n ast.Node, param string) bool {
		found := false
		ast.Inspect(n, func(x ast.Node) bool {
			if id, ok := x.(*ast.Ident); ok && id.Name == param {
				found = true
			}
			return !found
		})
		return found
	}
	var stmtAccess func(st ast.Stmt, param string, depth int) string // "", "write", "read"
	stmtAccess = func(st ast.Stmt, param string, depth int) string {
		if st == nil || !mentions(st, param) {
			return ""
		}
		switch v := st.(type) {
		case *ast.BlockStmt:
			for _, s2 := range v.List {
				if a := stmtAccess(s2, param, depth); a != "" {
					return a
				}
			}
			return ""
		case *ast.ForStmt:
			if (v.Init != nil && mentions(v.Init, param)) || (v.Cond != nil && mentions(v.Cond, param)) {
				return "read"
			}
			return stmtAccess(v.Body, param, depth)
		case *ast.RangeStmt:
			if mentions(v.X, param) {
				return "read"
			}
			return stmtAccess(v.Body, param, depth)
		case *ast.IfStmt:
			if mentions(v.Cond, param) {
				return "read"
			}
			if a := stmtAccess(v.Body, param, depth); a != "" {
				return a
			}
			if v.Else != nil {
				return stmtAccess(v.Else, param, depth)
			}
			return ""
		case *ast.SwitchStmt:
			if (v.Init != nil && mentions(v.Init, param)) || (v.Tag != nil && mentions(v.Tag, param)) {
				return "read"
			}
			// alternatives: a write only if every clause that touches the parameter starts with a write
			res := ""
			for _, cl := range v.Body.List {
				cc, ok := cl.(*ast.CaseClause)
				if !ok {
					return "read"
				}
				for _, e := range cc.List {
					if mentions(e, param) {
						return "read"
					}
				}
				for _, s2 := range cc.Body {
					if a := stmtAccess(s2, param, depth); a != "" {
						if a == "read" {
							return "read"
						}
						res = "write"
						break
					}
				}
			}
			return res
		case *ast.AssignStmt:
			for _, r := range v.Rhs {
				if ce, ok := r.(*ast.CallExpr); ok {
					if a := callAccess(ce, param, depth, funcs, knownWriters, &firstAccess, rootOf, mentions); a != "" {
						return a
					}
					continue
				}
				if mentions(r, param) {
					return "read"
				}
			}
			for _, l := range v.Lhs {
				if rootOf(l) == param {
					if ie, ok := l.(*ast.IndexExpr); ok && mentions(ie.Index, param) {
						return "read"
					}
					if v.Tok != token.ASSIGN && v.Tok != token.DEFINE {
						return "read" // op-assignment reads the old value
					}
					return "write"
				}
				if mentions(l, param) {
					return "read"
				}
			}
			return ""
		case *ast.ExprStmt:
			if ce, ok := v.X.(*ast.CallExpr); ok {
				return callAccess(ce, param, depth, funcs, knownWriters, &firstAccess, rootOf, mentions)
			}
			return "read"
		}
		return "read"
	}
	firstAccess = func(fd *ast.FuncDecl, param string, depth int) string {
		if depth > 4 {
			return "read"
		}
		for _, st := range fd.Body.List {
			if a := stmtAccess(st, param, depth); a != "" {
				return a
			}
		}
		return "unused"
	}
	type fa struct{ kernel, param, access string }
	var fas []fa
	for _, k := range []struct {
		name   string
		params []string
	}{{"computeMBAlphaDCTWith", []string{"src", "pred", "tmpCoeffs"}}, {"computeMBUVAlphaDCTWith", []string{"srcU", "srcV", "predU", "predV", "tmpCoeffs"}}} {
		fd := funcs[k.name]
		if fd == nil {
			refuse("analysis: kernel %s not found", k.name)
			continue
		}
		for _, prm := range k.params {
			fas = append(fas, fa{k.name, prm, firstAccess(fd, prm, 0)})
		}
	}

	var out bytes.Buffer
	out.WriteString("(* GENERATED by tools/gosrc2v (analysis.go) from /repo's current source. Do not edit. *)\nFrom Coq Require Import List String.\nImport ListNotations.\nOpen Scope string_scope.\n\n")
	fmt.Fprintf(&out, "(* per-macroblock loop body of computeAlphasSerial, normalised *)\nDefinition serial_body : string :=\n%s.\n\n", concCoqString(normalise(serialBody)))
	fmt.Fprintf(&out, "(* per-macroblock loop body of the worker goroutines of computeAlphas, normalised *)\nDefinition worker_body : string :=\n%s.\n\n", concCoqString(normalise(workerBody)))
	out.WriteString("(* role, wrapper, kernel it returns, leading arguments, whether a worker's scratch arguments all come from its own (non-encoder) parameter; roots of the scratch arguments in the comment *)\nDefinition wrappers : list (string * string * string * string * string) :=\n  [")
	for i, w := range wraps {
		if i > 0 {
			out.WriteString(";\n   ")
		}
		fmt.Fprintf(&out, "(%s, %s, %s, %s, %s) (* %s *)", concCoqString(w.role), concCoqString(w.name), concCoqString(w.kernel), concCoqString(w.lead), concCoqString(w.class), w.scratchRoots)
	}
	out.WriteString("].\n\n(* kernel, scratch parameter, kind of the first access in program order *)\nDefinition kernel_scratch_first_access : list (string * string * string) :=\n  [")
	for i, a := range fas {
		if i > 0 {
			out.WriteString(";\n   ")
		}
		fmt.Fprintf(&out, "(%s, %s, %s)", concCoqString(a.kernel), concCoqString(a.param), concCoqString(a.access))
	}
	out.WriteString("].\n")
	return "Analysis.v", out.String()
}

// callAccess classifies how a call touches param: through a known output argument of a dsp
// function, or through the corresponding parameter of a package-local callee (recursively).
func callAccess(ce *ast.CallExpr, param string, depth int, funcs map[string]*ast.FuncDecl, knownWriters map[string]int,
	firstAccess *func(fd *ast.FuncDecl, param string, depth int) string,
	rootOf func(ast.Expr) string, mentions func(ast.Node, string) bool) string {
	name := ""
	switch f := ce.Fun.(type) {
	case *ast.Ident:
		name = f.Name
	case *ast.SelectorExpr:
		name = f.Sel.Name
	}
	res := ""
	for i, a := range ce.Args {
		if !mentions(a, param) {
			continue
		}
		this := "read"
		if rootOf(a) == param {
			if w, ok := knownWriters[name]; ok && w == i {
				this = "write"
			} else if fd := funcs[name]; fd != nil {
				// name of the callee's i-th parameter
				k := 0
				for _, fl := range fd.Type.Params.List {
					for _, n := range fl.Names {
						if k == i {
							this = (*firstAccess)(fd, n.Name, depth+1)
							if this == "unused" {
								this = ""
							}
						}
						k++
					}
				}
			}
		}
		if this == "read" {
			return "read"
		}
		if this == "write" {
			res = "write"
		}
	}
	return res
}
