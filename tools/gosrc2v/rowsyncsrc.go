package main

// rowsyncsrc.go — emits coq/Gen/RowSyncSrc.v: the SEQUENCE OF SYNCHRONISATION OPERATIONS of
// rowSync.waitFor and rowSync.signal (internal/lossy/encode_parallel.go) — operations on
// the row's done / waiters / mu / cond fields, with the block structure around them — and
// the order of the waitFor / signal calls in encodeRow's macroblock loop.  Identifiers of
// local variables, hook lines and every statement that performs no such operation are
// abstracted away, so renaming, logging or extracting a local does not change the output.
// Properties/C10.v states that the sequences are those the L2 model has one transition for
// (ConcWaitSignal.v), so that e.g. dropping the Lock/Unlock pair before Broadcast or moving
// the waiters increment after the check breaks a proof obligation.

import (
	"bytes"
	"fmt"
	"go/ast"
	"go/parser"
	"go/token"
	"path/filepath"
	"strings"
)

func init() { extraGenerators = append(extraGenerators, genRowSyncSrc) }

func isHookStmt(st ast.Stmt) bool {
	es, ok := st.(*ast.ExprStmt)
	if !ok {
		return false
	}
	ce, ok := es.X.(*ast.CallExpr)
	if !ok {
		return false
	}
	sel, ok := ce.Fun.(*ast.SelectorExpr)
	if !ok {
		return false
	}
	id, ok := sel.X.(*ast.Ident)
	return ok && id.Name == "verifhook"
}

// stripHooks removes verifhook statements from every block below n (on a private AST).
func stripHooks(n ast.Node) {
	ast.Inspect(n, func(x ast.Node) bool {
		if b, ok := x.(*ast.BlockStmt); ok {
			var keep []ast.Stmt
			for _, st := range b.List {
				if !isHookStmt(st) {
					keep = append(keep, st)
				}
			}
			b.List = keep
		}
		return true
	})
}

func genRowSyncSrc() (string, string) {
	const rel = "internal/lossy/encode_parallel.go"
	file, err := parser.ParseFile(token.NewFileSet(), filepath.Join(repo, rel), nil, 0)
	if err != nil {
		refuse("rowsyncsrc: cannot parse %s: %v", rel, err)
		return "RowSyncSrc.v", "(* not generated *)\n"
	}
	find := func(name string) *ast.FuncDecl {
		for _, d := range file.Decls {
			if fd, ok := d.(*ast.FuncDecl); ok && fd.Name.Name == name && fd.Body != nil {
				return fd
			}
		}
		refuse("rowsyncsrc: function %s not found in %s", name, rel)
		return nil
	}
	waitFor, signal, encRow, encFrame := find("waitFor"), find("signal"), find("encodeRow"), find("encodeFrameParallel")
	if waitFor == nil || signal == nil || encRow == nil || encFrame == nil {
		return "RowSyncSrc.v", "(* not generated *)\n"
	}
	for _, fd := range []*ast.FuncDecl{waitFor, signal, encRow, encFrame} {
		stripHooks(fd.Body)
	}
	// the sequence of synchronisation operations of a body, in program order: operations on
	// the row's done / waiters / mu / cond (whatever the receiver variable is called), the
	// comparison operator of a condition that contains one, the block structure around them,
	// and returns inside such blocks.  Every other statement is a no-op for the abstraction.
	var ops func(n ast.Node) []string
	opOf := func(ce *ast.CallExpr) string {
		sel, ok := ce.Fun.(*ast.SelectorExpr)
		if !ok {
			return ""
		}
		inner, ok := sel.X.(*ast.SelectorExpr)
		if !ok {
			return ""
		}
		switch inner.Sel.Name {
		case "done", "waiters", "mu", "cond":
		default:
			return ""
		}
		t := inner.Sel.Name + "." + sel.Sel.Name
		if sel.Sel.Name == "Add" && len(ce.Args) == 1 {
			t += "(" + uvPrint(ce.Args[0]) + ")"
		}
		return t
	}
	exprOps := func(e ast.Expr) []string {
		var l []string
		if e == nil {
			return l
		}
		ast.Inspect(e, func(x ast.Node) bool {
			if ce, ok := x.(*ast.CallExpr); ok {
				if t := opOf(ce); t != "" {
					l = append(l, t)
				}
			}
			return true
		})
		if len(l) > 0 {
			if be, ok := e.(*ast.BinaryExpr); ok {
				l = append(l, be.Op.String())
			}
		}
		return l
	}
	ops = func(n ast.Node) []string {
		var l []string
		switch v := n.(type) {
		case *ast.BlockStmt:
			for _, st := range v.List {
				l = append(l, ops(st)...)
			}
		case *ast.IfStmt:
			c, b := exprOps(v.Cond), ops(v.Body)
			var e []string
			if v.Else != nil {
				e = ops(v.Else)
			}
			if len(c)+len(b)+len(e) > 0 {
				l = append(l, "if[")
				l = append(l, c...)
				l = append(l, "]{")
				l = append(l, b...)
				if len(e) > 0 {
					l = append(l, "}else{")
					l = append(l, e...)
				}
				l = append(l, "}")
			}
		case *ast.ForStmt:
			c, b := exprOps(v.Cond), ops(v.Body)
			if len(c)+len(b) > 0 {
				l = append(l, "for[")
				l = append(l, c...)
				l = append(l, "]{")
				l = append(l, b...)
				l = append(l, "}")
			}
		case *ast.ReturnStmt:
			l = append(l, "return")
		case *ast.ExprStmt:
			l = append(l, exprOps(v.X)...)
		case *ast.AssignStmt:
			for _, r := range v.Rhs {
				l = append(l, exprOps(r)...)
			}
		case *ast.DeferStmt:
			if t := opOf(v.Call); t != "" {
				l = append(l, "defer "+t)
			}
		}
		return l
	}
	// a trailing bare return carries no information
	trim := func(l []string) []string {
		var out []string
		for i, t := range l {
			if t == "return" && (i == 0 || (l[i-1] != "]{" && l[i-1] != "}else{")) {
				continue // return outside a synchronisation block
			}
			out = append(out, t)
		}
		return out
	}
	// encodeRow: the calls to waitFor / signal made in the macroblock loop, in order
	var calls []string
	ast.Inspect(encRow.Body, func(x ast.Node) bool {
		fs, ok := x.(*ast.ForStmt)
		if !ok {
			return true
		}
		as, ok := fs.Init.(*ast.AssignStmt)
		if !ok || len(as.Lhs) != 1 || uvPrint(as.Lhs[0]) != "x" {
			return true
		}
		ast.Inspect(fs.Body, func(y ast.Node) bool {
			if ce, ok := y.(*ast.CallExpr); ok {
				if f, ok := ce.Fun.(*ast.SelectorExpr); ok && (f.Sel.Name == "waitFor" || f.Sel.Name == "signal") {
					calls = append(calls, f.Sel.Name)
				}
			}
			return true
		})
		return false
	})
	_ = encFrame
	var out bytes.Buffer
	out.WriteString("(* GENERATED by tools/gosrc2v (rowsyncsrc.go) from /repo's current source. Do not edit. *)\nFrom Coq Require Import List String.\nImport ListNotations.\n\n")
	emit := func(name string, l []string) {
		fmt.Fprintf(&out, "Definition %s : list string :=\n  [", name)
		for i, s := range l {
			if i > 0 {
				out.WriteString(";\n   ")
			}
			out.WriteString(concCoqString(s))
		}
		out.WriteString("]%string.\n\n")
	}
	emit("waitFor_ops", trim(ops(waitFor.Body)))
	emit("signal_ops", trim(ops(signal.Body)))
	emit("encodeRow_sync_calls", calls)
	_ = strings.TrimSpace
	return "RowSyncSrc.v", out.String()
}
