// Command gosrc2v is /verif's translator: it re-reads deepteams/webp's Go source
// on every run and emits Coq definitions (coq/Gen/*.v) for the data and structure
// the models and proof obligations depend on:
//
//	Consts.v  every package-level integer constant and every FourCC-style var of
//	          the listed packages:            Definition <pkg>_<Name> : Z := v.
//	Tables.v  every package-level array/slice var whose initialiser is a
//	          composite literal of integer constants (nested up to 4 levels):
//	                                          Definition <pkg>_<Name> : list (list Z) := ...
//	Fields.v  (fields.go)  struct field lists and reset-assignment lists
//	Sites.v   (sites.go)   GOMAXPROCS / go-statement / sync.Pool sites
//	Funcs.v   (funcs.go)   shape-checked straight-line functions (option bounds)
//
// It refuses (exit 1) when a construct it expects has changed shape.  Files are
// rewritten only when their content changes so that make stays incremental.
package main

import (
	"bytes"
	"flag"
	"fmt"
	"go/ast"
	"go/build"
	"go/constant"
	"go/importer"
	"go/parser"
	"go/token"
	"go/types"
	"os"
	"path/filepath"
	"sort"
	"strings"
)

type pkgInfo struct {
	alias string
	dir   string
	fset  *token.FileSet
	files []*ast.File
	info  *types.Info
	pkg   *types.Package
}

var pkgDirs = []struct{ alias, dir string }{
	{"root", "."},
	{"container", "internal/container"},
	{"mux", "mux"},
	{"animation", "animation"},
	{"lossless", "internal/lossless"},
	{"lossy", "internal/lossy"},
	{"dsp", "internal/dsp"},
	{"bitio", "internal/bitio"},
	{"pool", "internal/pool"},
	{"sharpyuv", "sharpyuv"},
	{"verifhook", "internal/verifhook"},
}

var (
	repo    string
	outDir  string
	refused []string
	loaded  = map[string]*pkgInfo{}
)

func refuse(format string, a ...any) {
	refused = append(refused, fmt.Sprintf(format, a...))
}

type srcImporter struct {
	std types.Importer
}

func (s srcImporter) Import(path string) (*types.Package, error) {
	const mod = "github.com/deepteams/webp"
	if path == mod || strings.HasPrefix(path, mod+"/") {
		rel := strings.TrimPrefix(strings.TrimPrefix(path, mod), "/")
		if rel == "" {
			rel = "."
		}
		for _, pd := range pkgDirs {
			if pd.dir == rel {
				p, err := load(pd.alias, pd.dir)
				if err != nil {
					return nil, err
				}
				return p.pkg, nil
			}
		}
		return nil, fmt.Errorf("unknown module package %s", path)
	}
	return s.std.Import(path)
}

var theImporter srcImporter

func load(alias, dir string) (*pkgInfo, error) {
	if p, ok := loaded[alias]; ok {
		return p, nil
	}
	full := filepath.Join(repo, dir)
	ents, err := os.ReadDir(full)
	if err != nil {
		return nil, err
	}
	fset := token.NewFileSet()
	ctx := build.Default
	ctx.GOARCH = "amd64"
	ctx.GOOS = "linux"
	ctx.CgoEnabled = false
	var files []*ast.File
	for _, e := range ents {
		n := e.Name()
		if e.IsDir() || !strings.HasSuffix(n, ".go") || strings.HasSuffix(n, "_test.go") {
			continue
		}
		ok, err := ctx.MatchFile(full, n)
		if err != nil || !ok {
			continue
		}
		f, err := parser.ParseFile(fset, filepath.Join(full, n), nil, parser.ParseComments)
		if err != nil {
			return nil, err
		}
		files = append(files, f)
	}
	info := &types.Info{
		Types: map[ast.Expr]types.TypeAndValue{},
		Defs:  map[*ast.Ident]types.Object{},
		Uses:  map[*ast.Ident]types.Object{},
	}
	conf := types.Config{Importer: theImporter, Error: func(err error) {}, FakeImportC: true}
	path := "github.com/deepteams/webp"
	if dir != "." {
		path += "/" + dir
	}
	pkg, _ := conf.Check(path, fset, files, info)
	p := &pkgInfo{alias: alias, dir: dir, fset: fset, files: files, info: info, pkg: pkg}
	loaded[alias] = p
	return p, nil
}

func coqName(alias, name string) string {
	return alias + "_" + strings.ReplaceAll(name, "'", "_")
}

func zlit(v constant.Value) (string, bool) {
	if v == nil {
		return "", false
	}
	if v.Kind() == constant.Float {
		// integer-valued float constants (e.g. 1e3) only
		if iv := constant.ToInt(v); iv.Kind() == constant.Int {
			v = iv
		} else {
			return "", false
		}
	}
	if v.Kind() != constant.Int {
		return "", false
	}
	s := v.ExactString()
	if strings.HasPrefix(s, "-") {
		return "(" + s + ")", true
	}
	return s, true
}

// evalInt evaluates an expression that the type checker folded to a constant,
// or a FourCC(a,b,c,d) call / conversion of such.
func evalInt(p *pkgInfo, e ast.Expr) (string, bool) {
	if tv, ok := p.info.Types[e]; ok && tv.Value != nil {
		return zlit(tv.Value)
	}
	switch x := e.(type) {
	case *ast.ParenExpr:
		return evalInt(p, x.X)
	case *ast.CallExpr:
		name := ""
		switch f := x.Fun.(type) {
		case *ast.Ident:
			name = f.Name
		case *ast.SelectorExpr:
			name = f.Sel.Name
		}
		if name == "FourCC" && len(x.Args) == 4 {
			var v int64
			for i, a := range x.Args {
				tv, ok := p.info.Types[a]
				if !ok || tv.Value == nil {
					return "", false
				}
				iv, ok := constant.Int64Val(constant.ToInt(tv.Value))
				if !ok {
					return "", false
				}
				v |= (iv & 255) << (8 * uint(i))
			}
			return fmt.Sprint(v), true
		}
	case *ast.SelectorExpr:
		// alias of another package's var (mux.FourCCRIFF = container.FourCCRIFF)
		if id, ok := x.X.(*ast.Ident); ok {
			for _, pd := range pkgDirs {
				if pd.alias == id.Name || filepath.Base(pd.dir) == id.Name {
					q, err := load(pd.alias, pd.dir)
					if err == nil {
						if s, ok := lookupVarInt(q, x.Sel.Name); ok {
							return s, true
						}
					}
				}
			}
		}
	}
	return "", false
}

func lookupVarInt(p *pkgInfo, name string) (string, bool) {
	for _, f := range p.files {
		for _, d := range f.Decls {
			gd, ok := d.(*ast.GenDecl)
			if !ok || gd.Tok != token.VAR {
				continue
			}
			for _, s := range gd.Specs {
				vs := s.(*ast.ValueSpec)
				for i, n := range vs.Names {
					if n.Name == name && i < len(vs.Values) {
						return evalInt(p, vs.Values[i])
					}
				}
			}
		}
	}
	return "", false
}

// evalTable renders a composite literal of integers as a Coq list; depth
// returns the nesting depth (1 = list Z).
func evalTable(p *pkgInfo, e ast.Expr) (string, int, bool) {
	cl, ok := e.(*ast.CompositeLit)
	if !ok {
		if s, ok := evalInt(p, e); ok {
			return s, 0, true
		}
		return "", 0, false
	}
	// struct literals are not tables
	if tv, ok := p.info.Types[e]; ok {
		switch tv.Type.Underlying().(type) {
		case *types.Array, *types.Slice:
		default:
			return "", 0, false
		}
	}
	// keyed elements (index: value) are expanded
	type el struct {
		idx int
		s   string
	}
	var els []el
	depth := -1
	next := 0
	for _, x := range cl.Elts {
		val := x
		if kv, ok := x.(*ast.KeyValueExpr); ok {
			tv, ok := p.info.Types[kv.Key]
			if !ok || tv.Value == nil {
				return "", 0, false
			}
			k, _ := constant.Int64Val(constant.ToInt(tv.Value))
			next = int(k)
			val = kv.Value
		}
		s, d, ok := evalTable(p, val)
		if !ok {
			return "", 0, false
		}
		if depth == -1 {
			depth = d
		} else if depth != d {
			return "", 0, false
		}
		els = append(els, el{next, s})
		next++
	}
	if depth == -1 {
		depth = 0
	}
	n := 0
	for _, e := range els {
		if e.idx+1 > n {
			n = e.idx + 1
		}
	}
	if tv, ok := p.info.Types[e]; ok {
		if at, ok := tv.Type.Underlying().(*types.Array); ok && int(at.Len()) > n {
			n = int(at.Len())
		}
	}
	out := make([]string, n)
	zero := "0"
	if depth > 0 {
		zero = "[]"
	}
	for i := range out {
		out[i] = zero
	}
	for _, e := range els {
		out[e.idx] = e.s
	}
	return "[" + strings.Join(out, "; ") + "]", depth + 1, true
}

func listType(depth int) string {
	t := "Z"
	for i := 0; i < depth; i++ {
		t = "(list " + t + ")"
	}
	return strings.TrimSuffix(strings.TrimPrefix(t, "("), ")")
}

func genConstsTables() (string, string) {
	var cb, tb bytes.Buffer
	hdr := "(* GENERATED by tools/gosrc2v from /repo's current source. Do not edit. *)\nFrom Coq Require Import ZArith List.\nImport ListNotations.\nOpen Scope Z_scope.\n\n"
	cb.WriteString(hdr)
	tb.WriteString(hdr)
	for _, pd := range pkgDirs {
		p, err := load(pd.alias, pd.dir)
		if err != nil {
			refuse("cannot load %s: %v", pd.dir, err)
			continue
		}
		type def struct{ name, body string }
		var consts, tables []def
		for _, f := range p.files {
			for _, d := range f.Decls {
				gd, ok := d.(*ast.GenDecl)
				if !ok {
					continue
				}
				for _, s := range gd.Specs {
					vs, ok := s.(*ast.ValueSpec)
					if !ok {
						continue
					}
					for i, n := range vs.Names {
						if n.Name == "_" {
							continue
						}
						if gd.Tok == token.CONST {
							obj, _ := p.info.Defs[n].(*types.Const)
							if obj == nil {
								continue
							}
							if s, ok := zlit(obj.Val()); ok {
								consts = append(consts, def{n.Name, s})
							}
						} else if gd.Tok == token.VAR && i < len(vs.Values) {
							if s, d, ok := evalTable(p, vs.Values[i]); ok {
								if d == 0 {
									consts = append(consts, def{n.Name, s})
								} else if d <= 4 {
									tables = append(tables, def{n.Name, fmt.Sprintf("%s := %s", listType(d), s)})
								}
							}
						}
					}
				}
			}
		}
		sort.Slice(consts, func(i, j int) bool { return consts[i].name < consts[j].name })
		sort.Slice(tables, func(i, j int) bool { return tables[i].name < tables[j].name })
		fmt.Fprintf(&cb, "(* package %s *)\n", pd.dir)
		for _, c := range consts {
			fmt.Fprintf(&cb, "Definition %s : Z := %s.\n", coqName(pd.alias, c.name), c.body)
		}
		cb.WriteString("\n")
		fmt.Fprintf(&tb, "(* package %s *)\n", pd.dir)
		for _, t := range tables {
			fmt.Fprintf(&tb, "Definition %s : %s.\n", coqName(pd.alias, t.name), wrap(t.body))
		}
		tb.WriteString("\n")
	}
	return cb.String(), tb.String()
}

// wrap breaks very long lines (Coq's lexer is fine with them, humans are not).
func wrap(s string) string {
	if len(s) < 100 {
		return s
	}
	var b strings.Builder
	col := 0
	for _, r := range s {
		b.WriteRune(r)
		col++
		if r == ';' && col > 90 {
			b.WriteString("\n  ")
			col = 2
		}
	}
	return b.String()
}

func writeIfChanged(name, content string) {
	p := filepath.Join(outDir, name)
	old, err := os.ReadFile(p)
	if err == nil && string(old) == content {
		return
	}
	if err := os.WriteFile(p, []byte(content), 0o644); err != nil {
		fmt.Fprintln(os.Stderr, err)
		os.Exit(2)
	}
}

func main() {
	flag.StringVar(&repo, "repo", "/repo", "path of deepteams/webp")
	flag.StringVar(&outDir, "out", "", "output directory (coq/Gen)")
	flag.Parse()
	if outDir == "" {
		fmt.Fprintln(os.Stderr, "need -out")
		os.Exit(2)
	}
	os.MkdirAll(outDir, 0o755)
	theImporter = srcImporter{std: importer.ForCompiler(token.NewFileSet(), "source", nil)}
	c, t := genConstsTables()
	writeIfChanged("Consts.v", c)
	writeIfChanged("Tables.v", t)
	for _, g := range extraGenerators {
		name, content := g()
		writeIfChanged(name, content)
	}
	if len(refused) > 0 {
		for _, r := range refused {
			fmt.Println("REFUSED:", r)
		}
		os.Exit(1)
	}
	fmt.Printf("gosrc2v: ok (%d packages)\n", len(loaded))
}

// extraGenerators are registered by the other files of this package.
var extraGenerators []func() (string, string)
