package main

// C17 — decoding a truncated file is all-or-nothing.
//
// Fault enumeration: for every valid still file of a generated set and EVERY prefix
// length 0..len-1, webp.Decode / DecodeConfig / GetFeatures on the prefix must fail or
// return exactly what they return on the complete file (pixels, image type, bounds,
// config, features).  This is the direct evaluation of the property on the real code and
// it covers the codec layers (bit readers' end-of-stream handling), which the Coq model
// treats as a parameter.  The same prefixes go through the extracted container-parser
// model (correspondence of internal/container.Parser with Riff/ParserModel.v).

import (
	"encoding/binary"
	"fmt"
	"image"
	"strings"

	webp "github.com/deepteams/webp"
	"github.com/deepteams/webp/animation"

	. "verifharness/hlib"
)

type c17File struct {
	Kind          string
	Data          []byte
	ContainerOnly bool // header-only bitstream (Coq witness): Decode is not part of the evaluation
}

type span struct {
	id         string
	start, end int // [start,end) incl. header, payload, pad
	size       int
}

// chunkMap lists the top-level chunks of a well-formed file.
func chunkMap(data []byte) []span {
	var out []span
	pos := 12
	for pos+8 <= len(data) {
		sz := int(binary.LittleEndian.Uint32(data[pos+4:]))
		end := pos + 8 + sz + sz&1
		out = append(out, span{string(data[pos : pos+4]), pos, end, sz})
		pos = end
	}
	return out
}

func cutRegion(spans []span, n int) string {
	if n < 12 {
		return "riff-header"
	}
	for _, s := range spans {
		if n == s.start {
			return "before-" + s.id
		}
		if n > s.start && n < s.end {
			switch {
			case n < s.start+8:
				return "in-header-" + s.id
			case n < s.start+8+s.size:
				return "in-payload-" + s.id
			default:
				return "before-pad-" + s.id
			}
		}
	}
	return "end"
}

func c17Files(c *Ctx) []c17File {
	var files []c17File
	add := func(kind string, data []byte, err error) {
		if err != nil || len(data) == 0 {
			c.Violate("generator-encode-failed", "Encode failed for "+kind, fmt.Sprint(err))
			return
		}
		files = append(files, c17File{Kind: kind, Data: data})
	}
	rng := c.Rng.Fork()
	dims := [][2]int{{8, 8}, {17, 13}, {33, 20}}
	if c.Thorough() {
		dims = append(dims, [2]int{48, 40}, [2]int{70, 35}, [2]int{1, 1}, [2]int{2, 31})
	}
	icc := []byte("ICC-profile-bytes-odd")        // 21 bytes (odd)
	exif := []byte("Exif\x00\x00MM\x00*\x00\x00") // 12 bytes (even)
	xmp := []byte("<x:xmpmeta/>.")                // 13 bytes (odd)
	for di, d := range dims {
		w, h := d[0], d[1]
		opaque := testImage(rng, w, h, 0, 40)
		holes := testImage(rng, w, h, 1, 40)
		graded := testImage(rng, w, h, 2, 40)
		for part := 0; part <= 3; part++ {
			o := webp.DefaultOptions()
			o.Partitions = part
			o.Quality = float32(40 + 20*part)
			o.Method = 2 + part%3
			data, err := encodeFile(opaque, o)
			add(fmt.Sprintf("lossy-p%d", part), data, err)
		}
		for _, img := range []struct {
			n string
			i *image.NRGBA
		}{{"opaque", opaque}, {"alpha", graded}} {
			o := webp.DefaultOptions()
			o.Lossless = true
			o.Method = 3
			data, err := encodeFile(img.i, o)
			add("lossless-"+img.n, data, err)
			if img.n == "opaque" && err == nil && len(data) > 25 {
				// hand-assembled: the same VP8L stream with its alpha_is_used bit cleared (legal for an
				// opaque picture; this package's encoder always sets it), behind ICCP in a VP8X file
				// whose alpha flag is therefore clear, EXIF after the image.
				n := int(binary.LittleEndian.Uint32(data[16:20]))
				vp8l := append([]byte(nil), data[20:20+n]...)
				vp8l[4] &^= 0x10
				body := append(chunkBytes("VP8X", vp8xPayload(0x20|0x08, w, h)), chunkBytes("ICCP", icc)...)
				body = append(body, chunkBytes("VP8L", vp8l)...)
				body = append(body, chunkBytes("EXIF", exif)...)
				add("hand-ext-vp8l-noalpha", riffFile(body), nil)
			}
		}
		for ac := 0; ac <= 1; ac++ {
			o := webp.DefaultOptions()
			o.AlphaCompression = ac
			o.Quality = 60
			data, err := encodeFile(holes, o)
			add(fmt.Sprintf("lossy-alpha-ac%d", ac), data, err)
			if di == 0 || c.Thorough() {
				o2 := webp.DefaultOptions()
				o2.AlphaCompression = ac
				o2.AlphaFiltering = 2
				data, err = encodeFile(graded, o2)
				add(fmt.Sprintf("lossy-alpha-graded-ac%d", ac), data, err)
			}
		}
		// extended: ICC before the image, EXIF / XMP after it
		metas := []struct {
			n              string
			icc, exif, xmp []byte
		}{{"icc", icc, nil, nil}, {"exif", nil, exif, nil}, {"xmp", nil, nil, xmp}, {"all", icc, exif, xmp}}
		for mi, m := range metas {
			if di > 0 && !c.Thorough() && mi != 3 && mi != di%3 {
				continue
			}
			o := webp.DefaultOptions()
			o.ICC, o.EXIF, o.XMP = m.icc, m.exif, m.xmp
			data, err := encodeFile(opaque, o)
			add("ext-lossy-"+m.n, data, err)
			o = webp.DefaultOptions()
			o.Lossless = true
			o.ICC, o.EXIF, o.XMP = m.icc, m.exif, m.xmp
			data, err = encodeFile(opaque, o)
			add("ext-lossless-opaque-"+m.n, data, err)
			if mi == 3 {
				o = webp.DefaultOptions()
				o.ICC, o.EXIF, o.XMP = m.icc, m.exif, m.xmp
				data, err = encodeFile(holes, o)
				add("ext-lossy-alpha-"+m.n, data, err)
				o = webp.DefaultOptions()
				o.Lossless = true
				o.ICC, o.EXIF, o.XMP = m.icc, m.exif, m.xmp
				data, err = encodeFile(graded, o)
				add("ext-lossless-alpha-"+m.n, data, err)
			}
		}
	}
	// the Coq witnesses of the (repaired) defects, as regression inputs: C17_features_prefix_refuted
	// (VP8X + VP8 header, cut at 30) and C17_config_prefix_refuted (VP8X + ICCP + VP8L header with
	// a clear alpha bit, cut at 40); their bitstreams are bare headers, so only the header queries run.
	w1 := riffFile(append(chunkBytes("VP8X", vp8xPayload(0, 1, 1)), chunkBytes("VP8 ", vp8Header(1, 1))...))
	w2 := riffFile(append(append(chunkBytes("VP8X", vp8xPayload(0x20, 1, 1)), chunkBytes("ICCP", []byte{1, 2})...), chunkBytes("VP8L", []byte{0x2f, 0, 0, 0, 0})...))
	files = append(files, c17File{"witness-vp8x-vp8", w1, true}, c17File{"witness-vp8x-iccp-vp8l", w2, true})
	return files
}

// animView: animation.DecodeBytes on a still (one frame): "E" or canvas, frame count and the frame's pixels.
func animView(data []byte) (out string) {
	defer func() {
		if p := recover(); p != nil {
			out = "PANIC " + fmt.Sprint(p)
		}
	}()
	a, err := animation.DecodeBytes(data)
	if err != nil {
		return "E"
	}
	d := "-"
	if len(a.Frames) > 0 && a.Frames[0].Image != nil {
		d = pixelDigest(a.Frames[0].Image)
	}
	return fmt.Sprintf("%d,%d,%d,%s", a.CanvasWidth, a.CanvasHeight, len(a.Frames), d)
}

// c17Carriers: the same prefix through every other carrier (readers without Len, readers that deliver a few
// bytes at a time, bufio; slices whose backing array goes on with the rest of the file, garbage, zeros): each
// entry point must fail or return what it returns for the complete file, however the bytes arrive.
func c17Carriers(c *Ctx, f *c17File, n int, full apiResult, fullLine, fullAnim, region string) {
	p := f.Data[:n:n]
	check := func(carrier, api, got, want string) {
		c.D.Evaluations++
		if strings.HasPrefix(got, "PANIC") {
			c.Violate("panic-on-prefix", api+" panicked on a prefix delivered as "+carrier+": "+got, map[string]any{"kind": f.Kind, "file": hx(f.Data), "prefix_len": n, "carrier": carrier, "cut": region})
			return
		}
		if got != "E" && got != want {
			c.Count("carrier:" + carrier + ":" + api + ":DIFFERENT")
			c.Violate("prefix-differs-via-"+carrier, fmt.Sprintf("%s of a %d-byte prefix (cut %s) of a %d-byte %s file, delivered as %s, succeeds with a result other than for the complete file", api, n, region, len(f.Data), f.Kind, carrier),
				map[string]any{"kind": f.Kind, "file": hx(f.Data), "prefix_len": n, "carrier": carrier, "api": api, "got": got, "full": want, "cut": region})
			return
		}
		if got == "E" {
			c.Count("carrier:" + carrier + ":" + api + ":fail")
		} else {
			c.Count("carrier:" + carrier + ":" + api + ":same")
		}
	}
	for _, rc := range readerCarriers() {
		r := runAPIsVia(rc.Mk, p)
		if r.Panic != "" {
			check(rc.Name, "an io.Reader entry point", "PANIC "+r.Panic, "")
			continue
		}
		if !f.ContainerOnly {
			check(rc.Name, "Decode", r.Dec, full.Dec)
		}
		check(rc.Name, "DecodeConfig", r.Cfg, full.Cfg)
		check(rc.Name, "GetFeatures", r.Feat, full.Feat)
	}
	for _, sc := range sliceCarriers(f.Data, n) {
		pl, pp := safeParse(sc.Data)
		got := pl
		if pl != "PANIC" && pp.ErrClass != 0 {
			got = "E"
		} else if pl == "PANIC" {
			got = "PANIC in container.Parser"
		}
		check(sc.Name, "container.NewParser", got, fullLine)
		if !f.ContainerOnly {
			check(sc.Name, "animation.DecodeBytes", animView(sc.Data), fullAnim)
		}
	}
}

// c17CodecPrefixes: codec-level truncation on the real decoders.  A cut of the FILE is caught by the container
// (chunk sizes no longer fit); here the bitstream itself is cut: for every image / ALPH chunk of a still file
// and every proper prefix of its payload, the chunk is re-wrapped with consistent sizes (chunk size field, pad
// byte, RIFF size) and the file decoded.  Expected, as C17_vp8_frame_prefix_monotone, C17_vp8l_decode_monotone,
// C17_alph_monotone and C17_go_bool_reader_prefix_stable state for the models: rejected, or the same picture.
// A re-wrapped file is not a prefix of a valid file, i.e. outside the property: the outcomes are counted, never
// reported (distribution keys codec-prefix:<chunk>:rejected / same-picture / DIFFERENT / PANIC).
func c17CodecPrefixes(c *Ctx, f *c17File, full apiResult) {
	body := f.Data[12:]
	for _, s := range chunkMap(f.Data) {
		if s.id != "VP8 " && s.id != "VP8L" && s.id != "ALPH" {
			continue
		}
		payload := f.Data[s.start+8 : s.start+8+s.size]
		before, after := body[:s.start-12], body[s.end-12:]
		step := 1
		if s.size > 1500 && !c.Thorough() {
			step = 7 // larger payloads: every 7th cut, plus the last 64
		}
		for k := 0; k < s.size; k++ {
			if step > 1 && k%step != 0 && k < s.size-64 {
				continue
			}
			c.D.Evaluations++
			nb := append(append(append([]byte(nil), before...), chunkBytes(s.id, payload[:k])...), after...)
			r := runAPIs(riffFile(nb))
			replay := map[string]any{"kind": f.Kind, "file": hx(f.Data), "chunk": s.id, "payload_prefix_len": k, "payload_len": s.size}
			outcome := "rejected"
			_ = replay
			if r.Panic != "" {
				c.Count("codec-prefix:" + s.id + ":PANIC")
				continue
			}
			if r.Dec != "E" {
				outcome = "same-picture"
				if r.Dec != full.Dec && s.id == "ALPH" && k == 0 {
					// an ALPH chunk without any byte (not even its header byte) is treated as absent by the glue
					// (webp.go: len(AlphaData) == 0), the picture decodes opaque: C16's zero-length-ALPH semantics
					outcome = "empty-ALPH-treated-as-absent"
				} else if r.Dec != full.Dec {
					outcome = "DIFFERENT"
				}
			}
			c.Count("codec-prefix:" + s.id + ":" + outcome)
			c.Nontrivial("codec-prefix|" + f.Kind + "|" + s.id + "|" + outcome)
		}
	}
}

// c17BoolReader: internal/bitio.BoolReader read by read (correspondence with Vp8GoReader.gr_bit, including
// the end-of-input flag) and direct evaluation of C17_go_bool_reader_prefix_stable: a run over data that ends
// with EOF() == false returns the same bits over data ++ ext, EOF() == false.
func c17BoolReader(c *Ctx, rng *Rand, n int) {
	line := func(init webp.VerifBoolReaderStep, steps []webp.VerifBoolReaderStep) string {
		show := func(s webp.VerifBoolReaderStep) string {
			if s.EOF {
				return "E"
			}
			return fmt.Sprintf("%d,%d,%d", s.Value, s.Range, s.Bits)
		}
		out := show(init)
		for _, s := range steps {
			if s.EOF {
				out += " E"
			} else {
				out += fmt.Sprintf(" %d:%s", s.Bit, show(s))
			}
		}
		return out
	}
	for i := 0; i < n; i++ {
		r := rng.Fork()
		data := r.Bytes(r.Pick(0, 1, 1, 2, 3, 5, 7, 8, 9, 12, 15, 16, 17, 23))
		if len(data) > 0 && r.Intn(6) == 0 {
			data[0] = 0xff // outside the theorem's hypothesis; the model correspondence must hold all the same
		}
		nreads := r.Pick(0, 1, 5, 20, 40, 80, 160)
		probs := make([]uint8, nreads)
		for k := range probs {
			probs[k] = uint8(r.Pick(0, 1, 127, 128, 129, 254, 255, r.Intn(256), r.Intn(256), r.Intn(256)))
		}
		init, steps := webp.VerifBoolReaderRun(data, probs)
		dh, ph := hx(data), hx(probs)
		if dh == "" {
			dh = "-"
		}
		if ph == "" {
			ph = "-"
		}
		c.Case("B "+dh+" "+ph, line(init, steps))
		eof := init.EOF
		if len(steps) > 0 {
			eof = steps[len(steps)-1].EOF
		}
		c.Count(fmt.Sprintf("boolreader:eof=%v", eof))
		c.Nontrivial(fmt.Sprintf("boolreader|len=%d|reads=%d|eof=%v", len(data), nreads, eof))
		// direct evaluation of the prefix statement
		c.D.Evaluations++
		if len(data) == 0 || data[0] == 0xff {
			c.Count("boolreader:outside-hypothesis")
			continue
		}
		ext := r.Bytes(r.Pick(1, 2, 7, 8, 9))
		i2, s2 := webp.VerifBoolReaderRun(append(append([]byte(nil), data...), ext...), probs)
		if !eof {
			same := !i2.EOF
			for k := range steps {
				if s2[k].EOF || s2[k].Bit != steps[k].Bit || s2[k].Range != steps[k].Range {
					same = false
				}
			}
			c.Count("boolreader:prefix-statement-evaluated")
			if !same {
				// a statement about the reader, not about prefixes of valid files: counted, never reported (a reader
				// that deviates from the model shows up as a broken correspondence above)
				c.Count("boolreader:prefix-statement-FAILS")
			}
		} else {
			c.Count("boolreader:ran-out-of-data")
		}
	}
}

func main() {
	Main("c17", func(c *Ctx) {
		c.D.Rule = "every prefix length 0..len-1 of every generated still file (lossy Partitions 0..3, lossless opaque/alpha, lossy+ALPH raw/compressed, VP8X with ICC before and EXIF/XMP after the image); plus every prefix of every VP8 / VP8L / ALPH payload of those files re-wrapped with consistent sizes, plus random (data, probabilities, extension) runs of bitio.BoolReader; each prefix is delivered through bytes.Reader, a reader without Len/WriteTo/ReadAt, a reader returning 1..7 bytes per Read, bufio.Reader, and (container.NewParser, animation.DecodeBytes) as slices with spare capacity holding the rest of the file, garbage, zeros; evaluation = Decode+DecodeConfig+GetFeatures on one prefix through one carrier / one re-wrapped file, or one pair of reader runs; non-trivial = distinct (file kind, chunk and part of chunk where the cut falls, outcome) triple, (file kind, chunk, outcome) for payload cuts, (data length, reads, flag) for reader runs"
		c.D.Notes = append(c.D.Notes,
			"direct evaluation runs the real codecs on every prefix: it covers the bit readers' end-of-stream handling (VP8 bool decoder, VP8L bit reader, ALPH), which the Coq theorems treat as a parameter of the container/glue layer",
			"correspondence: container.NewParser on every prefix vs the extracted ParserModel.parse (accepted or rejected -- one token, the error class is only counted --, features, frame payload/alpha digests and lengths); bitio.BoolReader (NewBoolReader + GetBit, state and EOF() after every read) vs the extracted Vp8GoReader.gr_bit on random data / probabilities, most runs reading past the end",
			"C17_go_bool_reader_prefix_stable is also evaluated directly on the real reader (random data, extension, probabilities) and counted (boolreader:prefix-statement-*), not reported: it is not a statement about prefixes of valid files",
			"codec-level truncation on the real decoders: every proper prefix of every VP8 / VP8L / ALPH payload of every generated still, re-wrapped with consistent chunk and RIFF sizes, is decoded and the outcome counted (codec-prefix:*: today rejected or same picture; not reported, a re-wrapped file is not a prefix of a valid file; a cut of the file itself never reaches the codecs: the container rejects it)")
		files := c17Files(c)
		for _, f := range files {
			full := runAPIs(f.Data)
			if f.ContainerOnly {
				full.Dec = "E"
			}
			if full.Panic != "" || (full.Dec == "E" && !f.ContainerOnly) || full.Cfg == "E" || full.Feat == "E" {
				c.Violate("generator-file-not-decodable", "a file written by Encode is rejected: "+f.Kind, map[string]any{"file": hx(f.Data), "result": full})
				continue
			}
			line, _ := safeParse(f.Data)
			c.Case("F "+hx(f.Data), line)
			c.Count("files")
			c.Count("kind:" + f.Kind)
			c.Sample(map[string]any{"kind": f.Kind, "bytes": len(f.Data), "full": full})
			if !f.ContainerOnly {
				c17CodecPrefixes(c, &f, full)
			}
			spans := chunkMap(f.Data)
			fullAnim := ""
			if !f.ContainerOnly {
				fullAnim = animView(f.Data)
				if fullAnim == "E" || strings.HasPrefix(fullAnim, "PANIC") {
					c.Count("note:animation.DecodeBytes-rejects-generated-still:" + f.Kind)
				}
			}
			for n := 0; n < len(f.Data); n++ {
				p := f.Data[:n:n]
				r := runAPIs(p)
				if f.ContainerOnly {
					r.Dec = "E"
				}
				pl, pp := safeParse(p)
				c.Case(fmt.Sprintf("P %d", n), pl)
				if pp.ErrClass != 0 {
					c.Count(fmt.Sprintf("parser-error-class:%d", pp.ErrClass))
				}
				c.D.Evaluations++
				region := cutRegion(spans, n)
				c17Carriers(c, &f, n, full, line, fullAnim, region)
				c.Count("cut:" + region)
				replay := map[string]any{"kind": f.Kind, "file": hx(f.Data), "prefix_len": n, "prefix": r, "full": full, "cut": region}
				noImage := pp.ErrClass == 0 && pp.Format == 3 && !pp.HasAnim && len(pp.Frames) == 0
				outcome := "all-fail"
				if r.Panic != "" || pl == "PANIC" {
					c.Violate("panic-on-prefix", "a decoding entry point panicked on a prefix: "+r.Panic, replay)
					continue
				}
				if r.Dec != "E" {
					outcome = "decode-ok"
					if r.Dec != full.Dec {
						c.Violate("decode-prefix-differs", fmt.Sprintf("Decode of a %d-byte prefix of a %d-byte %s file returns a different picture (%s vs %s)", n, len(f.Data), f.Kind, r.Dec, full.Dec), replay)
					}
				}
				if r.Cfg != "E" {
					if outcome == "all-fail" {
						outcome = "header-ok"
					}
					if r.Cfg != full.Cfg {
						key := "decodeconfig-prefix-differs"
						if noImage {
							key = "decodeconfig-vp8x-prefix-without-image"
						}
						c.Violate(key, fmt.Sprintf("DecodeConfig of a %d-byte prefix (cut %s) of a %s file reports %s, the complete file %s", n, region, f.Kind, r.Cfg, full.Cfg), replay)
					}
				}
				if r.Feat != "E" {
					if outcome == "all-fail" {
						outcome = "header-ok"
					}
					if r.Feat != full.Feat {
						key := "getfeatures-prefix-differs"
						if noImage {
							key = "getfeatures-vp8x-prefix-without-image"
						}
						c.Violate(key, fmt.Sprintf("GetFeatures of a %d-byte prefix (cut %s) of a %s file reports %s, the complete file %s", n, region, f.Kind, r.Feat, full.Feat), replay)
					}
				}
				c.Count("outcome:" + outcome)
				c.Nontrivial(f.Kind + "|" + region + "|" + outcome)
			}
		}
		// the Go boolean decoder and its end-of-input flag
		nb := 600
		if c.Thorough() {
			nb = 20000
		}
		c17BoolReader(c, c.Rng.Fork(), nb)
	})
}
