package main

// Helpers shared (by copy) between harness/c15, c16, c17: canonical rendering of the
// container parser's result (must print exactly what extract/c1x/run.ml prints), chunk
// assembly and test images.

import (
	"bufio"
	"bytes"
	"encoding/binary"
	"encoding/hex"
	"fmt"
	"hash/fnv"
	"image"
	"image/color"
	"io"
	"strings"

	webp "github.com/deepteams/webp"

	. "verifharness/hlib"
)

const (
	fccVP8  = 540561494
	fccVP8L = 1278758998
)

func fnvs(b []byte) string {
	h := fnv.New64a()
	h.Write(b)
	return fmt.Sprintf("%d:%016x", len(b), h.Sum64())
}

func hx(b []byte) string {
	if len(b) == 0 {
		return "-"
	}
	return hex.EncodeToString(b)
}

func b01(b bool) string {
	if b {
		return "1"
	}
	return "0"
}

// showParsed renders a parser result like run.ml's show_parsed / show_res.
func showParsed(p webp.VerifRiffParsed) string {
	if p.ErrClass != 0 {
		return "E" // one token for "rejected": no property constrains which error is returned (the class is only counted)
	}
	var sb strings.Builder
	fmt.Fprintf(&sb, "OK %d %d %d %d %d %s%s%s%s%s %d %d F%d", p.Format, p.Width, p.Height, p.CanvasW, p.CanvasH,
		b01(p.HasAlpha), b01(p.HasAnim), b01(p.HasICCP), b01(p.HasEXIF), b01(p.HasXMP), p.LoopCount, p.BGColor, len(p.Frames))
	for _, f := range p.Frames {
		a := "nil"
		if !f.AlphaNil {
			a = fnvs(f.Alpha)
		}
		fmt.Fprintf(&sb, " [%d,%d,%d,%d,%d,%s%s%s%s,%s,%s]", f.X, f.Y, f.W, f.H, f.Dur,
			b01(f.DisposeBG), b01(f.BlendNone), b01(f.HasAlpha), b01(f.IsLossless), fnvs(f.Payload), a)
	}
	fmt.Fprintf(&sb, " C%d", len(p.Chunks))
	for _, c := range p.Chunks {
		fmt.Fprintf(&sb, " %d:%s", c.FourCC, fnvs(c.Data))
	}
	return sb.String()
}

// safeParse runs the container parser, turning a panic into the model's PANIC outcome.
func safeParse(data []byte) (line string, p webp.VerifRiffParsed) {
	defer func() {
		if r := recover(); r != nil {
			line = "PANIC"
		}
	}()
	p = webp.VerifRiffParse(data)
	return showParsed(p), p
}

func chunkBytes(id string, data []byte) []byte {
	var b bytes.Buffer
	b.WriteString(id)
	var n [4]byte
	binary.LittleEndian.PutUint32(n[:], uint32(len(data)))
	b.Write(n[:])
	b.Write(data)
	if len(data)&1 == 1 {
		b.WriteByte(0)
	}
	return b.Bytes()
}

func riffFile(body []byte) []byte {
	var b bytes.Buffer
	b.WriteString("RIFF")
	var n [4]byte
	binary.LittleEndian.PutUint32(n[:], uint32(4+len(body)))
	b.Write(n[:])
	b.WriteString("WEBP")
	b.Write(body)
	return b.Bytes()
}

func vp8xPayload(flags byte, w, h int) []byte {
	p := make([]byte, 10)
	p[0] = flags
	p[4], p[5], p[6] = byte(w-1), byte((w-1)>>8), byte((w-1)>>16)
	p[7], p[8], p[9] = byte(h-1), byte((h-1)>>8), byte((h-1)>>16)
	return p
}

// minimal VP8 key-frame header declaring w x h (not a decodable frame).
func vp8Header(w, h int) []byte {
	return []byte{0, 0, 0, 0x9d, 0x01, 0x2a, byte(w), byte(w >> 8), byte(h), byte(h >> 8)}
}

// testImage builds a w x h NRGBA picture: gradients + noise; alphaMode 0 opaque,
// 1 binary holes, 2 graded alpha.
func testImage(rng *Rand, w, h, alphaMode int, noise int) *image.NRGBA {
	im := image.NewNRGBA(image.Rect(0, 0, w, h))
	for y := 0; y < h; y++ {
		for x := 0; x < w; x++ {
			n := 0
			if noise > 0 {
				n = rng.Intn(noise)
			}
			a := 255
			switch alphaMode {
			case 1:
				if (x/3+y/2)%3 == 0 {
					a = 0
				}
			case 2:
				a = (x*37 + y*91 + rng.Intn(16)) & 255
			}
			im.SetNRGBA(x, y, color.NRGBA{uint8(x*255/(w+1) + n), uint8(y*255/(h+1) + n/2), uint8((x+y)*7 + n), uint8(a)})
		}
	}
	return im
}

// pixelDigest canonicalises a decoded image: concrete type, bounds, digest of the planes.
func pixelDigest(img image.Image) string {
	switch m := img.(type) {
	case *image.YCbCr:
		if m == nil {
			return "YCbCr:nil"
		}
		h := fnv.New64a()
		h.Write(m.Y)
		h.Write(m.Cb)
		h.Write(m.Cr)
		return fmt.Sprintf("YCbCr:%dx%d:%d:%d:%016x", m.Rect.Dx(), m.Rect.Dy(), m.YStride, m.CStride, h.Sum64())
	case *image.NRGBA:
		if m == nil {
			return "NRGBA:nil"
		}
		return fmt.Sprintf("NRGBA:%dx%d:%d:%s", m.Rect.Dx(), m.Rect.Dy(), m.Stride, fnvs(m.Pix))
	}
	return fmt.Sprintf("%T:%v", img, img.Bounds())
}

func modelName(m color.Model) string {
	switch m {
	case color.NRGBAModel:
		return "NRGBA"
	case color.YCbCrModel:
		return "YCbCr"
	}
	return "other"
}

// the three public entry points on one byte string, canonical; panics are reported.
type apiResult struct {
	Dec, Cfg, Feat string // "E" on error
	Panic          string
}

func runAPIs(data []byte) (r apiResult) {
	return runAPIsVia(func(b []byte) io.Reader { return bytes.NewReader(b) }, data)
}

// runAPIsVia hands the bytes to the three io.Reader entry points through the given carrier.
func runAPIsVia(mk func([]byte) io.Reader, data []byte) (r apiResult) {
	defer func() {
		if p := recover(); p != nil {
			r.Panic = fmt.Sprint(p)
		}
	}()
	if img, err := webp.Decode(mk(data)); err != nil {
		r.Dec = "E"
	} else {
		r.Dec = pixelDigest(img)
	}
	if c, err := webp.DecodeConfig(mk(data)); err != nil {
		r.Cfg = "E"
	} else {
		r.Cfg = fmt.Sprintf("%s,%d,%d", modelName(c.ColorModel), c.Width, c.Height)
	}
	if f, err := webp.GetFeatures(mk(data)); err != nil {
		r.Feat = "E"
	} else {
		r.Feat = fmt.Sprintf("%d,%d,%s,%s,%s,%d,%d", f.Width, f.Height, b01(f.HasAlpha), b01(f.HasAnimation), f.Format, f.LoopCount, f.FrameCount)
	}
	return r
}

// Carriers: the ways the same bytes can reach the entry points.  A reader without Len / WriteTo / ReadAt makes
// readAll fall back to io.ReadAll, whose result has spare capacity behind the data; a []byte caller can pass a
// slice whose backing array goes on (the rest of the file: full[:n], garbage, zeros).
type plainReader struct{ io.Reader }

type dribbleReader struct {
	b []byte
	k int
}

func (d *dribbleReader) Read(p []byte) (int, error) {
	if len(d.b) == 0 {
		return 0, io.EOF
	}
	n := 1 + d.k%7
	d.k++
	if n > len(p) {
		n = len(p)
	}
	if n > len(d.b) {
		n = len(d.b)
	}
	copy(p, d.b[:n])
	d.b = d.b[n:]
	return n, nil
}

type readerCarrier struct {
	Name string
	Mk   func([]byte) io.Reader
}

func readerCarriers() []readerCarrier {
	return []readerCarrier{
		{"plain-reader", func(b []byte) io.Reader { return plainReader{bytes.NewReader(b)} }},
		{"dribble-reader", func(b []byte) io.Reader { return &dribbleReader{b: b} }},
		{"bufio-reader", func(b []byte) io.Reader { return bufio.NewReader(plainReader{bytes.NewReader(b)}) }},
	}
}

type sliceCarrier struct {
	Name string
	Data []byte
}

// sliceCarriers: full[:n] with spare capacity holding the real continuation, garbage, zeros.
func sliceCarriers(full []byte, n int) []sliceCarrier {
	spare := len(full) - n + 64
	g := make([]byte, n, n+spare)
	copy(g, full[:n])
	tail := g[n : n+spare]
	for i := range tail {
		tail[i] = byte(0xa5 ^ (i * 37))
	}
	z := make([]byte, n, n+spare)
	copy(z, full[:n])
	return []sliceCarrier{{"slice-of-the-file", full[:n]}, {"spare-garbage", g}, {"spare-zeros", z}}
}

func encodeFile(img image.Image, o *webp.EncoderOptions) ([]byte, error) {
	var b bytes.Buffer
	err := webp.Encode(&b, img, o)
	return b.Bytes(), err
}
