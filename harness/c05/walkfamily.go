package main

// Chunk-walk boundary family: for every loop that walks chunks (top level of a simple file,
// the VP8X chunk list, the image chunks of an extended still, the sub-chunks of an ANMF
// frame) and every chunk position in it, files in which that chunk is the last thing in its
// container and ends in every way a walker has to survive: odd payload with / without its
// pad byte, container ending exactly at the unpadded end, one byte into the payload, right
// after the 8-byte header, inside the header; declared size = remaining, remaining +- 1.
// The enclosing size fields (ANMF, RIFF) are recomputed so that the inner loop really
// sees that end ("consistent"), or left one byte too large / too small.

import (
	"encoding/binary"

	. "verifharness/hlib"
	"verifharness/muxh"
)

type wchunk struct {
	tag  string
	data []byte
	sub  []wchunk // ANMF: sub-chunks after the 16-byte frame header (data = the header)
}

// how the target chunk ends its container
var endModes = []string{"pad", "nopad", "mid", "hdr", "inhdr", "decl+1", "decl-1", "decl+2"}

// serialize writes the chunk list; when it reaches the target (path) it writes it according to
// mode and stops its container there.  Returns the bytes and whether the target was reached.
func serialize(cs []wchunk, path []int, mode string) ([]byte, bool) {
	var out []byte
	for i, c := range cs {
		isTarget := len(path) == 1 && path[0] == i
		onPath := len(path) > 1 && path[0] == i
		var payload []byte
		cut := false
		if len(c.sub) > 0 || c.tag == "ANMF" {
			payload = append(payload, c.data...)
			if onPath {
				sb, _ := serialize(c.sub, path[1:], mode)
				payload = append(payload, sb...)
				cut = true // the frame ends where the inner target ends; later frames are dropped
			} else {
				sb, _ := serialize(c.sub, nil, "")
				payload = append(payload, sb...)
			}
		} else {
			payload = c.data
		}
		hdr := make([]byte, 8)
		copy(hdr, c.tag)
		binary.LittleEndian.PutUint32(hdr[4:], uint32(len(payload)))
		if !isTarget {
			out = append(out, hdr...)
			out = append(out, payload...)
			if len(payload)%2 == 1 && !(cut && onPath && false) {
				out = append(out, 0)
			}
			if cut {
				return out, true
			}
			continue
		}
		switch mode {
		case "pad":
			out = append(append(out, hdr...), payload...)
			if len(payload)%2 == 1 {
				out = append(out, 0)
			}
		case "nopad":
			out = append(append(out, hdr...), payload...)
		case "mid":
			out = append(out, hdr...)
			if len(payload) > 0 {
				out = append(out, payload[0])
			}
		case "hdr":
			out = append(out, hdr...)
		case "inhdr":
			out = append(out, hdr[:5]...)
		case "decl+1":
			binary.LittleEndian.PutUint32(hdr[4:], uint32(len(payload)+1))
			out = append(append(out, hdr...), payload...)
		case "decl+2":
			binary.LittleEndian.PutUint32(hdr[4:], uint32(len(payload)+2))
			out = append(append(out, hdr...), payload...)
		case "decl-1":
			if len(payload) > 0 {
				binary.LittleEndian.PutUint32(hdr[4:], uint32(len(payload)-1))
			}
			out = append(append(out, hdr...), payload...)
		}
		return out, true
	}
	return out, false
}

func riffWrap(body []byte, delta int) []byte {
	f := append([]byte("RIFF\x00\x00\x00\x00WEBP"), body...)
	binary.LittleEndian.PutUint32(f[4:], uint32(len(f)-8+delta))
	return f
}

// walkFamily enumerates the family over a few layouts built from real bitstreams.
func walkFamily(rng *Rand, emit func(kind string, b []byte)) int {
	pool := muxh.BuildPool(rng.Fork(), 8)
	pick := func(alpha, lossless bool) *muxh.PoolItem {
		for i := range pool {
			if (pool[i].Alpha != nil) == alpha && pool[i].Lossless == lossless {
				return &pool[i]
			}
		}
		return &pool[0]
	}
	parity := func(b []byte, odd bool) []byte {
		if (len(b)%2 == 1) != odd {
			return append(append([]byte{}, b...), 0x55)
		}
		return b
	}
	lossy, lossless, lossyA := pick(false, false), pick(false, true), pick(true, false)
	vp8x := func(flags byte, w, h int) wchunk {
		d := make([]byte, 10)
		d[0] = flags
		d[4], d[5], d[6] = byte(w-1), byte((w-1)>>8), byte((w-1)>>16)
		d[7], d[8], d[9] = byte(h-1), byte((h-1)>>8), byte((h-1)>>16)
		return wchunk{tag: "VP8X", data: d}
	}
	anmfHdr := func(w, h int) []byte {
		d := make([]byte, 16)
		d[6], d[7] = byte(w-1), byte((w-1)>>8)
		d[9], d[10] = byte(h-1), byte((h-1)>>8)
		d[12] = 40
		return d
	}
	n := 0
	for _, odd := range []bool{true, false} {
		img := func(it *muxh.PoolItem) wchunk {
			if it.Lossless {
				return wchunk{tag: "VP8L", data: parity(it.Bits, odd)}
			}
			return wchunk{tag: "VP8 ", data: parity(it.Bits, odd)}
		}
		alph := wchunk{tag: "ALPH", data: parity(lossyA.Alpha, odd)}
		meta := func(tag string) wchunk { return wchunk{tag: tag, data: parity([]byte{1, 2, 3, 4, 5}, odd)} }
		layouts := [][]wchunk{
			{img(lossy)},
			{img(lossless)},
			{vp8x(0x08, lossy.W, lossy.H), img(lossy), meta("EXIF")},
			{vp8x(0x10|0x20, lossyA.W, lossyA.H), meta("ICCP"), alph, img(lossyA)},
			{vp8x(0x10, lossyA.W, lossyA.H), alph, img(lossyA), meta("UNKN")},
			{vp8x(0x02, 64, 64), {tag: "ANIM", data: []byte{0, 0, 0, 0, 1, 0}},
				{tag: "ANMF", data: anmfHdr(lossless.W, lossless.H), sub: []wchunk{img(lossless)}},
				{tag: "ANMF", data: anmfHdr(lossy.W, lossy.H), sub: []wchunk{img(lossy), meta("UNKN")}}},
			{vp8x(0x02|0x10, 64, 64), {tag: "ANIM", data: []byte{0, 0, 0, 0, 0, 0}},
				{tag: "ANMF", data: anmfHdr(lossyA.W, lossyA.H), sub: []wchunk{alph, img(lossyA)}},
				{tag: "ANMF", data: anmfHdr(lossyA.W, lossyA.H), sub: []wchunk{alph}},
				meta("XMP ")},
		}
		for _, lay := range layouts {
			var paths [][]int
			for i, c := range lay {
				paths = append(paths, []int{i})
				for j := range c.sub {
					paths = append(paths, []int{i, j})
				}
			}
			for _, p := range paths {
				for _, mode := range endModes {
					body, ok := serialize(lay, p, mode)
					if !ok {
						continue
					}
					for _, delta := range []int{0, 1, -1} {
						emit("walk-boundary", riffWrap(body, delta))
						n++
					}
				}
			}
		}
	}
	return n
}
