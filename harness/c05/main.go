package main

// C05 — no input bytes can crash, hang or exhaust any decoding entry point.
//
// Malformed-stream generator (random bytes; bit/byte flips; length-field edits;
// chunk drop/duplicate/reorder/splice; truncations) over valid lossy / lossless /
// alpha / extended / animated files.  Every input goes through every entry point
// under recover() and a wall-clock cap; successful results are checked for
// positive bounds and large-enough buffers.  The demuxer-level outcome and the
// complete accessor output are also compared with the Coq demuxer model
// (correspondence).  What no model carries (panics / hangs / allocation of the Go
// codec loops) is covered only by this run — a test, labelled as such in notes.

import (
	"bytes"
	"encoding/binary"
	"encoding/hex"
	"fmt"
	"image"
	"io"
	"os"
	"path/filepath"
	"runtime/debug"
	"sort"
	"strings"
	"sync"
	"time"

	webp "github.com/deepteams/webp"
	"github.com/deepteams/webp/animation"
	"github.com/deepteams/webp/mux"

	. "verifharness/hlib"
	"verifharness/muxh"
)

const maxDeclaredArea = 1 << 24 // pixel-decoding entry points are skipped above this declared area
const callTimeout = 20 * time.Second

// hung counts, per entry point, the calls that did not return within callTimeout.
var hung = map[string]int{}

type outcome struct {
	class string // ok | err | panic | timeout
	info  string
}

// guarded runs f under recover and a wall-clock cap.
func guarded(f func() (string, error)) outcome { return guardedFor(callTimeout, f) }

func guardedFor(limit time.Duration, f func() (string, error)) outcome {
	ch := make(chan outcome, 1)
	go func() {
		defer func() {
			if r := recover(); r != nil {
				ch <- outcome{"panic", fmt.Sprint(r)}
			}
		}()
		info, err := f()
		if err != nil {
			ch <- outcome{"err", ""}
		} else {
			ch <- outcome{"ok", info}
		}
	}()
	select {
	case o := <-ch:
		return o
	case <-time.After(limit):
		return outcome{"timeout", ""}
	}
}

// checkImage: positive bounds and buffers large enough for them.
func checkImage(im image.Image) error {
	if im == nil {
		return fmt.Errorf("nil image without error")
	}
	b := im.Bounds()
	w, h := b.Dx(), b.Dy()
	if w <= 0 || h <= 0 {
		return fmt.Errorf("non-positive bounds %v", b)
	}
	switch p := im.(type) {
	case *image.NRGBA:
		if p.Stride < 4*w || len(p.Pix) < p.Stride*(h-1)+4*w {
			return fmt.Errorf("NRGBA buffer %d too small for %dx%d stride %d", len(p.Pix), w, h, p.Stride)
		}
	case *image.RGBA:
		if p.Stride < 4*w || len(p.Pix) < p.Stride*(h-1)+4*w {
			return fmt.Errorf("RGBA buffer too small")
		}
	case *image.YCbCr:
		cw, chh := (w+1)/2, (h+1)/2
		if p.YStride < w || len(p.Y) < p.YStride*(h-1)+w || p.CStride < cw ||
			len(p.Cb) < p.CStride*(chh-1)+cw || len(p.Cr) < p.CStride*(chh-1)+cw {
			return fmt.Errorf("YCbCr planes too small for %dx%d", w, h)
		}
	case *image.NYCbCrA:
		if p.AStride < w || len(p.A) < p.AStride*(h-1)+w {
			return fmt.Errorf("alpha plane too small")
		}
	}
	// touching the four corners must not panic
	im.At(b.Min.X, b.Min.Y)
	im.At(b.Max.X-1, b.Max.Y-1)
	return nil
}

// declaredArea: the largest picture/canvas area any header in the input declares
// (lenient scan: every "VP8 "/"VP8L"/"VP8X"/"ANMF" tag anywhere in the bytes).
func declaredArea(b []byte) uint64 {
	var mx uint64
	up := func(w, h uint64) {
		if w*h > mx {
			mx = w * h
		}
	}
	for i := 0; i+8 <= len(b); i++ {
		if b[i] != 'V' && b[i] != 'A' {
			continue
		}
		tag := string(b[i : i+4])
		p := b[i+8:]
		switch tag {
		case "VP8 ":
			if len(p) >= 10 {
				up(uint64(binary.LittleEndian.Uint16(p[6:8])&0x3fff), uint64(binary.LittleEndian.Uint16(p[8:10])&0x3fff))
			}
		case "VP8L":
			if len(p) >= 5 {
				bits := binary.LittleEndian.Uint32(p[1:5])
				up(uint64(bits&0x3fff)+1, uint64((bits>>14)&0x3fff)+1)
			}
		case "VP8X":
			if len(p) >= 10 {
				up(uint64(p[4])|uint64(p[5])<<8|uint64(p[6])<<16+1, uint64(p[7])|uint64(p[8])<<8|uint64(p[9])<<16+1)
			}
		case "ANMF":
			if len(p) >= 12 {
				up(uint64(p[6])|uint64(p[7])<<8|uint64(p[8])<<16+1, uint64(p[9])|uint64(p[10])<<8|uint64(p[11])<<16+1)
			}
		}
	}
	return mx
}

// observe5 counts things C05's text does not judge (set in main)
var (
	obsMu      sync.Mutex
	obsPending []string
)

// observe5 may be called from the guarded goroutines; the main goroutine flushes the queue
func observe5(k string) {
	obsMu.Lock()
	obsPending = append(obsPending, k)
	obsMu.Unlock()
}

var hangConfirmed bool // a timeout was reproduced with a longer limit in this run

func flushObservations(c *Ctx) {
	obsMu.Lock()
	for _, k := range obsPending {
		c.Count(k)
	}
	obsPending = obsPending[:0]
	obsMu.Unlock()
}

type entry struct {
	name   string
	pixels bool // allocates per declared pixel
	run    func(b []byte) (string, error)
}

var entries = []entry{
	{"GetFeatures", false, func(b []byte) (string, error) {
		f, err := webp.GetFeatures(bytes.NewReader(b))
		if err != nil {
			return "", err
		}
		if f.Width <= 0 || f.Height <= 0 || f.FrameCount < 0 {
			observe5("observation: GetFeatures succeeds with a non-positive dimension or count")
		}
		return fmt.Sprintf("%dx%d", f.Width, f.Height), nil
	}},
	{"DecodeConfig", false, func(b []byte) (string, error) {
		c, err := webp.DecodeConfig(bytes.NewReader(b))
		if err != nil {
			return "", err
		}
		if c.Width <= 0 || c.Height <= 0 || c.ColorModel == nil {
			observe5("observation: DecodeConfig succeeds with a non-positive dimension or nil colour model")
		}
		return fmt.Sprintf("%dx%d", c.Width, c.Height), nil
	}},
	{"Decode", true, func(b []byte) (string, error) {
		im, err := webp.Decode(bytes.NewReader(b))
		if err != nil {
			return "", err
		}
		if e := checkImage(im); e != nil {
			panic("ILL-FORMED (returned image: positive bounds, buffers large enough): Decode: " + e.Error())
		}
		return im.Bounds().String(), nil
	}},
	{"image.Decode", true, func(b []byte) (string, error) {
		im, _, err := image.Decode(bytes.NewReader(b))
		if err != nil {
			return "", err
		}
		if e := checkImage(im); e != nil {
			panic("ILL-FORMED (returned image: positive bounds, buffers large enough): image.Decode: " + e.Error())
		}
		return im.Bounds().String(), nil
	}},
	{"Demuxer", false, func(b []byte) (string, error) {
		d, err := mux.NewDemuxer(b)
		if err != nil {
			return "", err
		}
		n := d.NumFrames()
		if n > 10000 {
			panic(fmt.Sprintf("ILL-FORMED (documented cap MaxFrames): demuxer ok with %d frames", n))
		}
		if n <= 0 {
			observe5("observation: demuxer succeeds with no frame")
		}
		for i := -1; i <= n; i++ {
			fi, err := d.Frame(i)
			if (err == nil) != (i >= 0 && i < n) {
				observe5("observation: Frame(i) succeeds outside / fails inside 0..NumFrames-1")
			}
			if err == nil && (fi.Width <= 0 || fi.Height <= 0 || fi.OffsetX < 0 || fi.OffsetY < 0) {
				// widths of simple VP8 files may be 0 (header says so): reported via the model comparison, not here
				if d.GetFeatures().Format == mux.FormatExtended {
					observe5("observation: extended-layout frame with non-positive size or negative offset")
				}
			}
		}
		for _, id := range muxh.ProbeIDs {
			d.GetChunk(id)
		}
		it := d.NewFrameIterator()
		for it.HasNext() {
			if _, err := it.Next(); err != nil {
				observe5("observation: frame iterator fails before its end")
			}
		}
		return fmt.Sprint(n), nil
	}},
	{"animation.DecodeBytes", false, func(b []byte) (string, error) {
		a, err := animation.DecodeBytes(b)
		if err != nil {
			return "", err
		}
		return fmt.Sprint(len(a.Frames)), nil
	}},
	{"animation.DecodeFrames+AnimDecoder", true, func(b []byte) (string, error) {
		a, err := animation.DecodeBytes(b)
		if err != nil {
			return "", err
		}
		if err := a.DecodeFrames(); err != nil {
			return "", err
		}
		for i := range a.Frames {
			if a.Frames[i].Image != nil {
				if e := checkImage(a.Frames[i].Image); e != nil {
					panic("ILL-FORMED (returned image: positive bounds, buffers large enough): DecodeFrames: " + e.Error())
				}
			}
		}
		d, err := animation.NewAnimDecoder(a)
		if err != nil {
			return "", err
		}
		k := 0
		for d.HasNext() {
			im, _, err := d.NextFrame()
			if err != nil {
				return "", err
			}
			if e := checkImage(im); e != nil {
				panic("ILL-FORMED (returned image: positive bounds, buffers large enough): NextFrame: " + e.Error())
			}
			if im.Bounds().Dx() != a.CanvasWidth || im.Bounds().Dy() != a.CanvasHeight {
				observe5("observation: NextFrame snapshot is not the canvas size")
			}
			k++
			if k > 10001 {
				panic("LOOPING: NextFrame yields more frames than MaxFrames")
			}
		}
		return fmt.Sprint(k), nil
	}},
	{"animation.DecodeFramesParallel", true, func(b []byte) (string, error) {
		a, err := animation.DecodeBytes(b)
		if err != nil {
			return "", err
		}
		if err := a.DecodeFramesParallel(); err != nil {
			return "", err
		}
		return fmt.Sprint(len(a.Frames)), nil
	}},
}

// ---- seeds and mutations ----

type seed struct {
	name string
	data []byte
}

func buildSeeds(rng *Rand) []seed {
	var seeds []seed
	pool := muxh.BuildPool(rng.Fork(), 16)
	add := func(name string, b []byte) { seeds = append(seeds, seed{name, b}) }
	for _, d := range [][2]int{{1, 1}, {9, 7}, {32, 20}} {
		add("lossy", muxh.EncodeFile(rng, d[0], d[1], false, false, 60))
		add("lossless", muxh.EncodeFile(rng, d[0], d[1], true, false, 60))
		add("lossy-alpha", muxh.EncodeFile(rng, d[0], d[1], false, true, 60))
		add("lossless-alpha", muxh.EncodeFile(rng, d[0], d[1], true, true, 60))
	}
	asm := func(f func(m *mux.Muxer)) []byte {
		m := mux.NewMuxer()
		f(m)
		var buf bytes.Buffer
		if err := m.Assemble(&buf); err != nil {
			panic(err)
		}
		return buf.Bytes()
	}
	pick := func(alpha, lossless bool) *muxh.PoolItem {
		for i := range pool {
			j := (i + rng.Intn(len(pool))) % len(pool)
			if (pool[j].Alpha != nil) == alpha && pool[j].Lossless == lossless {
				return &pool[j]
			}
		}
		return &pool[0]
	}
	for k := 0; k < 3; k++ {
		it := pick(false, k%2 == 1)
		add("extended-meta", asm(func(m *mux.Muxer) {
			m.AddFrame(it.Data, nil)
			m.SetICCProfile(rng.Bytes(9))
			m.SetEXIF(rng.Bytes(6))
			m.SetXMP(rng.Bytes(5))
		}))
	}
	for k := 0; k < 5; k++ {
		add("animated", asm(func(m *mux.Muxer) {
			n := 2 + rng.Intn(4)
			for i := 0; i < n; i++ {
				it := pick(i%3 == 1, i%2 == 0)
				m.AddFrame(it.Data, &mux.FrameOptions{Duration: 10 + i, OffsetX: 2 * rng.Intn(3), OffsetY: 2 * rng.Intn(3),
					BlendMode: mux.BlendMode(rng.Intn(2)), DisposeMode: mux.DisposeMode(rng.Intn(2))})
			}
			m.SetCanvasSize(80, 60)
			m.SetLoopCount(rng.Intn(4))
			if k%2 == 0 {
				m.SetEXIF(rng.Bytes(7))
			}
		}))
	}
	return seeds
}

var lenEdits = []uint32{0, 1, 3, 4, 7, 8, 1 << 31, 1<<32 - 1, 0xFFFFFFF6, 0xFFFFFFF7, 0xFFFFFFF8, 0x7FFFFFFF, 1 << 24}

// sizeBoundaries: around MaxChunkPayload (0xFFFFFFF6), uint32 max, int32 max, 2^24
var sizeBoundaries = []uint32{0xFFFFFFF5, 0xFFFFFFF6, 0xFFFFFFF7, 0xFFFFFFF8, 0xFFFFFFF9, 0xFFFFFFFE, 0xFFFFFFFF,
	0x7FFFFFFE, 0x7FFFFFFF, 0x80000000, 0x80000001, 1<<24 - 1, 1 << 24, 1<<24 + 1}

// chunkOffsets returns the offsets of chunk headers (top level and inside ANMF).
func chunkOffsets(b []byte) []int {
	var offs []int
	var walk func(lo, hi int, nest bool)
	walk = func(lo, hi int, nest bool) {
		for lo+8 <= hi {
			offs = append(offs, lo)
			sz := int(binary.LittleEndian.Uint32(b[lo+4 : lo+8]))
			end := lo + 8 + sz
			if end > hi || sz < 0 {
				return
			}
			if nest && string(b[lo:lo+4]) == "ANMF" && sz >= 16 {
				walk(lo+24, end, false)
			}
			lo = end + sz%2
		}
	}
	if len(b) >= 12 {
		walk(12, len(b), true)
	}
	return offs
}

func mutate(rng *Rand, seeds []seed) (string, []byte) {
	s := seeds[rng.Intn(len(seeds))]
	b := append([]byte{}, s.data...)
	offs := chunkOffsets(b)
	put32 := func(at int, v uint32) {
		if at+4 <= len(b) {
			binary.LittleEndian.PutUint32(b[at:], v)
		}
	}
	chunkSpan := func(i int) (int, int) { // [lo,hi) of top-level-or-nested chunk i incl. padding
		lo := offs[i]
		sz := int(binary.LittleEndian.Uint32(b[lo+4 : lo+8]))
		hi := lo + 8 + sz + sz%2
		if hi > len(b) {
			hi = len(b)
		}
		return lo, hi
	}
	// payload spans of the chunks with a given tag (top level and inside ANMF)
	payloads := func(tag string) [][2]int {
		var out [][2]int
		for _, o := range offs {
			if string(b[o:o+4]) == tag {
				sz := int(binary.LittleEndian.Uint32(b[o+4 : o+8]))
				if o+8+sz <= len(b) && sz > 0 {
					out = append(out, [2]int{o + 8, sz})
				}
			}
		}
		return out
	}
	flipIn := func(lo, n, count int) {
		if n <= 0 {
			return
		}
		for i := 0; i < count; i++ {
			p := lo + rng.Intn(n)
			if p < len(b) {
				b[p] ^= 1 << uint(rng.Intn(8))
			}
		}
	}
	switch k := rng.Intn(17); k {
	case 13: // VP8L: transform headers / prefix-code tables (the bits right after the 5-byte header), or deep in the entropy-coded data
		ps := payloads("VP8L")
		if len(ps) == 0 {
			return "random", rng.Bytes(17)
		}
		p := ps[rng.Intn(len(ps))]
		switch rng.Intn(3) {
		case 0:
			flipIn(p[0]+5, minInt(p[1]-5, 12), rng.Range(1, 3)) // transform bits, colour-cache bits, meta prefix codes
		case 1:
			flipIn(p[0]+5, minInt(p[1]-5, 64), rng.Range(1, 4)) // code-length codes / prefix-code tables
		default:
			flipIn(p[0]+5, p[1]-5, rng.Range(1, 3))
		}
		return "vp8l-codec", b
	case 14: // VP8: first-partition size (19 bits in the frame tag), partition bytes, token partition sizes
		ps := payloads("VP8 ")
		if len(ps) == 0 {
			return "random", rng.Bytes(18)
		}
		p := ps[rng.Intn(len(ps))]
		if p[1] < 12 {
			return "vp8-codec", b
		}
		switch rng.Intn(4) {
		case 0: // partition-0 size field
			tag := uint32(b[p[0]]) | uint32(b[p[0]+1])<<8 | uint32(b[p[0]+2])<<16
			sizes := []uint32{0, 1, uint32(p[1]), uint32(p[1]) - 9, uint32(p[1]) - 10, uint32(p[1]) - 11, 1<<19 - 1, (tag >> 5) + 1, (tag >> 5) - 1}
			tag = tag&0x1f | sizes[rng.Intn(len(sizes))]<<5
			b[p[0]], b[p[0]+1], b[p[0]+2] = byte(tag), byte(tag>>8), byte(tag>>16)
		case 1: // frame-tag flag bits (key frame, version, show_frame)
			b[p[0]] ^= byte(1 << uint(rng.Intn(5)))
		case 2: // header / mode partition bytes (segment, filter, quantiser, probability updates)
			flipIn(p[0]+10, minInt(p[1]-10, 40), rng.Range(1, 4))
		default: // anywhere in the partitions
			flipIn(p[0]+10, p[1]-10, rng.Range(1, 3))
		}
		return "vp8-codec", b
	case 15: // ALPH: header byte (compression / filter / pre-processing / reserved bits) and first payload bytes
		ps := payloads("ALPH")
		if len(ps) == 0 {
			return "random", rng.Bytes(19)
		}
		p := ps[rng.Intn(len(ps))]
		if rng.Intn(3) != 0 {
			b[p[0]] = byte(rng.U64())
		} else {
			flipIn(p[0]+1, minInt(p[1]-1, 24), rng.Range(1, 3))
		}
		return "alph-codec", b
	case 16: // swap the bitstreams of two image chunks' sizes: VP8 data under a VP8L tag and vice versa
		for _, o := range offs {
			t := string(b[o : o+4])
			if t == "VP8 " && rng.Bool() {
				b[o+3] = 'L'
				break
			} else if t == "VP8L" && rng.Bool() {
				b[o+3] = ' '
				break
			}
		}
		return "codec-retag", b
	case 0:
		return "random", rng.Bytes(rng.Pick(0, 1, 11, 12, 13, 19, 20, 21, 30, 64, 200))
	case 1: // random bytes behind a valid RIFF/WEBP header
		tags := []string{"VP8 ", "VP8L", "VP8X", "ALPH", "ANMF", "ANIM"}
		p := append([]byte("RIFF\x00\x00\x00\x00WEBP"), []byte(tags[rng.Intn(len(tags))])...)
		p = append(p, rng.Bytes(rng.Range(0, 60))...)
		binary.LittleEndian.PutUint32(p[4:], uint32(rng.Pick(0, 1, 2, 3, 4, 5, 11, 12, len(p)-8, len(p), 1<<31)))
		return "header+random", p
	case 2:
		for i := rng.Range(1, 4); i > 0; i-- {
			b[rng.Intn(len(b))] ^= 1 << uint(rng.Intn(8))
		}
		return "bitflip", b
	case 3:
		for i := rng.Range(1, 6); i > 0; i-- {
			b[rng.Intn(len(b))] = byte(rng.U64())
		}
		return "byteflip", b
	case 4: // RIFF size field
		ed := append([]uint32{uint32(len(b) - 8 + 1), uint32(len(b) - 8 - 1), uint32(len(b))}, lenEdits...)
		put32(4, ed[rng.Intn(len(ed))])
		return "riff-size", b
	case 5: // a chunk size field
		if len(offs) == 0 {
			return "random", rng.Bytes(12)
		}
		at := offs[rng.Intn(len(offs))]
		cur := binary.LittleEndian.Uint32(b[at+4:])
		ed := append([]uint32{cur + 1, cur - 1, uint32(len(b))}, lenEdits...)
		put32(at+4, ed[rng.Intn(len(ed))])
		return "chunk-size", b
	case 6: // truncation
		cut := rng.Intn(len(b) + 1)
		if rng.Bool() && len(b) > 40 {
			cut = rng.Intn(40)
		}
		b = b[:cut]
		if rng.Bool() && len(b) >= 8 {
			put32(4, uint32(len(b)-8)) // consistent RIFF size
		}
		return "truncate", b
	case 7: // drop a chunk
		if len(offs) == 0 {
			return "random", rng.Bytes(13)
		}
		lo, hi := chunkSpan(rng.Intn(len(offs)))
		b = append(b[:lo:lo], b[hi:]...)
		if rng.Bool() {
			put32(4, uint32(len(b)-8))
		}
		return "chunk-drop", b
	case 8: // duplicate a chunk
		if len(offs) == 0 {
			return "random", rng.Bytes(14)
		}
		lo, hi := chunkSpan(rng.Intn(len(offs)))
		dup := append([]byte{}, b[lo:hi]...)
		at, _ := chunkSpan(rng.Intn(len(offs)))
		nb := append(append(append([]byte{}, b[:at]...), dup...), b[at:]...)
		b = nb
		if rng.Bool() {
			put32(4, uint32(len(b)-8))
		}
		return "chunk-dup", b
	case 9: // swap two chunks' tags (reorder in place without moving sizes)
		if len(offs) < 2 {
			return "random", rng.Bytes(15)
		}
		i, j := offs[rng.Intn(len(offs))], offs[rng.Intn(len(offs))]
		for k := 0; k < 4; k++ {
			b[i+k], b[j+k] = b[j+k], b[i+k]
		}
		return "chunk-retag", b
	case 10: // splice: head of one file, tail of another
		o := seeds[rng.Intn(len(seeds))].data
		cut1, cut2 := rng.Intn(len(b)+1), rng.Intn(len(o)+1)
		b = append(b[:cut1:cut1], o[cut2:]...)
		if rng.Bool() && len(b) >= 8 {
			put32(4, uint32(len(b)-8))
		}
		return "splice", b
	case 11: // edit a header field: VP8X / ANMF / VP8 / VP8L dims and flags
		if len(offs) == 0 {
			return "random", rng.Bytes(16)
		}
		at := offs[rng.Intn(len(offs))] + 8
		for i := rng.Range(1, 3); i > 0; i-- {
			p := at + rng.Intn(16)
			if p < len(b) {
				b[p] = byte(rng.Pick(0, 1, 0x7f, 0x80, 0xff, int(rng.U64()&0xff)))
			}
		}
		return "header-field", b
	default:
		return "valid", b
	}
}

func main() {
	Main("c05", func(c *Ctx) {
		debug.SetMemoryLimit(3 << 30)
		rng := c.Rng.Fork()
		seeds := buildSeeds(rng.Fork())
		for _, s := range seeds {
			c.Count("seed-" + s.name)
		}
		c.D.Rule = "an input is non-trivial when it is not a verbatim seed; counted once per (mutation kind, outcome vector over the 8 entry points)"
		c.D.Notes = append(c.D.Notes,
			"TEST, not proof: panics/hangs/allocation of the Go codec loops (VP8/VP8L/ALPH decoders, animation compositing) are covered only by this malformed-stream run",
			fmt.Sprintf("pixel-decoding entry points are skipped when any header in the input declares more than %d pixels (counted as skipped-declared-large)", maxDeclaredArea))

		witness := []byte("RIFF\x02\x00\x00\x00WEBPVP8 ")
		total := 5000
		if c.Thorough() {
			total = 60000
		}
		mrng := rng.Fork()
		// the model's refuted witness and its neighbours run first
		fixed := [][]byte{witness, []byte("RIFF\x03\x00\x00\x00WEBPVP8X"), []byte("RIFF\x00\x00\x00\x00WEBPVP8L\x00\x00\x00\x00"),
			[]byte("RIFF\x04\x00\x00\x00WEBP"), []byte("RIFF\x04\x00\x00\x00WEBPVP8 \x00\x00\x00\x00"), {}, []byte("RIFF")}
		// valid foreign VP8L files (written by the extracted Coq emitter from well-formed plans, not by
		// this package's encoder: > 256 prefix-code groups, all 120 plane codes, widths 1..3 with the
		// distance clamp, cache bits 11, tile bits 9, ...), verbatim through every entry point under the
		// same caps; see corpus/c05/vp8l-foreign/README
		vdir := os.Getenv("VERIF_DIR")
		if vdir == "" {
			vdir = "/verif"
		}
		foreign, _ := filepath.Glob(filepath.Join(vdir, "corpus", "c05", "vp8l-foreign", "*.webp"))
		sort.Strings(foreign)
		if !c.Thorough() && len(foreign) > 120 {
			// the covering plans come first; then every third file
			keep := foreign[:17]
			for i := 17; i < len(foreign); i += 3 {
				keep = append(keep, foreign[i])
			}
			foreign = keep
		}
		for _, f := range foreign {
			b, err := os.ReadFile(f)
			if err != nil {
				continue
			}
			evalInput(c, "foreign-vp8l", b)
		}
		c.Count(fmt.Sprintf("foreign-vp8l-files=%d", len(foreign)))
		// deterministic size-boundary corpus: every chunk header (top level and inside ANMF) of one
		// seed of each kind, and synthetic one-chunk files of every chunk kind, with the size field at
		// each boundary of the uint32 / MaxChunkPayload / int32 / 24-bit arithmetic
		nb := 0
		seenKind := map[string]bool{}
		for _, sd := range seeds {
			if seenKind[sd.name] {
				continue
			}
			seenKind[sd.name] = true
			for _, off := range chunkOffsets(sd.data) {
				for _, v := range sizeBoundaries {
					b := append([]byte{}, sd.data...)
					binary.LittleEndian.PutUint32(b[off+4:], v)
					evalInput(c, "size-boundary", b)
					nb++
				}
			}
		}
		for _, tag := range []string{"VP8 ", "VP8L", "VP8X", "ALPH", "ANIM", "ANMF", "ICCP", "EXIF", "XMP ", "UNKN"} {
			for _, v := range sizeBoundaries {
				for _, extra := range []int{0, 1, 10, 18} {
					b := append([]byte("RIFF\x00\x00\x00\x00WEBP"), []byte(tag)...)
					b = append(b, 0, 0, 0, 0)
					binary.LittleEndian.PutUint32(b[16:], v)
					for k := 0; k < extra; k++ {
						b = append(b, byte(0x2f+k))
					}
					binary.LittleEndian.PutUint32(b[4:], uint32(len(b)-8))
					evalInput(c, "size-boundary", b)
					nb++
					// the same chunk as the second one of an extended file / inside an ANMF payload
					if extra == 10 {
						x := append([]byte("RIFF\x00\x00\x00\x00WEBPVP8X\x0a\x00\x00\x00\x02\x00\x00\x00\x03\x00\x00\x03\x00\x00"), b[12:]...)
						binary.LittleEndian.PutUint32(x[4:], uint32(len(x)-8))
						evalInput(c, "size-boundary", x)
						y := append([]byte("RIFF\x00\x00\x00\x00WEBPVP8X\x0a\x00\x00\x00\x02\x00\x00\x00\x03\x00\x00\x03\x00\x00ANMF\x00\x00\x00\x00"+
							"\x00\x00\x00\x00\x00\x00\x03\x00\x00\x03\x00\x00\x0a\x00\x00\x00"), b[12:]...)
						binary.LittleEndian.PutUint32(y[34:], uint32(len(y)-38))
						binary.LittleEndian.PutUint32(y[4:], uint32(len(y)-8))
						evalInput(c, "size-boundary", y)
						nb += 2
					}
				}
			}
		}
		c.Count(fmt.Sprintf("size-boundary-inputs=%d", nb))
		nw := walkFamily(rng.Fork(), func(kind string, b []byte) { evalInput(c, kind, b) })
		c.Count(fmt.Sprintf("walk-boundary-inputs=%d", nw))
		for i := 0; i < total; i++ {
			var kind string
			var b []byte
			if i < len(fixed) {
				kind, b = "fixed", fixed[i]
			} else {
				kind, b = mutate(mrng, seeds)
			}
			evalInput(c, kind, b)
		}
	})
}

func parserClassLine(b []byte) (line string) {
	defer func() {
		if r := recover(); r != nil {
			line = "panic"
		}
	}()
	if len(b) > webp.MaxInputSize {
		return "err"
	}
	f, err := webp.GetFeatures(bytes.NewReader(b))
	if err != nil {
		return "err"
	}
	return fmt.Sprintf("ok %d", f.FrameCount)
}

func parserClassLineHidden(b []byte) (line string) {
	defer func() {
		if r := recover(); r != nil {
			line = "panic"
		}
	}()
	f, err := webp.GetFeatures(struct{ io.Reader }{bytes.NewReader(b)})
	if err != nil {
		return "err"
	}
	return fmt.Sprintf("ok %d", f.FrameCount)
}

func hexOrDash(b []byte) string {
	if len(b) == 0 {
		return "-"
	}
	return hex.EncodeToString(b)
}

func readChunkLine(c *Ctx, b []byte, hx, kind string) (line string) {
	h, r := "", ""
	func() {
		defer func() {
			if e := recover(); e != nil {
				h = "panic"
				c.Violate("panic-ReadChunkHeader", fmt.Sprint(e), map[string]any{"input_hex": truncate(hx, 4000), "mutation": kind})
			}
		}()
		id, sz, err := mux.ReadChunkHeader(b)
		if err != nil {
			h = "err"
		} else {
			h = fmt.Sprintf("ok %d %d", id, sz)
		}
	}()
	func() {
		defer func() {
			if e := recover(); e != nil {
				r = "panic"
				c.Violate("panic-ReadChunk", fmt.Sprint(e), map[string]any{"input_hex": truncate(hx, 4000), "mutation": kind})
			}
		}()
		ch, n, err := mux.ReadChunk(b)
		if err != nil {
			r = "err"
		} else {
			r = fmt.Sprintf("ok %d %d %s %d", ch.ID, ch.Size, muxh.FmtBytes(ch.Data), n)
		}
	}()
	c.Count("ReadChunk-" + strings.SplitN(r, " ", 2)[0])
	return "H=" + h + " C=" + r
}

func isRiffSizeClass(b []byte) bool {
	return len(b) >= 12 && string(b[0:4]) == "RIFF" && string(b[8:12]) == "WEBP" && binary.LittleEndian.Uint32(b[4:8]) < 4
}

func evalInput(c *Ctx, kind string, b []byte) {
	// exact-size carrier: len == cap, so that a read past the end of the input panics here as it
	// would for a caller's exact slice instead of silently reading spare capacity of the generator's buffer
	exact := make([]byte, len(b))
	copy(exact, b)
	b = exact[:len(exact):len(exact)]
	if len(b) > 0 && len(b) < 4096 {
		// the same bytes with garbage-filled spare capacity behind them: the demuxer outcome must not
		// depend on it (observation only: C17 owns "depends only on the bytes given")
		spare := make([]byte, len(b), len(b)+64)
		copy(spare, b)
		for i := len(b); i < cap(spare); i++ {
			spare[:cap(spare)][i] = byte(0xA5 ^ i)
		}
		l1, _ := muxh.DemuxLine(b)
		l2, _ := muxh.DemuxLine(spare)
		if l1 != l2 {
			c.Count("observation: demuxer result depends on bytes beyond len (spare capacity)")
		}
	}
	c.D.Evaluations++
	c.Count("mut-" + kind)
	hx := "-"
	if len(b) > 0 {
		hx = hex.EncodeToString(b)
	}
	// correspondence with the demuxer model (outcome class + every accessor)
	line, _ := muxh.DemuxLine(b)
	c.Case("demux "+hx, line)
	c.Count("demux-" + line[:minInt(len(line), 5)])

	// container.NewParser (through webp.GetFeatures): outcome class and frame count vs ParserModel.parse_ex
	pl := parserClassLine(b)
	c.Case("pclass "+hx, pl)
	// the same bytes through a reader that hides Len(): readAll then returns io.ReadAll's buffer,
	// which has spare capacity behind the data (observation only; C17 owns carrier independence)
	if pl2 := parserClassLineHidden(b); pl2 != pl {
		c.Count("observation: GetFeatures outcome differs between bytes.Reader and a reader without Len")
	}

	// mux.ReadChunkHeader / mux.ReadChunk called directly on the payload after the RIFF header
	// (and on the raw input), under recover; compared with the model's read_chunk
	for _, at := range []int{12, 0} {
		if at > len(b) || (at == 0 && kind != "size-boundary" && kind != "random") {
			continue
		}
		c.Case("rchunk "+hexOrDash(b[at:]), readChunkLine(c, b[at:], hx, kind))
	}

	big := declaredArea(b) > maxDeclaredArea
	vec := ""
	seqFailed := false
	for _, e := range entries {
		if e.name == "animation.DecodeFramesParallel" {
			// a panic inside the library's worker goroutines cannot be recovered here and would kill the
			// harness: the same frames were just decoded sequentially; skip the parallel call when that
			// already panicked or hung, and leave the input on disk in case the process dies anyway
			if seqFailed {
				c.Count("skipped-parallel-after-sequential-failure")
				vec += "s"
				continue
			}
			os.WriteFile(filepath.Join(c.OutDir, "last_parallel_input.hex"), []byte(hx), 0o644)
		}
		if hung[e.name] >= 2 {
			// this entry point already hung twice (each leaves a spinning goroutine behind):
			// the violation is recorded, do not burn the rest of the run on it
			c.Count("skipped-after-timeouts")
			vec += "x"
			continue
		}
		if e.pixels && big {
			c.Count("skipped-declared-large")
			vec += "s"
			continue
		}
		o := guarded(func() (string, error) { return e.run(b) })
		flushObservations(c)
		vec += o.class[:1]
		c.Count(e.name + "-" + o.class)
		if o.class == "timeout" {
			// a loaded machine can exceed the cap: the first timeout of a run is confirmed with a three
			// times longer limit before it is called a hang ("in time ... proportional to the input
			// length plus the declared size"); once one hang is confirmed, later timeouts are taken as is
			if !hangConfirmed {
				if o2 := guardedFor(3*callTimeout, func() (string, error) { return e.run(b) }); o2.class != "timeout" {
					c.Count("observation: slow call (over the cap once, finished on the retry): " + e.name)
					o = o2
					vec = vec[:len(vec)-1] + o.class[:1]
				} else {
					hangConfirmed = true
				}
				flushObservations(c)
			}
			if o.class == "timeout" {
				hung[e.name]++
			}
		}
		if (o.class == "panic" || o.class == "timeout") && e.name == "animation.DecodeFrames+AnimDecoder" {
			seqFailed = true
		}
		if o.class == "panic" || o.class == "timeout" {
			key := o.class + "-" + e.name
			if o.class == "panic" && strings.HasPrefix(o.info, "ILL-FORMED") {
				key = "ill-formed-result-" + e.name
			} else if o.class == "panic" && strings.HasPrefix(o.info, "LOOPING") {
				key = "looping-" + e.name
			}
			if o.class == "panic" && isRiffSizeClass(b) && (e.name == "Demuxer" || e.name[:9] == "animation") {
				key = "demux-riff-size-panic"
			}
			c.Violate(key, fmt.Sprintf("%s: %s %s", e.name, o.class, truncate(o.info, 200)), map[string]any{"input_hex": truncate(hx, 4000), "len": len(b), "mutation": kind})
		}
	}
	if kind != "valid" {
		c.Nontrivial(kind + "-" + vec)
	}
	if kind != "valid" && kind != "fixed" {
		c.Sample(map[string]any{"mutation": kind, "len": len(b), "outcomes": vec, "demux": truncate(line, 120)})
	}
}

func minInt(a, b int) int {
	if a < b {
		return a
	}
	return b
}

func truncate(s string, n int) string {
	if len(s) > n {
		return s[:n] + "..."
	}
	return s
}
