package main

// C11 — results do not depend on what was encoded or decoded before.
//
// Differential history run.  Histories of 2..6 public-API calls, drawn to force
// reuse of the pooled encoders / decoders / buffers, are executed inside this one
// long-lived process with GOMAXPROCS=1 and the garbage collector disabled for the
// duration of a history (sync.Pool then keeps every object that is Put).  Every
// call's result (bytes / pixels / error-or-not) is compared with the result of the
// same call executed as the FIRST call of a fresh process (this binary re-executed
// with the sub-command "child"; one child per distinct call, results cached).
// After every call the checksums of all values returned earlier in the history are
// re-verified (returned values are never modified later).
//
// Reuse evidence: bytes allocated by the call inside the history
// (runtime.MemStats.TotalAlloc delta) against the bytes the same call allocates in
// the child when it is run a second time after the pools have been emptied
// (two runtime.GC() cycles) — i.e. with all one-time initialisation done but no
// pooled object available.  A history counts as non-trivial only if at least one
// of its calls allocated measurably less than that.
//
// There is no extracted model to run for this property: c.Case stays unused.

import (
	"bytes"
	"crypto/sha256"
	"encoding/binary"
	"encoding/hex"
	"encoding/json"
	"fmt"
	"image"
	"image/color"
	"io"
	"os"
	"os/exec"
	"path/filepath"
	"runtime"
	"runtime/debug"
	"sort"
	"strings"
	"sync"
	"time"

	"github.com/deepteams/webp"
	"github.com/deepteams/webp/animation"
	"github.com/deepteams/webp/sharpyuv"

	. "verifharness/hlib"
)

// ---------------------------------------------------------------- call descriptors

type ImgSpec struct {
	W, H   int
	Kind   string // noise | grad | blocks | pal | flat
	Seed   uint64
	Colors int    // for pal
	Alpha  int    // 0 opaque, 1 binary blocks, 2 gradient, 3 random, 4 transparent corner + random band
	Type   string // nrgba | rgba
}

type OptSpec struct {
	Lossless                bool
	Q                       float32
	Method, Preset          int
	Sharp, Exact            bool
	TargetSize              int
	TargetPSNR              float32
	Preproc                 int
	SNS, FStr, FSharp, FTyp int
	Parts, Segs, Pass       int
	QMin, QMax              int
	AComp, AFilt, AQual     int
	Meta                    bool
	PreprocOr               int `json:",omitempty"` // OR-ed into Preprocessing after the preset was applied
}

type AnimSpec struct {
	CW, CH   int
	Frames   []ImgSpec
	Lossless bool
	Mixed    bool
	Q        int
	Kmin     int
	Kmax     int
}

type Call struct {
	Op   string    `json:"op"` // enc | dec | cfg | feat | animenc | animdec
	Img  *ImgSpec  `json:"img,omitempty"`
	Opt  *OptSpec  `json:"opt,omitempty"`
	Anim *AnimSpec `json:"anim,omitempty"`
	File string    `json:"file,omitempty"` // input bytes (decode ops)
	Tag  string    `json:"tag,omitempty"`  // what the file is (vp8, vp8+alpha, vp8l, anim…, -trunc, -corrupt)
}

func (c *Call) key() string {
	b, _ := json.Marshal(c)
	return string(b)
}

// ---------------------------------------------------------------- images

type prng struct{ s uint64 }

func (r *prng) next() uint64 {
	r.s += 0x9E3779B97F4A7C15
	z := r.s
	z = (z ^ (z >> 30)) * 0xBF58476D1CE4E5B9
	z = (z ^ (z >> 27)) * 0x94D049BB133111EB
	return z ^ (z >> 31)
}

func makeImage(s *ImgSpec) image.Image {
	r := &prng{s.Seed*2654435761 + 17}
	im := image.NewNRGBA(image.Rect(0, 0, s.W, s.H))
	var palette []color.NRGBA
	if s.Kind == "pal" {
		n := s.Colors
		if n < 1 {
			n = 1
		}
		for i := 0; i < n; i++ {
			v := r.next()
			palette = append(palette, color.NRGBA{byte(v), byte(v >> 8), byte(v >> 16), 255})
		}
	}
	flat := r.next()
	var blockCol [64]uint64
	for i := range blockCol {
		blockCol[i] = r.next()
	}
	for y := 0; y < s.H; y++ {
		for x := 0; x < s.W; x++ {
			var c color.NRGBA
			switch s.Kind {
			case "noise":
				v := r.next()
				c = color.NRGBA{byte(v), byte(v >> 8), byte(v >> 16), 255}
			case "grad":
				v := r.next()
				c = color.NRGBA{byte(x*255/maxi(1, s.W-1)) ^ byte(v&3), byte(y * 255 / maxi(1, s.H-1)), byte((x + y) * 3), 255}
			case "blocks":
				v := blockCol[((y/8)*7+(x/8)*3)&63]
				c = color.NRGBA{byte(v), byte(v >> 8), byte(v >> 16), 255}
				if (x%8 == 3) != (y%8 == 5) {
					c.R ^= 0x80
				}
			case "pal":
				c = palette[int(r.next()%uint64(len(palette)))]
			default: // flat
				c = color.NRGBA{byte(flat), byte(flat >> 8), byte(flat >> 16), 255}
			}
			switch s.Alpha {
			case 1:
				if ((x/5)+(y/3))%3 == 0 {
					c.A = 0
				}
			case 2:
				c.A = byte(x * 255 / maxi(1, s.W-1))
			case 3:
				c.A = byte(r.next())
			case 4: // transparent corner, semi-transparent random band on the right
				if x < s.W/3 && y < s.H/2 {
					c.A = 0
				} else if x > 2*s.W/3 {
					c.A = byte(40 + r.next()%200)
				}
			}
			im.SetNRGBA(x, y, c)
		}
	}
	if s.Type == "rgba" {
		out := image.NewRGBA(im.Rect)
		for y := 0; y < s.H; y++ {
			for x := 0; x < s.W; x++ {
				out.Set(x, y, im.NRGBAAt(x, y))
			}
		}
		return out
	}
	return im
}

func maxi(a, b int) int {
	if a > b {
		return a
	}
	return b
}

func makeOpts(o *OptSpec) *webp.EncoderOptions {
	var e *webp.EncoderOptions
	if o.Preset > 0 {
		e = webp.OptionsForPreset(webp.Preset(o.Preset), o.Q)
	} else {
		e = webp.DefaultOptions()
		e.Quality = o.Q
	}
	e.Lossless = o.Lossless
	e.Method = o.Method
	e.UseSharpYUV = o.Sharp
	e.Exact = o.Exact
	e.TargetSize = o.TargetSize
	e.TargetPSNR = o.TargetPSNR
	if o.Preset == 0 {
		e.Preprocessing = o.Preproc
		e.SNSStrength = o.SNS
		e.FilterStrength = o.FStr
		e.FilterSharpness = o.FSharp
		e.Segments = o.Segs
	}
	e.Preprocessing |= o.PreprocOr
	e.FilterType = o.FTyp
	e.Partitions = o.Parts
	e.Pass = o.Pass
	e.QMin = o.QMin
	e.QMax = o.QMax
	e.AlphaCompression = o.AComp
	e.AlphaFiltering = o.AFilt
	e.AlphaQuality = o.AQual
	if o.Meta {
		e.EXIF = []byte("Exif\x00\x00verif-c11")
		e.XMP = []byte("<x:xmpmeta/>")
	}
	return e
}

// ---------------------------------------------------------------- executing one call

// retained is a value handed back to the caller whose storage must stay untouched.
type retained struct {
	name string
	bufs [][]byte
	sum  string
}

func sumBufs(bufs [][]byte) string {
	h := sha256.New()
	for _, b := range bufs {
		var n [8]byte
		binary.LittleEndian.PutUint64(n[:], uint64(len(b)))
		h.Write(n[:])
		h.Write(b)
	}
	return hex.EncodeToString(h.Sum(nil)[:12])
}

func imageBufs(img image.Image) (string, [][]byte) {
	switch m := img.(type) {
	case *image.NRGBA:
		return fmt.Sprintf("NRGBA %v stride=%d", m.Rect, m.Stride), [][]byte{m.Pix}
	case *image.RGBA:
		return fmt.Sprintf("RGBA %v stride=%d", m.Rect, m.Stride), [][]byte{m.Pix}
	case *image.YCbCr:
		return fmt.Sprintf("YCbCr %v ys=%d cs=%d ratio=%v", m.Rect, m.YStride, m.CStride, m.SubsampleRatio), [][]byte{m.Y, m.Cb, m.Cr}
	case nil:
		return "nil", nil
	}
	// generic
	b := img.Bounds()
	buf := make([]byte, 0, b.Dx()*b.Dy()*8)
	for y := b.Min.Y; y < b.Max.Y; y++ {
		for x := b.Min.X; x < b.Max.X; x++ {
			r, g, bb, a := img.At(x, y).RGBA()
			buf = append(buf, byte(r>>8), byte(r), byte(g>>8), byte(g), byte(bb>>8), byte(bb), byte(a>>8), byte(a))
		}
	}
	return fmt.Sprintf("%T %v", img, b), [][]byte{buf}
}

// prepared holds everything built BEFORE the measured call (inputs are not part of it).
type prepared struct {
	img    image.Image
	opts   *webp.EncoderOptions
	data   []byte
	frames []image.Image
}

func prepare(c *Call) (*prepared, error) {
	p := &prepared{}
	if c.Img != nil {
		p.img = makeImage(c.Img)
	}
	if c.Opt != nil {
		p.opts = makeOpts(c.Opt)
	}
	if c.File != "" {
		b, err := os.ReadFile(c.File)
		if err != nil {
			return nil, err
		}
		p.data = b
	}
	if c.Anim != nil {
		for i := range c.Anim.Frames {
			p.frames = append(p.frames, makeImage(&c.Anim.Frames[i]))
		}
	}
	return p, nil
}

// execCall runs the call; digest is canonical (no error text, no addresses).
func execCall(c *Call, p *prepared) (digest string, failed bool, keep []retained) {
	defer func() {
		if r := recover(); r != nil {
			digest = "panic"
			failed = true
		}
	}()
	switch c.Op {
	case "enc":
		var buf bytes.Buffer
		err := webp.Encode(&buf, p.img, p.opts)
		if err != nil {
			return "err", true, nil
		}
		out := buf.Bytes()
		return fmt.Sprintf("bytes %d %s", len(out), sumBufs([][]byte{out})), false, []retained{{"encoded bytes", [][]byte{out}, ""}}
	case "dec":
		img, err := webp.Decode(bytes.NewReader(p.data))
		if err != nil {
			return "err", true, nil
		}
		desc, bufs := imageBufs(img)
		return desc + " " + sumBufs(bufs), false, []retained{{"decoded image", bufs, ""}}
	case "cfg":
		cfg, err := webp.DecodeConfig(bytes.NewReader(p.data))
		if err != nil {
			return "err", true, nil
		}
		return fmt.Sprintf("cfg %dx%d %T", cfg.Width, cfg.Height, cfg.ColorModel), false, nil
	case "feat":
		f, err := webp.GetFeatures(bytes.NewReader(p.data))
		if err != nil {
			return "err", true, nil
		}
		return fmt.Sprintf("feat %+v", *f), false, nil
	case "animenc":
		var buf bytes.Buffer
		a := c.Anim
		enc := animation.NewEncoder(&buf, a.CW, a.CH, &animation.EncodeOptions{Quality: a.Q, Lossless: a.Lossless, AllowMixed: a.Mixed, Kmin: a.Kmin, Kmax: a.Kmax})
		for i, f := range p.frames {
			if err := enc.AddFrame(f, time.Duration(40+10*i)*time.Millisecond); err != nil {
				return fmt.Sprintf("err-add-%d", i), true, nil
			}
		}
		if err := enc.Close(); err != nil {
			return "err-close", true, nil
		}
		out := buf.Bytes()
		return fmt.Sprintf("bytes %d %s", len(out), sumBufs([][]byte{out})), false, []retained{{"animation bytes", [][]byte{out}, ""}}
	case "frenc": // the exported frame-encoder hook (set by package webp): raw VP8 / VP8L bitstream
		if animation.FrameEncoderFunc == nil {
			return "no-hook", true, nil
		}
		out, err := animation.FrameEncoderFunc(p.img, c.Opt.Lossless, int(c.Opt.Q))
		if err != nil {
			return "err", true, nil
		}
		return fmt.Sprintf("bytes %d %s", len(out), sumBufs([][]byte{out})), false, []retained{{"FrameEncoderFunc bitstream", [][]byte{out}, ""}}
	case "animframes": // DecodeBytes, then the exported frame-decoder hook on every frame
		anim, err := animation.DecodeBytes(p.data)
		if err != nil {
			return "err", true, nil
		}
		if animation.FrameDecoderFunc == nil {
			return "no-hook", true, nil
		}
		h := sha256.New()
		var imgs, raw [][]byte
		for i := range anim.Frames {
			f := &anim.Frames[i]
			raw = append(raw, f.BitstreamData, f.AlphaData)
			img, err := animation.FrameDecoderFunc(f.BitstreamData, f.AlphaData)
			if err != nil {
				return fmt.Sprintf("err-frame-%d", i), true, nil
			}
			fmt.Fprintf(h, "%v %d|", img.Rect, img.Stride)
			h.Write(img.Pix)
			imgs = append(imgs, img.Pix)
		}
		return fmt.Sprintf("frames %d %s", len(anim.Frames), hex.EncodeToString(h.Sum(nil)[:12])), false,
			[]retained{{"FrameDecoderFunc images", imgs, ""}, {"Frames' BitstreamData/AlphaData from DecodeBytes", raw, ""}}
	case "animdec":
		anim, err := animation.DecodeBytes(p.data)
		if err != nil {
			return "err", true, nil
		}
		d, err := animation.NewAnimDecoder(anim)
		if err != nil {
			return "err-newdec", true, nil
		}
		h := sha256.New()
		n := 0
		var keepBufs [][]byte
		for d.HasNext() {
			fr, dur, err := d.NextFrame()
			if err != nil {
				return fmt.Sprintf("err-frame-%d", n), true, nil
			}
			fmt.Fprintf(h, "%v %d %d|", fr.Rect, fr.Stride, dur)
			h.Write(fr.Pix)
			keepBufs = append(keepBufs, fr.Pix)
			n++
		}
		return fmt.Sprintf("anim %dx%d frames=%d %s", anim.CanvasWidth, anim.CanvasHeight, n, hex.EncodeToString(h.Sum(nil)[:12])), false,
			[]retained{{"animation snapshots", keepBufs, ""}}
	}
	return "unknown-op", true, nil
}

func totalAlloc() uint64 {
	var ms runtime.MemStats
	runtime.ReadMemStats(&ms)
	return ms.TotalAlloc
}

func emptyPools() {
	debug.SetGCPercent(100)
	runtime.GC()
	runtime.GC() // second cycle drops sync.Pool's victim cache
	debug.SetGCPercent(-1)
}

// ---------------------------------------------------------------- child: fresh-process evaluation

type childResult struct {
	Digest  string `json:"digest"`
	Failed  bool   `json:"failed"`
	Alloc1  uint64 `json:"alloc1"`  // first call of the process
	Digest2 string `json:"digest2"` // same call again after the pools were emptied
	Alloc2  uint64 `json:"alloc2"`  // … its allocation: warm process, no pooled object
	Err     string `json:"err,omitempty"`
}

func childMain() {
	runtime.GOMAXPROCS(procsFromEnv())
	debug.SetGCPercent(-1)
	var res childResult
	var c Call
	in, _ := io.ReadAll(os.Stdin)
	if err := json.Unmarshal(in, &c); err != nil {
		res.Err = "bad call: " + err.Error()
	} else if p, err := prepare(&c); err != nil {
		res.Err = "prepare: " + err.Error()
	} else {
		a0 := totalAlloc()
		res.Digest, res.Failed, _ = execCall(&c, p)
		res.Alloc1 = totalAlloc() - a0
		emptyPools()
		p2, _ := prepare(&c)
		a0 = totalAlloc()
		res.Digest2, _, _ = execCall(&c, p2)
		res.Alloc2 = totalAlloc() - a0
	}
	b, _ := json.Marshal(res)
	os.Stdout.Write(b)
}

func procsFromEnv() int {
	if os.Getenv("C11_PROCS") == "4" {
		return 4
	}
	return 1
}

type freshCache struct {
	mu  sync.Mutex
	m   map[string]*childResult
	exe string
	n   int
}

func (f *freshCache) get(c *Call, procs int) *childResult {
	k := fmt.Sprintf("%d|%s", procs, c.key())
	f.mu.Lock()
	if r, ok := f.m[k]; ok {
		f.mu.Unlock()
		return r
	}
	f.mu.Unlock()
	r := f.spawn(c, procs)
	f.mu.Lock()
	f.m[k] = r
	f.n++
	f.mu.Unlock()
	return r
}

func (f *freshCache) spawn(c *Call, procs int) *childResult {
	cmd := exec.Command(f.exe, "child")
	cmd.Stdin = strings.NewReader(c.key())
	cmd.Env = append(os.Environ(), fmt.Sprintf("C11_PROCS=%d", procs))
	var out, errb bytes.Buffer
	cmd.Stdout = &out
	cmd.Stderr = &errb
	res := &childResult{}
	if err := cmd.Run(); err != nil {
		res.Err = "child failed: " + err.Error() + " " + tail(errb.String(), 300)
		res.Digest = "child-crash"
		return res
	}
	if err := json.Unmarshal(out.Bytes(), res); err != nil {
		res.Err = "child output: " + err.Error()
		res.Digest = "child-crash"
	}
	return res
}

// prefetch computes the fresh results of many calls concurrently.
func (f *freshCache) prefetch(calls []*Call, procs, workers int) {
	ch := make(chan *Call)
	var wg sync.WaitGroup
	for i := 0; i < workers; i++ {
		wg.Add(1)
		go func() {
			defer wg.Done()
			for c := range ch {
				f.get(c, procs)
			}
		}()
	}
	seen := map[string]bool{}
	for _, c := range calls {
		if k := c.key(); !seen[k] {
			seen[k] = true
			ch <- c
		}
	}
	close(ch)
	wg.Wait()
}

func mustJSON(v any) string {
	b, err := json.Marshal(v)
	if err != nil {
		return "{}"
	}
	if len(b) > 2500 {
		b = b[:2500]
	}
	return string(b)
}

func tail(s string, n int) string {
	if len(s) > n {
		return s[len(s)-n:]
	}
	return s
}

// ---------------------------------------------------------------- input library for decode calls

type libFile struct {
	Path string
	Tag  string // vp8 | vp8a | vp8l | anim-vp8 | anim-vp8l | anim-mixed, with -trunc / -corrupt suffix
}

func codecOfTag(tag string) string {
	switch {
	case strings.HasPrefix(tag, "anim-vp8l"):
		return "vp8l"
	case strings.HasPrefix(tag, "anim-mixed"):
		return "mixed"
	case strings.HasPrefix(tag, "anim-vp8"):
		return "vp8"
	case strings.HasPrefix(tag, "vp8l"):
		return "vp8l"
	}
	return "vp8"
}

// fixSizes rewrites the RIFF size and the size of the chunk that a cut went through,
// so that the container layer accepts the file and the truncation reaches the
// bitstream decoder.
func fixSizes(b []byte) []byte {
	if len(b) < 24 || string(b[0:4]) != "RIFF" {
		return b
	}
	off := 12
	for off+8 <= len(b) {
		size := int(binary.LittleEndian.Uint32(b[off+4:]))
		if off+8+size > len(b) {
			if (len(b)-(off+8))&1 == 1 {
				b = b[:len(b)-1]
			}
			binary.LittleEndian.PutUint32(b[off+4:], uint32(len(b)-(off+8)))
			break
		}
		off += 8 + size + (size & 1)
	}
	if off+8 > len(b) && off < len(b) {
		b = b[:off] // cut inside a chunk header: drop the partial header
	}
	binary.LittleEndian.PutUint32(b[4:], uint32(len(b)-8))
	return b
}

// riffSimple wraps a raw VP8 key frame in a simple RIFF/WEBP container.
func riffSimple(payload []byte) []byte {
	n := len(payload)
	pad := n & 1
	out := make([]byte, 0, 20+n+pad)
	out = append(out, "RIFF"...)
	out = binary.LittleEndian.AppendUint32(out, uint32(4+8+n+pad))
	out = append(out, "WEBPVP8 "...)
	out = binary.LittleEndian.AppendUint32(out, uint32(n))
	out = append(out, payload...)
	if pad == 1 {
		out = append(out, 0)
	}
	return out
}

func buildLibrary(c *Ctx, dir string) []libFile {
	os.MkdirAll(dir, 0o755)
	rng := c.Rng.Fork()
	var lib []libFile
	n := 0
	put := func(tag string, data []byte) {
		p := filepath.Join(dir, fmt.Sprintf("%03d-%s.webp", n, tag))
		n++
		if err := os.WriteFile(p, data, 0o644); err != nil {
			panic(err)
		}
		lib = append(lib, libFile{p, tag})
	}
	encode := func(is *ImgSpec, os_ *OptSpec) []byte {
		var buf bytes.Buffer
		if err := webp.Encode(&buf, makeImage(is), makeOpts(os_)); err != nil {
			return nil
		}
		return buf.Bytes()
	}
	variants := func(tag string, data []byte) {
		if data == nil {
			return
		}
		put(tag, data)
		// truncations that reach the bitstream decoder, and plain cuts
		for _, frac := range []int{35, 60, 85} {
			cut := len(data) * frac / 100
			if cut < 30 {
				continue
			}
			t := append([]byte(nil), data[:cut]...)
			put(tag+"-trunc", fixSizes(t))
		}
		// payload corruption
		for k := 0; k < 2; k++ {
			t := append([]byte(nil), data...)
			for j := 0; j < 3; j++ {
				pos := 30 + rng.Intn(maxi(1, len(t)-30))
				if pos < len(t) {
					t[pos] ^= byte(1 << uint(rng.Intn(8)))
				}
			}
			put(tag+"-corrupt", t)
		}
	}
	dflt := func() OptSpec {
		return OptSpec{Q: 75, Method: 4, SNS: -1, FStr: -1, FTyp: -1, Segs: -1, Pass: -1, QMax: -1, AComp: -1, AFilt: -1, AQual: -1}
	}
	sizes := [][2]int{{64, 64}, {48, 48}, {33, 20}, {100, 37}, {17, 90}}
	if c.Thorough() {
		sizes = append(sizes, [2]int{200, 150}, [2]int{16, 16}, [2]int{130, 130})
	}
	for i, sz := range sizes {
		// lossy, several bitstream shapes
		o := dflt()
		o.Q = float32(40 + 15*(i%4))
		o.Parts = i % 4
		o.Segs = 1 + i%4
		o.FTyp = i % 2
		o.FSharp = i % 8
		kind := []string{"blocks", "noise", "grad"}[i%3]
		variants("vp8", encode(&ImgSpec{W: sz[0], H: sz[1], Kind: kind, Seed: uint64(100 + i), Type: "nrgba"}, &o))
		// lossy + alpha (lossless-compressed and raw ALPH, three filters)
		oa := dflt()
		oa.AComp = i % 2
		oa.AFilt = i % 3
		oa.AQual = []int{100, 60, 100}[i%3]
		variants("vp8a", encode(&ImgSpec{W: sz[0], H: sz[1], Kind: kind, Seed: uint64(200 + i), Alpha: 1 + i%3, Type: "nrgba"}, &oa))
		// lossless: palettes of different sizes, noise, with alpha
		ol := dflt()
		ol.Lossless = true
		ol.Method = []int{0, 4, 6, 2, 5}[i%5]
		ol.Q = float32([]int{20, 75, 100, 50, 90}[i%5])
		variants("vp8l", encode(&ImgSpec{W: sz[0], H: sz[1], Kind: "pal", Colors: []int{2, 5, 17, 200, 3}[i%5], Seed: uint64(300 + i), Type: "nrgba"}, &ol))
		variants("vp8l", encode(&ImgSpec{W: sz[1], H: sz[0], Kind: []string{"noise", "grad", "blocks"}[i%3], Seed: uint64(400 + i), Alpha: i % 4, Type: "nrgba"}, &ol))
	}
	// 4 segments with weak filtering: some segments end at filter level 0 while others are
	// filtered (Decoder.fstrengths keeps FILevel/HevThresh of level-0 segments unwritten)
	for i, fs := range []int{3, 8, 15} {
		o := dflt()
		o.Segs, o.SNS, o.FStr, o.FTyp, o.FSharp, o.Q = 4, 100, fs, i%2, i*3, float32(30+30*i)
		half := &ImgSpec{W: 64, H: 48, Kind: "blocks", Seed: uint64(600 + i), Type: "nrgba"}
		img := makeImage(half).(*image.NRGBA)
		for y := 0; y < 48; y++ { // left half flat, right half textured: distinct segments
			for x := 0; x < 32; x++ {
				img.SetNRGBA(x, y, color.NRGBA{120, 130, 140, 255})
			}
		}
		var buf bytes.Buffer
		if webp.Encode(&buf, img, makeOpts(&o)) == nil {
			put("vp8", buf.Bytes())
		}
	}
	// foreign VP8 key frames (independent emitter): header shapes the library's encoder never
	// produces.  Tag suffixes: segupd = segmentation on, per-segment values transmitted;
	// segnoupd = segmentation on, NO data update (relies on the decoder's defaults);
	// lfnoupd = loop-filter deltas enabled but not transmitted.
	nForeign := 36
	if c.Thorough() {
		nForeign = 200
	}
	for i := 0; i < nForeign; i++ {
		fr := rng.Fork()
		feat := ""
		if i%3 == 1 {
			feat = "segnoupd"
		}
		p := randPlan(fr, 64, feat)
		if i%3 == 0 { // make sure plenty of frames transmit non-trivial segment values
			p.segEnabled, p.segUpdData, p.segUpdMap = true, true, true
			p.segAbs = i%2 == 0
			for k := 0; k < 4; k++ {
				p.segQP[k], p.segLFP[k] = true, true
				if p.segAbs {
					p.segQ[k], p.segLF[k] = 20+fr.Intn(100), 5+fr.Intn(58)
				} else {
					p.segQ[k], p.segLF[k] = fr.Range(-30, 30), fr.Range(-15, 15)
					if v := p.level + p.segLF[k]; v < 0 || v > 63 {
						p.segLF[k] = 0
					}
				}
			}
		}
		payload := p.emit(fr)
		tag := "vp8f"
		switch {
		case p.segEnabled && p.segUpdData:
			tag += "segupd"
		case p.segEnabled:
			tag += "segnoupd"
		}
		if p.deltaEn && !p.deltaUpd {
			tag += "lfnoupd"
		}
		put(tag, riffSimple(payload))
	}
	// animations
	for i := 0; i < 3; i++ {
		as := &AnimSpec{CW: 40 + 8*i, CH: 32, Lossless: i == 1, Mixed: i == 2, Q: 70, Kmin: 0, Kmax: 0}
		for f := 0; f < 3; f++ {
			as.Frames = append(as.Frames, ImgSpec{W: as.CW, H: as.CH, Kind: []string{"blocks", "pal", "grad"}[(i+f)%3], Colors: 6, Seed: uint64(500 + 10*i + f), Alpha: (i + f) % 3, Type: "nrgba"})
		}
		call := &Call{Op: "animenc", Anim: as}
		p, _ := prepare(call)
		var buf bytes.Buffer
		enc := animation.NewEncoder(&buf, as.CW, as.CH, &animation.EncodeOptions{Quality: as.Q, Lossless: as.Lossless, AllowMixed: as.Mixed})
		ok := true
		for j, fr := range p.frames {
			if enc.AddFrame(fr, time.Duration(50+j)*time.Millisecond) != nil {
				ok = false
			}
		}
		if enc.Close() != nil || !ok {
			continue
		}
		tag := []string{"anim-vp8", "anim-vp8l", "anim-mixed"}[i]
		put(tag, buf.Bytes())
		t := append([]byte(nil), buf.Bytes()...)
		if len(t) > 200 {
			for j := 0; j < 4; j++ {
				t[len(t)/2+j*7] ^= 0x55
			}
			put(tag+"-corrupt", t)
		}
	}
	return lib
}

// ---------------------------------------------------------------- history generators

type history struct {
	Group string
	Procs int
	Calls []*Call
}

type gen struct {
	rng *Rand
	lib []libFile
}

func (g *gen) pickLib(pred func(string) bool) *libFile {
	var idx []int
	for i := range g.lib {
		if pred(g.lib[i].Tag) {
			idx = append(idx, i)
		}
	}
	if len(idx) == 0 {
		return &g.lib[0]
	}
	return &g.lib[idx[g.rng.Intn(len(idx))]]
}

func (g *gen) decCall(f *libFile) *Call {
	op := "dec"
	if strings.HasPrefix(f.Tag, "anim") {
		op = "animdec"
	}
	return &Call{Op: op, File: f.Path, Tag: f.Tag}
}

func (g *gen) lossyOpts() *OptSpec {
	r := g.rng
	o := &OptSpec{Q: float32(r.Pick(0, 10, 30, 50, 75, 90, 100)), Method: r.Intn(7), SNS: r.Pick(-1, 0, 25, 50, 80, 100),
		FStr: r.Pick(-1, 0, 10, 35, 60, 100), FSharp: r.Intn(8), FTyp: r.Pick(-1, 0, 1), Parts: r.Intn(4), Segs: r.Pick(-1, 1, 2, 3, 4),
		Pass: r.Pick(-1, 1, 2, 4, 6), QMin: 0, QMax: -1, AComp: r.Pick(-1, 0, 1), AFilt: r.Pick(-1, 0, 1, 2), AQual: r.Pick(-1, 100, 70, 20),
		Preproc: r.Intn(4)}
	switch r.Intn(8) {
	case 0:
		o.Preset = 1 + r.Intn(5)
	case 1:
		o.TargetSize = r.Pick(300, 800, 2000)
		o.Pass = r.Pick(2, 4, 6)
	case 2:
		o.TargetPSNR = float32(r.Pick(30, 38, 44))
		o.Pass = r.Pick(2, 4)
	case 3:
		o.Sharp = true
	case 4:
		o.QMin, o.QMax = r.Pick(0, 20), r.Pick(60, 100)
	case 5:
		o.Meta = true
	}
	return o
}

func (g *gen) losslessOpts() *OptSpec {
	r := g.rng
	return &OptSpec{Lossless: true, Q: float32(r.Pick(0, 20, 50, 75, 100)), Method: r.Intn(7), Exact: r.Bool(), Meta: r.Intn(5) == 0,
		SNS: -1, FStr: -1, FTyp: -1, Segs: -1, Pass: -1, QMax: -1, AComp: -1, AFilt: -1, AQual: -1}
}

func (g *gen) img(w, h int) *ImgSpec {
	r := g.rng
	return &ImgSpec{W: w, H: h, Kind: []string{"noise", "grad", "blocks", "pal", "flat"}[r.Intn(5)], Seed: r.U64() % 1000, Colors: r.Pick(2, 4, 16, 100),
		Alpha: r.Pick(0, 0, 1, 2, 3), Type: []string{"nrgba", "nrgba", "rgba"}[r.Intn(3)]}
}

// dimsSameMB returns sizes sharing one (mbW, mbH).
func (g *gen) dimsSameMB(big bool) [][2]int {
	r := g.rng
	mbw, mbh := 1+r.Intn(4), 1+r.Intn(4)
	if big {
		mbw, mbh = 4+r.Intn(6), 4+r.Intn(6)
	}
	var out [][2]int
	for i := 0; i < 6; i++ {
		out = append(out, [2]int{16*mbw - r.Intn(16), 16*mbh - r.Intn(16)})
	}
	return out
}

func (g *gen) history(group string) *history {
	r := g.rng
	n := 2 + r.Intn(5)
	h := &history{Group: group, Procs: 1}
	switch group {
	case "lossy-enc-same-mb": // same (mbW,mbH), different options, sizes, alpha, content
		dims := g.dimsSameMB(r.Intn(4) == 0)
		for i := 0; i < n; i++ {
			d := dims[r.Intn(len(dims))]
			h.Calls = append(h.Calls, &Call{Op: "enc", Img: g.img(d[0], d[1]), Opt: g.lossyOpts()})
		}
	case "lossy-enc-option-pairs": // identical image, one option family varied at a time
		dims := g.dimsSameMB(false)
		d := dims[0]
		im := g.img(d[0], d[1])
		base := g.lossyOpts()
		base.Preset, base.TargetSize, base.TargetPSNR = 0, 0, 0
		for i := 0; i < n; i++ {
			o := *base
			switch r.Intn(8) {
			case 0:
				o.Segs = r.Pick(1, 2, 3, 4)
			case 1:
				o.Parts = r.Intn(4)
			case 2:
				o.FStr, o.FTyp, o.FSharp = r.Pick(0, 20, 60, 100), r.Intn(2), r.Intn(8)
			case 3:
				o.SNS = r.Pick(0, 50, 100)
			case 4:
				o.Method = r.Intn(7)
			case 5:
				o.Pass = r.Pick(1, 3, 6)
			case 6:
				o.TargetSize, o.Pass = r.Pick(400, 1500), r.Pick(2, 5)
			case 7:
				o.Q = float32(r.Pick(5, 45, 95))
			}
			im2 := *im
			if r.Intn(3) == 0 {
				im2.Alpha = r.Intn(4)
			}
			h.Calls = append(h.Calls, &Call{Op: "enc", Img: &im2, Opt: &o})
		}
	case "larger-then-smaller":
		w, hh := 40+r.Intn(90), 40+r.Intn(90)
		lossless := r.Bool()
		for i := 0; i < n; i++ {
			var o *OptSpec
			if lossless {
				o = g.losslessOpts()
			} else {
				o = g.lossyOpts()
			}
			h.Calls = append(h.Calls, &Call{Op: "enc", Img: g.img(maxi(1, w), maxi(1, hh)), Opt: o})
			w, hh = w*(40+r.Intn(50))/100, hh*(40+r.Intn(50))/100
			if r.Intn(4) == 0 {
				w, hh = w*3, hh*2 // and up again
			}
		}
	case "lossless-colours": // more / fewer colours, same or shrinking size
		w, hh := 8+r.Intn(80), 8+r.Intn(80)
		for i := 0; i < n; i++ {
			im := g.img(w, hh)
			im.Kind = []string{"pal", "pal", "noise", "grad", "flat"}[r.Intn(5)]
			im.Colors = r.Pick(1, 2, 3, 4, 5, 16, 17, 64, 256, 300)
			h.Calls = append(h.Calls, &Call{Op: "enc", Img: im, Opt: g.losslessOpts()})
			if r.Intn(3) == 0 {
				w, hh = maxi(1, w-r.Intn(9)), maxi(1, hh-r.Intn(9))
			}
		}
	case "lossless-big-then-small": // a large noisy lossless encode fills every scratch histogram / hash chain, then small simple images
		bw, bh := 40+r.Intn(60), 30+r.Intn(50)
		big := g.img(bw, bh)
		big.Kind = []string{"noise", "noise", "grad"}[r.Intn(3)]
		big.Alpha = r.Pick(0, 3)
		h.Calls = append(h.Calls, &Call{Op: "enc", Img: big, Opt: g.losslessOpts()})
		for i := 1; i < n; i++ {
			im := g.img(4+r.Intn(bw-3), 4+r.Intn(bh-3))
			im.Kind = []string{"grad", "blocks", "pal", "flat", "grad"}[r.Intn(5)]
			im.Colors = r.Pick(2, 3, 5, 16, 40)
			o := g.losslessOpts()
			o.Q = float32(r.Pick(30, 50, 75, 95, 100))
			h.Calls = append(h.Calls, &Call{Op: "enc", Img: im, Opt: o})
		}
	case "decode-aba": // decode A, decode B, decode A … (incl. failing inputs in between)
		fam := []string{"vp8", "vp8a", "vp8l", "any"}[r.Intn(4)]
		pred := func(t string) bool {
			if strings.HasPrefix(t, "anim") {
				return false
			}
			if fam == "any" {
				return true
			}
			base := strings.SplitN(t, "-", 2)[0]
			return base == fam
		}
		a, b := g.pickLib(pred), g.pickLib(pred)
		good := func(t string) bool { return pred(t) && !strings.Contains(t, "-") }
		seq := []*libFile{a, b, a}
		if r.Bool() {
			seq = []*libFile{g.pickLib(func(t string) bool { return pred(t) && strings.Contains(t, "-") }), g.pickLib(good)}
		}
		for len(seq) < n {
			seq = append(seq, g.pickLib(pred))
		}
		for _, f := range seq[:n] {
			h.Calls = append(h.Calls, g.decCall(f))
		}
		if r.Intn(3) == 0 {
			f := g.pickLib(pred)
			h.Calls = append(h.Calls, &Call{Op: []string{"cfg", "feat"}[r.Intn(2)], File: f.Path, Tag: f.Tag})
		}
	case "wider-then-narrower-parallel": // row-parallel lossy path (mbH >= 4, Method >= 3, no target): narrower pictures after a wider one through one pooled parallelState
		wideMB := 5 + r.Intn(6)
		hMB := 4 + r.Intn(4)
		mk := func(w, hh int) *Call {
			im := g.img(w, hh)
			im.Kind = []string{"noise", "blocks", "noise", "grad"}[r.Intn(4)]
			im.Alpha = r.Pick(0, 0, 0, 3)
			im.Type = "nrgba"
			o := g.lossyOpts()
			o.Preset, o.TargetSize, o.TargetPSNR, o.Sharp = 0, 0, 0, false
			o.Method = r.Pick(3, 4, 4, 5, 6)
			o.Q = float32(r.Pick(60, 75, 90, 100))
			o.Pass = -1
			return &Call{Op: "enc", Img: im, Opt: o}
		}
		h.Calls = append(h.Calls, mk(16*wideMB-r.Intn(16), 16*hMB-r.Intn(16)))
		for i := 1; i < n; i++ {
			nmb := 1 + r.Intn(wideMB-1) // strictly fewer macroblock columns
			w := 16*nmb - r.Intn(16)
			if r.Intn(3) == 0 {
				w = 16*(nmb-1) + 1 // width 16k+1
			}
			hm := 4 + r.Intn(hMB-3) // still >= 4 rows, not more rows than the wide picture
			h.Calls = append(h.Calls, mk(maxi(1, w), 16*hm-r.Intn(16)))
		}
		if r.Intn(3) == 0 {
			h.Procs = 4
		}
	case "frame-codec-hooks": // the exported animation.FrameEncoderFunc / FrameDecoderFunc: values they return must survive later calls
		w0, h0 := 16+r.Intn(50), 16+r.Intn(40)
		lossless := r.Intn(3) == 0
		for i := 0; i < n+1; i++ {
			switch {
			case i == 0 || r.Intn(3) != 0:
				im := g.img(w0, h0) // same size: the pooled encoder is reused
				im.Type = "nrgba"
				if r.Intn(4) == 0 {
					lossless = !lossless
				}
				h.Calls = append(h.Calls, &Call{Op: "frenc", Img: im, Opt: &OptSpec{Lossless: lossless, Q: float32(r.Pick(30, 75, 95))}})
			case r.Bool():
				f := g.pickLib(func(t string) bool { return strings.HasPrefix(t, "anim") && !strings.Contains(t, "-") })
				h.Calls = append(h.Calls, &Call{Op: "animframes", File: f.Path, Tag: f.Tag})
			case r.Bool():
				o := g.lossyOpts()
				if r.Bool() {
					o = g.losslessOpts()
				}
				h.Calls = append(h.Calls, &Call{Op: "enc", Img: g.img(w0, h0), Opt: o})
			default:
				h.Calls = append(h.Calls, g.decCall(g.pickLib(func(t string) bool { return !strings.HasPrefix(t, "anim") && !strings.Contains(t, "-") })))
			}
		}
	case "foreign-decode": // A transmits header values (foreign or library-made), B relies on defaults, compare B with fresh
		isF := func(t string) bool { return strings.HasPrefix(t, "vp8f") }
		transmits := func(t string) bool {
			return (isF(t) && strings.Contains(t, "segupd")) || t == "vp8" || t == "vp8a"
		}
		defaults := func(t string) bool {
			return isF(t) && (strings.Contains(t, "segnoupd") || strings.Contains(t, "lfnoupd"))
		}
		for i := 0; i < n; i++ {
			var f *libFile
			switch {
			case i == 0:
				f = g.pickLib(transmits)
			case i == 1 || r.Intn(3) != 0:
				f = g.pickLib(defaults)
			case r.Bool():
				f = g.pickLib(isF)
			default:
				f = g.pickLib(transmits)
			}
			h.Calls = append(h.Calls, g.decCall(f))
		}
	case "anim-between-stills":
		for i := 0; i < n; i++ {
			switch r.Intn(5) {
			case 0:
				as := &AnimSpec{CW: 16 + r.Intn(50), CH: 16 + r.Intn(40), Lossless: r.Bool(), Mixed: r.Intn(3) == 0, Q: r.Pick(30, 75, 95), Kmin: r.Pick(0, 1), Kmax: r.Pick(0, 2)}
				nf := 2 + r.Intn(3)
				for f := 0; f < nf; f++ {
					fs := g.img(as.CW, as.CH)
					fs.Type = "nrgba"
					as.Frames = append(as.Frames, *fs)
				}
				h.Calls = append(h.Calls, &Call{Op: "animenc", Anim: as})
			case 1:
				h.Calls = append(h.Calls, g.decCall(g.pickLib(func(t string) bool { return strings.HasPrefix(t, "anim") })))
			case 2:
				h.Calls = append(h.Calls, g.decCall(g.pickLib(func(t string) bool { return !strings.HasPrefix(t, "anim") })))
			default:
				d := g.dimsSameMB(false)[0]
				o := g.lossyOpts()
				if r.Bool() {
					o = g.losslessOpts()
				}
				h.Calls = append(h.Calls, &Call{Op: "enc", Img: g.img(d[0], d[1]), Opt: o})
			}
		}
	case "preset-dither-alpha": // presets x Preprocessing 1..3 (segment smoothing, dithering) x Method 6 x alpha, tiny and small images
		sizes := [][2]int{{17, 13}, {17, 13}, {16, 16}, {33, 20}, {64, 70}, {5, 40}}
		var rep *Call
		for i := 0; i < n; i++ {
			d := sizes[r.Intn(len(sizes))]
			im := g.img(d[0], d[1])
			im.Alpha = r.Pick(1, 2, 3, 4, 4, 0)
			im.Kind = []string{"grad", "noise", "blocks", "pal"}[r.Intn(4)]
			o := g.lossyOpts()
			o.Preset = r.Intn(6)
			o.TargetSize, o.TargetPSNR, o.Sharp = 0, 0, false
			o.Q = float32(r.Pick(20, 40, 40, 75, 95))
			o.Method = r.Pick(6, 6, 6, 4, 3, 5)
			o.Preproc = r.Intn(4)
			o.PreprocOr = r.Intn(4)
			cl := &Call{Op: "enc", Img: im, Opt: o}
			if rep == nil {
				rep = cl
			}
			h.Calls = append(h.Calls, cl)
			if r.Intn(3) == 0 { // an unrelated encode in between (fills the VP8L encoder's scratch)
				big := g.img(3+r.Intn(60), 3+r.Intn(60))
				bo := g.losslessOpts()
				if r.Intn(3) == 0 {
					bo = g.lossyOpts()
					big.Alpha = r.Pick(1, 2, 3, 4)
				}
				h.Calls = append(h.Calls, &Call{Op: "enc", Img: big, Opt: bo})
			}
		}
		h.Calls = append(h.Calls, rep) // the first call again, after the others
		if r.Intn(3) == 0 {
			h.Procs = 4
		}
	case "procs4-mixed": // GOMAXPROCS=4 in both processes (stability guard applies)
		h.Procs = 4
		for i := 0; i < n; i++ {
			switch r.Intn(5) {
			case 0:
				h.Calls = append(h.Calls, g.decCall(g.pickLib(func(string) bool { return true })))
			case 1:
				h.Calls = append(h.Calls, &Call{Op: "enc", Img: g.img(1+r.Intn(90), 1+r.Intn(90)), Opt: g.losslessOpts()})
			default:
				d := g.dimsSameMB(r.Bool())[0]
				h.Calls = append(h.Calls, &Call{Op: "enc", Img: g.img(d[0], d[1]), Opt: g.lossyOpts()})
			}
		}
	case "parallel-lossy-enc": // GOMAXPROCS=4: parallelState / importUVWorker pools (mbH >= 4, method >= 3)
		h.Procs = 4
		for i := 0; i < n; i++ {
			mbw, mbh := 4+r.Intn(5), 4+r.Intn(5)
			o := g.lossyOpts()
			o.Method = r.Pick(0, 2, 3, 4, 5, 6)
			o.Sharp = false
			h.Calls = append(h.Calls, &Call{Op: "enc", Img: g.img(16*mbw-r.Intn(16), 16*mbh-r.Intn(16)), Opt: o})
		}
	default: // mixed
		for i := 0; i < n; i++ {
			switch r.Intn(4) {
			case 0:
				h.Calls = append(h.Calls, g.decCall(g.pickLib(func(string) bool { return true })))
			case 1:
				h.Calls = append(h.Calls, &Call{Op: "enc", Img: g.img(1+r.Intn(70), 1+r.Intn(70)), Opt: g.losslessOpts()})
			default:
				h.Calls = append(h.Calls, &Call{Op: "enc", Img: g.img(1+r.Intn(70), 1+r.Intn(70)), Opt: g.lossyOpts()})
			}
		}
	}
	return h
}

// ---------------------------------------------------------------- kinds (violation keys)

// callKind names the pooled codec families a call exercises: E8 = VP8 encoder (with
// token buffer, bool writers), EL = VP8L encoder, D8 = VP8 decoder, DL = VP8L
// decoder; hdr = header query only.  A stale-state defect of family X can only
// show in a pair whose both calls involve X.
func callKind(c *Call, failed bool) string {
	k := ""
	switch c.Op {
	case "enc":
		switch {
		case c.Opt.Lossless:
			k = "EL"
		case c.Img.Alpha != 0 && c.Opt.AComp != 0:
			k = "E8+EL" // ALPH plane compressed by the VP8L encoder
		default:
			k = "E8"
		}
	case "frenc":
		if c.Opt.Lossless {
			k = "EL"
		} else {
			k = "E8+EL"
		}
	case "animenc":
		if c.Anim.Lossless && !c.Anim.Mixed {
			k = "EL"
		} else {
			k = "E8+EL" // sub-frame optimisation introduces transparency: ALPH planes
		}
	case "dec", "animdec", "animframes":
		switch codecOfTag(c.Tag) {
		case "vp8l":
			k = "DL"
		case "vp8":
			if strings.HasPrefix(c.Tag, "vp8a") || strings.HasPrefix(c.Tag, "anim") {
				k = "D8+DL"
			} else {
				k = "D8"
			}
		default:
			k = "D8+DL"
		}
	default:
		k = "hdr"
	}
	if failed {
		k += "-fail"
	}
	return k
}

// ---------------------------------------------------------------- running a history

type callOutcome struct {
	Digest string
	Failed bool
	Alloc  uint64
}

// runHistory executes the calls in this process from empty pools.  It returns the
// outcomes and the index/description of the first returned value found modified.
func runHistory(calls []*Call, procs int) (outs []callOutcome, mutated string) {
	return runHistoryP(calls, procs, nil, nil)
}

// runHistoryP is runHistory with optional poisoning: before every call but the first,
// the Scratch-classified fields (poison: "pkg.Type" → field names) of all objects
// sitting in the pools are overwritten with garbage (webp.VerifPoisonPools); stats
// accumulates "pkg.Type.field" → objects poisoned.
func runHistoryP(calls []*Call, procs int, poison map[string][]string, stats map[string]int) (outs []callOutcome, mutated string) {
	prev := runtime.GOMAXPROCS(procs)
	defer runtime.GOMAXPROCS(prev)
	emptyPools()
	defer debug.SetGCPercent(100)
	var kept []retained
	for i, c := range calls {
		p, err := prepare(c)
		if err != nil {
			outs = append(outs, callOutcome{Digest: "prepare-error", Failed: true})
			continue
		}
		if poison != nil && i > 0 {
			done, objs, missing := webp.VerifPoisonPools(poison)
			if stats != nil {
				for k, n := range done {
					stats[k] += n
				}
				for k, n := range objs {
					stats["objects:"+k] += n
				}
				for _, m := range missing {
					stats["missing:"+m]++
				}
			}
		}
		a0 := totalAlloc()
		d, failed, keep := execCall(c, p)
		al := totalAlloc() - a0
		outs = append(outs, callOutcome{d, failed, al})
		// re-verify everything returned earlier
		for _, k := range kept {
			if s := sumBufs(k.bufs); s != k.sum && mutated == "" {
				mutated = fmt.Sprintf("%s was modified by call #%d", k.name, i)
			}
		}
		for _, k := range keep {
			k.sum = sumBufs(k.bufs)
			k.name = fmt.Sprintf("%s of call #%d", k.name, i)
			kept = append(kept, k)
		}
	}
	return
}

// scratchFields reads the classification table the Coq proofs use
// (coq/theories/Conc/PoolFieldClass.v) and returns, per pooled Go type, the fields
// classified Scratch — the poisoning probe and the theorems share one table.
func scratchFields(verifDir string) (map[string][]string, error) {
	b, err := os.ReadFile(filepath.Join(verifDir, "coq", "theories", "Conc", "PoolFieldClass.v"))
	if err != nil {
		return nil, err
	}
	names := map[string]string{
		"class_VP8Encoder": "lossy.VP8Encoder", "class_TokenBuffer": "lossy.TokenBuffer", "class_lossy_Decoder": "lossy.Decoder",
		"class_lossless_Encoder": "lossless.Encoder", "class_lossless_Decoder": "lossless.Decoder",
		"class_parallelState": "lossy.parallelState", "class_RowWorker": "lossy.RowWorker",
		"class_importUVWorker": "lossy.importUVWorker", "class_BoolWriter": "bitio.BoolWriter",
	}
	out := map[string][]string{}
	text := string(b)
	for coqName, goName := range names {
		i := strings.Index(text, "Definition "+coqName+" ")
		if i < 0 {
			return nil, fmt.Errorf("classification table %s not found", coqName)
		}
		rest := text[i:]
		j := strings.Index(rest, "].")
		if j < 0 {
			return nil, fmt.Errorf("classification table %s: no end", coqName)
		}
		body := rest[:j]
		n := 0
		for _, part := range strings.Split(body, "(\"")[1:] {
			q := strings.Index(part, "\"")
			if q < 0 {
				continue
			}
			field := part[:q]
			after := strings.TrimLeft(part[q+1:], ", ")
			n++
			if strings.HasPrefix(after, "Scratch") {
				out[goName] = append(out[goName], field)
			}
		}
		if n == 0 {
			return nil, fmt.Errorf("classification table %s: no entries parsed", coqName)
		}
		if _, ok := out[goName]; !ok {
			out[goName] = []string{}
		}
	}
	return out, nil
}

func reuseObserved(hist uint64, fresh *childResult) bool {
	if fresh == nil || fresh.Alloc2 == 0 {
		return false
	}
	return hist+2048 < fresh.Alloc2 && hist*100 < fresh.Alloc2*97
}

func main() {
	if len(os.Args) > 1 && os.Args[1] == "child" {
		childMain()
		return
	}
	if len(os.Args) > 2 && os.Args[1] == "replay" {
		replayMain(os.Args[2])
		return
	}
	runtime.GOMAXPROCS(1)
	Main("c11", run)
}

// replayMain re-runs one replay file (as written by bin/check: {"case": {"history": [...], "procs": n}})
// or a bare {"history": [...]} and prints, per call, the in-history and fresh-process results.
func replayMain(path string) {
	runtime.GOMAXPROCS(1)
	b, err := os.ReadFile(path)
	if err != nil {
		fmt.Println(err)
		os.Exit(2)
	}
	var outer struct {
		Case *struct {
			History []*Call `json:"history"`
			Procs   int     `json:"procs"`
		} `json:"case"`
		History []*Call `json:"history"`
		Procs   int     `json:"procs"`
	}
	if err := json.Unmarshal(b, &outer); err != nil {
		fmt.Println(err)
		os.Exit(2)
	}
	calls, procs := outer.History, outer.Procs
	if outer.Case != nil {
		calls, procs = outer.Case.History, outer.Case.Procs
	}
	if procs < 1 {
		procs = 1
	}
	exe, _ := os.Executable()
	fc := &freshCache{m: map[string]*childResult{}, exe: exe}
	outs, mutated := runHistory(calls, procs)
	bad := false
	for i, cl := range calls {
		fr := fc.get(cl, procs)
		st := "same"
		if fr.Digest != outs[i].Digest {
			st = "DIFFERENT"
			bad = true
		}
		fmt.Printf("call #%d %-14s in-history %q  fresh %q  %s (alloc %d vs warm-empty-pools %d)\n", i, callKind(cl, outs[i].Failed), outs[i].Digest, fr.Digest, st, outs[i].Alloc, fr.Alloc2)
	}
	if mutated != "" {
		fmt.Println("MUTATED:", mutated)
		bad = true
	}
	if bad {
		os.Exit(1)
	}
}

// brokenObligation records a falsified hypothesis / drifted table for which NO failing
// input of the property is known; bin/check reports these as "no-failing-input-found".
type brokenObligation struct {
	What   string `json:"what"`
	Detail string `json:"detail"`
}

var brokenList []brokenObligation

func noteBroken(what, detail string) {
	for _, b := range brokenList {
		if b.What == what {
			return
		}
	}
	brokenList = append(brokenList, brokenObligation{what, detail})
}

func flushBroken(c *Ctx) {
	if len(brokenList) == 0 {
		return
	}
	b, _ := json.MarshalIndent(brokenList, "", " ")
	os.WriteFile(filepath.Join(c.OutDir, "broken.json"), b, 0o644)
}

func run(c *Ctx) {
	defer flushBroken(c)
	exe, err := os.Executable()
	if err != nil {
		panic(err)
	}
	fc := &freshCache{m: map[string]*childResult{}, exe: exe}
	c.D.Rule = "a history is non-trivial when at least one of its calls allocated measurably less than the same call in a warm process with empty pools (pool reuse observed); distinct = distinct (group, kinds-of-calls) signatures among those"

	lib := buildLibrary(c, filepath.Join(c.OutDir, "in"))
	for _, f := range lib {
		c.Count("library:" + f.Tag)
	}
	g := &gen{rng: c.Rng.Fork(), lib: lib}

	// regression histories first (minimised past disagreements)
	var hs []*history
	hs = append(hs, regressionHistories(g)...)

	groups := []string{"lossy-enc-same-mb", "lossy-enc-option-pairs", "larger-then-smaller", "lossless-colours", "lossless-big-then-small", "wider-then-narrower-parallel", "decode-aba", "foreign-decode", "frame-codec-hooks", "anim-between-stills", "mixed", "parallel-lossy-enc", "preset-dither-alpha", "procs4-mixed"}
	per := map[string]int{"lossy-enc-same-mb": 11, "lossy-enc-option-pairs": 10, "larger-then-smaller": 6, "lossless-colours": 6, "lossless-big-then-small": 10, "wider-then-narrower-parallel": 12, "decode-aba": 12, "foreign-decode": 14, "frame-codec-hooks": 8, "anim-between-stills": 6, "mixed": 6, "parallel-lossy-enc": 4, "preset-dither-alpha": 10, "procs4-mixed": 5}
	if c.Thorough() {
		for k := range per {
			per[k] *= 12
		}
	}
	for _, grp := range groups {
		for i := 0; i < per[grp]; i++ {
			hs = append(hs, g.history(grp))
		}
	}

	// fresh-process results, concurrently (the children are independent processes)
	workers := runtime.NumCPU()
	if workers > 12 {
		workers = 12
	}
	for _, procs := range []int{1, 4} {
		var calls []*Call
		for _, h := range hs {
			if h.Procs == procs {
				calls = append(calls, h.Calls...)
			}
		}
		fc.prefetch(calls, procs, workers)
	}

	scratch, serr := scratchFields(os.Getenv("VERIF_DIR"))
	if serr != nil {
		noteBroken("poison probe: classification table unreadable", serr.Error())
	}
	poisonStats := map[string]int{}

	for hi, h := range hs {
		if scratch != nil {
			pouts, _ := runHistoryP(h.Calls, h.Procs, scratch, poisonStats)
			c.D.Evaluations += len(h.Calls)
			for i, cl := range h.Calls {
				fr := fc.get(cl, h.Procs)
				if fr.Err != "" || fr.Digest2 != fr.Digest || pouts[i].Digest == fr.Digest {
					continue
				}
				plain, _ := runHistory(h.Calls[:i+1], h.Procs)
				if plain[i].Digest != fr.Digest {
					continue // differs without poisoning too: reported by the plain pass below
				}
				if h.Procs > 1 {
					// confirm at GOMAXPROCS>1: the poisoned run must reproduce, fresh processes must agree
					again, _ := runHistoryP(h.Calls[:i+1], h.Procs, scratch, nil)
					r1, r2 := fc.spawn(cl, h.Procs), fc.spawn(cl, h.Procs)
					if again[i].Digest != pouts[i].Digest || r1.Digest != fr.Digest || r2.Digest != fr.Digest {
						c.Count("skipped:unstable-under-parallelism")
						continue
					}
				}
				c.Count("poison-mismatch")
				culprit := poisonCulprit(h, i, fr, scratch)
				// A poison-only difference falsifies a HYPOTHESIS of the proof (the frame condition
				// for this Scratch field): no history of real calls shows a difference (the plain
				// run of the same prefix equals the fresh-process result, checked above).  That
				// is a broken obligation without a failing input, not a violation of C11.
				noteBroken("frame condition (poison probe): "+culprit,
					fmt.Sprintf("with the Scratch fields of the pooled objects filled with 0xA5 before the call, call #%d of a history returns %q instead of %q: %s is read before it is written; no history of real calls reproduces a difference (classify the field ConstZero / State, or fix the read); history: %s",
						i, pouts[i].Digest, fr.Digest, culprit, mustJSON(map[string]any{"history": h.Calls[:i+1], "procs": h.Procs})))
				break
			}
		}
		outs, mutated := runHistory(h.Calls, h.Procs)
		c.D.Evaluations += len(h.Calls)
		c.Count("history:" + h.Group)
		c.Count(fmt.Sprintf("history-length:%d", len(h.Calls)))
		if mutated != "" {
			c.Violate("returned-value-modified:"+h.Group, mutated, map[string]any{"history": h.Calls, "procs": h.Procs})
		}
		reuse := false
		var kinds []string
		for i, cl := range h.Calls {
			fr := fc.get(cl, h.Procs)
			kinds = append(kinds, callKind(cl, outs[i].Failed))
			c.Count("call:" + callKind(cl, outs[i].Failed))
			if fr.Err != "" {
				// a call that kills even a fresh process is not a history dependence (other properties
				// cover crashes): recorded, not reported
				c.Count("skipped:fresh-process-crash")
				continue
			}
			if fr.Digest2 != fr.Digest {
				if h.Procs > 1 {
					// scheduling-dependent result (C10/C12 territory): not comparable
					c.Count("skipped:nondeterministic-in-fresh-process")
					continue
				}
				c.Violate("hist:"+callKind(cl, fr.Failed)+">"+callKind(cl, fr.Failed)+":same-call-twice",
					"the same call run twice in one process (pools emptied in between) gives different results",
					map[string]any{"call": cl, "first": fr.Digest, "second": fr.Digest2})
			}
			if i > 0 && reuseObserved(outs[i].Alloc, fr) {
				reuse = true
				c.Count("reuse-observed:" + callKind(cl, outs[i].Failed))
			}
			if outs[i].Digest != fr.Digest {
				if h.Procs > 1 && !stableUnderParallelism(h, i, cl, fr, fc) {
					// the result varies between identical runs at GOMAXPROCS>1: scheduling (C10), not history
					c.Count("skipped:unstable-under-parallelism")
					if b, err := json.Marshal(map[string]any{"history": h.Calls[:i+1], "procs": h.Procs}); err == nil && len(c.D.Notes) < 6 {
						c.D.Notes = append(c.D.Notes, "result unstable between identical runs at GOMAXPROCS>1 (scheduling, C10 territory; not counted for C11): "+string(b))
					}
					continue
				}
				c.Count("mismatch")
				key, replay := minimise(h, i, fr, fc)
				c.Violate(key, fmt.Sprintf("call #%d of the history returns %q; as the first call of a fresh process it returns %q", i, outs[i].Digest, fr.Digest), replay)
			}
		}
		if reuse {
			c.Count("nontrivial-history:" + h.Group)
			c.Nontrivial(h.Group + ":" + strings.Join(kinds, ","))
		} else {
			c.Count("no-reuse-observed:" + h.Group)
		}
		if hi < 3 {
			c.Sample(map[string]any{"group": h.Group, "calls": h.Calls, "results": outs})
		}
	}
	npoisoned := 0
	for k, n := range poisonStats {
		switch {
		case strings.HasPrefix(k, "missing:"):
			// a classified name that is no longer a struct field (rename / removal): the Coq
			// obligations C11_every_field_classified / reset_complete report it; here only counted
			c.Count("poison:classified-name-not-a-field:" + k[8:])
		case strings.HasPrefix(k, "objects:"):
			c.D.Distribution["poisoned-objects:"+k[8:]] += n
		default:
			npoisoned++
			c.D.Distribution["poisoned-field:"+k] += n
		}
	}
	if scratch != nil {
		for typ, fs := range scratch {
			for _, f := range fs {
				if poisonStats[typ+"."+f] == 0 && !(typ == "lossy.parallelState" && f == "workers") { // workers: poisoned per RowWorker
					c.Count("never-poisoned:" + typ + "." + f)
				}
			}
		}
	}
	c.D.Notes = append(c.D.Notes, fmt.Sprintf("poisoning pass: every history re-run with all Scratch-classified fields of all pooled objects overwritten with 0xA5 before each call (list parsed from coq/theories/Conc/PoolFieldClass.v): %d distinct fields poisoned at least once", npoisoned))
	scribbleProbe(c)
	c.Count(fmt.Sprintf("fresh-processes:%d", fc.n))
	c.D.Notes = append(c.D.Notes,
		fmt.Sprintf("%d histories, %d calls, %d fresh child processes; GOMAXPROCS=1 and GC disabled during each history (group parallel-lossy-enc: GOMAXPROCS=4 in both processes)", len(hs), c.D.Evaluations, fc.n),
		"no extracted model for C11: correspondence = regenerated Gen/Fields.v obligations (translator tie) + this differential; cases.txt is empty by design")
	// deterministic order of violations
	sort.SliceStable(c.D.Violations, func(i, j int) bool { return c.D.Violations[i].Key < c.D.Violations[j].Key })
}

// poisonCulprit re-runs the history prefix poisoning one field at a time and names the
// first field whose poisoning alone changes the victim's result.
type blame struct {
	typ, field string
	toCap      bool
	name       string
}

var blamed []blame

func poisonCulprit(h *history, i int, fr *childResult, scratch map[string][]string) string {
	var types []string
	for t := range scratch {
		types = append(types, t)
	}
	sort.Strings(types)
	defer webp.VerifPoisonToCap(true)
	// fields already blamed in this run first (usually the same defect again)
	for _, prev := range blamed {
		webp.VerifPoisonToCap(prev.toCap)
		outs, _ := runHistoryP(h.Calls[:i+1], h.Procs, map[string][]string{prev.typ: {prev.field}}, nil)
		if outs[i].Digest != fr.Digest {
			return prev.name
		}
	}
	for _, t := range types {
		// whole type first (cheap rejection)
		webp.VerifPoisonToCap(true)
		outs, _ := runHistoryP(h.Calls[:i+1], h.Procs, map[string][]string{t: scratch[t]}, nil)
		if outs[i].Digest == fr.Digest {
			continue
		}
		// one field at a time; len-only first (fields that share a slab overlap up to cap)
		for _, toCap := range []bool{false, true} {
			webp.VerifPoisonToCap(toCap)
			for _, f := range scratch[t] {
				outs, _ := runHistoryP(h.Calls[:i+1], h.Procs, map[string][]string{t: {f}}, nil)
				if outs[i].Digest != fr.Digest {
					name := t + "." + f
					if toCap {
						name += "[len:cap]"
					}
					blamed = append(blamed, blame{t, f, toCap, name})
					return name
				}
			}
		}
		return t + ".<combination>"
	}
	return "<combination-of-types>"
}

// stableUnderParallelism confirms a disagreement seen at GOMAXPROCS>1: two more fresh
// processes must agree with the cached fresh result and two more runs of the history
// prefix must reproduce the same in-history result.
func stableUnderParallelism(h *history, i int, cl *Call, fr *childResult, fc *freshCache) bool {
	for k := 0; k < 2; k++ {
		if r := fc.spawn(cl, h.Procs); r.Digest != fr.Digest || r.Digest2 != fr.Digest {
			return false
		}
	}
	first, _ := runHistory(h.Calls[:i+1], h.Procs)
	second, _ := runHistory(h.Calls[:i+1], h.Procs)
	return first[i].Digest == second[i].Digest && first[i].Digest != fr.Digest
}

// minimise looks for a single predecessor that reproduces the disagreement; the
// violation key names the codec families of the two calls.  For a pure VP8-encoder
// victim the pair is re-run with the victim's Partitions forced to 0: if the
// disagreement persists it is not the partitioned-token-emission class and the key
// says so (":parts0"), so that a different encoder leak is never filed under it.
func minimise(h *history, i int, fr *childResult, fc *freshCache) (string, any) {
	victim := h.Calls[i]
	for j := i - 1; j >= 0; j-- {
		outs, _ := runHistory([]*Call{h.Calls[j], victim}, h.Procs)
		if outs[1].Digest != fr.Digest {
			vk := callKind(victim, fr.Failed)
			key := "hist:" + callKind(h.Calls[j], outs[0].Failed) + ">" + vk
			rep := map[string]any{"history": []*Call{h.Calls[j], victim}, "procs": h.Procs, "got": outs[1].Digest, "fresh": fr.Digest,
				"original_history": h.Calls, "original_index": i}
			if vk == "E8" && victim.Opt.Parts != 0 {
				v0 := *victim
				o0 := *victim.Opt
				o0.Parts = 0
				v0.Opt = &o0
				outs0, _ := runHistory([]*Call{h.Calls[j], &v0}, h.Procs)
				fr0 := fc.get(&v0, h.Procs)
				if outs0[1].Digest != fr0.Digest {
					key += ":parts0"
					rep["also_with_partitions_0"] = true
				}
			} else if vk == "E8" {
				key += ":parts0"
			}
			return key, rep
		}
	}
	return "hist:multi>" + callKind(victim, fr.Failed), map[string]any{"history": h.Calls[:i+1], "procs": h.Procs, "fresh": fr.Digest}
}

// regressionHistories: minimised histories that exposed defects (kept as first cases).
func regressionHistories(g *gen) []*history {
	var out []*history
	// corpus/c11/*.json: minimised encode-only histories that exposed defects
	if dir := os.Getenv("VERIF_DIR"); dir != "" {
		files, _ := filepath.Glob(filepath.Join(dir, "corpus", "c11", "*.json"))
		sort.Strings(files)
		for _, f := range files {
			b, err := os.ReadFile(f)
			if err != nil {
				continue
			}
			var r struct {
				History []*Call `json:"history"`
				Procs   int     `json:"procs"`
			}
			if json.Unmarshal(b, &r) != nil || len(r.History) == 0 {
				continue
			}
			if r.Procs < 1 {
				r.Procs = 1
			}
			out = append(out, &history{Group: "corpus", Procs: r.Procs, Calls: r.History})
		}
	}
	// failed (truncated) lossy decode, then a valid lossy decode: stale Decoder.intraL
	var truncs, goods []*libFile
	for i := range g.lib {
		switch g.lib[i].Tag {
		case "vp8-trunc", "vp8a-trunc", "vp8-corrupt", "vp8a-corrupt":
			truncs = append(truncs, &g.lib[i])
		case "vp8", "vp8a":
			goods = append(goods, &g.lib[i])
		}
	}
	step := 1
	if len(truncs) > 24 {
		step = 2 // every other damaged file in the quick tier is enough (decodes are cheap but each history runs twice)
	}
	for i := 0; i < len(truncs); i += step {
		gd := goods[(i*3+1)%len(goods)]
		out = append(out, &history{Group: "regression-failed-decode-then-decode", Procs: 1, Calls: []*Call{g.decCall(truncs[i]), g.decCall(gd)}})
	}
	return out
}

// scribbleProbe: the caller overwrites values the public API handed out (conversion
// matrices, default options) and encodes again.  C11 as stated quantifies over sequences
// of Encode / Decode / animation CALLS; a caller writing through a returned pointer is
// not such a call, so a difference here is NOT reported as a violation of the property -
// it is recorded in the evidence (distribution / notes).  The structural counterpart is
// the proof obligation C11_api_returns_no_global_state (no exported function returns
// memory aliasing a package-level variable), which is what breaks when the API starts
// handing out library state.
func scribbleProbe(c *Ctx) {
	img := makeImage(&ImgSpec{W: 40, H: 36, Kind: "grad", Seed: 9, Type: "nrgba"})
	enc := func() string {
		var buf bytes.Buffer
		o := webp.DefaultOptions()
		o.UseSharpYUV = true
		if err := webp.Encode(&buf, img, o); err != nil {
			return "err"
		}
		return sumBufs([][]byte{buf.Bytes()})
	}
	before := enc()
	for mt := sharpyuv.MatrixType(0); mt < 8; mt++ {
		if m := sharpyuv.GetConversionMatrix(mt); m != nil {
			*m = sharpyuv.ConversionMatrix{}
		}
	}
	if o := sharpyuv.DefaultOptions(); o != nil && o.Matrix != nil {
		*o.Matrix = sharpyuv.ConversionMatrix{}
	}
	after := enc()
	c.D.Evaluations += 2
	if before == after {
		c.Count("api-value-scribble:same")
	} else {
		c.Count("api-value-scribble:DIFFERS")
		c.D.Notes = append(c.D.Notes, "outside the quantified histories (not a violation): after the caller overwrote the values returned by sharpyuv.GetConversionMatrix / DefaultOptions, webp.Encode(UseSharpYUV) returns different bytes - the API hands out library state (see obligation C11_api_returns_no_global_state)")
	}
}
