// C12 — results do not depend on GOMAXPROCS.
//
// Implementation side of the check.  WHAT DECIDES A VIOLATION: two real processes, started
// with GOMAXPROCS = a and GOMAXPROCS = b, each run twice, whose results for the same public
// API call have no value in common — the property as stated ("the same bytes / pixels for
// every GOMAXPROCS value").  Everything else only finds candidates and names the site:
//
//	(1) per-site differential: for each GOMAXPROCS call site s and each worker
//	    count n the public API is run with only site s overridden to n (verifhook)
//	    and compared with the n = 1 run (n >= 3 also with n = 2 at the two sites
//	    where n selected an algorithm).  Such a configuration is not one a GOMAXPROCS
//	    value produces, so a difference is re-run in processes with GOMAXPROCS = n and
//	    1 (or 2) and reported only if they differ; otherwise it is counted;
//	(2) correspondence: the (start,end) ranges each site handed to its workers
//	    (logged by the hook) must tile one and the same index interval for every n —
//	    decided by the extracted is_tiling (proved to imply exact_partition); no formula
//	    of the code is compared;
//	(3) whole-process runs: the workloads in child processes started with
//	    GOMAXPROCS in {1,2,3,4,5,8,16}; child(k>=3) vs child(2) and child(1) vs child(2),
//	    each difference re-run before it is reported; child(k) vs the in-process
//	    simulation "all sites forced to k" is a note about hook coverage only.
//
// Failures of the machinery (site table mismatch, a child that cannot be started) are
// never violations: the harness exits with an error, or counts the missing comparison.
package main

import (
	"bytes"
	"crypto/sha256"
	"encoding/hex"
	"errors"
	"fmt"
	"image"
	"os"
	"os/exec"
	"runtime"
	"sort"
	"strconv"
	"strings"
	"time"

	webp "github.com/deepteams/webp"
	"github.com/deepteams/webp/animation"

	. "verifharness/hlib"
)

// site numbers (internal/verifhook/sites.go; checked against VerifSiteNames at start)
const (
	sImportY = iota
	sImportUV
	sUseParallel
	sEncodeParallel
	sComputeAlphas
	sHashChain
	sPredictor
	sCrossColor
	sHistoRemap
	sHistoCost
	sInvCrossColor
	sArgbToNRGBA
	sAnimDecode
	numSites
)

var wantSiteNames = []string{
	"lossy.importImage.Y", "lossy.importImage.UV", "lossy.EncodeFrame.useParallel",
	"lossy.encodeFrameParallel", "lossy.computeAlphas", "lossless.hashchain.Fill",
	"lossless.ResidualImage", "lossless.ColorSpaceTransform", "lossless.histogramRemap",
	"lossless.parallelComputeHistogramCost", "lossless.inverseTransform.CrossColor",
	"lossless.argbToNRGBA", "animation.DecodeFramesParallel",
}

// algorithm-choice sites (n = 1 selects another algorithm than n > 1)
var choiceSite = map[int]bool{sUseParallel: true, sHashChain: true}

func digest(b []byte) string {
	h := sha256.Sum256(b)
	return hex.EncodeToString(h[:12])
}

// ---------------------------------------------------------------------------
// deterministic picture generator

type imgSpec struct {
	W, H  int
	Style int // 0 smooth+noise, 1 textured blocks with repeats, 2 flat regions + edges, 3 exact-tie picture (flat left half, vertically constant random columns on the right)
	Alpha bool
	Seed  uint64
}

func (s imgSpec) String() string {
	return fmt.Sprintf("%dx%d/style%d/alpha%v/seed%d", s.W, s.H, s.Style, s.Alpha, s.Seed)
}

func genImage(s imgSpec) *image.NRGBA {
	r := NewRand(s.Seed)
	im := image.NewNRGBA(image.Rect(0, 0, s.W, s.H))
	// a small texture tile that is repeated (LZ77 matches, colour cache hits)
	const tw = 24
	var tile [tw * tw * 3]byte
	for i := range tile {
		tile[i] = byte(r.Intn(256))
	}
	fx, fy := r.Range(1, 5), r.Range(1, 5)
	for y := 0; y < s.H; y++ {
		for x := 0; x < s.W; x++ {
			var R, G, B int
			switch s.Style {
			case 0:
				R = (x*fx*255/s.W + y*3) & 255
				G = (y * fy * 255 / s.H) & 255
				B = ((x + y) * 2) & 255
				n := r.Intn(9) - 4
				R, G, B = R+n, G+n/2, B-n
			case 1:
				bx, by := x/48, y/40
				if (bx+by)%3 == 0 {
					t := ((y%tw)*tw + x%tw) * 3
					R, G, B = int(tile[t]), int(tile[t+1]), int(tile[t+2])
				} else if (bx+by)%3 == 1 {
					R, G, B = (x*2)&255, (y*3)&255, (bx*40+by*25)&255
				} else {
					v := r.Intn(256)
					R, G, B = v, (v+x)&255, (v+y)&255
				}
			case 3:
				// every per-tile / per-block cost comparison ties exactly on the flat half and has one
				// strictly best candidate on the other half: any tie-breaking that looks at what the
				// same worker did before (state carried across the iterations of one range) shows up
				// as a dependence on where the ranges start
				if x < s.W/2 {
					R, G, B = 40, 90, 200
				} else {
					t := (x % (tw * tw)) * 3
					R, G, B = int(tile[t]), int(tile[t+1]), int(tile[t+2])
				}
			default:
				bx, by := x/32, y/24
				R, G, B = (bx*53)&255, (by*91)&255, ((bx^by)*37)&255
				if x%32 == 0 || y%24 == 0 {
					R, G, B = 255-R, 255-G, 255-B
				}
				if (bx+2*by)%5 == 0 {
					n := r.Intn(31) - 15
					R += n
				}
			}
			A := 255
			if s.Alpha {
				switch {
				case (x/20+y/20)%4 == 0:
					A = 0
				case (x/20+y/20)%4 == 1:
					A = (x*255/s.W + r.Intn(8)) & 255
				}
			}
			o := y*im.Stride + x*4
			im.Pix[o] = clamp8(R)
			im.Pix[o+1] = clamp8(G)
			im.Pix[o+2] = clamp8(B)
			im.Pix[o+3] = byte(A)
		}
	}
	return im
}

func clamp8(v int) byte {
	if v < 0 {
		return 0
	}
	if v > 255 {
		return 255
	}
	return byte(v)
}

// ---------------------------------------------------------------------------
// workloads

type workload struct {
	Name  string
	Kind  string // lossy | lossless | decode | anim
	Spec  imgSpec
	Opts  *webp.EncoderOptions
	Input []byte // decode / anim: the file
	Sites []int  // sites this workload can reach
	// animc: frames to corrupt ("trunc" / "head") and frames decoded beforehand
	Corrupt    map[int]string
	PreDecoded []int
	ZeroFrames bool
	img        *image.NRGBA
	mbW        int
	mbH        int
}

func (w *workload) run() (res string, err error) {
	defer func() {
		if p := recover(); p != nil {
			res, err = "", fmt.Errorf("panic: %v", p)
		}
	}()
	switch w.Kind {
	case "lossy", "lossless":
		var buf bytes.Buffer
		if err := webp.Encode(&buf, w.img, w.Opts); err != nil {
			return "err", nil
		}
		return fmt.Sprintf("%d:%s", buf.Len(), digest(buf.Bytes())), nil
	case "decode":
		im, err := webp.Decode(bytes.NewReader(w.Input))
		if err != nil {
			return "err", nil
		}
		return digestImage(im), nil
	case "anim":
		a, err := animation.DecodeBytes(w.Input)
		if err != nil {
			return "err", nil
		}
		if err := a.DecodeFramesParallel(); err != nil {
			return "err", nil
		}
		h := sha256.New()
		for i := range a.Frames {
			if a.Frames[i].Image == nil {
				h.Write([]byte("nil"))
				continue
			}
			h.Write([]byte(digestImage(a.Frames[i].Image)))
		}
		return fmt.Sprintf("%d:%s", len(a.Frames), hex.EncodeToString(h.Sum(nil)[:12])), nil
	case "animc":
		return w.runAnimC(false), nil
	}
	return "", fmt.Errorf("unknown kind %s", w.Kind)
}

// corruptBitstream damages one frame's bitstream so that its decoder fails:
// "trunc": keep the first 60% (fails late, after real decoding work);
// "head": break the header (VP8L version bits / VP8 key-frame bit; fails at once).
func corruptBitstream(b []byte, how string) []byte {
	c := append([]byte(nil), b...)
	if how == "trunc" {
		return c[:len(c)*6/10]
	}
	if len(c) > 4 && c[0] == 0x2f {
		c[4] |= 0xE0 // VP8L version != 0
	} else if len(c) > 0 {
		c[0] |= 1 // VP8 frame tag: not a key frame
	}
	return c
}

// buildAnimC returns the animation with the workload's corruptions applied and the
// error each corrupt frame's decoder returns when called alone.
func (w *workload) buildAnimC() (*animation.Animation, map[int]error) {
	if w.ZeroFrames {
		return &animation.Animation{CanvasWidth: 16, CanvasHeight: 16}, nil
	}
	a, err := animation.DecodeBytes(w.Input)
	if err != nil {
		return nil, nil
	}
	solo := map[int]error{}
	for k, how := range w.Corrupt {
		if k < len(a.Frames) {
			a.Frames[k].BitstreamData = corruptBitstream(a.Frames[k].BitstreamData, how)
			_, e := animation.FrameDecoderFunc(a.Frames[k].BitstreamData, a.Frames[k].AlphaData)
			solo[k] = e
		}
	}
	for _, k := range w.PreDecoded {
		if k < len(a.Frames) {
			if im, e := animation.FrameDecoderFunc(a.Frames[k].BitstreamData, a.Frames[k].AlphaData); e == nil {
				a.Frames[k].Image = im
			}
		}
	}
	return a, solo
}

// runAnimC decodes with DecodeFramesParallel (or, sequential = true, DecodeFrames) and
// returns "frames=<per frame: - or pixel digest>|err=<nil | frame<k> | other>", where k is the
// lowest corrupt frame whose own error has the same innermost (sentinel) error as the returned one.
func (w *workload) runAnimC(sequential bool) string {
	a, solo := w.buildAnimC()
	if a == nil {
		return "build-failed"
	}
	var err error
	if sequential {
		err = a.DecodeFrames()
	} else {
		err = a.DecodeFramesParallel()
	}
	var sb strings.Builder
	sb.WriteString("frames=")
	for i := range a.Frames {
		if i > 0 {
			sb.WriteByte(',')
		}
		if a.Frames[i].Image == nil {
			sb.WriteByte('-')
		} else {
			sb.WriteString(digestImage(a.Frames[i].Image))
		}
	}
	cls := "nil"
	if err != nil {
		cls = "other"
		var ks []int
		for k := range solo {
			ks = append(ks, k)
		}
		sort.Ints(ks)
		for _, k := range ks {
			if solo[k] != nil && rootErr(err) == rootErr(solo[k]) {
				cls = fmt.Sprintf("frame%d", k)
				break
			}
		}
	}
	return sb.String() + "|err=" + cls
}

// rootErr unwraps to the innermost error (the decoders wrap package-level sentinel values,
// which are comparable by identity; no error text is compared).
func rootErr(e error) error {
	for {
		u := errors.Unwrap(e)
		if u == nil {
			return e
		}
		e = u
	}
}

// stableAnim drops which error was returned (keeps nil / non-nil); used only to choose the
// violation key (frames / error presence versus WHICH error). Since fix 8f1f7ab the returned
// error is that of the lowest failing frame and is compared everywhere, children included.
func stableAnim(r string) string {
	i := strings.Index(r, "|err=")
	if i < 0 || strings.HasSuffix(r, "|err=nil") {
		return r
	}
	return r[:i] + "|err=some"
}

func digestImage(im image.Image) string {
	b := im.Bounds()
	switch t := im.(type) {
	case *image.NRGBA:
		return fmt.Sprintf("nrgba%dx%d:%s", b.Dx(), b.Dy(), digest(t.Pix))
	case *image.YCbCr:
		h := sha256.New()
		h.Write(t.Y)
		h.Write(t.Cb)
		h.Write(t.Cr)
		return fmt.Sprintf("ycbcr%dx%d:%s", b.Dx(), b.Dy(), hex.EncodeToString(h.Sum(nil)[:12]))
	case *image.RGBA:
		return fmt.Sprintf("rgba%dx%d:%s", b.Dx(), b.Dy(), digest(t.Pix))
	case *image.NYCbCrA:
		h := sha256.New()
		h.Write(t.Y)
		h.Write(t.Cb)
		h.Write(t.Cr)
		h.Write(t.A)
		return fmt.Sprintf("nycbcra%dx%d:%s", b.Dx(), b.Dy(), hex.EncodeToString(h.Sum(nil)[:12]))
	}
	h := sha256.New()
	for y := b.Min.Y; y < b.Max.Y; y++ {
		for x := b.Min.X; x < b.Max.X; x++ {
			r, g, bb, a := im.At(x, y).RGBA()
			h.Write([]byte{byte(r >> 8), byte(g >> 8), byte(bb >> 8), byte(a >> 8)})
		}
	}
	return fmt.Sprintf("img%dx%d:%s", b.Dx(), b.Dy(), hex.EncodeToString(h.Sum(nil)[:12]))
}

var lossySites = []int{sImportY, sImportUV, sUseParallel, sEncodeParallel, sComputeAlphas}
var losslessSites = []int{sHashChain, sPredictor, sCrossColor, sHistoRemap, sHistoCost}

// buildWorkloads is deterministic in (seed, tier); parent and children call it alike.
// Encoded inputs of the decode / anim workloads are produced with every site forced
// to one worker, so that they are the same bytes in every process.
func buildWorkloads(seed int64, tier string) []*workload {
	rng := NewRand(uint64(seed) ^ 0xC12)
	thorough := tier == "thorough"
	var ws []*workload
	lossy := func(w, h, style int, alpha bool, q float32, method int, extra func(*webp.EncoderOptions)) {
		sp := imgSpec{w, h, style, alpha, rng.U64()}
		o := &webp.EncoderOptions{Quality: q, Method: method}
		if extra != nil {
			extra(o)
		}
		wl := &workload{Name: fmt.Sprintf("lossy/%s/q%v/m%d", sp, q, method), Kind: "lossy", Spec: sp, Opts: o,
			Sites: lossySites, img: genImage(sp), mbW: (w + 15) / 16, mbH: (h + 15) / 16}
		if alpha {
			wl.Sites = append(append([]int{}, lossySites...), losslessSites...)
		}
		ws = append(ws, wl)
	}
	lossless := func(w, h, style int, alpha bool, q float32, method int) {
		sp := imgSpec{w, h, style, alpha, rng.U64()}
		o := &webp.EncoderOptions{Lossless: true, Quality: q, Method: method}
		ws = append(ws, &workload{Name: fmt.Sprintf("lossless/%s/q%v/m%d", sp, q, method), Kind: "lossless", Spec: sp, Opts: o,
			Sites: losslessSites, img: genImage(sp)})
	}
	// lossy: >= 4 macroblock rows; padH = 80,128,208,... so that padH mod n and
	// padH/2 mod n hit 0, 1 and n-1 for several n
	lossy(96, 80, 0, false, 75, 4, nil)
	lossy(130, 117, 1, false, 50, 3, nil)
	lossy(250, 203, 2, false, 90, 5, nil)
	lossy(180, 150, 1, true, 70, 4, nil)
	lossy(120, 100, 0, false, 60, 2, nil) // method < 3: serial main loop, parallel import/analysis
	lossy(256, 208, 3, false, 75, 4, nil) // exact-tie picture: flat macroblocks (equal analysis alphas, equal mode costs) next to busy ones
	if thorough {
		lossy(640, 487, 1, false, 80, 6, nil)
		lossy(333, 1001, 0, false, 40, 4, func(o *webp.EncoderOptions) { o.Segments = 2; o.Partitions = 2 })
		lossy(1200, 70, 2, false, 95, 3, func(o *webp.EncoderOptions) { o.SNSStrength = 80; o.FilterStrength = 30 })
		lossy(257, 259, 1, true, 55, 5, func(o *webp.EncoderOptions) { o.UseSharpYUV = true })
		lossy(400, 300, 0, false, 75, 4, func(o *webp.EncoderOptions) { o.Preset = webp.PresetPhoto })
	}
	// lossless: >= 316x316 (minPixelsForParallel = 100000, hash chain > 50000)
	lossless(352, 330, 1, false, 75, 4)
	lossless(410, 317, 0, true, 95, 3)
	lossless(640, 256, 3, false, 75, 4) // exact cost ties (flat half) next to a strictly best mode: loop-carried tie-breaking state
	if thorough {
		lossless(1024, 701, 1, false, 90, 5)
		lossless(2000, 64, 2, false, 75, 4) // wide and low: argbToNRGBA with n > height
		lossless(700, 900, 0, false, 25, 2)
		lossless(512, 512, 2, true, 100, 6)
	}
	// decode: the lossless files (cross-colour inverse, argbToNRGBA) and one lossy+alpha file
	webp.VerifResetOverrides()
	webp.VerifSetAllWorkers(1)
	n := len(ws)
	for i := 0; i < n; i++ {
		w := ws[i]
		if w.Kind == "lossless" || (w.Kind == "lossy" && w.Spec.Alpha) {
			var buf bytes.Buffer
			if err := webp.Encode(&buf, w.img, w.Opts); err != nil {
				continue
			}
			ws = append(ws, &workload{Name: "decode/" + w.Name, Kind: "decode", Spec: w.Spec, Input: buf.Bytes(),
				Sites: []int{sInvCrossColor, sArgbToNRGBA}})
		}
	}
	// animation: 5 (thorough 9) lossless frames, decoded with DecodeFramesParallel
	nf := 5
	if thorough {
		nf = 9
	}
	var abuf bytes.Buffer
	enc := animation.NewEncoder(&abuf, 96, 72, &animation.EncodeOptions{Lossless: true, Quality: 60})
	okAnim := true
	for f := 0; f < nf; f++ {
		sp := imgSpec{96, 72, f % 3, f%2 == 1, rng.U64()}
		if err := enc.AddFrame(genImage(sp), 40*time.Millisecond); err != nil {
			okAnim = false
		}
	}
	if err := enc.Close(); err != nil {
		okAnim = false
	}
	if okAnim {
		ws = append(ws, &workload{Name: fmt.Sprintf("anim/%dframes", nf), Kind: "anim", Input: abuf.Bytes(), Sites: []int{sAnimDecode}})
	}
	// animations with undecodable frames (work queue + error collection of DecodeFramesParallel)
	mkAnim := func(lossless bool, nfr int) []byte {
		var b bytes.Buffer
		e := animation.NewEncoder(&b, 64, 48, &animation.EncodeOptions{Lossless: lossless, Quality: 70, Kmin: 1, Kmax: 1})
		for f := 0; f < nfr; f++ {
			if err := e.AddFrame(genImage(imgSpec{64, 48, (f + 1) % 3, false, rng.U64()}), 30*time.Millisecond); err != nil {
				return nil
			}
		}
		if err := e.Close(); err != nil {
			return nil
		}
		return b.Bytes()
	}
	animLL, animLY := mkAnim(true, 6), mkAnim(false, 5)
	addC := func(name string, in []byte, corrupt map[int]string, pre []int) {
		if in == nil {
			return
		}
		ws = append(ws, &workload{Name: "animc/" + name, Kind: "animc", Input: in, Sites: []int{sAnimDecode}, Corrupt: corrupt, PreDecoded: pre})
	}
	addC("lossless/none", animLL, nil, nil)
	addC("lossless/first-corrupt", animLL, map[int]string{0: "trunc"}, nil)
	addC("lossless/middle-corrupt", animLL, map[int]string{2: "head"}, nil)
	addC("lossless/last-corrupt", animLL, map[int]string{5: "trunc"}, nil)
	addC("lossless/two-corrupt-late-fails-first", animLL, map[int]string{1: "trunc", 4: "head"}, nil)
	addC("lossless/two-corrupt-same-kind", animLL, map[int]string{0: "head", 3: "head"}, nil)
	addC("lossless/all-corrupt", animLL, map[int]string{0: "trunc", 1: "head", 2: "trunc", 3: "head", 4: "trunc", 5: "head"}, nil)
	addC("lossless/middle-corrupt-two-predecoded", animLL, map[int]string{3: "trunc"}, []int{0, 5})
	addC("lossless/only-two-to-decode", animLL, map[int]string{4: "trunc"}, []int{0, 1, 2, 3})
	addC("lossy/none", animLY, nil, nil)
	addC("lossy/middle-corrupt", animLY, map[int]string{2: "trunc"}, nil)
	addC("lossy/two-corrupt", animLY, map[int]string{1: "trunc", 3: "head"}, nil)
	ws = append(ws, &workload{Name: "animc/zero-frames", Kind: "animc", ZeroFrames: true, Sites: []int{sAnimDecode}})
	webp.VerifResetOverrides()
	return ws
}

// ---------------------------------------------------------------------------
// child process: run every workload under the process's own GOMAXPROCS

func childMain() {
	seed, _ := strconv.ParseInt(os.Args[2], 10, 64)
	tier := os.Args[3]
	only := ""
	if len(os.Args) > 4 {
		only = os.Args[4]
	}
	ws := buildWorkloads(seed, tier)
	for _, w := range ws {
		if only != "" && w.Name != only {
			continue
		}
		r, err := w.run()
		if err != nil {
			r = "panic"
		}
		fmt.Printf("%s\t%s\n", w.Name, r)
	}
}

// children runs the workloads in real child processes with a given GOMAXPROCS: the
// configurations the property quantifies over.  Every violation of this harness is decided
// by such runs; the per-site overrides inside this process only attribute it to a site.
type children struct {
	c    *Ctx
	exe  string
	full map[int]map[string]string // GOMAXPROCS -> workload -> result (one process for all workloads)
}

func (ch *children) spawn(k int, only string) (map[string]string, error) {
	var last error
	for attempt := 0; attempt < 2; attempt++ {
		args := []string{"child", strconv.FormatInt(ch.c.Seed, 10), ch.c.Tier}
		if only != "" {
			args = append(args, only)
		}
		cmd := exec.Command(ch.exe, args...)
		cmd.Env = append(os.Environ(), "GOMAXPROCS="+strconv.Itoa(k))
		out, err := cmd.Output()
		if err != nil {
			last = err
			continue
		}
		m := map[string]string{}
		for _, l := range strings.Split(strings.TrimSpace(string(out)), "\n") {
			f := strings.SplitN(l, "\t", 2)
			if len(f) == 2 {
				m[f[0]] = f[1]
			}
		}
		return m, nil
	}
	return nil, last
}

// fresh runs ONE workload in a new child with GOMAXPROCS = k.
func (ch *children) fresh(k int, w *workload) (string, bool) {
	m, err := ch.spawn(k, w.Name)
	if err != nil {
		ch.c.Count("child-failed-to-run")
		return "", false
	}
	r, ok := m[w.Name]
	return r, ok
}

// differ decides whether GOMAXPROCS = a and GOMAXPROCS = b give different results for w:
// each configuration is run twice in fresh processes; a configuration that disagrees with
// itself is not evidence about the CPU count (that is C10's subject) and decides nothing.
func (ch *children) differ(a, b int, w *workload) (bool, string, string) {
	ra1, ok1 := ch.fresh(a, w)
	ra2, ok2 := ch.fresh(a, w)
	rb1, ok3 := ch.fresh(b, w)
	rb2, ok4 := ch.fresh(b, w)
	if !(ok1 && ok2 && ok3 && ok4) {
		ch.c.Count("confirmation-impossible/child-failed")
		return false, "", ""
	}
	if ra1 != ra2 || rb1 != rb2 {
		ch.c.Count("child-run-to-run-nondeterminism")
		ch.c.D.Notes = append(ch.c.D.Notes, fmt.Sprintf("workload %s: two processes with the same GOMAXPROCS (%d or %d) returned different results (C10's subject); a difference between the two values is reported only if no result of one was seen with the other", w.Name, a, b))
	}
	disjoint := ra1 != rb1 && ra1 != rb2 && ra2 != rb1 && ra2 != rb2
	return disjoint, ra1, rb1
}

// ---------------------------------------------------------------------------

func main() {
	if len(os.Args) > 3 && os.Args[1] == "child" {
		childMain()
		return
	}
	// the parent's own behaviour must not depend on the host: fixed GOMAXPROCS
	runtime.GOMAXPROCS(4)
	Main("c12", run)
}

func workerCounts(c *Ctx) []int {
	ns := []int{}
	for n := 1; n <= 16; n++ {
		ns = append(ns, n)
	}
	return append(ns, 17, 64)
}

func showRanges(rs []webp.VerifRange) string {
	if len(rs) == 0 {
		return "-"
	}
	var sb strings.Builder
	for i, r := range rs {
		if i > 0 {
			sb.WriteByte(' ')
		}
		fmt.Fprintf(&sb, "%d:%d", r.Start, r.End)
	}
	return sb.String()
}

func run(c *Ctx) {
	names := webp.VerifSiteNames()
	// the harness and the hook package must agree on the site table; if they do not the
	// harness cannot run (an error of the machinery, never a violation of the property)
	if len(names) != numSites {
		fmt.Fprintf(os.Stderr, "c12 harness: verifhook site table has %d sites, the harness knows %d: %v\n", len(names), numSites, names)
		os.Exit(3)
	}
	for i, n := range names {
		if n != wantSiteNames[i] {
			fmt.Fprintf(os.Stderr, "c12 harness: verifhook site %d is %q, the harness expects %q\n", i, n, wantSiteNames[i])
			os.Exit(3)
		}
	}
	exe, exeErr := os.Executable()
	if exeErr != nil {
		fmt.Fprintf(os.Stderr, "c12 harness: cannot find own executable: %v\n", exeErr)
		os.Exit(3)
	}
	ch := &children{c: c, exe: exe, full: map[int]map[string]string{}}
	// A difference seen with ONE site's worker count overridden (a configuration no
	// GOMAXPROCS value produces) is reported only if real processes with GOMAXPROCS = a and
	// GOMAXPROCS = b return different results for the same workload; the per-site run
	// supplies the attribution (the key), the processes decide.
	confirmed := map[string]int{}
	decided := map[string]bool{}
	confirm := func(key string, w *workload, a, b int, desc string, replay map[string]any) {
		id := fmt.Sprintf("%s|%s|%d|%d", key, w.Name, a, b)
		if decided[id] {
			return
		}
		decided[id] = true
		if confirmed[key] >= 3 {
			c.Count("difference-not-re-run/" + key)
			return
		}
		c.D.Evaluations++
		d, ra, rb := ch.differ(a, b, w)
		if !d {
			c.Count("per-site-difference-not-confirmed-by-processes/" + key)
			c.D.Notes = append(c.D.Notes, fmt.Sprintf("%s: workload %s differs between %d and %d workers at this site alone, but processes with GOMAXPROCS=%d and %d agree: the property holds for this input, nothing reported", key, w.Name, a, b, a, b))
			return
		}
		confirmed[key]++
		replay[fmt.Sprintf("process-gomaxprocs-%d", a)] = ra
		replay[fmt.Sprintf("process-gomaxprocs-%d", b)] = rb
		c.Violate(key, desc, replay)
	}
	c.D.Rule = "an evaluation = one public-API run (Encode / Decode / DecodeFramesParallel) with one site's worker count overridden, or one whole-process run, compared with its reference; non-trivial = the overridden site's parallel path actually ran (site reached, >= 2 ranges or a work queue) on a distinct (site, n, workload)"
	ws := buildWorkloads(c.Seed, c.Tier)
	ns := workerCounts(c)
	emitted := map[string]bool{}
	emit := func(caseLine, impl string) {
		k := caseLine + "|" + impl
		if emitted[k] {
			return
		}
		emitted[k] = true
		c.Case(caseLine, impl)
		c.Count("corr/" + strings.SplitN(caseLine, " ", 2)[0])
	}

	cs := &coverState{ref: map[string][][2]int{}}
	// ---- (1)+(2) per-site runs
	for _, w := range ws {
		for _, s := range w.Sites {
			ref := map[int]string{} // n -> result
			for _, n := range ns {
				webp.VerifResetOverrides()
				webp.VerifSetWorkers(s, n)
				webp.VerifResetHits()
				webp.VerifLogRanges(true)
				res, err := w.run()
				hits := webp.VerifSiteHits()
				rgs := webp.VerifRanges()
				webp.VerifLogRanges(false)
				webp.VerifResetOverrides()
				c.D.Evaluations++
				if err != nil {
					// a panic with n workers at this site: a violation if a process with
					// GOMAXPROCS = n panics (or differs) and one with GOMAXPROCS = 1 does not
					c.Count("panic-with-site-override/" + names[s])
					if n > 1 {
						confirm("panic/site="+names[s], w, n, 1, "panics with this worker count but not with one CPU: "+err.Error(),
							map[string]any{"workload": w.Name, "site": names[s], "n": n})
					}
					continue
				}
				ref[n] = res
				var mine []webp.VerifRange
				for _, r := range rgs {
					if r.Site == s {
						mine = append(mine, r)
					}
				}
				parallelRan := hits[s] > 0 && (len(mine) >= 2 || s == sAnimDecode || s == sEncodeParallel || s == sUseParallel)
				if hits[s] == 0 {
					c.Count("site-not-reached/" + names[s])
				} else if parallelRan && n > 1 {
					c.Nontrivial(fmt.Sprintf("%s|%d|%s", names[s], n, w.Name))
					c.Count("parallel-ran/" + names[s])
				}
				c.Sample(map[string]any{"workload": w.Name, "site": names[s], "n": n, "result": res, "ranges": showRanges(mine)})
				// correspondence of the ranges with the model
				correspond(c, cs, emit, w, s, n, mine)
				// differential
				if n == 1 {
					continue
				}
				if base, ok := ref[1]; ok && res != base && w.Kind == "animc" {
					// which frames are decoded / whether an error is returned, versus WHICH error
					key := "site=" + names[s] + "/frames-or-error-presence"
					if stableAnim(res) == stableAnim(base) {
						key = "site=" + names[s] + "/which-error"
					}
					c.Count("differs-from-n1/" + key)
					confirm(key, w, n, 1, fmt.Sprintf("DecodeFramesParallel with %d workers on an animation with undecodable frames differs from the 1-worker result", n),
						map[string]any{"workload": w.Name, "corrupt-frames": w.Corrupt, "predecoded": w.PreDecoded, "n": n, "n1": base, "got": res})
				} else if base, ok := ref[1]; ok && res != base {
					key := "site=" + names[s]
					c.Count("differs-from-n1/" + names[s])
					confirm(key, w, n, 1, fmt.Sprintf("result with %d workers at site %s differs from the 1-worker result", n, names[s]),
						map[string]any{"workload": w.Name, "image": w.Spec.String(), "site": names[s], "n": n, "n1": base, "got": res})
				}
				if choiceSite[s] && n >= 3 {
					if base, ok := ref[2]; ok && res != base {
						confirm("partition/site="+names[s], w, n, 2, fmt.Sprintf("result with %d workers at site %s differs from the 2-worker result (same algorithm, other partition)", n, names[s]),
							map[string]any{"workload": w.Name, "image": w.Spec.String(), "site": names[s], "n": n, "n2": base, "got": res})
					}
				}
			}
		}
	}

	// ---- DecodeFramesParallel / DecodeFrames: their agreement is not part of the property as
	// stated (it speaks about GOMAXPROCS values only), so it is measured, never reported.
	for _, w := range ws {
		if w.Kind != "animc" {
			continue
		}
		a, _ := w.buildAnimC()
		if a == nil {
			continue
		}
		toDecode := 0
		for i := range a.Frames {
			if a.Frames[i].Image == nil && a.Frames[i].BitstreamData != nil {
				toDecode++
			}
		}
		if len(w.Corrupt) == 0 || toDecode <= 2 {
			webp.VerifResetOverrides()
			if w.runAnimC(false) != w.runAnimC(true) {
				c.Count("info/DecodeFramesParallel-differs-from-DecodeFrames")
			} else {
				c.Count("info/DecodeFramesParallel-agrees-with-DecodeFrames")
			}
		}
	}

	// ---- (3) whole-process runs
	procs := []int{1, 2, 3, 4, 5, 8, 16}
	child := ch.full
	for _, k := range procs {
		m, err := ch.spawn(k, "")
		if err != nil {
			// the machinery, not the library: counted, the comparisons that need it are skipped
			c.Count(fmt.Sprintf("child-failed-to-run/gomaxprocs=%d", k))
			c.D.Notes = append(c.D.Notes, fmt.Sprintf("child process with GOMAXPROCS=%d could not be run (%v): its comparisons are missing from this run", k, err))
			continue
		}
		child[k] = m
		c.Count(fmt.Sprintf("child/gomaxprocs=%d", k))
	}
	sim := func(w *workload, k int, exempt bool) string {
		webp.VerifResetOverrides()
		webp.VerifSetAllWorkers(k)
		if exempt {
			// the known algorithm-choice sites behave as with GOMAXPROCS > 1
			webp.VerifSetWorkers(sUseParallel, 4)
			webp.VerifSetWorkers(sHashChain, 4)
		}
		r, err := w.run()
		webp.VerifResetOverrides()
		if err != nil {
			return "panic"
		}
		return r
	}
	for _, w := range ws {
		for _, k := range procs {
			ck, ok := child[k][w.Name]
			if !ok {
				continue
			}
			c.D.Evaluations++
			if ck == "panic" {
				// a panic is a result like any other: it is reported below if another
				// GOMAXPROCS value does not panic
				c.Count("panic-in-child")
			}
			// (i) is the hook simulation faithful?  A difference means either an unhooked read
			// of the CPU count or an unfaithful hook: it limits what the per-site runs cover and
			// is recorded; the property itself is decided by (ii) and (iii) on real processes.
			if sk := sim(w, k, false); sk != ck {
				c.Count("simulation-differs-from-process")
				c.D.Notes = append(c.D.Notes, fmt.Sprintf("workload %s: a process with GOMAXPROCS=%d returns %s, this process with every hooked site forced to %d workers returns %s (unhooked CPU-count read, or the hook is not faithful)", w.Name, k, ck, k, sk))
			}
			c.Nontrivial(fmt.Sprintf("child|%d|%s", k, w.Name))
			// (ii) all k >= 2 agree
			if k >= 3 {
				if c2, ok := child[2][w.Name]; ok && c2 != ck {
					confirm(fmt.Sprintf("whole-process/%s/gomaxprocs-%d-vs-2", w.Kind, k), w, k, 2,
						fmt.Sprintf("GOMAXPROCS=%d and GOMAXPROCS=2 give different results", k),
						map[string]any{"workload": w.Name, "image": w.Spec.String(), "gomaxprocs": k, "with2": c2, "got": ck})
				}
			}
		}
		// (iii) 1 vs 2 explained by the known sites only
		c1, ok1 := child[1][w.Name]
		c2, ok2 := child[2][w.Name]
		if ok1 && ok2 && c1 != c2 {
			c.Count("whole-process-1-vs-2-differs/" + w.Kind)
			// attribution only (simulated in this process); the two processes decide
			fix := sim(w, 1, true)
			key := "whole-process/" + w.Kind + "/gomaxprocs-1-vs-2-unexplained"
			desc := "GOMAXPROCS=1 and 2 differ and the known algorithm-choice sites do not explain it"
			if fix == c2 {
				desc = "GOMAXPROCS=1 and GOMAXPROCS=2 give different results; the difference disappears when the known algorithm-choice sites are held at their multi-CPU choice"
				key = "site=" + names[sUseParallel]
				if w.Kind == "lossless" {
					key = "site=" + names[sHashChain]
				} else if w.Kind == "lossy" && w.Spec.Alpha {
					only := sim(w, 1, false)
					webp.VerifResetOverrides()
					webp.VerifSetAllWorkers(1)
					webp.VerifSetWorkers(sHashChain, 4)
					r, _ := w.run()
					webp.VerifResetOverrides()
					if r != only {
						key = "site=" + names[sHashChain]
					}
				}
			}
			confirm(key, w, 2, 1, desc,
				map[string]any{"workload": w.Name, "image": w.Spec.String(), "gomaxprocs1": c1, "gomaxprocs2": c2, "with-known-sites-parallel": fix})
		}
	}
	c.D.Notes = append(c.D.Notes,
		fmt.Sprintf("workloads: %d (lossy/lossless encodes, decodes of the lossless files, one animation); worker counts per site: %v; child GOMAXPROCS: %v; parent GOMAXPROCS fixed to 4", len(ws), ns, procs))
	var wn []string
	for _, w := range ws {
		wn = append(wn, w.Name)
	}
	sort.Strings(wn)
	c.D.Notes = append(c.D.Notes, "workload list: "+strings.Join(wn, "; "))
}

// coverState remembers, per (workload, site), the index domains of the site's invocations as
// first seen (smallest worker count that logged ranges).
type coverState struct {
	ref map[string][][2]int
}

// splitRuns splits a site's range log (ranges in spawn order) into invocations: a new one
// starts when the start goes back, or repeats after a non-empty range.
func splitRuns(rs []webp.VerifRange) [][]webp.VerifRange {
	var out [][]webp.VerifRange
	for i, r := range rs {
		if i == 0 || r.Start < rs[i-1].Start || (r.Start == rs[i-1].Start && rs[i-1].End > rs[i-1].Start) {
			out = append(out, nil)
		}
		out[len(out)-1] = append(out[len(out)-1], r)
	}
	return out
}

func hull(rs []webp.VerifRange) (int, int, bool) {
	lo, hi, any := 0, 0, false
	for _, r := range rs {
		if r.End <= r.Start {
			continue
		}
		if !any || r.Start < lo {
			lo = r.Start
		}
		if !any || r.End > hi {
			hi = r.End
		}
		any = true
	}
	return lo, hi, any
}

// correspond emits the model cases for one per-site run: the ranges the site handed to its
// workers must tile the SAME index interval for every worker count, exactly once — decided
// by the extracted [is_tiling] (proved to imply [exact_partition], the premise of the
// fork-join theorems).  No formula of the code is compared: any arithmetic that tiles passes.
func correspond(c *Ctx, cs *coverState, emit func(string, string), w *workload, s, n int, mine []webp.VerifRange) {
	if len(mine) == 0 {
		return
	}
	invs := splitRuns(mine)
	key := fmt.Sprintf("%s|%d", w.Name, s)
	ref, ok := cs.ref[key]
	if !ok {
		for _, inv := range invs {
			lo, hi, any := hull(inv)
			if !any {
				lo, hi = 0, 0
			}
			ref = append(ref, [2]int{lo, hi})
		}
		cs.ref[key] = ref
	}
	if len(invs) != len(ref) {
		// the site ran a different number of times (e.g. another algorithm upstream): the
		// invocations cannot be aligned, nothing is claimed
		c.Count("cover/invocation-count-differs")
		return
	}
	for i, inv := range invs {
		emit(fmt.Sprintf("cover %d %d %s", ref[i][0], ref[i][1], showRanges(inv)), "ok")
	}
}
