// C10 — results do not depend on goroutine scheduling or concurrent use.
//
// Implementation side of the check:
//
//	(a) trace conformance: the verifhook event trace of the row-pipelined lossy
//	    encoder (claim / waitFor / start / export / signal / record) is replayed
//	    by the extracted Coq checker: it must be a run of the L1 transition system
//	    (ConcRowSync.v) ending in a final state. Mutated copies of real traces
//	    (x+1 instead of x+2, signal before export, dropped wait, start before the
//	    enabling signal, ...) must be rejected — the checker's teeth are checked on
//	    every run;
//	(b) forced schedules: the Yield callback stalls chosen workers at chosen points
//	    (signaller held until the waiter sleeps in cond.Wait; waiter held between
//	    fast check and Lock until the signal has happened; waiter held at the
//	    critical window before cond.Wait until the signaller is in its slow path;
//	    one slow row with two rows queued behind it); output must equal the
//	    one-worker bytes and the run must terminate;
//	(c) random perturbation (Gosched / short sleeps at the hooks) x workers 1..6;
//	(d) concurrent public-API use: goroutines mixing Encode / Decode / DecodeConfig /
//	    GetFeatures / animation / mux on different inputs; each result is compared
//	    with the result of the same call made alone;
//	(f) pooled objects under concurrency: goroutines hammering Encode / Decode of the
//	    same dimensions; per-call comparison with the solo result and re-verification
//	    of the checksums of earlier results while the others run;
//	(g) slow writers: Encode through writers that copy the slice they are given, yield while
//	    other goroutines run same-dimension encodes, and re-compare it before returning;
//	(e) thorough tier: (c), (d), (f) and (g) again from a -race build of this harness.
package main

import (
	"bytes"
	"crypto/sha256"
	"encoding/hex"
	"fmt"
	"image"
	"os"
	"os/exec"
	"path/filepath"
	"regexp"
	"runtime"
	"sort"
	"strconv"
	"strings"
	"sync"
	"sync/atomic"
	"time"

	webp "github.com/deepteams/webp"
	"github.com/deepteams/webp/animation"
	"github.com/deepteams/webp/mux"

	. "verifharness/hlib"
)

const sEncodeParallel = 3 // verifhook.SiteLossyEncodeParallel

func digest(b []byte) string {
	h := sha256.Sum256(b)
	return hex.EncodeToString(h[:12])
}

// ---------------------------------------------------------------------------
// pictures (same generator as harness/c12)

type imgSpec struct {
	W, H  int
	Style int
	Alpha bool
	Seed  uint64
}

func (s imgSpec) String() string {
	return fmt.Sprintf("%dx%d/style%d/alpha%v/seed%d", s.W, s.H, s.Style, s.Alpha, s.Seed)
}

func clamp8(v int) byte {
	if v < 0 {
		return 0
	}
	if v > 255 {
		return 255
	}
	return byte(v)
}

func genImage(s imgSpec) *image.NRGBA {
	r := NewRand(s.Seed)
	im := image.NewNRGBA(image.Rect(0, 0, s.W, s.H))
	const tw = 24
	var tile [tw * tw * 3]byte
	for i := range tile {
		tile[i] = byte(r.Intn(256))
	}
	fx, fy := r.Range(1, 5), r.Range(1, 5)
	for y := 0; y < s.H; y++ {
		for x := 0; x < s.W; x++ {
			var R, G, B int
			switch s.Style {
			case 0:
				R = (x*fx*255/s.W + y*3) & 255
				G = (y * fy * 255 / s.H) & 255
				B = ((x + y) * 2) & 255
				n := r.Intn(9) - 4
				R, G, B = R+n, G+n/2, B-n
			case 1:
				bx, by := x/48, y/40
				if (bx+by)%3 == 0 {
					t := ((y%tw)*tw + x%tw) * 3
					R, G, B = int(tile[t]), int(tile[t+1]), int(tile[t+2])
				} else if (bx+by)%3 == 1 {
					R, G, B = (x*2)&255, (y*3)&255, (bx*40+by*25)&255
				} else {
					v := r.Intn(256)
					R, G, B = v, (v+x)&255, (v+y)&255
				}
			default:
				bx, by := x/32, y/24
				R, G, B = (bx*53)&255, (by*91)&255, ((bx^by)*37)&255
				if x%32 == 0 || y%24 == 0 {
					R, G, B = 255-R, 255-G, 255-B
				}
				if (bx+2*by)%5 == 0 {
					R += r.Intn(31) - 15
				}
			}
			A := 255
			if s.Alpha {
				switch {
				case (x/20+y/20)%4 == 0:
					A = 0
				case (x/20+y/20)%4 == 1:
					A = (x*255/s.W + r.Intn(8)) & 255
				}
			}
			o := y*im.Stride + x*4
			im.Pix[o], im.Pix[o+1], im.Pix[o+2], im.Pix[o+3] = clamp8(R), clamp8(G), clamp8(B), byte(A)
		}
	}
	return im
}

func digestImage(im image.Image) string {
	b := im.Bounds()
	h := sha256.New()
	switch t := im.(type) {
	case *image.NRGBA:
		h.Write(t.Pix)
	case *image.YCbCr:
		h.Write(t.Y)
		h.Write(t.Cb)
		h.Write(t.Cr)
	case *image.NYCbCrA:
		h.Write(t.Y)
		h.Write(t.Cb)
		h.Write(t.Cr)
		h.Write(t.A)
	default:
		for y := b.Min.Y; y < b.Max.Y; y++ {
			for x := b.Min.X; x < b.Max.X; x++ {
				r, g, bb, a := im.At(x, y).RGBA()
				h.Write([]byte{byte(r >> 8), byte(g >> 8), byte(bb >> 8), byte(a >> 8)})
			}
		}
	}
	return fmt.Sprintf("%T%dx%d:%s", im, b.Dx(), b.Dy(), hex.EncodeToString(h.Sum(nil)[:12]))
}

// ---------------------------------------------------------------------------
// running one lossy encode with a deadline (a lost wake-up shows as a timeout)

type encJob struct {
	Spec imgSpec
	Q    float32
	M    int
	img  *image.NRGBA
}

func (j *encJob) mbW() int { return (j.Spec.W + 15) / 16 }
func (j *encJob) mbH() int { return (j.Spec.H + 15) / 16 }
func (j *encJob) name() string {
	return fmt.Sprintf("%s/q%v/m%d", j.Spec, j.Q, j.M)
}

// encode returns "len:digest", "err", "panic: ...", "timeout" (confirmed stuck) or "unfinished".
func (j *encJob) encode(deadline time.Duration) string {
	ch := make(chan string, 1)
	var gid atomic.Int64
	go func() {
		gid.Store(webp.VerifGoid())
		defer func() {
			if p := recover(); p != nil {
				ch <- fmt.Sprintf("panic: %v", p)
			}
		}()
		var buf bytes.Buffer
		if err := webp.Encode(&buf, j.img, &webp.EncoderOptions{Quality: j.Q, Method: j.M}); err != nil {
			ch <- "err"
			return
		}
		ch <- fmt.Sprintf("%d:%s", buf.Len(), digest(buf.Bytes()))
	}()
	return await(ch, &gid, deadline)
}

// ---------------------------------------------------------------------------
// deciding that a call is STUCK (deadlock / lost wake-up) rather than slow.
//
// A call that has not returned after `deadline` is not reported on that ground: a loaded or
// slow machine must never produce a violation.  It is reported as "timeout" only when the
// goroutine dump shows that it cannot make progress: the goroutine running the call and all
// goroutines it (transitively) created are blocked on a synchronisation primitive
// (sync.Cond.Wait, sync.WaitGroup.Wait, sync.Mutex.Lock, semacquire, channel operation,
// select), no goroutine anywhere in the process is running / runnable / sleeping inside
// library code (so nobody is left who could wake them), and the same picture is seen in
// three consecutive dumps.  While anything is still moving the harness keeps waiting, up to
// a hard cap after which the call is recorded as "unfinished" — no verdict, no violation.

type gInfo struct {
	id, parent int64
	state      string
	lib        bool
}

var (
	gHeader  = regexp.MustCompile(`^goroutine (\d+) \[([^\],]+)`)
	gCreated = regexp.MustCompile(`(?m)^created by .* in goroutine (\d+)$`)
)

func dumpGoroutines() map[int64]*gInfo {
	buf := make([]byte, 1<<20)
	for {
		n := runtime.Stack(buf, true)
		if n < len(buf) {
			buf = buf[:n]
			break
		}
		buf = make([]byte, 2*len(buf))
	}
	gs := map[int64]*gInfo{}
	for _, blk := range strings.Split(string(buf), "\n\n") {
		m := gHeader.FindStringSubmatch(blk)
		if m == nil {
			continue
		}
		g := &gInfo{state: m[2], lib: strings.Contains(blk, "github.com/deepteams/webp")}
		g.id, _ = strconv.ParseInt(m[1], 10, 64)
		if c := gCreated.FindStringSubmatch(blk); c != nil {
			g.parent, _ = strconv.ParseInt(c[1], 10, 64)
		}
		gs[g.id] = g
	}
	return gs
}

func blockedState(st string) bool {
	return strings.HasPrefix(st, "sync.") || strings.HasPrefix(st, "semacquire") || strings.HasPrefix(st, "chan ") || st == "select"
}

// stuckPicture returns (signature, true) when the call run by goroutine `root` cannot progress.
func stuckPicture(root int64) (string, bool) {
	gs := dumpGoroutines()
	if _, ok := gs[root]; !ok || root == 0 {
		return "", false
	}
	in := map[int64]bool{root: true}
	for changed := true; changed; {
		changed = false
		for id, g := range gs {
			if !in[id] && in[g.parent] {
				in[id] = true
				changed = true
			}
		}
	}
	var sig []string
	for id, g := range gs {
		if in[id] {
			if !blockedState(g.state) {
				return "", false
			}
			sig = append(sig, fmt.Sprintf("%d:%s", id, g.state))
		} else if g.lib && !blockedState(g.state) {
			return "", false // somebody is still executing library code: keep waiting
		}
	}
	sort.Strings(sig)
	return strings.Join(sig, " "), true
}

var (
	slowCalls       atomic.Int64 // calls that returned only after the deadline
	unfinishedCalls atomic.Int64 // calls that had not returned at the hard cap but were not stuck
	lastStuck       atomic.Value // signature of the last confirmed stuck call (string)
)

func await(ch <-chan string, gid *atomic.Int64, deadline time.Duration) string {
	select {
	case r := <-ch:
		return r
	case <-time.After(deadline):
	}
	step := deadline / 4
	if step < time.Second {
		step = time.Second
	}
	hardCap := time.Now().Add(10 * deadline)
	same, prev := 0, ""
	for time.Now().Before(hardCap) {
		select {
		case r := <-ch:
			slowCalls.Add(1)
			return r
		case <-time.After(step):
		}
		sig, stuck := stuckPicture(gid.Load())
		if !stuck {
			same, prev = 0, ""
			continue
		}
		if sig == prev {
			same++
		} else {
			same, prev = 1, sig
		}
		if same >= 3 {
			lastStuck.Store(sig)
			return "timeout"
		}
	}
	unfinishedCalls.Add(1)
	return "unfinished"
}

// ---------------------------------------------------------------------------
// trace canonicalisation

type cev struct {
	kind    byte // C B W S X G Q R
	i, a, b int
}

func (e cev) String() string {
	switch e.kind {
	case 'C':
		return fmt.Sprintf("C,%d,%d", e.i, e.a)
	case 'Q':
		return fmt.Sprintf("Q,%d,%d", e.a, e.b)
	case 'R':
		return fmt.Sprintf("R,%d", e.a)
	}
	return fmt.Sprintf("%c,%d,%d,%d", e.kind, e.i, e.a, e.b)
}

type traceInfo struct {
	evs      []cev
	workers  int
	slowWait int // waitFor slow paths taken
	condWait int // cond.Wait calls
	sigSlow  int // signal slow paths
	ok       bool
	why      string
}

// canonical converts hook events (goroutine ids, recording order) into checker
// events: goroutine ids become worker indices (order of first claim); the claim
// events, which the hook records AFTER the atomic ticket draw, are put back into
// ticket order by moving a claim that was recorded late to just before the first
// recorded claim with a larger ticket (sound: that claim's draw happened later in
// real time, and everything the late worker did before drawing was recorded before).
func canonical(raw []webp.VerifEvent) traceInfo {
	var t traceInfo
	widx := map[int64]int{}
	recG := int64(-1)
	for _, e := range raw {
		if e.Point == webp.VerifPointClaim {
			if _, ok := widx[e.G]; !ok {
				widx[e.G] = len(widx)
			}
		}
		if e.Point == webp.VerifPointRecordRow {
			recG = e.G
		}
	}
	t.workers = len(widx)
	var out []cev
	for _, e := range raw {
		wi, isW := widx[e.G]
		switch e.Point {
		case webp.VerifPointClaim:
			c := cev{'C', wi, e.Y, 0}
			pos := len(out)
			for k, o := range out {
				if o.kind == 'C' && o.a > e.Y {
					pos = k
					break
				}
			}
			out = append(out, cev{})
			copy(out[pos+1:], out[pos:])
			out[pos] = c
		case webp.VerifPointMBBegin:
			out = append(out, cev{'B', wi, e.Y, e.X})
		case webp.VerifPointWaitEnter:
			if isW {
				out = append(out, cev{'W', wi, e.Y, e.X})
			} else if e.G == recG || recG == -1 {
				out = append(out, cev{'Q', 0, e.Y, e.X})
			} else {
				t.why = "waitFor from an unknown goroutine"
				return t
			}
		case webp.VerifPointMBStart:
			out = append(out, cev{'S', wi, e.Y, e.X})
		case webp.VerifPointExport:
			out = append(out, cev{'X', wi, e.Y, e.X})
		case webp.VerifPointSignal:
			out = append(out, cev{'G', wi, e.Y, e.X})
		case webp.VerifPointRecordRow:
			out = append(out, cev{'R', 0, e.Y, 0})
		case webp.VerifPointWaitSlow:
			t.slowWait++
		case webp.VerifPointCondWait:
			t.condWait++
		case webp.VerifPointSignalSlow:
			t.sigSlow++
		}
		if !isW && e.G != recG && e.Point != webp.VerifPointWaitEnter && e.Point != webp.VerifPointWaitSlow &&
			e.Point != webp.VerifPointCondWait && e.Point != webp.VerifPointRecordRow {
			t.why = "worker event from a goroutine that never claimed a row"
			return t
		}
	}
	t.evs = out
	t.ok = true
	return t
}

func traceLine(mbW, mbH, n int, evs []cev) string {
	var sb strings.Builder
	fmt.Fprintf(&sb, "trace %d %d %d", mbW, mbH, n)
	for _, e := range evs {
		sb.WriteByte(' ')
		sb.WriteString(e.String())
	}
	return sb.String()
}

// mutants of a conformant trace that the checker must reject
func mutants(evs []cev, mbW, mbH int, r *Rand) map[string][]cev {
	res := map[string][]cev{}
	cp := func() []cev { return append([]cev(nil), evs...) }
	pick := func(idx []int) int { return idx[r.Intn(len(idx))] }
	// 1. waitFor asked for one macroblock less (x+1 instead of x+2 / mbW-1 instead of mbW)
	var ws []int
	for k, e := range evs {
		if e.kind == 'W' && e.b >= 2 {
			ws = append(ws, k)
		}
	}
	if len(ws) > 0 {
		m := cp()
		m[pick(ws)].b--
		res["needed-minus-1"] = m
	}
	// 2. signal before export
	var xs []int
	for k := range evs {
		if evs[k].kind == 'X' {
			for l := k + 1; l < len(evs); l++ {
				if evs[l].i == evs[k].i && (evs[l].kind == 'G') {
					xs = append(xs, k)
					break
				}
				if evs[l].i == evs[k].i && evs[l].kind != 'Q' && evs[l].kind != 'R' && evs[l].kind != 'C' {
					break
				}
			}
		}
	}
	if len(xs) > 0 {
		k := pick(xs)
		m := cp()
		for l := k + 1; l < len(m); l++ {
			if m[l].kind == 'G' && m[l].i == m[k].i {
				g := m[l]
				copy(m[k+1:l+1], m[k:l])
				m[k] = g
				break
			}
		}
		res["signal-before-export"] = m
	}
	// 3. a wait on the row above is dropped
	if len(ws) > 0 {
		k := pick(ws)
		m := append(cp()[:k], evs[k+1:]...)
		res["wait-dropped"] = m
	}
	// 4. a row starts macroblock x before the row above has signalled min(x+2, mbW)
	var ss []int
	for k, e := range evs {
		if e.kind == 'S' && e.a > 0 {
			ss = append(ss, k)
		}
	}
	if len(ss) > 0 {
		k := pick(ss)
		s := evs[k]
		need := s.b + 2
		if need > mbW {
			need = mbW
		}
		for l := k - 1; l >= 0; l-- {
			if evs[l].kind == 'G' && evs[l].a == s.a-1 && evs[l].b == need {
				// move S (and the W/B of the same worker between l and k) to just before l
				var moved, rest []cev
				for _, e := range evs[l:k] {
					if e.i == s.i && (e.kind == 'W' || e.kind == 'B') && e.a >= s.a-1 {
						moved = append(moved, e)
					} else {
						rest = append(rest, e)
					}
				}
				m := append([]cev(nil), evs[:l]...)
				m = append(m, moved...)
				m = append(m, s)
				m = append(m, rest...)
				m = append(m, evs[k+1:]...)
				res["start-before-enabling-signal"] = m
				break
			}
		}
	}
	// 5. the recorder records a row before it is complete
	for k, e := range evs {
		if e.kind == 'R' {
			for l := k - 1; l >= 0; l-- {
				if evs[l].kind == 'G' && evs[l].a == e.a && evs[l].b == mbW {
					m := append([]cev(nil), evs[:l]...)
					m = append(m, e)
					for _, o := range evs[l:k] {
						if !(o.kind == 'Q' && o.a == e.a) {
							m = append(m, o)
						}
					}
					m = append(m, evs[k+1:]...)
					res["record-before-row-complete"] = m
					break
				}
			}
			break
		}
	}
	// 6. a row is claimed twice
	for k, e := range evs {
		if e.kind == 'C' && e.a < mbH && e.a > 0 {
			m := cp()
			m[k].a--
			res["ticket-reused"] = m
			break
		}
	}
	// 7. truncated run (not final)
	if len(evs) > 4 {
		res["truncated"] = cp()[:len(evs)-1-r.Intn(3)]
	}
	return res
}

// ---------------------------------------------------------------------------
// Yield callbacks: seen-set + stall rules, random perturbation

type pt struct{ p, y, x int }

type director struct {
	mu       sync.Mutex
	seen     map[pt]bool
	rules    []stallRule
	slowRow  int // rows y with y%3 == slowRow sleep at every export (-1: none)
	hits     atomic.Int64
	timeouts atomic.Int64
}

// a goroutine reaching `at` (x compared with >=) waits until `until` has been seen
type stallRule struct {
	at    pt
	until pt
	ge    bool // until.x matches any x >= until.x
	max   time.Duration
}

func (d *director) sawGE(u pt, ge bool) bool {
	d.mu.Lock()
	defer d.mu.Unlock()
	if !ge {
		return d.seen[u]
	}
	for k := range d.seen {
		if k.p == u.p && k.y == u.y && k.x >= u.x {
			return true
		}
	}
	return false
}

func (d *director) yield(p, y, x int) {
	d.mu.Lock()
	d.seen[pt{p, y, x}] = true
	d.mu.Unlock()
	if d.slowRow >= 0 && p == webp.VerifPointExport && y%3 == d.slowRow {
		time.Sleep(150 * time.Microsecond)
	}
	for _, r := range d.rules {
		if r.at.p == p && r.at.y == y && r.at.x == x {
			t0 := time.Now()
			for !d.sawGE(r.until, r.ge) {
				if time.Since(t0) > r.max {
					d.timeouts.Add(1)
					return
				}
				time.Sleep(20 * time.Microsecond)
			}
			d.hits.Add(1)
			// let the other side run a little further into its critical section
			time.Sleep(100 * time.Microsecond)
		}
	}
}

type perturb struct {
	seed uint64
	ctr  atomic.Uint64
	rate uint64 // perturb 1 in rate hook calls
}

func (p *perturb) yield(point, y, x int) {
	c := p.ctr.Add(1)
	z := (p.seed + c) * 0x9E3779B97F4A7C15
	z = (z ^ (z >> 30)) * 0xBF58476D1CE4E5B9
	z ^= z >> 27
	if z%p.rate != 0 {
		return
	}
	switch (z >> 20) % 4 {
	case 0:
		runtime.Gosched()
	case 1:
		time.Sleep(time.Duration(1+(z>>24)%40) * time.Microsecond)
	case 2:
		for k := 0; k < 3; k++ {
			runtime.Gosched()
		}
	default:
		time.Sleep(time.Duration(50+(z>>24)%300) * time.Microsecond)
	}
}

// ---------------------------------------------------------------------------
// (d) concurrent public-API use

type apiCall struct {
	name string
	fn   func() string
}

var callDeadline = 120 * time.Second

// safe runs fn with panic recovery; "timeout" = confirmed stuck (see await), "unfinished" = no verdict.
func safe(fn func() string) string {
	ch := make(chan string, 1)
	var gid atomic.Int64
	go func() {
		gid.Store(webp.VerifGoid())
		defer func() {
			if p := recover(); p != nil {
				ch <- fmt.Sprintf("panic: %v", p)
			}
		}()
		ch <- fn()
	}()
	return await(ch, &gid, callDeadline)
}

// excluded marks a call whose result when made alone is not a single value (or that did
// not finish): nothing can be compared with it.
const excluded = "\x00excluded"

func buildAPICalls(rng *Rand, thorough bool) []apiCall {
	var calls []apiCall
	enc := func(sp imgSpec, o webp.EncoderOptions) []byte {
		var buf bytes.Buffer
		if err := webp.Encode(&buf, genImage(sp), &o); err != nil {
			return nil
		}
		return buf.Bytes()
	}
	addEnc := func(sp imgSpec, o webp.EncoderOptions) []byte {
		img := genImage(sp)
		oo := o
		calls = append(calls, apiCall{fmt.Sprintf("Encode/%s/lossless=%v/q%v/m%d", sp, o.Lossless, o.Quality, o.Method), func() string {
			var buf bytes.Buffer
			if err := webp.Encode(&buf, img, &oo); err != nil {
				return "err"
			}
			return fmt.Sprintf("%d:%s", buf.Len(), digest(buf.Bytes()))
		}})
		return enc(sp, o)
	}
	addDec := func(name string, data []byte) {
		calls = append(calls, apiCall{"Decode/" + name, func() string {
			im, err := webp.Decode(bytes.NewReader(data))
			if err != nil {
				return "err"
			}
			return digestImage(im)
		}})
		calls = append(calls, apiCall{"DecodeConfig/" + name, func() string {
			c, err := webp.DecodeConfig(bytes.NewReader(data))
			if err != nil {
				return "err"
			}
			return fmt.Sprintf("%dx%d/%T", c.Width, c.Height, c.ColorModel)
		}})
		calls = append(calls, apiCall{"GetFeatures/" + name, func() string {
			f, err := webp.GetFeatures(bytes.NewReader(data))
			if err != nil {
				return "err"
			}
			return fmt.Sprintf("%+v", *f)
		}})
	}
	// same macroblock dimensions with different options (pool reuse across goroutines),
	// different dimensions, lossless large enough for its parallel sections, alpha
	f1 := addEnc(imgSpec{160, 128, 0, false, rng.U64()}, webp.EncoderOptions{Quality: 75, Method: 4})
	f2 := addEnc(imgSpec{160, 128, 1, false, rng.U64()}, webp.EncoderOptions{Quality: 40, Method: 3, Segments: 2})
	f3 := addEnc(imgSpec{150, 120, 2, true, rng.U64()}, webp.EncoderOptions{Quality: 85, Method: 5})
	f4 := addEnc(imgSpec{64, 48, 1, false, rng.U64()}, webp.EncoderOptions{Quality: 60, Method: 2})
	f5 := addEnc(imgSpec{352, 330, 1, false, rng.U64()}, webp.EncoderOptions{Lossless: true, Quality: 75, Method: 4})
	f6 := addEnc(imgSpec{120, 90, 0, true, rng.U64()}, webp.EncoderOptions{Lossless: true, Quality: 50, Method: 3})
	f7 := addEnc(imgSpec{200, 64, 2, false, rng.U64()}, webp.EncoderOptions{Quality: 90, Method: 6})
	for k, f := range [][]byte{f1, f2, f3, f4, f5, f6, f7} {
		if f != nil {
			addDec(fmt.Sprintf("file%d", k+1), f)
		}
	}
	// animation encode + decode (AnimDecoder playback)
	var frames []*image.NRGBA
	for k := 0; k < 4; k++ {
		frames = append(frames, genImage(imgSpec{80, 64, k % 3, k%2 == 0, rng.U64()}))
	}
	animEnc := func(lossless bool) ([]byte, string) {
		var buf bytes.Buffer
		e := animation.NewEncoder(&buf, 80, 64, &animation.EncodeOptions{Lossless: lossless, Quality: 70})
		for _, f := range frames {
			if err := e.AddFrame(f, 50*time.Millisecond); err != nil {
				return nil, "err"
			}
		}
		if err := e.Close(); err != nil {
			return nil, "err"
		}
		return buf.Bytes(), fmt.Sprintf("%d:%s", buf.Len(), digest(buf.Bytes()))
	}
	for _, ll := range []bool{true, false} {
		ll := ll
		calls = append(calls, apiCall{fmt.Sprintf("AnimEncode/lossless=%v", ll), func() string { _, s := animEnc(ll); return s }})
	}
	adata, _ := animEnc(true)
	if adata != nil {
		calls = append(calls, apiCall{"AnimDecode/play", func() string {
			a, err := animation.DecodeBytes(adata)
			if err != nil {
				return "err"
			}
			if err := a.DecodeFramesParallel(); err != nil {
				return "err"
			}
			d, err := animation.NewAnimDecoder(a)
			if err != nil {
				return "err"
			}
			h := sha256.New()
			for d.HasNext() {
				im, dur, err := d.NextFrame()
				if err != nil {
					return "err"
				}
				h.Write(im.Pix)
				fmt.Fprintf(h, "%d", dur)
			}
			return hex.EncodeToString(h.Sum(nil)[:12])
		}})
		addDec("anim", adata)
		// mux: demux the animation and re-assemble it
		calls = append(calls, apiCall{"Mux/demux-remux", func() string {
			dm, err := mux.NewDemuxer(adata)
			if err != nil {
				return "err"
			}
			m := mux.NewMuxer()
			ft := dm.GetFeatures()
			m.SetCanvasSize(ft.Width, ft.Height)
			m.SetLoopCount(dm.LoopCount())
			for k := 0; k < dm.NumFrames(); k++ {
				fi, err := dm.Frame(k)
				if err != nil {
					return "err"
				}
				if err := m.AddFrame(fi.Data, &mux.FrameOptions{Duration: fi.Duration, OffsetX: fi.OffsetX, OffsetY: fi.OffsetY,
					BlendMode: fi.BlendMode, DisposeMode: fi.DisposeMode}); err != nil {
					return "err-add"
				}
			}
			var buf bytes.Buffer
			if err := m.Assemble(&buf); err != nil {
				return "err-assemble"
			}
			return fmt.Sprintf("%d:%s", buf.Len(), digest(buf.Bytes()))
		}})
	}
	// animations with undecodable frames, decoded with DecodeFramesParallel while other calls
	// run: per-frame decoded / nil status, pixel digests and nil / non-nil error must equal the
	// solo result (WHICH error is returned depends on the arrival order on the pinned code:
	// C12 finding site=animation.DecodeFramesParallel/which-error, not compared here)
	if adata != nil {
		type cc struct {
			name    string
			corrupt map[int]string
			zero    bool
		}
		for _, k := range []cc{
			{"first", map[int]string{0: "trunc"}, false},
			{"middle", map[int]string{2: "head"}, false},
			{"last", map[int]string{3: "trunc"}, false},
			{"two", map[int]string{1: "trunc", 3: "head"}, false},
			{"all", map[int]string{0: "trunc", 1: "head", 2: "trunc", 3: "head"}, false},
			{"zero-frames", nil, true},
		} {
			k := k
			calls = append(calls, apiCall{"AnimDecodeCorrupt/" + k.name, func() string {
				a := &animation.Animation{CanvasWidth: 16, CanvasHeight: 16}
				if !k.zero {
					var err error
					if a, err = animation.DecodeBytes(adata); err != nil {
						return "err"
					}
					for idx, how := range k.corrupt {
						if idx < len(a.Frames) {
							b := append([]byte(nil), a.Frames[idx].BitstreamData...)
							if how == "trunc" {
								b = b[:len(b)*6/10]
							} else if len(b) > 4 && b[0] == 0x2f {
								b[4] |= 0xE0
							} else if len(b) > 0 {
								b[0] |= 1
							}
							a.Frames[idx].BitstreamData = b
						}
					}
				}
				err := a.DecodeFramesParallel()
				var sb strings.Builder
				for i := range a.Frames {
					if a.Frames[i].Image == nil {
						sb.WriteString("-,")
					} else {
						sb.WriteString(digestImage(a.Frames[i].Image) + ",")
					}
				}
				if err != nil {
					sb.WriteString("|err")
				}
				return sb.String()
			}})
		}
	}
	return calls
}

// runConcurrent runs every call `rounds` times from `par` goroutines at once and
// returns the calls whose result differs from the solo result.
func runConcurrent(calls []apiCall, solo []string, par, rounds int, rng *Rand) (diffs []map[string]any, n int) {
	type job struct{ k int }
	var jobs []job
	for r := 0; r < rounds; r++ {
		for k := range calls {
			jobs = append(jobs, job{k})
		}
	}
	// deterministic shuffle
	for i := len(jobs) - 1; i > 0; i-- {
		j := rng.Intn(i + 1)
		jobs[i], jobs[j] = jobs[j], jobs[i]
	}
	ch := make(chan job, len(jobs))
	for _, j := range jobs {
		ch <- j
	}
	close(ch)
	var mu sync.Mutex
	var wg sync.WaitGroup
	for g := 0; g < par; g++ {
		wg.Add(1)
		go func() {
			defer wg.Done()
			for j := range ch {
				r := safe(calls[j.k].fn)
				mu.Lock()
				n++
				if r != solo[j.k] && r != "unfinished" && solo[j.k] != excluded {
					diffs = append(diffs, map[string]any{"call": calls[j.k].name, "alone": solo[j.k], "concurrent": r})
				}
				mu.Unlock()
			}
		}()
	}
	wg.Wait()
	return
}

// ---------------------------------------------------------------------------
// (f) pooled objects shared under concurrency: many goroutines hammer Encode / Decode
// of the SAME dimensions, so that pooled encoders, decoders, parallel states and
// buffers migrate between goroutines.  Every result is compared with the solo result,
// and every object returned earlier (encoded bytes, decoded images) is kept alive and
// its checksum re-verified while the other goroutines keep running: a returned slice
// that aliases a pooled buffer would be overwritten by a later call.

type poolCall struct {
	name string
	kind string
	fn   func() (string, func() string) // result digest, and a re-digest of the retained object
}

func buildPoolCalls(rng *Rand) []poolCall {
	var calls []poolCall
	const W, H = 160, 128
	type encSpec struct {
		sp imgSpec
		o  webp.EncoderOptions
	}
	specs := []encSpec{
		{imgSpec{W, H, 0, false, rng.U64()}, webp.EncoderOptions{Quality: 75, Method: 4}},
		{imgSpec{W, H, 1, false, rng.U64()}, webp.EncoderOptions{Quality: 40, Method: 3, Segments: 2}},
		{imgSpec{W, H, 2, true, rng.U64()}, webp.EncoderOptions{Quality: 90, Method: 5}},
		{imgSpec{W, H, 1, false, rng.U64()}, webp.EncoderOptions{Quality: 60, Method: 2, Partitions: 2}},
		{imgSpec{W, H, 1, false, rng.U64()}, webp.EncoderOptions{Lossless: true, Quality: 60, Method: 3}},
		{imgSpec{W, H, 2, true, rng.U64()}, webp.EncoderOptions{Lossless: true, Quality: 90, Method: 4}},
		// with metadata the lossless coder's buffered (non-streaming) entry point is used and
		// its result is still being copied into the container after the pooled encoder is released
		{imgSpec{W, H, 1, false, rng.U64()}, webp.EncoderOptions{Lossless: true, Quality: 50, Method: 2, EXIF: []byte("Exif\x00\x00c10")}},
		{imgSpec{W, H, 0, true, rng.U64()}, webp.EncoderOptions{Lossless: true, Quality: 70, Method: 3, EXIF: []byte("Exif\x00\x00c10-2")}},
	}
	for _, es := range specs {
		img := genImage(es.sp)
		o := es.o
		kind := "EncodeLossy"
		if o.Lossless {
			kind = "EncodeLossless"
		}
		if len(o.EXIF) > 0 {
			kind += "Meta"
		}
		calls = append(calls, poolCall{fmt.Sprintf("%s/%s/q%v/m%d", kind, es.sp, o.Quality, o.Method), kind, func() (string, func() string) {
			var buf bytes.Buffer
			if err := webp.Encode(&buf, img, &o); err != nil {
				return "err", nil
			}
			b := buf.Bytes()
			return fmt.Sprintf("%d:%s", len(b), digest(b)), func() string { return fmt.Sprintf("%d:%s", len(b), digest(b)) }
		}})
		var fb bytes.Buffer
		if err := webp.Encode(&fb, img, &o); err != nil {
			continue
		}
		data := fb.Bytes()
		dk := "DecodeLossy"
		if o.Lossless {
			dk = "DecodeLossless"
		}
		calls = append(calls, poolCall{fmt.Sprintf("%s/%s", dk, es.sp), dk, func() (string, func() string) {
			im, err := webp.Decode(bytes.NewReader(data))
			if err != nil {
				return "err", nil
			}
			return digestImage(im), func() string { return digestImage(im) }
		}})
	}
	// two larger lossless files (>= 100000 pixels: the decoder's own parallel sections run, so a
	// decode blocks in wg.Wait and its P picks up another decode that takes the pooled Decoder)
	for k, sp := range []imgSpec{{400, 300, 1, false, rng.U64()}, {400, 300, 0, true, rng.U64()}} {
		var fb bytes.Buffer
		if err := webp.Encode(&fb, genImage(sp), &webp.EncoderOptions{Lossless: true, Quality: 40, Method: 2}); err != nil {
			continue
		}
		data := fb.Bytes()
		for rep := 0; rep < 2; rep++ { // listed twice: picked twice as often
			calls = append(calls, poolCall{fmt.Sprintf("DecodeLosslessLarge/%d/%s", k, sp), "DecodeLossless", func() (string, func() string) {
				im, err := webp.Decode(bytes.NewReader(data))
				if err != nil {
					return "err", nil
				}
				return digestImage(im), func() string { return digestImage(im) }
			}})
		}
	}
	return calls
}

type poolDiff struct {
	key    string
	desc   string
	replay map[string]any
}

// runPoolProbe returns the differences found and the number of calls / re-verifications made.
func runPoolProbe(calls []poolCall, goroutines, rounds int, rng *Rand) (diffs []poolDiff, ncalls, nreverify int) {
	solo := make([]string, len(calls))
	for k := range calls {
		k := k
		solo[k] = safe(func() string { d, _ := calls[k].fn(); return d })
		if again := safe(func() string { d, _ := calls[k].fn(); return d }); again != solo[k] || again == "unfinished" || again == "timeout" {
			solo[k] = excluded
		}
	}
	type kept struct {
		call int
		dig  string
		re   func() string
	}
	var mu sync.Mutex
	var wg sync.WaitGroup
	done := make(chan struct{})
	seeds := make([]uint64, goroutines)
	for g := range seeds {
		seeds[g] = rng.U64()
	}
	for g := 0; g < goroutines; g++ {
		wg.Add(1)
		go func(g int) {
			defer wg.Done()
			r := NewRand(seeds[g])
			var keep []kept
			verify := func(when string) {
				for _, kp := range keep {
					now := kp.re()
					mu.Lock()
					nreverify++
					if now != kp.dig {
						diffs = append(diffs, poolDiff{"pool-sharing/retained-result-changed/" + calls[kp.call].kind,
							"an object returned by an earlier call changed while other goroutines were running (it aliases pooled storage)",
							map[string]any{"call": calls[kp.call].name, "when-returned": kp.dig, "now": now, "checked": when, "goroutines": goroutines}})
					}
					mu.Unlock()
				}
			}
			for it := 0; it < rounds*len(calls); it++ {
				k := r.Intn(len(calls))
				var re func() string
				d := safe(func() string {
					dd, rr := calls[k].fn()
					re = rr
					return dd
				})
				mu.Lock()
				ncalls++
				if d != solo[k] && d != "unfinished" && solo[k] != excluded {
					key := "pool-sharing/result/" + calls[k].kind
					if d == "timeout" {
						key = "deadlock-or-lost-wakeup/pool-sharing/" + calls[k].kind
					}
					diffs = append(diffs, poolDiff{key, "a call made while other goroutines use pooled objects of the same dimensions returns something else than when made alone",
						map[string]any{"call": calls[k].name, "alone": solo[k], "concurrent": d, "goroutines": goroutines}})
				}
				mu.Unlock()
				if re != nil && d != "timeout" && d != "unfinished" {
					keep = append(keep, kept{k, d, re})
					if len(keep) > 8 {
						keep = keep[len(keep)-8:]
					}
				}
				if it%3 == 2 {
					verify("while others run")
				}
			}
			verify("at the end of the goroutine")
		}(g)
	}
	// every call above has its own stuck-detection and hard cap, so the probe ends
	go func() { wg.Wait(); close(done) }()
	<-done
	mu.Lock()
	defer mu.Unlock()
	return append([]poolDiff(nil), diffs...), ncalls, nreverify
}

// ---------------------------------------------------------------------------
// (g) slow writers: Encode hands slices to the caller's io.Writer; if such a slice aliases
// pooled storage that has already been released, another goroutine's encode can
// overwrite it while the writer is still inside Write.  With a bytes.Buffer that window
// is a few nanoseconds.  The probe writer makes it observable without being an incorrect
// writer: Write copies p, yields / sleeps while other goroutines run same-dimension
// encodes, checks that p still equals the copy (the caller must not modify p during the
// call), and keeps the copy.

type slowWriter struct {
	out     []byte
	changed int // number of Write calls during which p changed
	seed    uint64
	n       int
}

func (w *slowWriter) Write(p []byte) (int, error) {
	cp := append([]byte(nil), p...)
	w.n++
	z := (w.seed + uint64(w.n)) * 0x9E3779B97F4A7C15
	z ^= z >> 29
	for k := 0; k < 4; k++ {
		runtime.Gosched()
	}
	time.Sleep(time.Duration(100+z%200) * time.Microsecond)
	for k := 0; k < 2; k++ {
		runtime.Gosched()
	}
	if !bytes.Equal(cp, p) {
		w.changed++
	}
	w.out = append(w.out, cp...)
	return len(p), nil
}

type writerCall struct {
	name string
	kind string // Lossless/streaming, Lossless/buffered, Lossy/plain, Lossy/extended
	img  *image.NRGBA
	opts webp.EncoderOptions
}

func buildWriterCalls(rng *Rand) []writerCall {
	const W, H = 128, 96
	var calls []writerCall
	add := func(kind string, sp imgSpec, o webp.EncoderOptions) {
		calls = append(calls, writerCall{fmt.Sprintf("%s/%s/q%v/m%d", kind, sp, o.Quality, o.Method), kind, genImage(sp), o})
	}
	meta := []byte("Exif\x00\x00II*\x00\x08\x00\x00\x00\x00\x00verif-c10")
	// lossless, simple container: streamed from the pooled encoder (EncodeToWriter)
	add("Lossless/streaming", imgSpec{W, H, 0, false, rng.U64()}, webp.EncoderOptions{Lossless: true, Quality: 50, Method: 2})
	add("Lossless/streaming", imgSpec{W, H, 1, false, rng.U64()}, webp.EncoderOptions{Lossless: true, Quality: 75, Method: 4})
	add("Lossless/streaming", imgSpec{W, H, 2, true, rng.U64()}, webp.EncoderOptions{Lossless: true, Quality: 30, Method: 3})
	// lossless with metadata: buffered, extended container
	add("Lossless/buffered", imgSpec{W, H, 1, false, rng.U64()}, webp.EncoderOptions{Lossless: true, Quality: 60, Method: 3, EXIF: meta})
	add("Lossless/buffered", imgSpec{W, H, 0, true, rng.U64()}, webp.EncoderOptions{Lossless: true, Quality: 40, Method: 2, ICC: meta, XMP: meta})
	// lossy: simple container, alpha (extended), metadata (extended)
	add("Lossy/plain", imgSpec{W, H, 0, false, rng.U64()}, webp.EncoderOptions{Quality: 70, Method: 4})
	add("Lossy/plain", imgSpec{W, H, 1, false, rng.U64()}, webp.EncoderOptions{Quality: 45, Method: 2})
	add("Lossy/extended", imgSpec{W, H, 2, true, rng.U64()}, webp.EncoderOptions{Quality: 80, Method: 3})
	add("Lossy/extended", imgSpec{W, H, 1, false, rng.U64()}, webp.EncoderOptions{Quality: 60, Method: 4, EXIF: meta})
	return calls
}

// runWriterProbe: every goroutine encodes through its own slowWriter; returns differences.
func runWriterProbe(calls []writerCall, goroutines, rounds int, rng *Rand) (diffs []poolDiff, ncalls int) {
	solo := make([]string, len(calls))
	for k := range calls {
		k := k
		solo[k] = safe(func() string {
			var buf bytes.Buffer
			o := calls[k].opts
			if err := webp.Encode(&buf, calls[k].img, &o); err != nil {
				return "err"
			}
			return fmt.Sprintf("%d:%s", buf.Len(), digest(buf.Bytes()))
		})
		if solo[k] == "timeout" || solo[k] == "unfinished" {
			solo[k] = excluded
		}
	}
	var mu sync.Mutex
	var wg sync.WaitGroup
	seeds := make([]uint64, goroutines)
	for g := range seeds {
		seeds[g] = rng.U64()
	}
	fin := make(chan struct{})
	for g := 0; g < goroutines; g++ {
		wg.Add(1)
		go func(g int) {
			defer wg.Done()
			r := NewRand(seeds[g])
			for it := 0; it < rounds*len(calls); it++ {
				k := r.Intn(len(calls))
				sw := &slowWriter{seed: r.U64()}
				d := safe(func() string {
					o := calls[k].opts
					if err := webp.Encode(sw, calls[k].img, &o); err != nil {
						return "err"
					}
					return fmt.Sprintf("%d:%s", len(sw.out), digest(sw.out))
				})
				mu.Lock()
				ncalls++
				if d != "timeout" && d != "unfinished" && sw.changed > 0 {
					diffs = append(diffs, poolDiff{"pool-sharing/buffer-changed-during-write/" + calls[k].kind,
						"a slice passed to the caller's io.Writer changed while the writer was inside Write (it aliases storage that another goroutine's encode is using)",
						map[string]any{"call": calls[k].name, "writes-affected": sw.changed, "goroutines": goroutines}})
				}
				if d != solo[k] && d != "unfinished" && solo[k] != excluded {
					key := "pool-sharing/slow-writer-result/" + calls[k].kind
					if d == "timeout" {
						key = "deadlock-or-lost-wakeup/slow-writer/" + calls[k].kind
					}
					diffs = append(diffs, poolDiff{key, "Encode through a slow io.Writer, concurrently with same-dimension encodes, produced other bytes than the same Encode made alone",
						map[string]any{"call": calls[k].name, "alone": solo[k], "concurrent": d, "goroutines": goroutines}})
				}
				mu.Unlock()
			}
		}(g)
	}
	go func() { wg.Wait(); close(fin) }()
	<-fin
	mu.Lock()
	defer mu.Unlock()
	return append([]poolDiff(nil), diffs...), ncalls
}

// ---------------------------------------------------------------------------

func jobsFor(rng *Rand, thorough bool) []*encJob {
	mk := func(w, h, style int, q float32, m int) *encJob {
		sp := imgSpec{w, h, style, false, rng.U64()}
		return &encJob{Spec: sp, Q: q, M: m, img: genImage(sp)}
	}
	js := []*encJob{
		mk(48, 64, 0, 75, 4),   // 3 x 4
		mk(96, 80, 1, 60, 3),   // 6 x 5
		mk(130, 117, 2, 50, 5), // 9 x 8
		mk(16, 160, 0, 80, 3),  // 1 x 10: needed = mbW = 1 everywhere
		mk(32, 70, 1, 70, 4),   // 2 x 5
		mk(250, 203, 1, 85, 4), // 16 x 13
	}
	if thorough {
		js = append(js, mk(400, 64, 2, 90, 6), mk(640, 480, 1, 75, 4), mk(333, 500, 0, 30, 3), mk(1000, 100, 2, 65, 5))
	}
	return js
}

func main() {
	if len(os.Args) > 3 && os.Args[1] == "racechild" {
		raceChild()
		return
	}
	runtime.GOMAXPROCS(6)
	// A lost wake-up leaves goroutines blocked for ever; keep a timer alive so that the
	// runtime's global deadlock detector does not kill the harness before it has
	// reported the violation (every wait below has its own deadline).
	go func() {
		for {
			time.Sleep(500 * time.Millisecond)
		}
	}()
	Main("c10", run)
}

func run(c *Ctx) {
	c.D.Rule = "an evaluation = one Encode of the row-pipelined lossy encoder under a traced / forced / perturbed schedule compared with the one-worker bytes, one checker verdict on a (real or mutated) trace, or one public-API call made concurrently with others compared with the same call made alone; non-trivial = a distinct (image, workers, schedule kind) whose run used >= 2 row workers, or a forced scenario that materialised, or a concurrent call"
	thorough := c.Thorough()
	jobs := jobsFor(c.Rng.Fork(), thorough)
	deadline := 60 * time.Second
	if ms, err := strconv.Atoi(os.Getenv("C10_DEADLINE_MS")); err == nil && ms > 0 {
		deadline = time.Duration(ms) * time.Millisecond // for mutation experiments
		callDeadline = 4 * deadline
	}
	mrng := c.Rng.Fork()

	ref := map[*encJob]string{}
	for _, j := range jobs {
		webp.VerifResetOverrides()
		webp.VerifSetWorkers(sEncodeParallel, 1)
		ref[j] = j.encode(deadline)
		webp.VerifResetOverrides()
	}

	timeouts := 0
	// after a few runs that never returned the remaining schedule experiments are
	// skipped (each would cost a full deadline); the violations are already recorded
	giveUp := func() bool { return timeouts >= 4 }
	// the same encode with n workers under the runtime's own schedule, no perturbation
	naturalRun := func(j *encJob, n int) string {
		webp.VerifResetOverrides()
		webp.VerifSetWorkers(sEncodeParallel, n)
		r := j.encode(deadline)
		webp.VerifResetOverrides()
		return r
	}
	// WHAT IS REPORTED.  A run whose bytes differ from the one-worker bytes is only a candidate.
	// It becomes a violation of THIS property when the experiment
	//     unperturbed(n) ; the same schedule again (n) ; unperturbed(n)
	// gives the same value for the two unperturbed runs and another one in between: the three
	// calls are the same call with the same worker count, each preceded by the same call, so
	// the schedule is the only thing that changed (neither the worker count - C12's subject -
	// nor what the pooled objects went through before - C11's subject).  A confirmed-stuck
	// run is reported as such.  Everything else is counted and noted.
	compare := func(j *encJob, kind string, n int, got string, extra map[string]any, rerun func() string) {
		c.D.Evaluations++
		if got == ref[j] {
			return
		}
		if got == "unfinished" {
			c.Count("no-verdict/run-unfinished-at-hard-cap")
			return
		}
		rp := map[string]any{"image": j.Spec.String(), "quality": j.Q, "method": j.M, "workers": n, "one-worker": ref[j], "got": got}
		for k, v := range extra {
			rp[k] = v
		}
		stuck := func(what string) {
			timeouts++
			rp["blocked-goroutines"] = lastStuck.Load()
			rp["stuck-run"] = what
			c.Violate("deadlock-or-lost-wakeup/"+kind, fmt.Sprintf("lossy Encode under a %s schedule with %d row workers cannot make progress: every goroutine of the call is blocked on a synchronisation primitive and nothing is left to wake them", kind, n), rp)
		}
		if got == "timeout" {
			stuck("the " + kind + " run")
			return
		}
		c.Count("candidates/differs-from-one-worker")
		natA := naturalRun(j, n)
		rp["unperturbed-before"] = natA
		if natA == "timeout" {
			stuck("the unperturbed run with the same worker count")
			return
		}
		for attempt := 0; attempt < 3; attempt++ {
			again := rerun()
			natC := naturalRun(j, n)
			rp["same-schedule-again"], rp["unperturbed-after"] = again, natC
			if again == "timeout" || natC == "timeout" {
				stuck("a re-run")
				return
			}
			if again == "unfinished" || natA == "unfinished" || natC == "unfinished" {
				c.Count("no-verdict/run-unfinished-at-hard-cap")
				return
			}
			if natA != natC {
				c.Count("undecided/unperturbed-runs-with-the-same-worker-count-differ")
				c.D.Notes = append(c.D.Notes, fmt.Sprintf("%s with %d workers: two unperturbed runs returned %s and %s - schedule or history, not decided here, nothing reported", j.name(), n, natA, natC))
				return
			}
			if again != natA {
				key := "schedule-dependent-output/" + kind
				if strings.HasPrefix(again, "panic") {
					key = "panic/" + kind
				}
				c.Violate(key, fmt.Sprintf("lossy Encode with %d row workers returns different results under a %s schedule and under the unperturbed schedule (same call before and after, unperturbed result stable)", n, kind), rp)
				return
			}
		}
		if got == natA {
			c.Count("differs-from-one-worker-but-not-between-schedules (C12)")
			c.D.Notes = append(c.D.Notes, fmt.Sprintf("%s with %d workers returns %s under every schedule tried and %s with one worker: a worker-count dependence, C12's subject, not reported here", j.name(), n, got, ref[j]))
			return
		}
		c.Count("candidates/not-reproduced")
		c.D.Notes = append(c.D.Notes, fmt.Sprintf("%s with %d workers under a %s schedule once returned %s (unperturbed: %s); three re-runs of the schedule did not reproduce it: nothing reported", j.name(), n, kind, got, natA))
	}

	emitTrace := func(j *encJob, n int, kind string, raw []webp.VerifEvent, withMutants bool) {
		t := canonical(raw)
		if !t.ok {
			c.Case(fmt.Sprintf("trace %d %d %d", j.mbW(), j.mbH(), n), "ok "+t.why)
			return
		}
		c.Case(traceLine(j.mbW(), j.mbH(), n, t.evs), "ok")
		c.Count("trace/" + kind)
		if t.slowWait > 0 {
			c.Count("trace-with-waitFor-slow-path")
		}
		if t.condWait > 0 {
			c.Count("trace-with-cond-wait")
		}
		if t.sigSlow > 0 {
			c.Count("trace-with-signal-slow-path")
		}
		c.Sample(map[string]any{"image": j.Spec.String(), "workers": t.workers, "schedule": kind, "events": len(t.evs),
			"waitFor-slow": t.slowWait, "cond.Wait": t.condWait, "signal-slow": t.sigSlow})
		if withMutants {
			ms := mutants(t.evs, j.mbW(), j.mbH(), mrng)
			names := make([]string, 0, len(ms))
			for k := range ms {
				names = append(names, k)
			}
			sort.Strings(names)
			for _, k := range names {
				c.Case(traceLine(j.mbW(), j.mbH(), n, ms[k]), "bad")
				c.Count("mutant/" + k)
				c.D.Evaluations++
			}
		}
	}

	// ---- (a) trace conformance, plain and perturbed schedules
	workerSet := []int{1, 2, 3, 4, 6}
	for _, j := range jobs {
		for _, n := range workerSet {
			for _, kind := range []string{"free", "perturbed"} {
				if giveUp() {
					continue
				}
				pseed := c.Rng.U64()
				var raw []webp.VerifEvent
				runIt := func() string {
					webp.VerifResetOverrides()
					webp.VerifSetWorkers(sEncodeParallel, n)
					if kind == "perturbed" {
						p := &perturb{seed: pseed, rate: 3}
						webp.VerifSetYield(p.yield)
					}
					webp.VerifTrace(true)
					r := j.encode(deadline)
					raw = webp.VerifEvents()
					webp.VerifTrace(false)
					webp.VerifSetYield(nil)
					webp.VerifResetOverrides()
					return r
				}
				got := runIt()
				raw0 := raw
				compare(j, kind, n, got, nil, runIt)
				raw = raw0
				if got != "timeout" && got != "unfinished" {
					emitTrace(j, n, kind, raw, kind == "free" && n >= 2)
				}
				if n >= 2 && j.mbH() >= 2 {
					c.Nontrivial(fmt.Sprintf("%s|%d|%s", j.name(), n, kind))
				}
			}
		}
	}

	// ---- (b) forced schedules
	type scenario struct {
		name  string
		rules func(j *encJob) []stallRule
		slow  int
	}
	W := 80 * time.Millisecond
	scenarios := []scenario{
		{"signaller-held-until-waiter-sleeps", func(j *encJob) []stallRule {
			// row 1 is about to signal done=3; it is held until row 2 sleeps in cond.Wait for 3
			return []stallRule{{pt{webp.VerifPointSignal, 1, 3}, pt{webp.VerifPointCondWait, 1, 3}, false, W}}
		}, -1},
		{"waiter-held-between-fast-check-and-lock", func(j *encJob) []stallRule {
			// row 2's waitFor(1,3) failed its fast check; it is held until row 1 has signalled 3
			// and moved on (began macroblock 3), so the re-check under the lock must see it
			return []stallRule{
				{pt{webp.VerifPointExport, 1, 2}, pt{webp.VerifPointWaitSlow, 1, 3}, false, W},
				{pt{webp.VerifPointWaitSlow, 1, 3}, pt{webp.VerifPointMBBegin, 1, 3}, false, W}}
		}, -1},
		{"waiter-held-before-cond-wait-until-signal-slow-path", func(j *encJob) []stallRule {
			// the critical window: the waiter holds the mutex, has seen done < 3 and is about to
			// cond.Wait; the signaller stores 3, sees waiters > 0 and must block on the mutex
			return []stallRule{
				{pt{webp.VerifPointExport, 1, 2}, pt{webp.VerifPointCondWait, 1, 3}, false, W},
				{pt{webp.VerifPointCondWait, 1, 3}, pt{webp.VerifPointSignalSlow, 1, 3}, true, W}}
		}, -1},
		{"recorder-asleep-when-row-completes", func(j *encJob) []stallRule {
			// the last signal of row 0 is held until the Phase-B recorder sleeps on row 0
			return []stallRule{{pt{webp.VerifPointSignal, 0, j.mbW()}, pt{webp.VerifPointCondWait, 0, j.mbW()}, false, W}}
		}, -1},
		{"slow-row-0-of-3", func(j *encJob) []stallRule { return nil }, 0},
		{"slow-row-1-of-3", func(j *encJob) []stallRule { return nil }, 1},
		{"slow-row-2-of-3", func(j *encJob) []stallRule { return nil }, 2},
	}
	for _, j := range jobs {
		if j.mbW() < 4 || j.mbH() < 4 {
			continue
		}
		for _, sc := range scenarios {
			for _, n := range []int{3, 6} {
				if giveUp() {
					continue
				}
				var d *director
				var raw []webp.VerifEvent
				runIt := func() string {
					d = &director{seen: map[pt]bool{}, rules: sc.rules(j), slowRow: sc.slow}
					webp.VerifResetOverrides()
					webp.VerifSetWorkers(sEncodeParallel, n)
					webp.VerifSetYield(d.yield)
					webp.VerifTrace(true)
					r := j.encode(deadline)
					raw = webp.VerifEvents()
					webp.VerifTrace(false)
					webp.VerifSetYield(nil)
					webp.VerifResetOverrides()
					return r
				}
				got := runIt()
				raw0, d0 := raw, d
				compare(j, "forced:"+sc.name, n, got, map[string]any{"scenario": sc.name}, runIt)
				raw, d = raw0, d0
				if got != "timeout" && got != "unfinished" {
					emitTrace(j, n, "forced", raw, false)
				}
				if d.hits.Load() > 0 || sc.slow >= 0 {
					c.Count("forced-materialised/" + sc.name)
					c.Nontrivial(fmt.Sprintf("%s|%d|forced:%s", j.name(), n, sc.name))
				} else {
					c.Count("forced-not-materialised/" + sc.name)
				}
			}
		}
	}

	// ---- (c) random perturbation x workers 1..6
	reps := 3
	if thorough {
		reps = 12
	}
	for _, j := range jobs {
		for n := 1; n <= 6; n++ {
			for r := 0; r < reps; r++ {
				if giveUp() {
					continue
				}
				pseed, prate := c.Rng.U64(), uint64(2+r%5)
				runIt := func() string {
					p := &perturb{seed: pseed, rate: prate}
					webp.VerifResetOverrides()
					webp.VerifSetWorkers(sEncodeParallel, n)
					webp.VerifSetYield(p.yield)
					g := j.encode(deadline)
					webp.VerifSetYield(nil)
					webp.VerifResetOverrides()
					return g
				}
				got := runIt()
				compare(j, "random-perturbation", n, got, map[string]any{"perturb-seed": pseed, "rate": prate}, runIt)
				c.Count("perturbed-runs")
			}
		}
	}

	if giveUp() {
		c.D.Notes = append(c.D.Notes, "schedule experiments were cut short after 4 runs that were confirmed stuck")
	}
	// ---- (d) concurrent public API use
	calls := buildAPICalls(c.Rng.Fork(), thorough)
	solo := make([]string, len(calls))
	for k := range calls {
		solo[k] = safe(calls[k].fn)
		// "what the call returns when run alone" must be one value for the comparison to mean
		// anything; a call that is not deterministic alone (or did not finish) is left out —
		// why it varies is not decided here, so nothing is reported
		if again := safe(calls[k].fn); again != solo[k] || again == "unfinished" || again == "timeout" {
			c.Count("excluded/not-a-single-value-when-alone/" + strings.SplitN(calls[k].name, "/", 2)[0])
			c.D.Notes = append(c.D.Notes, fmt.Sprintf("call %s made twice alone returned %s and %s: excluded from the concurrent-use comparison", calls[k].name, solo[k], again))
			solo[k] = excluded
		}
	}
	// A concurrent result that differs from the solo one is reported only if the call, made
	// alone once more, still does not return it: otherwise "what it returns when run alone"
	// is not a single value (a dependence on earlier calls: C11's subject), counted only.
	byName := map[string]func() string{}
	for k := range calls {
		byName[calls[k].name] = calls[k].fn
	}
	stillDiffers := func(d map[string]any) bool {
		fn := byName[d["call"].(string)]
		if fn == nil || d["concurrent"] == "timeout" {
			return true
		}
		again := safe(fn)
		d["alone-again"] = again
		if again != d["alone"] {
			c.Count("not-reported/alone-result-not-a-single-value (C11)")
			c.D.Notes = append(c.D.Notes, fmt.Sprintf("call %s: concurrent result %v differs from the first solo result %v, but a later solo call returns %v: 'what it returns when run alone' is not a single value (dependence on earlier calls, C11's subject), not reported here", d["call"], d["concurrent"], d["alone"], again))
			return false
		}
		return true
	}
	rounds := 3
	if thorough {
		rounds = 10
	}
	for _, par := range []int{4, 12} {
		diffs, n := runConcurrent(calls, solo, par, rounds, c.Rng.Fork())
		c.D.Evaluations += n
		c.Count(fmt.Sprintf("concurrent-calls/par=%d", par))
		for _, d := range diffs {
			kind := strings.SplitN(d["call"].(string), "/", 2)[0]
			d["goroutines"] = par
			if d["concurrent"] == "timeout" {
				c.Violate("deadlock-or-lost-wakeup/concurrent-use/"+kind, "a public API call made concurrently with others cannot make progress (all its goroutines blocked, nobody left to wake them)", d)
				continue
			}
			if stillDiffers(d) {
				c.Violate("concurrent-use/"+kind, "a public API call returns something else when other calls run concurrently", d)
			}
		}
		for k := range calls {
			c.Nontrivial(fmt.Sprintf("concurrent|%d|%s", par, calls[k].name))
		}
	}
	// concurrent calls while the row pipeline is being perturbed
	{
		p := &perturb{seed: c.Rng.U64(), rate: 4}
		webp.VerifSetYield(p.yield)
		diffs, n := runConcurrent(calls, solo, 8, 2, c.Rng.Fork())
		webp.VerifSetYield(nil)
		c.D.Evaluations += n
		for _, d := range diffs {
			kind := strings.SplitN(d["call"].(string), "/", 2)[0]
			if d["concurrent"] == "timeout" {
				c.Violate("deadlock-or-lost-wakeup/concurrent-use/"+kind, "a public API call made concurrently with others cannot make progress (all its goroutines blocked, nobody left to wake them)", d)
				continue
			}
			if stillDiffers(d) {
				c.Violate("concurrent-use/"+kind, "a public API call returns something else when other calls run concurrently (perturbed)", d)
			}
		}
	}

	// ---- (f) pooled objects shared under concurrency (same dimensions everywhere)
	{
		pcalls := buildPoolCalls(c.Rng.Fork())
		prounds := 2
		if thorough {
			prounds = 6
		}
		for _, g := range []int{6, 12} {
			diffs, nc, nv := runPoolProbe(pcalls, g, prounds, c.Rng.Fork())
			c.D.Evaluations += nc + nv
			c.Count(fmt.Sprintf("pool-probe/goroutines=%d", g))
			c.Nontrivial(fmt.Sprintf("pool-probe|%d", g))
			for _, d := range diffs {
				if strings.HasPrefix(d.key, "pool-sharing/result/") {
					for k := range pcalls {
						if pcalls[k].name == d.replay["call"] {
							k := k
							byName[pcalls[k].name] = func() string { r, _ := pcalls[k].fn(); return r }
						}
					}
					if !stillDiffers(d.replay) {
						continue
					}
				}
				c.Violate(d.key, d.desc, d.replay)
			}
			if g == 12 {
				c.D.Notes = append(c.D.Notes, fmt.Sprintf("pool-sharing probe: %d same-dimension calls (160x128 lossy/lossless encode + decode), last run %d calls and %d re-verifications of retained results", len(pcalls), nc, nv))
			}
		}
	}

	// ---- (g) slow writers: slices handed to the caller's io.Writer must stay unchanged during Write
	{
		wcalls := buildWriterCalls(c.Rng.Fork())
		wrounds := 3
		if thorough {
			wrounds = 10
		}
		diffs, nc := runWriterProbe(wcalls, 8, wrounds, c.Rng.Fork())
		c.D.Evaluations += nc
		c.Count("slow-writer-probe")
		for _, wc := range wcalls {
			c.Nontrivial("slow-writer|" + wc.name)
		}
		for _, d := range diffs {
			if strings.HasPrefix(d.key, "pool-sharing/slow-writer-result/") {
				for k := range wcalls {
					if wcalls[k].name == d.replay["call"] {
						k := k
						byName[wcalls[k].name] = func() string {
							var buf bytes.Buffer
							o := wcalls[k].opts
							if err := webp.Encode(&buf, wcalls[k].img, &o); err != nil {
								return "err"
							}
							return fmt.Sprintf("%d:%s", buf.Len(), digest(buf.Bytes()))
						}
					}
				}
				if !stillDiffers(d.replay) {
					continue
				}
			}
			c.Violate(d.key, d.desc, d.replay)
		}
		c.D.Notes = append(c.D.Notes, fmt.Sprintf("slow-writer probe: %d encodes (lossless streaming / buffered, lossy plain / extended, 128x96) through writers that copy, yield 100-300us and re-compare the slice they were given", nc))
	}

	if n := slowCalls.Load(); n > 0 {
		c.Count("calls-that-returned-after-the-deadline")
		c.D.Notes = append(c.D.Notes, fmt.Sprintf("%d calls returned only after the %v deadline (slow machine); their results were used normally", n, deadline))
	}
	if n := unfinishedCalls.Load(); n > 0 {
		c.Count("no-verdict/calls-unfinished-at-hard-cap")
		c.D.Notes = append(c.D.Notes, fmt.Sprintf("%d calls had not returned after 11 x the deadline but were still running: no verdict", n))
	}
	// ---- (e) race detector build (thorough tier)
	if thorough {
		raceRun(c)
	} else {
		c.D.Notes = append(c.D.Notes, "race-detector run (-race build of this harness re-running (c) and (d)): thorough tier only")
	}
	c.D.Notes = append(c.D.Notes,
		"model limits: the L1/L2 transition systems assume sequentially consistent atomics and the documented sync.Mutex / sync.Cond semantics; the Go memory model, the runtime scheduler and data races outside the modelled protocol (e.g. a new shared scratch buffer) cannot be exhibited by the model and rest on the forced schedules, the random perturbation, the concurrent-use runs and the race-detector run",
		fmt.Sprintf("lossy images (mbW x mbH): %s", func() string {
			var s []string
			for _, j := range jobs {
				s = append(s, fmt.Sprintf("%dx%d", j.mbW(), j.mbH()))
			}
			return strings.Join(s, ", ")
		}()))
}

// ---------------------------------------------------------------------------
// (e) race detector

func raceRun(c *Ctx) {
	vdir := os.Getenv("VERIF_DIR")
	if vdir == "" {
		vdir = "/verif"
	}
	bin := filepath.Join(c.OutDir, "h_race")
	cmd := exec.Command("go", "build", "-race", "-tags", "verif", "-o", bin, "./c10")
	cmd.Dir = filepath.Join(vdir, "harness")
	cmd.Env = append(os.Environ(), "GOFLAGS=-mod=mod", "GOPROXY=off")
	if out, err := cmd.CombinedOutput(); err != nil {
		// the machinery (no C toolchain for -race, ...), not the library
		c.Count("race-detector-build-unavailable")
		c.D.Notes = append(c.D.Notes, "race-detector run skipped: the harness could not be built with -race: "+strings.TrimSpace(string(out[max(0, len(out)-300):])))
		return
	}
	run := exec.Command(bin, "racechild", strconv.FormatInt(c.Seed, 10), c.Tier)
	run.Env = append(os.Environ(), "GORACE=halt_on_error=0 exitcode=66")
	out, err := run.CombinedOutput()
	s := string(out)
	c.D.Evaluations++
	c.Count("race-detector-run")
	if strings.Contains(s, "WARNING: DATA RACE") {
		// first report, trimmed
		i := strings.Index(s, "WARNING: DATA RACE")
		rep := s[i:]
		if len(rep) > 4000 {
			rep = rep[:4000]
		}
		// reported only when the racing accesses are in library code (a race inside the
		// harness itself would be a defect of the harness)
		if strings.Contains(rep, "github.com/deepteams/webp") {
			c.Violate("data-race", "the race detector reports a data race during perturbed parallel encodes / concurrent API use", rep)
		} else {
			c.Count("race-report-outside-library")
			c.D.Notes = append(c.D.Notes, "the race detector reported a race with no library frame (harness defect?): "+rep[:min(len(rep), 600)])
		}
		return
	}
	if strings.Contains(s, "STUCK: ") {
		i := strings.Index(s, "STUCK: ")
		c.Violate("deadlock-or-lost-wakeup/race-child", "calls in the -race child cannot make progress (all their goroutines blocked, nobody left to wake them)", s[i:min(len(s), i+1000)])
		return
	}
	if err != nil {
		// evidence produced by the Go runtime itself, in library code
		if strings.Contains(s, "all goroutines are asleep - deadlock!") {
			c.Violate("deadlock-or-lost-wakeup/race-child", "the Go runtime reports that every goroutine of the child is blocked", s[max(0, len(s)-3000):])
			return
		}
		if i := strings.Index(s, "panic: "); i >= 0 && panicInLibrary(s[i:]) {
			c.Violate("panic/race-child", "a library goroutine panicked during perturbed parallel encodes / concurrent API use", s[i:min(len(s), i+3000)])
			return
		}
		c.Count("race-child-failed-without-evidence")
		c.D.Notes = append(c.D.Notes, "the -race child failed without a race report, a runtime deadlock report or a library panic (machinery): "+s[max(0, len(s)-600):])
		return
	}
	c.Nontrivial("race-detector-clean")
	c.D.Notes = append(c.D.Notes, "race-detector run: "+strings.TrimSpace(s[max(0, len(s)-200):]))
}

// panicInLibrary: the first non-runtime frame of the panicking goroutine is library code.
func panicInLibrary(s string) bool {
	i := strings.Index(s, "[running]:")
	if i < 0 {
		return false
	}
	for _, l := range strings.Split(s[i:], "\n")[1:] {
		if l == "" {
			break
		}
		if strings.HasPrefix(l, "\t") || strings.HasPrefix(l, "panic(") || strings.HasPrefix(l, "runtime.") {
			continue
		}
		return strings.HasPrefix(l, "github.com/deepteams/webp")
	}
	return false
}

func raceChild() {
	seed, _ := strconv.ParseInt(os.Args[2], 10, 64)
	runtime.GOMAXPROCS(6)
	rng := NewRand(uint64(seed) ^ 0xace)
	jobs := jobsFor(rng.Fork(), false)
	nEnc, stuck := 0, 0
	for _, j := range jobs {
		for n := 2; n <= 6; n += 2 {
			p := &perturb{seed: rng.U64(), rate: 3}
			webp.VerifSetWorkers(sEncodeParallel, n)
			webp.VerifSetYield(p.yield)
			if j.encode(120*time.Second) == "timeout" {
				stuck++
			}
			webp.VerifSetYield(nil)
			webp.VerifResetOverrides()
			nEnc++
		}
	}
	calls := buildAPICalls(rng.Fork(), false)
	solo := make([]string, len(calls))
	for k := range calls {
		solo[k] = safe(calls[k].fn)
	}
	cd, n := runConcurrent(calls, solo, 8, 2, rng.Fork())
	for _, d := range cd {
		if d["concurrent"] == "timeout" {
			stuck++
		}
	}
	pd, pc, pv := runPoolProbe(buildPoolCalls(rng.Fork()), 8, 2, rng.Fork())
	wd, wn := runWriterProbe(buildWriterCalls(rng.Fork()), 8, 2, rng.Fork())
	for _, d := range append(pd, wd...) {
		if strings.HasPrefix(d.key, "deadlock-or-lost-wakeup/") {
			stuck++
		}
	}
	if stuck > 0 {
		fmt.Printf("STUCK: %d calls confirmed blocked for ever (%v)\n", stuck, lastStuck.Load())
	}
	fmt.Printf("race child: %d perturbed parallel encodes, %d concurrent API calls, pool probe %d calls + %d re-verifications, slow-writer probe %d encodes\n", nEnc, n, pc, pv, wn)
}
