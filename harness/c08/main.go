package main

// C08 — lossless animations play back as exactly the pictures that were added.
// Runs the real AnimEncoder on generated histories, reads the file back
// (DecodeBytes -> DecodeFrames -> AnimDecoder.NextFrame), compares container structure and
// played canvases with the extracted AnimEncoder model run on the recorded size
// comparisons (correspondence), and evaluates the property directly (played pictures
// and display times vs the inputs).

import (
	"encoding/hex"
	"fmt"
	"image"

	"github.com/deepteams/webp/animation"

	"verifharness/animenc"
	. "verifharness/hlib"
)

func px(r, g, b, a byte) []byte { return []byte{r, g, b, a} }

func flat(w, h int, p []byte) []byte {
	o := make([]byte, 0, w*h*4)
	for i := 0; i < w*h; i++ {
		o = append(o, p...)
	}
	return o
}

func corpus() []*animenc.History {
	var hs []*animenc.History
	// (i) unchanged semi-transparent pixel inside a blended rectangle (model witness)
	a := append(append(append(px(10, 20, 30, 128), px(1, 1, 1, 255)...), px(2, 2, 2, 255)...), px(3, 3, 3, 255)...)
	b := append(append(append(px(10, 20, 30, 128), px(9, 9, 9, 255)...), px(2, 2, 2, 255)...), px(3, 3, 3, 255)...)
	hs = append(hs, &animenc.History{W: 2, H: 2, Lossless: true, Frames: []animenc.Frame{
		{W: 2, H: 2, Pix: a, DurMS: 10}, {W: 2, H: 2, Pix: b, DurMS: 10}}})
	// (ii) stale prevFrameRect after an overflow filler (design probe: 8x8)
	p0 := flat(8, 8, px(0, 0, 0, 0))
	p1 := append([]byte(nil), p0...)
	for y := 2; y < 6; y++ {
		for x := 2; x < 6; x++ {
			copy(p1[(y*8+x)*4:], px(255, 0, 0, 255))
		}
	}
	p2 := append([]byte(nil), p0...)
	copy(p2[(7*8+7)*4:], px(0, 255, 0, 255))
	hs = append(hs, &animenc.History{W: 8, H: 8, Lossless: true, Frames: []animenc.Frame{
		{W: 8, H: 8, Pix: p0, DurMS: 10}, {W: 8, H: 8, Pix: p1, DurMS: 0xFFFFFF}, {W: 8, H: 8, Pix: p1, DurMS: 10},
		{W: 8, H: 8, Pix: p2, DurMS: 10}}})
	// the same on the model witness size (2x2... 4x4)
	q0 := flat(4, 4, px(0, 0, 0, 0))
	q1 := append([]byte(nil), q0...)
	for _, i := range []int{10, 11, 14, 15} {
		copy(q1[i*4:], px(255, 0, 0, 255))
	}
	q2 := append([]byte(nil), q0...)
	copy(q2[0:], px(0, 255, 0, 255))
	hs = append(hs, &animenc.History{W: 4, H: 4, Lossless: true, Frames: []animenc.Frame{
		{W: 4, H: 4, Pix: q0, DurMS: 10}, {W: 4, H: 4, Pix: q1, DurMS: 0xFFFFFF}, {W: 4, H: 4, Pix: q1, DurMS: 10},
		{W: 4, H: 4, Pix: q2, DurMS: 10}}})
	// single frame, duration 0 and > 0; all frames identical; sum exactly 2^24-1
	one := flat(3, 2, px(5, 6, 7, 255))
	hs = append(hs, &animenc.History{W: 3, H: 2, Lossless: true, Loop: 3, Frames: []animenc.Frame{{W: 3, H: 2, Pix: one, DurMS: 0}}})
	hs = append(hs, &animenc.History{W: 3, H: 2, Lossless: true, Loop: 3, Frames: []animenc.Frame{{W: 3, H: 2, Pix: one, DurMS: 70}}})
	hs = append(hs, &animenc.History{W: 3, H: 2, Lossless: true, Loop: 3, Frames: []animenc.Frame{
		{W: 3, H: 2, Pix: one, DurMS: 0xFFFFFF - 5}, {W: 3, H: 2, Pix: one, DurMS: 5}, {W: 3, H: 2, Pix: one, DurMS: 0xFFFFFF}, {W: 3, H: 2, Pix: one, DurMS: 0}}})
	return hs
}

func check(c *Ctx, h *animenc.History, stream string) {
	rng := c.Rng.Fork()
	o, vkey := animenc.RunAndEval(c, h, rng, animenc.EvalLossless)
	if len(h.Frames) > 2000 {
		// direct evaluation only: the model has no pre-encoded frames (and the 10000-frame
		// session is too long a case line for the quick tier)
		c.D.Evaluations++
		c.Count("stream:" + stream)
		if vkey != "" {
			c.Count("violation:" + vkey)
		}
		return
	}
	if h.Faulty() {
		c.Count(fmt.Sprintf("rejected-addframes:%d", len(o.Rejected)))
	}
	mode := "px"
	if o.Err == "" && o.CodecExact(h) >= 0 {
		mode = "st" // the codec hypothesis fails on a written frame: compare the structure only
		c.Count("correspondence:structure-only")
	}
	c.Case(h.CaseLine(mode, o), o.ImplLine(mode))
	c.D.Evaluations++
	c.Count("stream:" + stream)
	c.Count(fmt.Sprintf("inputs:%d", len(h.Frames)))
	if o.Err == "" {
		if o.Still {
			c.Count("out:still")
		}
		for _, f := range o.Frames {
			switch {
			case f.X == 0 && f.Y == 0 && f.W == h.W && f.H == h.H && f.BlendNone:
				c.Count("frame:full-noblend")
			case f.Filler:
				c.Count("frame:overflow-filler")
			case f.BlendNone:
				c.Count("frame:sub-noblend")
			default:
				c.Count("frame:sub-blend")
			}
			if f.DispBG {
				c.Count("frame:dispose-bg")
			}
		}
		if len(o.Frames) < len(h.Frames) {
			c.Count("merged-duplicates")
		}
	}
	if len(h.Frames) >= 2 {
		c.Nontrivial(animenc.Signature(h, o))
	}
	c.Sample(map[string]any{"canvas": fmt.Sprintf("%dx%d", h.W, h.H), "inputs": len(h.Frames), "kmin": h.Kmin, "kmax": h.Kmax, "result": animenc.Signature(h, o)})
	if vkey != "" {
		c.Count("violation:" + vkey)
	}
}

func main() {
	Main("c08", func(c *Ctx) {
		c.D.Rule = "lossless encoder sessions: canvas 1x1..24x24, 1..8 AddFrame calls (repeat / small block / cleared block / colour under alpha 0 / single pixel / large change / new picture / smaller-or-larger-than-canvas frames), opaque / binary / graded / boundary alpha, durations incl. 0, 2^24-1 and sums crossing 2^24, 12 Kmin/Kmax settings, loop counts; plus unit cases for findChangedRect, snapToEven, sanitizeKeyframeOptions; non-trivial = >= 2 inputs, distinct = distinct per-written-frame (full, 1x1, blend, dispose, codec) signature"
		n, nu := 3000, 1000
		if c.Thorough() {
			n, nu = 12000, 5000
		}
		for _, h := range corpus() {
			check(c, h, "corpus")
		}
		classes := []int{animenc.ClassOpaque, animenc.ClassBinary, animenc.ClassGraded, animenc.ClassBoundary}
		for i := 0; i < n; i++ {
			rng := c.Rng.Fork()
			maxDim := 12
			if i%8 == 0 {
				maxDim = 24
			}
			h := animenc.RandHistory(rng, maxDim, true, false, 75, classes)
			check(c, h, "random")
		}
		ns := 12
		if c.Thorough() {
			ns = 150
		}
		for i := 0; i < ns; i++ {
			for _, h := range animenc.Scenarios(c.Rng.Fork(), true, false, 75, classes) {
				check(c, h, "scenario")
			}
		}
		// error injection: some FrameEncoderFunc calls fail
		ninj := 400
		if c.Thorough() {
			ninj = 5000
		}
		for i := 0; i < ninj; i++ {
			rng := c.Rng.Fork()
			h := animenc.RandHistory(rng, 8, true, false, 75, classes)
			for k := rng.Range(1, 3); k > 0; k-- {
				h.FailCalls = append(h.FailCalls, rng.Intn(3*len(h.Frames)))
			}
			check(c, h, "error-injection")
		}
		// the muxer's frame limit: AddFrame is refused from frame 10000 on, the file stays a valid
		// animation of the accepted frames
		tails := []string{"repeat-overflow"}
		if c.Thorough() {
			tails = []string{"", "repeat", "repeat-overflow"}
		}
		for _, tail := range tails {
			check(c, animenc.LimitHistory(c.Rng.Fork(), 10000, tail), "frame-limit")
		}
		// pre-encoded frames mixed with optimized frames
		nraw := 300
		if c.Thorough() {
			nraw = 4000
		}
		for i := 0; i < nraw; i++ {
			rng := c.Rng.Fork()
			h := animenc.RandHistory(rng, 8, true, false, 75, classes)
			if i%3 != 0 {
				h.ICC, h.EXIF, h.XMP = nil, nil, nil
			}
			animenc.AddRawFrames(rng, h)
			if i%4 == 0 {
				for k := rng.Range(1, 2); k > 0; k-- {
					h.FailCalls = append(h.FailCalls, rng.Intn(3*len(h.Frames)))
				}
			}
			check(c, h, "raw-frames")
		}
		// unit correspondences
		for i := 0; i < nu; i++ {
			rng := c.Rng.Fork()
			w, h := rng.Range(1, 7), rng.Range(1, 7)
			a := image.NewNRGBA(image.Rect(0, 0, w, h))
			for j := range a.Pix {
				a.Pix[j] = byte(rng.Pick(0, 255))
			}
			b := image.NewNRGBA(image.Rect(0, 0, w, h))
			copy(b.Pix, a.Pix)
			for k := rng.Intn(4); k > 0; k-- {
				b.Pix[rng.Intn(len(b.Pix))] ^= 0xff
			}
			r := animation.VerifFindChangedRect(a, b)
			c.Case(fmt.Sprintf("fcr %d %d %s %s", w, h, hex.EncodeToString(a.Pix), hex.EncodeToString(b.Pix)),
				fmt.Sprintf("%d %d %d %d", r.Min.X, r.Min.Y, r.Max.X, r.Max.Y))
			c.D.Evaluations++
			c.Count("stream:unit-findChangedRect")
		}
		for x0 := 0; x0 < 6; x0++ {
			for y0 := 0; y0 < 6; y0++ {
				for w := 1; w < 4; w++ {
					for h := 1; h < 4; h++ {
						s := animation.VerifSnapToEven(image.Rect(x0, y0, x0+w, y0+h))
						c.Case(fmt.Sprintf("snap %d %d %d %d", x0, y0, x0+w, y0+h), fmt.Sprintf("%d %d %d %d", s.Min.X, s.Min.Y, s.Max.X, s.Max.Y))
						c.D.Evaluations++
						c.Count("stream:unit-snapToEven")
					}
				}
			}
		}
		for kmin := -2; kmin <= 70; kmin += 3 {
			for _, kmax := range []int{-1, 0, 1, 2, 3, 4, 5, 9, 30, 31, 32, 64, 100} {
				a, b := animation.VerifSanitizeKeyframeOptions(kmin, kmax)
				c.Case(fmt.Sprintf("san %d %d", kmin, kmax), fmt.Sprintf("%d %d", a, b))
				c.D.Evaluations++
				c.Count("stream:unit-sanitize")
			}
		}
	})
}
