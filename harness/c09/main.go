package main

// C09 — animation playback implements the container's compositing rules.
// Builds Animation values programmatically, runs AnimDecoder.NextFrame to the end
// and prints the snapshots; the model runner prints the implementation model's
// and the specification's canvases for the same case.

import (
	"encoding/hex"
	"fmt"
	"hash/fnv"
	"image"
	"image/color"
	"math"
	"strings"

	"github.com/deepteams/webp/animation"

	. "verifharness/hlib"
)

type c09Frame struct {
	X, Y, W, H        int
	BlendNone, DispBG bool
	HasAlpha          bool
	Pix               []byte // RGBA, W*H*4
	Placement         int    // 0: NRGBA at origin, 1: sub-image of a larger parent, 2: generic wrapper
}

type c09Anim struct {
	W, H   int
	Frames []c09Frame
}

// wrapImage hides the concrete type so that toNRGBA takes its generic path.
type wrapImage struct{ im *image.NRGBA }

func (w wrapImage) ColorModel() color.Model { return color.NRGBAModel }
func (w wrapImage) Bounds() image.Rectangle { return w.im.Bounds() }
func (w wrapImage) At(x, y int) color.Color { return w.im.NRGBAAt(x, y) }

func (f *c09Frame) image(rng *Rand) image.Image {
	switch f.Placement {
	case 1:
		ox, oy := 1+rng.Intn(3), 1+rng.Intn(3)
		parent := image.NewNRGBA(image.Rect(0, 0, f.W+ox+2, f.H+oy+2))
		for i := range parent.Pix {
			parent.Pix[i] = byte(rng.U64())
		}
		sub := parent.SubImage(image.Rect(ox, oy, ox+f.W, oy+f.H)).(*image.NRGBA)
		for y := 0; y < f.H; y++ {
			for x := 0; x < f.W; x++ {
				p := f.Pix[(y*f.W+x)*4:]
				sub.SetNRGBA(ox+x, oy+y, color.NRGBA{p[0], p[1], p[2], p[3]})
			}
		}
		return sub
	case 2:
		im := image.NewNRGBA(image.Rect(0, 0, f.W, f.H))
		copy(im.Pix, f.Pix)
		return wrapImage{im}
	default:
		im := image.NewNRGBA(image.Rect(0, 0, f.W, f.H))
		copy(im.Pix, f.Pix)
		return im
	}
}

func (a *c09Anim) caseLine() string {
	var sb strings.Builder
	fmt.Fprintf(&sb, "anim %d %d %d", a.W, a.H, len(a.Frames))
	for _, f := range a.Frames {
		px := "-"
		if len(f.Pix) > 0 {
			px = hex.EncodeToString(f.Pix)
		}
		fmt.Fprintf(&sb, " %d %d %d %d %d %d %d %s", f.X, f.Y, f.W, f.H, b2i(f.BlendNone), b2i(f.DispBG), b2i(f.HasAlpha), px)
	}
	return sb.String()
}

func b2i(b bool) int {
	if b {
		return 1
	}
	return 0
}

func (a *c09Anim) build(rng *Rand) *animation.Animation {
	an := &animation.Animation{CanvasWidth: a.W, CanvasHeight: a.H}
	for i := range a.Frames {
		f := &a.Frames[i]
		fr := animation.Frame{Image: f.image(rng), OffsetX: f.X, OffsetY: f.Y, HasAlpha: f.HasAlpha}
		if f.BlendNone {
			fr.Blend = animation.BlendNone
		} else {
			fr.Blend = animation.BlendAlpha
		}
		if f.DispBG {
			fr.Dispose = animation.DisposeBackground
		}
		an.Frames = append(an.Frames, fr)
	}
	return an
}

func hashBytes(b []byte) uint64 {
	h := fnv.New64a()
	h.Write(b)
	return h.Sum64()
}

// play runs the decoder to the end; returns the canonical result line plus the
// snapshots (for the Go-only sub-properties).
func c09Play(an *animation.Animation) (line string, snaps []*image.NRGBA) {
	defer func() {
		if r := recover(); r != nil {
			line = fmt.Sprintf("PANIC %v", r)
		}
	}()
	d, err := animation.NewAnimDecoder(an)
	if err != nil {
		return "ERR", nil
	}
	var parts []string
	for d.HasNext() {
		s, _, err := d.NextFrame()
		if err != nil {
			return "ERR", nil
		}
		snaps = append(snaps, s)
		parts = append(parts, hex.EncodeToString(s.Pix))
	}
	return strings.Join(parts, ","), snaps
}

var c09Alphas = []int{0, 0, 1, 127, 128, 254, 255, 255, 255}

func c09RandFrame(rng *Rand, W, H int, unsoundFlag bool) c09Frame {
	var f c09Frame
	switch rng.Intn(10) {
	case 0, 1, 2: // full canvas
		f.X, f.Y, f.W, f.H = 0, 0, W, H
	case 3: // empty picture
		f.W, f.H = rng.Intn(2)*rng.Intn(W+1), rng.Intn(2)*rng.Intn(H+1)
		f.X, f.Y = rng.Range(-1, W), rng.Range(-1, H)
	case 4: // extreme offsets (overflow clamp in Frame.Bounds)
		f.W, f.H = rng.Range(1, W+1), rng.Range(1, H+1)
		ext := []int{math.MaxInt64, math.MaxInt64 - 1, math.MinInt64, math.MinInt64 + 1, math.MaxInt32, -math.MaxInt32}
		f.X = ext[rng.Intn(len(ext))]
		f.Y = rng.Range(-2, H)
		if rng.Bool() {
			f.X, f.Y = f.Y, f.X
		}
	default:
		f.W, f.H = rng.Range(1, W+2), rng.Range(1, H+2)
		f.X, f.Y = rng.Range(-f.W, W), rng.Range(-f.H, H)
	}
	f.BlendNone = rng.Intn(3) == 0
	f.DispBG = rng.Intn(2) == 0
	f.Pix = make([]byte, f.W*f.H*4)
	mode := rng.Intn(4) // 0 opaque, 1 binary alpha, 2 graded, 3 boundary alphas
	anyAlpha := false
	for i := 0; i < f.W*f.H; i++ {
		a := 255
		switch mode {
		case 1:
			a = 255 * rng.Intn(2)
		case 2:
			a = rng.Intn(256)
		case 3:
			a = c09Alphas[rng.Intn(len(c09Alphas))]
		}
		f.Pix[i*4], f.Pix[i*4+1], f.Pix[i*4+2], f.Pix[i*4+3] = byte(rng.Pick(0, 1, 17, 128, 200, 255)), byte(rng.U64()), byte(rng.Pick(0, 255, 90)), byte(a)
		if a != 255 {
			anyAlpha = true
		}
	}
	if unsoundFlag {
		f.HasAlpha = rng.Bool()
	} else {
		f.HasAlpha = anyAlpha || rng.Intn(4) == 0 // over-stating alpha is allowed
	}
	f.Placement = rng.Pick(0, 0, 0, 1, 2)
	return f
}

func (a *c09Anim) signature() string {
	var sb strings.Builder
	for _, f := range a.Frames {
		full := f.X == 0 && f.Y == 0 && f.W == a.W && f.H == a.H
		outside := f.X < 0 || f.Y < 0 || f.X+f.W > a.W || f.Y+f.H > a.H
		fmt.Fprintf(&sb, "%d%d%d%d%d%d;", b2i(full), b2i(outside), b2i(f.BlendNone), b2i(f.DispBG), b2i(f.HasAlpha), f.Placement)
	}
	return sb.String()
}

func c09Check(c *Ctx, a *c09Anim, stream string) {
	rng := c.Rng.Fork()
	an := a.build(rng)
	line, snaps := c09Play(an)
	c.Case(a.caseLine(), line)
	c.D.Evaluations++
	c.Count("stream:" + stream)
	c.Count(fmt.Sprintf("frames:%d", len(a.Frames)))
	if len(a.Frames) >= 2 {
		c.Nontrivial(a.signature())
	}
	c.Sample(a.caseLine())
	if strings.HasPrefix(line, "PANIC") {
		c.Violate("panic", "AnimDecoder panicked: "+line, a)
		return
	}
	if snaps == nil {
		return
	}
	// Go-only sub-properties: snapshots are immutable, Reset replays identically.
	hashes := make([]uint64, len(snaps))
	for i, s := range snaps {
		hashes[i] = hashBytes(s.Pix)
	}
	d, err := animation.NewAnimDecoder(an)
	if err != nil {
		return
	}
	k := rng.Intn(len(a.Frames) + 1)
	var early []*image.NRGBA
	for i := 0; i < k; i++ {
		s, _, _ := d.NextFrame()
		early = append(early, s)
	}
	checkEarly := func(when string) {
		for i, s := range early {
			if hashBytes(s.Pix) != hashes[i] {
				c.Violate("snapshot-mutated", fmt.Sprintf("snapshot %d (of %d taken) changed %s", i, k, when), a)
			}
		}
	}
	d.Reset()
	checkEarly("by Reset")
	var again []string
	for d.HasNext() {
		s, _, err := d.NextFrame()
		if err != nil {
			break
		}
		again = append(again, hex.EncodeToString(s.Pix))
		checkEarly("by a NextFrame call after Reset")
	}
	if strings.Join(again, ",") != line {
		c.Violate("reset-replay", fmt.Sprintf("after %d frames + Reset the replay differs", k), a)
	}
	for i, s := range early {
		if hashBytes(s.Pix) != hashes[i] {
			c.Violate("snapshot-mutated", fmt.Sprintf("snapshot %d changed after later calls", i), a)
		}
	}
	for i, s := range snaps {
		if hashBytes(s.Pix) != hashes[i] {
			c.Violate("snapshot-mutated", fmt.Sprintf("snapshot %d changed after later calls", i), a)
		}
	}
}

// c09Ops runs a random history of NextFrame / Reset calls (incl. calls past the
// end) and prints, per call, the snapshot or "-".
func c09Ops(c *Ctx, a *c09Anim) {
	rng := c.Rng.Fork()
	an := a.build(rng)
	n := rng.Range(1, 2*len(a.Frames)+3)
	ops := make([]byte, n)
	for i := range ops {
		ops[i] = 'N'
		if rng.Intn(4) == 0 {
			ops[i] = 'R'
		}
	}
	line := func() (line string) {
		defer func() {
			if r := recover(); r != nil {
				line = fmt.Sprintf("PANIC %v", r)
			}
		}()
		d, err := animation.NewAnimDecoder(an)
		if err != nil {
			return "ERR"
		}
		var parts []string
		for _, o := range ops {
			if o == 'R' {
				d.Reset()
				parts = append(parts, "-")
				continue
			}
			s, _, err := d.NextFrame()
			if err != nil || s == nil {
				parts = append(parts, "-")
			} else {
				parts = append(parts, hex.EncodeToString(s.Pix))
			}
		}
		return strings.Join(parts, ",")
	}()
	cl := a.caseLine()
	c.Case("ops "+string(ops)+" "+strings.TrimPrefix(cl, "anim "), line)
	c.D.Evaluations++
	c.Count("stream:op-histories")
	c.Nontrivial("ops:" + string(ops) + ":" + a.signature())
	if strings.HasPrefix(line, "PANIC") {
		c.Violate("panic", "AnimDecoder panicked in a NextFrame/Reset history: "+line, map[string]any{"anim": a, "ops": string(ops)})
	}
}

// c09Exhaustive enumerates a small bounded domain completely: canvas 2x2, two
// frames, every rectangle position/size in a window around the canvas, blend x
// dispose, HasAlpha flags, alphas from {0,128,255} (uniform per frame).
func c09Exhaustive(c *Ctx) {
	alphas := []byte{0, 128, 255}
	type rc struct{ x, y, w, h int }
	var rects []rc
	for x := -1; x <= 2; x++ {
		for y := -1; y <= 2; y++ {
			for w := 1; w <= 3; w++ {
				for h := 1; h <= 3; h += 2 {
					rects = append(rects, rc{x, y, w, h})
				}
			}
		}
	}
	mk := func(r rc, a byte, bn, db, ha bool, seed int) c09Frame {
		f := c09Frame{X: r.x, Y: r.y, W: r.w, H: r.h, BlendNone: bn, DispBG: db, HasAlpha: ha}
		f.Pix = make([]byte, r.w*r.h*4)
		for i := 0; i < r.w*r.h; i++ {
			f.Pix[i*4], f.Pix[i*4+1], f.Pix[i*4+2], f.Pix[i*4+3] = byte(40*i+seed), byte(200-seed), byte(7*seed), a
		}
		return f
	}
	n := 0
	for i1, r1 := range rects {
		for _, r2 := range rects {
			if (i1+n)%7 != 0 { // thin the rectangle pairs; flags below are complete
				n++
				continue
			}
			n++
			for flags := 0; flags < 64; flags++ {
				for _, a1 := range alphas {
					for _, a2 := range alphas {
						an := c09Anim{W: 2, H: 2, Frames: []c09Frame{
							mk(r1, a1, flags&1 != 0, flags&2 != 0, flags&4 != 0, 1),
							mk(r2, a2, flags&8 != 0, flags&16 != 0, flags&32 != 0, 2),
							mk(rc{0, 1, 2, 1}, 128, false, false, true, 3)}}
						c09Check(c, &an, "exhaustive-2x2")
					}
				}
			}
		}
	}
}

func main() {
	Main("c09", func(c *Ctx) {
		c.D.Rule = "random animations (canvas 1..6 x 1..6, 1..6 frames, rectangles inside/overhanging/outside/overflowing, blend x dispose, alpha classes, three image placements) + 1x1 blend-kernel cases; non-trivial = >= 2 frames, distinct = distinct per-frame (full, overhang, blend, dispose, flag, placement) signature"
		n := 1500
		nb := 4000
		if c.Thorough() {
			n, nb = 20000, 65536
		}
		// corpus first: minimised past disagreements / model witnesses
		corpus := []c09Anim{
			// key-frame flag witness: opaque red, then a full-canvas transparent blended frame flagged HasAlpha=false
			{W: 1, H: 1, Frames: []c09Frame{
				{W: 1, H: 1, Pix: []byte{255, 0, 0, 255}, HasAlpha: false},
				{W: 1, H: 1, Pix: []byte{0, 0, 0, 0}, HasAlpha: false}}},
			// sub-image placement
			{W: 2, H: 2, Frames: []c09Frame{
				{W: 2, H: 2, Pix: []byte{1, 2, 3, 255, 4, 5, 6, 255, 7, 8, 9, 255, 10, 11, 12, 255}, Placement: 1}}},
			// dispose-background of a key frame followed by a partial frame
			{W: 2, H: 2, Frames: []c09Frame{
				{X: 0, Y: 0, W: 1, H: 1, Pix: []byte{9, 9, 9, 255}, DispBG: true, HasAlpha: false},
				{X: 1, Y: 1, W: 1, H: 1, Pix: []byte{7, 7, 7, 128}, HasAlpha: true},
				{X: 0, Y: 0, W: 2, H: 2, Pix: []byte{1, 1, 1, 100, 2, 2, 2, 0, 3, 3, 3, 255, 4, 4, 4, 7}, HasAlpha: true}}},
		}
		for i := range corpus {
			c09Check(c, &corpus[i], "corpus")
		}
		for i := 0; i < n; i++ {
			rng := c.Rng.Fork()
			W, H := rng.Range(1, 6), rng.Range(1, 6)
			a := c09Anim{W: W, H: H}
			nf := rng.Range(1, 6)
			unsound := i%10 == 9 // separate stream: flags that under-state alpha
			for j := 0; j < nf; j++ {
				a.Frames = append(a.Frames, c09RandFrame(rng, W, H, unsound))
			}
			stream := "sound-flags"
			if unsound {
				stream = "arbitrary-flags"
			}
			c09Check(c, &a, stream)
			if i%3 == 0 {
				c09Ops(c, &a)
			}
		}
		if c.Thorough() {
			c09Exhaustive(c)
		}
		// file-level stream: container file -> DecodeBytes -> DecodeFrames -> player
		nfile := 250
		if c.Thorough() {
			nfile = 3000
		}
		c09FileStream(c, nfile)
		// blend kernel through 1x1 animations: dst written with BlendNone, src blended over it.
		for i := 0; i < nb; i++ {
			rng := c.Rng.Fork()
			var sa, da int
			if c.Thorough() {
				sa, da = i>>8, i&255
			} else if i < 1024 {
				b := []int{0, 1, 2, 127, 128, 254, 255, 64}
				sa, da = b[i&7], b[(i>>3)&7]
			} else {
				sa, da = rng.Intn(256), rng.Intn(256)
			}
			src := []byte{byte(rng.Pick(0, 255, 1, 254, rng.Intn(256))), byte(rng.U64()), byte(rng.Pick(0, 255)), byte(sa)}
			dst := []byte{byte(rng.Pick(0, 255, 1, 254, rng.Intn(256))), byte(rng.U64()), byte(rng.Pick(255, 0)), byte(da)}
			an := &animation.Animation{CanvasWidth: 1, CanvasHeight: 1}
			mk := func(p []byte) *image.NRGBA {
				im := image.NewNRGBA(image.Rect(0, 0, 1, 1))
				copy(im.Pix, p)
				return im
			}
			an.Frames = []animation.Frame{
				{Image: mk(dst), Blend: animation.BlendNone, HasAlpha: true},
				{Image: mk(src), Blend: animation.BlendAlpha, HasAlpha: true},
			}
			line, snaps := c09Play(an)
			res := line
			if len(snaps) == 2 {
				p := snaps[1].Pix
				res = fmt.Sprintf("%d %d %d %d", p[0], p[1], p[2], p[3])
			}
			c.Case(fmt.Sprintf("blend %d %d %d %d %d %d %d %d", src[0], src[1], src[2], src[3], dst[0], dst[1], dst[2], dst[3]), res)
			c.D.Evaluations++
			c.Count("stream:blend-kernel")
			c.Nontrivial(fmt.Sprintf("blend:%d:%d", sa, da))
		}
	})
}
