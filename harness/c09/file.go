package main

// File-level stream of C09: the animation is written as a container file by this
// harness itself (RIFF / VP8X / ANIM / ANMF assembled byte by byte from the
// container specification, frames as lossless VP8L bitstreams), read back with
// animation.DecodeBytes + DecodeFrames and played.  What the player shows must be
// the specification's compositing of the INTENDED frames: offsets = 2 * the stored
// field, dispose = bit 0 of the ANMF flags byte, blend = bit 1 (1 = do not blend).
// Reserved bits are written as 0 and no unknown sub-chunks are inserted (see below).

import (
	"bytes"
	"encoding/binary"
	"fmt"
	"image"

	webp "github.com/deepteams/webp"
	"github.com/deepteams/webp/animation"

	. "verifharness/hlib"
)

func le24(v int) []byte { return []byte{byte(v), byte(v >> 8), byte(v >> 16)} }

func riffChunk(id string, payload []byte) []byte {
	var b bytes.Buffer
	b.WriteString(id)
	var sz [4]byte
	binary.LittleEndian.PutUint32(sz[:], uint32(len(payload)))
	b.Write(sz[:])
	b.Write(payload)
	if len(payload)&1 == 1 {
		b.WriteByte(0)
	}
	return b.Bytes()
}

// vp8lOf returns the VP8L bitstream of a lossless, exact encoding of im.
func vp8lOf(im *image.NRGBA) ([]byte, error) {
	var buf bytes.Buffer
	o := webp.DefaultOptions()
	o.Lossless = true
	o.Exact = true
	if err := webp.Encode(&buf, im, o); err != nil {
		return nil, err
	}
	d := buf.Bytes()
	for p := 12; p+8 <= len(d); {
		sz := int(binary.LittleEndian.Uint32(d[p+4:]))
		if string(d[p:p+4]) == "VP8L" {
			if p+8+sz > len(d) {
				return nil, fmt.Errorf("short VP8L chunk")
			}
			return d[p+8 : p+8+sz], nil
		}
		p += 8 + sz + sz&1
	}
	return nil, fmt.Errorf("no VP8L chunk in the encoder's output")
}

// c09FileOf assembles the container file; reserved[i] are the bits 2..7 put into
// frame i's flags byte, junk[i] inserts an unknown sub-chunk before the image.
func c09FileOf(a *c09Anim, reserved []int, junk []bool, loop int) ([]byte, error) {
	var body bytes.Buffer
	vp8x := make([]byte, 10)
	vp8x[0] = 0x02 | 0x10 // animation + alpha
	copy(vp8x[4:], le24(a.W-1))
	copy(vp8x[7:], le24(a.H-1))
	body.Write(riffChunk("VP8X", vp8x))
	anim := []byte{0, 0, 0, 0, byte(loop), byte(loop >> 8)} // background: transparent black
	body.Write(riffChunk("ANIM", anim))
	for i := range a.Frames {
		f := &a.Frames[i]
		im := image.NewNRGBA(image.Rect(0, 0, f.W, f.H))
		copy(im.Pix, f.Pix)
		bs, err := vp8lOf(im)
		if err != nil {
			return nil, err
		}
		var p bytes.Buffer
		p.Write(le24(f.X / 2))
		p.Write(le24(f.Y / 2))
		p.Write(le24(f.W - 1))
		p.Write(le24(f.H - 1))
		p.Write(le24(40 + i))
		p.WriteByte(byte(b2i(f.DispBG) | b2i(f.BlendNone)<<1 | reserved[i]<<2))
		if junk[i] {
			p.Write(riffChunk("JUNK", []byte{1, 2, 3}))
		}
		p.Write(riffChunk("VP8L", bs))
		body.Write(riffChunk("ANMF", p.Bytes()))
	}
	var out bytes.Buffer
	out.WriteString("RIFF")
	var sz [4]byte
	binary.LittleEndian.PutUint32(sz[:], uint32(4+body.Len()))
	out.Write(sz[:])
	out.WriteString("WEBP")
	out.Write(body.Bytes())
	return out.Bytes(), nil
}

func c09FileStream(c *Ctx, n int) {
	for i := 0; i < n; i++ {
		rng := c.Rng.Fork()
		W, H := rng.Range(1, 9), rng.Range(1, 9)
		a := c09Anim{W: W, H: H}
		nf := rng.Range(2, 5)
		reserved := make([]int, nf)
		junk := make([]bool, nf)
		for j := 0; j < nf; j++ {
			f := c09RandFrame(rng, W, H, false)
			// what a file can carry: even non-negative offsets, a non-empty picture inside the canvas
			if j == 0 || rng.Intn(3) == 0 {
				f.X, f.Y, f.W, f.H = 0, 0, W, H
			} else {
				f.X, f.Y = 2*rng.Intn((W+1)/2), 2*rng.Intn((H+1)/2)
				f.W, f.H = rng.Range(1, W-f.X), rng.Range(1, H-f.Y)
			}
			f.Pix = make([]byte, f.W*f.H*4)
			for k := 0; k < f.W*f.H; k++ {
				al := c09Alphas[rng.Intn(len(c09Alphas))]
				if rng.Intn(3) == 0 {
					al = rng.Intn(256)
				}
				f.Pix[k*4], f.Pix[k*4+1], f.Pix[k*4+2], f.Pix[k*4+3] = byte(rng.Pick(0, 1, 17, 128, 200, 255)), byte(rng.U64()), byte(rng.Pick(0, 255, 90)), byte(al)
			}
			f.Placement = 0
			// reserved bits stay 0 and no unknown sub-chunk is inserted: the stream is
			// restricted to files as a conforming writer produces them (C09 is stated over
			// animations; what readers do with reserved bits set is outside its text, so a
			// reader that differs only there must not raise an alarm here)
			a.Frames = append(a.Frames, f)
		}
		file, err := c09FileOf(&a, reserved, junk, rng.Intn(3))
		if err != nil {
			c.Violate("file-stream-setup", "could not build the container file: "+err.Error(), &a)
			continue
		}
		replay := map[string]interface{}{"file_hex": fmt.Sprintf("%x", file), "intended": a.caseLine(), "reserved_bits": reserved, "junk_subchunk": junk}
		line := ""
		func() {
			defer func() {
				if r := recover(); r != nil {
					line = fmt.Sprintf("PANIC %v", r)
				}
			}()
			an, err := animation.DecodeBytes(file)
			if err != nil {
				line = "ERR decode: " + err.Error()
				return
			}
			if err := an.DecodeFrames(); err != nil {
				line = "ERR frames: " + err.Error()
				return
			}
			if an.CanvasWidth != a.W || an.CanvasHeight != a.H || len(an.Frames) != len(a.Frames) {
				line = fmt.Sprintf("ERR canvas %dx%d frames %d", an.CanvasWidth, an.CanvasHeight, len(an.Frames))
				return
			}
			// the flags the player is given (the model of the code uses them for its key-frame rule)
			for j := range an.Frames {
				a.Frames[j].HasAlpha = an.Frames[j].HasAlpha
			}
			line, _ = c09Play(an)
		}()
		c.Case(a.caseLine(), line)
		c.D.Evaluations++
		c.Count("stream:file")
		c.Nontrivial("file:" + a.signature())
		if len(line) >= 3 && (line[:3] == "ERR" || line[:3] == "PAN") {
			c.Violate("file-stream-rejected", "a valid animation file written from the container specification is not played: "+line, replay)
		}
	}
}
