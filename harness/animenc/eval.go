package animenc

import (
	"bytes"
	"fmt"
	"strings"
	"image"
	"time"

	"github.com/deepteams/webp/animation"

	. "verifharness/hlib"
)

// Replay is what a violation carries.
type Replay struct {
	History *History `json:"history"`
	Note    string   `json:"note"`
	Frames  []ContFrame
}

func inputs(h *History) (cs [][]byte, ds []int) {
	for i := range h.Frames {
		cs = append(cs, h.Pad(i))
		ds = append(ds, h.Frames[i].DurMS)
	}
	return
}

func firstDiff(a, b []byte, stride int) int {
	for i := 0; i+stride <= len(a) && i+stride <= len(b); i += stride {
		if !bytes.Equal(a[i:i+stride], b[i:i+stride]) {
			return i / stride
		}
	}
	return -1
}

// fillerDisposed reports whether a 1x1 overflow filler frame before played frame k
// carries the dispose-to-background flag (the retroactive SetFrameDisposeMode hit it).
func fillerDisposed(o *Outcome, k int) bool {
	for j := 1; j < k && j < len(o.Frames); j++ {
		if f := o.Frames[j]; f.Filler && f.DispBG {
			return true
		}
	}
	return false
}

// observe records something that is outside the property text or its quantifier: a counter in
// the evidence, never a violation.
func observe(c *Ctx, key string) { c.Count("observation:" + key) }

// sessionFailed maps a failed session onto the property: "an animation written by the encoder
// plays back" is decided only once a file has been written; an encoder that refuses (or
// panics on) an input writes no animation, which the text does not rule out - the
// correspondence with the model still reports it.
func sessionFailed(c *Ctx, o *Outcome, rep Replay) string {
	if o.Written {
		c.Violate("written-file-does-not-play-back", "the written file could not be read / decoded / played back: "+o.Err, rep)
		return "written-file-does-not-play-back"
	}
	observe(c, "encoder-refused:"+strings.SplitN(o.Err, " ", 2)[0])
	return ""
}

// EvalLossless evaluates C08 directly on the implementation's observable behaviour:
// played pictures and display times against the inputs.  Returns the violation key ("" if none).
// Clauses: canvas size preserved; the distinct consecutive input pictures are the played
// pictures, in order, transparent pixels equal; with >= 2 distinct pictures the display time
// of every picture (hence the total) and the loop count (for values the container can hold).
func EvalLossless(c *Ctx, h *History, o *Outcome) string {
	rep := Replay{History: h, Frames: o.Frames}
	if o.Err != "" {
		return sessionFailed(c, o, rep)
	}
	if o.CW != h.W || o.CH != h.H {
		rep.Note = fmt.Sprintf("canvas %dx%d, expected %dx%d", o.CW, o.CH, h.W, h.H)
		c.Violate("canvas-size", rep.Note, rep)
		return "canvas-size"
	}
	if k := o.CodecExact(h); k >= 0 {
		// how a picture is cut into frames and what each frame stores is the encoder's business
		observe(c, "stored-frame-differs-from-source-region")
	}
	ics, ids := inputs(h)
	gin := Collapse(ics, ids, NormPx)
	gout := Collapse(o.Canvases, o.Durations, NormPx)
	for g := 0; g < len(gin) || g < len(gout); g++ {
		if g >= len(gin) || g >= len(gout) {
			rep.Note = fmt.Sprintf("%d distinct pictures played, %d added", len(gout), len(gin))
			key := "picture-count"
			if fillerDisposed(o, len(o.Frames)) {
				key = "filler-stale-rect"
			}
			c.Violate(key, rep.Note, rep)
			return key
		}
		if bytes.Equal(gin[g].Canvas, gout[g].Canvas) {
			continue
		}
		p := firstDiff(gin[g].Canvas, gout[g].Canvas, 4)
		k, i := gout[g].First, gin[g].First
		want, got := gin[g].Canvas[p*4:p*4+4], gout[g].Canvas[p*4:p*4+4]
		rep.Note = fmt.Sprintf("picture %d (played frame %d, input %d): pixel (%d,%d) is %v, expected %v", g, k, i, p%h.W, p/h.W, got, want)
		key := "playback-mismatch"
		raw := ics[i]
		if k < len(o.Frames) && !o.Frames[k].BlendNone && want[3] > 0 && want[3] < 255 && i > 0 &&
			bytes.Equal(ics[i-1][p*4:p*4+4], raw[p*4:p*4+4]) {
			key = "blend-unchanged-semitransparent"
		} else if fillerDisposed(o, k) {
			key = "filler-stale-rect"
		}
		c.Violate(key, rep.Note, rep)
		return key
	}
	if !bytes.Equal(o.ICC, h.ICC) || !bytes.Equal(o.EXIF, h.EXIF) || !bytes.Equal(o.XMP, h.XMP) {
		observe(c, "metadata-not-in-file") // C15's subject, not C08's
	}
	if len(gin) >= 2 {
		if o.Still {
			observe(c, "several-pictures-without-animation-flag")
		}
		for g := range gin {
			if gin[g].Dur != gout[g].Dur {
				rep.Note = fmt.Sprintf("picture %d displayed %d ms, expected %d ms", g, gout[g].Dur, gin[g].Dur)
				c.Violate("display-time", rep.Note, rep)
				return "display-time"
			}
		}
		if h.Loop < 0 || h.Loop > 65535 {
			if o.Loop != ClampLoop(h.Loop) {
				observe(c, "out-of-range-loop-count-not-clamped")
			}
		} else if o.Loop != h.Loop {
			rep.Note = fmt.Sprintf("loop count %d, expected %d", o.Loop, h.Loop)
			c.Violate("loop-count", rep.Note, rep)
			return "loop-count"
		}
	}
	return ""
}

// EvalAlpha evaluates C18: the sequence of distinct consecutive alpha planes played equals
// the sequence of distinct consecutive alpha planes added (pictures whose alpha planes are
// equal merge on both sides; how the encoder cuts, merges or pads frames does not matter).
// The key only classifies a mismatch that was found.
func EvalAlpha(c *Ctx, h *History, o *Outcome) string {
	rep := Replay{History: h, Frames: o.Frames}
	if o.Err != "" {
		return sessionFailed(c, o, rep)
	}
	if o.CW != h.W || o.CH != h.H {
		observe(c, "canvas-size-differs") // C08's clause; the alpha planes cannot be compared
		return ""
	}
	if k := o.CodecExact(h); k >= 0 {
		observe(c, "stored-frame-alpha-differs-from-source-region")
	}
	ics, _ := inputs(h)
	zeros := make([]int, len(ics))
	gin := Collapse(ics, zeros, AlphaPlane)
	gout := Collapse(o.Canvases, make([]int, len(o.Canvases)), AlphaPlane)
	lossyNoALPH := false
	for _, f := range o.Frames {
		if f.Lossy && !f.HasALPH {
			lossyNoALPH = true
		}
	}
	classify := func(k int, wantA, gotA byte, p int) string {
		switch {
		case k < len(o.Frames) && o.Frames[k].Lossy && !o.Frames[k].HasALPH && gotA == 255 && wantA != 255:
			return "lossy-frame-without-alph"
		case k < len(o.Frames) && !o.Frames[k].BlendNone && wantA > 0 && wantA < 255:
			return "blend-unchanged-semitransparent"
		case fillerDisposed(o, k):
			return "filler-stale-rect"
		}
		return "alpha-mismatch"
	}
	for g := 0; g < len(gin) || g < len(gout); g++ {
		if g >= len(gin) || g >= len(gout) {
			rep.Note = fmt.Sprintf("%d distinct alpha planes played, %d added", len(gout), len(gin))
			key := "alpha-mismatch"
			if lossyNoALPH {
				key = "lossy-frame-without-alph"
			} else if fillerDisposed(o, len(o.Frames)) {
				key = "filler-stale-rect"
			}
			c.Violate(key, rep.Note, rep)
			return key
		}
		want, got := gin[g].Canvas, gout[g].Canvas
		if bytes.Equal(want, got) {
			continue
		}
		p := firstDiff(want, got, 1)
		k := gout[g].First
		rep.Note = fmt.Sprintf("alpha plane %d (played frame %d, input %d): alpha at (%d,%d) is %d, expected %d", g, k, gin[g].First, p%h.W, p/h.W, got[p], want[p])
		key := classify(k, want[p], got[p], p)
		c.Violate(key, rep.Note, rep)
		return key
	}
	if !bytes.Equal(o.ICC, h.ICC) || !bytes.Equal(o.EXIF, h.EXIF) || !bytes.Equal(o.XMP, h.XMP) {
		observe(c, "metadata-not-in-file")
	}
	return ""
}

// subImageFrames reports whether the history hands AddFrame an *image.NRGBA that is not a
// compact origin-(0,0) buffer (sub-image with a non-zero origin, or padded stride).
func subImageFrames(h *History) bool {
	for _, f := range h.Frames {
		if f.Placement == 1 || f.Placement == 4 {
			return true
		}
	}
	return false
}

// Compact returns the same history with every *image.NRGBA input given as a compact buffer.
func Compact(h *History) *History {
	g := *h
	g.Frames = append([]Frame(nil), h.Frames...)
	for i := range g.Frames {
		if g.Frames[i].Placement == 1 || g.Frames[i].Placement == 4 {
			g.Frames[i].Placement = 0
		}
	}
	return &g
}

// RunAndEval runs a history and evaluates the property with eval (EvalLossless / EvalAlpha).
// A violation of a history with sub-image inputs is attributed to the input placement
// (key "nrgba-subimage-input") only if the same history with compact inputs has no violation;
// the outcome returned for the correspondence is then the compact run's (the model takes
// pictures, not Go image layouts; the layout defect is reported through the violation).
func RunAndEval(c *Ctx, h *History, rng *Rand, eval func(*Ctx, *History, *Outcome) string) (*Outcome, string) {
	o := Run(h, rng)
	tmp := &Ctx{}
	// Outside the quantifier of C08 / C18 (frame sequences x Kmin/Kmax x loop count x codec mode):
	// pre-encoded frames, injected encoder failures / the muxer's frame limit, metadata set on the
	// encoder.  What the evaluation finds there is an observation (the Coq theorems and the model
	// correspondence cover these histories; a disagreement there is a correspondence break).
	if h.HasRaw() || h.Faulty() || h.HasMeta() {
		if o.Err == "noframes" {
			return o, ""
		}
		ha, oa := h, o
		if h.Faulty() {
			ha, oa = h.Accepted(o)
		}
		prefix := "metadata-set:"
		switch {
		case h.HasRaw():
			prefix = "raw-frames:"
			EvalRaw(tmp, ha, oa)
		case h.Faulty():
			prefix = "after-failed-addframe:"
			eval(tmp, ha, oa)
		default:
			eval(tmp, ha, oa)
		}
		for k, n := range tmp.D.Distribution {
			for ; n > 0; n-- {
				c.Count(k)
			}
		}
		for _, v := range tmp.D.Violations {
			observe(c, prefix+v.Key)
		}
		return o, ""
	}
	key := eval(tmp, h, o)
	for k, n := range tmp.D.Distribution {
		for ; n > 0; n-- {
			c.Count(k)
		}
	}
	corr := o
	if subImageFrames(h) {
		// the correspondence always uses the compact run (equal to the real one unless the
		// encoder depends on the storage layout; then the difference is counted)
		o2 := Run(Compact(h), rng)
		if o2.ImplLine("px") != o.ImplLine("px") {
			c.Count("subimage-input:file-differs-from-compact-input")
		}
		corr = o2
		if key != "" && eval(&Ctx{}, h, o2) == "" {
			v := tmp.D.Violations[0]
			c.Violate("nrgba-subimage-input", "an *image.NRGBA frame given as a sub-image (non-zero origin or padded stride) is not read as its Bounds() picture: "+v.Desc, v.Replay)
			return corr, "nrgba-subimage-input"
		}
	}
	for _, v := range tmp.D.Violations {
		c.Violate(v.Key, v.Desc, v.Replay)
	}
	return corr, key
}

// RefShow is the show a history with pre-encoded frames is expected to play: every AddFrame
// picture as the whole canvas, every raw frame composited by the container rules at its offset
// (computed with AnimDecoder, whose agreement with the specification is C09).
func RefShow(h *History) (cs [][]byte, ds []int) {
	an := &animation.Animation{CanvasWidth: h.W, CanvasHeight: h.H}
	for i, f := range h.Frames {
		fr := animation.Frame{Duration: time.Duration(f.DurMS) * time.Millisecond, HasAlpha: true}
		if ro := f.RawOp; ro != nil {
			im := image.NewNRGBA(image.Rect(0, 0, f.W, f.H))
			copy(im.Pix, f.Pix)
			fr.Image, fr.OffsetX, fr.OffsetY = im, ro.X, ro.Y
			if ro.ViaAddFrame {
				fr.OffsetX, fr.OffsetY = 0, 0
			}
			fr.Blend, fr.Dispose = animation.BlendAlpha, animation.DisposeNone
			if ro.BlendNone && !ro.ViaAddFrame {
				fr.Blend = animation.BlendNone
			}
			if ro.DispBG && !ro.ViaAddFrame {
				fr.Dispose = animation.DisposeBackground
			}
		} else {
			im := image.NewNRGBA(image.Rect(0, 0, h.W, h.H))
			copy(im.Pix, h.Pad(i))
			fr.Image, fr.Blend = im, animation.BlendNone
		}
		an.Frames = append(an.Frames, fr)
	}
	d, err := animation.NewAnimDecoder(an)
	if err != nil {
		return nil, nil
	}
	for d.HasNext() {
		s, dur, err := d.NextFrame()
		if err != nil {
			return nil, nil
		}
		cs = append(cs, append([]byte(nil), s.Pix...))
		ds = append(ds, int(dur/time.Millisecond))
	}
	return
}

// EvalRaw evaluates a history that mixes AddFrame with pre-encoded frames: the played show
// must be the reference show (pictures, and display times when there are two or more).
func EvalRaw(c *Ctx, h *History, o *Outcome) string {
	rep := Replay{History: h, Frames: o.Frames}
	if o.Err != "" {
		key := "error:" + strings.SplitN(o.Err, " ", 2)[0]
		c.Violate(key, "session with pre-encoded frames failed: "+o.Err, rep)
		return key
	}
	if o.CW != h.W || o.CH != h.H {
		rep.Note = fmt.Sprintf("canvas %dx%d, expected %dx%d", o.CW, o.CH, h.W, h.H)
		c.Violate("canvas-size", rep.Note, rep)
		return "canvas-size"
	}
	rcs, rds := RefShow(h)
	gin := Collapse(rcs, rds, NormPx)
	gout := Collapse(o.Canvases, o.Durations, NormPx)
	if len(gin) != len(gout) {
		rep.Note = fmt.Sprintf("%d distinct pictures played, %d expected (%d frames in the file, %d added)", len(gout), len(gin), len(o.Frames), len(h.Frames))
		c.Violate("picture-count", rep.Note, rep)
		return "picture-count"
	}
	for g := range gin {
		if !bytes.Equal(gin[g].Canvas, gout[g].Canvas) {
			p := firstDiff(gin[g].Canvas, gout[g].Canvas, 4)
			rep.Note = fmt.Sprintf("picture %d: pixel (%d,%d) is %v, expected %v", g, p%h.W, p/h.W, gout[g].Canvas[p*4:p*4+4], gin[g].Canvas[p*4:p*4+4])
			c.Violate("playback-mismatch", rep.Note, rep)
			return "playback-mismatch"
		}
	}
	if len(gin) >= 2 {
		for g := range gin {
			if gin[g].Dur != gout[g].Dur {
				rep.Note = fmt.Sprintf("picture %d displayed %d ms, expected %d ms", g, gout[g].Dur, gin[g].Dur)
				c.Violate("display-time", rep.Note, rep)
				return "display-time"
			}
		}
	}
	return ""
}

// slim drops the frame list of very long histories from replay data.
func slim(h *History) *History {
	if len(h.Frames) <= 64 {
		return h
	}
	g := *h
	g.Frames = h.Frames[len(h.Frames)-8:]
	return &g
}

// LimitHistory is a session that runs into the muxer's frame limit (10000): n 1x1 / 2x1
// pictures, all distinct from their predecessor except the given repeats near the end.
func LimitHistory(rng *Rand, n int, tail string) *History {
	h := &History{W: 2, H: 1, Lossless: true, Quality: 75, Kmax: rng.Pick(0, 0, 3), AtLimit: true}
	p := []byte{0, 0, 0, 255, 9, 9, 9, 255}
	for i := 0; i < n; i++ {
		q := append([]byte(nil), p...)
		q[0], q[1] = byte(i), byte(i>>8)
		p = q
		h.Frames = append(h.Frames, Frame{W: 2, H: 1, Pix: p, DurMS: 10})
	}
	// one more distinct picture: refused
	h.Frames = append(h.Frames, Frame{W: 2, H: 1, Pix: []byte{1, 2, 3, 255, 4, 5, 6, 255}, DurMS: 10})
	last := &h.Frames[n-1]
	switch tail {
	case "repeat-overflow": // the frame at the limit is followed by a repeat whose filler cannot be added
		last.DurMS = 0xFFFFFF - 3
		h.Frames = append(h.Frames, Frame{W: 2, H: 1, Pix: p, DurMS: 10}, Frame{W: 2, H: 1, Pix: p, DurMS: 1})
	case "repeat": // a plain repeat still merges
		h.Frames = append(h.Frames, Frame{W: 2, H: 1, Pix: p, DurMS: 7})
	}
	return h
}
