package animenc

import (
	"bytes"
	"fmt"

	. "verifharness/hlib"
)

// Replay is what a violation carries.
type Replay struct {
	History *History `json:"history"`
	Note    string   `json:"note"`
	Frames  []ContFrame
}

func inputs(h *History) (cs [][]byte, ds []int) {
	for i := range h.Frames {
		cs = append(cs, h.Pad(i))
		ds = append(ds, h.Frames[i].DurMS)
	}
	return
}

func firstDiff(a, b []byte, stride int) int {
	for i := 0; i+stride <= len(a) && i+stride <= len(b); i += stride {
		if !bytes.Equal(a[i:i+stride], b[i:i+stride]) {
			return i / stride
		}
	}
	return -1
}

// fillerDisposed reports whether a 1x1 overflow filler frame before played frame k
// carries the dispose-to-background flag (the retroactive SetFrameDisposeMode hit it).
func fillerDisposed(o *Outcome, k int) bool {
	for j := 1; j < k && j < len(o.Frames); j++ {
		if f := o.Frames[j]; f.Filler && f.DispBG {
			return true
		}
	}
	return false
}

// EvalLossless evaluates C08 directly on the implementation's observable behaviour:
// played pictures and display times against the inputs.  Returns the violation key ("" if none).
func EvalLossless(c *Ctx, h *History, o *Outcome) string {
	rep := Replay{History: h, Frames: o.Frames}
	if o.Err != "" {
		c.Violate("error:"+o.Err, "lossless animation session failed: "+o.Err, rep)
		return "error:" + o.Err
	}
	if o.CW != h.W || o.CH != h.H {
		rep.Note = fmt.Sprintf("canvas %dx%d, expected %dx%d", o.CW, o.CH, h.W, h.H)
		c.Violate("canvas-size", rep.Note, rep)
		return "canvas-size"
	}
	if k := o.CodecExact(h); k >= 0 {
		rep.Note = fmt.Sprintf("frame %d does not decode to the picture that was encoded", k)
		c.Violate("lossless-codec-not-exact", rep.Note, rep)
		return "lossless-codec-not-exact"
	}
	ics, ids := inputs(h)
	gin := Collapse(ics, ids, NormPx)
	gout := Collapse(o.Canvases, o.Durations, NormPx)
	for g := 0; g < len(gin) || g < len(gout); g++ {
		if g >= len(gin) || g >= len(gout) {
			rep.Note = fmt.Sprintf("%d distinct pictures played, %d added", len(gout), len(gin))
			key := "picture-count"
			if fillerDisposed(o, len(o.Frames)) {
				key = "filler-stale-rect"
			}
			c.Violate(key, rep.Note, rep)
			return key
		}
		if bytes.Equal(gin[g].Canvas, gout[g].Canvas) {
			continue
		}
		p := firstDiff(gin[g].Canvas, gout[g].Canvas, 4)
		k, i := gout[g].First, gin[g].First
		want, got := gin[g].Canvas[p*4:p*4+4], gout[g].Canvas[p*4:p*4+4]
		rep.Note = fmt.Sprintf("picture %d (played frame %d, input %d): pixel (%d,%d) is %v, expected %v", g, k, i, p%h.W, p/h.W, got, want)
		key := "playback-mismatch"
		raw := ics[i]
		if k < len(o.Frames) && !o.Frames[k].BlendNone && want[3] > 0 && want[3] < 255 && i > 0 &&
			bytes.Equal(ics[i-1][p*4:p*4+4], raw[p*4:p*4+4]) {
			key = "blend-unchanged-semitransparent"
		} else if fillerDisposed(o, k) {
			key = "filler-stale-rect"
		}
		c.Violate(key, rep.Note, rep)
		return key
	}
	if len(gin) >= 2 {
		if o.Still {
			c.Violate("still-with-two-pictures", "two distinct pictures but a still image was written", rep)
			return "still-with-two-pictures"
		}
		for g := range gin {
			if gin[g].Dur != gout[g].Dur {
				rep.Note = fmt.Sprintf("picture %d displayed %d ms, expected %d ms", g, gout[g].Dur, gin[g].Dur)
				c.Violate("display-time", rep.Note, rep)
				return "display-time"
			}
		}
		if o.Loop != ClampLoop(h.Loop) {
			rep.Note = fmt.Sprintf("loop count %d, expected %d", o.Loop, ClampLoop(h.Loop))
			c.Violate("loop-count", rep.Note, rep)
			return "loop-count"
		}
	}
	return ""
}

// EvalAlpha evaluates C18: the alpha plane of every played picture equals the source alpha
// (pictures are identified through the container frame -> AddFrame index map recorded while
// encoding, since lossy colour is not comparable), and every lossy frame of a picture with
// transparency carries an ALPH sub-chunk.
func EvalAlpha(c *Ctx, h *History, o *Outcome) string {
	rep := Replay{History: h, Frames: o.Frames}
	if o.Err != "" {
		c.Violate("error:"+o.Err, "animation session failed: "+o.Err, rep)
		return "error:" + o.Err
	}
	if o.CW != h.W || o.CH != h.H {
		c.Violate("canvas-size", "canvas size changed", rep)
		return "canvas-size"
	}
	ics, _ := inputs(h)
	if k := o.CodecExact(h); k >= 0 {
		rep.Note = fmt.Sprintf("frame %d (lossy=%v, still=%v): the decoded frame picture does not have the alpha of the picture that was encoded", k, o.Frames[k].Lossy, o.Still)
		key := "frame-codec-alpha-not-exact"
		if o.Still && o.Simple {
			key = "still-codec-alpha-not-exact"
		}
		c.Violate(key, rep.Note, rep)
		return key
	}
	if o.Still {
		if len(o.Canvases) != 1 || len(o.Frames) != 1 {
			c.Violate("still-frames", "still image with several frames", rep)
			return "still-frames"
		}
	} else if len(o.Frames) != len(o.EmitInput) || len(o.Canvases) != len(o.Frames) {
		c.Violate("frame-count", fmt.Sprintf("%d frames in the file, %d emitted", len(o.Frames), len(o.EmitInput)), rep)
		return "frame-count"
	}
	for k, f := range o.Frames {
		src := ics[f.Input]
		// structural part: a lossy frame whose source region has transparency must carry ALPH
		transparent := false
		for y := f.Y; y < f.Y+f.H && y < h.H; y++ {
			for x := f.X; x < f.X+f.W && x < h.W; x++ {
				if src[(y*h.W+x)*4+3] != 255 {
					transparent = true
				}
			}
		}
		if f.Filler {
			transparent = true // overflow filler: a fully transparent 1x1 picture
		}
		if f.Lossy && transparent && !f.HasALPH {
			rep.Note = fmt.Sprintf("frame %d (input %d) is lossy, its source has transparency, and it has no ALPH sub-chunk", k, f.Input)
			c.Violate("lossy-frame-without-alph", rep.Note, rep)
			return "lossy-frame-without-alph"
		}
		want, got := AlphaPlane(src), AlphaPlane(o.Canvases[k])
		if !bytes.Equal(want, got) {
			p := firstDiff(want, got, 1)
			rep.Note = fmt.Sprintf("played frame %d (input %d): alpha at (%d,%d) is %d, expected %d", k, f.Input, p%h.W, p/h.W, got[p], want[p])
			key := "alpha-mismatch"
			if !f.BlendNone && want[p] > 0 && want[p] < 255 && f.Input > 0 &&
				ics[f.Input-1][p*4+3] == want[p] {
				key = "blend-unchanged-semitransparent"
			} else if fillerDisposed(o, k) {
				key = "filler-stale-rect"
			}
			c.Violate(key, rep.Note, rep)
			return key
		}
	}
	return ""
}
