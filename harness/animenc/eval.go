package animenc

import (
	"bytes"
	"fmt"
	"image"
	"time"

	"github.com/deepteams/webp/animation"

	. "verifharness/hlib"
)

// Replay is what a violation carries.
type Replay struct {
	History *History `json:"history"`
	Note    string   `json:"note"`
	Frames  []ContFrame
}

func inputs(h *History) (cs [][]byte, ds []int) {
	for i := range h.Frames {
		cs = append(cs, h.Pad(i))
		ds = append(ds, h.Frames[i].DurMS)
	}
	return
}

func firstDiff(a, b []byte, stride int) int {
	for i := 0; i+stride <= len(a) && i+stride <= len(b); i += stride {
		if !bytes.Equal(a[i:i+stride], b[i:i+stride]) {
			return i / stride
		}
	}
	return -1
}

// fillerDisposed reports whether a 1x1 overflow filler frame before played frame k
// carries the dispose-to-background flag (the retroactive SetFrameDisposeMode hit it).
func fillerDisposed(o *Outcome, k int) bool {
	for j := 1; j < k && j < len(o.Frames); j++ {
		if f := o.Frames[j]; f.Filler && f.DispBG {
			return true
		}
	}
	return false
}

// metaKept: the metadata set on the encoder is in the file, byte for byte.
func metaKept(c *Ctx, h *History, o *Outcome, rep Replay) string {
	if !bytes.Equal(o.ICC, h.ICC) || !bytes.Equal(o.EXIF, h.EXIF) || !bytes.Equal(o.XMP, h.XMP) {
		c.Violate("metadata-lost", "metadata set on the animation encoder is not in the written file", rep)
		return "metadata-lost"
	}
	return ""
}

// EvalLossless evaluates C08 directly on the implementation's observable behaviour:
// played pictures and display times against the inputs.  Returns the violation key ("" if none).
func EvalLossless(c *Ctx, h *History, o *Outcome) string {
	rep := Replay{History: h, Frames: o.Frames}
	if o.Err != "" {
		c.Violate("error:"+o.Err, "lossless animation session failed: "+o.Err, rep)
		return "error:" + o.Err
	}
	if o.CW != h.W || o.CH != h.H {
		rep.Note = fmt.Sprintf("canvas %dx%d, expected %dx%d", o.CW, o.CH, h.W, h.H)
		c.Violate("canvas-size", rep.Note, rep)
		return "canvas-size"
	}
	if k := o.CodecExact(h); k >= 0 {
		rep.Note = fmt.Sprintf("frame %d does not decode to the picture that was encoded", k)
		c.Violate("lossless-codec-not-exact", rep.Note, rep)
		return "lossless-codec-not-exact"
	}
	ics, ids := inputs(h)
	gin := Collapse(ics, ids, NormPx)
	gout := Collapse(o.Canvases, o.Durations, NormPx)
	for g := 0; g < len(gin) || g < len(gout); g++ {
		if g >= len(gin) || g >= len(gout) {
			rep.Note = fmt.Sprintf("%d distinct pictures played, %d added", len(gout), len(gin))
			key := "picture-count"
			if fillerDisposed(o, len(o.Frames)) {
				key = "filler-stale-rect"
			}
			c.Violate(key, rep.Note, rep)
			return key
		}
		if bytes.Equal(gin[g].Canvas, gout[g].Canvas) {
			continue
		}
		p := firstDiff(gin[g].Canvas, gout[g].Canvas, 4)
		k, i := gout[g].First, gin[g].First
		want, got := gin[g].Canvas[p*4:p*4+4], gout[g].Canvas[p*4:p*4+4]
		rep.Note = fmt.Sprintf("picture %d (played frame %d, input %d): pixel (%d,%d) is %v, expected %v", g, k, i, p%h.W, p/h.W, got, want)
		key := "playback-mismatch"
		raw := ics[i]
		if k < len(o.Frames) && !o.Frames[k].BlendNone && want[3] > 0 && want[3] < 255 && i > 0 &&
			bytes.Equal(ics[i-1][p*4:p*4+4], raw[p*4:p*4+4]) {
			key = "blend-unchanged-semitransparent"
		} else if fillerDisposed(o, k) {
			key = "filler-stale-rect"
		}
		c.Violate(key, rep.Note, rep)
		return key
	}
	if k := metaKept(c, h, o, rep); k != "" {
		return k
	}
	if len(gin) >= 2 {
		if o.Still {
			c.Violate("still-with-two-pictures", "two distinct pictures but a still image was written", rep)
			return "still-with-two-pictures"
		}
		for g := range gin {
			if gin[g].Dur != gout[g].Dur {
				rep.Note = fmt.Sprintf("picture %d displayed %d ms, expected %d ms", g, gout[g].Dur, gin[g].Dur)
				c.Violate("display-time", rep.Note, rep)
				return "display-time"
			}
		}
		if o.Loop != ClampLoop(h.Loop) {
			rep.Note = fmt.Sprintf("loop count %d, expected %d", o.Loop, ClampLoop(h.Loop))
			c.Violate("loop-count", rep.Note, rep)
			return "loop-count"
		}
	}
	return ""
}

// EvalAlpha evaluates C18: the alpha plane of every played picture equals the source alpha
// (pictures are identified through the container frame -> AddFrame index map recorded while
// encoding, since lossy colour is not comparable), and every lossy frame of a picture with
// transparency carries an ALPH sub-chunk.
func EvalAlpha(c *Ctx, h *History, o *Outcome) string {
	rep := Replay{History: h, Frames: o.Frames}
	if o.Err != "" {
		c.Violate("error:"+o.Err, "animation session failed: "+o.Err, rep)
		return "error:" + o.Err
	}
	if o.CW != h.W || o.CH != h.H {
		c.Violate("canvas-size", "canvas size changed", rep)
		return "canvas-size"
	}
	ics, _ := inputs(h)
	if k := o.CodecExact(h); k >= 0 {
		rep.Note = fmt.Sprintf("frame %d (lossy=%v, still=%v): the decoded frame picture does not have the alpha of the picture that was encoded", k, o.Frames[k].Lossy, o.Still)
		key := "frame-codec-alpha-not-exact"
		if o.Still && o.Simple {
			key = "still-codec-alpha-not-exact"
		}
		c.Violate(key, rep.Note, rep)
		return key
	}
	if o.Still {
		if len(o.Canvases) != 1 || len(o.Frames) != 1 {
			c.Violate("still-frames", "still image with several frames", rep)
			return "still-frames"
		}
	} else if len(o.Frames) != len(o.EmitInput) || len(o.Canvases) != len(o.Frames) {
		c.Violate("frame-count", fmt.Sprintf("%d frames in the file, %d emitted", len(o.Frames), len(o.EmitInput)), rep)
		return "frame-count"
	}
	for k, f := range o.Frames {
		src := ics[f.Input]
		// structural part: a lossy frame whose source region has transparency must carry ALPH
		transparent := false
		for y := f.Y; y < f.Y+f.H && y < h.H; y++ {
			for x := f.X; x < f.X+f.W && x < h.W; x++ {
				if src[(y*h.W+x)*4+3] != 255 {
					transparent = true
				}
			}
		}
		if f.Filler {
			transparent = true // overflow filler: a fully transparent 1x1 picture
		}
		if f.Lossy && transparent && !f.HasALPH {
			rep.Note = fmt.Sprintf("frame %d (input %d) is lossy, its source has transparency, and it has no ALPH sub-chunk", k, f.Input)
			c.Violate("lossy-frame-without-alph", rep.Note, rep)
			return "lossy-frame-without-alph"
		}
		want, got := AlphaPlane(src), AlphaPlane(o.Canvases[k])
		if !bytes.Equal(want, got) {
			p := firstDiff(want, got, 1)
			rep.Note = fmt.Sprintf("played frame %d (input %d): alpha at (%d,%d) is %d, expected %d", k, f.Input, p%h.W, p/h.W, got[p], want[p])
			key := "alpha-mismatch"
			if !f.BlendNone && want[p] > 0 && want[p] < 255 && f.Input > 0 &&
				ics[f.Input-1][p*4+3] == want[p] {
				key = "blend-unchanged-semitransparent"
			} else if fillerDisposed(o, k) {
				key = "filler-stale-rect"
			}
			c.Violate(key, rep.Note, rep)
			return key
		}
	}
	return metaKept(c, h, o, rep)
}

// subImageFrames reports whether the history hands AddFrame an *image.NRGBA that is not a
// compact origin-(0,0) buffer (sub-image with a non-zero origin, or padded stride).
func subImageFrames(h *History) bool {
	for _, f := range h.Frames {
		if f.Placement == 1 || f.Placement == 4 {
			return true
		}
	}
	return false
}

// Compact returns the same history with every *image.NRGBA input given as a compact buffer.
func Compact(h *History) *History {
	g := *h
	g.Frames = append([]Frame(nil), h.Frames...)
	for i := range g.Frames {
		if g.Frames[i].Placement == 1 || g.Frames[i].Placement == 4 {
			g.Frames[i].Placement = 0
		}
	}
	return &g
}

// RunAndEval runs a history and evaluates the property with eval (EvalLossless / EvalAlpha).
// A violation of a history with sub-image inputs is attributed to the input placement
// (key "nrgba-subimage-input") only if the same history with compact inputs has no violation;
// the outcome returned for the correspondence is then the compact run's (the model takes
// pictures, not Go image layouts; the layout defect is reported through the violation).
func RunAndEval(c *Ctx, h *History, rng *Rand, eval func(*Ctx, *History, *Outcome) string) (*Outcome, string) {
	o := Run(h, rng)
	tmp := &Ctx{}
	if h.HasRaw() {
		ha, oa := h, o
		if h.Faulty() && o.Err != "noframes" {
			ha, oa = h.Accepted(o)
		}
		if o.Err == "noframes" {
			return o, ""
		}
		key := EvalRaw(c, ha, oa)
		return o, key
	}
	if h.Faulty() {
		// error injection: the show must be that of the AddFrame calls that succeeded
		if o.Err == "noframes" {
			return o, ""
		}
		ha, oa := h.Accepted(o)
		key := eval(tmp, ha, oa)
		for _, v := range tmp.D.Violations {
			c.Violate("after-failed-addframe:"+v.Key, "with injected encoder failures (calls "+fmt.Sprint(h.FailCalls)+", "+fmt.Sprint(len(o.Rejected))+" rejected AddFrame calls): "+v.Desc, Replay{History: slim(h), Note: v.Desc})
		}
		if key != "" {
			key = "after-failed-addframe:" + key
		}
		return o, key
	}
	key := eval(tmp, h, o)
	corr := o
	if subImageFrames(h) {
		// the correspondence always uses the compact run (equal to the real one unless the
		// encoder depends on the storage layout; then the difference is counted)
		o2 := Run(Compact(h), rng)
		if o2.ImplLine("px") != o.ImplLine("px") {
			c.Count("subimage-input:file-differs-from-compact-input")
		}
		corr = o2
		if key != "" && eval(&Ctx{}, h, o2) == "" {
			v := tmp.D.Violations[0]
			c.Violate("nrgba-subimage-input", "an *image.NRGBA frame given as a sub-image (non-zero origin or padded stride) is not read as its Bounds() picture: "+v.Desc, v.Replay)
			return corr, "nrgba-subimage-input"
		}
	}
	for _, v := range tmp.D.Violations {
		c.Violate(v.Key, v.Desc, v.Replay)
	}
	return corr, key
}

// RefShow is the show a history with pre-encoded frames is expected to play: every AddFrame
// picture as the whole canvas, every raw frame composited by the container rules at its offset
// (computed with AnimDecoder, whose agreement with the specification is C09).
func RefShow(h *History) (cs [][]byte, ds []int) {
	an := &animation.Animation{CanvasWidth: h.W, CanvasHeight: h.H}
	for i, f := range h.Frames {
		fr := animation.Frame{Duration: time.Duration(f.DurMS) * time.Millisecond, HasAlpha: true}
		if ro := f.RawOp; ro != nil {
			im := image.NewNRGBA(image.Rect(0, 0, f.W, f.H))
			copy(im.Pix, f.Pix)
			fr.Image, fr.OffsetX, fr.OffsetY = im, ro.X, ro.Y
			if ro.ViaAddFrame {
				fr.OffsetX, fr.OffsetY = 0, 0
			}
			fr.Blend, fr.Dispose = animation.BlendAlpha, animation.DisposeNone
			if ro.BlendNone && !ro.ViaAddFrame {
				fr.Blend = animation.BlendNone
			}
			if ro.DispBG && !ro.ViaAddFrame {
				fr.Dispose = animation.DisposeBackground
			}
		} else {
			im := image.NewNRGBA(image.Rect(0, 0, h.W, h.H))
			copy(im.Pix, h.Pad(i))
			fr.Image, fr.Blend = im, animation.BlendNone
		}
		an.Frames = append(an.Frames, fr)
	}
	d, err := animation.NewAnimDecoder(an)
	if err != nil {
		return nil, nil
	}
	for d.HasNext() {
		s, dur, err := d.NextFrame()
		if err != nil {
			return nil, nil
		}
		cs = append(cs, append([]byte(nil), s.Pix...))
		ds = append(ds, int(dur/time.Millisecond))
	}
	return
}

// EvalRaw evaluates a history that mixes AddFrame with pre-encoded frames: the played show
// must be the reference show (pictures, and display times when there are two or more).
func EvalRaw(c *Ctx, h *History, o *Outcome) string {
	rep := Replay{History: h, Frames: o.Frames}
	if o.Err != "" {
		key := "raw-frames:error:" + o.Err
		if len(o.Err) >= 5 && o.Err[:5] == "PANIC" {
			key = "raw-frames:panic"
		}
		c.Violate(key, "session with pre-encoded frames failed: "+o.Err, rep)
		return key
	}
	if o.CW != h.W || o.CH != h.H {
		rep.Note = fmt.Sprintf("canvas %dx%d, expected %dx%d", o.CW, o.CH, h.W, h.H)
		c.Violate("raw-frames:canvas-size", rep.Note, rep)
		return "raw-frames:canvas-size"
	}
	rcs, rds := RefShow(h)
	gin := Collapse(rcs, rds, NormPx)
	gout := Collapse(o.Canvases, o.Durations, NormPx)
	if len(gin) != len(gout) {
		rep.Note = fmt.Sprintf("%d distinct pictures played, %d expected (%d frames in the file, %d added)", len(gout), len(gin), len(o.Frames), len(h.Frames))
		c.Violate("raw-frames:picture-count", rep.Note, rep)
		return "raw-frames:picture-count"
	}
	for g := range gin {
		if !bytes.Equal(gin[g].Canvas, gout[g].Canvas) {
			p := firstDiff(gin[g].Canvas, gout[g].Canvas, 4)
			rep.Note = fmt.Sprintf("picture %d: pixel (%d,%d) is %v, expected %v", g, p%h.W, p/h.W, gout[g].Canvas[p*4:p*4+4], gin[g].Canvas[p*4:p*4+4])
			c.Violate("raw-frames:playback-mismatch", rep.Note, rep)
			return "raw-frames:playback-mismatch"
		}
	}
	if len(gin) >= 2 {
		for g := range gin {
			if gin[g].Dur != gout[g].Dur {
				rep.Note = fmt.Sprintf("picture %d displayed %d ms, expected %d ms", g, gout[g].Dur, gin[g].Dur)
				c.Violate("raw-frames:display-time", rep.Note, rep)
				return "raw-frames:display-time"
			}
		}
	}
	return ""
}

// slim drops the frame list of very long histories from replay data.
func slim(h *History) *History {
	if len(h.Frames) <= 64 {
		return h
	}
	g := *h
	g.Frames = h.Frames[len(h.Frames)-8:]
	return &g
}

// LimitHistory is a session that runs into the muxer's frame limit (10000): n 1x1 / 2x1
// pictures, all distinct from their predecessor except the given repeats near the end.
func LimitHistory(rng *Rand, n int, tail string) *History {
	h := &History{W: 2, H: 1, Lossless: true, Quality: 75, Kmax: rng.Pick(0, 0, 3), AtLimit: true}
	p := []byte{0, 0, 0, 255, 9, 9, 9, 255}
	for i := 0; i < n; i++ {
		q := append([]byte(nil), p...)
		q[0], q[1] = byte(i), byte(i>>8)
		p = q
		h.Frames = append(h.Frames, Frame{W: 2, H: 1, Pix: p, DurMS: 10})
	}
	// one more distinct picture: refused
	h.Frames = append(h.Frames, Frame{W: 2, H: 1, Pix: []byte{1, 2, 3, 255, 4, 5, 6, 255}, DurMS: 10})
	last := &h.Frames[n-1]
	switch tail {
	case "repeat-overflow": // the frame at the limit is followed by a repeat whose filler cannot be added
		last.DurMS = 0xFFFFFF - 3
		h.Frames = append(h.Frames, Frame{W: 2, H: 1, Pix: p, DurMS: 10}, Frame{W: 2, H: 1, Pix: p, DurMS: 1})
	case "repeat": // a plain repeat still merges
		h.Frames = append(h.Frames, Frame{W: 2, H: 1, Pix: p, DurMS: 7})
	}
	return h
}
