package animenc

import (
	"fmt"

	. "verifharness/hlib"
)

// Content classes of generated pictures.
const (
	ClassOpaque = iota
	ClassBinary
	ClassGraded
	ClassBoundary
)

var boundaryAlphas = []int{0, 0, 1, 127, 128, 254, 255, 255, 255}

func randAlpha(rng *Rand, class int) int {
	switch class {
	case ClassBinary:
		return 255 * rng.Intn(2)
	case ClassGraded:
		return rng.Intn(256)
	case ClassBoundary:
		return boundaryAlphas[rng.Intn(len(boundaryAlphas))]
	}
	return 255
}

func randPixel(rng *Rand, class int, dst []byte) {
	// few distinct colours, so that unchanged / equal pixels are frequent
	dst[0] = byte(rng.Pick(0, 1, 17, 128, 200, 255))
	dst[1] = byte(rng.Pick(0, 64, 255))
	dst[2] = byte(rng.Pick(0, 255, 90))
	dst[3] = byte(randAlpha(rng, class))
}

func randPicture(rng *Rand, w, h, class int) []byte {
	p := make([]byte, w*h*4)
	switch rng.Intn(3) {
	case 0: // noise
		for i := 0; i < w*h; i++ {
			randPixel(rng, class, p[i*4:])
		}
	case 1: // flat background with a few blocks
		bg := make([]byte, 4)
		randPixel(rng, class, bg)
		for i := 0; i < w*h; i++ {
			copy(p[i*4:], bg)
		}
		for k := rng.Intn(4); k > 0; k-- {
			paintBlock(rng, p, w, h, class, false)
		}
	default: // horizontal bands
		band := make([]byte, 4)
		for y := 0; y < h; y++ {
			if y == 0 || rng.Intn(3) == 0 {
				randPixel(rng, class, band)
			}
			for x := 0; x < w; x++ {
				copy(p[(y*w+x)*4:], band)
			}
		}
	}
	return p
}

// paintBlock overwrites a random block with one colour (or with transparency when clear is set).
func paintBlock(rng *Rand, p []byte, w, h, class int, clear bool) {
	bw, bh := rng.Range(1, (w+1)/2), rng.Range(1, (h+1)/2)
	bx, by := rng.Intn(w-bw+1), rng.Intn(h-bh+1)
	c := make([]byte, 4)
	if !clear {
		randPixel(rng, class, c)
	}
	for y := by; y < by+bh; y++ {
		for x := bx; x < bx+bw; x++ {
			copy(p[(y*w+x)*4:], c)
		}
	}
}

var interestingDurations = []int{0, 0, 1, 10, 10, 40, 100, 1000, 0xFFFFFF, 0xFFFFFE, 0x800000, 0x7FFFFF, 0xFFFFFF - 10}

// KSettings are the (Kmin, Kmax) pairs histories are crossed with: key frames disabled,
// every frame a key frame, tight and loose windows, Kmin >= Kmax, negative values.
var KSettings = [][2]int{{0, 0}, {0, 0}, {0, 1}, {1, 2}, {0, 2}, {3, 5}, {0, 3}, {2, 4}, {9, 3}, {-1, -1}, {0, 100}, {1, 64}}

// RandHistory draws one encoder session.  Changes between frames: identical repeat,
// small block change, block cleared to transparency, colour change under alpha 0 only,
// single pixel, large change, new picture.
func RandHistory(rng *Rand, maxDim int, lossless, mixed bool, quality int, classes []int) *History {
	h := &History{Lossless: lossless, Mixed: mixed, Quality: quality}
	switch rng.Intn(6) {
	case 0:
		h.W, h.H = rng.Range(1, 2), rng.Range(1, 2)
	case 1, 2, 3:
		h.W, h.H = rng.Range(1, 8), rng.Range(1, 8)
	default:
		h.W, h.H = rng.Range(1, maxDim), rng.Range(1, maxDim)
	}
	k := KSettings[rng.Intn(len(KSettings))]
	h.Kmin, h.Kmax = k[0], k[1]
	h.Loop = rng.Pick(0, 0, 1, 3, 65535, 7)
	class := classes[rng.Intn(len(classes))]
	n := rng.Range(1, 8)
	cur := randPicture(rng, h.W, h.H, class)
	for i := 0; i < n; i++ {
		if i > 0 {
			next := append([]byte(nil), cur...)
			switch rng.Intn(9) {
			case 0, 1: // identical repeat
			case 2: // small block
				paintBlock(rng, next, h.W, h.H, class, false)
			case 3: // clear a block
				paintBlock(rng, next, h.W, h.H, class, true)
			case 4: // colour under alpha 0 only (or one pixel if there is none)
				done := false
				for j := 0; j < h.W*h.H; j++ {
					if next[j*4+3] == 0 {
						next[j*4] ^= 0x55
						done = true
					}
				}
				if !done {
					randPixel(rng, class, next[rng.Intn(h.W*h.H)*4:])
				}
			case 5: // single pixel
				randPixel(rng, class, next[rng.Intn(h.W*h.H)*4:])
			case 6: // large change
				for j := 0; j < h.W*h.H; j++ {
					if rng.Intn(10) != 0 {
						randPixel(rng, class, next[j*4:])
					}
				}
			case 7: // new picture, possibly of another class
				if rng.Bool() {
					class = classes[rng.Intn(len(classes))]
				}
				next = randPicture(rng, h.W, h.H, class)
			default: // two far-apart pixels (wide changed rectangle, mostly unchanged inside)
				randPixel(rng, class, next[rng.Intn(h.W*h.H)*4:])
				randPixel(rng, class, next[rng.Intn(h.W*h.H)*4:])
			}
			cur = next
		}
		f := Frame{W: h.W, H: h.H, Pix: cur, DurMS: interestingDurations[rng.Intn(len(interestingDurations))]}
		if rng.Intn(4) == 0 {
			f.DurMS = rng.Intn(0x1000000)
		}
		if rng.Intn(8) == 0 {
			// a frame smaller (or larger) than the canvas: only its top-left part lands on the canvas
			fw, fh := rng.Range(1, h.W+1), rng.Range(1, h.H+1)
			pix := make([]byte, fw*fh*4)
			for y := 0; y < fh; y++ {
				for x := 0; x < fw; x++ {
					if x < h.W && y < h.H {
						copy(pix[(y*fw+x)*4:(y*fw+x)*4+4], cur[(y*h.W+x)*4:])
					} else {
						randPixel(rng, class, pix[(y*fw+x)*4:])
					}
				}
			}
			f.W, f.H, f.Pix = fw, fh, pix
			// what the encoder sees from now on is the padded version
			hh := &History{W: h.W, H: h.H, Frames: []Frame{f}}
			cur = hh.Pad(0)
		}
		f.Placement = rng.Pick(0, 0, 0, 0, 2, 0, 1, 4, 5, 3)
		if f.Placement == 3 {
			f.Pix = append([]byte(nil), f.Pix...)
			f.UseRGBA()
			hh := &History{W: h.W, H: h.H, Frames: []Frame{f}}
			cur = hh.Pad(0)
			if f.W == h.W && f.H == h.H {
				cur = f.Pix
			}
		}
		h.Frames = append(h.Frames, f)
	}
	if rng.Intn(5) == 0 {
		blob := func() []byte {
			switch rng.Intn(4) {
			case 0:
				return nil
			case 1:
				return []byte{}
			default:
				return rng.Bytes(rng.Range(1, 9))
			}
		}
		h.ICC, h.EXIF, h.XMP = blob(), blob(), blob()
		h.MetaAt = rng.Intn(len(h.Frames) + 1)
	}
	return h
}

// Signature summarises what a run exercised (for the distinct-non-trivial count).
func Signature(h *History, o *Outcome) string {
	s := fmt.Sprintf("L%dM%d;", b2i(h.Lossless), b2i(h.Mixed))
	if o.Still {
		return s + "still"
	}
	for _, f := range o.Frames {
		full := f.X == 0 && f.Y == 0 && f.W == h.W && f.H == h.H
		s += fmt.Sprintf("%d%d%d%d%d;", b2i(full), b2i(f.W == 1 && f.H == 1), b2i(f.BlendNone), b2i(f.DispBG), b2i(f.Lossy))
	}
	return s
}

// AddRawFrames turns some frames of a history into pre-encoded frames (AddRawFrame with a
// random even offset / blend / dispose, or AddFrame(NewBitstreamFrame)).
func AddRawFrames(rng *Rand, h *History) {
	for i := range h.Frames {
		if rng.Intn(3) != 0 && !(i == len(h.Frames)-1 && !h.HasRaw()) {
			continue
		}
		f := &h.Frames[i]
		f.Placement = 0
		f.Raw = nil
		ro := &RawSpec{BlendNone: rng.Bool(), DispBG: rng.Intn(3) == 0, ViaAddFrame: rng.Intn(4) == 0}
		// a sub-picture at an even offset inside the canvas
		fw, fh := rng.Range(1, h.W), rng.Range(1, h.H)
		ro.X, ro.Y = 2*rng.Intn((h.W-fw)/2+1), 2*rng.Intn((h.H-fh)/2+1)
		if ro.ViaAddFrame || rng.Bool() {
			fw, fh, ro.X, ro.Y = h.W, h.H, 0, 0
		}
		pix := make([]byte, fw*fh*4)
		for y := 0; y < fh; y++ {
			for x := 0; x < fw; x++ {
				if x < f.W && y < f.H {
					copy(pix[(y*fw+x)*4:(y*fw+x)*4+4], f.Pix[(y*f.W+x)*4:])
				}
			}
		}
		if rng.Intn(12) == 0 && !ro.ViaAddFrame {
			// a frame that does not fit the canvas: Close must refuse to write the file
			ro.X = 2 * ((h.W-fw)/2 + 1)
		}
		f.W, f.H, f.Pix, f.RawOp = fw, fh, pix, ro
	}
}
