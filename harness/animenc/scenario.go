package animenc

import (
	. "verifharness/hlib"
)

// Scenarios returns narrow, hand-shaped histories (with random pictures) that random
// drawing rarely produces: the corner cases of the key-frame counter, the duration
// overflow, the 90 % area rule and the rectangle search.
func Scenarios(rng *Rand, lossless, mixed bool, quality int, classes []int) []*History {
	class := classes[rng.Intn(len(classes))]
	mk := func(w, h, kmin, kmax, loop int) *History {
		return &History{W: w, H: h, Kmin: kmin, Kmax: kmax, Loop: loop, Lossless: lossless, Mixed: mixed, Quality: quality}
	}
	add := func(h *History, pix []byte, dur int) {
		h.Frames = append(h.Frames, Frame{W: h.W, H: h.H, Pix: append([]byte(nil), pix...), DurMS: dur})
	}
	changed := func(h *History, p []byte) []byte { // a different picture (one block changed)
		for {
			q := append([]byte(nil), p...)
			paintBlock(rng, q, h.W, h.H, class, false)
			if string(q) != string(p) {
				return q
			}
			randPixel(rng, ClassOpaque, q[rng.Intn(h.W*h.H)*4:])
			if string(q) != string(p) {
				return q
			}
		}
	}
	var out []*History
	dims := func() (int, int) { return rng.Range(2, 9), rng.Range(2, 9) }

	// (a) a duplicate arriving exactly when countSinceKeyframe reaches Kmax-1 / Kmax
	for _, kmax := range []int{2, 3, 4} {
		for _, dupAt := range []int{kmax - 1, kmax, kmax + 1} {
			w, hh := dims()
			h := mk(w, hh, rng.Pick(0, kmax, kmax-1), kmax, 0)
			p := randPicture(rng, w, hh, class)
			for i := 0; i <= kmax+2; i++ {
				if i > 0 && i != dupAt {
					p = changed(h, p)
				}
				add(h, p, rng.Pick(0, 10, 0xFFFFFF))
			}
			out = append(out, h)
		}
	}
	// (b) three overflow fillers in a row, then a change, then a duplicate again
	{
		w, hh := dims()
		h := mk(w, hh, 0, rng.Pick(0, 2, 3), 0)
		p := randPicture(rng, w, hh, class)
		for i := 0; i < 4; i++ {
			add(h, p, rng.Pick(0xFFFFFF, 0xFFFFFF, 0xFFFFFE))
		}
		add(h, p, 1)
		p = changed(h, p)
		add(h, p, 0xFFFFFF)
		add(h, p, 0xFFFFFF)
		p = changed(h, p)
		add(h, p, 5)
		out = append(out, h)
	}
	// (c) Kmin == Kmax, Kmax == 1 (all key frames), Kmax == 2
	for _, k := range [][2]int{{3, 3}, {2, 2}, {1, 1}, {0, 1}, {5, 1}, {1, 2}, {30, 31}, {0, 32}} {
		w, hh := dims()
		h := mk(w, hh, k[0], k[1], rng.Pick(0, 65535))
		p := randPicture(rng, w, hh, class)
		for i := 0; i < 6; i++ {
			if i > 0 && rng.Intn(4) != 0 {
				p = changed(h, p)
			}
			add(h, p, rng.Pick(0, 20, 100))
		}
		out = append(out, h)
	}
	// (d,e) alternating between two pictures; a frame equal to the picture two / three back
	{
		w, hh := dims()
		h := mk(w, hh, 0, rng.Pick(0, 3), 0)
		a := randPicture(rng, w, hh, class)
		b := changed(h, a)
		c := changed(h, b)
		for i := 0; i < 6; i++ {
			if i%2 == 0 {
				add(h, a, 10)
			} else {
				add(h, b, 20)
			}
		}
		out = append(out, h)
		h2 := mk(w, hh, 0, 0, 3)
		for _, p := range [][]byte{a, b, c, a, c, b, b, a} {
			add(h2, p, rng.Pick(0, 7))
		}
		out = append(out, h2)
	}
	// (f) canvases 1xN and Nx1, odd offsets
	for _, d := range [][2]int{{1, rng.Range(2, 24)}, {rng.Range(2, 24), 1}, {1, 1}, {2, 1}, {1, 2}} {
		h := mk(d[0], d[1], 0, rng.Pick(0, 2), 0)
		p := randPicture(rng, d[0], d[1], class)
		for i := 0; i < 5; i++ {
			if i > 0 {
				q := append([]byte(nil), p...)
				randPixel(rng, class, q[rng.Intn(d[0]*d[1])*4:])
				p = q
			}
			add(h, p, rng.Pick(0, 30))
		}
		out = append(out, h)
	}
	// (g,h) every duration 0; loop count 65535 (and beyond the range: clamped)
	{
		w, hh := dims()
		h := mk(w, hh, 0, 0, rng.Pick(65535, 65536, -1, 70000))
		p := randPicture(rng, w, hh, class)
		for i := 0; i < 5; i++ {
			if i != 2 {
				p = changed(h, p)
			}
			add(h, p, 0)
		}
		out = append(out, h)
	}
	// (i) a change only in the last row / last column / last pixel / first pixel / two opposite corners
	{
		w, hh := rng.Range(2, 12), rng.Range(2, 12)
		h := mk(w, hh, 0, 0, 0)
		p := randPicture(rng, w, hh, class)
		add(h, p, 10)
		spots := [][]int{{w - 1, hh - 1}, {0, hh - 1}, {w - 1, 0}, {0, 0}, {w - 1, rng.Intn(hh)}, {rng.Intn(w), hh - 1}}
		for _, s := range spots {
			q := append([]byte(nil), p...)
			o := (s[1]*w + s[0]) * 4
			q[o] ^= 0x80
			q[o+3] = byte(randAlpha(rng, class))
			p = q
			add(h, p, 10)
		}
		q := append([]byte(nil), p...)
		q[0] ^= 0x40
		q[len(q)-4] ^= 0x40
		add(h, q, 10)
		out = append(out, h)
	}
	// (j) changed area exactly at / just above 90 % of the canvas (10x10: 90 vs 91..100; 20x1; 5x4)
	for _, d := range [][4]int{{10, 10, 10, 9}, {10, 10, 9, 10}, {10, 10, 10, 10}, {20, 1, 18, 1}, {20, 1, 19, 1}, {5, 4, 5, 4}, {5, 4, 4, 4}, {3, 7, 3, 6}} {
		w, hh, cw, ch := d[0], d[1], d[2], d[3]
		h := mk(w, hh, 0, 0, 0)
		p := randPicture(rng, w, hh, class)
		add(h, p, 10)
		q := append([]byte(nil), p...)
		// change the two opposite corners of a cw x ch rectangle anchored at an even offset (0,0)
		for _, s := range [][2]int{{0, 0}, {cw - 1, ch - 1}} {
			o := (s[1]*w + s[0]) * 4
			q[o] ^= 0x80
			q[o+1] ^= 0x01
		}
		add(h, q, 10)
		// and everything changed
		r := append([]byte(nil), q...)
		for i := 0; i < w*hh; i++ {
			r[i*4+1] ^= 0x10
		}
		add(h, r, 10)
		out = append(out, h)
	}
	// (k) the two candidates of a sub-frame disagree on the blend mode and the
	// dispose-background one is smaller: a small opaque patch on a semi-transparent canvas,
	// then the patch region cleared (dispose-none: a transparent block, no blending possible;
	// dispose-background: nothing left to change inside the old rectangle, a tiny rectangle of
	// kept semi-transparent pixels, blending possible and the kept pixels made transparent).
	for _, alpha := range []byte{1, 64, 128, 254} {
		for _, variant := range []int{0, 1, 2} {
			w, hh := rng.Range(6, 12), rng.Range(6, 12)
			h := mk(w, hh, 0, 0, 0)
			bg := []byte{byte(rng.Pick(0, 200, 255)), byte(rng.Pick(0, 64)), byte(rng.Pick(90, 255)), alpha}
			p0 := make([]byte, w*hh*4)
			for i := 0; i < w*hh; i++ {
				copy(p0[i*4:], bg)
			}
			pw, ph := rng.Range(2, 5), rng.Range(2, 5)
			px, py := rng.Range(1, w-pw), rng.Range(1, hh-ph)
			if variant != 2 { // even offsets: the snapped rectangle is the patch itself
				px, py = px&^1, py&^1
				if px == 0 && py == 0 {
					px = 2
					if px+pw > w {
						pw = w - px
					}
				}
			}
			p1 := append([]byte(nil), p0...)
			for y := py; y < py+ph; y++ {
				for x := px; x < px+pw; x++ {
					copy(p1[(y*w+x)*4:], []byte{byte(rng.U64()), byte(rng.U64()), byte(rng.U64()), 255})
				}
			}
			p2 := append([]byte(nil), p1...)
			for y := py; y < py+ph; y++ {
				for x := px; x < px+pw; x++ {
					copy(p2[(y*w+x)*4:], []byte{0, 0, 0, 0})
				}
			}
			if variant == 1 { // plus one more changed pixel next to the old rectangle
				o := ((py+ph-1)*w + px - 1) * 4
				if px == 0 {
					o = ((py+ph-1)*w + px + pw) * 4
				}
				copy(p2[o:], []byte{9, 9, 9, 255})
			}
			add(h, p0, 10)
			add(h, p1, 10)
			add(h, p2, 10)
			add(h, p0, 10)
			out = append(out, h)
		}
	}
	// (l) a forced key frame right after a small sub-frame, then a picture in which that
	// sub-frame's area becomes transparent and a distant pixel changes: the dispose-background
	// simulation must use the key frame's rectangle (the whole canvas), not the older one
	for _, kmax := range []int{2, 3} {
		w, hh := rng.Range(8, 12), rng.Range(8, 12)
		h := mk(w, hh, 0, kmax, 0)
		p := make([]byte, w*hh*4)
		for i := 0; i < w*hh; i++ {
			randPixel(rng, ClassOpaque, p[i*4:])
		}
		add(h, p, 10)
		px, py := 2*rng.Range(1, 2), 2*rng.Range(1, 2)
		for n := 1; n < kmax; n++ { // small sub-frames at R = (px,py)+2x2
			q := append([]byte(nil), p...)
			for y := py; y < py+2; y++ {
				for x := px; x < px+2; x++ {
					copy(q[(y*w+x)*4:], []byte{byte(rng.U64()), byte(n), 7, 255})
				}
			}
			p = q
			add(h, p, 10)
		}
		q := append([]byte(nil), p...) // the forced key frame
		q[((hh-1)*w+w-1)*4] ^= 0x55
		p = q
		add(h, p, 10)
		q = append([]byte(nil), p...) // R cleared, a distant pixel changed
		for y := py; y < py+2; y++ {
			for x := px; x < px+2; x++ {
				copy(q[(y*w+x)*4:], []byte{0, 0, 0, 0})
			}
		}
		q[((py+3)*w+px+3)*4+1] ^= 0x33
		add(h, q, 10)
		out = append(out, h)
	}
	// random placements on top
	for _, h := range out {
		for i := range h.Frames {
			h.Frames[i].Placement = rng.Pick(0, 0, 0, 2, 1, 4, 5)
		}
	}
	return out
}
