// Package animenc is the Go side shared by the C08 and C18 checks: it runs the real
// animation.AnimEncoder on a generated history, records every candidate-size comparison
// (by wrapping the exported animation.FrameEncoderFunc / SimpleEncodeFunc hooks), reads
// the written file back through mux.Demuxer and AnimDecoder, prints the canonical result
// line the extracted model (extract/c08/run.ml) prints, and evaluates the property
// directly on the implementation.
package animenc

import (
	"bytes"
	"errors"
	"encoding/hex"
	"fmt"
	"image"
	"image/color"
	"strings"
	"time"

	_ "github.com/deepteams/webp" // registers the codecs with the animation package
	"github.com/deepteams/webp/animation"
	"github.com/deepteams/webp/mux"

	. "verifharness/hlib"
)

// Frame is one AddFrame call.
type Frame struct {
	W, H      int
	Pix       []byte // NRGBA, W*H*4
	DurMS     int
	Placement int // 0: *image.NRGBA at origin, 1: sub-image of a larger parent, 2: generic image.Image wrapper, 3: *image.RGBA, 4: stride-padded NRGBA, 5: wrapper around a sub-image
	Raw       []byte `json:",omitempty"` // placement 3: the premultiplied RGBA pixels handed to AddFrame
	// RawOp != nil: the picture is encoded by the caller and added as a ready bitstream
	// (AddRawFrame, or AddFrame(NewBitstreamFrame(...)) when ViaAddFrame is set).
	RawOp *RawSpec `json:",omitempty"`
}

// RawSpec are the parameters of an AddRawFrame call.
type RawSpec struct {
	X, Y              int
	BlendNone, DispBG bool
	ViaAddFrame       bool
}

// HasRaw reports whether the history adds pre-encoded frames.
func (h *History) HasRaw() bool {
	for _, f := range h.Frames {
		if f.RawOp != nil {
			return true
		}
	}
	return false
}

// History is one encoder session.
type History struct {
	W, H, Loop, Kmin, Kmax int
	Lossless, Mixed        bool
	Quality                int
	Frames                 []Frame
	// metadata set on the encoder (nil: not set); MetaAt: before which AddFrame call
	// (len(Frames): just before Close)
	ICC, EXIF, XMP []byte
	MetaAt         int
	// FailCalls: indices (0-based, over the whole session) of FrameEncoderFunc calls that
	// are made to fail (error injection); AddFrame calls that return an error are then
	// expected to leave the animation as it was.
	FailCalls []int `json:",omitempty"`
	// AtLimit: the history is longer than the muxer's frame limit; AddFrame calls are
	// expected to be refused once it is reached (treated like injected failures).
	AtLimit bool `json:",omitempty"`
}

// Faulty: AddFrame errors are expected and tolerated.
func (h *History) Faulty() bool { return len(h.FailCalls) > 0 || h.AtLimit }

// HasMeta reports whether any metadata blob is set (a non-nil empty blob counts).
func (h *History) HasMeta() bool { return h.ICC != nil || h.EXIF != nil || h.XMP != nil }

type encCall struct {
	lossless bool
	size     int
	ok       bool
}

// StepOracle holds the size comparisons of one AddFrame call, as the model's orc record.
type StepOracle struct{ BG, Key, AltA, AltB, AltC bool }

// ContFrame is the container view of one written frame.
type ContFrame struct {
	X, Y, W, H       int
	BlendNone, DispBG bool
	Dur              int
	Lossy            bool
	HasALPH          bool
	Input            int  // index of the AddFrame call that produced it (-1: unknown)
	Filler           bool // emitted by increasePreviousDuration (duration overflow)
	Pix              []byte `json:"-"` // the decoded frame picture (NRGBA, W*H*4)
}

// Outcome is everything observed from one run.
type Outcome struct {
	Err        string // non-empty: the session failed (nil encoder, AddFrame/Close error, panic, undecodable output)
	Oracles    []StepOracle
	Simple     bool
	Still      bool
	CW, CH     int
	Loop       int
	Frames     []ContFrame
	Canvases   [][]byte // played canvases, NRGBA
	Durations  []int
	EmitInput  []int // per emitted muxer frame: the AddFrame index
	Rejected   []int // AddFrame calls that returned an error (error injection only)
	Fails      []StepFail
	Faulty     bool
	Written    bool // Close returned nil and wrote the file
	EmitFiller []bool
	State      string
	ICC, EXIF, XMP []byte `json:"-"`
	Bytes      []byte
}

var errInjected = errors.New("injected encoder failure")

// Accepted returns the history of the AddFrame calls that succeeded, and the outcome with
// its frame -> input map re-indexed to that history.
func (h *History) Accepted(o *Outcome) (*History, *Outcome) {
	if len(o.Rejected) == 0 {
		return h, o
	}
	rej := map[int]bool{}
	for _, i := range o.Rejected {
		rej[i] = true
	}
	g := *h
	g.Frames = nil
	g.FailCalls = nil
	newIdx := make([]int, len(h.Frames))
	for i, f := range h.Frames {
		newIdx[i] = len(g.Frames)
		if !rej[i] {
			g.Frames = append(g.Frames, f)
		}
	}
	o2 := *o
	o2.Frames = append([]ContFrame(nil), o.Frames...)
	o2.EmitInput = nil
	o2.EmitFiller = nil
	for k := range o2.Frames {
		if o2.Frames[k].Input >= 0 {
			o2.Frames[k].Input = newIdx[o2.Frames[k].Input]
		}
	}
	for k, i := range o.EmitInput {
		o2.EmitInput = append(o2.EmitInput, newIdx[i])
		o2.EmitFiller = append(o2.EmitFiller, o.EmitFiller[k])
	}
	return &g, &o2
}

type wrapImage struct{ im *image.NRGBA }

func (w wrapImage) ColorModel() color.Model { return color.NRGBAModel }
func (w wrapImage) Bounds() image.Rectangle { return w.im.Bounds() }
func (w wrapImage) At(x, y int) color.Color { return w.im.NRGBAAt(x, y) }

func (f *Frame) image(rng *Rand) image.Image {
	switch f.Placement {
	case 1:
		ox, oy := 1+rng.Intn(3), 1+rng.Intn(3)
		parent := image.NewNRGBA(image.Rect(0, 0, f.W+ox+2, f.H+oy+2))
		for i := range parent.Pix {
			parent.Pix[i] = byte(rng.U64())
		}
		sub := parent.SubImage(image.Rect(ox, oy, ox+f.W, oy+f.H)).(*image.NRGBA)
		for y := 0; y < f.H; y++ {
			for x := 0; x < f.W; x++ {
				p := f.Pix[(y*f.W+x)*4:]
				sub.SetNRGBA(ox+x, oy+y, color.NRGBA{R: p[0], G: p[1], B: p[2], A: p[3]})
			}
		}
		return sub
	case 2:
		im := image.NewNRGBA(image.Rect(0, 0, f.W, f.H))
		copy(im.Pix, f.Pix)
		return wrapImage{im}
	case 3: // *image.RGBA (premultiplied); f.Pix holds what color.NRGBAModel reads back from it
		im := image.NewRGBA(image.Rect(0, 0, f.W, f.H))
		copy(im.Pix, f.Raw)
		return im
	case 4: // *image.NRGBA at origin (0,0) with stride padding (sub-image of a wider parent)
		parent := image.NewNRGBA(image.Rect(0, 0, f.W+3, f.H+2))
		for i := range parent.Pix {
			parent.Pix[i] = byte(rng.U64())
		}
		sub := parent.SubImage(image.Rect(0, 0, f.W, f.H)).(*image.NRGBA)
		for y := 0; y < f.H; y++ {
			for x := 0; x < f.W; x++ {
				p := f.Pix[(y*f.W+x)*4:]
				sub.SetNRGBA(x, y, color.NRGBA{R: p[0], G: p[1], B: p[2], A: p[3]})
			}
		}
		return sub
	case 5: // generic wrapper around a sub-image with a non-zero origin
		g := *f
		g.Placement = 1
		return wrapImage{g.image(rng).(*image.NRGBA)}
	default:
		im := image.NewNRGBA(image.Rect(0, 0, f.W, f.H))
		copy(im.Pix, f.Pix)
		return im
	}
}

// rgba builds the premultiplied picture of f.Pix.
func (f *Frame) rgba() *image.RGBA {
	im := image.NewRGBA(image.Rect(0, 0, f.W, f.H))
	for i := 0; i < f.W*f.H; i++ {
		p := f.Pix[i*4:]
		im.Set(i%f.W, i/f.W, color.NRGBA{R: p[0], G: p[1], B: p[2], A: p[3]})
	}
	return im
}

// UseRGBA makes the frame an *image.RGBA input: the picture that is added is what
// color.NRGBAModel reads back from the premultiplied pixels.
func (f *Frame) UseRGBA() {
	f.Placement = 3
	im := f.rgba()
	f.Raw = append([]byte(nil), im.Pix...)
	for i := 0; i < f.W*f.H; i++ {
		c := color.NRGBAModel.Convert(im.At(i%f.W, i/f.W)).(color.NRGBA)
		f.Pix[i*4], f.Pix[i*4+1], f.Pix[i*4+2], f.Pix[i*4+3] = c.R, c.G, c.B, c.A
	}
}

func b2i(b bool) int {
	if b {
		return 1
	}
	return 0
}

// Pad returns the canvas the encoder derives from an input frame (copy to (0,0), clipped).
func (h *History) Pad(i int) []byte {
	f := &h.Frames[i]
	c := make([]byte, h.W*h.H*4)
	for y := 0; y < h.H && y < f.H; y++ {
		for x := 0; x < h.W && x < f.W; x++ {
			copy(c[(y*h.W+x)*4:(y*h.W+x)*4+4], f.Pix[(y*f.W+x)*4:])
		}
	}
	return c
}

// StepFail: which frame-encoder invocations of one AddFrame failed (the model's efail record).
type StepFail struct{ A, B, C, K bool }

// deriveOracle turns the encoder calls of one AddFrame into the model's oracle and failure
// records.  Invocations are encodeFrame calls in program order (first / dispose-none, dispose-
// background, key-frame candidate, re-encode inside encodeKeyframe); in mixed mode a successful
// primary call is followed by the alternate codec's call, whose failure means "not chosen".
func deriveOracle(calls []encCall, mixed, lossless bool) (StepOracle, StepFail) {
	type inv struct {
		size   int
		alt    bool
		failed bool
	}
	var invs []inv
	for i := 0; i < len(calls); {
		p := calls[i]
		if !p.ok {
			invs = append(invs, inv{failed: true})
			i++
			continue
		}
		if mixed && i+1 < len(calls) && calls[i+1].lossless != lossless && p.lossless == lossless {
			a := calls[i+1]
			if a.ok && a.size < p.size {
				invs = append(invs, inv{size: a.size, alt: true})
			} else {
				invs = append(invs, inv{size: p.size})
			}
			i += 2
		} else {
			invs = append(invs, inv{size: p.size})
			i++
		}
	}
	var o StepOracle
	var f StepFail
	if len(invs) >= 1 {
		o.AltA, f.A = invs[0].alt, invs[0].failed
	}
	if len(invs) >= 2 {
		o.AltB, f.B = invs[1].alt, invs[1].failed
		o.BG = !invs[1].failed && invs[1].size < invs[0].size
		best := invs[0].size
		if o.BG {
			best = invs[1].size
		}
		_ = best
		if len(invs) >= 3 {
			o.AltC, f.C = invs[2].alt, invs[2].failed
		}
		// the key frame was chosen iff encodeKeyframe ran: a fourth encodeFrame invocation
		o.Key = len(invs) >= 4
		if len(invs) >= 4 {
			f.K = invs[3].failed
			if !invs[3].failed {
				// the stored key frame comes from this encode; with an injected failure of its
				// alternate-codec call its codec can differ from the candidate's (invs[2])
				o.AltC = invs[3].alt
			}
		}
	}
	return o, f
}

// Run executes the history on the real encoder and plays the result back.
func Run(h *History, rng *Rand) (out *Outcome) {
	out = &Outcome{Faulty: h.Faulty() || h.HasRaw()}
	defer func() {
		if r := recover(); r != nil {
			out.Err = fmt.Sprintf("PANIC %v", r)
		}
	}()
	origEnc, origSimple := animation.FrameEncoderFunc, animation.SimpleEncodeFunc
	defer func() { animation.FrameEncoderFunc, animation.SimpleEncodeFunc = origEnc, origSimple }()
	var calls []encCall
	callNo := -1
	fail := map[int]bool{}
	for _, k := range h.FailCalls {
		fail[k] = true
	}
	animation.FrameEncoderFunc = func(img image.Image, lossless bool, quality int) ([]byte, error) {
		callNo++
		if fail[callNo] {
			calls = append(calls, encCall{lossless, 0, false})
			return nil, errInjected
		}
		bs, err := origEnc(img, lossless, quality)
		calls = append(calls, encCall{lossless, len(bs), err == nil})
		return bs, err
	}
	var simpleData []byte
	animation.SimpleEncodeFunc = func(img image.Image, lossless bool, quality float32) ([]byte, error) {
		bs, err := origSimple(img, lossless, quality)
		if err == nil {
			simpleData = bs
		}
		return bs, err
	}

	var buf bytes.Buffer
	e := animation.NewEncoder(&buf, h.W, h.H, &animation.EncodeOptions{
		LoopCount: h.Loop, Quality: h.Quality, Lossless: h.Lossless, AllowMixed: h.Mixed, Kmin: h.Kmin, Kmax: h.Kmax})
	if e == nil {
		out.Err = "nil"
		return
	}
	setMeta := func() {
		if h.ICC != nil {
			e.SetICCProfile(h.ICC)
		}
		if h.EXIF != nil {
			e.SetEXIF(h.EXIF)
		}
		if h.XMP != nil {
			e.SetXMP(h.XMP)
		}
	}
	prevCount := 0
	lastAcc := -1
	for i := range h.Frames {
		if h.MetaAt == i {
			setMeta()
		}
		calls = calls[:0]
		if ro := h.Frames[i].RawOp; ro != nil {
			f := &h.Frames[i]
			im := image.NewNRGBA(image.Rect(0, 0, f.W, f.H))
			copy(im.Pix, f.Pix)
			bs, err := origEnc(im, true, 75)
			if err != nil {
				out.Err = "rawencodeerr"
				return
			}
			dur := time.Duration(f.DurMS) * time.Millisecond
			if ro.ViaAddFrame {
				err = e.AddFrame(animation.NewBitstreamFrame(bs, f.W, f.H), dur)
			} else {
				bl, di := animation.BlendAlpha, animation.DisposeNone
				if ro.BlendNone {
					bl = animation.BlendNone
				}
				if ro.DispBG {
					di = animation.DisposeBackground
				}
				err = e.AddRawFrame(bs, dur, ro.X, ro.Y, bl, di)
			}
			out.Oracles = append(out.Oracles, StepOracle{})
			out.Fails = append(out.Fails, StepFail{})
			if err != nil {
				if !h.Faulty() {
					out.Err = "addrawerr"
					return
				}
				out.Rejected = append(out.Rejected, i)
				continue
			}
			fc, _, _, _, _, _, _ := animation.VerifEncoderState(e)
			for ; prevCount < fc; prevCount++ {
				out.EmitInput = append(out.EmitInput, i)
				out.EmitFiller = append(out.EmitFiller, false)
			}
			lastAcc = -1
			continue
		}
		if err := e.AddFrame(h.Frames[i].image(rng), time.Duration(h.Frames[i].DurMS)*time.Millisecond); err != nil {
			if !h.Faulty() {
				out.Err = "adderr"
				return
			}
			out.Rejected = append(out.Rejected, i)
			so, sf := deriveOracle(calls, h.Mixed, h.Lossless)
			out.Oracles = append(out.Oracles, so)
			out.Fails = append(out.Fails, sf)
			continue
		}
		so, sf := deriveOracle(calls, h.Mixed, h.Lossless)
		out.Oracles = append(out.Oracles, so)
		out.Fails = append(out.Fails, sf)
		fc, _, _, _, _, _, _ := animation.VerifEncoderState(e)
		for ; prevCount < fc; prevCount++ {
			out.EmitInput = append(out.EmitInput, i)
			out.EmitFiller = append(out.EmitFiller, lastAcc >= 0 && bytes.Equal(h.Pad(i), h.Pad(lastAcc)))
		}
		lastAcc = i
	}
	fc, since, pr, pidx, kmin, kmax, loop := animation.VerifEncoderState(e)
	out.State = fmt.Sprintf("%d %d %d,%d,%d,%d %d %d %d %d", fc, since, pr.Min.X, pr.Min.Y, pr.Max.X, pr.Max.Y, pidx, kmin, kmax, loop)
	if h.MetaAt >= len(h.Frames) {
		setMeta()
	}
	if err := e.Close(); err != nil {
		if (len(out.Rejected) == len(h.Frames) || h.HasRaw()) && buf.Len() == 0 {
			out.Err = "noframes" // every AddFrame was rejected: nothing is written
			return
		}
		out.Err = "closeerr"
		return
	}
	if err := e.Close(); err != nil { // a second Close is a no-op
		out.Err = "close2err"
		return
	}
	if e.AddFrame(h.Frames[0].image(rng), 0) == nil {
		out.Err = "addafterclose"
		return
	}
	data := buf.Bytes()
	out.Bytes = data
	out.Simple = simpleData != nil && bytes.Equal(simpleData, data)

	out.Written = true // from here on a failure means the written file does not play back
	dmx, err := mux.NewDemuxer(data)
	if err != nil {
		out.Err = "demuxerr"
		return
	}
	feat := dmx.GetFeatures()
	out.Still = !feat.HasAnimation
	out.CW, out.CH, out.Loop = feat.Width, feat.Height, dmx.LoopCount()
	for i := 0; i < dmx.NumFrames(); i++ {
		fi, err := dmx.Frame(i)
		if err != nil {
			out.Err = "frameerr"
			return
		}
		cf := ContFrame{X: fi.OffsetX, Y: fi.OffsetY, W: fi.Width, H: fi.Height,
			BlendNone: fi.BlendMode == mux.BlendNone, DispBG: fi.DisposeMode == mux.DisposeBackground,
			Dur: fi.Duration, Lossy: len(fi.Data) > 0 && fi.Data[0] != 0x2f, HasALPH: len(fi.AlphaData) > 0, Input: -1}
		if !out.Still && i < len(out.EmitInput) {
			cf.Input = out.EmitInput[i]
			cf.Filler = out.EmitFiller[i]
		} else if out.Still {
			cf.Input = lastAcc
		}
		out.Frames = append(out.Frames, cf)
	}
	// which dispose candidate a step took is visible in the file: the frame before the one it
	// emitted carries the dispose-to-background flag (size ties are the encoder's choice)
	if !out.Still {
		for k := 1; k < len(out.Frames); k++ {
			f := out.Frames[k]
			if f.Input >= 0 && f.Input < len(out.Oracles) && !f.Filler && h.Frames[f.Input].RawOp == nil {
				out.Oracles[f.Input].BG = out.Frames[k-1].DispBG
			}
		}
	}
	an, err := animation.DecodeBytes(data)
	if err != nil {
		out.Err = "decodeerr"
		return
	}
	out.ICC, out.EXIF, out.XMP = an.ICC, an.EXIF, an.XMP
	if err := an.DecodeFrames(); err != nil {
		out.Err = "decodeframeserr"
		return
	}
	for i := range an.Frames {
		if im, ok := an.Frames[i].Image.(*image.NRGBA); ok && i < len(out.Frames) && out.Still {
			// a still in the extended layout: the demuxer reports the canvas size as the frame size;
			// the frame picture is what the bitstream decodes to
			out.Frames[i].W, out.Frames[i].H = im.Rect.Dx(), im.Rect.Dy()
		}
		if im, ok := an.Frames[i].Image.(*image.NRGBA); ok && i < len(out.Frames) && im.Stride == 4*im.Rect.Dx() {
			out.Frames[i].Pix = append([]byte(nil), im.Pix...)
		}
	}
	d, err := animation.NewAnimDecoder(an)
	if err != nil {
		out.Err = "animdecerr"
		return
	}
	for d.HasNext() {
		s, dur, err := d.NextFrame()
		if err != nil {
			out.Err = "nextframeerr"
			return
		}
		out.Canvases = append(out.Canvases, append([]byte(nil), s.Pix...))
		out.Durations = append(out.Durations, int(dur/time.Millisecond))
	}
	return
}

// CodecExact checks the frame-codec hypothesis of the theorems on the frames actually
// written: every decoded frame picture equals the picture that was handed to the codec
// (the frame's rectangle of the canvas of its AddFrame call) - exactly up to colour under
// alpha 0 for VP8L frames, in the alpha channel for VP8 frames.  Returns the index of the
// first frame violating it, or -1.  Frames stored without ALPH are not judged here.
func (o *Outcome) CodecExact(h *History) int {
	for k, f := range o.Frames {
		if f.Pix == nil || f.Input < 0 || len(f.Pix) != f.W*f.H*4 {
			continue
		}
		src := h.Pad(f.Input)
		raw := f.Input < len(h.Frames) && h.Frames[f.Input].RawOp != nil
		for y := 0; y < f.H; y++ {
			for x := 0; x < f.W; x++ {
				var want []byte
				if raw {
					rf := &h.Frames[f.Input]
					if x >= rf.W || y >= rf.H {
						continue
					}
					want = rf.Pix[(y*rf.W+x)*4 : (y*rf.W+x)*4+4]
				} else if f.Filler {
					want = []byte{0, 0, 0, 0}
				} else if f.X+x < h.W && f.Y+y < h.H {
					want = src[((f.Y+y)*h.W+f.X+x)*4 : ((f.Y+y)*h.W+f.X+x)*4+4]
				} else {
					continue
				}
				got := f.Pix[(y*f.W+x)*4 : (y*f.W+x)*4+4]
				if want[3] != 0 && want[3] != 255 && got[3] == 0 {
					// a kept pixel cleared by clearKeptPixels (legitimate only in a blended sub-frame;
					// whether the frame's blend mode is right is judged by the played pictures)
					continue
				}
				if f.Lossy {
					if f.HasALPH && got[3] != want[3] {
						return k
					}
				} else if !(got[3] == 0 && want[3] == 0) && !bytes.Equal(got, want) {
					return k
				}
			}
		}
	}
	return -1
}

// NormPx zeroes the colour of fully transparent pixels.
func NormPx(c []byte) []byte {
	o := append([]byte(nil), c...)
	for i := 0; i+3 < len(o); i += 4 {
		if o[i+3] == 0 {
			o[i], o[i+1], o[i+2] = 0, 0, 0
		}
	}
	return o
}

// AlphaPlane extracts the alpha bytes.
func AlphaPlane(c []byte) []byte {
	o := make([]byte, len(c)/4)
	for i := range o {
		o[i] = c[i*4+3]
	}
	return o
}

// CaseLine renders the history with the recorded oracle for the model runner.
func (h *History) CaseLine(mode string, o *Outcome) string {
	var sb strings.Builder
	kind := "enc"
	if h.Faulty() {
		kind = "ence"
	}
	if h.HasRaw() {
		kind = "encr"
	}
	fmt.Fprintf(&sb, "%s %s %d %d %d %d %d %d %d %d %d %d %d", kind, mode, h.W, h.H, h.Loop, h.Kmin, h.Kmax,
		b2i(h.Lossless), b2i(h.Mixed), h.Quality, b2i(h.HasMeta()), b2i(o.Simple), len(h.Frames))
	_ = kind
	for i, f := range h.Frames {
		var so StepOracle
		if i < len(o.Oracles) {
			so = o.Oracles[i]
		}
		px := "-"
		if len(f.Pix) > 0 {
			px = hex.EncodeToString(f.Pix)
		}
		if h.HasRaw() {
			if ro := f.RawOp; ro != nil {
				x, y, bn, db := ro.X, ro.Y, ro.BlendNone, ro.DispBG
				if ro.ViaAddFrame {
					x, y, bn, db = 0, 0, false, false
				}
				fmt.Fprintf(&sb, " R %d %d %d %d %d %d %d %s", x, y, f.W, f.H, f.DurMS, b2i(bn), b2i(db), px)
				continue
			}
			var sf StepFail
			if i < len(o.Fails) {
				sf = o.Fails[i]
			}
			fmt.Fprintf(&sb, " A %d %d %d %d %d %d %d %d %d %d %d %d %s", f.W, f.H, f.DurMS, b2i(so.BG), b2i(so.Key), b2i(so.AltA), b2i(so.AltB), b2i(so.AltC),
				b2i(sf.A), b2i(sf.B), b2i(sf.C), b2i(sf.K), px)
			continue
		}
		if h.Faulty() {
			var sf StepFail
			if i < len(o.Fails) {
				sf = o.Fails[i]
			}
			fmt.Fprintf(&sb, " %d %d %d %d %d %d %d %d %d %d %d %d %s", f.W, f.H, f.DurMS, b2i(so.BG), b2i(so.Key), b2i(so.AltA), b2i(so.AltB), b2i(so.AltC),
				b2i(sf.A), b2i(sf.B), b2i(sf.C), b2i(sf.K), px)
			continue
		}
		fmt.Fprintf(&sb, " %d %d %d %d %d %d %d %d %s", f.W, f.H, f.DurMS, b2i(so.BG), b2i(so.Key), b2i(so.AltA), b2i(so.AltB), b2i(so.AltC), px)
	}
	return sb.String()
}

// ImplLine is the canonical result of the implementation, in the runner's format.
func (o *Outcome) ImplLine(mode string) string {
	if o.Faulty {
		var r []string
		for _, i := range o.Rejected {
			r = append(r, fmt.Sprint(i))
		}
		return "rej:" + strings.Join(r, ",") + " " + o.implLine(mode)
	}
	return o.implLine(mode)
}

func (o *Outcome) implLine(mode string) string {
	if o.Err != "" {
		return o.Err
	}
	kind := "anim"
	if o.Still {
		kind = "still"
	}
	var recs, cs []string
	for _, f := range o.Frames {
		recs = append(recs, fmt.Sprintf("%d,%d,%d,%d,%d,%d,%d,%d", f.X, f.Y, f.W, f.H, b2i(f.BlendNone), b2i(f.DispBG), f.Dur, b2i(f.Lossy)))
	}
	for _, c := range o.Canvases {
		if mode == "st" {
			continue
		}
		if mode == "al" {
			cs = append(cs, hex.EncodeToString(AlphaPlane(c)))
		} else {
			cs = append(cs, hex.EncodeToString(NormPx(c)))
		}
	}
	return fmt.Sprintf("%s %d %d %d %d %s %s", kind, o.CW, o.CH, o.Loop, len(o.Frames), strings.Join(recs, ";"), strings.Join(cs, ","))
}

// Group is one picture with its display time.
type Group struct {
	Canvas []byte
	Dur    int
	First  int // index of the first member
}

// Collapse merges consecutive equal canvases (after key()) and sums their durations.
func Collapse(canvases [][]byte, durs []int, key func([]byte) []byte) []Group {
	var gs []Group
	for i, c := range canvases {
		k := key(c)
		if n := len(gs); n > 0 && bytes.Equal(gs[n-1].Canvas, k) {
			gs[n-1].Dur += durs[i]
			continue
		}
		gs = append(gs, Group{k, durs[i], i})
	}
	return gs
}

// ClampLoop is the documented clamping of EncodeOptions.LoopCount.
func ClampLoop(v int) int {
	if v < 0 {
		return 0
	}
	if v > 65535 {
		return 65535
	}
	return v
}

