package main

// C07 — lossy encoding preserves the alpha channel exactly by default.
//
// Direct evaluation through the public API (Encode lossy -> Decode: alpha equal /
// opaque stays opaque / quantised alpha has at most the documented number of
// levels and keeps min and max) and kernel-level correspondence of the ALPH codec
// (filters, unfilters, DecodeAlpha on raw chunks, encodeAlphaInternal method 0)
// against the extracted Coq model.

import (
	"bytes"
	"encoding/binary"
	"encoding/hex"
	"fmt"
	"image"
	"image/color"

	webp "github.com/deepteams/webp"

	. "verifharness/hlib"
)

type alphaPattern int

const (
	patOpaque alphaPattern = iota
	patBinary
	patFewLevels
	patGradient
	patNoise
	patOneTransparent
	numPatterns
)

var patNames = []string{"opaque", "binary", "few-levels", "gradient", "noise", "one-transparent"}

func makeAlpha(rng *Rand, pat alphaPattern, w, h int) []byte {
	a := make([]byte, w*h)
	switch pat {
	case patOpaque:
		for i := range a {
			a[i] = 255
		}
	case patBinary:
		cx, cy, r := rng.Intn(w+1), rng.Intn(h+1), 1+rng.Intn(w+h)
		for y := 0; y < h; y++ {
			for x := 0; x < w; x++ {
				if (x-cx)*(x-cx)+(y-cy)*(y-cy) < r*r/4+1 {
					a[y*w+x] = 255
				}
			}
		}
	case patFewLevels:
		n := 2 + rng.Intn(15)
		lv := make([]byte, n)
		for i := range lv {
			lv[i] = byte(rng.Intn(256))
		}
		bs := 1 + rng.Intn(4)
		for y := 0; y < h; y++ {
			for x := 0; x < w; x++ {
				a[y*w+x] = lv[((x/bs)*7+(y/bs)*3+rng.Intn(2))%n]
			}
		}
	case patGradient:
		for y := 0; y < h; y++ {
			for x := 0; x < w; x++ {
				a[y*w+x] = byte((x*255/max(1, w-1) + y*255/max(1, h-1)) / 2)
			}
		}
	case patNoise:
		for i := range a {
			a[i] = byte(rng.U64())
		}
	case patOneTransparent:
		for i := range a {
			a[i] = 255
		}
		a[rng.Intn(len(a))] = byte(rng.Pick(0, 1, 254, 128))
	}
	return a
}

func makeImage(rng *Rand, w, h int, alpha []byte) *image.NRGBA {
	im := image.NewNRGBA(image.Rect(0, 0, w, h))
	mode := rng.Intn(3)
	for y := 0; y < h; y++ {
		for x := 0; x < w; x++ {
			var r, g, b byte
			switch mode {
			case 0:
				r, g, b = byte(x*9), byte(y*7), byte(x+y)
			case 1:
				r, g, b = byte(rng.U64()), byte(rng.U64()), byte(rng.U64())
			default:
				r, g, b = 200, 40, 90
			}
			im.SetNRGBA(x, y, color.NRGBA{r, g, b, alpha[y*w+x]})
		}
	}
	return im
}

// placeImage stores the same picture differently: 0 NRGBA at the origin, 1 NRGBA
// sub-image of a larger noisy parent (non-zero origin, stride padding), 2 premultiplied
// RGBA at the origin, 3 premultiplied RGBA sub-image. The alpha channel is the same in all.
func placeImage(rng *Rand, src *image.NRGBA, placement int) image.Image {
	b := src.Bounds()
	w, h := b.Dx(), b.Dy()
	switch placement {
	case 1:
		ox, oy := 1+rng.Intn(5), 1+rng.Intn(5)
		parent := image.NewNRGBA(image.Rect(0, 0, w+ox+1+rng.Intn(6), h+oy+1+rng.Intn(3)))
		for i := range parent.Pix {
			parent.Pix[i] = byte(rng.U64())
		}
		sub := parent.SubImage(image.Rect(ox, oy, ox+w, oy+h)).(*image.NRGBA)
		for y := 0; y < h; y++ {
			for x := 0; x < w; x++ {
				sub.SetNRGBA(ox+x, oy+y, src.NRGBAAt(x, y))
			}
		}
		return sub
	case 2, 3:
		ox, oy := 0, 0
		pw, ph := w, h
		if placement == 3 {
			ox, oy = 1+rng.Intn(5), 1+rng.Intn(5)
			pw, ph = w+ox+1+rng.Intn(6), h+oy+1+rng.Intn(3)
		}
		parent := image.NewRGBA(image.Rect(0, 0, pw, ph))
		for i := range parent.Pix {
			parent.Pix[i] = byte(rng.U64())
		}
		for y := 0; y < h; y++ {
			for x := 0; x < w; x++ {
				p := src.NRGBAAt(x, y)
				a := uint32(p.A)
				parent.SetRGBA(ox+x, oy+y, color.RGBA{uint8(uint32(p.R) * a / 255), uint8(uint32(p.G) * a / 255), uint8(uint32(p.B) * a / 255), p.A})
			}
		}
		if placement == 3 {
			return parent.SubImage(image.Rect(ox, oy, ox+w, oy+h))
		}
		return parent
	}
	return src
}

// alphaOf returns the alpha plane of a decoded image (255 for images without alpha).
func alphaOf(im image.Image) []byte {
	b := im.Bounds()
	out := make([]byte, b.Dx()*b.Dy())
	switch t := im.(type) {
	case *image.NRGBA:
		for y := 0; y < b.Dy(); y++ {
			for x := 0; x < b.Dx(); x++ {
				out[y*b.Dx()+x] = t.Pix[t.PixOffset(b.Min.X+x, b.Min.Y+y)+3]
			}
		}
	case *image.YCbCr:
		for i := range out {
			out[i] = 255
		}
	default:
		for y := 0; y < b.Dy(); y++ {
			for x := 0; x < b.Dx(); x++ {
				_, _, _, a := im.At(b.Min.X+x, b.Min.Y+y).RGBA()
				out[y*b.Dx()+x] = byte(a >> 8)
			}
		}
	}
	return out
}

// findChunk walks the RIFF chunks of a WebP file.
func findChunk(file []byte, fourcc string) ([]byte, bool) {
	if len(file) < 12 {
		return nil, false
	}
	p := 12
	for p+8 <= len(file) {
		id := string(file[p : p+4])
		sz := int(binary.LittleEndian.Uint32(file[p+4 : p+8]))
		if p+8+sz > len(file) {
			return nil, false
		}
		if id == fourcc {
			return file[p+8 : p+8+sz], true
		}
		p += 8 + sz + sz&1
	}
	return nil, false
}

func alphaLevelsDoc(q int) int {
	if q <= 70 {
		return 2 + q/5
	}
	return 16 + (q-70)*8
}

func distinct(a []byte) (n int, lo, hi int) {
	var seen [256]bool
	lo, hi = 255, 0
	for _, v := range a {
		if !seen[v] {
			seen[v] = true
			n++
		}
		if int(v) < lo {
			lo = int(v)
		}
		if int(v) > hi {
			hi = int(v)
		}
	}
	return
}

type c07Case struct {
	W, H     int
	Pattern  string
	Quality  float32
	Method   int
	AComp    int
	AFilt    int
	AQual    int
	Exact    bool
	AlphaHex string
}

func publicCase(c *Ctx, rng *Rand, w, h int, pat alphaPattern, method, acomp, afilt, aqual int, exact bool) {
	alpha := makeAlpha(rng, pat, w, h)
	if n, lo, _ := distinct(alpha); n == 1 && lo == 255 {
		pat = patOpaque // the drawn mask happens to cover everything
	}
	var im image.Image = makeImage(rng, w, h, alpha)
	placement := rng.Intn(4)
	im = placeImage(rng, im.(*image.NRGBA), placement)
	c.Count(fmt.Sprintf("placement:%d", placement))
	q := float32(rng.Pick(0, 30, 75, 90, 100))
	opts := &webp.EncoderOptions{Lossless: false, Quality: q, Method: method, AlphaCompression: acomp,
		AlphaFiltering: afilt, AlphaQuality: aqual, Exact: exact,
		SNSStrength: -1, FilterStrength: -1, FilterType: -1, Segments: -1, Pass: -1, QMax: -1}
	cs := c07Case{w, h, patNames[pat], q, method, acomp, afilt, aqual, exact, hex.EncodeToString(alpha)}
	c.D.Evaluations++
	c.Count("pattern:" + patNames[pat])
	c.Count(fmt.Sprintf("method:%d", method))
	c.Count(fmt.Sprintf("acomp:%d", acomp))
	c.Count(fmt.Sprintf("afilt:%d", afilt))
	exactMode := aqual < 0 || aqual == 100
	if exactMode {
		c.Count("aq:exact")
	} else {
		c.Count("aq:quantised")
	}
	var buf bytes.Buffer
	var err error
	func() {
		defer func() {
			if r := recover(); r != nil {
				err = fmt.Errorf("PANIC %v", r)
			}
		}()
		err = webp.Encode(&buf, im, opts)
	}()
	if err != nil {
		c.Violate("encode-failed", "Encode of a valid image with valid alpha options failed: "+err.Error(), cs)
		return
	}
	var dec image.Image
	func() {
		defer func() {
			if r := recover(); r != nil {
				err = fmt.Errorf("PANIC %v", r)
			}
		}()
		dec, err = webp.Decode(bytes.NewReader(buf.Bytes()))
	}()
	if err != nil {
		c.Violate("decode-failed", "Decode of the encoder's own output failed: "+err.Error(), cs)
		return
	}
	if dec.Bounds().Dx() != w || dec.Bounds().Dy() != h {
		c.Violate("dims", "decoded dimensions differ", cs)
		return
	}
	got := alphaOf(dec)
	nSrc, lo, hi := distinct(alpha)
	levelClass := "many"
	if nSrc <= 16 {
		levelClass = "le16"
	}
	c.Nontrivial(fmt.Sprintf("%s/m%d/c%d/f%d/q%v/%s/%v/p%d", patNames[pat], method, acomp, afilt, exactMode, levelClass, exact, placement))
	alphChunk, hasALPH := findChunk(buf.Bytes(), "ALPH")
	if pat == patOpaque {
		if hasALPH {
			c.Count("opaque-with-ALPH")
		}
		for _, v := range got {
			if v != 255 {
				c.Violate("opaque-not-opaque", "image without transparency decodes with alpha != 255", cs)
				return
			}
		}
		return
	}
	if hasALPH && len(alphChunk) > 0 {
		c.Count(fmt.Sprintf("alph-header:comp%d-filt%d-pre%d", alphChunk[0]&3, (alphChunk[0]>>2)&3, (alphChunk[0]>>4)&3))
		// chunk-level: DecodeAlpha(chunk) and, for raw chunks, the Coq model
		plane, derr := webp.VerifDecodeAlpha(alphChunk, w, h)
		if derr == nil && alphChunk[0]&3 == 0 {
			c.Case(fmt.Sprintf("dec %d %d %s", w, h, hex.EncodeToString(alphChunk)), hex.EncodeToString(plane))
		}
	} else {
		c.Violate("no-alph", "image with transparency was written without an ALPH chunk", cs)
		return
	}
	if exactMode {
		if !bytes.Equal(got, alpha) {
			nbad := 0
			for i := range got {
				if got[i] != alpha[i] {
					nbad++
				}
			}
			c.Violate(fmt.Sprintf("alpha-exact:method%d:levels-%s", method, levelClass),
				fmt.Sprintf("decoded alpha differs from source alpha in %d of %d pixels (AlphaQuality 100)", nbad, len(got)), cs)
		}
		return
	}
	// quantised: at most the documented number of levels, min and max kept
	nGot, glo, ghi := distinct(got)
	if nGot > alphaLevelsDoc(aqual) && nGot > nSrc {
		c.Violate("alpha-levels", fmt.Sprintf("decoded alpha has %d levels, documented maximum %d", nGot, alphaLevelsDoc(aqual)), cs)
	}
	if nGot > alphaLevelsDoc(aqual) && nSrc > alphaLevelsDoc(aqual) {
		c.Violate("alpha-levels", fmt.Sprintf("decoded alpha has %d levels, documented maximum %d", nGot, alphaLevelsDoc(aqual)), cs)
	}
	if glo != lo || ghi != hi {
		c.Violate("alpha-minmax", fmt.Sprintf("min/max alpha %d/%d became %d/%d", lo, hi, glo, ghi), cs)
	}
}

func kernelCases(c *Ctx, n int) {
	for i := 0; i < n; i++ {
		rng := c.Rng.Fork()
		w, h := rng.Range(1, 9), rng.Range(1, 7)
		if i%17 == 0 {
			w, h = rng.Range(1, 40), rng.Range(1, 30)
		}
		pat := alphaPattern(1 + rng.Intn(int(numPatterns)-1))
		if rng.Intn(3) == 0 {
			pat = patNoise
		}
		plane := makeAlpha(rng, pat, w, h)
		hx := hex.EncodeToString(plane)
		f := rng.Intn(4)
		// forward filter
		c.Case(fmt.Sprintf("filt %d %d %d %s", f, w, h, hx), hex.EncodeToString(webp.VerifAlphaFilter(f, plane, w, h)))
		// inverse filter on arbitrary data
		c.Case(fmt.Sprintf("unfilt %d %d %d %s", f, w, h, hx), hex.EncodeToString(webp.VerifAlphaUnfilter(f, plane, w, h)))
		// encodeAlphaInternal, method 0
		red := rng.Intn(2)
		enc, err := webp.VerifEncodeAlphaInternal(plane, w, h, 0, f, red == 1, 4)
		res := "ERR"
		if err == nil {
			res = hex.EncodeToString(enc)
		}
		c.Case(fmt.Sprintf("enc0 %d %d %d %d %s", f, w, h, red, hx), res)
		// DecodeAlpha on hand-made chunks: every header byte class, short/long payloads
		hdr := byte(rng.Intn(256))
		if rng.Intn(2) == 0 {
			hdr &^= 3 // raw
		}
		plen := w * h
		switch rng.Intn(5) {
		case 0:
			plen = rng.Intn(w*h + 1)
		case 1:
			plen = w*h + rng.Intn(4)
		}
		chunk := append([]byte{hdr}, rng.Bytes(plen)...)
		if hdr&3 != 1 { // lossless payloads are the VP8L coder's business (C03)
			out, err := webp.VerifDecodeAlpha(chunk, w, h)
			r := "ERR"
			if err == nil {
				r = hex.EncodeToString(out)
			}
			c.Case(fmt.Sprintf("dec %d %d %s", w, h, hex.EncodeToString(chunk)), r)
		}
		// round trip through the real codec (method 1 goes through the VP8L coder)
		for _, method := range []int{0, 1} {
			effort := rng.Intn(7)
			ch, err := webp.VerifEncodeAlphaInternal(plane, w, h, method, f, false, effort)
			if err != nil {
				c.Violate("kernel-encode-failed", err.Error(), map[string]any{"w": w, "h": h, "f": f, "method": method, "plane": hx})
				continue
			}
			back, err := webp.VerifDecodeAlpha(ch, w, h)
			c.D.Evaluations++
			if err != nil || !bytes.Equal(back, plane) {
				n, _, _ := distinct(plane)
				lc := "many"
				if n <= 16 {
					lc = "le16"
				}
				c.Violate(fmt.Sprintf("kernel-roundtrip:method%d:effort%d:levels-%s", method, effort, lc),
					"DecodeAlpha(encodeAlphaInternal(plane)) != plane",
					map[string]any{"w": w, "h": h, "f": f, "method": method, "effort": effort, "plane": hx})
			}
		}
		// quantizeLevels facts used as hypotheses by C07_quantize_keeps_min_max_partial
		nl := rng.Pick(2, 3, 9, 16, 17, 24, 100, 256)
		qd := webp.VerifQuantizeLevels(plane, w, h, nl)
		nIn, lo, hi := distinct(plane)
		nOut, olo, ohi := distinct(qd)
		c.D.Evaluations++
		if nIn > nl {
			if nOut > nl {
				c.Violate("quantize-levels", fmt.Sprintf("quantizeLevels(%d) produced %d levels", nl, nOut), map[string]any{"w": w, "h": h, "n": nl, "plane": hx})
			}
			if olo != lo || ohi != hi {
				c.Violate("quantize-minmax", fmt.Sprintf("quantizeLevels(%d): min/max %d/%d became %d/%d", nl, lo, hi, olo, ohi), map[string]any{"w": w, "h": h, "n": nl, "plane": hx})
			}
			// output must be a function of the input value
			var m [256]int
			for i := range m {
				m[i] = -1
			}
			for i, v := range plane {
				if m[v] >= 0 && m[v] != int(qd[i]) {
					c.Violate("quantize-not-a-map", "same input level mapped to two outputs", map[string]any{"w": w, "h": h, "n": nl, "plane": hx})
					break
				}
				m[v] = int(qd[i])
			}
		} else if !bytes.Equal(qd, plane) {
			// not a clause of C07 as stated (only: min and max kept, level count bounded): counted, not reported
			c.Count("observation:quantize-changed-a-plane-with-few-levels")
		}
		c.Count("kernel")
	}
	// the whole EncodeAlpha path (filter competition of applyFiltersAndEncode incl. raw fallbacks and
	// size ties between trials) on many small planes: decode must give the plane back
	nfull := 9000
	if c.Thorough() {
		nfull = 60000
	}
	for i := 0; i < nfull; i++ {
		rng := c.Rng.Fork()
		w, h := rng.Range(1, 10), rng.Range(1, 10)
		pat := alphaPattern(1 + rng.Intn(int(numPatterns)-1))
		plane := makeAlpha(rng, pat, w, h)
		mode := rng.Pick(5, 5, 4, 0, 1, 2, 3) // best, fast, explicit filters
		effort := rng.Intn(7)
		ch, err := webp.VerifEncodeAlpha(plane, w, h, 100, 1, mode, effort)
		c.D.Evaluations++
		if err != nil {
			c.Violate("full-path-encode-failed", err.Error(), map[string]any{"w": w, "h": h, "mode": mode, "plane": hex.EncodeToString(plane)})
			continue
		}
		back, err := webp.VerifDecodeAlpha(ch, w, h)
		if err != nil || !bytes.Equal(back, plane) {
			c.Violate(fmt.Sprintf("full-path-roundtrip:mode%d", mode), "DecodeAlpha(EncodeAlpha(plane, AlphaQuality 100)) != plane",
				map[string]any{"w": w, "h": h, "mode": mode, "effort": effort, "plane": hex.EncodeToString(plane), "chunk": hex.EncodeToString(ch)})
		}
		c.Count(fmt.Sprintf("full-path:hdr-comp%d-filt%d", ch[0]&3, (ch[0]>>2)&3))
	}
	for q := 0; q < 100; q++ {
		c.Case(fmt.Sprintf("levels %d", q), fmt.Sprint(alphaLevelsDoc(q)))
	}
}

func main() {
	Main("c07", func(c *Ctx) {
		c.D.Rule = "public API: image sizes 1..48, six alpha patterns x Method 0..6 x AlphaCompression {0,1,-1} x AlphaFiltering {0,1,2,-1} x AlphaQuality {exact: -1,100; quantised: 0,35,70,71,99} x Exact; kernel level: filters/unfilters/raw chunks/encodeAlphaInternal/quantizeLevels on random planes. non-trivial+distinct = distinct (pattern, method, compression, filtering, exact-or-quantised, <=16 levels?, Exact) signature"
		n, nk := 420, 400
		if c.Thorough() {
			n, nk = 6000, 5000
		}
		sizes := [][2]int{{1, 1}, {2, 3}, {7, 5}, {16, 16}, {17, 33}, {33, 17}, {40, 24}, {48, 48}}
		aq := []int{-1, 100, 100, -1, 0, 35, 70, 71, 99}
		for i := 0; i < n; i++ {
			rng := c.Rng.Fork()
			sz := sizes[rng.Intn(len(sizes))]
			if rng.Intn(4) == 0 {
				sz = [2]int{rng.Range(1, 48), rng.Range(1, 48)}
			}
			pat := alphaPattern(i % int(numPatterns))
			method := (i / int(numPatterns)) % 7
			publicCase(c, rng, sz[0], sz[1], pat, method, rng.Pick(0, 1, -1), rng.Pick(0, 1, 2, -1), aq[rng.Intn(len(aq))], rng.Bool())
		}
		kernelCases(c, nk)
		c.Sample(map[string]any{"public_case": "lossy Encode -> Decode alpha comparison", "example": "17x33 few-levels mask, Method 6, AlphaCompression 1, AlphaFiltering 2, AlphaQuality 100"})
		c.Sample("filt 3 3 3 00ff11c80380ffff01")
	})
}
