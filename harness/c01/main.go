package main

// C01 — lossless encode/decode round trip reproduces every pixel exactly.
//
// Direct evaluation: Go Encode -> Decode over sizes x content classes x alpha
// patterns x source types x Quality x Method x Exact x metadata subsets; the decoded
// pixels must equal the source read through color.NRGBAModel (alpha-0 pixels
// become transparent black unless Exact).
// Correspondence: the extracted specification decoder (Vp8lSpec.decode) applied to
// the bytes Go wrote must equal Go's Decode (and hence the expected pixels).
// A complete sweep of all valid (channel, alpha) pairs through the *image.RGBA fast
// path is compared with the colour-model formula.

import (
	"bytes"
	"encoding/hex"
	"fmt"
	"image"
	"image/color"
	"image/draw"
	"strings"

	webp "github.com/deepteams/webp"

	. "verifharness/hlib"
)

type rtSpec struct {
	W, H    int
	Content string // photo, noise, flat, pal1, pal2, pal4, pal16, pal256
	Alpha   string // opaque, binary, graded, zero-hidden
	Kind    string // nrgba, rgba, gray, paletted, nrgba64, sub-nrgba, sub-rgba, generic
	Quality int
	Method  int
	Exact   bool
	Meta    int // bit 0 ICC, bit 1 EXIF, bit 2 XMP
}

type wrapImage struct{ im image.Image }

func (w wrapImage) ColorModel() color.Model { return w.im.ColorModel() }
func (w wrapImage) Bounds() image.Rectangle { return w.im.Bounds() }
func (w wrapImage) At(x, y int) color.Color { return w.im.At(x, y) }

func paletteSize(content string) int {
	switch content {
	case "pal1":
		return 1
	case "pal2":
		return 2
	case "pal4":
		return 4
	case "pal16":
		return 16
	case "pal256":
		return 256
	}
	return 0
}

// logical content: non-premultiplied pixels
func makeContent(rng *Rand, s rtSpec) []color.NRGBA {
	px := make([]color.NRGBA, s.W*s.H)
	n := paletteSize(s.Content)
	if n > 1 && s.Content != "pal1" {
		// 3-4, 5-16, 17-256 classes: draw the count inside the class
		lo := map[int]int{2: 2, 4: 3, 16: 5, 256: 17}[n]
		n = rng.Range(lo, n)
	}
	alphaOf := func(x, y int) uint8 {
		switch s.Alpha {
		case "binary":
			if (x/3+y/2)%3 == 0 || rng.Intn(9) == 0 {
				return 0
			}
			return 255
		case "graded":
			return uint8(rng.Intn(256))
		case "zero-hidden":
			if rng.Intn(2) == 0 {
				return 0
			}
			return uint8(rng.Pick(1, 128, 254, 255))
		}
		return 255
	}
	var pal []color.NRGBA
	for i := 0; i < n; i++ {
		pal = append(pal, color.NRGBA{uint8(rng.U64()), uint8(rng.U64()), uint8(rng.U64()), 255})
	}
	flat := color.NRGBA{uint8(rng.U64()), uint8(rng.U64()), uint8(rng.U64()), 255}
	style := rng.Intn(3)
	for y := 0; y < s.H; y++ {
		for x := 0; x < s.W; x++ {
			var c color.NRGBA
			switch {
			case n > 0:
				k := 0
				switch style {
				case 0:
					k = rng.Intn(n)
				case 1:
					k = (x/3 + y/2) % n
				default:
					k = (x*y + x/4) % n
					if rng.Intn(8) == 0 {
						k = rng.Intn(n)
					}
				}
				c = pal[k]
			case s.Content == "flat":
				c = flat
			case s.Content == "noise":
				c = color.NRGBA{uint8(rng.U64()), uint8(rng.U64()), uint8(rng.U64()), 255}
			default: // photographic-like: gradients + a little noise
				d := rng.Intn(6)
				c = color.NRGBA{uint8(x*5 + y*2 + d), uint8(x*2 + y*6 + d/2), uint8(x + y*3 + d/3), 255}
			}
			c.A = alphaOf(x, y)
			px[y*s.W+x] = c
		}
	}
	return px
}

func makeSource(rng *Rand, s rtSpec, px []color.NRGBA) image.Image {
	w, h := s.W, s.H
	at := func(x, y int) color.NRGBA { return px[y*w+x] }
	ox, oy := 0, 0
	pw, ph := w, h
	if strings.HasPrefix(s.Kind, "sub-") || s.Kind == "generic-offset" {
		ox, oy = rng.Range(1, 3), rng.Range(1, 3)
		pw, ph = w+ox+rng.Intn(3), h+oy+rng.Intn(3)
	}
	if img := makeStdSub(rng, s, at, ox, oy, pw, ph); img != nil {
		return img
	}
	switch s.Kind {
	case "nrgba", "sub-nrgba", "generic":
		im := image.NewNRGBA(image.Rect(0, 0, pw, ph))
		for i := range im.Pix {
			im.Pix[i] = uint8(rng.U64())
		}
		for y := 0; y < h; y++ {
			for x := 0; x < w; x++ {
				im.SetNRGBA(ox+x, oy+y, at(x, y))
			}
		}
		if s.Kind == "sub-nrgba" {
			return im.SubImage(image.Rect(ox, oy, ox+w, oy+h))
		}
		if s.Kind == "generic" {
			return wrapImage{im}
		}
		return im
	case "rgba", "sub-rgba":
		im := image.NewRGBA(image.Rect(0, 0, pw, ph))
		for y := 0; y < h; y++ {
			for x := 0; x < w; x++ {
				c := at(x, y)
				a := uint32(c.A)
				// a valid premultiplied pixel (channel <= alpha), not necessarily the rounding of c
				pm := func(v uint8) uint8 {
					r := (uint32(v)*a + uint32(rng.Intn(255))) / 255
					if r > a {
						r = a
					}
					return uint8(r)
				}
				im.SetRGBA(ox+x, oy+y, color.RGBA{pm(c.R), pm(c.G), pm(c.B), c.A})
			}
		}
		if s.Kind == "sub-rgba" {
			return im.SubImage(image.Rect(ox, oy, ox+w, oy+h))
		}
		return im
	case "gray":
		im := image.NewGray(image.Rect(0, 0, w, h))
		for y := 0; y < h; y++ {
			for x := 0; x < w; x++ {
				im.SetGray(x, y, color.Gray{at(x, y).R})
			}
		}
		return im
	case "paletted":
		var pal color.Palette
		idx := map[color.NRGBA]int{}
		im := image.NewPaletted(image.Rect(0, 0, w, h), nil)
		for y := 0; y < h; y++ {
			for x := 0; x < w; x++ {
				c := at(x, y)
				k, ok := idx[c]
				if !ok {
					if len(pal) < 256 {
						k = len(pal)
						pal = append(pal, c)
						idx[c] = k
					} else {
						k = int(c.R) % 256
					}
				}
				im.Pix[y*im.Stride+x] = uint8(k)
			}
		}
		im.Palette = pal
		return im
	default: // nrgba64
		im := image.NewNRGBA64(image.Rect(0, 0, w, h))
		for y := 0; y < h; y++ {
			for x := 0; x < w; x++ {
				c := at(x, y)
				lo := func() uint16 { return uint16(rng.Intn(256)) }
				im.SetNRGBA64(x, y, color.NRGBA64{uint16(c.R)<<8 | lo(), uint16(c.G)<<8 | lo(), uint16(c.B)<<8 | lo(), uint16(c.A)<<8 | lo()})
			}
		}
		return im
	}
}

// makeStdSub: sub-images (Bounds().Min != (0,0)) of every standard-library image type that implements
// SubImage and has no fast path in the encoder, plus a custom image.Image with offset bounds.  What the
// round trip must return is defined by img.At over img.Bounds() (see expected), so the logical pixels only
// steer the content class.
func makeStdSub(rng *Rand, s rtSpec, at func(x, y int) color.NRGBA, ox, oy, pw, ph int) image.Image {
	w, h := s.W, s.H
	pr := image.Rect(0, 0, pw, ph)
	sr := image.Rect(ox, oy, ox+w, oy+h)
	var parent draw.Image
	switch s.Kind {
	case "sub-gray":
		parent = image.NewGray(pr)
	case "sub-gray16":
		parent = image.NewGray16(pr)
	case "sub-alpha":
		parent = image.NewAlpha(pr)
	case "sub-alpha16":
		parent = image.NewAlpha16(pr)
	case "sub-cmyk":
		parent = image.NewCMYK(pr)
	case "sub-nrgba64":
		parent = image.NewNRGBA64(pr)
	case "sub-rgba64":
		parent = image.NewRGBA64(pr)
	case "sub-paletted":
		pal := color.Palette{}
		for i := 0; i < rng.Range(1, 256); i++ {
			pal = append(pal, color.NRGBA{uint8(rng.U64()), uint8(rng.U64()), uint8(rng.U64()), uint8(rng.Pick(0, 128, 255, 255))})
		}
		parent = image.NewPaletted(pr, pal)
	case "sub-ycbcr", "sub-nycbcra":
		ratio := []image.YCbCrSubsampleRatio{image.YCbCrSubsampleRatio444, image.YCbCrSubsampleRatio420, image.YCbCrSubsampleRatio422}[rng.Intn(3)]
		if s.Kind == "sub-ycbcr" {
			im := image.NewYCbCr(pr, ratio)
			for i := range im.Y {
				im.Y[i] = uint8(i*7 + rng.Intn(8))
			}
			for i := range im.Cb {
				im.Cb[i], im.Cr[i] = uint8(rng.U64()), uint8(rng.U64())
			}
			return im.SubImage(sr)
		}
		im := image.NewNYCbCrA(pr, ratio)
		for i := range im.Y {
			im.Y[i] = uint8(i*5 + rng.Intn(8))
		}
		for i := range im.Cb {
			im.Cb[i], im.Cr[i] = uint8(rng.U64()), uint8(rng.U64())
		}
		for i := range im.A {
			im.A[i] = uint8(rng.Pick(0, 1, 128, 255, 255))
		}
		return im.SubImage(sr)
	case "generic-offset":
		im := image.NewNRGBA(pr)
		for i := range im.Pix {
			im.Pix[i] = uint8(rng.U64())
		}
		for y := 0; y < h; y++ {
			for x := 0; x < w; x++ {
				im.SetNRGBA(ox+x, oy+y, at(x, y))
			}
		}
		return wrapImage{im.SubImage(sr)}
	default:
		return nil
	}
	// surroundings differ from the picture, so that reading at the wrong offset is visible
	for y := 0; y < ph; y++ {
		for x := 0; x < pw; x++ {
			parent.Set(x, y, color.NRGBA{uint8(rng.U64()), uint8(rng.U64()), uint8(rng.U64()), uint8(rng.Pick(0, 77, 255))})
		}
	}
	for y := 0; y < h; y++ {
		for x := 0; x < w; x++ {
			parent.Set(ox+x, oy+y, at(x, y))
		}
	}
	return parent.(interface {
		SubImage(image.Rectangle) image.Image
	}).SubImage(sr)
}

// expected pixels: the source read as non-premultiplied 8-bit RGBA
func expected(img image.Image, exact bool) []byte {
	b := img.Bounds()
	out := make([]byte, 0, 4*b.Dx()*b.Dy())
	for y := b.Min.Y; y < b.Max.Y; y++ {
		for x := b.Min.X; x < b.Max.X; x++ {
			c := color.NRGBAModel.Convert(img.At(x, y)).(color.NRGBA)
			if c.A == 0 && !exact {
				c = color.NRGBA{}
			}
			out = append(out, c.R, c.G, c.B, c.A)
		}
	}
	return out
}

func encode(img image.Image, s rtSpec, rng *Rand) ([]byte, error) {
	o := webp.DefaultOptions()
	o.Lossless = true
	o.Quality = float32(s.Quality)
	o.Method = s.Method
	o.Exact = s.Exact
	if s.Meta&1 != 0 {
		o.ICC = rng.Bytes(rng.Range(1, 40))
	}
	if s.Meta&2 != 0 {
		o.EXIF = rng.Bytes(rng.Range(1, 40))
	}
	if s.Meta&4 != 0 {
		o.XMP = rng.Bytes(rng.Range(1, 40))
	}
	var b bytes.Buffer
	err := webp.Encode(&b, img, o)
	return b.Bytes(), err
}

// onlyFastPathRounding: every differing byte is a colour channel of a pixel with
// 0 < alpha < 255 of an *image.RGBA source, and the decoded value is c*255/a.
func onlyFastPathRounding(img image.Image, exp, got []byte) bool {
	var rg *image.RGBA
	switch v := img.(type) {
	case *image.RGBA:
		rg = v
	default:
		return false
	}
	b := rg.Bounds()
	w := b.Dx()
	for i := 0; i < len(exp); i += 4 {
		if bytes.Equal(exp[i:i+4], got[i:i+4]) {
			continue
		}
		x, y := (i/4)%w, (i/4)/w
		c := rg.RGBAAt(b.Min.X+x, b.Min.Y+y)
		if c.A == 0 || c.A == 255 || got[i+3] != c.A {
			return false
		}
		f := func(v uint8) uint8 { return uint8(uint16(v) * 255 / uint16(c.A)) }
		if got[i] != f(c.R) || got[i+1] != f(c.G) || got[i+2] != f(c.B) {
			return false
		}
	}
	return true
}

func roundTrip(c *Ctx, r *runner, rng *Rand, s rtSpec, model bool) {
	px := makeContent(rng.Fork(), s)
	img := makeSource(rng.Fork(), s, px)
	raw := expected(img, true)         // the source pixels as they are
	cleaned := expected(img, s.Exact) // alpha-0 pixels as transparent black unless Exact (what the encoder stores today)
	file, err := encode(img, s, rng.Fork())
	c.D.Evaluations++
	if err != nil {
		// the property speaks about the bytes Encode wrote; an Encode error is C20/C02's business
		c.Count("observation:encode-error")
		return
	}
	line, dec := goDecode(file)
	if dec == nil {
		c.Violate("decode-error", "Decode failed on the bytes Encode wrote", map[string]any{"spec": s, "file": hex.EncodeToString(file), "result": line})
		return
	}
	got := nrgbaPix(dec)
	// what the property permits: every pixel equals the source pixel; a pixel with alpha 0 MAY instead come
	// back as transparent black when Exact is off (both outcomes are accepted, pixel by pixel)
	exp := append([]byte{}, raw...)
	if !s.Exact && len(got) == len(raw) {
		for i := 0; i+3 < len(raw); i += 4 {
			if raw[i+3] == 0 && got[i] == 0 && got[i+1] == 0 && got[i+2] == 0 && got[i+3] == 0 {
				exp[i], exp[i+1], exp[i+2], exp[i+3] = 0, 0, 0, 0
				if raw[i] != 0 || raw[i+1] != 0 || raw[i+2] != 0 {
					c.Count("observation:alpha-0-pixel-came-back-as-transparent-black")
				}
			} else if raw[i+3] == 0 && (raw[i] != 0 || raw[i+1] != 0 || raw[i+2] != 0) && bytes.Equal(raw[i:i+4], got[i:i+4]) {
				c.Count("observation:alpha-0-pixel-came-back-unchanged-without-Exact")
			}
		}
	}
	if dec.Rect.Dx() != s.W || dec.Rect.Dy() != s.H {
		c.Violate("roundtrip-dimensions", "decoded dimensions differ from the source", map[string]any{"spec": s, "got": []int{dec.Rect.Dx(), dec.Rect.Dy()}})
	} else if !bytes.Equal(got, exp) {
		first := 0
		for first < len(exp) && exp[first] == got[first] {
			first++
		}
		rep := map[string]any{"spec": s, "first_differing_pixel": first / 4, "expected_rgba": exp[first/4*4 : first/4*4+4], "got_rgba": got[first/4*4 : first/4*4+4], "file": hex.EncodeToString(file)}
		if onlyFastPathRounding(img, exp, got) {
			c.Violate("rgba-fast-path-unpremultiply", "semi-transparent *image.RGBA source: fast path un-premultiplies with c*255/a, color.NRGBAModel gives a value one higher", rep)
		} else {
			c.Violate("roundtrip-mismatch", "decoded pixels differ from the source pixels", rep)
		}
	}
	c.Count("kind:" + s.Kind)
	c.Count("content:" + s.Content)
	c.Count("alpha:" + s.Alpha)
	c.Count(fmt.Sprintf("method:%d", s.Method))
	c.Count(fmt.Sprintf("quality:%d", s.Quality))
	c.Count(fmt.Sprintf("exact:%v", s.Exact))
	c.Count(fmt.Sprintf("meta:%d", s.Meta))
	payload := vp8lPayload(file)
	if payload == nil {
		c.Count("observation:no-vp8l-chunk-in-encoder-output") // layout of the file is C02's business
		return
	}
	if !model {
		c.Count("go-only(large)")
		return
	}
	hx := hex.EncodeToString(payload)
	tr := parseTrace(r.ask("trace " + hx))
	for _, t := range tr.transforms {
		c.Count("emitted-transform:" + t)
	}
	c.Count("emitted-transform-set:" + strings.Join(tr.transforms, "+"))
	c.Count(fmt.Sprintf("emitted-cache-bits:%d", tr.cache))
	c.Count(fmt.Sprintf("emitted-meta-bits:%d", tr.metaBits))
	if tr.groups > 1 {
		c.Count("emitted-several-groups")
	}
	c.Nontrivial(tr.signature())
	// the real encoder's choices, recovered from its bytes, checked against the hypothesis of the
	// proved round-trip theorem (wf_planb + byte-exact re-emission by the model emitter)
	if f := strings.Fields(r.ask("replan " + hx)); len(f) >= 3 && f[0] == "R" && f[1] == "wf=1" && f[2] == "emit=1" {
		c.Count("encoder-choices:valid(wf_planb & byte-exact re-emission)")
		if sem := strings.Join(f[3:], " "); sem != line {
			// decoder vs format on a valid stream is C03's clause, not C01's (the round trip above decides C01)
			c.Count("observation:sem-of-recovered-plan-differs-from-decode")
		}
	} else {
		c.Count("encoder-choices:outside-proved-fragment " + strings.Join(f, " "))
	}
	// encoder data path = model: the forward transforms of the model (Vp8lImport.forward_chain, with the
	// transforms and their data recovered from the stream) applied to the cleaned source give exactly the
	// residual image the encoder's tokens denote
	if s.W*s.H <= 40*40 {
		switch r.ask("fwd " + hx + " " + hex.EncodeToString(cleaned)) {
		case "F 1":
			c.Count("encoder-data-path:forward-chain(source)=residual-image")
		case "F 0":
			c.Count("encoder-data-path:DIFFERS-from-model-forward-chain " + tr.signature())
		default:
			c.Count("encoder-data-path:not-evaluated")
		}
	}
	c.Case("dec "+tr.tag()+" "+hx, line)
	c.Sample(map[string]any{"kind": "roundtrip", "spec": s, "bytes": len(file), "emitted": tr.signature()})
}

var (
	contents  = []string{"photo", "noise", "flat", "pal1", "pal2", "pal4", "pal16", "pal256"}
	alphas    = []string{"opaque", "binary", "graded", "zero-hidden"}
	kinds     = []string{"nrgba", "rgba", "gray", "paletted", "nrgba64", "sub-nrgba", "sub-rgba", "generic"}
	// no fast path in the encoder and Bounds().Min != (0,0)
	offsetKinds = []string{"sub-gray", "sub-gray16", "sub-alpha", "sub-alpha16", "sub-cmyk", "sub-nrgba64", "sub-rgba64",
		"sub-paletted", "sub-ycbcr", "sub-nycbcra", "generic-offset"}
	qualities = []int{0, 9, 10, 24, 25, 49, 50, 74, 75, 89, 90, 100}
)

func roundTrips(c *Ctx, r *runner) {
	rng := c.Rng.Fork()
	n := 420
	if c.Thorough() {
		n = 6000
	}
	for i := 0; i < n; i++ {
		s := rtSpec{
			Content: contents[rng.Intn(len(contents))], Alpha: alphas[rng.Intn(len(alphas))], Kind: append(kinds, offsetKinds...)[rng.Intn(len(kinds)+len(offsetKinds))],
			Quality: qualities[rng.Intn(len(qualities))], Method: rng.Intn(7), Exact: rng.Bool(), Meta: rng.Pick(0, 0, 0, 1, 2, 3, 4, 5, 6, 7),
		}
		if rng.Intn(12) == 0 {
			s.Quality = rng.Intn(101)
		}
		switch rng.Intn(10) {
		case 0:
			s.W, s.H = 1, 1
		case 1:
			s.W, s.H = rng.Range(1, 128), rng.Pick(1, 2)
		case 2:
			s.W, s.H = rng.Pick(1, 2), rng.Range(1, 128)
		case 3:
			s.W, s.H = rng.Range(33, 128), rng.Range(33, 128)
			if !c.Thorough() && s.Method >= 5 {
				s.W, s.H = rng.Range(33, 64), rng.Range(33, 64)
			}
		default:
			s.W, s.H = rng.Range(1, 32), rng.Range(1, 32)
		}
		if (s.Content == "photo" || s.Content == "noise") && s.W*s.H <= 256 && rng.Intn(3) != 0 {
			s.W, s.H = rng.Range(17, 40), rng.Range(17, 40) // enough pixels for more than 256 colours (no palette)
		}
		roundTrip(c, r, rng.Fork(), s, s.W*s.H <= 72*72)
	}
	// {metadata kinds} x {image types without fast path, offset bounds} x Exact: both encoder paths
	// (streaming without metadata, buffered with) must import the pixels at Bounds().Min + (x, y)
	for _, kind := range offsetKinds {
		for _, meta := range []int{0, 1, 2, 4, 7} {
			for _, exact := range []bool{false, true} {
				s := rtSpec{W: rng.Range(1, 12), H: rng.Range(1, 12), Content: contents[rng.Intn(len(contents))], Alpha: alphas[rng.Intn(len(alphas))],
					Kind: kind, Quality: qualities[rng.Intn(len(qualities))], Method: rng.Intn(7), Exact: exact, Meta: meta}
				roundTrip(c, r, rng.Fork(), s, true)
			}
		}
	}
	// the (colour count x Method x Quality) product, small images
	for _, content := range []string{"pal1", "pal2", "pal4", "pal16", "pal256", "photo"} {
		for m := 0; m <= 6; m++ {
			for _, q := range qualities {
				if !c.Thorough() && rng.Intn(3) != 0 {
					continue
				}
				s := rtSpec{W: rng.Range(2, 20), H: rng.Range(2, 20), Content: content, Alpha: alphas[rng.Intn(2)], Kind: "nrgba", Quality: q, Method: m, Exact: true}
				roundTrip(c, r, rng.Fork(), s, true)
			}
		}
	}
	if c.Thorough() {
		for _, d := range [][2]int{{16383, 1}, {1, 16383}, {16383, 2}} {
			for _, m := range []int{0, 4} {
				s := rtSpec{W: d[0], H: d[1], Content: "photo", Alpha: "graded", Kind: "nrgba", Quality: 50, Method: m}
				roundTrip(c, r, rng.Fork(), s, false)
			}
		}
	}
}

// farMatch: pictures with more than 2^20 pixels whose tail repeats the pixels P positions earlier, P around
// the LZ77 window limit 2^20 - 120 (the largest distance whose code 120 + distance still has a prefix symbol
// below 40); otherwise incompressible content.  Go Encode -> Go Decode only (no specification decode of a
// megapixel picture); the round trip must be exact.
func farMatch(c *Ctx, rng *Rand, w, h, P int, palette bool, q, m int) {
	im := image.NewNRGBA(image.Rect(0, 0, w, h))
	var pal []color.NRGBA
	for i := 0; i < 200; i++ {
		pal = append(pal, color.NRGBA{uint8(rng.U64()), uint8(rng.U64()), uint8(rng.U64()), 255})
	}
	n := w * h
	for i := 0; i < n; i++ {
		var col color.NRGBA
		switch {
		case i >= P:
			o := (i - P) * 4
			col = color.NRGBA{im.Pix[o], im.Pix[o+1], im.Pix[o+2], im.Pix[o+3]}
		case palette:
			col = pal[rng.Intn(200)]
		default:
			col = color.NRGBA{uint8(rng.U64()), uint8(rng.U64()), uint8(rng.U64()), 255}
		}
		o := i * 4
		im.Pix[o], im.Pix[o+1], im.Pix[o+2], im.Pix[o+3] = col.R, col.G, col.B, col.A
	}
	s := rtSpec{W: w, H: h, Content: "far-match", Alpha: "opaque", Kind: "nrgba", Quality: q, Method: m, Exact: true}
	c.D.Evaluations++
	c.Count(fmt.Sprintf("far-match:%dx%d:P=2^20%+d:palette=%v:q%d:m%d", w, h, P-(1<<20), palette, q, m))
	file, err := encode(im, s, NewRand(5))
	if err != nil {
		c.Count("observation:encode-error")
		return
	}
	line, dec := goDecode(file)
	rep := map[string]any{"picture": fmt.Sprintf("%dx%d, pixel[i] = pixel[i-P] for i >= P = 2^20%+d, else random (200-colour palette: %v), harness/c01 farMatch", w, h, P-(1<<20), palette), "quality": q, "method": m, "bytes": len(file)}
	if dec == nil {
		rep["result"] = line
		c.Violate("decode-error", "Decode failed on the bytes Encode wrote", rep)
		return
	}
	got := nrgbaPix(dec)
	if dec.Rect.Dx() != w || dec.Rect.Dy() != h {
		c.Violate("roundtrip-dimensions", "decoded dimensions differ from the source", rep)
	} else if !bytes.Equal(got, im.Pix) {
		first := 0
		for first < len(got) && got[first] == im.Pix[first] {
			first++
		}
		rep["first_differing_pixel"] = first / 4
		c.Violate("roundtrip-mismatch", "decoded pixels differ from the source pixels", rep)
	}
}

func farMatches(c *Ctx) {
	rng := c.Rng.Fork()
	const W20 = 1 << 20
	if !c.Thorough() {
		farMatch(c, rng.Fork(), 1024, 1030, W20-60, true, 100, 4)
		farMatch(c, rng.Fork(), 1024, 1030, W20-119, true, 76, 2)
		return
	}
	for _, P := range []int{W20 - 121, W20 - 120, W20 - 119, W20 - 100, W20 - 60, W20 - 1, W20, W20 + 1} {
		for _, pal := range []bool{true, false} {
			farMatch(c, rng.Fork(), 1024, 1030, P, pal, rng.Pick(76, 100), rng.Pick(2, 4, 6))
		}
	}
	farMatch(c, rng.Fork(), 16383, 70, W20-60, true, 100, 4)
	farMatch(c, rng.Fork(), 70, 16383, W20-119, true, 76, 4)
	farMatch(c, rng.Fork(), 16383, 70, W20-100, false, 100, 2)
}

// unpremultiplySweep sends every valid premultiplied (channel, alpha) pair through
// the *image.RGBA fast path and compares with the colour-model formula.
func unpremultiplySweep(c *Ctx) {
	const W = 256
	H := (32896 + W - 1) / W
	im := image.NewRGBA(image.Rect(0, 0, W, H))
	type pair struct{ ch, a int }
	var pairs []pair
	for a := 0; a < 256; a++ {
		for ch := 0; ch <= a; ch++ {
			pairs = append(pairs, pair{ch, a})
		}
	}
	for i, p := range pairs {
		im.SetRGBA(i%W, i/W, color.RGBA{uint8(p.ch), uint8(p.ch), uint8(p.ch), uint8(p.a)})
	}
	for pathIdx, meta := range []int{0, 2} { // streaming path and writeRIFF path
		s := rtSpec{W: W, H: H, Quality: 25, Method: 0, Exact: true, Meta: meta}
		file, err := encode(im, s, NewRand(7))
		if err != nil {
			c.Count("observation:encode-error")
			return
		}
		_, dec := goDecode(file)
		if dec == nil {
			c.Violate("decode-error", "Decode failed on the bytes Encode wrote", map[string]any{"spec": s})
			return
		}
		bad := 0
		var firstBad map[string]any
		for i, p := range pairs {
			got := dec.NRGBAAt(i%W, i/W)
			want := color.NRGBAModel.Convert(color.RGBA{uint8(p.ch), uint8(p.ch), uint8(p.ch), uint8(p.a)}).(color.NRGBA)
			if got != want {
				bad++
				if firstBad == nil {
					firstBad = map[string]any{"channel": p.ch, "alpha": p.a, "decoded": got.R, "color.NRGBAModel": want.R, "path": pathIdx}
				}
			}
			if pathIdx == 0 {
				v := fmt.Sprint(got.R)
				if got.G != got.R || got.B != got.R || got.A != uint8(p.a) {
					v = fmt.Sprintf("inconsistent %v", got)
				}
				c.Case(fmt.Sprintf("unp %d %d", p.ch, p.a), v)
			}
		}
		c.D.Evaluations += len(pairs)
		c.Count(fmt.Sprintf("unpremultiply-sweep-path%d:pairs-differing=%d", pathIdx, bad))
		if bad > 0 {
			firstBad["pairs_differing"] = bad
			c.Violate("rgba-fast-path-unpremultiply", "*image.RGBA fast path un-premultiplies with c*255/a instead of the color.NRGBAModel formula", firstBad)
		}
	}
}

// cleanupCases: the clean-up of imported pixels, through 1xN NRGBA images.
func cleanupCases(c *Ctx) {
	rng := c.Rng.Fork()
	for _, exact := range []bool{false, true} {
		n := 64
		im := image.NewNRGBA(image.Rect(0, 0, n, 1))
		for x := 0; x < n; x++ {
			a := uint8(rng.Pick(0, 0, 1, 127, 255))
			im.SetNRGBA(x, 0, color.NRGBA{uint8(rng.U64()), uint8(rng.U64()), uint8(rng.U64()), a})
		}
		s := rtSpec{W: n, H: 1, Quality: 75, Method: 4, Exact: exact}
		file, err := encode(im, s, NewRand(3))
		if err != nil {
			c.Count("observation:encode-error")
			continue
		}
		_, dec := goDecode(file)
		if dec == nil {
			c.Violate("decode-error", "Decode failed on the bytes Encode wrote", map[string]any{"spec": s})
			continue
		}
		for x := 0; x < n; x++ {
			p := im.NRGBAAt(x, 0)
			g := dec.NRGBAAt(x, 0)
			e := 0
			if exact {
				e = 1
			}
			if !exact && p.A == 0 && g == p {
				// permitted as well: the pixel came back unchanged; canonical form of the accepted outcomes
				g = color.NRGBA{}
				c.Count("observation:alpha-0-pixel-came-back-unchanged-without-Exact")
			}
			c.Case(fmt.Sprintf("imp %d %d %d %d %d", e, p.A, p.R, p.G, p.B), fmt.Sprintf("%d %d %d %d", g.A, g.R, g.G, g.B))
			c.D.Evaluations++
		}
		c.Count(fmt.Sprintf("cleanup-cases-exact-%v", exact))
	}
}

func main() {
	Main("c01", func(c *Ctx) {
		r, err := startRunner()
		if err != nil {
			panic(err)
		}
		defer r.close()
		c.D.Rule = "a round trip counts as non-trivial once per distinct signature of what the encoder emitted (transform list with bits, cache on/off, meta image on/off, several groups), as read back by the specification decoder"
		roundTrips(c, r)
		farMatches(c)
		unpremultiplySweep(c)
		cleanupCases(c)
	})
}
