package main

// Shared helpers of the C01 harness (model runner pipe, RIFF helpers, digests,
// trace parsing); same code as harness/c03.

import (
	"bufio"
	"bytes"
	"encoding/binary"
	"fmt"
	"hash/fnv"
	"image"
	"io"
	"os"
	"os/exec"
	"path/filepath"
	"strings"

	webp "github.com/deepteams/webp"
)

// ---------------------------------------------------------------- model runner

type runner struct {
	cmd *exec.Cmd
	in  io.WriteCloser
	out *bufio.Reader
}

func startRunner() (*runner, error) {
	dir := os.Getenv("VERIF_DIR")
	if dir == "" {
		dir = "/verif"
	}
	cmd := exec.Command(filepath.Join(dir, "build", "extract", "c01", "run"))
	in, err := cmd.StdinPipe()
	if err != nil {
		return nil, err
	}
	out, err := cmd.StdoutPipe()
	if err != nil {
		return nil, err
	}
	cmd.Stderr = os.Stderr
	if err := cmd.Start(); err != nil {
		return nil, err
	}
	return &runner{cmd, in, bufio.NewReaderSize(out, 1<<20)}, nil
}

func (r *runner) ask(line string) string {
	if _, err := io.WriteString(r.in, line+"\n"); err != nil {
		panic(err)
	}
	s, err := r.out.ReadString('\n')
	if err != nil {
		panic(fmt.Sprintf("model runner died: %v", err))
	}
	return strings.TrimRight(s, "\n")
}

func (r *runner) close() { r.in.Close(); r.cmd.Wait() }

// ---------------------------------------------------------------- helpers

func riffWrap(payload []byte) []byte {
	var b bytes.Buffer
	pad := len(payload) & 1
	b.WriteString("RIFF")
	binary.Write(&b, binary.LittleEndian, uint32(4+8+len(payload)+pad))
	b.WriteString("WEBPVP8L")
	binary.Write(&b, binary.LittleEndian, uint32(len(payload)))
	b.Write(payload)
	if pad == 1 {
		b.WriteByte(0)
	}
	return b.Bytes()
}

// vp8lPayload returns the VP8L chunk payload of a WebP file (simple or extended).
func vp8lPayload(file []byte) []byte {
	pos := 12
	for pos+8 <= len(file) {
		n := int(binary.LittleEndian.Uint32(file[pos+4:]))
		if string(file[pos:pos+4]) == "VP8L" && pos+8+n <= len(file) {
			return file[pos+8 : pos+8+n]
		}
		pos += 8 + n + (n & 1)
	}
	return nil
}

func digest(w, h int, pix []byte) string {
	f := fnv.New64a()
	f.Write(pix)
	return fmt.Sprintf("OK %d %d %016x", w, h, f.Sum64())
}

// nrgbaPix returns the tightly packed RGBA bytes of an NRGBA image.
func nrgbaPix(im *image.NRGBA) []byte {
	w, h := im.Rect.Dx(), im.Rect.Dy()
	if im.Stride == 4*w {
		return im.Pix[:4*w*h]
	}
	out := make([]byte, 0, 4*w*h)
	for y := 0; y < h; y++ {
		out = append(out, im.Pix[y*im.Stride:y*im.Stride+4*w]...)
	}
	return out
}

// goDecode runs the public decoder on a complete file.
func goDecode(file []byte) (line string, im *image.NRGBA) {
	defer func() {
		if r := recover(); r != nil {
			line, im = "PANIC", nil
		}
	}()
	img, err := webp.Decode(bytes.NewReader(file))
	if err != nil {
		return "ERR", nil
	}
	n, ok := img.(*image.NRGBA)
	if !ok {
		return "ERR not-nrgba", nil
	}
	return digest(n.Rect.Dx(), n.Rect.Dy(), nrgbaPix(n)), n
}

// goDecodeBare runs lossless.DecodeVP8L on the bare payload.
func goDecodeBare(payload []byte) (line string) {
	defer func() {
		if r := recover(); r != nil {
			line = "PANIC"
		}
	}()
	w, h, pix, err := webp.VerifLosslessDecodeVP8L(payload)
	if err != nil {
		return "ERR"
	}
	return digest(w, h, pix)
}

// traceTag summarises what the specification decoder saw in the stream
// (transform list, cache bits, meta bits, groups).
type traceInfo struct {
	ok         bool
	transforms []string // "type/bits" in stream order
	cache      int
	metaBits   int
	groups     int
}

func parseTrace(s string) traceInfo {
	var t traceInfo
	f := strings.Fields(s)
	if len(f) < 8 || f[0] != "T" {
		return t
	}
	t.ok = true
	fmt.Sscan(f[4], &t.cache)
	fmt.Sscan(f[5], &t.metaBits)
	fmt.Sscan(f[6], &t.groups)
	ts := strings.TrimPrefix(f[7], "t:")
	if ts != "" {
		t.transforms = strings.Split(ts, ",")
	}
	return t
}

// packedIndexNotLast: a colour-indexing transform with pixel packing whose inverse
// is not the first one applied (i.e. another transform follows it in the stream).
func (t traceInfo) packedIndexNotLast() bool {
	for i, s := range t.transforms {
		if strings.HasPrefix(s, "3/") && s != "3/0" && i != len(t.transforms)-1 {
			return true
		}
	}
	return false
}

func (t traceInfo) tag() string {
	if !t.ok {
		return "invalid"
	}
	tag := "t=" + strings.Join(t.transforms, "+")
	if t.packedIndexNotLast() {
		tag += ";packed-index-then-transform"
	}
	return tag
}

func (t traceInfo) signature() string {
	return fmt.Sprintf("%s c%v m%v g%v", strings.Join(t.transforms, "+"), t.cache > 0, t.metaBits > 0, t.groups > 1)
}

