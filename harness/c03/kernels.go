package main

// (c) kernel-level correspondence: Go internals (verif exports) vs implementation
// models, on random and boundary inputs.

import (
	"encoding/hex"
	"fmt"
	"strings"

	webp "github.com/deepteams/webp"

	. "verifharness/hlib"
)

func csv(v []uint32) string {
	if len(v) == 0 {
		return "-"
	}
	var sb strings.Builder
	for i, x := range v {
		if i > 0 {
			sb.WriteByte(',')
		}
		fmt.Fprintf(&sb, "%x", x)
	}
	return sb.String()
}

func guard(f func() string) (s string) {
	defer func() {
		if r := recover(); r != nil {
			s = "PANIC"
		}
	}()
	return f()
}

func randWords(rng *Rand, n int) []uint32 {
	v := make([]uint32, n)
	few := rng.Intn(3) == 0
	for i := range v {
		if few {
			v[i] = uint32(rng.Intn(3)) * 0x01010101
		} else {
			v[i] = uint32(rng.U64())
		}
	}
	return v
}

func kernelCases(c *Ctx) {
	rng := c.Rng.Fork()
	scale := 1
	if c.Thorough() {
		scale = 10
	}

	// copyBlock32: memmove / fill / doubling vs the pixel-by-pixel definition
	for i := 0; i < 400*scale; i++ {
		n := rng.Range(2, 60)
		if i%10 == 0 {
			n = rng.Range(60, 400)
		}
		data := randWords(rng, n)
		for j := range data {
			data[j] = uint32(j + 1) // distinct words: any misplaced word is visible
		}
		pos := rng.Range(1, n-1)
		dist := rng.Range(1, pos)
		if rng.Intn(3) == 0 {
			dist = rng.Range(1, min(pos, 4))
		}
		ln := rng.Range(1, n-pos) // the decoder never copies 0 pixels
		if rng.Intn(4) == 0 {
			ln = n - pos
		}
		in := csv(data)
		got := guard(func() string {
			webp.VerifLosslessCopyBlock32(data, pos, dist, ln)
			return csv(data)
		})
		c.Case(fmt.Sprintf("cpb %d %d %d %s", pos, dist, ln, in), got)
		c.D.Evaluations++
		switch {
		case dist >= ln:
			c.Count("kernel:copyBlock32:non-overlapping")
		case dist == 1:
			c.Count("kernel:copyBlock32:fill")
		default:
			c.Count("kernel:copyBlock32:doubling")
		}
	}

	// expandColorMap
	for i := 0; i < 60*scale; i++ {
		n := rng.Pick(1, 2, 3, 4, 5, 15, 16, 17, 100, 255, 256)
		if rng.Intn(3) == 0 {
			n = rng.Range(1, 256)
		}
		bits := ciBits(n)
		pal := randWords(rng, n)
		got := guard(func() string { return csv(webp.VerifLosslessExpandColorMap(n, bits, pal)) })
		c.Case(fmt.Sprintf("ecm %d %d %s", n, bits, csv(pal)), got)
		c.D.Evaluations++
		c.Count(fmt.Sprintf("kernel:expandColorMap:bits-%d", bits))
	}

	// applyInverseTransforms on given buffers (every subset and order of transforms)
	for i := 0; i < 250*scale; i++ {
		w, h := rng.Range(1, 20), rng.Range(1, 12)
		if rng.Intn(4) == 0 {
			w = rng.Pick(1, 2, 7, 8, 9, 15, 16, 17)
		}
		order := []int{0, 1, 2, 3}
		for k := 3; k > 0; k-- {
			j := rng.Intn(k + 1)
			order[k], order[j] = order[j], order[k]
		}
		nT := rng.Intn(5)
		cw := w
		var ts []webp.VerifLosslessTransform
		var sb strings.Builder
		var sig []string
		for _, ty := range order[:nT] {
			t := webp.VerifLosslessTransform{Type: ty, XSize: cw, YSize: h}
			var modelData []uint32
			switch ty {
			case 0, 1:
				t.Bits = rng.Pick(2, 2, 3, 4, 9)
				d := randWords(rng, subsample(cw, t.Bits)*subsample(h, t.Bits))
				if ty == 0 {
					for k := range d {
						d[k] = d[k]&0xffff00ff | uint32(rng.Intn(14))<<8 // the 14 modes the format defines
					}
				}
				t.Data, modelData = d, d
			case 3:
				n := rng.Pick(1, 2, 3, 4, 5, 16, 17, 200, 256)
				t.Bits = ciBits(n)
				pal := randWords(rng, n)
				t.Data = webp.VerifLosslessExpandColorMap(n, t.Bits, pal)
				modelData = pal
				cw = subsample(cw, t.Bits)
			}
			ts = append(ts, t)
			fmt.Fprintf(&sb, " %d %d %d %d %s", t.Type, t.Bits, t.XSize, t.YSize, csv(modelData))
			sig = append(sig, fmt.Sprintf("%d/%d", t.Type, t.Bits))
		}
		coded := randWords(rng, cw*h)
		got := guard(func() string { return csv(webp.VerifLosslessApplyInverseTransforms(w, h, cw, ts, coded)) })
		c.Case(fmt.Sprintf("aiv %d %d %d %d%s %s", w, h, cw, nT, sb.String(), csv(coded)), got)
		c.D.Evaluations++
		c.Count("kernel:applyInverseTransforms")
		c.Nontrivial("aiv " + strings.Join(sig, "+"))
	}

	// BuildHuffmanTable + ReadSymbol vs the table model (I) and the canonical code tree (S):
	// 8-bit root with second-level tables (lengths up to 15), 8-bit root with lengths <= 8 and the 7-bit
	// root of the code-length code (lengths <= 7) — the two cases lut_decode_eq_canonical_root covers
	for i := 0; i < 330*scale; i++ {
		root, maxLen := 8, 15
		alphabet := rng.Pick(2, 19, 40, 256, 280, 280+2048)
		switch i % 3 {
		case 1:
			maxLen = 8
		case 2:
			root, maxLen, alphabet = 7, 7, 19
		}
		n := rng.Range(1, min(min(alphabet, 300), 1<<maxLen))
		lens := make([]int, alphabet)
		var ls []int
		if n == 1 {
			ls = []int{rng.Range(1, maxLen)}
		} else {
			ls = randomCompleteLengths(rng, n, maxLen)
		}
		for _, l := range ls {
			for {
				s := rng.Intn(alphabet)
				if lens[s] == 0 {
					lens[s] = l
					break
				}
			}
		}
		// only complete (or one-symbol) codes: a valid stream cannot carry anything else, and what the
		// table builder does with other vectors is not C03's business
		var sb strings.Builder
		for _, l := range lens {
			fmt.Fprintf(&sb, " %d", l)
		}
		windows := []uint32{0, 0xffffffff, uint32(rng.U64()), uint32(rng.U64()), uint32(rng.U64()), uint32(rng.U64())}
		if i%10 == 0 { // a run of consecutive windows: neighbouring table slots
			base := uint32(rng.U64())
			for k := uint32(0); k < 16; k++ {
				windows = append(windows, base+k)
			}
		}
		for _, bits := range windows {
			got := guard(func() string {
				v, used, ok := webp.VerifLosslessHuffmanDecode(root, lens, bits)
				if !ok {
					return "ERR"
				}
				return fmt.Sprintf("%d %d", v, used)
			})
			c.Case(fmt.Sprintf("huf %d %d%s", root, bits, sb.String()), got)
			c.D.Evaluations++
			c.Count(fmt.Sprintf("kernel:huffman-lut:root%d-maxlen%d", root, maxLen))
		}
	}

	// Packed-table fast path (buildPackedTable + readPackedSymbols) vs its model (I) and the four canonical
	// code trees walked one after the other (S): groups the decoder sends down that path, i.e. the maximal
	// code lengths of green, red, blue, alpha sum to < HuffmanPackedBits = 6 (a one-symbol code counts with
	// the length it was sent with); green alphabets with and without colour cache, non-literal green symbols
	for i := 0; i < 200*scale; i++ {
		maxes := [4]int{1, 1, 1, 1}
		switch rng.Intn(4) {
		case 0: // all maxima 1
		case 1:
			maxes[rng.Intn(4)] = 2
		default: // bias to a two-bit green code (literal and non-literal symbols mixed)
			maxes[0] = 2
		}
		alphG := rng.Pick(280, 280+2, 280+64, 280+2048)
		var sb strings.Builder
		fmt.Fprintf(&sb, " %d", alphG)
		var lensAll [4][]int
		for k := 0; k < 4; k++ {
			alphabet := 256
			if k == 0 {
				alphabet = alphG
			}
			lens := make([]int, alphabet)
			n := rng.Range(1, 1<<maxes[k])
			var ls []int
			if n == 1 {
				ls = []int{rng.Range(1, maxes[k])}
			} else {
				ls = randomCompleteLengths(rng, n, maxes[k])
			}
			var parts []string
			for _, l := range ls {
				for {
					sym := rng.Intn(alphabet)
					if k == 0 && rng.Intn(2) == 0 { // length / cache symbols of the green alphabet
						sym = rng.Range(256, alphabet-1)
					}
					if lens[sym] == 0 {
						lens[sym] = l
						parts = append(parts, fmt.Sprintf("%d:%d", sym, l))
						break
					}
				}
			}
			lensAll[k] = lens
			fmt.Fprintf(&sb, " %s", strings.Join(parts, ","))
		}
		windows := []uint32{0, 0xffffffff, uint32(rng.U64()), uint32(rng.U64())}
		base := uint32(rng.U64()) &^ 63
		for k := uint32(0); k < 64; k += uint32(rng.Range(1, 5)) { // walk through the 64 packed slots
			windows = append(windows, base+k)
		}
		for _, w := range windows {
			data := []byte{byte(w), byte(w >> 8), byte(w >> 16), byte(w >> 24), 0, 0, 0, 0}
			got := guard(func() string {
				argb, green, lit, pos, ok := webp.VerifLosslessPackedRead(lensAll[0], lensAll[1], lensAll[2], lensAll[3], data)
				if !ok {
					return "ERR"
				}
				if lit {
					return fmt.Sprintf("L %d %d", argb, pos)
				}
				return fmt.Sprintf("S %d %d", green, pos)
			})
			c.Case(fmt.Sprintf("pkd %d%s", w, sb.String()), got)
			c.D.Evaluations++
			c.Count(fmt.Sprintf("kernel:packed-table:maxbits%d", maxes[0]+maxes[1]+maxes[2]+maxes[3]))
			if strings.HasPrefix(got, "S ") {
				c.Count("kernel:packed-table:non-literal-green")
			}
		}
	}

	// LosslessReader (64-bit window, byte shifting, 4-byte refills, end-of-stream flag) vs its model, on
	// scripts that stay inside the data, as the decoder's reads of a valid stream do: ReadBits(0..24),
	// FillBitWindow + PrefetchBits, SetBitPos(BitPos + k) after a fill
	for i := 0; i < 250*scale; i++ {
		n := rng.Pick(0, 1, 2, 3, 4, 5, 7, 8, 9, 11, 12, 13, 16, 40)
		if rng.Intn(3) == 0 {
			n = rng.Range(0, 64)
		}
		data := rng.Bytes(n)
		total, p := 8*n, 0
		var ops []int
		filled := false
		// two script families: free scripts (model vs code only) and scripts that keep the decoder's refill
		// discipline (Vp8lBitReaderFill.wf_script: at most `slack` bits consumed before the next refill,
		// nothing beyond the data, prefetch strictly inside) - on those the runner also prints the
		// specification side and C03_bitreader_script_refines_checked applies
		disciplined := i%2 == 1
		slack := 56
		wf := true
		for k := 0; k < 60 && disciplined; k++ {
			switch rng.Intn(5) {
			case 0:
				b := rng.Range(0, 24)
				if b <= slack && p+b <= total {
					ops = append(ops, b)
					p += b
					slack = 56
				}
			case 1:
				if p < total {
					ops = append(ops, -1)
					slack = max(slack, 32)
				}
			default: // symbol-decoder pattern: skip what a prefix code (<= 15 bits) consumed
				b := rng.Range(0, 15)
				if b <= slack && p+b <= total {
					ops = append(ops, -100-b)
					p += b
					slack -= b
				}
			}
		}
		for k := 0; k < 60 && !disciplined; k++ {
			switch rng.Intn(4) {
			case 0, 1:
				b := rng.Range(0, 24)
				if rng.Intn(4) == 0 {
					b = rng.Pick(0, 1, 8, 24)
				}
				if p+b <= total {
					ops = append(ops, b)
					p += b
					filled = false
				}
			case 2:
				ops = append(ops, -1)
				filled = true
			default:
				b := rng.Range(0, 22)
				if filled && p+b <= total {
					ops = append(ops, -100-b)
					p += b
					filled = false
				}
			}
		}
		hx := "-"
		if n > 0 {
			hx = hex.EncodeToString(data)
		}
		var sb strings.Builder
		for _, o := range ops {
			fmt.Fprintf(&sb, " %d", o)
		}
		got := guard(func() string {
			vals, eos := webp.VerifBitioLosslessReaderRun(data, ops)
			var parts []string
			for k := range vals {
				e := 0
				if eos[k] {
					e = 1
				}
				parts = append(parts, fmt.Sprintf("%d:%d", vals[k], e))
			}
			return strings.Join(parts, ",")
		})
		c.Case("brd "+hx+sb.String(), got)
		c.D.Evaluations++
		c.Count("kernel:lossless-bit-reader-script")
		if disciplined && wf {
			c.Count("kernel:lossless-bit-reader-script-keeps-refill-discipline")
		}
		if p == total && n > 0 {
			c.Count("kernel:lossless-bit-reader-script-consumes-every-bit")
		}
	}

	// PlaneCodeToDistance: every plane code, several widths
	for _, w := range []int{1, 2, 3, 7, 8, 9, 16, 100, 16383} {
		for code := 1; code <= 125; code++ {
			c.Case(fmt.Sprintf("p2d %d %d", w, code), fmt.Sprint(webp.VerifLosslessPlaneCodeToDistance(w, code)))
			c.D.Evaluations++
		}
	}
	c.Count("kernel:planeCodeToDistance-sweep")
}
