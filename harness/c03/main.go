package main

// C03 — VP8L decoding returns the pixels the format defines for every valid stream.
//
// (a) plans: random well-formed plans -> extracted emitter (model runner) -> RIFF ->
//     Go webp.Decode / lossless.DecodeVP8L  vs  sem(plan) and Spec.decode(bytes)
// (b) streams written by /repo's own encoder over colour count x Method x Quality,
//     and the lossless files of /repo/testdata: Go webp.Decode vs extracted Spec.decode
// (c) kernels: Go internals (verif exports) vs their implementation models
//
// Every case line is answered by build/extract/c03/run; bin/check diffs.

import (
	"bufio"
	"bytes"
	"encoding/binary"
	"encoding/hex"
	"fmt"
	"hash/fnv"
	"image"
	"image/color"
	"io"
	"os"
	"os/exec"
	"path/filepath"
	"strings"
	"time"

	webp "github.com/deepteams/webp"

	. "verifharness/hlib"
)

// ---------------------------------------------------------------- model runner

type runner struct {
	cmd *exec.Cmd
	in  io.WriteCloser
	out *bufio.Reader
}

func startRunner() (*runner, error) {
	dir := os.Getenv("VERIF_DIR")
	if dir == "" {
		dir = "/verif"
	}
	cmd := exec.Command(filepath.Join(dir, "build", "extract", "c03", "run"))
	in, err := cmd.StdinPipe()
	if err != nil {
		return nil, err
	}
	out, err := cmd.StdoutPipe()
	if err != nil {
		return nil, err
	}
	cmd.Stderr = os.Stderr
	if err := cmd.Start(); err != nil {
		return nil, err
	}
	return &runner{cmd, in, bufio.NewReaderSize(out, 1<<20)}, nil
}

func (r *runner) ask(line string) string {
	if _, err := io.WriteString(r.in, line+"\n"); err != nil {
		panic(err)
	}
	s, err := r.out.ReadString('\n')
	if err != nil {
		panic(fmt.Sprintf("model runner died: %v", err))
	}
	return strings.TrimRight(s, "\n")
}

func (r *runner) close() { r.in.Close(); r.cmd.Wait() }

// ---------------------------------------------------------------- helpers

func riffWrap(payload []byte) []byte {
	var b bytes.Buffer
	pad := len(payload) & 1
	b.WriteString("RIFF")
	binary.Write(&b, binary.LittleEndian, uint32(4+8+len(payload)+pad))
	b.WriteString("WEBPVP8L")
	binary.Write(&b, binary.LittleEndian, uint32(len(payload)))
	b.Write(payload)
	if pad == 1 {
		b.WriteByte(0)
	}
	return b.Bytes()
}

// vp8lPayload returns the VP8L chunk payload of a WebP file (simple or extended).
func vp8lPayload(file []byte) []byte {
	pos := 12
	for pos+8 <= len(file) {
		n := int(binary.LittleEndian.Uint32(file[pos+4:]))
		if string(file[pos:pos+4]) == "VP8L" && pos+8+n <= len(file) {
			return file[pos+8 : pos+8+n]
		}
		pos += 8 + n + (n & 1)
	}
	return nil
}

func digest(w, h int, pix []byte) string {
	f := fnv.New64a()
	f.Write(pix)
	return fmt.Sprintf("OK %d %d %016x", w, h, f.Sum64())
}

// nrgbaPix returns the tightly packed RGBA bytes of an NRGBA image.
func nrgbaPix(im *image.NRGBA) []byte {
	w, h := im.Rect.Dx(), im.Rect.Dy()
	if im.Stride == 4*w {
		return im.Pix[:4*w*h]
	}
	out := make([]byte, 0, 4*w*h)
	for y := 0; y < h; y++ {
		out = append(out, im.Pix[y*im.Stride:y*im.Stride+4*w]...)
	}
	return out
}

// Wall-clock cap for one Go decode: a decoder that loops forever on a valid stream must show up as a
// failing input, not as a harness time-out.  An entry point that hung twice is not called again (each
// hang leaves a spinning goroutine behind).
const decodeCap = 5 * time.Second

var hung = map[string]int{}

func capped(name string, f func() string) string {
	if hung[name] >= 2 {
		return "SKIPPED-after-two-hangs"
	}
	ch := make(chan string, 1)
	go func() { ch <- f() }()
	select {
	case s := <-ch:
		return s
	case <-time.After(decodeCap):
		hung[name]++
		return "TIMEOUT"
	}
}

// goDecode runs the public decoder on a complete file (under the wall-clock cap).
func goDecode(file []byte) (string, *image.NRGBA) {
	var im *image.NRGBA
	line := capped("webp.Decode", func() string {
		l, i := goDecodeRaw(file)
		im = i
		return l
	})
	if line == "TIMEOUT" || strings.HasPrefix(line, "SKIPPED") {
		return line, nil
	}
	return line, im
}

func goDecodeRaw(file []byte) (line string, im *image.NRGBA) {
	defer func() {
		if r := recover(); r != nil {
			line, im = "PANIC", nil
		}
	}()
	img, err := webp.Decode(bytes.NewReader(file))
	if err != nil {
		return "ERR", nil
	}
	n, ok := img.(*image.NRGBA)
	if !ok {
		return "ERR not-nrgba", nil
	}
	return digest(n.Rect.Dx(), n.Rect.Dy(), nrgbaPix(n)), n
}

// goDecodeBare runs lossless.DecodeVP8L on the bare payload (under the wall-clock cap).
func goDecodeBare(payload []byte) string {
	return capped("lossless.DecodeVP8L", func() string { return goDecodeBareRaw(payload) })
}

func goDecodeBareRaw(payload []byte) (line string) {
	defer func() {
		if r := recover(); r != nil {
			line = "PANIC"
		}
	}()
	w, h, pix, err := webp.VerifLosslessDecodeVP8L(payload)
	if err != nil {
		return "ERR"
	}
	return digest(w, h, pix)
}

// ---------------------------------------------------------------- (b) encoder outputs

type srcSpec struct {
	W, H    int
	Colors  int // 0 = photographic-like
	Alpha   int // 0 opaque, 1 binary, 2 graded
	Method  int
	Quality int
}

func makeImage(rng *Rand, s srcSpec) *image.NRGBA {
	im := image.NewNRGBA(image.Rect(0, 0, s.W, s.H))
	var pal []color.NRGBA
	for i := 0; i < s.Colors; i++ {
		a := uint8(255)
		switch s.Alpha {
		case 1:
			if rng.Intn(3) == 0 {
				a = 0
			}
		case 2:
			a = uint8(rng.Intn(256))
		}
		pal = append(pal, color.NRGBA{uint8(rng.U64()), uint8(rng.U64()), uint8(rng.U64()), a})
	}
	style := rng.Intn(3)
	for y := 0; y < s.H; y++ {
		for x := 0; x < s.W; x++ {
			var c color.NRGBA
			if s.Colors > 0 {
				var k int
				switch style {
				case 0:
					k = rng.Intn(s.Colors)
				case 1:
					k = (x/3 + y/2) % s.Colors
				default:
					k = (x*y + x/4) % s.Colors
					if rng.Intn(8) == 0 {
						k = rng.Intn(s.Colors)
					}
				}
				c = pal[k]
			} else {
				n := rng.Intn(16)
				c = color.NRGBA{uint8(x*7 + y*3 + n), uint8(x*2 + y*5 + n/2), uint8(x + y*9 + n/3), 255}
				switch s.Alpha {
				case 1:
					if (x/4+y/4)%3 == 0 {
						c.A = 0
					}
				case 2:
					c.A = uint8(x*11 + y*13)
				}
			}
			im.SetNRGBA(x, y, c)
		}
	}
	return im
}

func encodeLossless(im image.Image, method, quality int, exact bool) ([]byte, error) {
	o := webp.DefaultOptions()
	o.Lossless = true
	o.Method = method
	o.Quality = float32(quality)
	o.Exact = exact
	var b bytes.Buffer
	err := webp.Encode(&b, im, o)
	return b.Bytes(), err
}

// traceTag summarises what the specification decoder saw in the stream
// (transform list, cache bits, meta bits, groups).
type traceInfo struct {
	ok         bool
	transforms []string // "type/bits" in stream order
	cache      int
	metaBits   int
	groups     int
}

func parseTrace(s string) traceInfo {
	var t traceInfo
	f := strings.Fields(s)
	if len(f) < 8 || f[0] != "T" {
		return t
	}
	t.ok = true
	fmt.Sscan(f[4], &t.cache)
	fmt.Sscan(f[5], &t.metaBits)
	fmt.Sscan(f[6], &t.groups)
	ts := strings.TrimPrefix(f[7], "t:")
	if ts != "" {
		t.transforms = strings.Split(ts, ",")
	}
	return t
}

// packedIndexNotLast: a colour-indexing transform with pixel packing whose inverse
// is not the first one applied (i.e. another transform follows it in the stream).
func (t traceInfo) packedIndexNotLast() bool {
	for i, s := range t.transforms {
		if strings.HasPrefix(s, "3/") && s != "3/0" && i != len(t.transforms)-1 {
			return true
		}
	}
	return false
}

func (t traceInfo) tag() string {
	if !t.ok {
		return "invalid"
	}
	tag := "t=" + strings.Join(t.transforms, "+")
	if t.packedIndexNotLast() {
		tag += ";packed-index-then-transform"
	}
	return tag
}

func (t traceInfo) signature() string {
	return fmt.Sprintf("%s c%v m%v g%v", strings.Join(t.transforms, "+"), t.cache > 0, t.metaBits > 0, t.groups > 1)
}

func streamCase(c *Ctx, r *runner, file []byte, origin string) {
	payload := vp8lPayload(file)
	if payload == nil {
		c.Count("observation:no-vp8l-chunk-in-encoder-output") // the file layout is C02's business
		return
	}
	hx := hex.EncodeToString(payload)
	tr := parseTrace(r.ask("trace " + hx))
	line, _ := goDecode(file)
	bare := goDecodeBare(payload)
	// C03 quantifies over VALID streams only: a stream is in the domain when the recovered plan is well formed
	// and re-emits to these bytes (then emit_decode applies), or at least when the specification decoder accepts it
	if !replanCheck(c, r, hx, line, origin) {
		if ans := r.ask("dec " + tr.tag() + " " + hx); strings.HasPrefix(ans, "I ERR") {
			c.Count("observation:stream-rejected-by-the-specification(" + origin + ")-not-compared")
			return
		}
	}
	if bare != line && !strings.HasPrefix(bare, "SKIPPED") && !strings.HasPrefix(line, "SKIPPED") {
		c.Violate("decode-vs-decodevp8l", "webp.Decode and lossless.DecodeVP8L disagree on a valid stream", map[string]any{"origin": origin, "file": hex.EncodeToString(file), "decode": line, "bare": bare})
	}
	c.Case("dec "+tr.tag()+" "+hx, line)
	c.D.Evaluations++
	c.Count("stream:" + origin)
	for _, s := range tr.transforms {
		c.Count("transform:" + s)
	}
	c.Count(fmt.Sprintf("cache-bits:%d", tr.cache))
	c.Count(fmt.Sprintf("meta-bits:%d", tr.metaBits))
	if tr.ok {
		c.Nontrivial(origin + " " + tr.signature())
	}
}

// replanCheck recovers the plan a stream is the emission of (extracted Vp8lTrace.trace_decode) and
// checks it against the hypothesis of the proved theorem: wf_planb plan = true and emit plan = bytes.
// When both hold, C03_emit_decode_checked says Spec.decode bytes = sem plan for these very bytes.
func replanCheck(c *Ctx, r *runner, hx, goLine, origin string) (inFragment bool) {
	ans := r.ask("replan " + hx)
	f := strings.Fields(ans)
	if len(f) < 3 || f[0] != "R" || f[1] == "ERR" {
		c.Count("replan:" + origin + ":not-recovered")
		return false
	}
	if f[1] == "wf=1" && f[2] == "emit=1" {
		c.Count("replan:" + origin + ":in-proved-fragment(wf_planb & byte-exact re-emission)")
		if sem := strings.Join(f[3:], " "); sem != goLine {
			c.Violate("sem-of-recovered-plan-vs-decode", "the pixels denoted by the plan recovered from a stream differ from what Decode returns", map[string]any{"origin": origin, "stream": hx, "sem": sem, "decode": goLine})
		}
		return true
	}
	c.Count("replan:" + origin + ":outside-proved-fragment(" + f[1] + "," + f[2] + ")")
	return false
}

func encoderStreams(c *Ctx, r *runner) {
	rng := c.Rng.Fork()
	colorClasses := []int{1, 2, 3, 4, 5, 9, 16, 17, 40, 256, 0, 0, 0, 0}
	qualities := []int{0, 9, 10, 24, 25, 49, 50, 74, 75, 89, 90, 100}
	maxDim := 24
	reps := 1
	if c.Thorough() {
		maxDim = 96
		reps = 3
	}
	if v := os.Getenv("C03_MAXDIM"); v != "" { // experiments only
		fmt.Sscan(v, &maxDim)
	}
	for rep := 0; rep < reps; rep++ {
		for _, nc := range colorClasses {
			for m := 0; m <= 6; m++ {
				for _, q := range qualities {
					// the full product is large: sample Quality per (colours, method) in quick
					if !c.Thorough() && rng.Intn(4) != 0 {
						continue
					}
					s := srcSpec{W: rng.Range(1, maxDim), H: rng.Range(1, maxDim), Colors: nc, Alpha: rng.Intn(3), Method: m, Quality: q}
					if rng.Intn(6) == 0 {
						s.W = rng.Pick(1, 2, 7, 8, 9, 15, 16, 17)
					}
					im := makeImage(rng.Fork(), s)
					file, err := encodeLossless(im, m, q, true)
					if err != nil {
						c.Count("observation:encode-error") // not a decoder matter
						continue
					}
					streamCase(c, r, file, "encoder")
					c.Sample(map[string]any{"kind": "encoder-stream", "spec": s, "bytes": len(file)})
				}
			}
		}
	}
}

func testdataStreams(c *Ctx, r *runner) {
	repo := os.Getenv("VERIF_REPO")
	if repo == "" {
		repo = "/repo"
	}
	files := []string{"testdata/gradient_8x8_lossless.webp", "testdata/red_4x4_lossless.webp"}
	if c.Thorough() {
		files = append(files, "testdata/lossless/bug-decode/input-vp8l.webp")
	}
	for _, f := range files {
		b, err := os.ReadFile(filepath.Join(repo, f))
		if err != nil {
			c.Count("testdata-missing")
			continue
		}
		streamCase(c, r, b, "testdata")
	}
}

// ---------------------------------------------------------------- (a) plans

func planCases(c *Ctx, r *runner) {
	rng := c.Rng.Fork()
	n, maxDim := 140, 40
	if c.Thorough() {
		n, maxDim = 1500, 96
	}
	if v := os.Getenv("C03_PLANS"); v != "" { // experiments only
		fmt.Sscan(v, &n)
	}
	cover := coverPlans(rng.Fork())
	n += len(cover)
	for i := 0; i < n; i++ {
		md := maxDim
		if i%4 != 0 {
			md = 20 // most plans small: the feature space, not the pixel count, is what matters
		}
		var p *pplan
		if i < len(cover) {
			p = cover[i]
			c.Count("plan:covering-plan")
		} else {
			p = genPlan(rng.Fork(), md)
		}
		txt := p.text()
		ans := r.ask("emit " + txt)
		if !strings.HasPrefix(ans, "H ") {
			c.Count("observation:generator-plan-not-emitted(skipped)") // a harness matter, no /repo code involved
			continue
		}
		if wf := r.ask("wf " + txt); wf != "W 1" {
			// not known to be a valid stream: outside the property's quantifier, not compared
			c.Count("observation:generated-plan-not-wf(skipped)")
			continue
		}
		c.Count("plan:accepted-by-wf_planb(emit_decode applies)")
		payload, _ := hex.DecodeString(ans[2:])
		file := riffWrap(payload)
		line, _ := goDecode(file)
		bare := goDecodeBare(payload)
		if line == "TIMEOUT" || line == "PANIC" || bare == "TIMEOUT" || bare == "PANIC" {
			c.Violate("decode-"+strings.ToLower(line+"/"+bare), "the decoder hangs or panics on a valid stream (emitted from a well-formed plan)",
				map[string]any{"file_hex": hex.EncodeToString(file), "width": p.w, "height": p.h, "decode": line, "bare": bare})
		} else if bare != line && !strings.HasPrefix(bare, "SKIPPED") && !strings.HasPrefix(line, "SKIPPED") {
			c.Violate("decode-vs-decodevp8l", "webp.Decode and lossless.DecodeVP8L disagree", map[string]any{"plan": txt, "decode": line, "bare": bare})
		}
		writeCorpus(i, p, file)
		tag := "t=" + p.transformSig()
		if p.packedIndexNotLast() {
			tag += ";packed-index-then-transform"
		}
		c.Case("plan "+tag+" "+txt, line)
		c.D.Evaluations++
		c.Count("plan")
		c.Count("plan-transform-order:" + p.orderSig())
		nplane := 0
		for k, v := range p.cov {
			if strings.HasPrefix(k, "plane-code:") {
				c.D.Distribution["distinct-plane-codes-hit"] |= 0
				planeSeen[k] = true
				nplane++
				continue
			}
			if c.D.Distribution == nil {
				c.D.Distribution = map[string]int{}
			}
			if strings.HasPrefix(k, "max:") {
				if v > c.D.Distribution["plan:"+k] {
					c.D.Distribution["plan:"+k] = v
				}
				continue
			}
			c.D.Distribution["plan:"+k] += v
		}
		c.Nontrivial(fmt.Sprintf("plan %s meta=%v cache=%v", p.transformSig(), p.meta != nil, p.main.cb > 0))
		if i < 2 {
			c.Sample(map[string]any{"kind": "plan", "w": p.w, "h": p.h, "transforms": p.transformSig(), "bytes": len(payload), "result": line})
		}
	}
	if c.D.Distribution != nil {
		c.D.Distribution["distinct-plane-codes-hit"] = len(planeSeen)
	}
}

var planeSeen = map[string]bool{}

// writeCorpus: with C03_WRITE_CORPUS=<dir> the RIFF-wrapped emitted streams of the covering plans and of
// the small random plans are written out as foreign valid VP8L files (used by harness/c05).
func writeCorpus(i int, p *pplan, file []byte) {
	dir := os.Getenv("C03_WRITE_CORPUS")
	if dir == "" || (len(file) > 6000 && !(i < 25 && len(file) < 60000)) { // the covering plans come first
		return
	}
	os.MkdirAll(dir, 0o755)
	name := fmt.Sprintf("p%04d_%dx%d_t%s_m%d.webp", i, p.w, p.h, p.orderSig(), p.metaBits)
	os.WriteFile(filepath.Join(dir, name), file, 0o644)
}

func main() {
	Main("c03", func(c *Ctx) {
		r, err := startRunner()
		if err != nil {
			panic(err)
		}
		defer r.close()
		c.D.Rule = "a case counts as non-trivial once per distinct (origin, transform list with bits, cache on/off, meta image on/off, several groups) signature of a stream that the specification decoder accepts"
		testdataStreams(c, r)
		encoderStreams(c, r)
		planCases(c, r)
		kernelCases(c)
	})
}
