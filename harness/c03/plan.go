package main

// Random well-formed VP8L plans (see coq/theories/Vp8l/Vp8lEmit.v).  The generator
// simulates the decoder while it draws tokens, so that every backward reference
// stays inside the image and every symbol that is used gets a code word; the
// prefix codes are then drawn as random complete codes over the used symbols
// (plus random unused ones), with a random run-length tokenisation of their
// lengths and a random code-length code.
//
// Text form (all integers, space separated), parsed by extract/c03/run.ml:
//   plan  := w h alpha nT {transform} hasmeta [metabits eimg] eimg
//   transform := 0 bits eimg | 1 bits eimg | 2 | 3 ncolors eimg
//   eimg  := cachebits ngroups {5 x code} ntokens {token}
//   code  := 0 nsyms sym.. | 1 ncl cl[19] usemax ntoks {cltok}
//   cltok := l (0..15) | 16 n | 17 n | 18 n
//   token := 0 a r g b | 1 key | 2 len distcode

import (
	"fmt"
	"sort"
	"strings"

	. "verifharness/hlib"
)

type ptok struct {
	kind       int // 0 literal, 1 cache, 2 copy
	argb       uint32
	key        int
	length, dc int
}

type pcode struct {
	simple bool
	syms   []int
	ncl    int
	cl     [19]int
	usemax int
	toks   [][2]int // (16|17|18, n) or (l, -1)
}

type peimg struct {
	cb     int
	groups [][5]pcode
	toks   []ptok
	pix    []uint32 // the pixels the tokens denote (simulation result)
}

type ptrans struct {
	typ, bits, ncolors int
	sub                *peimg
}

type pplan struct {
	w, h, alpha int
	ts          []ptrans
	metaBits    int
	meta        *peimg
	main        *peimg
	cov         map[string]int
}

func (c *pcode) write(sb *strings.Builder) {
	if c.simple {
		fmt.Fprintf(sb, " 0 %d", len(c.syms))
		for _, s := range c.syms {
			fmt.Fprintf(sb, " %d", s)
		}
		return
	}
	fmt.Fprintf(sb, " 1 %d", c.ncl)
	for _, l := range c.cl {
		fmt.Fprintf(sb, " %d", l)
	}
	fmt.Fprintf(sb, " %d %d", c.usemax, len(c.toks))
	for _, t := range c.toks {
		if t[0] >= 16 {
			fmt.Fprintf(sb, " %d %d", t[0], t[1])
		} else {
			fmt.Fprintf(sb, " %d", t[0])
		}
	}
}

func (e *peimg) write(sb *strings.Builder) {
	fmt.Fprintf(sb, " %d %d", e.cb, len(e.groups))
	for i := range e.groups {
		for k := 0; k < 5; k++ {
			e.groups[i][k].write(sb)
		}
	}
	fmt.Fprintf(sb, " %d", len(e.toks))
	for _, t := range e.toks {
		switch t.kind {
		case 0:
			fmt.Fprintf(sb, " 0 %d %d %d %d", t.argb>>24, (t.argb>>16)&255, (t.argb>>8)&255, t.argb&255)
		case 1:
			fmt.Fprintf(sb, " 1 %d", t.key)
		default:
			fmt.Fprintf(sb, " 2 %d %d", t.length, t.dc)
		}
	}
}

func (p *pplan) text() string {
	var sb strings.Builder
	fmt.Fprintf(&sb, "%d %d %d %d", p.w, p.h, p.alpha, len(p.ts))
	for _, t := range p.ts {
		switch t.typ {
		case 0, 1:
			fmt.Fprintf(&sb, " %d %d", t.typ, t.bits)
			t.sub.write(&sb)
		case 2:
			sb.WriteString(" 2")
		case 3:
			fmt.Fprintf(&sb, " 3 %d", t.ncolors)
			t.sub.write(&sb)
		}
	}
	if p.meta != nil {
		fmt.Fprintf(&sb, " 1 %d", p.metaBits)
		p.meta.write(&sb)
	} else {
		sb.WriteString(" 0")
	}
	p.main.write(&sb)
	return sb.String()
}

func subsample(size, bits int) int { return (size + (1 << bits) - 1) >> bits }

func ciBits(n int) int {
	switch {
	case n <= 2:
		return 3
	case n <= 4:
		return 2
	case n <= 16:
		return 1
	}
	return 0
}

// the (dx, dy) table of the format, as frozen in Vp8lSpec.plane_lut
var planeLut = [120][2]int{{0, 1}, {1, 0}, {1, 1}, {-1, 1}, {0, 2}, {2, 0}, {1, 2}, {-1, 2}, {2, 1}, {-2, 1}, {2, 2}, {-2, 2}, {0, 3}, {3, 0}, {1, 3}, {-1, 3}, {3, 1}, {-3, 1}, {2, 3}, {-2, 3}, {3, 2}, {-3, 2}, {0, 4}, {4, 0}, {1, 4}, {-1, 4}, {4, 1}, {-4, 1}, {3, 3}, {-3, 3}, {2, 4}, {-2, 4}, {4, 2}, {-4, 2}, {0, 5}, {3, 4}, {-3, 4}, {4, 3}, {-4, 3}, {5, 0}, {1, 5}, {-1, 5}, {5, 1}, {-5, 1}, {2, 5}, {-2, 5}, {5, 2}, {-5, 2}, {4, 4}, {-4, 4}, {3, 5}, {-3, 5}, {5, 3}, {-5, 3}, {0, 6}, {6, 0}, {1, 6}, {-1, 6}, {6, 1}, {-6, 1}, {2, 6}, {-2, 6}, {6, 2}, {-6, 2}, {4, 5}, {-4, 5}, {5, 4}, {-5, 4}, {3, 6}, {-3, 6}, {6, 3}, {-6, 3}, {0, 7}, {7, 0}, {1, 7}, {-1, 7}, {5, 5}, {-5, 5}, {7, 1}, {-7, 1}, {4, 6}, {-4, 6}, {6, 4}, {-6, 4}, {2, 7}, {-2, 7}, {7, 2}, {-7, 2}, {3, 7}, {-3, 7}, {7, 3}, {-7, 3}, {5, 6}, {-5, 6}, {6, 5}, {-6, 5}, {8, 0}, {4, 7}, {-4, 7}, {7, 4}, {-7, 4}, {8, 1}, {8, 2}, {6, 6}, {-6, 6}, {8, 3}, {5, 7}, {-5, 7}, {7, 5}, {-7, 5}, {8, 4}, {6, 7}, {-6, 7}, {7, 6}, {-7, 6}, {8, 5}, {7, 7}, {-7, 7}, {8, 6}, {8, 7}}

func planeDist(w, dc int) int {
	if dc > 120 {
		return dc - 120
	}
	d := planeLut[dc-1][0] + planeLut[dc-1][1]*w
	if d < 1 {
		return 1
	}
	return d
}

func lzPrefix(v int) (sym, eb, ev int) {
	d := v - 1
	if d < 2 {
		return d, 0, 0
	}
	hb := 0
	for t := d; t > 1; t >>= 1 {
		hb++
	}
	shb := (d >> (hb - 1)) & 1
	eb = hb - 1
	return 2*hb + shb, eb, d & ((1 << eb) - 1)
}

func cacheHash(bits int, argb uint32) int { return int((argb * 0x1e35a7bd) >> (32 - bits)) }

// ---------------------------------------------------------------- prefix codes

// randomCompleteLengths draws a complete code with n >= 2 leaves and depth <= maxLen.
// deepCodes (set while a `deep` covering plan is generated): every normal code is a chain 1,2,...,14,15,15
// (at least 16 symbols), and the symbols the tokens use most expensively - length and cache symbols of the
// green alphabet, every used distance symbol - get the 15-bit code words
var deepCodes bool

func randomCompleteLengths(rng *Rand, n, maxLen int) []int {
	leaves := []int{0}
	deep := rng.Intn(3) == 0 // skewed (long code words) or bushy
	if deepCodes {
		deep = true
	}
	for len(leaves) < n {
		var cand []int
		best := -1
		for i, d := range leaves {
			if d < maxLen {
				cand = append(cand, i)
				if best < 0 || d > leaves[best] {
					best = i
				}
			}
		}
		i := cand[rng.Intn(len(cand))]
		if deep && (deepCodes || rng.Intn(4) != 0) {
			i = best
		}
		d := leaves[i]
		leaves[i] = d + 1
		leaves = append(leaves, d+1)
	}
	// shuffle
	for i := len(leaves) - 1; i > 0; i-- {
		j := rng.Intn(i + 1)
		leaves[i], leaves[j] = leaves[j], leaves[i]
	}
	return leaves
}

// makeCode builds a code plan over `alphabet` in which every symbol of `used` has a code word.
func makeCode(rng *Rand, alphabet int, used map[int]bool, cov map[string]int) pcode {
	var u []int
	for s := 0; s < alphabet; s++ {
		if used[s] {
			u = append(u, s)
		}
	}
	// simple code when possible
	simpleOK := len(u) <= 2
	for _, s := range u {
		if s >= 256 {
			simpleOK = false
		}
	}
	if simpleOK && rng.Intn(3) != 0 && !deepCodes {
		syms := append([]int{}, u...)
		lim := alphabet
		if lim > 256 {
			lim = 256
		}
		for len(syms) < 1 || (len(syms) < 2 && rng.Intn(2) == 0) {
			syms = append(syms, rng.Intn(lim)) // may repeat a symbol: then it is a one-symbol code
		}
		if len(syms) == 2 && rng.Bool() {
			syms[0], syms[1] = syms[1], syms[0]
		}
		cov[fmt.Sprintf("code:simple%d", len(syms))]++
		if len(syms) == 2 && syms[0] > syms[1] {
			cov["code:simple2-larger-symbol-first"]++
		}
		if syms[0] < 2 {
			cov["code:simple-1bit-symbol"]++
		}
		return pcode{simple: true, syms: syms}
	}
	// normal code: add unused symbols
	set := map[int]bool{}
	for _, s := range u {
		set[s] = true
	}
	extra := 0
	switch rng.Intn(4) {
	case 0:
		extra = rng.Intn(4)
	case 1:
		extra = rng.Intn(alphabet/4 + 1)
	case 2:
		extra = alphabet // everything
	}
	for i := 0; i < extra; i++ {
		set[rng.Intn(alphabet)] = true
	}
	for deepCodes && len(set) < 16 && len(set) < alphabet {
		set[rng.Intn(alphabet)] = true
	}
	if len(set) == 0 {
		set[rng.Intn(alphabet)] = true
	}
	lens := make([]int, alphabet)
	if len(set) == 1 {
		for s := range set {
			lens[s] = rng.Range(1, 15) // one used symbol: any length, zero bits per symbol
		}
		cov["code:normal-single-symbol"]++
	} else {
		ls := randomCompleteLengths(rng, len(set), 15)
		if deepCodes {
			// longest code words first; symbols are visited from the top of the alphabet (length / cache /
			// distance symbols with many extra bits) when they are used by a token, then the rest
			sort.Sort(sort.Reverse(sort.IntSlice(ls)))
			k := 0
			for s := alphabet - 1; s >= 0; s-- {
				if set[s] && used[s] && (alphabet <= 256 || s >= 256) {
					lens[s] = ls[k]
					k++
				}
			}
			for s := alphabet - 1; s >= 0; s-- {
				if set[s] && lens[s] == 0 {
					lens[s] = ls[k]
					k++
				}
			}
			cov["code:deep-chain"]++
		}
		i := 0
		mx := 0
		for s := 0; s < alphabet; s++ {
			if set[s] && deepCodes {
				if lens[s] > mx {
					mx = lens[s]
				}
				continue
			}
			if set[s] {
				lens[s] = ls[i]
				if ls[i] > mx {
					mx = ls[i]
				}
				i++
			}
		}
		cov["code:normal"]++
		if mx > 8 {
			cov["code:normal-longer-than-root-table"]++
		}
		if mx == 15 {
			cov["code:normal-length15"]++
		}
	}
	// run-length tokenisation
	last := -1
	for s := 0; s < alphabet; s++ {
		if lens[s] != 0 {
			last = s
		}
	}
	useMax := rng.Intn(3) == 0
	end := alphabet
	if useMax {
		end = last + 1 + rng.Intn(alphabet-last) // stop somewhere after the last non-zero length
	}
	var toks [][2]int
	prev := 8
	for i := 0; i < end; {
		run := 1
		for i+run < end && lens[i+run] == lens[i] {
			run++
		}
		l := lens[i]
		switch {
		case l == 0 && run >= 11 && rng.Intn(4) != 0:
			n := rng.Range(11, min(run, 138))
			toks = append(toks, [2]int{18, n})
			cov["cltok:18"]++
			i += n
		case l == 0 && run >= 3 && rng.Intn(4) != 0:
			n := rng.Range(3, min(run, 10))
			toks = append(toks, [2]int{17, n})
			cov["cltok:17"]++
			i += n
		case l != 0 && l == prev && run >= 3 && rng.Intn(4) != 0:
			n := rng.Range(3, min(run, 6))
			toks = append(toks, [2]int{16, n})
			cov["cltok:16"]++
			if i == 0 || (prev == 8 && !anyNonZero(lens[:i])) {
				cov["cltok:16-initial-8"]++
			}
			i += n
		default:
			toks = append(toks, [2]int{l, -1})
			if l != 0 {
				prev = l
			}
			i++
		}
	}
	c := pcode{usemax: -1, toks: toks}
	if useMax {
		if len(toks) < 2 {
			// max_symbol cannot express fewer than 2 tokens: cover the rest literally
			for covered := tokSpan(toks); len(toks) < 2 && covered < alphabet; covered++ {
				toks = append(toks, [2]int{0, -1})
			}
			c.toks = toks
		}
		if len(toks) >= 2 {
			k := 0
			for len(toks)-2 >= 1<<(2+2*k) {
				k++
			}
			if k < 7 && rng.Intn(3) == 0 {
				k += rng.Range(1, 7-k)
			}
			c.usemax = k
			cov["code:max_symbol"]++
		} else {
			c.usemax = -1 // alphabet of size 1 cannot happen (all alphabets >= 40)
		}
	}
	// code-length code over the token symbols
	usedCL := map[int]bool{}
	for _, t := range c.toks {
		usedCL[t[0]] = true
	}
	for i := rng.Intn(3) * rng.Intn(6); i > 0; i-- {
		usedCL[rng.Intn(19)] = true
	}
	var cls []int
	for s := 0; s < 19; s++ {
		if usedCL[s] {
			cls = append(cls, s)
		}
	}
	if len(cls) == 1 {
		c.cl[cls[0]] = rng.Range(1, 7)
		cov["clcode:single-symbol"]++
	} else {
		ls := randomCompleteLengths(rng, len(cls), 7)
		for i, s := range cls {
			c.cl[s] = ls[i]
		}
	}
	order := [19]int{17, 18, 0, 1, 2, 3, 4, 5, 16, 6, 7, 8, 9, 10, 11, 12, 13, 14, 15}
	c.ncl = 4
	for i, s := range order {
		if c.cl[s] != 0 && i+1 > c.ncl {
			c.ncl = i + 1
		}
	}
	if rng.Intn(3) == 0 {
		c.ncl = rng.Range(c.ncl, 19)
	}
	return c
}

func anyNonZero(l []int) bool {
	for _, v := range l {
		if v != 0 {
			return true
		}
	}
	return false
}

func tokSpan(toks [][2]int) int {
	n := 0
	for _, t := range toks {
		if t[0] >= 16 {
			n += t[1]
		} else {
			n++
		}
	}
	return n
}

// ---------------------------------------------------------------- entropy-coded images

type eimgOpts struct {
	w, h     int
	lit      func(rng *Rand, pos int) uint32 // literal generator (respects the role of the image)
	gidx     func(x, y int) int              // group of a position
	ngroups  int
	maxCache int
	copyProb int // percent
	cov      map[string]int
	forceCB  int   // > 0: exactly this many cache bits
	forceDCs []int // distance codes that must each be used by some copy token (as soon as they fit)
}

func genEimg(rng *Rand, o eimgOpts) *peimg {
	e := &peimg{}
	total := o.w * o.h
	if o.maxCache > 0 && rng.Intn(2) == 0 {
		e.cb = rng.Range(1, o.maxCache)
	}
	if o.forceCB > 0 {
		e.cb = o.forceCB
	}
	pendingDC := append([]int{}, o.forceDCs...)
	o.cov[fmt.Sprintf("cache-bits:%d", e.cb)]++
	var cache []uint32
	if e.cb > 0 {
		cache = make([]uint32, 1<<e.cb)
	}
	pix := make([]uint32, 0, total)
	used := make([][5]map[int]bool, o.ngroups)
	for i := range used {
		for k := 0; k < 5; k++ {
			used[i][k] = map[int]bool{}
		}
	}
	insert := func(v uint32) {
		if e.cb > 0 {
			cache[cacheHash(e.cb, v)] = v
		}
	}
	for pos := 0; pos < total; {
		g := o.gidx(pos%o.w, pos/o.w)
		if g > o.cov["max:group-index-referenced-by-a-token"] {
			o.cov["max:group-index-referenced-by-a-token"] = g
		}
		r := rng.Intn(100)
		forced := 0
		if len(pendingDC) > 0 && planeDist(o.w, pendingDC[0]) <= pos && total-pos > len(pendingDC) {
			forced = pendingDC[0]
			pendingDC = pendingDC[1:]
			r = -1
		}
		switch {
		case pos > 0 && r < o.copyProb:
			// backward reference
			var dc int
			for try := 0; forced == 0; try++ {
				switch rng.Intn(4) {
				case 0, 1:
					dc = rng.Range(1, 120)
				case 2:
					dc = 120 + rng.Range(1, min(pos, 6))
				default:
					dc = 120 + rng.Range(1, pos)
				}
				if planeDist(o.w, dc) <= pos {
					break
				}
				if try > 20 {
					dc = 121
					break
				}
			}
			if forced != 0 {
				dc = forced
			}
			dist := planeDist(o.w, dc)
			rem := total - pos
			if forced != 0 {
				rem = min(rem, 2) // keep room for the remaining forced codes
			}
			var ln int
			switch rng.Intn(5) {
			case 0:
				ln = rng.Range(1, min(rem, 4))
			case 1:
				ln = rng.Range(1, min(rem, 3*o.w+2))
			case 2:
				ln = rng.Range(1, min(rem, 4096))
			case 3:
				ln = min(rem, dist+rng.Intn(2*dist+3)) // overlapping
			default:
				ln = rng.Range(1, min(rem, 40))
			}
			if ln < 1 {
				ln = 1
			}
			if dc <= 120 {
				o.cov["copy:plane-code"]++
				o.cov[fmt.Sprintf("plane-code:%d", dc)]++
				if planeLut[dc-1][0]+planeLut[dc-1][1]*o.w < 1 {
					o.cov["copy:dist-clamped-to-1"]++
				}
			} else {
				o.cov["copy:linear-distance"]++
			}
			if ln > dist {
				o.cov["copy:overlapping"]++
			}
			if pos%o.w+ln > o.w {
				o.cov["copy:crossing-rows"]++
			}
			ls, _, _ := lzPrefix(ln)
			ds, _, _ := lzPrefix(dc)
			used[g][0][256+ls] = true
			used[g][4][ds] = true
			for i := 0; i < ln; i++ {
				v := pix[pos-dist]
				pix = append(pix, v)
				insert(v)
				pos++
			}
			e.toks = append(e.toks, ptok{kind: 2, length: ln, dc: dc})
		case e.cb > 0 && r < o.copyProb+25:
			key := rng.Intn(1 << e.cb)
			if pos > 0 && rng.Intn(3) != 0 {
				key = cacheHash(e.cb, pix[rng.Intn(pos)]) // slot of a pixel seen before
			}
			v := cache[key]
			used[g][0][280+key] = true
			pix = append(pix, v)
			insert(v)
			pos++
			e.toks = append(e.toks, ptok{kind: 1, key: key})
			o.cov["token:cache"]++
		default:
			v := o.lit(rng, pos)
			used[g][0][int(v>>8)&255] = true
			used[g][1][int(v>>16)&255] = true
			used[g][2][int(v)&255] = true
			used[g][3][int(v>>24)] = true
			pix = append(pix, v)
			insert(v)
			pos++
			e.toks = append(e.toks, ptok{kind: 0, argb: v})
		}
	}
	e.pix = pix
	cs := 0
	if e.cb > 0 {
		cs = 1 << e.cb
	}
	alph := [5]int{280 + cs, 256, 256, 256, 40}
	e.groups = make([][5]pcode, o.ngroups)
	for gi := 0; gi < o.ngroups; gi++ {
		for k := 0; k < 5; k++ {
			e.groups[gi][k] = makeCode(rng, alph[k], used[gi][k], o.cov)
		}
	}
	return e
}

// literal generators: few distinct values (so that simple / single-symbol codes
// occur) or arbitrary
func litGen(rng *Rand, mask uint32, fix func(uint32) uint32) func(*Rand, int) uint32 {
	mode := rng.Intn(4)
	var pal []uint32
	n := rng.Pick(1, 2, 3, 8)
	for i := 0; i < n; i++ {
		pal = append(pal, fix(uint32(rng.U64())&mask))
	}
	chan1 := rng.Intn(4) // which channel varies in mode 2
	base := fix(uint32(rng.U64()) & mask)
	return func(r *Rand, pos int) uint32 {
		switch mode {
		case 0:
			return pal[r.Intn(len(pal))]
		case 1:
			return fix(uint32(r.U64()) & mask)
		case 2:
			sh := uint(8 * chan1)
			return fix((base&^(0xff<<sh) | uint32(r.Intn(256))<<sh) & mask)
		default:
			if r.Intn(4) == 0 {
				return fix(uint32(r.U64()) & mask)
			}
			return pal[r.Intn(len(pal))]
		}
	}
}

// planOpts forces features of a generated plan (zero value: everything random).
type planOpts struct {
	w, h       int
	transforms []ptrans // typ (+ bits / ncolors) forced, sub-images generated
	fixTs      bool     // use exactly `transforms` (possibly none)
	metaBits   int      // > 0: meta image with these bits
	metaGroups int      // wanted number of groups (with metaBits)
	metaHigh   bool     // half of the tiles refer to a group with index >= 256
	cacheBits  int      // > 0: main image cache bits
	allDCs     bool     // every distance code 1..120 is used
	randomLits bool     // main literals uniformly random
	deep       bool     // chain codes with 15-bit code words on the expensive symbols, many long copies
}

func genPlan(rng *Rand, maxDim int) *pplan { return genPlanOpts(rng, maxDim, planOpts{}) }

func genPlanOpts(rng *Rand, maxDim int, po planOpts) *pplan {
	p := &pplan{cov: map[string]int{}}
	if po.deep {
		deepCodes = true
		defer func() { deepCodes = false }()
	}
	p.w, p.h = rng.Range(1, maxDim), rng.Range(1, maxDim)
	switch rng.Intn(8) {
	case 0:
		p.w = 1
	case 1:
		p.h = 1
	case 2:
		p.w = rng.Pick(2, 3, 4, 5, 7, 8, 9, 15, 16, 17)
	}
	if po.w > 0 {
		p.w, p.h = po.w, po.h
	}
	p.alpha = rng.Intn(2)
	sub := func(w, h int, lit func(*Rand, int) uint32) *peimg {
		return genEimg(rng.Fork(), eimgOpts{w: w, h: h, lit: lit, gidx: func(int, int) int { return 0 }, ngroups: 1,
			maxCache: rng.Pick(0, 0, 4, 11), copyProb: rng.Pick(0, 10, 30), cov: p.cov})
	}
	// transforms: random subset in random order
	order := []int{0, 1, 2, 3}
	for i := 3; i > 0; i-- {
		j := rng.Intn(i + 1)
		order[i], order[j] = order[j], order[i]
	}
	cw := p.w
	nT := rng.Intn(5)
	if rng.Intn(3) == 0 {
		nT = 4
	}
	forcedT := map[int]ptrans{}
	if po.fixTs {
		order = order[:0]
		for _, t := range po.transforms {
			order = append(order, t.typ)
			forcedT[t.typ] = t
		}
		nT = len(order)
	}
	for _, ty := range order[:nT] {
		ft, isForced := forcedT[ty]
		switch ty {
		case 0:
			bits := rng.Pick(2, 2, 2, 3, 4, 5, 6, 7, 8, 9)
			if isForced && ft.bits > 0 {
				bits = ft.bits
			}
			p.cov[fmt.Sprintf("tile-bits:%d", bits)]++
			modes := rng.Intn(3)
			one := uint32(rng.Intn(14))
			lit := litGen(rng, 0xffffffff, func(v uint32) uint32 {
				m := (v >> 8) & 0xff % 14
				if modes == 0 {
					m = one
				}
				return v&0xffff00ff | m<<8
			})
			p.ts = append(p.ts, ptrans{typ: 0, bits: bits, sub: sub(subsample(cw, bits), subsample(p.h, bits), lit)})
		case 1:
			bits := rng.Pick(2, 2, 2, 3, 4, 5, 6, 7, 8, 9)
			if isForced && ft.bits > 0 {
				bits = ft.bits
			}
			p.cov[fmt.Sprintf("tile-bits:%d", bits)]++
			p.ts = append(p.ts, ptrans{typ: 1, bits: bits, sub: sub(subsample(cw, bits), subsample(p.h, bits), litGen(rng, 0xffffffff, func(v uint32) uint32 { return v }))})
		case 2:
			p.ts = append(p.ts, ptrans{typ: 2})
		case 3:
			n := rng.Pick(1, 2, 2, 3, 4, 4, 5, 9, 16, 16, 17, 40, 255, 256)
			if rng.Intn(3) == 0 {
				n = rng.Range(1, 256)
			}
			if isForced && ft.ncolors > 0 {
				n = ft.ncolors
			}
			p.ts = append(p.ts, ptrans{typ: 3, ncolors: n, sub: sub(n, 1, litGen(rng, 0xffffffff, func(v uint32) uint32 { return v }))})
			cw = subsample(cw, ciBits(n))
			p.cov[fmt.Sprintf("index:packing-bits-%d", ciBits(n))]++
			if p.w%(1<<ciBits(n)) != 0 {
				p.cov["index:width-not-multiple-of-packing"]++
			}
		}
	}
	// meta prefix image
	ngroups := 1
	gidx := func(int, int) int { return 0 }
	if (rng.Intn(2) == 0 && !po.fixTs) || po.metaBits > 0 {
		p.metaBits = rng.Pick(2, 2, 3, 4, 5, 9)
		if po.metaBits > 0 {
			p.metaBits = po.metaBits
		}
		p.cov[fmt.Sprintf("meta-tile-bits:%d", p.metaBits)]++
		mw, mh := subsample(cw, p.metaBits), subsample(p.h, p.metaBits)
		want := rng.Pick(1, 2, 3, 5, 17)
		switch rng.Intn(12) {
		case 0:
			want = 257 + rng.Intn(100) // needs the red channel
		case 1:
			want = 1001 + rng.Intn(20) // the decoder's > 1000 groups path
		case 2:
			want = mw*mh + 1 + rng.Intn(5) // more groups than pixels
		}
		if po.metaGroups > 0 {
			want = po.metaGroups
		}
		lit := func(r *Rand, pos int) uint32 {
			g := uint32(r.Intn(want))
			if r.Intn(8) == 0 {
				g = uint32(want - 1)
			}
			if po.metaHigh && want > 256 && r.Intn(2) == 0 {
				g = uint32(256 + r.Intn(want-256)) // red byte non-zero
			}
			return uint32(r.Intn(256))<<24 | g<<8 | uint32(r.Intn(256))
		}
		p.meta = genEimg(rng.Fork(), eimgOpts{w: mw, h: mh, lit: lit, gidx: func(int, int) int { return 0 }, ngroups: 1,
			maxCache: rng.Pick(0, 3), copyProb: rng.Pick(0, 20), cov: p.cov})
		mx := 0
		for _, v := range p.meta.pix {
			if g := int(v>>8) & 0xffff; g > mx {
				mx = g
			}
		}
		ngroups = mx + 1
		if mx > p.cov["max:group-index-in-meta-image"] {
			p.cov["max:group-index-in-meta-image"] = mx
		}
		meta := p.meta.pix
		mb := p.metaBits
		gidx = func(x, y int) int { return int(meta[(y>>mb)*mw+(x>>mb)]>>8) & 0xffff }
		switch {
		case ngroups > 1000:
			p.cov["meta:more-than-1000-groups"]++
		case ngroups > cw*p.h:
			p.cov["meta:more-groups-than-pixels"]++
		case ngroups > 256:
			p.cov["meta:more-than-256-groups"]++
		case ngroups > 1:
			p.cov["meta:2..256-groups"]++
		default:
			p.cov["meta:1-group"]++
		}
	}
	mainLit := litGen(rng, 0xffffffff, func(v uint32) uint32 { return v })
	if po.randomLits {
		mainLit = func(r *Rand, pos int) uint32 { return uint32(r.U64()) }
	}
	mo := eimgOpts{w: cw, h: p.h, lit: mainLit,
		gidx: gidx, ngroups: ngroups, maxCache: rng.Pick(0, 2, 6, 11, 11), copyProb: deepCopyProb(rng, po), cov: p.cov, forceCB: po.cacheBits}
	if po.allDCs {
		for dc := 1; dc <= 120; dc++ {
			mo.forceDCs = append(mo.forceDCs, dc)
		}
	}
	p.main = genEimg(rng.Fork(), mo)
	// palette index beyond the palette (denotes transparent black): observable when the colour-indexing
	// transform is the last one in the stream, i.e. its inverse reads the entropy-coded pixels directly
	if n := len(p.ts); n > 0 && p.ts[n-1].typ == 3 {
		nc, wb := p.ts[n-1].ncolors, ciBits(p.ts[n-1].ncolors)
		bpp := 8 >> wb
		for _, v := range p.main.pix {
			g := int(v>>8) & 255
			for k := 0; k < 1<<wb; k++ {
				if (g>>(k*bpp))&(1<<bpp-1) >= nc {
					p.cov["index:palette-index-beyond-palette"]++
					k = 99
				}
			}
		}
	}
	return p
}

// coverPlans: plans that hit, in every run, the features a random draw may miss.
func deepCopyProb(rng *Rand, po planOpts) int {
	if po.deep {
		return 35
	}
	return rng.Pick(0, 5, 20, 50)
}

func coverPlans(rng *Rand) []*pplan {
	var ps []*pplan
	// worst-case bit consumption between two refills of the decoder's bit window: 15-bit code words for the
	// length symbols (up to 10 extra bits) and the distance symbols (up to 18 extra bits), copies after
	// literal runs of every length so that every alignment of the window is met
	for i := 0; i < 8; i++ {
		ps = append(ps, genPlanOpts(rng.Fork(), 0, planOpts{w: 64, h: rng.Range(48, 64), fixTs: true, deep: true}))
	}
	// > 256 prefix-code groups, tiles referring to groups >= 256 (red byte of the entropy image), random
	// literals so that every group has its own codes
	for i := 0; i < 3; i++ {
		ps = append(ps, genPlanOpts(rng.Fork(), 0, planOpts{w: rng.Range(16, 28), h: rng.Range(12, 20), fixTs: true,
			metaBits: 2, metaGroups: 300 + 40*i, metaHigh: true, randomLits: true}))
	}
	// every distance code 1..120
	ps = append(ps, genPlanOpts(rng.Fork(), 0, planOpts{w: 20, h: 24, fixTs: true, allDCs: true}))
	ps = append(ps, genPlanOpts(rng.Fork(), 0, planOpts{w: 5, h: 40, fixTs: true, allDCs: true, cacheBits: 11}))
	// narrow images: all 120 plane codes, most of which fall on distance < 1 and are clamped to 1
	for _, w := range []int{1, 2, 3} {
		ps = append(ps, genPlanOpts(rng.Fork(), 0, planOpts{w: w, h: 150, fixTs: true, allDCs: true}))
		ps = append(ps, genPlanOpts(rng.Fork(), 0, planOpts{w: w, h: 150, allDCs: true}))
	}
	// cache bits 11, tile bits 9 (predictor, cross-colour, meta)
	ps = append(ps, genPlanOpts(rng.Fork(), 0, planOpts{w: 19, h: 11, fixTs: true, cacheBits: 11, metaBits: 9,
		transforms: []ptrans{{typ: 0, bits: 9}, {typ: 1, bits: 9}}}))
	// palette indices beyond the palette, for each packing
	for _, n := range []int{1, 3, 5, 17, 200} {
		ps = append(ps, genPlanOpts(rng.Fork(), 0, planOpts{w: rng.Range(9, 17), h: rng.Range(3, 8), fixTs: true, randomLits: true,
			transforms: []ptrans{{typ: 3, ncolors: n}}}))
	}
	return ps
}

func (p *pplan) transformSig() string {
	var s []string
	for _, t := range p.ts {
		switch t.typ {
		case 3:
			s = append(s, fmt.Sprintf("3/%d", ciBits(t.ncolors)))
		case 2:
			s = append(s, "2/0")
		default:
			s = append(s, fmt.Sprintf("%d/%d", t.typ, t.bits))
		}
	}
	return strings.Join(s, "+")
}

func (p *pplan) orderSig() string {
	var s []string
	for _, t := range p.ts {
		s = append(s, fmt.Sprint(t.typ))
	}
	return strings.Join(s, "")
}

func (p *pplan) packedIndexNotLast() bool {
	for i, t := range p.ts {
		if t.typ == 3 && ciBits(t.ncolors) > 0 && i != len(p.ts)-1 {
			return true
		}
	}
	return false
}
