package main

// Foreign streams: valid key frames from the independent emitter of package vp8gen (random syntax
// plans; see vp8gen.go), decoded by Go and by the specification decoder.

import (
	"fmt"
	"strings"

	. "verifharness/hlib"
	"verifharness/vp8gen"
)

func b2i(b bool) int {
	if b {
		return 1
	}
	return 0
}

func foreignStreams(c *Ctx) {
	rng := c.Rng.Fork()
	n, maxDim := 260, 64
	if c.Thorough() {
		n, maxDim = 3000, 160
	}
	for i := 0; i < n; i++ {
		r := rng.Fork()
		feat := ""
		switch i % 10 {
		case 3:
			feat = "segnoupd"
		case 6:
			feat = "midclamp"
		case 9:
			feat = "zeromb"
		case 1, 5:
			feat = "thr"
		}
		md := maxDim
		if i%7 != 0 && md > 48 {
			md = 48
		}
		p := vp8gen.RandPlan(r, md, feat)
		payload := p.Emit(r)
		tag := p.Tag()
		c.Count("foreign:" + strings.SplitN(tag, ":", 3)[1])
		for _, nt := range p.Notes {
			c.Count("foreign-note:" + nt)
		}
		c.Count(fmt.Sprintf("foreign:parts%d", 1<<uint(p.LogParts())))
		c.Count(fmt.Sprintf("foreign:simple%d", b2i(p.Simple())))
		c.Nontrivial(tag)
		if i < 2 {
			c.Sample(tag)
		}
		checkStream(c, tag, payload, i%5 == 0)
	}
}
