package main

// Foreign streams: valid key frames from the independent emitter of package vp8gen (random syntax
// plans; see vp8gen.go), decoded by Go and by the specification decoder.  Plans whose coefficients
// leave the 16-bit range of RFC 6386's own arithmetic (Plan.Wide) are outside "valid key frames with
// samples defined by the RFC": they are counted as observations and produce no case.

import (
	"fmt"
	"strings"

	webp "github.com/deepteams/webp"

	. "verifharness/hlib"
	"verifharness/vp8gen"
)

func b2i(b bool) int {
	if b {
		return 1
	}
	return 0
}

func foreignStreams(c *Ctx) {
	rng := c.Rng.Fork()
	n, maxDim := 340, 64 // about 4 in 10 plans are wide and only counted
	if c.Thorough() {
		n, maxDim = 4500, 160
	}
	for i := 0; i < n; i++ {
		r := rng.Fork()
		feat := ""
		switch i % 10 {
		case 3:
			feat = "segnoupd"
		case 6:
			feat = "midclamp"
		case 9:
			feat = "zeromb"
		case 1, 5:
			feat = "thr"
		}
		md := maxDim
		if i%7 != 0 && md > 48 {
			md = 48
		}
		p := vp8gen.RandPlan(r, md, feat)
		payload := p.Emit(r)
		tag := p.Tag()
		if p.Wide {
			// outside the property's domain: some coefficient set makes RFC 6386's own 16-bit variables
			// overflow (implementation-defined narrowing in its code), so the RFC defines no samples for
			// the frame.  Observed, never reported: no case, no violation.
			c.Count("observation:foreign-wide-coefficients")
			l1, _, _, _, _, _, pan := goDecode(payload)
			var l2 string
			webp.VerifWithPortableDecoderKernels(func() { l2, _, _, _, _, _, _ = goDecode(payload) })
			if pan != nil {
				c.Count("observation:wide-stream-decoder-panic")
			} else if l1 != l2 {
				c.Count("observation:wide-stream-dispatched-kernels-differ-from-portable")
			}
			continue
		}
		c.Count("foreign:" + strings.SplitN(tag, ":", 3)[1])
		for _, nt := range p.Notes {
			c.Count("foreign-note:" + nt)
		}
		c.Count(fmt.Sprintf("foreign:parts%d", 1<<uint(p.LogParts())))
		c.Count(fmt.Sprintf("foreign:simple%d", b2i(p.Simple())))
		c.Nontrivial(tag)
		if i < 2 {
			c.Sample(tag)
		}
		checkStream(c, tag, payload, i%5 == 0)
	}
}
