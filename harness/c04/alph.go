package main

// ALPH clause of C04: foreign ALPH chunks (raw and lossless-compressed x the four
// prediction filters x sizes incl. width 1 and height 1, pre-processing bits set or not,
// invalid compression values, truncated raw data) decoded by lossy.DecodeAlpha and by the
// public webp.Decode of a VP8X + ALPH + VP8 file, against the ALPH model with the VP8L
// specification decoder plugged in; and the colour samples of such files against the
// specification decoder + fancy upsampler + YUV->RGB model.

import (
	"bytes"
	"encoding/hex"
	"fmt"
	"image"

	webp "github.com/deepteams/webp"

	. "verifharness/hlib"
)

func le24(v int) []byte { return []byte{byte(v), byte(v >> 8), byte(v >> 16)} }

func riffChunk(id string, p []byte) []byte {
	n := len(p)
	b := append([]byte(id), byte(n), byte(n>>8), byte(n>>16), byte(n>>24))
	b = append(b, p...)
	if n&1 == 1 {
		b = append(b, 0)
	}
	return b
}

// vp8xFile assembles RIFF/WEBP/VP8X(alpha)/ALPH/VP8.
func vp8xFile(w, h int, alph, vp8 []byte) []byte {
	x := append([]byte{0x10, 0, 0, 0}, le24(w-1)...)
	x = append(x, le24(h-1)...)
	body := append([]byte("WEBP"), riffChunk("VP8X", x)...)
	body = append(body, riffChunk("ALPH", alph)...)
	body = append(body, riffChunk("VP8 ", vp8)...)
	n := len(body)
	return append(append([]byte("RIFF"), byte(n), byte(n>>8), byte(n>>16), byte(n>>24)), body...)
}

func alphaPlane(r *Rand, w, h, kind int) []byte {
	a := make([]byte, w*h)
	for i := range a {
		x, y := i%w, i/w
		switch kind {
		case 0:
			a[i] = byte(r.Intn(256))
		case 1:
			a[i] = byte((x*9 + y*5) & 255)
		case 2:
			a[i] = byte(r.Pick(0, 255, 128))
		case 3:
			a[i] = 255
		default:
			a[i] = byte(r.Pick(0, 255, 255, 254, 1, (x*y)&255))
		}
	}
	return a
}

func alphCases(c *Ctx) {
	rng := c.Rng.Fork()
	sizes := [][2]int{{1, 1}, {1, 7}, {9, 1}, {2, 2}, {3, 5}, {8, 8}, {16, 3}, {17, 17}, {5, 20}, {24, 11}}
	n := 120
	if c.Thorough() {
		n = 1200
		sizes = append(sizes, [2]int{40, 33}, [2]int{64, 64}, [2]int{1, 100}, [2]int{100, 1})
	}
	for i := 0; i < n; i++ {
		r := rng.Fork()
		sz := sizes[r.Intn(len(sizes))]
		w, h := sz[0], sz[1]
		filter := i % 4
		lossless := (i/4)%2 == 1
		plane := alphaPlane(r, w, h, r.Intn(5))
		var chunk []byte
		kind := "raw"
		if lossless {
			kind = "lossless"
			var err error
			chunk, err = webp.VerifEncodeAlphaInternal(plane, w, h, 1, filter, false, r.Pick(0, 1, 4, 6, 9))
			if err != nil || len(chunk) == 0 {
				c.Count("alph:encode-error")
				continue
			}
			chunk = append([]byte(nil), chunk...)
		} else {
			chunk = append([]byte{byte(filter<<2) | 0}, webp.VerifAlphaFilter(filter, plane, w, h)...)
		}
		// header variations a foreign encoder may produce / malformed chunks
		variant := "plain"
		switch r.Intn(12) {
		case 0:
			chunk[0] |= byte(r.Range(1, 3) << 4) // pre-processing bits: informative only
			variant = "preproc"
		case 1:
			chunk[0] = (chunk[0] &^ 3) | byte(r.Range(2, 3)) // invalid compression
			variant = "badcomp"
		case 2:
			if !lossless && len(chunk) > 1 {
				chunk = chunk[:len(chunk)-1-r.Intn(len(chunk)-1)] // truncated raw data
				variant = "truncated"
			}
		case 3:
			if !lossless {
				chunk = append(chunk, r.Bytes(1+r.Intn(4))...) // trailing bytes after raw data
				variant = "trailing"
			}
		}
		tag := fmt.Sprintf("%s:f%d:%dx%d:%s", kind, filter, w, h, variant)
		c.D.Evaluations++
		c.Count("alph:" + kind + fmt.Sprintf(":filter%d", filter))
		c.Count("alph:variant-" + variant)
		c.Nontrivial("alph:" + tag)
		// valid ALPH payloads: "plain" and "preproc" (the pre-processing bits are informative).  An
		// invalid compression value, truncated raw data and bytes after the raw plane are not valid
		// payloads: outside the property's domain - decoded, counted, never reported.
		valid := variant == "plain" || variant == "preproc"
		got, err := func() (out []byte, err error) {
			defer func() {
				if p := recover(); p != nil {
					if valid {
						c.Violate("alpha-decoder-panic", fmt.Sprint(p), map[string]any{"tag": tag, "chunk": hex.EncodeToString(chunk), "w": w, "h": h})
					} else {
						c.Count("observation:alph-invalid-payload-panic")
					}
					err = fmt.Errorf("panic")
				}
			}()
			return webp.VerifDecodeAlpha(chunk, w, h)
		}()
		if !valid {
			if err == nil {
				c.Count("observation:alph-invalid-payload-accepted:" + variant)
			} else {
				c.Count("observation:alph-invalid-payload-rejected:" + variant)
			}
			continue
		}
		line := "err"
		if err == nil {
			line = "ok " + hex.EncodeToString(got)
		}
		hx := hex.EncodeToString(chunk)
		if hx == "" {
			hx = "-"
		}
		addCase(fmt.Sprintf("alph %s %d %d %s", tag, w, h, hx), line)
		if variant == "plain" && err == nil && !bytes.Equal(got, plane) {
			// involves the package's own alpha encoder / filter: not a clause of C04 (the decoded plane is
			// judged against the container specification's model by the case above)
			c.Count("observation:alpha-roundtrip-differs")
		}
		// the public path: VP8X + ALPH + VP8; alpha bytes and colour samples of the NRGBA
		if err == nil && i%3 == 0 {
			im := genImage(r, w, h, r.Intn(5))
			o := webp.DefaultOptions()
			o.Quality = float32(r.Pick(30, 75, 95))
			o.FilterStrength = r.Pick(0, 20, 60)
			var buf bytes.Buffer
			if e := webp.Encode(&buf, im, o); e != nil {
				continue
			}
			vp8 := vp8Payload(buf.Bytes())
			if vp8 == nil {
				continue
			}
			file := vp8xFile(w, h, chunk, vp8)
			img, e := webp.Decode(bytes.NewReader(file))
			if e != nil {
				c.Violate("alpha-file-rejected", e.Error(), map[string]any{"tag": tag, "file": hex.EncodeToString(file)})
				continue
			}
			nr, ok := img.(*image.NRGBA)
			if !ok {
				c.Count("observation:alpha-file-decodes-to-another-image-type")
				continue
			}
			if nr.Rect.Dx() != w || nr.Rect.Dy() != h {
				c.Violate("alpha-file-shape", fmt.Sprintf("%T %v", img, img.Bounds()), map[string]any{"tag": tag, "file": hex.EncodeToString(file)})
				continue
			}
			al := make([]byte, 0, w*h)
			rgb := make([]byte, 0, 3*w*h)
			for y := 0; y < h; y++ {
				for x := 0; x < w; x++ {
					p := nr.Pix[y*nr.Stride+4*x:]
					al = append(al, p[3])
					rgb = append(rgb, p[0], p[1], p[2])
				}
			}
			c.D.Evaluations++
			c.Count("alph:public-file")
			// same model cases, observed through webp.Decode
			addCase(fmt.Sprintf("alph public:%s %d %d %s", tag, w, h, hx), "ok "+hex.EncodeToString(al))
			addCase("rgb "+tag+" "+hex.EncodeToString(vp8), fmt.Sprintf("ok %d %d %s", w, h, digest(rgb)))
		}
	}
}
