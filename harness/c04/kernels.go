package main

// Kernel-level cases: each Go kernel (portable implementation, and the dispatched
// one where its domain allows) against the model on random and extreme inputs;
// clip tables against clamp over their complete index range.

import (
	"encoding/hex"
	"fmt"
	"strings"

	webp "github.com/deepteams/webp"

	. "verifharness/hlib"
	"verifharness/vp8gen"
)

const bps = webp.VerifDspBPS

func coefStr(c []int16) string {
	var sb strings.Builder
	for i, v := range c {
		if i > 0 {
			sb.WriteByte(' ')
		}
		fmt.Fprintf(&sb, "%d", v)
	}
	return sb.String()
}

func randCoeffs(r *Rand, kind string, lim int) []int16 {
	c := make([]int16, 16)
	v := func() int16 {
		switch r.Intn(6) {
		case 0:
			return int16(r.Pick(-32768, 32767, -1, 1, 0, lim, -lim))
		default:
			return int16(r.Range(-lim, lim))
		}
	}
	switch kind {
	case "dc":
		c[0] = v()
	case "ac3":
		c[0], c[1], c[4] = v(), v(), v()
	default:
		for i := range c {
			if r.Intn(3) != 0 {
				c[i] = v()
			}
		}
	}
	if lim < 32767 {
		for i := range c {
			if int(c[i]) > lim {
				c[i] = int16(lim)
			}
			if int(c[i]) < -lim {
				c[i] = int16(-lim)
			}
		}
	}
	return c
}

func kernelCases(c *Ctx) {
	rng := c.Rng.Fork()
	n := 300
	if c.Thorough() {
		n = 5000
	}
	// inverse DCT variants
	for i := 0; i < n; i++ {
		r := rng.Fork()
		kind := []string{"one", "dc", "ac3", "disp"}[i%4]
		lim := r.Pick(8, 300, 2048, 32767)
		if kind == "disp" {
			lim = r.Pick(8, 300, 1024) // domain where 16-bit lanes cannot overflow
		}
		coeffs := randCoeffs(r, kind, lim)
		var raster [16]int
		for k, v := range coeffs {
			raster[k] = int(v)
		}
		if vp8gen.WideIDCT(raster) {
			// outside the domain: RFC 6386's own 16-bit variables overflow on this block
			c.Count("observation:kernel-xform-wide-coefficients")
			continue
		}
		pred := r.Bytes(16)
		if r.Intn(4) == 0 {
			for k := range pred {
				pred[k] = byte(r.Pick(0, 255, 128))
			}
		}
		dst := make([]byte, 4*bps)
		for y := 0; y < 4; y++ {
			copy(dst[y*bps:], pred[y*4:y*4+4])
		}
		in := make([]int16, 32)
		copy(in, coeffs)
		switch kind {
		case "one":
			webp.VerifDspTransformOne(in, dst)
		case "dc":
			webp.VerifDspTransformDC(in, dst)
		case "ac3":
			webp.VerifDspTransformAC3(in, dst)
		default:
			webp.VerifDspTransformDispatched(in, dst)
		}
		out := make([]byte, 0, 16)
		for y := 0; y < 4; y++ {
			out = append(out, dst[y*bps:y*bps+4]...)
		}
		c.D.Evaluations++
		c.Count("kernel:xform-" + kind)
		addCase(fmt.Sprintf("xform %s %s %s", kind, hex.EncodeToString(pred), coefStr(coeffs)), hex.EncodeToString(out))
	}
	// inverse WHT
	for i := 0; i < n/2; i++ {
		r := rng.Fork()
		kind := []string{"go", "disp"}[i%2]
		lim := r.Pick(8, 300, 4000, 32767)
		if kind == "disp" {
			lim = r.Pick(8, 300, 2000)
		}
		coeffs := randCoeffs(r, "full", lim)
		var raster [16]int
		for k, v := range coeffs {
			raster[k] = int(v)
		}
		if _, wide := vp8gen.WideWHT(raster); wide {
			c.Count("observation:kernel-wht-wide-coefficients")
			continue
		}
		out := make([]int16, 256)
		if kind == "go" {
			webp.VerifDspTransformWHT(coeffs, out)
		} else {
			webp.VerifDspTransformWHTDispatched(coeffs, out)
		}
		res := make([]string, 16)
		for k := 0; k < 16; k++ {
			res[k] = fmt.Sprint(out[k*16])
		}
		c.D.Evaluations++
		c.Count("kernel:wht-" + kind)
		addCase("wht "+kind+" "+coefStr(coeffs), strings.Join(res, ","))
	}
	// 4x4 predictors, every mode, table and direct dispatch
	for i := 0; i < n; i++ {
		r := rng.Fork()
		mode := i % 10
		kind := []string{"table", "direct"}[(i/10)%2]
		edge := r.Bytes(13) // L3 L2 L1 L0 P A0..A7
		if r.Intn(5) == 0 {
			for k := range edge {
				edge[k] = byte(r.Pick(0, 255, 127, 129))
			}
		}
		buf := make([]byte, 6*bps)
		off := bps + 4
		buf[off-bps-1] = edge[4]
		copy(buf[off-bps:], edge[5:13])
		for j := 0; j < 4; j++ {
			buf[off+j*bps-1] = edge[3-j]
		}
		if kind == "table" {
			webp.VerifDspPredLuma4(mode, buf, off)
		} else {
			webp.VerifDspPredLuma4Direct(mode, buf, off)
		}
		out := make([]byte, 0, 16)
		for y := 0; y < 4; y++ {
			out = append(out, buf[off+y*bps:off+y*bps+4]...)
		}
		c.D.Evaluations++
		c.Count(fmt.Sprintf("kernel:pred4-mode%d", mode))
		addCase(fmt.Sprintf("pred4 %s %d %s", kind, mode, hex.EncodeToString(edge)), hex.EncodeToString(out))
	}
	// 16x16 and 8x8 predictors incl. the DC variants at frame borders (dispatched table entries)
	for i := 0; i < n; i++ {
		r := rng.Fork()
		sz := []int{16, 8}[i%2]
		mode := (i / 2) % 4 // DC TM V H
		ha, hl := r.Intn(4) != 0, r.Intn(4) != 0
		above, left := r.Bytes(sz), r.Bytes(sz)
		corner := byte(r.Intn(256))
		if !ha {
			for k := range above {
				above[k] = 127
			}
			corner = 127
		}
		if !hl {
			for k := range left {
				left[k] = 129
			}
			if ha {
				corner = 129
			}
		}
		buf := make([]byte, (sz+2)*bps)
		off := bps + 4
		buf[off-bps-1] = corner
		copy(buf[off-bps:], above)
		for j := 0; j < sz; j++ {
			buf[off+j*bps-1] = left[j]
		}
		gm := mode
		if mode == 0 {
			switch {
			case !ha && !hl:
				gm = 6
			case !hl:
				gm = 5
			case !ha:
				gm = 4
			}
		}
		if sz == 16 {
			webp.VerifDspPredLuma16(gm, buf, off)
		} else {
			webp.VerifDspPredChroma8(gm, buf, off)
		}
		out := make([]byte, 0, sz*sz)
		for y := 0; y < sz; y++ {
			out = append(out, buf[off+y*bps:off+y*bps+sz]...)
		}
		c.D.Evaluations++
		c.Count(fmt.Sprintf("kernel:pred%d-mode%d", sz, mode))
		addCase(fmt.Sprintf("predblk %d %d %d %d %s %s %d", sz, mode, b2i(ha), b2i(hl), hex.EncodeToString(above), hex.EncodeToString(left), corner),
			hex.EncodeToString(out))
	}
	// fancy upsampler + YUV->RGB, one pair of rows (opaque output), portable and dispatched
	for i := 0; i < n/2; i++ {
		r := rng.Fork()
		w := r.Pick(1, 2, 3, 4, 5, 8, 15, 16, 17, 31, 32, 33, 1+r.Intn(40))
		cw := (w + 1) / 2
		hasBot := r.Intn(4) != 0
		gen := func(k int) []byte {
			b := r.Bytes(k)
			if r.Intn(5) == 0 {
				for j := range b {
					b[j] = byte(r.Pick(0, 255, 16, 235, 240, 128))
				}
			}
			return b
		}
		ty, by, tu, tv, bu, bv := gen(w), gen(w), gen(cw), gen(cw), gen(cw), gen(cw)
		kind := []string{"portable", "dispatched"}[i%2]
		ks := webp.VerifArchPortable()
		if kind == "dispatched" {
			ks = webp.VerifArchDispatched()
		}
		td, bd := make([]byte, 4*w), make([]byte, 4*w)
		var byArg []byte
		if hasBot {
			byArg = by
		}
		ks.UpsampleLinePairNRGBA(ty, byArg, tu, tv, bu, bv, td, bd, nil, nil, w)
		rgb := func(d []byte) string {
			o := make([]byte, 0, 3*w)
			ok := true
			for x := 0; x < w; x++ {
				o = append(o, d[4*x], d[4*x+1], d[4*x+2])
				ok = ok && d[4*x+3] == 255
			}
			if !ok {
				return "alpha-not-255"
			}
			return hex.EncodeToString(o)
		}
		res := rgb(td) + ","
		byHex := "-"
		if hasBot {
			res += rgb(bd)
			byHex = hex.EncodeToString(by)
		} else {
			res += "-"
		}
		c.D.Evaluations++
		c.Count("kernel:upsample-" + kind)
		addCase(fmt.Sprintf("ups %s %s %s %s %s %s %s", kind, hex.EncodeToString(ty), byHex, hex.EncodeToString(tu), hex.EncodeToString(tv),
			hex.EncodeToString(bu), hex.EncodeToString(bv)), res)
	}
	// precomputeFilterStrengths: complete sweep of frame level 0..63 (inside each case) x sharpness 0..7 x
	// delta configurations at their extremes x segment configurations; every run, both tiers
	{
		type dcfg struct {
			use        bool
			ref0, mod0 int
		}
		dcs := []dcfg{{false, 0, 0}}
		for _, a := range []int{-63, -1, 0, 1, 63} {
			for _, b := range []int{-63, 0, 1, 63} {
				dcs = append(dcs, dcfg{true, a, b})
			}
		}
		type scfg struct {
			use, abs bool
			v        [4]int
		}
		scs := []scfg{{false, false, [4]int{}}, {true, true, [4]int{0, 15, 40, 63}}, {true, true, [4]int{1, 14, 16, 39}},
			{true, true, [4]int{41, 62, 2, 20}}, {true, false, [4]int{-63, -1, 1, 63}}, {true, false, [4]int{0, -15, 15, -40}}}
		for sharp := 0; sharp < 8; sharp++ {
			for di, dc := range dcs {
				for si, sc := range scs {
					simple := (sharp+di+si)%2 == 1
					var sb strings.Builder
					for level := 0; level < 64; level++ {
						t := webp.VerifLossyFilterStrengths(simple, level, sharp, dc.use, dc.ref0, dc.mod0, sc.use, sc.abs, sc.v)
						for s := 0; s < 4; s++ {
							for k := 0; k < 2; k++ {
								if level > 0 && t[s][k][3] != k {
									// a field of the package's own table, no clause of the property
									c.Count("observation:fstrength-inner-field-is-not-the-i4x4-flag")
								}
								if sc.use && !sc.abs && (level+sc.v[s] < 0 || level+sc.v[s] > 63) {
									// segment-adjusted level outside 0..63 before the deltas: the single-clamp and the
									// double-clamp readings differ there (stream class midclamp); not compared here
									sb.WriteString("x ")
									continue
								}
								fmt.Fprintf(&sb, "%d.%d.%d ", t[s][k][0], t[s][k][1], t[s][k][2])
							}
						}
					}
					c.D.Evaluations++
					c.Count("kernel:filter-strength-table")
					addCase(fmt.Sprintf("fstr %d %d %d %d %d %d %d %d %d %d %d", b2i(simple), sharp, b2i(dc.use), dc.ref0, dc.mod0,
						b2i(sc.use), b2i(sc.abs), sc.v[0], sc.v[1], sc.v[2], sc.v[3]), strings.TrimSpace(sb.String()))
				}
			}
		}
	}
	// getCoeffsInline (hoisted reader state, inlined fastBit / fastSigned, bulk loads) on random data,
	// probabilities (1..255), reader warm-up, block start and context: end-of-block and coefficients vs
	// the Go-reader model and vs the specification's token reader on the RFC decoder.  Only blocks that
	// are read completely inside the data (no end-of-input) and whose dequantised values fit 16 bits
	// are in the property's domain; the others are counted.  The reader's internal state after the
	// block is not compared (a representation, not a result).
	for i := 0; i < n/2; i++ {
		r := rng.Fork()
		// short data: the block is read within the last bytes of the partition (single-byte loads)
		data := r.Bytes(r.Pick(24, 40, 64, 200, 2, 3, 5, 8, 11, 16))
		if r.Intn(4) == 0 {
			for k := range data {
				data[k] = byte(r.Pick(0, 255, 128, r.Intn(256)))
			}
		}
		if data[0] == 255 {
			data[0] = 254 // no encoder output starts with 0xff: the coded value is below the initial range 255
		}
		var probs [8][3][11]uint8
		flat := make([]byte, 0, 264)
		mode := r.Intn(3)
		for b := 0; b < 8; b++ {
			for cx := 0; cx < 3; cx++ {
				for k := 0; k < 11; k++ {
					v := uint8(1 + r.Intn(255))
					switch mode {
					case 1: // long blocks with large values: end-of-block and zero are unlikely
						v = uint8(r.Pick(1, 3, 10, 40))
					case 2:
						v = uint8(r.Pick(1, 2, 128, 254, 255, 1+r.Intn(255)))
					}
					probs[b][cx][k] = v
					flat = append(flat, v)
				}
			}
		}
		warm := r.Bytes(r.Intn(12))
		for k := range warm {
			if warm[k] == 0 {
				warm[k] = 1
			}
		}
		first, cx := r.Intn(2), r.Intn(3)
		dq0, dq1 := r.Pick(4, 8, 50, 157, 314), r.Pick(4, 8, 60, 284, 440)
		nz, out, _, _, _, eof := webp.VerifLossyGetCoeffs(data, warm, probs, cx, dq0, dq1, first)
		c.D.Evaluations++
		if eof {
			// a partition that ends inside the block: not a valid stream
			c.Count("observation:getcoeffs-ran-out-of-data")
			continue
		}
		// the levels themselves (factor 1) decide whether the products fit 16 bits
		_, lv, _, _, _, _ := webp.VerifLossyGetCoeffs(data, warm, probs, cx, 1, 1, first)
		wide := false
		for k := range lv {
			f := dq1
			if k == 0 {
				f = dq0
			}
			if p := int(lv[k]) * f; p < -32768 || p > 32767 {
				wide = true
			}
		}
		if wide {
			c.Count("observation:getcoeffs-dequantised-value-beyond-16-bits")
			continue
		}
		cs := make([]string, 16)
		for k := range cs {
			cs[k] = fmt.Sprint(out[k])
		}
		wh := hex.EncodeToString(warm)
		if wh == "" {
			wh = "-"
		}
		args := fmt.Sprintf("%d %d %d %d %s %s %s", first, cx, dq0, dq1, hex.EncodeToString(data), hex.EncodeToString(flat), wh)
		res := fmt.Sprintf("%d %s", nz, strings.Join(cs, ","))
		c.Count(fmt.Sprintf("kernel:getcoeffs-mode%d", mode))
		if len(data) < 24 {
			c.Count("kernel:getcoeffs-near-end-of-data")
		}
		addCase("coefs "+args, res)
	}
	// boolean encoder (bitio.BoolWriter), incl. sequences that force carries through runs of 0xff
	// bytes.  The writer is encoder-side and its exact bytes are a representation: no clause of C04
	// (a decoder property) decides them, so the sequences are run and counted, not compared.
	for i := 0; i < n/2; i++ {
		r := rng.Fork()
		mode := i % 4
		cnt := r.Pick(0, 1, 2, 7, 30, 200, 1+r.Intn(400))
		var ops [][3]int
		var sb strings.Builder
		sb.WriteString("benc")
		simple := true
		for k := 0; k < cnt; k++ {
			switch {
			case mode == 0 || (mode == 3 && r.Intn(2) == 0): // random bits and probabilities
				b, p := r.Intn(2), r.Pick(0, 1, 127, 128, 129, 254, 255, r.Intn(256), r.Intn(256))
				ops = append(ops, [3]int{0, b, p})
				fmt.Fprintf(&sb, " b%d:%d", b, p)
			case mode == 1: // improbable ones: value creeps up to 0xff.. and carries
				b, p := 1, r.Pick(255, 255, 254, 250, 200)
				if r.Intn(6) == 0 {
					b = 0
				}
				if r.Intn(10) == 0 {
					p = r.Intn(256)
				}
				ops = append(ops, [3]int{0, b, p})
				fmt.Fprintf(&sb, " b%d:%d", b, p)
			case mode == 2 && r.Intn(3) != 0:
				b := r.Intn(2)
				ops = append(ops, [3]int{1, b, 0})
				fmt.Fprintf(&sb, " u%d", b)
			default:
				simple = false
				if r.Bool() {
					nb := 1 + r.Intn(16)
					v := r.Intn(1 << uint(nb))
					ops = append(ops, [3]int{2, v, nb})
					fmt.Fprintf(&sb, " v%d:%d", v, nb)
				} else {
					nb := 1 + r.Intn(7)
					v := r.Range(-(1<<uint(nb))+1, (1<<uint(nb))-1)
					ops = append(ops, [3]int{3, v, nb})
					fmt.Fprintf(&sb, " s%d:%d", v, nb)
				}
			}
		}
		out := webp.VerifBoolWriterRun(ops)
		rt := "rt-ok"
		if !simple {
			rt = "-"
		}
		runs := 0
		for _, x := range out {
			if x == 0xff {
				runs++
			}
		}
		if runs > 0 {
			c.Count("kernel:boolenc-output-has-0xff")
		}
		c.D.Evaluations++
		c.Count(fmt.Sprintf("observation:boolenc-mode%d", mode))
		_, _ = sb, rt
	}
	// token buffer (TokenBuffer: pages of 32768 tokens, per-macroblock marks with skipped macroblocks,
	// stale marks of an earlier pass, replay of each partition in page-aligned chunks) vs direct emission
	// of the partition's tokens; the last cases cross a page boundary inside and between macroblocks.
	// Observation only (see below).
	for i := 0; i < 12; i++ {
		r := rng.Fork()
		mbW := 1 + r.Intn(5)
		rows := 1 + r.Intn(6)
		lg := r.Intn(4)
		per := r.Pick(0, 3, 12, 40)
		if i >= 10 {
			mbW, rows, lg = 3+r.Intn(3), 3+r.Intn(3), 1+r.Intn(2)
			per = 120000 / (mbW * rows)
		}
		total := mbW * rows
		toks := make([][][2]uint8, total)
		skipped := make([]bool, total)
		var sb strings.Builder
		fmt.Fprintf(&sb, "tokbuf %d %d", mbW, lg)
		count := 0
		for k := 0; k < total; k++ {
			if r.Intn(4) == 0 {
				skipped[k] = true
				sb.WriteString(" -")
				continue
			}
			n := 0
			if per > 0 {
				n = r.Intn(per + 1)
			}
			if n == 0 {
				sb.WriteString(" .")
				continue
			}
			raw := make([]byte, 0, 2*n)
			for t := 0; t < n; t++ {
				b, p := uint8(r.Intn(2)), uint8(r.Pick(1, 128, 255, r.Intn(256), r.Intn(256)))
				toks[k] = append(toks[k], [2]uint8{b, p})
				raw = append(raw, b, p)
			}
			count += n
			sb.WriteString(" " + hex.EncodeToString(raw))
		}
		parts := webp.VerifLossyTokenBufferRun(mbW, toks, skipped, 1<<uint(lg))
		hs := make([]string, len(parts))
		for k, p := range parts {
			hs[k] = hex.EncodeToString(p)
		}
		c.D.Evaluations++
		if count > 32768 {
			c.Count("kernel:tokbuf-crosses-page")
		}
		c.Count(fmt.Sprintf("observation:tokbuf-parts%d", 1<<uint(lg)))
		// encoder-side, no clause of C04: compared inside the harness with direct emission through the
		// same writer and only counted
		for pi := range parts {
			var ops [][3]int
			for k := 0; k < total; k++ {
				if skipped[k] || (k/mbW)&(len(parts)-1) != pi {
					continue
				}
				for _, t := range toks[k] {
					ops = append(ops, [3]int{0, int(t[0]), int(t[1])})
				}
			}
			if string(webp.VerifBoolWriterRun(ops)) != string(parts[pi]) {
				c.Count("observation:tokbuf-replay-differs-from-direct-emission")
			}
		}
		_, _ = sb, hs
	}
	// clip tables: complete sweep
	s1, s2, c1, a0 := webp.VerifDspClipTables()
	clamp := func(v, lo, hi int) int {
		if v < lo {
			return lo
		}
		if v > hi {
			return hi
		}
		return v
	}
	bad := 0
	if len(s1) != 893+892+1 || len(s2) != 225 || len(c1) != 767 || len(a0) != 511 {
		bad++
	}
	for v := -893; v <= 892 && bad == 0; v++ {
		if int(s1[893+v]) != clamp(v, -128, 127) {
			bad++
		}
	}
	for v := -112; v <= 112 && bad == 0; v++ {
		if int(s2[112+v]) != clamp(v, -16, 15) {
			bad++
		}
	}
	for v := -255; v <= 511 && bad == 0; v++ {
		if int(c1[255+v]) != clamp(v, 0, 255) {
			bad++
		}
	}
	for v := -255; v <= 255 && bad == 0; v++ {
		w := v
		if w < 0 {
			w = -w
		}
		if int(a0[255+v]) != w {
			bad++
		}
	}
	c.D.Evaluations++
	c.Count("kernel:clip-tables-sweep")
	if bad != 0 {
		// the tables are a representation inside internal/dsp; what they compute is decided by the
		// stream and kernel cases
		c.Count("observation:clip-table-differs-from-clamp")
	}
}
