package main

// C04 — VP8 (lossy) decoding returns the samples RFC 6386 defines.
//
// Streams: (a) the package's own encoder over a wide option product and the
// lossy files of /repo/testdata; (b) foreign streams from an independent VP8
// bool-encoder + syntax emitter (foreign.go) driven by random syntax plans;
// (c) kernel-level cases.  For every stream the Go decoder's planes (before and
// after the loop filter) are printed as digests; the model runner prints the
// same for the Go-flavoured model (I) and the specification decoder (S).

import (
	"bytes"
	"encoding/hex"
	"fmt"
	"image"
	"image/color"
	"os"
	"path/filepath"
	"strings"

	webp "github.com/deepteams/webp"

	. "verifharness/hlib"
)

func digest(b []byte) string {
	h1, h2 := 0, 0
	for _, x := range b {
		h1 = (h1*1000003 + int(x) + 1) % 998244353
		h2 = (h2*911 + int(x) + 7) % 1000000007
	}
	return fmt.Sprintf("%d.%d", h1, h2)
}

// goDecode runs the Go decoder (through the verif export) and canonicalises.
func goDecode(payload []byte) (line string, w, h int, fy, fu, fv []byte, panicked any) {
	defer func() {
		if r := recover(); r != nil {
			panicked = r
			line = "panic"
		}
	}()
	w, h, y, u, v, err := webp.VerifLossyDecodeFrame(payload, false)
	if err != nil {
		return "err", 0, 0, nil, nil, nil, nil
	}
	_, _, uy, uu, uv, err2 := webp.VerifLossyDecodeFrame(payload, true)
	if err2 != nil {
		return "err-unfiltered", 0, 0, nil, nil, nil, nil
	}
	line = fmt.Sprintf("ok %d %d u:%s.%s.%s f:%s.%s.%s", w, h, digest(uy), digest(uu), digest(uv), digest(y), digest(u), digest(v))
	return line, w, h, y, u, v, nil
}

// vp8Payload extracts the "VP8 " chunk payload from a RIFF/WebP file.
func vp8Payload(file []byte) []byte {
	if len(file) < 12 || string(file[0:4]) != "RIFF" || string(file[8:12]) != "WEBP" {
		return nil
	}
	p := 12
	for p+8 <= len(file) {
		id := string(file[p : p+4])
		sz := int(file[p+4]) | int(file[p+5])<<8 | int(file[p+6])<<16 | int(file[p+7])<<24
		if p+8+sz > len(file) {
			return nil
		}
		if id == "VP8 " {
			return file[p+8 : p+8+sz]
		}
		p += 8 + sz + (sz & 1)
	}
	return nil
}

func riffWrap(payload []byte) []byte {
	var b bytes.Buffer
	pad := len(payload) & 1
	total := 4 + 8 + len(payload) + pad
	b.WriteString("RIFF")
	b.Write([]byte{byte(total), byte(total >> 8), byte(total >> 16), byte(total >> 24)})
	b.WriteString("WEBPVP8 ")
	n := len(payload)
	b.Write([]byte{byte(n), byte(n >> 8), byte(n >> 16), byte(n >> 24)})
	b.Write(payload)
	if pad == 1 {
		b.WriteByte(0)
	}
	return b.Bytes()
}

// content generators
func genImage(rng *Rand, w, h, kind int) *image.NRGBA {
	im := image.NewNRGBA(image.Rect(0, 0, w, h))
	base := [3]int{rng.Intn(256), rng.Intn(256), rng.Intn(256)}
	for y := 0; y < h; y++ {
		for x := 0; x < w; x++ {
			var r, g, b int
			switch kind {
			case 0: // flat
				r, g, b = base[0], base[1], base[2]
			case 1: // gradient
				r, g, b = (base[0]+x*4)&255, (base[1]+y*4)&255, (base[2]+x+y)&255
			case 2: // noise
				r, g, b = rng.Intn(256), rng.Intn(256), rng.Intn(256)
			case 3: // text-like: sharp black/white strokes on flat background
				if (x/3+y/5)%4 == 0 || (x%7 == 0 && y%3 != 0) {
					r, g, b = 0, 0, 0
				} else {
					r, g, b = 250, 250, 245
				}
			default: // mixed: smooth half, noisy half, saturated edges
				if x < w/2 {
					r, g, b = (x*8)&255, (y*8)&255, 128
				} else if y < h/2 {
					r, g, b = rng.Intn(256), rng.Intn(256), rng.Intn(256)
				} else {
					r, g, b = 255*((x/4+y/4)%2), 255*((x/2)%2), 0
				}
			}
			im.SetNRGBA(x, y, color.NRGBA{uint8(r), uint8(g), uint8(b), 255})
		}
	}
	return im
}

type encCase struct {
	W, H, Kind int
	Opts       webp.EncoderOptions
}

func (e *encCase) tag() string {
	o := e.Opts
	return fmt.Sprintf("enc:%dx%d:k%d:q%g:m%d:s%d:p%d:f%d.%d.%d:sns%d:pre%d:pass%d", e.W, e.H, e.Kind, o.Quality, o.Method, o.Segments, o.Partitions,
		o.FilterStrength, o.FilterSharpness, o.FilterType, o.SNSStrength, o.Preset, o.Pass) + fmt.Sprintf(".ts%d.psnr%g", o.TargetSize, o.TargetPSNR)
}

// Cases are buffered and written in two groups: first every case of a class in which Go and
// the specification are expected to agree, then the cases of the deviation classes recorded in
// KNOWN_FINDINGS.txt (bin/check turns only the first spec mismatches into violations, so known
// classes must not come first).
type bufCase struct{ line, impl string }

var plainCases, featuredCases []bufCase

func addCase(caseLine, implLine string) {
	featured := false
	f := strings.Fields(caseLine)
	if len(f) > 1 && f[0] == "dec" {
		t := strings.Split(f[1], ":")
		switch {
		case t[0] == "foreign" && len(t) > 1 && t[1] != "plain":
			featured = true
		case t[0] == "portable" && len(t) > 2 && t[2] != "plain":
			featured = true
		case strings.Contains(t[0], "+"):
			featured = true
		}
	}
	if featured {
		featuredCases = append(featuredCases, bufCase{caseLine, implLine})
	} else {
		plainCases = append(plainCases, bufCase{caseLine, implLine})
	}
}

func flushCases(c *Ctx) {
	for _, b := range plainCases {
		c.Case(b.line, b.impl)
	}
	for _, b := range featuredCases {
		c.Case(b.line, b.impl)
	}
}

func checkStream(c *Ctx, tag string, payload []byte, viaPublic bool) {
	c.D.Evaluations++
	line, w, h, fy, fu, fv, pan := goDecode(payload)
	if pan != nil {
		c.Violate("decoder-panic", fmt.Sprint(pan), map[string]any{"tag": tag, "payload": hex.EncodeToString(payload)})
	}
	// the same stream through the pure-Go kernels (what other architectures run): every stream that
	// reaches this point is inside the property's domain, so both results are compared with the
	// specification; a difference between the two is counted
	var pline string
	webp.VerifWithPortableDecoderKernels(func() { pline, _, _, _, _, _, _ = goDecode(payload) })
	addCase("dec "+tag+" "+hex.EncodeToString(payload), line)
	if pline != line {
		c.Count("dispatched-kernels-differ-from-portable")
		addCase("dec portable:"+tag+" "+hex.EncodeToString(payload), pline)
	}
	c.Count("result:" + strings.SplitN(line, " ", 2)[0])
	if viaPublic && strings.HasPrefix(line, "ok") {
		// the public entry point must return the same planes
		img, err := webp.Decode(bytes.NewReader(riffWrap(payload)))
		if err != nil {
			c.Violate("public-decode-fails", err.Error(), map[string]any{"tag": tag, "payload": hex.EncodeToString(payload)})
			return
		}
		yc, ok := img.(*image.YCbCr)
		if !ok {
			// another image type: the harness cannot read the planes; not a statement about the samples
			c.Count("observation:public-decode-returns-another-image-type")
			return
		}
		if yc.Rect.Dx() != w || yc.Rect.Dy() != h {
			c.Violate("public-decode-shape", fmt.Sprintf("%T %v", img, img.Bounds()), map[string]any{"tag": tag, "payload": hex.EncodeToString(payload)})
			return
		}
		cw, ch := (w+1)/2, (h+1)/2
		same := yc.SubsampleRatio == image.YCbCrSubsampleRatio420
		for j := 0; j < h && same; j++ {
			same = bytes.Equal(yc.Y[j*yc.YStride:j*yc.YStride+w], fy[j*w:(j+1)*w])
		}
		for j := 0; j < ch && same; j++ {
			same = bytes.Equal(yc.Cb[j*yc.CStride:j*yc.CStride+cw], fu[j*cw:(j+1)*cw]) &&
				bytes.Equal(yc.Cr[j*yc.CStride:j*yc.CStride+cw], fv[j*cw:(j+1)*cw])
		}
		if !same {
			c.Violate("public-decode-differs", "webp.Decode planes differ from lossy.DecodeFrame planes", map[string]any{"tag": tag, "payload": hex.EncodeToString(payload)})
		}
	}
}

func encoderStreams(c *Ctx) {
	rng := c.Rng.Fork()
	sizes := [][2]int{{1, 1}, {15, 17}, {16, 16}, {33, 65}, {64, 64}, {17, 1}, {1, 33}, {48, 32}, {31, 31}, {64, 17}}
	n := 140
	if c.Thorough() {
		n = 1500
		sizes = append(sizes, [2]int{128, 96}, [2]int{100, 130}, [2]int{256, 256}, [2]int{255, 63})
	}
	quals := []float32{0, 1, 30, 75, 95, 100}
	for i := 0; i < n; i++ {
		r := rng.Fork()
		sz := sizes[i%len(sizes)]
		e := encCase{W: sz[0], H: sz[1], Kind: r.Intn(5)}
		o := webp.DefaultOptions()
		o.Quality = quals[r.Intn(len(quals))]
		o.Method = r.Intn(7)
		o.Segments = 1 + r.Intn(4)
		o.Partitions = r.Intn(4)
		o.FilterStrength = r.Pick(0, 1, 20, 60, 100)
		o.FilterSharpness = r.Intn(8)
		o.FilterType = r.Intn(2)
		o.SNSStrength = r.Pick(0, 50, 100)
		o.Preset = webp.Preset(r.Intn(6))
		o.Pass = r.Pick(1, 1, 2, 3)
		if r.Intn(8) == 0 {
			o.UseSharpYUV = true
		}
		if r.Intn(5) == 0 { // rate-control search (serial frame loop), early and late convergence
			o.Pass = r.Pick(1, 2, 3, 4, 6, 10)
			if r.Bool() {
				o.TargetSize = r.Pick(150, 400, 900, 2500)
			} else {
				o.TargetPSNR = float32(r.Pick(28, 34, 38, 42))
			}
		}
		e.Opts = *o
		im := genImage(r, e.W, e.H, e.Kind)
		var buf bytes.Buffer
		if err := webp.Encode(&buf, im, &e.Opts); err != nil {
			c.Count("encode-error")
			continue
		}
		payload := vp8Payload(buf.Bytes())
		if payload == nil {
			c.Count("no-vp8-chunk")
			continue
		}
		c.Count(fmt.Sprintf("enc:kind%d", e.Kind))
		c.Count(fmt.Sprintf("enc:method%d", o.Method))
		c.Count(fmt.Sprintf("enc:filtertype%d", o.FilterType))
		c.Nontrivial(e.tag())
		c.Sample(e.tag())
		checkStream(c, e.tag(), payload, true)
	}
}

func testdataStreams(c *Ctx) {
	repo := os.Getenv("VERIF_REPO")
	if repo == "" {
		repo = "/repo"
	}
	files, _ := filepath.Glob(filepath.Join(repo, "testdata", "*.webp"))
	for _, f := range files {
		b, err := os.ReadFile(f)
		if err != nil {
			continue
		}
		p := vp8Payload(b)
		if p == nil || len(p) > 200000 {
			continue
		}
		if !c.Thorough() && len(p) > 12000 {
			continue
		}
		c.Count("testdata")
		c.Nontrivial("file:" + filepath.Base(f))
		checkStream(c, "file:"+filepath.Base(f), p, false)
	}
}

// coqEmitted: bytes computed inside Coq by Vp8FrameRT.emit_key_frame for Vp8NoDrift.ex_frame (the
// witness of the frame round-trip theorems: syntax emitter + Go boolean-encoder model + layout):
// the Go decoder must read them as the specification does.
func coqEmitted(c *Ctx) {
	b, err := hex.DecodeString("3001009d012a10001000028050000011860000fdefcff110cffe2d50e000")
	if err != nil {
		panic(err)
	}
	c.Count("coq-emitted-frame")
	c.Nontrivial("coq-emitted:ex_frame")
	checkStream(c, "coqemit:ex_frame", b, true)
}

func main() {
	Main("c04", func(c *Ctx) {
		c.D.Rule = "Go lossy.DecodeFrame planes (before and after the loop filter) = extracted Vp8Spec.decode planes, bit-exact, on encoder outputs, testdata files and foreign streams; kernels vs their definitions"
		testdataStreams(c)
		coqEmitted(c)
		encoderStreams(c)
		foreignStreams(c)
		kernelCases(c)
		alphCases(c)
		flushCases(c)
	})
}
