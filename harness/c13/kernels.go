package main

import (
	"bytes"
	"fmt"
	"strings"

	webp "github.com/deepteams/webp"

	. "verifharness/hlib"
)

const bps = webp.VerifArchBPS

// Proven no-wrap boxes (coq/theories/Arch/ArchLane16.v: kIdctBox, kWhtBox, kFwhtBox).
const (
	idctBox = 2212
	whtBox  = 2047
	fwhtBox = 2047
)

// Per-position box of the coefficients the encoder reconstructs from
// (coq/theories/Arch/ArchEncRange.v: encB); proved to lie in the no-wrap region.
var encBox = [16]int{2655, 2174, 2332, 2182, 2174, 2035, 2182, 2039, 2332, 2182, 2336, 2182, 2181, 2039, 2181, 2039}

func inEncBox(a []int16) bool {
	for i, v := range a {
		if b := encBox[i%16]; int(v) > b || int(v) < -b {
			return false
		}
	}
	return true
}

// ---- which coefficient blocks a VALID stream can deliver to the decoder ----
//
// The decoder stores int16(level * dq), |level| <= 2114, with (dq_dc, dq_ac) the
// pair the frame header selects.  Only differences on such blocks are property
// violations ("every Decode result is bit-identical"); differences on other
// blocks are counted.  The predicate under-approximates (same quantiser index for
// DC and AC, i.e. all header deltas zero): it can only make the check quieter.
type delivTables struct {
	yDC, yAC, y2DC, y2AC [128][]uint64 // bitsets over int16 values (offset 32768)
	dc, ac               [128]int
}

var deliv *delivTables

func bitsetFor(dq int) []uint64 {
	b := make([]uint64, 1024)
	for l := -2114; l <= 2114; l++ {
		v := int(int16(l*dq)) + 32768
		b[v>>6] |= 1 << uint(v&63)
	}
	return b
}

func has(b []uint64, v int16) bool { i := int(v) + 32768; return b[i>>6]&(1<<uint(i&63)) != 0 }

func initDeliv() {
	t := webp.VerifArchTables()
	d := &delivTables{}
	for q := 0; q < 128; q++ {
		d.dc[q], d.ac[q] = t.KDcTable[q], t.KAcTable[q]
		d.yDC[q], d.yAC[q] = bitsetFor(t.KDcTable[q]), bitsetFor(t.KAcTable[q])
		y2ac := (t.KAcTable[q] * 101581) >> 16
		if y2ac < 8 {
			y2ac = 8
		}
		d.y2DC[q], d.y2AC[q] = bitsetFor(2*t.KDcTable[q]), bitsetFor(y2ac)
	}
	deliv = d
}

// deliverableY: an intra-4x4 luma block (or, with q <= 117, a chroma block).
func deliverableY(c []int16, maxQ int) bool {
	for q := 0; q <= maxQ; q++ {
		if !has(deliv.yDC[q], c[0]) {
			continue
		}
		ok := true
		for i := 1; i < 16 && ok; i++ {
			ok = has(deliv.yAC[q], c[i])
		}
		if ok {
			return true
		}
	}
	return false
}

func deliverableY2(c []int16) bool {
	for q := 0; q < 128; q++ {
		if !has(deliv.y2DC[q], c[0]) {
			continue
		}
		ok := true
		for i := 1; i < 16 && ok; i++ {
			ok = has(deliv.y2AC[q], c[i])
		}
		if ok {
			return true
		}
	}
	return false
}

func allDeliverableY(in []int16, maxQ int) bool {
	for b := 0; b+16 <= len(in); b += 16 {
		if !deliverableY(in[b:b+16], maxQ) {
			return false
		}
	}
	return true
}

// segmentQuant mirrors initSegmentQuant / setupSegment for quantiser index q.
func segmentQuant(q int, kind string) webp.VerifSegmentQuant {
	t := webp.VerifArchTables()
	var sq webp.VerifSegmentQuant
	dc, ac, bdc, bac := t.KDcTable[q], t.KAcTable[q], 96, 110
	switch kind {
	case "Y2":
		dc, ac, bdc, bac = 2*t.KDcTable[q], (t.KAcTable[q]*101581)>>16, 96, 108
		if dc < 8 {
			dc = 8
		}
		if ac < 8 {
			ac = 8
		}
	case "UV":
		if q > 117 {
			dc = t.KDcTable[117]
		}
		bdc, bac = 110, 115
	}
	sq.DCQuant, sq.Quant = dc, ac
	sq.DCIQuant, sq.IQuant = (1<<17)/dc, (1<<17)/ac
	sq.DCBias, sq.Bias = bdc<<9, bac<<9
	if kind == "Y1" {
		fs := [16]int{0, 30, 60, 90, 30, 60, 90, 90, 60, 90, 90, 90, 90, 90, 90, 90}
		for i := range sq.Sharpen {
			qq := ac
			if i == 0 {
				qq = dc
			}
			sq.Sharpen[i] = int16((fs[i] * qq) >> 11)
		}
	}
	return sq
}

// encChainBlock produces a coefficient block exactly as the encoder does:
// byte residual -> portable FDCT -> portable quantise -> portable dequantise.
func (k *kctx) encChainBlock() (blk [16]int16, fd [16]int16, sq webp.VerifSegmentQuant) {
	cls := []string{"rand", "extreme", "checker", "near", "max", "zero"}
	src := k.bytesOf(cls[k.r.Intn(len(cls))], 4*bps+8)
	ref := k.bytesOf(cls[k.r.Intn(len(cls))], 4*bps+8)
	out := make([]int16, 16)
	k.im.port.FTransform(src, ref, out)
	copy(fd[:], out)
	kind := []string{"Y1", "UV"}[k.r.Intn(2)]
	sq = segmentQuant(k.r.Pick(0, 1, 5, 20, 40, 64, 90, 110, 117, 120, 127, k.r.Intn(128)), kind)
	lv, _ := webp.VerifArchQuantize(true, out, &sq, 0)
	blk = webp.VerifArchDequant(true, lv[:], &sq)
	if k.r.Intn(3) == 0 { // intra-16x16: the DC comes from the inverse WHT (|dc'| <= 2655)
		blk[0] = int16(k.r.Range(-2655, 2655))
	}
	return
}

type impls struct {
	port webp.VerifArchKernels
	all  []webp.VerifArchKernels // dispatched first, then sse2 / avx2 when available
}

type kctx struct {
	c  *Ctx
	im impls
	r  *Rand
	n  int // model cases emitted
}

func (k *kctx) sig(kernel, class string, same bool) {
	o := "same"
	if !same {
		o = "diff"
	}
	cc := class
	if i := strings.Index(cc, "/"); i >= 0 {
		cc = cc[:i]
	}
	k.c.Count("kernel/" + kernel + "/" + cc + "/" + o)
	k.c.Nontrivial("k/" + kernel + "/" + class + "/" + o)
	k.c.D.Evaluations++
}

func ints16(a []int16) string {
	var sb strings.Builder
	for i, v := range a {
		if i > 0 {
			sb.WriteByte(' ')
		}
		fmt.Fprintf(&sb, "%d", v)
	}
	return sb.String()
}

func intsB(a []byte) string {
	var sb strings.Builder
	for i, v := range a {
		if i > 0 {
			sb.WriteByte(' ')
		}
		fmt.Fprintf(&sb, "%d", v)
	}
	return sb.String()
}

func commaB(a []byte) string {
	var sb strings.Builder
	for i, v := range a {
		if i > 0 {
			sb.WriteByte(',')
		}
		fmt.Fprintf(&sb, "%d", v)
	}
	return sb.String()
}

func comma16(a []int16) string {
	var sb strings.Builder
	for i, v := range a {
		if i > 0 {
			sb.WriteByte(',')
		}
		fmt.Fprintf(&sb, "%d", v)
	}
	return sb.String()
}

func inBox(a []int16, b int) bool {
	for _, v := range a {
		if int(v) > b || int(v) < -b {
			return false
		}
	}
	return true
}

// guard runs f and reports a panic as a violation.
func (k *kctx) guard(kernel, impl string, replay any, f func()) (ok bool) {
	defer func() {
		if r := recover(); r != nil {
			ok = false
			if impl == "portable" {
				// the harness-built input is not acceptable to the reference itself: nothing to compare
				k.c.Count("portable-panic/" + kernel)
				return
			}
			// the portable kernel accepted this input (it runs first) and this one panicked
			k.c.Violate("kernel-panic:"+kernel+":"+impl, fmt.Sprintf("%s (%s) panicked where the portable kernel did not: %v", kernel, impl, r), replay)
		}
	}()
	f()
	return true
}

var acSteps = []int{4, 5, 6, 7, 8, 9, 10, 17, 23, 37, 58, 91, 122, 155, 157, 8, 132, 243, 264, 314}

// coefficient generators -------------------------------------------------

func (k *kctx) coeffs(class string, box int) (out [16]int16) {
	r := k.r
	ext := []int{32767, -32768, 0, 1, -1, 32766, -32767, 16384, -16384, 255, -256}
	switch class {
	case "sparse":
		n := 1 + r.Intn(4)
		for i := 0; i < n; i++ {
			out[r.Intn(16)] = int16(r.Range(-300, 300))
		}
	case "box-rand":
		for i := range out {
			out[i] = int16(r.Range(-box, box))
		}
	case "box-corner":
		for i := range out {
			out[i] = int16(box)
			if r.Bool() {
				out[i] = int16(-box)
			}
		}
	case "box-corner+1":
		for i := range out {
			out[i] = int16(box + 1)
			if r.Bool() {
				out[i] = int16(-box - 1)
			}
		}
	case "box-same-sign":
		v := int16(box)
		if r.Bool() {
			v = -v
		}
		for i := range out {
			out[i] = v
		}
	case "box+1-same-sign":
		v := int16(box + 1)
		if r.Bool() {
			v = -v
		}
		for i := range out {
			out[i] = v
		}
	case "deliv-box", "deliv-corner", "deliv-any":
		q := r.Pick(0, 3, 19, 40, 64, 100, 117, 127, r.Intn(128))
		for i := range out {
			dq := deliv.ac[q]
			if i == 0 {
				dq = deliv.dc[q]
			}
			lim := 2114
			if class != "deliv-any" {
				lim = box / dq
			}
			l := r.Range(-lim, lim)
			if class == "deliv-corner" {
				l = lim
				if r.Bool() {
					l = -lim
				}
			}
			out[i] = int16(l * dq)
		}
	case "enc-chain":
		b, _, _ := k.encChainBlock()
		out = b
	case "enc-box-corner":
		for i := range out {
			out[i] = int16(encBox[i])
			if r.Bool() {
				out[i] = -out[i]
			}
		}
	case "enc-box-rand":
		for i := range out {
			out[i] = int16(r.Range(-encBox[i], encBox[i]))
		}
	case "typical":
		for i := range out {
			m := 2048 >> uint(r.Intn(12))
			out[i] = int16(r.Range(-m, m))
		}
	case "int16-rand":
		for i := range out {
			out[i] = int16(r.U64())
		}
	case "int16-extreme":
		for i := range out {
			out[i] = int16(ext[r.Intn(len(ext))])
		}
	case "int16-max", "int16-min":
		v := int16(32767)
		if class == "int16-min" {
			v = -32768
		}
		for i := range out {
			out[i] = v
		}
	case "reachable":
		// int16(level * dq) exactly as the decoder stores it
		dq := acSteps[r.Intn(len(acSteps))]
		for i := range out {
			lvl := r.Range(-2114, 2114)
			if r.Intn(3) == 0 {
				lvl = r.Range(-40, 40)
			}
			out[i] = int16(lvl * dq)
		}
	default:
		panic(class)
	}
	return
}

func (k *kctx) bytesOf(class string, n int) []byte {
	r := k.r
	b := make([]byte, n)
	switch class {
	case "rand":
		for i := range b {
			b[i] = byte(r.U64())
		}
	case "zero":
	case "max":
		for i := range b {
			b[i] = 255
		}
	case "mid":
		for i := range b {
			b[i] = 128
		}
	case "extreme":
		for i := range b {
			b[i] = byte(r.Pick(0, 255, 0, 255, 1, 254, 127, 128))
		}
	case "checker":
		for i := range b {
			if (i+i/bps)%2 == 0 {
				b[i] = 255
			}
		}
	case "near":
		base := r.Intn(256)
		for i := range b {
			v := base + r.Range(-3, 3)
			if v < 0 {
				v = 0
			}
			if v > 255 {
				v = 255
			}
			b[i] = byte(v)
		}
	default:
		panic(class)
	}
	return b
}

var byteClasses = []string{"rand", "zero", "max", "mid", "extreme", "checker", "near"}

// ---------- IDCT family ----------

func block4(buf []byte, off int) []byte {
	o := make([]byte, 16)
	for y := 0; y < 4; y++ {
		copy(o[4*y:], buf[off+y*bps:off+y*bps+4])
	}
	return o
}

func (k *kctx) idct(class, pclass string, nblk int) {
	in := make([]int16, 16*nblk)
	for b := 0; b < nblk; b++ {
		cs := k.coeffs(class, idctBox)
		copy(in[16*b:], cs[:])
	}
	box := inBox(in, idctBox) || inEncBox(in)
	// property-relevant inputs: what a valid stream can deliver (decoder entry points) /
	// what the encoder's own chain produces (encoder entry points)
	maxQ := 127
	if nblk == 4 {
		maxQ = 117
	}
	delivDec := allDeliverableY(in, maxQ)
	delivEnc := class == "enc-chain"
	base := k.bytesOf(pclass, 8*bps+16)
	blockOff := []int{0, 4, 4 * bps, 4*bps + 4}
	replay := map[string]any{"kernel": "idct", "blocks": nblk, "coeffs": append([]int16(nil), in...), "pred_class": pclass, "dst": append([]byte(nil), base...)}

	type entry struct {
		name string
		dec  bool // decoder entry point: every int16 block is reachable from a valid stream
		run  func(v *webp.VerifArchKernels, dst []byte)
	}
	var entries []entry
	cp := func() []int16 { return append([]int16(nil), in...) }
	switch nblk {
	case 1, 2:
		two := nblk == 2
		entries = []entry{
			{"Transform", true, func(v *webp.VerifArchKernels, dst []byte) { v.Transform(cp(), dst, two) }},
			{"ITransform", false, func(v *webp.VerifArchKernels, dst []byte) {
				ref := append([]byte(nil), dst...)
				v.ITransform(ref, cp(), dst, two)
			}},
			{"ITransformDirect", false, func(v *webp.VerifArchKernels, dst []byte) {
				ref := append([]byte(nil), dst...)
				v.ITransformDirect(ref, cp(), dst, two)
			}},
			{"ITransformDirect-inplace", false, func(v *webp.VerifArchKernels, dst []byte) { v.ITransformDirect(dst, cp(), dst, two) }},
		}
	case 4:
		entries = []entry{{"TransformUV", true, func(v *webp.VerifArchKernels, dst []byte) { v.TransformUV(cp(), dst) }}}
	}
	for _, e := range entries {
		want := append([]byte(nil), base...)
		if !k.guard(e.name, "portable", replay, func() { e.run(&k.im.port, want) }) {
			continue
		}
		same := true
		var first []byte
		for vi := range k.im.all {
			v := &k.im.all[vi]
			got := append([]byte(nil), base...)
			if !k.guard(e.name, v.Name, replay, func() { e.run(v, got) }) {
				continue
			}
			relevant := (e.dec && delivDec) || (!e.dec && delivEnc)
			if vi == 0 {
				first = got
			} else if !bytes.Equal(got, first) {
				if relevant {
					k.c.Violate("variant-diff:"+e.name+":"+v.Name, "assembly variant disagrees with the dispatched implementation", replay)
				} else {
					k.c.Count("undeliverable-input-diff/variant/" + e.name)
				}
			}
			if !bytes.Equal(got, want) {
				same = false
				switch {
				case !relevant:
					k.c.Count("undeliverable-input-diff/" + e.name)
				case box:
					k.c.Violate("kernel-diff:"+e.name+":"+v.Name, "portable and "+v.Name+" results differ inside the proven no-wrap range", replay)
				case e.dec:
					rp := map[string]any{"kernel": e.name, "impl": v.Name, "coeffs": in, "pred_class": pclass, "deliverable": "int16(level*dq), |level|<=2114, one quantiser index",
						"portable": block4(want, 0), "assembly": block4(got, 0),
						"note": "16-bit lanes of the SSE2/AVX2 IDCT wrap; any int16(level*dq) block reaches this kernel from a valid VP8 stream"}
					k.c.Violate("lane16-wrap:idct", "decoder IDCT: portable and assembly results differ on a coefficient block outside |c|<=2212", rp)
				default:
					k.c.Count("unreachable-range-diff/" + e.name)
				}
			}
		}
		k.sig(e.name, class+"/"+pclass, same)
		// model cases: the single-block decoder transform
		if e.name == "Transform" && nblk == 1 && first != nil {
			op := "idct"
			if !box {
				op = "idct!"
			}
			if !delivDec {
				op = "idct~" // not deliverable by a valid stream: model-vs-assembly correspondence only
			}
			pred := block4(base, 0)
			args := ints16(in) + " " + intsB(pred)
			k.c.Case(op+" "+args, commaB(block4(first, 0)))
			k.c.Case("pidct "+args, commaB(block4(want, 0)))
			k.n += 2
		}
		_ = blockOff
	}
}

// ---------- WHT ----------

func gather16(out []int16) []int16 {
	o := make([]int16, 16)
	for i := range o {
		o[i] = out[i*16]
	}
	return o
}

func (k *kctx) wht(class string) {
	cs := k.coeffs(class, whtBox)
	in := cs[:]
	box := inBox(in, whtBox)
	if class == "deliv-box" || class == "deliv-corner" || class == "deliv-any" {
		// Y2 block: (2*kDcTable[q], kAcTable[q]*155/100) steps
		q := k.r.Intn(128)
		dcq, acq := 2*deliv.dc[q], (deliv.ac[q]*101581)>>16
		if acq < 8 {
			acq = 8
		}
		for i := range in {
			dq := acq
			if i == 0 {
				dq = dcq
			}
			lim := 2114
			if class != "deliv-any" {
				lim = whtBox / dq
			}
			l := k.r.Range(-lim, lim)
			if class == "deliv-corner" && k.r.Intn(4) > 0 {
				l = lim
				if k.r.Bool() {
					l = -lim
				}
			}
			in[i] = int16(l * dq)
		}
		box = inBox(in, whtBox)
	}
	relevant := deliverableY2(in)
	replay := map[string]any{"kernel": "TransformWHT", "coeffs": in}
	want := make([]int16, 256)
	if !k.guard("TransformWHT", "portable", replay, func() { k.im.port.TransformWHT(append([]int16(nil), in...), want) }) {
		return
	}
	same := true
	var first []int16
	for vi := range k.im.all {
		v := &k.im.all[vi]
		got := make([]int16, 256)
		if !k.guard("TransformWHT", v.Name, replay, func() { v.TransformWHT(append([]int16(nil), in...), got) }) {
			continue
		}
		if vi == 0 {
			first = got
		} else if fmt.Sprint(got) != fmt.Sprint(first) {
			if relevant {
				k.c.Violate("variant-diff:TransformWHT:"+v.Name, "assembly variant disagrees with the dispatched implementation", replay)
			} else {
				k.c.Count("undeliverable-input-diff/variant/TransformWHT")
			}
		}
		if fmt.Sprint(got) != fmt.Sprint(want) {
			same = false
			if !relevant {
				k.c.Count("undeliverable-input-diff/TransformWHT")
			} else if box {
				k.c.Violate("kernel-diff:TransformWHT:"+v.Name, "portable and "+v.Name+" results differ inside the proven no-wrap range", replay)
			} else {
				k.c.Violate("lane16-wrap:wht", "decoder inverse WHT: portable and assembly results differ on a coefficient block outside |c|<=2047",
					map[string]any{"kernel": "TransformWHT", "impl": v.Name, "coeffs": in, "portable": gather16(want), "assembly": gather16(got),
						"note": "16-bit lanes of transformWHTSSE2 wrap before the >>3; any int16(level*dq) Y2 block reaches this kernel from a valid VP8 stream"})
			}
		}
	}
	k.sig("TransformWHT", class, same)
	if first != nil {
		op := "wht"
		if !box {
			op = "wht!"
		}
		if !relevant {
			op = "wht~"
		}
		k.c.Case(op+" "+ints16(in), comma16(gather16(first)))
		k.c.Case("pwht "+ints16(in), comma16(gather16(want)))
		k.n += 2
	}
}

func (k *kctx) fwht(class string) {
	cs := k.coeffs(class, fwhtBox)
	in := cs[:]
	// the encoder feeds this kernel the DCs of sixteen forward DCTs of byte residuals
	reach := false
	if class == "enc-chain" {
		for i := range in {
			_, fd, _ := k.encChainBlock()
			in[i] = fd[0]
		}
		reach = true
	}
	box := inBox(in, fwhtBox)
	replay := map[string]any{"kernel": "FTransformWHT", "coeffs": in}
	want := make([]int16, 16)
	if !k.guard("FTransformWHT", "portable", replay, func() { k.im.port.FTransformWHT(append([]int16(nil), in...), want) }) {
		return
	}
	same := true
	var first []int16
	for vi := range k.im.all {
		v := &k.im.all[vi]
		got := make([]int16, 16)
		if !k.guard("FTransformWHT", v.Name, replay, func() { v.FTransformWHT(append([]int16(nil), in...), got) }) {
			continue
		}
		if vi == 0 {
			first = got
		} else if fmt.Sprint(got) != fmt.Sprint(first) {
			if reach {
				k.c.Violate("variant-diff:FTransformWHT:"+v.Name, "assembly variant disagrees with the dispatched implementation", replay)
			} else {
				k.c.Count("undeliverable-input-diff/variant/FTransformWHT")
			}
		}
		if fmt.Sprint(got) != fmt.Sprint(want) {
			same = false
			if reach {
				k.c.Violate("kernel-diff:FTransformWHT:"+v.Name, "portable and "+v.Name+" results differ inside the proven no-wrap range", replay)
			} else {
				k.c.Count("unreachable-range-diff/FTransformWHT")
			}
		}
	}
	k.sig("FTransformWHT", class, same)
	if first != nil {
		op := "fwht"
		if !box {
			op = "fwht~" // outside the box, not reachable by the encoder: informational
		}
		if reach {
			k.c.Case(op+" "+ints16(in), comma16(first))
			k.n++
		} else if box {
			k.c.Case("fwht~ "+ints16(in), comma16(first))
			k.n++
		}
		k.c.Case("pfwht "+ints16(in), comma16(want))
		k.n++
	}
}

// ---------- forward DCT ----------

func (k *kctx) fdct(sclass, rclass string) {
	k.fdctOn(sclass, rclass, k.bytesOf(sclass, 4*bps+8), k.bytesOf(rclass, 4*bps+8))
}

// fdctNearTie reports whether some rounding shift of the forward DCT of the
// first 4x4 block is within 1 of a rounding boundary (the inputs on which an
// off-by-one in a rounding constant becomes visible).
func fdctNearTie(src, ref []byte) bool {
	var tmp [16]int
	near := func(v, m int) bool { r := ((v % m) + m) % m; return r <= 1 || r >= m-2 }
	hit := false
	for i := 0; i < 4; i++ {
		d0 := int(src[0+i*bps]) - int(ref[0+i*bps])
		d1 := int(src[1+i*bps]) - int(ref[1+i*bps])
		d2 := int(src[2+i*bps]) - int(ref[2+i*bps])
		d3 := int(src[3+i*bps]) - int(ref[3+i*bps])
		a0, a1, a2, a3 := d0+d3, d1+d2, d1-d2, d0-d3
		tmp[0+i*4] = (a0 + a1) * 8
		tmp[1+i*4] = (a2*2217 + a3*5352 + 1812) >> 9
		tmp[2+i*4] = (a0 - a1) * 8
		tmp[3+i*4] = (a3*2217 - a2*5352 + 937) >> 9
	}
	for i := 0; i < 4; i++ {
		a2, a3 := tmp[4+i]-tmp[8+i], tmp[0+i]-tmp[12+i]
		if near(a2*2217+a3*5352+12000, 65536) || near(a3*2217-a2*5352+51000, 65536) {
			hit = true
		}
	}
	return hit
}

// fdctTies searches random blocks for rounding near-ties of the second pass
// (probability ~2^-13 per block) and runs the differential on them.
func (k *kctx) fdctTies(tries, want int) {
	found := 0
	for t := 0; t < tries && found < want; t++ {
		cl := "rand"
		if t%3 == 1 {
			cl = "near"
		}
		src, ref := k.bytesOf(cl, 4*bps+8), k.bytesOf("rand", 4*bps+8)
		if t%5 == 0 {
			ref = k.bytesOf("near", 4*bps+8)
		}
		if fdctNearTie(src, ref) {
			found++
			k.fdctOn("near-tie", cl, src, ref)
		}
	}
	k.c.Count(fmt.Sprintf("kernel/FTransform/near-tie-blocks-found"))
	k.c.D.Distribution["kernel/FTransform/near-tie-blocks-found"] += found - 1
}

func (k *kctx) fdctOn(sclass, rclass string, src, ref []byte) {
	replay := map[string]any{"kernel": "FTransform", "src": src, "ref": ref}
	type entry struct {
		name string
		n    int
		run  func(v *webp.VerifArchKernels, out []int16)
	}
	entries := []entry{
		{"FTransform", 16, func(v *webp.VerifArchKernels, out []int16) { v.FTransform(src, ref, out) }},
		{"FTransformDirect", 16, func(v *webp.VerifArchKernels, out []int16) { v.FTransformDirect(src, ref, out) }},
		{"FTransform2", 32, func(v *webp.VerifArchKernels, out []int16) { v.FTransform2(src, ref, out) }},
	}
	for _, e := range entries {
		want := make([]int16, e.n)
		if !k.guard(e.name, "portable", replay, func() { e.run(&k.im.port, want) }) {
			continue
		}
		same := true
		var first []int16
		for vi := range k.im.all {
			v := &k.im.all[vi]
			got := make([]int16, e.n)
			if !k.guard(e.name, v.Name, replay, func() { e.run(v, got) }) {
				continue
			}
			if vi == 0 {
				first = got
			}
			if fmt.Sprint(got) != fmt.Sprint(want) {
				same = false
				k.c.Violate("kernel-diff:"+e.name+":"+v.Name, "forward DCT: portable and "+v.Name+" results differ",
					map[string]any{"kernel": e.name, "src": src, "ref": ref, "portable": want, "assembly": got})
			}
		}
		k.sig(e.name, sclass+"/"+rclass, same)
		if e.name == "FTransform" && first != nil {
			args := intsB(block4(src, 0)) + " " + intsB(block4(ref, 0))
			k.c.Case("fdct "+args, comma16(first))
			k.c.Case("pfdct "+args, comma16(want))
			k.n += 2
		}
	}
}

// ---------- predictors ----------

func (k *kctx) pred(class string) {
	size := 18*bps + 64
	base := k.bytesOf(class, size)
	off := bps + 8 + k.r.Intn(8)
	replay := map[string]any{"kernel": "pred", "buf": base, "off": off}
	cmp := func(name string, run func(v *webp.VerifArchKernels, buf []byte)) (first []byte, want []byte) {
		want = append([]byte(nil), base...)
		if !k.guard(name, "portable", replay, func() { run(&k.im.port, want) }) {
			return nil, nil
		}
		same := true
		for vi := range k.im.all {
			v := &k.im.all[vi]
			got := append([]byte(nil), base...)
			if !k.guard(name, v.Name, replay, func() { run(v, got) }) {
				continue
			}
			if vi == 0 {
				first = got
			}
			if !bytes.Equal(got, want) {
				same = false
				k.c.Violate("kernel-diff:"+name+":"+v.Name, "intra predictor: portable and "+v.Name+" results differ", replay)
			}
		}
		k.sig(name, class, same)
		return
	}
	modes := []string{"DC", "TM", "VE", "HE"}
	for m := 0; m < 4; m++ {
		m := m
		f16, w16 := cmp("PredLuma16-"+modes[m], func(v *webp.VerifArchKernels, buf []byte) { v.PredLuma16[m](buf, off) })
		f8, w8 := cmp("PredChroma8-"+modes[m], func(v *webp.VerifArchKernels, buf []byte) { v.PredChroma8[m](buf, off) })
		if m == 0 && f16 != nil && f8 != nil {
			top16, top8 := base[off-bps:off-bps+16], base[off-bps:off-bps+8]
			left := make([]byte, 16)
			for j := range left {
				left[j] = base[off-1+j*bps]
			}
			k.c.Case("dc16 "+intsB(top16)+" "+intsB(left), fmt.Sprint(f16[off+5+3*bps]))
			k.c.Case("pdc16 "+intsB(top16)+" "+intsB(left), fmt.Sprint(w16[off+5+3*bps]))
			k.c.Case("dc8 "+intsB(top8)+" "+intsB(left[:8]), fmt.Sprint(f8[off+2+6*bps]))
			k.c.Case("pdc8 "+intsB(top8)+" "+intsB(left[:8]), fmt.Sprint(w8[off+2+6*bps]))
			k.n += 4
		}
		if m == 1 && f16 != nil && f8 != nil {
			tl := base[off-1-bps]
			for s := 0; s < 6; s++ {
				i, j := k.r.Intn(16), k.r.Intn(16)
				args := fmt.Sprintf("%d %d %d", base[off+i-bps], base[off-1+j*bps], tl)
				k.c.Case("tm "+args, fmt.Sprint(f16[off+i+j*bps]))
				k.c.Case("ptm "+args, fmt.Sprint(w16[off+i+j*bps]))
				i, j = k.r.Intn(8), k.r.Intn(8)
				args = fmt.Sprintf("%d %d %d", base[off+i-bps], base[off-1+j*bps], tl)
				k.c.Case("tm "+args, fmt.Sprint(f8[off+i+j*bps]))
				k.c.Case("ptm "+args, fmt.Sprint(w8[off+i+j*bps]))
				k.n += 4
			}
		}
	}
	for m := 0; m < 7; m++ {
		m := m
		cmp(fmt.Sprintf("PredLuma16Direct-%d", m), func(v *webp.VerifArchKernels, buf []byte) { v.PredLuma16Direct(m, buf, off) })
		cmp(fmt.Sprintf("PredChroma8Direct-%d", m), func(v *webp.VerifArchKernels, buf []byte) { v.PredChroma8Direct(m, buf, off) })
	}
}

// ---------- simple loop filter ----------

func (k *kctx) sfilter(class string, thresh int) {
	stride := k.r.Pick(16, 32, 40, 64)
	base := k.bytesOf(class, 5*stride+32)
	if class == "near" || k.r.Intn(3) == 0 {
		// an edge: two nearly flat halves, so that the filter fires
		a, b := k.r.Intn(256), k.r.Intn(256)
		if k.r.Bool() {
			b = a + k.r.Range(-12, 12)
		}
		for i := range base {
			v := a
			if i >= 2*stride+8 {
				v = b
			}
			v += k.r.Range(-2, 2)
			if v < 0 {
				v = 0
			}
			if v > 255 {
				v = 255
			}
			base[i] = byte(v)
		}
	}
	edge := 2*stride + 8
	replay := map[string]any{"kernel": "SimpleVFilter16", "buf": base, "base": edge, "stride": stride, "thresh": thresh}
	want := append([]byte(nil), base...)
	if !k.guard("SimpleVFilter16", "portable", replay, func() { k.im.port.SimpleVFilter16(want, edge, stride, thresh) }) {
		return
	}
	same := true
	var first []byte
	for vi := range k.im.all {
		v := &k.im.all[vi]
		got := append([]byte(nil), base...)
		if !k.guard("SimpleVFilter16", v.Name, replay, func() { v.SimpleVFilter16(got, edge, stride, thresh) }) {
			continue
		}
		if vi == 0 {
			first = got
		}
		if !bytes.Equal(got, want) {
			same = false
			if thresh <= 193 {
				k.c.Violate("kernel-diff:SimpleVFilter16:"+v.Name, "simple loop filter: portable and "+v.Name+" results differ", replay)
			} else {
				k.c.Count("undeliverable-input-diff/SimpleVFilter16")
			}
		}
	}
	changed := !bytes.Equal(want, base)
	k.sig("SimpleVFilter16", fmt.Sprintf("%s/t%d/changed=%v", class, bucket(thresh), changed), same)
	if first != nil {
		for s := 0; s < 4; s++ {
			i := k.r.Intn(16)
			args := fmt.Sprintf("%d %d %d %d %d", base[edge+i-2*stride], base[edge+i-stride], base[edge+i], base[edge+i+stride], thresh)
			sop := "sfilt "
			if thresh > 193 {
				sop = "sfilt~ "
			}
			k.c.Case(sop+args, fmt.Sprintf("%d,%d", first[edge+i-stride], first[edge+i]))
			k.c.Case("psfilt "+args, fmt.Sprintf("%d,%d", want[edge+i-stride], want[edge+i]))
			k.n += 2
		}
	}
}

func bucket(t int) int {
	switch {
	case t < 4:
		return t
	case t < 16:
		return 8
	case t < 64:
		return 32
	case t < 256:
		return 128
	}
	return 1000
}

// ---------- metrics ----------

func (k *kctx) metrics(aclass, bclass string) {
	a := k.bytesOf(aclass, 16*bps+16)
	b := k.bytesOf(bclass, 16*bps+16)
	replay := map[string]any{"kernel": "metric", "a": a, "b": b}
	type entry struct {
		name string
		run  func(v *webp.VerifArchKernels) int
	}
	entries := []entry{
		{"SSE4x4", func(v *webp.VerifArchKernels) int { return v.SSE4x4(a, b) }},
		{"SSE16x16", func(v *webp.VerifArchKernels) int { return v.SSE16x16(a, b) }},
		{"SSE4x4Direct", func(v *webp.VerifArchKernels) int { return v.SSE4x4Direct(a, b) }},
		{"SSE16x16Direct", func(v *webp.VerifArchKernels) int { return v.SSE16x16Direct(a, b) }},
		{"TDisto4x4", func(v *webp.VerifArchKernels) int { return v.TDisto4x4(a, b) }},
		{"TDisto16x16", func(v *webp.VerifArchKernels) int { return v.TDisto16x16(a, b) }},
	}
	for _, e := range entries {
		var want int
		if !k.guard(e.name, "portable", replay, func() { want = e.run(&k.im.port) }) {
			continue
		}
		same := true
		first := -1
		for vi := range k.im.all {
			v := &k.im.all[vi]
			var got int
			if !k.guard(e.name, v.Name, replay, func() { got = e.run(v) }) {
				continue
			}
			if vi == 0 {
				first = got
			}
			if got != want {
				same = false
				k.c.Violate("kernel-diff:"+e.name+":"+v.Name, fmt.Sprintf("metric: portable %d, %s %d", want, v.Name, got), replay)
			}
		}
		k.sig(e.name, aclass+"/"+bclass, same)
		if e.name == "TDisto4x4" && first >= 0 {
			args := intsB(block4(a, 0)) + " " + intsB(block4(b, 0))
			k.c.Case("tdisto "+args, fmt.Sprint(first))
			k.c.Case("ptdisto "+args, fmt.Sprint(want))
			k.n += 2
		}
		if e.name == "SSE4x4" && first >= 0 {
			args := intsB(block4(a, 0)) + " " + intsB(block4(b, 0))
			k.c.Case("sse "+args, fmt.Sprint(first))
			k.c.Case("psse "+args, fmt.Sprint(want))
			k.n += 2
		}
	}
}

// ---------- lossless green transforms ----------

func (k *kctx) green(n int, class string) {
	px := make([]uint32, n+k.r.Intn(3))
	for i := range px {
		switch class {
		case "rand":
			px[i] = uint32(k.r.U64())
		case "extreme":
			px[i] = []uint32{0, 0xffffffff, 0x00ff00ff, 0xff00ff00, 0x0000ff00, 0x80808080, 0x7f7f7f7f, 0x01ff01ff, 0xff01ff01}[k.r.Intn(9)]
		}
	}
	for which, name := range []string{"AddGreenToBlueAndRed", "SubtractGreen"} {
		run := func(v *webp.VerifArchKernels, a []uint32) {
			if which == 0 {
				v.AddGreenToBlueAndRed(a, n)
			} else {
				v.SubtractGreen(a, n)
			}
		}
		replay := map[string]any{"kernel": name, "argb": px, "n": n}
		want := append([]uint32(nil), px...)
		if !k.guard(name, "portable", replay, func() { run(&k.im.port, want) }) {
			continue
		}
		same := true
		var first []uint32
		for vi := range k.im.all {
			v := &k.im.all[vi]
			got := append([]uint32(nil), px...)
			if !k.guard(name, v.Name, replay, func() { run(v, got) }) {
				continue
			}
			if vi == 0 {
				first = got
			}
			if fmt.Sprint(got) != fmt.Sprint(want) {
				same = false
				k.c.Violate("kernel-diff:"+name+":"+v.Name, "green transform: portable and "+v.Name+" results differ", replay)
			}
		}
		k.sig(name, fmt.Sprintf("%s/n%%8=%d/n>=8=%v", class, n%8, n >= 8), same)
		if first != nil && n > 0 {
			op := []string{"agreen", "sgreen"}[which]
			for s := 0; s < 3; s++ {
				i := k.r.Intn(n)
				p := px[i]
				args := fmt.Sprintf("%d %d %d %d", p>>24, (p>>16)&255, (p>>8)&255, p&255)
				k.c.Case(op+" "+args, fmt.Sprint(first[i]))
				k.c.Case("p"+op+" "+args, fmt.Sprint(want[i]))
				k.n += 2
			}
		}
	}
}

// ---------- upsampler ----------

func (k *kctx) upsample(width int, class string, bottom, alpha bool) {
	cw := (width + 1) / 2
	topY, botY := k.bytesOf(class, width), k.bytesOf(class, width)
	topU, topV, botU, botV := k.bytesOf(class, cw), k.bytesOf(class, cw), k.bytesOf(class, cw), k.bytesOf(class, cw)
	var aT, aB []byte
	if alpha {
		aT, aB = k.bytesOf("rand", width), k.bytesOf("rand", width)
	}
	if !bottom {
		botY, aB = nil, nil
	}
	replay := map[string]any{"kernel": "UpsampleLinePairNRGBA", "width": width, "class": class, "bottom": bottom, "alpha": alpha}
	if width <= 128 {
		replay = map[string]any{"kernel": "UpsampleLinePairNRGBA", "width": width, "topY": topY, "botY": botY, "topU": topU, "topV": topV, "botU": botU, "botV": botV, "alpha": alpha}
	}
	run := func(v *webp.VerifArchKernels) (t, b []byte) {
		t = make([]byte, width*4)
		if bottom {
			b = make([]byte, width*4)
		}
		v.UpsampleLinePairNRGBA(topY, botY, topU, topV, botU, botV, t, b, aT, aB, width)
		return
	}
	var wt, wb []byte
	if !k.guard("UpsampleLinePairNRGBA", "portable", replay, func() { wt, wb = run(&k.im.port) }) {
		return
	}
	same := true
	for vi := range k.im.all {
		v := &k.im.all[vi]
		var gt, gb []byte
		if !k.guard("UpsampleLinePairNRGBA", v.Name, replay, func() { gt, gb = run(v) }) {
			continue
		}
		if !bytes.Equal(gt, wt) || !bytes.Equal(gb, wb) {
			same = false
			k.c.Violate("kernel-diff:UpsampleLinePairNRGBA:"+v.Name, "fancy upsampler + YUV->NRGBA: portable and "+v.Name+" results differ", replay)
		}
	}
	k.sig("UpsampleLinePairNRGBA", fmt.Sprintf("%s/w%%8=%d/w>=8=%v/bottom=%v/alpha=%v", class, width%8, width >= 8, bottom, alpha), same)
}

// yuv sends single-pixel conversions to the models: with constant chroma rows
// the diamond filter reproduces (u, v) exactly for every pixel, so pixel x of
// the top row is YUVToRGB(y[x], u, v) computed by the batch routine.
func (k *kctx) yuv(class string) {
	const width = 12 // 8 by the AVX2 batch, 4 by the SSE2 batch (when dispatched so)
	u, v := byte(k.r.U64()), byte(k.r.U64())
	if class == "extreme" {
		u, v = byte(k.r.Pick(0, 255, 128, 16, 240)), byte(k.r.Pick(0, 255, 128, 16, 240))
	}
	y := k.bytesOf(class, width)
	cu, cv := bytes.Repeat([]byte{u}, width/2), bytes.Repeat([]byte{v}, width/2)
	run := func(im *webp.VerifArchKernels) []byte {
		t := make([]byte, width*4)
		im.UpsampleLinePairNRGBA(y, nil, cu, cv, cu, cv, t, nil, nil, nil, width)
		return t
	}
	want := run(&k.im.port)
	got := run(&k.im.all[0])
	for x := 0; x < width; x++ {
		args := fmt.Sprintf("%d %d %d", y[x], u, v)
		k.c.Case("yuv "+args, commaB(got[4*x:4*x+3]))
		k.c.Case("pyuv "+args, commaB(want[4*x:4*x+3]))
		k.n += 2
	}
	k.sig("YUVToRGB-batch", class, bytes.Equal(want, got))
}

// ---------- quantisation ----------

func (k *kctx) quant(class string) {
	r := k.r
	var sq webp.VerifSegmentQuant
	q := r.Range(1, 157)
	dcq := r.Range(1, 264)
	if r.Intn(4) == 0 {
		q, dcq = r.Pick(4, 8, 157, 1, 2), r.Pick(4, 8, 132, 264, 1)
	}
	sq.Quant, sq.DCQuant = q, dcq
	sq.IQuant, sq.DCIQuant = (1<<17)/q, (1<<17)/dcq
	sq.Bias, sq.DCBias = r.Range(0, 1<<17-1), r.Range(0, 1<<17-1)
	if r.Bool() {
		// the encoder's BIAS(b) = b << (17-8)
		sq.Bias, sq.DCBias = r.Range(0, 255)<<9, r.Range(0, 255)<<9
	}
	for i := range sq.Sharpen {
		if r.Intn(3) == 0 {
			sq.Sharpen[i] = int16(r.Range(0, 30))
		}
	}
	cs := k.coeffs(class, 2048)
	in := cs[:]
	// property-relevant: forward-DCT output of byte residuals (or the forward WHT of
	// their DCs) with the quantiser of a real segment; everything else is counted
	reach := false
	if class == "enc-chain" {
		_, fd, _ := k.encChainBlock()
		copy(in, fd[:])
		kind := []string{"Y1", "UV", "Y2"}[r.Intn(3)]
		sq = segmentQuant(r.Pick(0, 1, 7, 30, 63, 100, 117, 127, r.Intn(128)), kind)
		if kind == "Y2" {
			var dcs [16]int16
			for i := range dcs {
				_, f2, _ := k.encChainBlock()
				dcs[i] = f2[0]
			}
			out := make([]int16, 16)
			k.im.port.FTransformWHT(dcs[:], out)
			copy(in, out)
		}
		reach = true
	}
	first := r.Intn(2)
	replay := map[string]any{"kernel": "QuantizeCoeffs", "in": in, "Quant": sq.Quant, "IQuant": sq.IQuant, "Bias": sq.Bias, "DCQuant": sq.DCQuant,
		"DCIQuant": sq.DCIQuant, "DCBias": sq.DCBias, "Sharpen": sq.Sharpen, "firstCoeff": first}
	for _, inplace := range []bool{false, true} {
		f := webp.VerifArchQuantize
		name := "QuantizeCoeffs"
		if inplace {
			f = webp.VerifArchQuantizeInPlace
			name = "QuantizeCoeffs-inplace"
		}
		var want [16]int16
		var wnz int
		if !k.guard(name, "portable", replay, func() { want, wnz = f(true, in, &sq, first) }) {
			continue
		}
		same := true
		for _, avx2 := range []bool{true, false} {
			if avx2 && !webp.VerifArchHasAVX2() {
				continue
			}
			impl := "sse2"
			if avx2 {
				impl = "avx2"
			}
			var got [16]int16
			var gnz int
			old := webp.VerifArchSetAVX2(avx2)
			ok := k.guard(name, impl, replay, func() { got, gnz = f(false, in, &sq, first) })
			webp.VerifArchSetAVX2(old)
			if !ok {
				continue
			}
			if got != want || gnz != wnz {
				same = false
				if reach {
					rp := map[string]any{"case": replay, "portable": want, "portable_nz": wnz, "dispatched": got, "dispatched_nz": gnz, "impl": impl}
					k.c.Violate("kernel-diff:"+name+":"+impl, "quantisation: portable and dispatched results differ for |coeff| <= 2048", rp)
				} else {
					k.c.Count("undeliverable-input-diff/" + name)
				}
			}
		}
		k.sig(name, fmt.Sprintf("%s/first=%d", class, first), same)
		if !inplace && reach {
			// AC positions of the dispatched result against the one-coefficient models
			old := webp.VerifArchSetAVX2(true)
			got, _ := f(false, in, &sq, first)
			webp.VerifArchSetAVX2(old)
			for s := 0; s < 3; s++ {
				n := 1 + k.r.Intn(15)
				args := fmt.Sprintf("%d %d %d %d", in[n], sq.Sharpen[n], sq.IQuant, sq.Bias)
				k.c.Case("quant "+args, fmt.Sprint(got[n])) // reach: encoder-chain input
				k.c.Case("pquant "+args, fmt.Sprint(want[n]))
				k.n += 2
			}
		}
	}
	// dequantisation: levels * q, truncated to int16 on both sides
	var lv [16]int16
	for i := range lv {
		lv[i] = int16(r.Range(-2047, 2047))
		if class == "int16-extreme" || class == "int16-rand" {
			lv[i] = in[i]
		}
	}
	if reach { // the levels the quantiser really produced
		lv, _ = webp.VerifArchQuantize(true, in, &sq, 0)
	}
	var dw, dg [16]int16
	if k.guard("DequantCoeffs", "portable", replay, func() { dw = webp.VerifArchDequant(true, lv[:], &sq) }) &&
		k.guard("DequantCoeffs", "dispatched", replay, func() { dg = webp.VerifArchDequant(false, lv[:], &sq) }) {
		if dw != dg {
			if reach {
				k.c.Violate("kernel-diff:DequantCoeffs", "dequantisation: portable and dispatched results differ",
					map[string]any{"levels": lv, "Quant": sq.Quant, "DCQuant": sq.DCQuant, "portable": dw, "dispatched": dg})
			} else {
				k.c.Count("undeliverable-input-diff/DequantCoeffs")
			}
		}
		k.sig("DequantCoeffs", class, dw == dg)
		n := 1 + r.Intn(15)
		tilde := "~"
		if reach {
			tilde = ""
		}
		k.c.Case(fmt.Sprintf("deq%s %d %d", tilde, lv[n], sq.Quant), fmt.Sprint(dg[n]))
		k.c.Case(fmt.Sprintf("deqdc%s %d %d", tilde, lv[0], sq.DCQuant), fmt.Sprint(dg[0]))
		k.c.Case(fmt.Sprintf("pdeq %d %d", lv[n], sq.Quant), fmt.Sprint(dw[n]))
		k.n += 3
	}
}

// ---------- driver ----------

func kernels(c *Ctx) {
	initDeliv()
	k := &kctx{c: c, r: c.Rng.Fork()}
	k.im.port = webp.VerifArchPortable()
	k.im.all = append([]webp.VerifArchKernels{webp.VerifArchDispatched()}, webp.VerifArchVariants()...)
	names := []string{}
	for _, v := range k.im.all {
		names = append(names, v.Name)
	}
	c.D.Notes = append(c.D.Notes, "kernel differential: portable vs "+strings.Join(names, ", ")+fmt.Sprintf(" (AVX2 present: %v)", webp.VerifArchHasAVX2()))
	scale := 4
	if c.Thorough() {
		scale = 24
	}
	// fixed witnesses of the _refuted theorems first
	k.witnesses()

	idctClasses := []string{"sparse", "deliv-box", "deliv-corner", "deliv-any", "enc-chain", "enc-box-corner", "enc-box-rand", "box-rand", "box-corner", "box-same-sign", "typical", "box-corner+1", "box+1-same-sign", "int16-rand", "int16-extreme", "int16-max", "int16-min", "reachable"}
	predClasses := []string{"rand", "zero", "max", "mid", "extreme"}
	for rep := 0; rep < 12*scale; rep++ {
		for _, cl := range idctClasses {
			for _, pc := range predClasses {
				k.idct(cl, pc, 1)
			}
			k.idct(cl, predClasses[rep%len(predClasses)], 2)
			k.idct(cl, predClasses[(rep+1)%len(predClasses)], 4)
		}
	}
	for rep := 0; rep < 60*scale; rep++ {
		for _, cl := range idctClasses {
			k.wht(cl)
			k.fwht(cl)
		}
	}
	for rep := 0; rep < 6*scale; rep++ {
		for _, a := range byteClasses {
			for _, b := range byteClasses {
				k.fdct(a, b)
				k.metrics(a, b)
			}
		}
	}
	// rounding ties of the forward DCT ((x + 1812) >> 9 etc.) are hit by one
	// block in ~100: many random / near-flat blocks
	for rep := 0; rep < 700*scale; rep++ {
		k.fdct("rand", "rand")
		k.fdct("near", "near")
		k.fdct("rand", "near")
	}
	k.fdctTies(300000*scale, 150*scale)
	for rep := 0; rep < 10*scale; rep++ {
		for _, cl := range byteClasses {
			k.pred(cl)
		}
	}
	for rep := 0; rep < 8*scale; rep++ {
		for _, cl := range byteClasses {
			for _, t := range []int{0, 1, 2, 3, 5, 9, 20, 40, 63, 100, 130, 193, 255, 1000, k.r.Range(0, 300)} {
				k.sfilter(cl, t)
			}
		}
	}
	for rep := 0; rep < 3*scale; rep++ {
		for n := 0; n <= 41; n++ {
			k.green(n, "rand")
			k.green(n, "extreme")
		}
	}
	for rep := 0; rep < 2*scale; rep++ {
		for _, w := range []int{1, 2, 3, 4, 5, 6, 7, 8, 9, 10, 11, 12, 13, 15, 16, 17, 23, 24, 31, 32, 33, 47, 64, 65, 100} {
			for _, cl := range []string{"rand", "extreme", "zero", "max"} {
				k.upsample(w, cl, true, false)
				k.upsample(w, cl, rep%2 == 0, true)
				k.upsample(w, cl, false, false)
			}
		}
	}
	// wide rows: around every batch size and scratch threshold of the amd64 wrappers
	// (8/4-pixel batches; 2048-entry packed-UV stack scratch per row pair => widths
	// 1024/1025 and 2048/2049 switch stack <-> heap), plus powers of two beyond
	wide := []int{8, 16, 32, 255, 256, 257, 1023, 1024, 1025, 1536, 2047, 2048, 2049, 4095, 4096, 4097, 16383}
	for rep := 0; rep < 1+scale/8; rep++ {
		for _, w := range wide {
			for _, cl := range []string{"rand", "extreme"} {
				k.upsample(w, cl, true, rep%2 == 0)
				k.upsample(w, cl, false, rep%2 == 1)
				k.green(w, cl)
			}
		}
	}
	for rep := 0; rep < 60*scale; rep++ {
		for _, cl := range []string{"rand", "extreme", "zero", "max", "mid"} {
			k.yuv(cl)
		}
	}
	for rep := 0; rep < 40*scale; rep++ {
		for _, cl := range []string{"enc-chain", "enc-chain", "sparse", "typical", "box-rand", "box-corner", "int16-rand", "int16-extreme"} {
			k.quant(cl)
		}
	}
	c.Sample(map[string]any{"kernel_model_cases": k.n, "implementations": names})
}

// witnesses replays the blocks of lane16_idct_differs_refuted, idct_box_maximal
// and lane16_wht_differs_refuted on the real kernels.
func (k *kctx) witnesses() {
	type w struct {
		name   string
		coeffs [16]int16
	}
	var b2300, b2213, wh2048 [16]int16
	for i := range b2300 {
		b2300[i] = 2300
		wh2048[i] = 2048
	}
	b2213 = [16]int16{2213, -2213, -2213, 2213, -2213, 2213, 2213, -2213, -2213, 2213, 2213, -2213, 2213, -2213, -2213, 2213}
	pred := bytes.Repeat([]byte{128}, 16)
	for _, x := range []w{{"idct_block_2300", b2300}, {"idct_block_2213", b2213}} {
		run := func(v *webp.VerifArchKernels) []byte {
			dst := bytes.Repeat([]byte{128}, 4*bps)
			v.Transform(append([]int16(nil), x.coeffs[:]...), dst, false)
			return block4(dst, 0)
		}
		want := run(&k.im.port)
		got := run(&k.im.all[0])
		args := ints16(x.coeffs[:]) + " " + intsB(pred)
		wop := "idct! "
		if !deliverableY(x.coeffs[:], 127) {
			wop = "idct~ "
		}
		k.c.Case(wop+args, commaB(got))
		k.c.Case("pidct "+args, commaB(want))
		k.n += 2
		if !bytes.Equal(want, got) && !deliverableY(x.coeffs[:], 127) {
			k.c.Count("undeliverable-input-diff/witness/" + x.name) // maximality witness of the box, not a stream-deliverable block
		} else if !bytes.Equal(want, got) {
			k.c.Violate("lane16-wrap:idct", "decoder IDCT: the Coq witness "+x.name+" replays on the real kernels",
				map[string]any{"witness": x.name, "coeffs": x.coeffs, "pred": pred, "portable": want, "assembly": got, "impl": k.im.all[0].Name})
		}
		k.sig("Transform", "witness/"+x.name, bytes.Equal(want, got))
	}
	o1, o2 := make([]int16, 256), make([]int16, 256)
	k.im.port.TransformWHT(append([]int16(nil), wh2048[:]...), o1)
	k.im.all[0].TransformWHT(append([]int16(nil), wh2048[:]...), o2)
	w2 := "wht! "
	if !deliverableY2(wh2048[:]) {
		w2 = "wht~ "
	}
	k.c.Case(w2+ints16(wh2048[:]), comma16(gather16(o2)))
	k.c.Case("pwht "+ints16(wh2048[:]), comma16(gather16(o1)))
	k.n += 2
	if fmt.Sprint(o1) != fmt.Sprint(o2) && !deliverableY2(wh2048[:]) {
		k.c.Count("undeliverable-input-diff/witness/wht2048")
	} else if fmt.Sprint(o1) != fmt.Sprint(o2) {
		k.c.Violate("lane16-wrap:wht", "decoder inverse WHT: the Coq witness (16 x 2048) replays on the real kernels",
			map[string]any{"coeffs": wh2048, "portable": gather16(o1), "assembly": gather16(o2), "impl": k.im.all[0].Name})
	}
	k.sig("TransformWHT", "witness/2048", fmt.Sprint(o1) == fmt.Sprint(o2))
}
