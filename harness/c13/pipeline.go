package main

import (
	"bufio"
	"bytes"
	"crypto/sha256"
	"encoding/hex"
	"encoding/json"
	"fmt"
	"go/build/constraint"
	"image"
	"image/color"
	"image/draw"
	"os"
	"os/exec"
	"path/filepath"
	"runtime"
	"sort"
	"strings"

	webp "github.com/deepteams/webp"

	. "verifharness/hlib"
)

// ---------- the case set (identical in both builds) ----------

type pcase struct {
	name string
	img  image.Image
	opt  *webp.EncoderOptions
}

func mkImage(r *Rand, kind string, w, h int, alpha string) image.Image {
	im := image.NewNRGBA(image.Rect(0, 0, w, h))
	for y := 0; y < h; y++ {
		for x := 0; x < w; x++ {
			var cr, cg, cb uint8
			switch kind {
			case "noise":
				v := r.U64()
				cr, cg, cb = uint8(v), uint8(v>>8), uint8(v>>16)
			case "gradient":
				cr, cg, cb = uint8(x*255/max(1, w-1)), uint8(y*255/max(1, h-1)), uint8((x+y)*255/max(1, w+h-2))
			case "flat":
				cr, cg, cb = 200, 30, 90
			case "blocks":
				v := uint8(((x/5)*37 + (y/3)*91) & 255)
				cr, cg, cb = v, v^0x55, 255-v
			case "edges":
				if (x/4+y/4)%2 == 0 {
					cr, cg, cb = 255, 255, 255
				}
			case "extreme":
				v := r.U64()
				cr, cg, cb = uint8(255*(v&1)), uint8(255*((v>>1)&1)), uint8(255*((v>>2)&1))
			}
			a := uint8(255)
			switch alpha {
			case "grad":
				a = uint8((x*7 + y*13) & 255)
			case "binary":
				if (x+y)%3 == 0 {
					a = 0
				}
			case "noise":
				a = uint8(r.U64())
			}
			im.SetNRGBA(x, y, color.NRGBA{cr, cg, cb, a})
		}
	}
	if alpha == "" && kind == "gradient" {
		// an opaque non-NRGBA source type
		o := image.NewRGBA(im.Bounds())
		draw.Draw(o, o.Bounds(), im, image.Point{}, draw.Src)
		return o
	}
	return im
}

func pipelineCases(seed uint64, thorough bool) []pcase {
	r := NewRand(seed ^ 0xC13)
	var cs []pcase
	add := func(name string, img image.Image, f func(o *webp.EncoderOptions)) {
		o := webp.DefaultOptions()
		f(o)
		cs = append(cs, pcase{name, img, o})
	}
	sizes := [][2]int{{1, 1}, {3, 2}, {7, 5}, {16, 16}, {17, 33}, {40, 24}, {64, 64}}
	if thorough {
		sizes = append(sizes, [2]int{100, 75}, [2]int{131, 67}, [2]int{256, 200}, [2]int{400, 300})
	}
	kinds := []string{"noise", "gradient", "flat", "blocks", "edges", "extreme"}
	i := 0
	for _, sz := range sizes {
		for _, kind := range kinds {
			i++
			w, h := sz[0], sz[1]
			q := []float32{5, 30, 50, 75, 90, 100}[i%6]
			m := i % 7
			alpha := []string{"", "", "grad", "binary", "noise"}[i%5]
			img := mkImage(r.Fork(), kind, w, h, alpha)
			add(fmt.Sprintf("lossy/%s/%dx%d/q%v/m%d/a=%s", kind, w, h, q, m, alpha), img, func(o *webp.EncoderOptions) {
				o.Quality, o.Method = q, m
				switch i % 4 {
				case 1:
					o.FilterType = 0 // simple in-loop filter
					o.FilterStrength = 20 + (i*7)%80
				case 2:
					o.FilterStrength = 0
				case 3:
					o.FilterSharpness = i % 8
					o.Segments = 1 + i%4
				}
				if i%5 == 0 {
					o.UseSharpYUV = true
				}
				if i%6 == 0 {
					o.Preprocessing = 2 + i%2
				}
				if alpha != "" {
					o.AlphaQuality = []int{100, 60, 0}[i%3]
					o.AlphaFiltering = i % 3
				}
			})
			if i%2 == 0 {
				add(fmt.Sprintf("lossless/%s/%dx%d/q%v/m%d/a=%s", kind, w, h, q, m, alpha), img, func(o *webp.EncoderOptions) {
					o.Lossless = true
					o.Quality, o.Method = q, m
					o.Exact = i%4 == 0
				})
			}
		}
	}
	// ---- narrow inputs ----
	contrast := func(w, h, pat int) image.Image {
		im := image.NewNRGBA(image.Rect(0, 0, w, h))
		for y := 0; y < h; y++ {
			for x := 0; x < w; x++ {
				var on bool
				switch pat {
				case 0: // 1-pixel checkerboard: largest AC coefficients
					on = (x+y)%2 == 0
				case 1: // vertical stripes of width 2
					on = (x/2)%2 == 0
				case 2: // 4x4 blocks alternating: largest DCs, largest WHT input
					on = (x/4+y/4)%2 == 0
				case 3: // horizontal lines
					on = y%2 == 0
				case 4: // 16x16 macroblock checkerboard + random speckle
					on = (x/16+y/16)%2 == 0 != (r.Intn(9) == 0)
				}
				v := uint8(0)
				if on {
					v = 255
				}
				im.SetNRGBA(x, y, color.NRGBA{v, v, v, 255})
			}
		}
		return im
	}
	for pat := 0; pat < 5; pat++ {
		for qi, q := range []float32{100, 100, 0, 40} {
			pat, qi, q := pat, qi, q
			m := []int{0, 4, 6, 3}[qi]
			add(fmt.Sprintf("contrast/p%d/48x32/q%v/m%d/v%d", pat, q, m, qi), contrast(48, 32, pat), func(o *webp.EncoderOptions) {
				o.Quality, o.Method = q, m
				if qi == 1 {
					o.QMin, o.QMax = 100, 100
				}
				if qi == 2 {
					o.QMin, o.QMax = 0, 0
				}
				o.FilterStrength = []int{0, 60, 100, 30}[qi]
				o.FilterType = qi % 2
				o.Segments = 1 + qi
			})
		}
	}
	for _, n := range []int{1, 2, 15, 16, 17, 33} {
		n := n
		for k, sz := range [][2]int{{1, n}, {n, 1}} {
			img := mkImage(r.Fork(), "noise", sz[0], sz[1], []string{"", "noise"}[(n+k)%2])
			add(fmt.Sprintf("thin/%dx%d/lossy", sz[0], sz[1]), img, func(o *webp.EncoderOptions) { o.Quality, o.Method = 80, n%7 })
			add(fmt.Sprintf("thin/%dx%d/lossless", sz[0], sz[1]), img, func(o *webp.EncoderOptions) { o.Lossless, o.Method = true, n%7 })
		}
	}
	for k := 1; k <= 15; k++ {
		k := k
		w := 16 + k
		// with alpha: decoded through buildNRGBA / UpsampleLinePairNRGBA (batch + tail pixels)
		add(fmt.Sprintf("width/%dx9/alpha", w), mkImage(r.Fork(), "blocks", w, 9, "grad"), func(o *webp.EncoderOptions) { o.Quality, o.Method = 85, k%5 })
		add(fmt.Sprintf("width/%dx10/opaque", w), mkImage(r.Fork(), "noise", w, 10, ""), func(o *webp.EncoderOptions) { o.Quality, o.Method = 60, (k+2)%7 })
	}
	// wide and flat: rows longer than every internal scratch / batch threshold
	// (stack scratch of the amd64 upsampler: 2048 packed UV entries per row pair)
	for i, sz := range [][2]int{{1025, 2}, {1537, 3}, {2048, 3}, {2049, 2}, {4097, 2}, {1024, 2}, {2047, 1}} {
		i, w, h := i, sz[0], sz[1]
		img := mkImage(r.Fork(), []string{"gradient", "blocks", "noise"}[i%3], w, h, []string{"grad", "binary", "noise"}[i%3])
		add(fmt.Sprintf("wide/%dx%d/lossy-alpha", w, h), img, func(o *webp.EncoderOptions) { o.Quality, o.Method = 70, i%3 })
		add(fmt.Sprintf("wide/%dx%d/lossless", w, h), img, func(o *webp.EncoderOptions) { o.Lossless, o.Method, o.Quality = true, i%4, 40 })
		if i%2 == 0 {
			add(fmt.Sprintf("wide/%dx%d/lossy-opaque", w, h), mkImage(r.Fork(), "edges", w, h, ""), func(o *webp.EncoderOptions) { o.Quality, o.Method = 50, 1 })
		}
	}
	for m := 0; m <= 6; m++ {
		m := m
		add(fmt.Sprintf("lossless-method/m%d/40x24", m), mkImage(r.Fork(), []string{"blocks", "gradient", "noise"}[m%3], 40, 24, []string{"", "grad", "binary"}[m%3]), func(o *webp.EncoderOptions) {
			o.Lossless, o.Method, o.Quality = true, m, float32(20+12*m)
		})
	}
	return cs
}

func digest(b []byte) string {
	s := sha256.Sum256(b)
	return hex.EncodeToString(s[:12])
}

func imageDigest(im image.Image) string {
	b := im.Bounds()
	h := sha256.New()
	fmt.Fprintf(h, "%T %v;", im, b)
	switch t := im.(type) {
	case *image.NRGBA:
		for y := b.Min.Y; y < b.Max.Y; y++ {
			h.Write(t.Pix[t.PixOffset(b.Min.X, y) : t.PixOffset(b.Max.X-1, y)+4])
		}
	case *image.RGBA:
		for y := b.Min.Y; y < b.Max.Y; y++ {
			h.Write(t.Pix[t.PixOffset(b.Min.X, y) : t.PixOffset(b.Max.X-1, y)+4])
		}
	case *image.YCbCr:
		for y := b.Min.Y; y < b.Max.Y; y++ {
			for x := b.Min.X; x < b.Max.X; x++ {
				h.Write([]byte{t.Y[t.YOffset(x, y)], t.Cb[t.COffset(x, y)], t.Cr[t.COffset(x, y)]})
			}
		}
	default:
		for y := b.Min.Y; y < b.Max.Y; y++ {
			for x := b.Min.X; x < b.Max.X; x++ {
				r, g, bb, a := im.At(x, y).RGBA()
				h.Write([]byte{byte(r >> 8), byte(g >> 8), byte(bb >> 8), byte(a >> 8)})
			}
		}
	}
	return hex.EncodeToString(h.Sum(nil)[:12])
}

// pipelineWorker prints one line per case: name, outcome of Encode, digest of
// the file, outcome of Decode of that file, digest of the decoded picture; then
// the decode digests of the adversarial streams given in C13_STREAMS (hex, one
// per line, produced by the normal build so that both builds decode the same
// bytes).
func pipelineWorker() {
	seed := uint64(1)
	fmt.Sscan(os.Getenv("C13_SEED"), &seed)
	thorough := os.Getenv("C13_TIER") == "thorough"
	if os.Getenv("C13_AVX2") == "off" {
		webp.VerifArchForceSSE2()
	}
	out := bufio.NewWriter(os.Stdout)
	defer out.Flush()
	fmt.Fprintf(out, "build goarch=%s variants=%d avx2=%v\n", runtime.GOARCH, len(webp.VerifArchVariants()), webp.VerifArchHasAVX2())
	for _, pc := range pipelineCases(seed, thorough) {
		var encoded []byte
		line := func() (s string) {
			defer func() {
				if r := recover(); r != nil {
					s = "panic:" + strings.Join(strings.Fields(fmt.Sprint(r)), "_")
					if len(encoded) > 0 && len(encoded) <= 1<<16 {
						s += " webp_hex=" + hex.EncodeToString(encoded)
					}
				}
			}()
			var buf bytes.Buffer
			if err := webp.Encode(&buf, pc.img, pc.opt); err != nil {
				return "encode-err"
			}
			s = fmt.Sprintf("enc=%d:%s", buf.Len(), digest(buf.Bytes()))
			encoded = buf.Bytes()
			im, err := webp.Decode(bytes.NewReader(buf.Bytes()))
			if err != nil {
				return s + " decode-err"
			}
			return s + " dec=" + imageDigest(im)
		}()
		fmt.Fprintf(out, "case %s %s\n", pc.name, line)
	}
	if p := os.Getenv("C13_STREAMS"); p != "" {
		data, _ := os.ReadFile(p)
		for i, l := range strings.Split(strings.TrimSpace(string(data)), "\n") {
			f := strings.Fields(l)
			if len(f) != 2 {
				continue
			}
			raw, _ := hex.DecodeString(f[1])
			res := func() (s string) {
				defer func() {
					if r := recover(); r != nil {
						s = fmt.Sprintf("panic:%v", r)
					}
				}()
				im, err := webp.Decode(bytes.NewReader(raw))
				if err != nil {
					return "decode-err"
				}
				return "dec=" + imageDigest(im)
			}()
			fmt.Fprintf(out, "stream %d:%s %s\n", i, f[0], res)
		}
	}
}

// ---------- the overlay ("portable") build ----------

// simplify partially evaluates a build constraint with the given tags fixed.
// Returns (expr, known, value): known => the whole expression is decided.
func simplify(x constraint.Expr, fixed map[string]bool) (constraint.Expr, bool, bool) {
	switch e := x.(type) {
	case *constraint.TagExpr:
		if v, ok := fixed[e.Tag]; ok {
			return nil, true, v
		}
		return e, false, false
	case *constraint.NotExpr:
		s, k, v := simplify(e.X, fixed)
		if k {
			return nil, true, !v
		}
		return &constraint.NotExpr{X: s}, false, false
	case *constraint.AndExpr:
		a, ka, va := simplify(e.X, fixed)
		b, kb, vb := simplify(e.Y, fixed)
		switch {
		case ka && !va, kb && !vb:
			return nil, true, false
		case ka && kb:
			return nil, true, true
		case ka:
			return b, false, false
		case kb:
			return a, false, false
		}
		return &constraint.AndExpr{X: a, Y: b}, false, false
	case *constraint.OrExpr:
		a, ka, va := simplify(e.X, fixed)
		b, kb, vb := simplify(e.Y, fixed)
		switch {
		case ka && va, kb && vb:
			return nil, true, true
		case ka && kb:
			return nil, true, false
		case ka:
			return b, false, false
		case kb:
			return a, false, false
		}
		return &constraint.OrExpr{X: a, Y: b}, false, false
	}
	return x, false, false
}

// makeOverlay writes the overlay JSON for a build of repo in which no
// architecture-specific file takes part: every file whose name or constraint
// selects amd64/arm64 (and every .s file) is deleted, and every file
// constrained to "not amd64 / not arm64" is replaced by a copy whose
// constraint is evaluated with amd64 = arm64 = false.
func makeOverlay(repo, dir string) (string, map[string]int, error) {
	stats := map[string]int{}
	repl := map[string]string{}
	fixed := map[string]bool{"amd64": false, "arm64": false}
	os.RemoveAll(dir)
	if err := os.MkdirAll(dir, 0o755); err != nil {
		return "", nil, err
	}
	n := 0
	err := filepath.Walk(repo, func(p string, fi os.FileInfo, err error) error {
		if err != nil {
			return err
		}
		if fi.IsDir() {
			if b := fi.Name(); b == ".git" || b == "testdata" {
				return filepath.SkipDir
			}
			return nil
		}
		name := fi.Name()
		if strings.HasSuffix(name, ".s") {
			repl[p] = ""
			stats["asm-removed"]++
			return nil
		}
		if !strings.HasSuffix(name, ".go") || strings.HasSuffix(name, "_test.go") {
			return nil
		}
		stem := strings.TrimSuffix(name, ".go")
		for _, a := range []string{"amd64", "arm64"} {
			if strings.HasSuffix(stem, "_"+a) {
				repl[p] = ""
				stats["go-arch-file-removed"]++
				return nil
			}
		}
		src, err := os.ReadFile(p)
		if err != nil {
			return err
		}
		lines := strings.Split(string(src), "\n")
		for i, l := range lines {
			t := strings.TrimSpace(l)
			if strings.HasPrefix(t, "package ") {
				break
			}
			if !constraint.IsGoBuild(t) {
				continue
			}
			x, err := constraint.Parse(t)
			if err != nil {
				return fmt.Errorf("%s: %v", p, err)
			}
			mentions := false
			x.Eval(func(tag string) bool {
				if tag == "amd64" || tag == "arm64" {
					mentions = true
				}
				return false
			})
			if !mentions {
				break
			}
			s, known, val := simplify(x, fixed)
			switch {
			case known && !val:
				repl[p] = ""
				stats["go-arch-constraint-removed"]++
			default:
				if known {
					lines[i] = ""
				} else {
					lines[i] = "//go:build " + s.String()
				}
				n++
				cp := filepath.Join(dir, fmt.Sprintf("%03d_%s", n, name))
				if err := os.WriteFile(cp, []byte(strings.Join(lines, "\n")), 0o644); err != nil {
					return err
				}
				repl[p] = cp
				stats["portable-file-unconstrained"]++
			}
			break
		}
		return nil
	})
	if err != nil {
		return "", nil, err
	}
	js, _ := json.MarshalIndent(map[string]any{"Replace": repl}, "", " ")
	op := filepath.Join(dir, "overlay.json")
	return op, stats, os.WriteFile(op, js, 0o644)
}

func runWorker(bin string, seed int64, tier, streams string, extraEnv ...string) workerOut {
	cmd := exec.Command(bin)
	cmd.Env = append(os.Environ(), "C13_MODE=pipeline", fmt.Sprintf("C13_SEED=%d", seed), "C13_TIER="+tier, "C13_STREAMS="+streams)
	cmd.Env = append(cmd.Env, extraEnv...)
	var stderr bytes.Buffer
	cmd.Stderr = &stderr
	outb, err := cmd.Output()
	if err != nil {
		return workerOut{err: fmt.Errorf("%v: %s", err, stderr.String())}
	}
	res := map[string]string{}
	var order []string
	hdr := ""
	for _, l := range strings.Split(strings.TrimSpace(string(outb)), "\n") {
		f := strings.SplitN(l, " ", 3)
		if len(f) == 3 && (f[0] == "case" || f[0] == "stream") {
			res[f[0]+" "+f[1]] = f[2]
			order = append(order, f[0]+" "+f[1])
		} else if strings.HasPrefix(l, "build ") {
			hdr = l
		}
	}
	return workerOut{res, order, hdr, nil}
}

type workerOut struct {
	res   map[string]string
	order []string
	hdr   string
	err   error
}

type overlayWork struct {
	done     chan struct{}
	stats    map[string]int
	err      error  // overlay construction
	buildOut string // non-empty: the overlay build failed
	normal   workerOut
	sse2only workerOut // normal build, AVX2 switched off
	portable workerOut
}

// overlayStart runs, in the background: the pipeline worker of this (normal)
// build; the construction of the overlay, the build of the portable harness
// binary from it, and that binary's pipeline worker.
func overlayStart(c *Ctx) *overlayWork {
	w := &overlayWork{done: make(chan struct{})}
	portable := filepath.Join(c.OutDir, "h_portable")
	verif := os.Getenv("VERIF_DIR")
	if verif == "" {
		verif = "/verif"
	}
	streams := filepath.Join(c.OutDir, "streams.txt")
	writeStreams(c, streams)
	seed, tier := c.Seed, c.Tier
	self, _ := os.Executable()
	go func() {
		defer close(w.done)
		nd := make(chan struct{})
		go func() {
			defer close(nd)
			w.normal = runWorker(self, seed, tier, streams)
		}()
		defer func() { <-nd }()
		sd := make(chan struct{})
		go func() {
			defer close(sd)
			w.sse2only = runWorker(self, seed, tier, streams, "C13_AVX2=off")
		}()
		defer func() { <-sd }()
		ovDir, _ := os.MkdirTemp("", "arch-overlay-")
		defer os.RemoveAll(ovDir)
		ov, stats, err := makeOverlay(repoDir(), ovDir)
		w.stats, w.err = stats, err
		if err != nil {
			return
		}
		args := []string{"build", "-tags", "verif", "-overlay", ov}
		if repoDir() != "/repo" {
			// a run against another tree (bin/mutrun): the harness module's replace must
			// point there too, otherwise the overlay (keyed by file path) does not apply.
			// Private modfile (+ sum) in our own temp dir: concurrent mutation runs
			// share build/go.alt.mod and may rewrite it between bin/check's build and ours.
			mod, err1 := os.ReadFile(filepath.Join(verif, "harness", "go.mod"))
			alt := filepath.Join(ovDir, "go.c13.mod")
			if err1 == nil {
				err1 = os.WriteFile(alt, []byte(strings.Replace(string(mod), "=> /repo", "=> "+repoDir(), 1)), 0o644)
			}
			if sum, err := os.ReadFile(filepath.Join(verif, "harness", "go.sum")); err == nil {
				os.WriteFile(filepath.Join(ovDir, "go.c13.sum"), sum, 0o644)
			}
			if err1 != nil {
				w.buildOut = "cannot write the private modfile: " + err1.Error()
				return
			}
			args = append(args, "-modfile", alt)
		}
		args = append(args, "-o", portable, "./c13")
		cmd := exec.Command("go", args...)
		cmd.Dir = filepath.Join(verif, "harness")
		if outb, err := cmd.CombinedOutput(); err != nil {
			w.buildOut = string(outb) + " " + err.Error()
			return
		}
		w.portable = runWorker(portable, seed, tier, streams)
	}()
	return w
}

// broken reports a failure of the harness machinery itself (not a decision about the
// property): the run ends with a non-zero exit status, which bin/check reports as a
// broken harness ("no-failing-input-found"), never as a violation with a key.
func broken(format string, a ...any) {
	fmt.Printf("C13 harness cannot decide the pipeline clause: "+format+"\n", a...)
	os.Exit(3)
}

func pipeline(c *Ctx, w *overlayWork) {
	<-w.done
	if w.err != nil {
		broken("cannot construct the portable overlay: %v", w.err)
	}
	for k, v := range w.stats {
		c.Count("overlay/" + k)
		c.D.Distribution["overlay/"+k] += v - 1
	}
	if w.buildOut != "" {
		// the real non-assembly targets are decided by the build matrix (linux/386, arm, wasm ...);
		// the overlay build is only the vehicle of the two-build comparison
		broken("the overlay (no-assembly) build of the harness failed: %s", tail(w.buildOut, 3000))
	}
	nres, order, nh, err1 := w.normal.res, w.normal.order, w.normal.hdr, w.normal.err
	pres, ph, err2 := w.portable.res, w.portable.hdr, w.portable.err
	if err1 != nil || err2 != nil {
		broken("pipeline worker failed: normal=%v portable=%v", err1, err2)
	}
	c.D.Notes = append(c.D.Notes, "pipeline builds: normal ["+nh+"], overlay ["+ph+"]")
	if !strings.Contains(ph, "variants=0") && runtime.GOARCH == "amd64" {
		broken("the overlay build still contains assembly variants (%s): architecture-specific files are no longer recognised by name / build constraint", ph)
	}
	sort.Strings(order)
	for _, name := range order {
		a, b := nres[name], pres[name]
		c.D.Evaluations++
		kind := strings.SplitN(strings.TrimPrefix(strings.TrimPrefix(name, "case "), "stream "), "/", 2)[0]
		if strings.HasPrefix(name, "stream ") {
			kind = "stream-" + strings.SplitN(kind, ":", 2)[1]
			if !strings.HasPrefix(a, "dec=") || !strings.HasPrefix(b, "dec=") {
				if a == b {
					// both builds reject it alike: not a C13 matter (the stream generator may be out of date)
					c.Count("pipeline/stream-rejected-by-both-builds")
				}
			}
		}
		for which, res := range map[string]string{"normal": a, "portable": b} {
			if strings.HasPrefix(res, "panic:") {
				rp := map[string]any{"case": name, "build": which, "result": res, "seed": c.Seed, "tier": c.Tier,
					"how": "harness/c13 pipelineCases(seed, tier) regenerates the picture and options from the case name; webp_hex (when present) is the encoded file whose Decode panicked"}
				c.Violate("pipeline-panic:"+kind+":"+which, "Encode/Decode panicked in the "+which+" build", rp)
			}
		}
		if a == b {
			c.Count("pipeline/" + kind + "/identical")
			c.Nontrivial("pipeline/" + name)
			continue
		}
		c.Count("pipeline/" + kind + "/DIFFERENT")
		key := "pipeline-diff:" + kind
		if strings.HasPrefix(name, "stream ") {
			// "stream <i>:<class>/<detail>"
			cl := strings.SplitN(strings.TrimPrefix(name, "stream "), ":", 2)[1]
			key = "pipeline-diff:stream:" + strings.SplitN(cl, "/", 2)[0]
		}
		rp := map[string]any{"case": name, "normal": a, "portable": b,
			"how": "two harness binaries built from the same tree (normal; go build -overlay with every amd64/arm64 file removed and the !amd64 files un-constrained) ran the same case"}
		if strings.HasPrefix(name, "stream ") {
			var idx int
			fmt.Sscanf(strings.TrimPrefix(name, "stream "), "%d:", &idx)
			if ss := adversarialStreams(); idx < len(ss) {
				rp["webp_file_hex"] = hex.EncodeToString(ss[idx].data)
				rp["note"] = "valid 16x16 VP8 key frame (one i16/DC_PRED macroblock) whose dequantised coefficients int16(level*dq) leave the no-wrap range of the SSE2/AVX2 inverse WHT / IDCT: webp.Decode returns different pixels on amd64 and on a build without assembly"
			}
		}
		c.Violate(key, "normal (assembly) build and portable overlay build produce different results", rp)
	}
	// the normal build with AVX2 switched off must agree with itself with AVX2 on
	if webp.VerifArchHasAVX2() {
		if w.sse2only.err != nil {
			broken("pipeline worker (AVX2 off) failed: %v", w.sse2only.err)
		} else {
			if !strings.Contains(w.sse2only.hdr, "avx2=false") {
				broken("the AVX2-off worker still reports AVX2 (%s)", w.sse2only.hdr)
			}
			for _, name := range order {
				a, b := nres[name], w.sse2only.res[name]
				c.D.Evaluations++
				if strings.HasPrefix(b, "panic:") {
					c.Violate("pipeline-panic:avx2-off", "Encode/Decode panicked in the normal build with AVX2 switched off", map[string]any{"case": name, "result": b, "seed": c.Seed, "tier": c.Tier})
				}
				if a == b {
					c.Count("pipeline-avx2-off/identical")
					continue
				}
				c.Count("pipeline-avx2-off/DIFFERENT")
				c.Violate("pipeline-diff:avx2-off", "the same build produces different results with AVX2 on and with AVX2 switched off (SSE2 only)",
					map[string]any{"case": name, "avx2": a, "sse2_only": b})
			}
		}
	}
	if len(order) > 0 {
		c.Sample(map[string]any{"pipeline_case": order[0], "normal": nres[order[0]], "portable": pres[order[0]]})
	}
}
