package main

import (
	"encoding/binary"

	webp "github.com/deepteams/webp"
)

type advStream struct {
	name string
	data []byte
}

// vp8Plan describes a hand-assembled one-macroblock (16x16) VP8 key frame in
// i16/DC_PRED mode: a Y2 block and sixteen luma AC blocks with the given token
// levels, empty chroma.  Every field is within what the format allows.
type vp8Plan struct {
	qi        int // base quantiser index 0..127
	y2        [16]int
	yAC       [16]int // zigzag positions 1..15 used, same for all 16 blocks
	simpleFlt bool
	fltLevel  int
}

func nbitsCat(tab []uint8) int {
	n := 0
	for _, p := range tab {
		if p == 0 {
			break
		}
		n++
	}
	return n
}

func putLarge(bw *webp.VerifArchBoolWriter, t *webp.VerifArchVP8Tables, v int, p []uint8) {
	if v <= 4 {
		bw.PutBit(0, int(p[3]))
		if v == 2 {
			bw.PutBit(0, int(p[4]))
		} else {
			bw.PutBit(1, int(p[4]))
			bw.PutBit(v-3, int(p[5]))
		}
		return
	}
	bw.PutBit(1, int(p[3]))
	if v <= 10 {
		bw.PutBit(0, int(p[6]))
		if v <= 6 {
			bw.PutBit(0, int(p[7]))
			bw.PutBit(v-5, 159)
		} else {
			bw.PutBit(1, int(p[7]))
			bw.PutBit((v-7)>>1, 165)
			bw.PutBit((v-7)&1, 145)
		}
		return
	}
	bw.PutBit(1, int(p[6]))
	cat := 0
	for cat < 3 && v >= 3+(8<<uint(cat+1)) {
		cat++
	}
	bit1, bit0 := cat>>1, cat&1
	bw.PutBit(bit1, int(p[8]))
	bw.PutBit(bit0, int(p[9+bit1]))
	extra := v - 3 - (8 << uint(cat))
	tab := t.Cat3456[cat]
	n := nbitsCat(tab)
	for i := 0; i < n; i++ {
		bw.PutBit((extra>>uint(n-1-i))&1, int(tab[i]))
	}
}

// putCoeffs mirrors getCoeffsInline; levels are indexed by zigzag position.
func putCoeffs(bw *webp.VerifArchBoolWriter, t *webp.VerifArchVP8Tables, typ, ctx, first int, levels [16]int) (nz int) {
	last := -1
	for n := first; n < 16; n++ {
		if levels[n] != 0 {
			last = n
		}
	}
	proba := func(n, c int) []uint8 { return t.CoeffsProba0[typ][t.KBands[n]][c][:] }
	n := first
	p := proba(n, ctx)
	if last < 0 {
		bw.PutBit(0, int(p[0]))
		return first
	}
	for n <= last {
		bw.PutBit(1, int(p[0]))
		for levels[n] == 0 {
			bw.PutBit(0, int(p[1]))
			n++
			p = proba(n, 0)
		}
		bw.PutBit(1, int(p[1]))
		v := levels[n]
		sign := 0
		if v < 0 {
			sign, v = 1, -v
		}
		next := 1
		if v == 1 {
			bw.PutBit(0, int(p[2]))
		} else {
			bw.PutBit(1, int(p[2]))
			putLarge(bw, t, v, p)
			next = 2
		}
		bw.PutBitUniform(sign)
		n++
		if n == 16 {
			return 16
		}
		p = proba(n, next)
	}
	bw.PutBit(0, int(p[0]))
	return n
}

func buildVP8(pl vp8Plan) []byte {
	t := webp.VerifArchTables()
	// partition 0: headers and modes
	h := webp.VerifArchNewBoolWriter(4096)
	h.PutBitUniform(0) // colour space
	h.PutBitUniform(0) // clamping type
	h.PutBitUniform(0) // no segmentation
	if pl.simpleFlt {
		h.PutBitUniform(1)
	} else {
		h.PutBitUniform(0)
	}
	h.PutBits(uint32(pl.fltLevel), 6)
	h.PutBits(0, 3)    // sharpness
	h.PutBitUniform(0) // no lf deltas
	h.PutBits(0, 2)    // one token partition
	h.PutBits(uint32(pl.qi), 7)
	for i := 0; i < 5; i++ {
		h.PutBitUniform(0) // no quantiser deltas
	}
	h.PutBitUniform(0) // refresh entropy probs
	for a := range t.CoeffsUpdateProba {
		for b := range t.CoeffsUpdateProba[a] {
			for c := range t.CoeffsUpdateProba[a][b] {
				for d := range t.CoeffsUpdateProba[a][b][c] {
					h.PutBit(0, int(t.CoeffsUpdateProba[a][b][c][d]))
				}
			}
		}
	}
	h.PutBitUniform(0) // no skip probability
	h.PutBit(1, 145)   // i16
	h.PutBit(0, 156)
	h.PutBit(0, 163) // DC_PRED
	h.PutBit(0, 142) // chroma DC_PRED
	part0 := append([]byte(nil), h.Finish()...)

	// token partition
	w := webp.VerifArchNewBoolWriter(4096)
	putCoeffs(w, &t, 1, 0, 0, pl.y2)
	var top [4]int
	for y := 0; y < 4; y++ {
		l := 0
		for x := 0; x < 4; x++ {
			nz := putCoeffs(w, &t, 0, l+top[x], 1, pl.yAC)
			f := 0
			if nz > 1 {
				f = 1
			}
			l, top[x] = f, f
		}
	}
	var none [16]int
	for i := 0; i < 8; i++ {
		putCoeffs(w, &t, 2, 0, 0, none)
	}
	tok := append([]byte(nil), w.Finish()...)

	var frame []byte
	tag := uint32(0) | 0<<1 | 1<<4 | uint32(len(part0))<<5
	frame = append(frame, byte(tag), byte(tag>>8), byte(tag>>16), 0x9d, 0x01, 0x2a, 16, 0, 16, 0)
	frame = append(frame, part0...)
	frame = append(frame, tok...)
	pad := len(frame) & 1
	out := []byte("RIFF")
	out = binary.LittleEndian.AppendUint32(out, uint32(4+8+len(frame)+pad))
	out = append(out, "WEBPVP8 "...)
	out = binary.LittleEndian.AppendUint32(out, uint32(len(frame)))
	out = append(out, frame...)
	if pad == 1 {
		out = append(out, 0)
	}
	return out
}

func fill(v int, alt bool) (a [16]int) {
	for i := range a {
		a[i] = v
		if alt && i%2 == 1 {
			a[i] = -v
		}
	}
	return
}

// adversarialStreams returns hand-assembled valid VP8 files.  The "lane16-wrap"
// ones carry token levels whose dequantised coefficients int16(level*dq) leave
// the no-wrap range of the 16-bit-lane inverse WHT / IDCT; "control" ones stay
// far inside it.
func adversarialStreams() []advStream {
	plans := []struct {
		name string
		p    vp8Plan
	}{
		// q19: y2 dc 40, y2 ac 35, y1 ac 23: WHT input 16 x ~2070, IDCT AC 15 x 2300
		{"lane16-wrap/q19-wht2070-ac2300", vp8Plan{qi: 19, y2: func() [16]int { a := fill(59, false); a[0] = 52; return a }(), yAC: fill(100, false)}},
		{"lane16-wrap/q60-alt", vp8Plan{qi: 60, y2: fill(300, true), yAC: fill(400, true), simpleFlt: true, fltLevel: 20}},
		{"lane16-wrap/q127-max", vp8Plan{qi: 127, y2: fill(2114, false), yAC: fill(2114, false), fltLevel: 30}},
		{"lane16-wrap/q0-max", vp8Plan{qi: 0, y2: fill(2114, false), yAC: fill(2114, true)}},
		{"control/q30-small", vp8Plan{qi: 30, y2: fill(7, true), yAC: fill(3, true), simpleFlt: true, fltLevel: 25}},
		{"control/q80-mid", vp8Plan{qi: 80, y2: func() [16]int { var a [16]int; a[0] = 40; a[1] = -9; a[5] = 2; return a }(), yAC: func() [16]int { var a [16]int; a[1] = 6; a[2] = -3; a[9] = 1; return a }(), fltLevel: 40}},
	}
	var out []advStream
	for _, p := range plans {
		out = append(out, advStream{p.name, buildVP8(p.p)})
	}
	return out
}
