package main

type advStream struct {
	name string
	data []byte
}

// adversarialStreams returns hand-assembled valid VP8 files whose dequantised
// coefficients leave the no-wrap range of the 16-bit-lane kernels.
func adversarialStreams() []advStream { return nil }
