package main

import (
	"fmt"
	"os"
	"os/exec"
	"strings"
	"sync"

	. "verifharness/hlib"
)

type target struct{ goos, goarch string }

var quickTargets = []target{{"linux", "amd64"}, {"linux", "arm64"}, {"linux", "386"}, {"linux", "arm"}, {"js", "wasm"}}

var allTargets = []target{
	{"linux", "amd64"}, {"linux", "arm64"}, {"linux", "386"}, {"linux", "arm"}, {"linux", "riscv64"},
	{"linux", "mips"}, {"linux", "mipsle"}, {"linux", "mips64"}, {"linux", "ppc64le"}, {"linux", "s390x"}, {"linux", "loong64"},
	{"windows", "amd64"}, {"windows", "386"}, {"windows", "arm64"},
	{"darwin", "amd64"}, {"darwin", "arm64"}, {"freebsd", "amd64"}, {"openbsd", "amd64"}, {"netbsd", "arm64"},
	{"android", "arm64"}, {"js", "wasm"}, {"wasip1", "wasm"},
}

type buildRes struct {
	t   target
	out string
	err error
}

type matrixWork struct {
	done    chan struct{}
	results []buildRes
	vetOut  string
	vetErr  error
}

func repoDir() string {
	if r := os.Getenv("VERIF_REPO"); r != "" {
		return r
	}
	return "/repo"
}

// matrixStart runs `go build ./...` in /repo for each target (and `go vet` for
// the 32-bit representative) in the background.
func matrixStart(thorough bool) *matrixWork {
	ts := quickTargets
	if thorough {
		ts = allTargets
	}
	w := &matrixWork{done: make(chan struct{}), results: make([]buildRes, len(ts))}
	go func() {
		defer close(w.done)
		sem := make(chan struct{}, 3)
		var wg sync.WaitGroup
		for i, t := range ts {
			wg.Add(1)
			go func(i int, t target) {
				defer wg.Done()
				sem <- struct{}{}
				defer func() { <-sem }()
				cmd := exec.Command("go", "build", "./...")
				cmd.Dir = repoDir()
				cmd.Env = append(os.Environ(), "GOOS="+t.goos, "GOARCH="+t.goarch, "CGO_ENABLED=0")
				out, err := cmd.CombinedOutput()
				w.results[i] = buildRes{t, string(out), err}
			}(i, t)
		}
		wg.Wait()
		cmd := exec.Command("go", "vet", "./...")
		cmd.Dir = repoDir()
		cmd.Env = append(os.Environ(), "GOOS=linux", "GOARCH=386", "CGO_ENABLED=0")
		out, err := cmd.CombinedOutput()
		w.vetOut, w.vetErr = string(out), err
	}()
	return w
}

// matrixFinish records the results: a failing build is a violation whose
// replay is the compiler output.
func matrixFinish(c *Ctx, w *matrixWork) {
	<-w.done
	for _, r := range w.results {
		name := r.t.goos + "/" + r.t.goarch
		c.D.Evaluations++
		if r.err != nil {
			// a target for which the toolchain cannot even build standard-library packages is not
			// one "the toolchain supports": counted, not reported
			probe := exec.Command("go", "build", "image", "bytes", "encoding/binary", "sync")
			probe.Dir = repoDir()
			probe.Env = append(os.Environ(), "GOOS="+r.t.goos, "GOARCH="+r.t.goarch, "CGO_ENABLED=0")
			if pout, perr := probe.CombinedOutput(); perr != nil {
				c.Count("build/toolchain-cannot-build-std")
				c.D.Notes = append(c.D.Notes, "build matrix: "+name+" skipped, the toolchain cannot build std for it: "+strings.Join(strings.Fields(tail(string(pout), 300)), " "))
				continue
			}
			c.Count("build/FAILED")
			c.Violate("build:"+name, "go build ./... fails for GOOS="+r.t.goos+" GOARCH="+r.t.goarch,
				map[string]any{"cmd": "GOOS=" + r.t.goos + " GOARCH=" + r.t.goarch + " go build ./...", "compiler_output": tail(r.out, 3000)})
			continue
		}
		c.Count("build/ok")
		c.Nontrivial("build/" + name)
	}
	// go vet type-checks the test files too.  Diagnostics that are not compile
	// errors are recorded, not violations.
	c.D.Evaluations++
	if w.vetErr != nil {
		if compileError(w.vetOut) {
			// test files are not part of "the module compiles": recorded only (go build ./... for the
			// same target is what decides the clause)
			c.Count("vet/type-errors-in-tests-or-vet-only")
			c.D.Notes = append(c.D.Notes, "go vet linux/386 could not type-check (tests included; not a violation): "+strings.Join(strings.Fields(tail(w.vetOut, 600)), " "))
		} else {
			c.Count("vet/diagnostics-only")
			c.D.Notes = append(c.D.Notes, "go vet linux/386 diagnostics (not compile errors): "+strings.Join(strings.Fields(tail(w.vetOut, 600)), " "))
		}
	} else {
		c.Count("vet/ok")
	}
}

// compileError: vet output lines that come from the type checker / compiler.
func compileError(out string) bool {
	for _, l := range strings.Split(out, "\n") {
		if strings.Contains(l, "overflows") || strings.Contains(l, "undefined:") || strings.Contains(l, "cannot use") ||
			strings.Contains(l, "redeclared") || strings.Contains(l, "vet: ") && !strings.Contains(l, "too small for shift") {
			return true
		}
	}
	return false
}

func tail(s string, n int) string {
	if len(s) > n {
		return s[len(s)-n:]
	}
	return s
}

// writeStreams writes the adversarial-but-valid streams both builds decode
// (name, hex), see streams.go.
func writeStreams(c *Ctx, path string) {
	var sb strings.Builder
	for _, s := range adversarialStreams() {
		fmt.Fprintf(&sb, "%s %x\n", s.name, s.data)
	}
	os.WriteFile(path, []byte(sb.String()), 0o644)
}
