package main

// C13 — results do not depend on CPU-specific code paths or architecture.
//
// Three parts (see kernels.go, pipeline.go, matrix.go):
//
//	kernel level    portable Go kernel vs the dispatched one vs each assembly
//	                variant (SSE2, AVX2) on random, extreme and range-boundary
//	                inputs; the modelled kernels are also sent to the extracted
//	                lane-16 / portable Coq models (correspondence + property);
//	pipeline level  digests of Encode / Decode from this (normal) build and from
//	                an overlay build of the same tree in which every *_amd64 file
//	                is removed and the !amd64 files are un-constrained;
//	build matrix    `go build ./...` in /repo for a GOOS/GOARCH matrix.
//
// The same binary is the pipeline worker of both builds: with C13_MODE=pipeline
// it only prints the digest lines.

import (
	"fmt"
	"os"
	"time"

	. "verifharness/hlib"
)

func main() {
	if os.Getenv("C13_MODE") == "pipeline" {
		pipelineWorker()
		return
	}
	Main("c13", func(c *Ctx) {
		c.D.Rule = "non-trivial = distinct (kernel, input class, outcome class) signatures of the kernel differential, distinct pipeline cases whose digests were compared across the two builds, and GOOS/GOARCH pairs built"
		// the compiler runs (overlay build, build matrix) proceed in the
		// background while the kernel differential runs
		t0 := time.Now()
		mw := matrixStart(c.Thorough())
		pw := overlayStart(c)
		kernels(c)
		t1 := time.Now()
		pipeline(c, pw)
		t2 := time.Now()
		matrixFinish(c, mw)
		c.D.Notes = append(c.D.Notes, fmt.Sprintf("harness timing: kernels %.1fs, pipeline (incl. waiting for the overlay build) %.1fs, matrix wait %.1fs",
			t1.Sub(t0).Seconds(), t2.Sub(t1).Seconds(), time.Since(t2).Seconds()))
		c.D.Notes = append(c.D.Notes,
			"instrumentation only: the assembly text is tied to the lane-16 models by running it (not modelled instruction by instruction); 'compiles for every GOOS/GOARCH' is checked by running the compiler; the non-amd64 assembly (arm64 NEON) cannot be executed on this machine and is covered by the build matrix only")
	})
}
