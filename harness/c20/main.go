package main

// C20 — option handling is total and matches its documentation.
//
// Correspondence: for generated EncoderOptions values (every field at its boundaries,
// just outside, extreme ints, NaN/Inf/-0/subnormal floats, every sentinel, every
// preset; one-factor sweeps plus a complete pairwise covering of the valid values),
// the configuration the code resolves to (hook webp.VerifEffectiveConfig, whose
// propagation statements are verified by the translator to be verbatim copies of
// encode.go) is compared with the extracted Coq model `encode_outcome`; DefaultOptions
// and OptionsForPreset are compared with `default_options` / `options_for_preset`.
//
// Direct evaluation on the real webp.Encode: never panics; every error case writes
// nothing; hook verdict = Encode verdict; nil options = DefaultOptions(); each
// documented sentinel gives byte-identical output to the documented default; lossy-only
// options do not change lossless bytes; EmulateJpegSize / Preset-field change nothing.

import (
	"bytes"
	"fmt"
	"image"
	"image/color"
	"math"
	"math/big"
	"runtime"
	"strings"
	"time"

	webp "github.com/deepteams/webp"
	"github.com/deepteams/webp/animation"

	. "verifharness/hlib"
)

const metaMax = 100 * 1024 * 1024

var bigBlob []byte // metaMax+1 zero bytes, shared

func blob(n int) []byte {
	if n == 0 {
		return nil
	}
	if bigBlob == nil {
		bigBlob = make([]byte, metaMax+1)
	}
	return bigBlob[:n]
}

// f32dec renders a float32 in the model's representation.
func f32dec(f float32) string {
	if f != f {
		return "nan"
	}
	if math.IsInf(float64(f), 1) {
		return "+inf"
	}
	if math.IsInf(float64(f), -1) {
		return "-inf"
	}
	bits := math.Float32bits(f)
	exp := int((bits >> 23) & 0xff)
	mant := int64(bits & 0x7fffff)
	n := new(big.Int)
	if exp == 0 {
		n.SetInt64(mant)
	} else {
		n.SetInt64(mant | 1<<23)
		n.Lsh(n, uint(exp-1))
	}
	if bits>>31 != 0 {
		n.Neg(n)
	}
	return n.String()
}

func b2s(b bool) string {
	if b {
		return "1"
	}
	return "0"
}

func optsLine(o *webp.EncoderOptions) string {
	return strings.Join([]string{b2s(o.Lossless), f32dec(o.Quality), fmt.Sprint(o.Method), fmt.Sprint(int(o.Preset)),
		b2s(o.UseSharpYUV), b2s(o.Exact), fmt.Sprint(o.TargetSize), f32dec(o.TargetPSNR), fmt.Sprint(o.Preprocessing),
		fmt.Sprint(o.SNSStrength), fmt.Sprint(o.FilterStrength), fmt.Sprint(o.FilterSharpness), fmt.Sprint(o.FilterType),
		fmt.Sprint(o.Partitions), fmt.Sprint(o.Segments), fmt.Sprint(o.Pass), b2s(o.EmulateJpegSize), fmt.Sprint(o.QMin),
		fmt.Sprint(o.QMax), fmt.Sprint(o.AlphaCompression), fmt.Sprint(o.AlphaFiltering), fmt.Sprint(o.AlphaQuality),
		fmt.Sprint(len(o.ICC)), fmt.Sprint(len(o.EXIF)), fmt.Sprint(len(o.XMP))}, " ")
}

// ditherFormula is the float32 expression of encode.go (kept in sync by the
// translator's shape check of the dithering statement).
func ditherFormula(q float32) float32 {
	x := q / 100.0
	x2 := x * x
	return 1.0 + (0.5-1.0)*x2*x2
}

func effLine(o *webp.EncoderOptions, e webp.VerifEffective) string {
	if e.ErrClass != 0 {
		return "ERR" // which check fires first (validation or dimensions) is not part of the property
	}
	meta := fmt.Sprintf("%d %d %d", e.MetaICC, e.MetaEXIF, e.MetaXMP)
	if e.Lossless {
		return fmt.Sprintf("LL %d %d %d %s | %s", e.LQuality, e.LMethod, e.LNearLossless, b2s(e.Exact), meta)
	}
	dith := "-"
	if e.Dithering != 0 {
		q := float32(75)
		if o != nil {
			q = o.Quality
		}
		if e.Dithering == ditherFormula(q) && e.Dithering >= 0.5 && e.Dithering <= 1.0 {
			dith = f32dec(q)
		} else {
			dith = "BAD"
		}
	}
	return fmt.Sprintf("LY %d %d %s %d %d %d %d %d %d %d %d %d %s %d %d %d | %d %d %d %d | %s %s | %s",
		e.Quality, e.TargetSize, f32dec(e.TargetPSNR), e.Method, e.SNSStrength, e.FilterStrength, e.FilterSharpness,
		e.FilterType, e.Partitions, e.Segments, e.Pass, e.Preprocessing, dith, e.QMin, e.QMax, e.HasAlpha,
		e.AlphaQuality, e.AlphaMethod, e.AlphaFilter, e.AlphaEffort, b2s(e.Exact), b2s(e.UseSharpYUV), meta)
}

// ---------------------------------------------------------------------------
// value tables

const (
	minInt = math.MinInt64
	maxInt = math.MaxInt64
)

var (
	subn    = math.Float32frombits(1)          // smallest positive subnormal
	negSubn = math.Float32frombits(0x80000001) // smallest negative subnormal
	negZero = math.Float32frombits(0x80000000)
	nan32   = float32(math.NaN())
	pinf    = float32(math.Inf(1))
	ninf    = float32(math.Inf(-1))
	maxF    = float32(math.MaxFloat32)
	above   = math.Nextafter32(100, 200)
	below75 = math.Nextafter32(75, 0)
)

type field struct {
	name    string
	valid   []any
	invalid []any
	set     func(o *webp.EncoderOptions, v any)
}

func ints(v ...int) []any {
	r := make([]any, len(v))
	for i, x := range v {
		r[i] = x
	}
	return r
}
func f32s(v ...float32) []any {
	r := make([]any, len(v))
	for i, x := range v {
		r[i] = x
	}
	return r
}

var fields = []field{
	{"Lossless", []any{false, true}, nil, func(o *webp.EncoderOptions, v any) { o.Lossless = v.(bool) }},
	{"Quality", f32s(0, negZero, subn, 0.5, 1, 33.3, below75, 75, 99.5, 100), f32s(nan32, pinf, ninf, negSubn, -1, above, maxF, -maxF),
		func(o *webp.EncoderOptions, v any) { o.Quality = v.(float32) }},
	{"Method", ints(0, 1, 2, 3, 4, 5, 6), ints(-1, 7, minInt, maxInt), func(o *webp.EncoderOptions, v any) { o.Method = v.(int) }},
	{"Preset", ints(0, 1, 2, 3, 4, 5), ints(-1, 6, minInt, maxInt), func(o *webp.EncoderOptions, v any) { o.Preset = webp.Preset(v.(int)) }},
	{"UseSharpYUV", []any{false, true}, nil, func(o *webp.EncoderOptions, v any) { o.UseSharpYUV = v.(bool) }},
	{"Exact", []any{false, true}, nil, func(o *webp.EncoderOptions, v any) { o.Exact = v.(bool) }},
	{"TargetSize", ints(0, 1, 300, maxInt), ints(-1, minInt), func(o *webp.EncoderOptions, v any) { o.TargetSize = v.(int) }},
	{"TargetPSNR", f32s(0, negZero, subn, 30, 42.5, maxF), f32s(nan32, pinf, ninf, negSubn, -1),
		func(o *webp.EncoderOptions, v any) { o.TargetPSNR = v.(float32) }},
	{"Preprocessing", ints(0, 1, 2, 3), ints(-1, 4, minInt, maxInt), func(o *webp.EncoderOptions, v any) { o.Preprocessing = v.(int) }},
	{"SNSStrength", ints(minInt, -2, -1, 0, 1, 50, 99, 100), ints(101, maxInt), func(o *webp.EncoderOptions, v any) { o.SNSStrength = v.(int) }},
	{"FilterStrength", ints(minInt, -1, 0, 1, 60, 100), ints(101, maxInt), func(o *webp.EncoderOptions, v any) { o.FilterStrength = v.(int) }},
	{"FilterSharpness", ints(0, 1, 4, 7), ints(-1, 8, minInt, maxInt), func(o *webp.EncoderOptions, v any) { o.FilterSharpness = v.(int) }},
	{"FilterType", ints(minInt, -1, 0, 1), ints(2, maxInt), func(o *webp.EncoderOptions, v any) { o.FilterType = v.(int) }},
	{"Partitions", ints(0, 1, 2, 3), ints(-1, 4, minInt, maxInt), func(o *webp.EncoderOptions, v any) { o.Partitions = v.(int) }},
	{"Segments", ints(minInt, -1, 0, 1, 2, 3, 4), ints(5, maxInt), func(o *webp.EncoderOptions, v any) { o.Segments = v.(int) }},
	{"Pass", ints(minInt, -1, 0, 1, 2, 10), ints(11, maxInt), func(o *webp.EncoderOptions, v any) { o.Pass = v.(int) }},
	{"EmulateJpegSize", []any{false, true}, nil, func(o *webp.EncoderOptions, v any) { o.EmulateJpegSize = v.(bool) }},
	{"QMin", ints(0, 1, 50, 100), ints(-1, 101, minInt, maxInt), func(o *webp.EncoderOptions, v any) { o.QMin = v.(int) }},
	{"QMax", ints(minInt, -1, 0, 1, 50, 100), ints(101, maxInt), func(o *webp.EncoderOptions, v any) { o.QMax = v.(int) }},
	{"AlphaCompression", ints(minInt, -1, 0, 1), ints(2, maxInt), func(o *webp.EncoderOptions, v any) { o.AlphaCompression = v.(int) }},
	{"AlphaFiltering", ints(minInt, -1, 0, 1, 2), ints(3, maxInt), func(o *webp.EncoderOptions, v any) { o.AlphaFiltering = v.(int) }},
	{"AlphaQuality", ints(minInt, -1, 0, 1, 99, 100), ints(101, maxInt), func(o *webp.EncoderOptions, v any) { o.AlphaQuality = v.(int) }},
	{"ICC", ints(0, 1, 7, metaMax), ints(metaMax + 1), func(o *webp.EncoderOptions, v any) { o.ICC = blob(v.(int)) }},
	{"EXIF", ints(0, 1, 7, metaMax), ints(metaMax + 1), func(o *webp.EncoderOptions, v any) { o.EXIF = blob(v.(int)) }},
	{"XMP", ints(0, 1, 7, metaMax), ints(metaMax + 1), func(o *webp.EncoderOptions, v any) { o.XMP = blob(v.(int)) }},
}

var dimValid = []int{1, 2, 16, 17, 16383}
var dimInvalid = []int{0, -1, 16384, minInt, maxInt}

// ---------------------------------------------------------------------------
// images

// dimImage is an image.Image of arbitrary (possibly degenerate) bounds.
type dimImage struct{ w, h int }

func (d dimImage) ColorModel() color.Model { return color.NRGBAModel }
func (d dimImage) Bounds() image.Rectangle {
	return image.Rectangle{Min: image.Point{}, Max: image.Point{X: d.w, Y: d.h}}
}
func (d dimImage) At(x, y int) color.Color {
	return color.NRGBA{uint8(x * 7), uint8(y * 13), uint8(x + y), 255}
}

func testImage(rng *Rand, w, h int, alpha int) *image.NRGBA {
	im := image.NewNRGBA(image.Rect(0, 0, w, h))
	for y := 0; y < h; y++ {
		for x := 0; x < w; x++ {
			i := y*im.Stride + x*4
			im.Pix[i] = uint8(x*255/(w+1)) ^ uint8(rng.Intn(24))
			im.Pix[i+1] = uint8(y*255/(h+1)) ^ uint8(rng.Intn(24))
			im.Pix[i+2] = uint8((x+y)*5) ^ uint8(rng.Intn(64))
			a := 255
			switch alpha {
			case 1: // mixed: transparent corner, semi-transparent band
				if x < w/3 && y < h/2 {
					a = 0
				} else if x > 2*w/3 {
					a = 40 + rng.Intn(200)
				}
			case 2:
				a = rng.Intn(256)
			}
			im.Pix[i+3] = uint8(a)
		}
	}
	return im
}

type encRes struct {
	out      []byte
	err      error
	panicked string
}

func encode(img image.Image, o *webp.EncoderOptions) (r encRes) {
	var buf bytes.Buffer
	defer func() {
		if p := recover(); p != nil {
			r.panicked = fmt.Sprint(p)
		}
		r.out = buf.Bytes()
	}()
	r.err = webp.Encode(&buf, img, o)
	return
}

func cloneOpts(o *webp.EncoderOptions) *webp.EncoderOptions {
	c := *o
	return &c
}

// ---------------------------------------------------------------------------

func main() {
	Main("c20", run)
}

// observe records something the harness noticed that no clause of the property (as stated in
// properties.jsonl) decides: a counter in the evidence, never a violation.
func observe(c *Ctx, key string) { c.Count("observation:" + key) }

type row struct {
	optsNil  bool
	o        webp.EncoderOptions
	w, h     int
	hasAlpha bool
	choice   []int // index into valid (>=0) or ^index into invalid (<0) per field
}

func run(c *Ctx) {
	c.D.Rule = "an evaluation is one EncoderOptions value (plus dimensions) pushed through the code and the model, or one pair of webp.Encode calls whose outputs must be byte-identical; non-trivial = distinct (outcome class, fields at a sentinel/boundary) signatures and distinct equivalence pairs actually encoded"
	rng := c.Rng.Fork()

	bases := []webp.EncoderOptions{
		*webp.DefaultOptions(),
		{}, // the zero value
		{Quality: 60, Method: 3, SNSStrength: 70, FilterStrength: 20, FilterSharpness: 2, FilterType: 0, Partitions: 1,
			Segments: 3, Pass: 2, QMin: 10, QMax: 90, AlphaCompression: 1, AlphaFiltering: 2, AlphaQuality: 80, Preprocessing: 1},
		{Lossless: true, Quality: 75, Method: 4},
	}

	var rows []row
	add := func(r row) { rows = append(rows, r) }

	// (1) one-factor sweeps on every base: every valid and invalid value of every field
	for bi := range bases {
		for fi, f := range fields {
			for vi, v := range f.valid {
				r := row{o: bases[bi], w: 16, h: 16, hasAlpha: bi%2 == 1, choice: nil}
				f.set(&r.o, v)
				_ = fi
				_ = vi
				add(r)
			}
			for _, v := range f.invalid {
				r := row{o: bases[bi], w: 16, h: 16, hasAlpha: bi%2 == 0}
				f.set(&r.o, v)
				add(r)
			}
		}
		for _, d := range append(append([]int{}, dimValid...), dimInvalid...) {
			add(row{o: bases[bi], w: d, h: 7, hasAlpha: true})
			add(row{o: bases[bi], w: 7, h: d})
		}
		add(row{o: bases[bi], w: 16383, h: 16383})
		add(row{o: bases[bi], w: 16384, h: 16384})
	}
	// nil options with every dimension class
	for _, d := range append(append([]int{}, dimValid...), dimInvalid...) {
		add(row{optsNil: true, w: d, h: 3, hasAlpha: d%2 == 0})
		add(row{optsNil: true, w: 3, h: d, hasAlpha: d%2 == 1})
	}
	// every preset through OptionsForPreset
	for p := -1; p <= 6; p++ {
		for _, q := range []float32{0, 50, 75, 100, above, nan32} {
			o := webp.OptionsForPreset(webp.Preset(p), q)
			add(row{o: *o, w: 9, h: 9, hasAlpha: p%2 == 0})
		}
	}

	// (2) pairwise covering of the valid values (fields + w + h + hasAlpha): random rows, then
	// explicit completion of the pairs still uncovered
	nf := len(fields)
	nfac := nf + 3
	nval := func(k int) int {
		switch {
		case k < nf:
			return len(fields[k].valid)
		case k < nf+2:
			return len(dimValid)
		default:
			return 2
		}
	}
	type pair struct{ a, va, b, vb int }
	covered := map[pair]bool{}
	mk := func(ch []int) row {
		r := row{choice: ch}
		for k := 0; k < nf; k++ {
			fields[k].set(&r.o, fields[k].valid[ch[k]])
		}
		r.w, r.h, r.hasAlpha = dimValid[ch[nf]], dimValid[ch[nf+1]], ch[nf+2] == 1
		return r
	}
	mark := func(ch []int) {
		for a := 0; a < nfac; a++ {
			for b := a + 1; b < nfac; b++ {
				covered[pair{a, ch[a], b, ch[b]}] = true
			}
		}
	}
	nrand := 3000
	if c.Thorough() {
		nrand = 30000
	}
	for i := 0; i < nrand; i++ {
		ch := make([]int, nfac)
		for k := range ch {
			ch[k] = rng.Intn(nval(k))
		}
		mark(ch)
		add(mk(ch))
	}
	completed := 0
	for a := 0; a < nfac; a++ {
		for b := a + 1; b < nfac; b++ {
			for va := 0; va < nval(a); va++ {
				for vb := 0; vb < nval(b); vb++ {
					if covered[pair{a, va, b, vb}] {
						continue
					}
					ch := make([]int, nfac)
					for k := range ch {
						ch[k] = rng.Intn(nval(k))
					}
					ch[a], ch[b] = va, vb
					mark(ch)
					add(mk(ch))
					completed++
				}
			}
		}
	}
	c.D.Distribution = map[string]int{"pairwise_valid_value_pairs_covered": len(covered), "pairwise_rows_added_for_completion": completed}

	// (3) mostly-valid rows with one or two invalid fields / dimensions
	ninv := 1500
	if c.Thorough() {
		ninv = 15000
	}
	for i := 0; i < ninv; i++ {
		ch := make([]int, nfac)
		for k := range ch {
			ch[k] = rng.Intn(nval(k))
		}
		r := mk(ch)
		r.choice = nil
		for n := 1 + rng.Intn(2); n > 0; n-- {
			k := rng.Intn(nf + 2)
			if k < nf {
				if len(fields[k].invalid) > 0 {
					fields[k].set(&r.o, fields[k].invalid[rng.Intn(len(fields[k].invalid))])
				}
			} else if k == nf {
				r.w = dimInvalid[rng.Intn(len(dimInvalid))]
			} else {
				r.h = dimInvalid[rng.Intn(len(dimInvalid))]
			}
		}
		if rng.Intn(20) == 0 {
			r.optsNil = true
		}
		add(r)
	}

	// ---- run every row through the hook (correspondence) and, where cheap, through Encode ----
	small := testImage(rng.Fork(), 8, 8, 0)
	smallA := testImage(rng.Fork(), 8, 8, 1)
	realEnc := 0
	for i := range rows {
		r := &rows[i]
		var op *webp.EncoderOptions
		if !r.optsNil {
			op = &r.o
		}
		var e webp.VerifEffective
		pan := ""
		func() {
			defer func() {
				if p := recover(); p != nil {
					pan = fmt.Sprint(p)
				}
			}()
			e = webp.VerifEffectiveConfig(op, r.w, r.h, r.hasAlpha)
		}()
		oline := optsLine(&r.o)
		caseLine := fmt.Sprintf("eff 0 0 %s %d %d %s %s", b2s(r.optsNil), r.w, r.h, b2s(r.hasAlpha), oline)
		impl := effLine(op, e)
		if pan != "" {
			impl = "PANIC"
			observe(c, "verif-hook-panicked") // the hook is not Encode; the correspondence line reports it
		}
		c.Case(caseLine, impl)
		c.D.Evaluations++
		cls := strings.SplitN(impl, " ", 3)
		c.Count("outcome_" + cls[0])
		c.Nontrivial("eff:" + impl)

		// ---- the property itself, decided from the DOCUMENTED contract (docContract below), not
		// from the model and not from the code's own validation: Encode must fail iff the
		// documentation says the options / dimensions are invalid.
		eff := &r.o
		if r.optsNil {
			eff = webp.DefaultOptions() // documented: nil options behave as DefaultOptions()
		}
		docBad := docContract(eff)
		if docBad == "" {
			if u := undocumentedLimit(eff); u != "" {
				// the code rejects these, but neither a doc comment nor the property states the limit
				// (negative TargetSize / TargetPSNR, metadata above 100 MB): no verdict either way
				observe(c, "undocumented-limit:"+u)
				continue
			}
		}
		dimBad := r.w <= 0 || r.h <= 0 || r.w > 16383 || r.h > 16383
		mustFail := docBad != "" || dimBad
		hookAccepts := e.ErrClass == 0
		blobBig := len(eff.ICC) > 1000 || len(eff.EXIF) > 1000 || len(eff.XMP) > 1000
		doReal := mustFail || !hookAccepts || (i%7 == 0 && !blobBig)
		if c.Thorough() && !mustFail && !blobBig {
			doReal = doReal || i%2 == 0
		}
		// never start an encode of an absurdly large picture should a broken tree accept it
		if docBad == "" && dimBad && r.w > 0 && r.h > 0 && (r.w > 20000 || r.h > 20000 || r.w*r.h > 400000) {
			doReal = false
		}
		if !doReal {
			continue
		}
		var img image.Image
		switch {
		case dimBad:
			img = dimImage{r.w, r.h}
		case !mustFail && r.w*r.h <= 1024:
			img = testImage(rng.Fork(), r.w, r.h, map[bool]int{false: 0, true: 1}[r.hasAlpha])
		case r.hasAlpha:
			img = smallA
		default:
			img = small
		}
		res := encode(img, op)
		realEnc++
		c.D.Evaluations++
		rep := map[string]any{"case": caseLine, "options": oline, "options_nil": r.optsNil, "image": fmt.Sprintf("%T %v", img, img.Bounds()),
			"documented": map[bool]string{true: "must fail", false: "must succeed"}[mustFail]}
		switch {
		case res.panicked != "":
			c.Violate("panic", "webp.Encode panicked: "+res.panicked, rep)
		case mustFail && res.err == nil:
			f := docBad
			if f == "" {
				f = "dimensions"
			}
			c.Violate("accepted-out-of-range:"+f, fmt.Sprintf("Encode wrote %d bytes although the documentation makes %s invalid", len(res.out), f), rep)
		case !mustFail && res.err != nil:
			c.Violate("rejected-valid:"+blameField(img, eff), "every field is inside its documented range, but Encode failed: "+res.err.Error(), rep)
		case res.err != nil && len(res.out) != 0:
			observe(c, "error-after-bytes-written") // the property says "error or valid file", not "nothing written on error"
		case res.err == nil && (len(res.out) < 20 || string(res.out[:4]) != "RIFF" || string(res.out[8:12]) != "WEBP"):
			c.Violate("ok-without-file", "Encode returned nil but did not write a RIFF/WEBP file", rep)
		}
		if hookAccepts == mustFail && res.panicked == "" {
			c.Count("hook_verdict_differs_from_documentation")
		}
	}
	c.D.Distribution["real_encode_calls_on_rows"] = realEnc

	// nil writer / nil image
	for _, k := range []struct{ wn, in bool }{{true, false}, {false, true}, {true, true}} {
		for bi := range bases {
			o := bases[bi]
			var img image.Image = small
			if k.in {
				img = nil
			}
			var err error
			pan := ""
			var buf bytes.Buffer
			func() {
				defer func() {
					if p := recover(); p != nil {
						pan = fmt.Sprint(p)
					}
				}()
				if k.wn {
					err = webp.Encode(nil, img, &o)
				} else {
					err = webp.Encode(&buf, img, &o)
				}
			}()
			caseLine := fmt.Sprintf("eff %s %s 0 8 8 0 %s", b2s(k.wn), b2s(k.in), optsLine(&o))
			impl := "OK"
			if pan != "" {
				impl = "PANIC"
				c.Violate("panic", "webp.Encode panicked on a nil argument: "+pan, map[string]any{"case": caseLine})
			} else if err != nil {
				impl = "ERR"
				if buf.Len() != 0 {
					observe(c, "error-after-bytes-written")
				}
			}
			c.Case(caseLine, impl)
			c.D.Evaluations++
			c.Nontrivial("nil:" + impl + b2s(k.wn) + b2s(k.in))
		}
	}

	// DefaultOptions / OptionsForPreset vs the model
	c.Case("default", optsLine(webp.DefaultOptions()))
	c.D.Evaluations++
	for p := -2; p <= 7; p++ {
		for _, q := range []float32{0, 10.5, 75, 100, above, nan32, ninf} {
			c.Case(fmt.Sprintf("preset %d %s", p, f32dec(q)), optsLine(webp.OptionsForPreset(webp.Preset(p), q)))
			c.D.Evaluations++
			c.Nontrivial(fmt.Sprintf("preset:%d", p))
		}
	}
	for _, p := range []int{minInt, maxInt} {
		c.Case(fmt.Sprintf("preset %d %s", p, f32dec(75)), optsLine(webp.OptionsForPreset(webp.Preset(p), 75)))
		c.D.Evaluations++
	}

	directEquivalences(c, rng.Fork())
	explicitValues(c)
	quantizerRange(c)
	bitSetOptions(c)
	animationOptions(c, rng.Fork())
	c.Sample(map[string]any{"rows": len(rows), "example_case": "eff 0 0 0 16 16 1 " + optsLine(&bases[2])})
}

// ---------------------------------------------------------------------------
// The documented contract of EncoderOptions, frozen from its doc comments (the same values as
// coq/theories/Opts/OptsDoc.v).  Returns the first field whose value the documentation makes
// invalid, or "" when every field is inside its documented range (negative = sentinel where
// documented; Segments/Pass also accept 0 as "default").
func docContract(o *webp.EncoderOptions) string {
	finite := func(f float32) bool { return f == f && !math.IsInf(float64(f), 0) }
	rq := o.QMax
	if rq < 0 {
		rq = 100
	}
	switch {
	case !finite(o.Quality) || o.Quality < 0 || o.Quality > 100:
		return "Quality"
	case o.Method < 0 || o.Method > 6:
		return "Method"
	case !finite(o.TargetPSNR):
		return "TargetPSNR"
	case o.Preprocessing < 0 || o.Preprocessing > 3:
		return "Preprocessing"
	case o.Preset < webp.PresetDefault || o.Preset > webp.PresetText:
		return "Preset"
	case o.SNSStrength > 100:
		return "SNSStrength"
	case o.FilterStrength > 100:
		return "FilterStrength"
	case o.FilterSharpness < 0 || o.FilterSharpness > 7:
		return "FilterSharpness"
	case o.FilterType > 1:
		return "FilterType"
	case o.Partitions < 0 || o.Partitions > 3:
		return "Partitions"
	case o.Segments > 4:
		return "Segments"
	case o.Pass > 10:
		return "Pass"
	case o.QMin < 0 || o.QMin > 100:
		return "QMin"
	case rq > 100:
		return "QMax"
	case o.QMin > rq:
		return "QMin>QMax"
	case o.AlphaCompression > 1:
		return "AlphaCompression"
	case o.AlphaFiltering > 2:
		return "AlphaFiltering"
	case o.AlphaQuality > 100:
		return "AlphaQuality"
	}
	return ""
}

// undocumentedLimit names a limit that validateConfig enforces but that neither the doc comment of
// the field nor the property text states: such values are outside what the check decides.
func undocumentedLimit(o *webp.EncoderOptions) string {
	switch {
	case o.TargetSize < 0:
		return "TargetSize<0"
	case o.TargetPSNR < 0:
		return "TargetPSNR<0"
	case len(o.ICC) > metaMax:
		return "ICC>100MB"
	case len(o.EXIF) > metaMax:
		return "EXIF>100MB"
	case len(o.XMP) > metaMax:
		return "XMP>100MB"
	}
	return ""
}

// blameField names the field of a wrongly rejected (documented-valid) option value: the first
// field whose reset to its DefaultOptions() value makes Encode succeed.
func blameField(img image.Image, o *webp.EncoderOptions) string {
	d := webp.DefaultOptions()
	for _, f := range fields {
		t := cloneOpts(o)
		switch f.name {
		case "Lossless":
			t.Lossless = d.Lossless
		case "Quality":
			t.Quality = d.Quality
		case "Method":
			t.Method = d.Method
		case "Preset":
			t.Preset = d.Preset
		case "UseSharpYUV":
			t.UseSharpYUV = d.UseSharpYUV
		case "Exact":
			t.Exact = d.Exact
		case "TargetSize":
			t.TargetSize = d.TargetSize
		case "TargetPSNR":
			t.TargetPSNR = d.TargetPSNR
		case "Preprocessing":
			t.Preprocessing = d.Preprocessing
		case "SNSStrength":
			t.SNSStrength = d.SNSStrength
		case "FilterStrength":
			t.FilterStrength = d.FilterStrength
		case "FilterSharpness":
			t.FilterSharpness = d.FilterSharpness
		case "FilterType":
			t.FilterType = d.FilterType
		case "Partitions":
			t.Partitions = d.Partitions
		case "Segments":
			t.Segments = d.Segments
		case "Pass":
			t.Pass = d.Pass
		case "EmulateJpegSize":
			t.EmulateJpegSize = d.EmulateJpegSize
		case "QMin":
			t.QMin = d.QMin
		case "QMax":
			t.QMax = d.QMax
		case "AlphaCompression":
			t.AlphaCompression = d.AlphaCompression
		case "AlphaFiltering":
			t.AlphaFiltering = d.AlphaFiltering
		case "AlphaQuality":
			t.AlphaQuality = d.AlphaQuality
		case "ICC":
			t.ICC = nil
		case "EXIF":
			t.EXIF = nil
		case "XMP":
			t.XMP = nil
		}
		if optsLine(t) == optsLine(o) {
			continue
		}
		if r := encode(img, t); r.panicked == "" && r.err == nil {
			return f.name
		}
	}
	return "combination"
}

// observableImage is a fixed (seed-independent) 48x40 picture on which the tuning options are
// observable: smooth gradients plus texture and edges, alpha graded over many levels with a
// fully transparent corner whose RGB is garbage.
func observableImage() *image.NRGBA {
	const w, h = 48, 40
	im := image.NewNRGBA(image.Rect(0, 0, w, h))
	s := uint32(2463534242)
	for y := 0; y < h; y++ {
		for x := 0; x < w; x++ {
			s ^= s << 13
			s ^= s >> 17
			s ^= s << 5
			i := y*im.Stride + x*4
			n := int(s >> 27)
			r, g, b := x*5+n, y*6+n/2, (x*y)/8+n
			if (x/8+y/8)%2 == 0 {
				r, b = 255-r&255, b+40
			}
			if x > 30 && y > 24 { // high-frequency patch
				r, g, b = int(s>>8)&255, int(s>>16)&255, int(s>>24)&255
			}
			a := 16 + (x*239)/(w-1) // 16..255 in many levels
			if y%7 == 3 {
				a = (a*3 + int(s>>20)&63) / 4
			}
			if x < 9 && y < 9 {
				a = 0
				r, g, b = int(s)&255, int(s>>5)&255, int(s>>11)&255
			}
			im.Pix[i], im.Pix[i+1], im.Pix[i+2], im.Pix[i+3] = uint8(r), uint8(g), uint8(b), uint8(a)
		}
	}
	return im
}

// explicitValues: each documented in-range explicit value must be honoured, i.e. on the
// observable image it must give a file different from the neighbour value the documentation
// distinguishes it from (in particular an explicit 0 is a value, not the sentinel, for every
// field whose sentinel is "negative").  Only pairs for which the documentation implies a
// different encoding are listed.
type explicitPair struct {
	field string
	why   string
	a, b  func(o *webp.EncoderOptions)
	base  func() webp.EncoderOptions
}

func explicitPairs() []explicitPair {
	def := func() webp.EncoderOptions { return *webp.DefaultOptions() }
	target := func() webp.EncoderOptions { o := *webp.DefaultOptions(); o.TargetSize = 600; o.Pass = 6; return o }
	strong := func() webp.EncoderOptions {
		o := *webp.DefaultOptions()
		o.Quality = 30
		o.FilterStrength = 80
		return o
	}
	ll := func() webp.EncoderOptions { return webp.EncoderOptions{Lossless: true, Quality: 75, Method: 4} }
	return []explicitPair{
		{"AlphaQuality", "0 is an explicit value (range 0-100; values below 100 quantize the alpha levels), only negatives mean 100",
			func(o *webp.EncoderOptions) { o.AlphaQuality = 0 }, func(o *webp.EncoderOptions) { o.AlphaQuality = 100 }, def},
		{"AlphaQuality", "50 quantizes the alpha levels, 100 does not",
			func(o *webp.EncoderOptions) { o.AlphaQuality = 50 }, func(o *webp.EncoderOptions) { o.AlphaQuality = 100 }, def},
		{"AlphaCompression", "0 = raw alpha bytes, 1 = VP8L compression; 0 is not the sentinel",
			func(o *webp.EncoderOptions) { o.AlphaCompression = 0 }, func(o *webp.EncoderOptions) { o.AlphaCompression = 1 }, def},
		{"AlphaFiltering", "0 = none is an explicit value, the default is 1 (fast)",
			func(o *webp.EncoderOptions) { o.AlphaFiltering = 0 }, func(o *webp.EncoderOptions) { o.AlphaFiltering = 1 }, def},
		{"SNSStrength", "0 is an explicit value (range 0-100), the default is 50",
			func(o *webp.EncoderOptions) { o.SNSStrength = 0 }, func(o *webp.EncoderOptions) { o.SNSStrength = 50 }, def},
		{"SNSStrength", "100 differs from the default 50",
			func(o *webp.EncoderOptions) { o.SNSStrength = 100 }, func(o *webp.EncoderOptions) { o.SNSStrength = 50 }, def},
		{"FilterStrength", "0 (no loop filter) is an explicit value, the default is 60",
			func(o *webp.EncoderOptions) { o.FilterStrength = 0 }, func(o *webp.EncoderOptions) { o.FilterStrength = 60 }, def},
		{"FilterStrength", "100 differs from the default 60",
			func(o *webp.EncoderOptions) { o.FilterStrength = 100 }, func(o *webp.EncoderOptions) { o.FilterStrength = 60 }, def},
		{"FilterType", "0 = simple is an explicit value, the default is 1 = strong",
			func(o *webp.EncoderOptions) { o.FilterType = 0 }, func(o *webp.EncoderOptions) { o.FilterType = 1 }, def},
		{"FilterSharpness", "0-7 sharpen the filter",
			func(o *webp.EncoderOptions) { o.FilterSharpness = 7 }, func(o *webp.EncoderOptions) { o.FilterSharpness = 0 }, strong},
		{"Partitions", "the number of token partitions is 1 << Partitions",
			func(o *webp.EncoderOptions) { o.Partitions = 3 }, func(o *webp.EncoderOptions) { o.Partitions = 0 }, def},
		{"Partitions", "the number of token partitions is 1 << Partitions",
			func(o *webp.EncoderOptions) { o.Partitions = 1 }, func(o *webp.EncoderOptions) { o.Partitions = 0 }, def},
		{"Segments", "1 segment is an explicit value (range 1-4), the default is 4",
			func(o *webp.EncoderOptions) { o.Segments = 1 }, func(o *webp.EncoderOptions) { o.Segments = 4 }, def},
		{"Segments", "2 segments differ from 4",
			func(o *webp.EncoderOptions) { o.Segments = 2 }, func(o *webp.EncoderOptions) { o.Segments = 4 }, def},
		{"QMax", "0 is an explicit value (range 0-100) clamping the rate control, only negatives mean 100",
			func(o *webp.EncoderOptions) { o.QMax = 0 }, func(o *webp.EncoderOptions) { o.QMax = 100 }, target},
		{"QMin", "QMin clamps the rate control from below",
			func(o *webp.EncoderOptions) { o.QMin = 95; o.QMax = 100 }, func(o *webp.EncoderOptions) { o.QMin = 0; o.QMax = 100 }, target},
		{"TargetSize", "a target size drives the quality instead of Quality",
			func(o *webp.EncoderOptions) { o.TargetSize = 300 }, func(o *webp.EncoderOptions) { o.TargetSize = 0 }, def},
		{"TargetPSNR", "a target PSNR drives the quality instead of Quality",
			func(o *webp.EncoderOptions) { o.TargetPSNR = 30 }, func(o *webp.EncoderOptions) { o.TargetPSNR = 0 }, def},
		{"Preprocessing", "bit 1 adds dithering to the RGB->YUV conversion",
			func(o *webp.EncoderOptions) { o.Preprocessing = 2 }, func(o *webp.EncoderOptions) { o.Preprocessing = 0 }, strong},
		{"UseSharpYUV", "sharp RGB->YUV conversion replaces the standard one",
			func(o *webp.EncoderOptions) { o.UseSharpYUV = true }, func(o *webp.EncoderOptions) { o.UseSharpYUV = false }, def},
		{"Exact", "Exact skips the transparent-area clean-up",
			func(o *webp.EncoderOptions) { o.Exact = true }, func(o *webp.EncoderOptions) { o.Exact = false }, def},
		{"Quality", "lower quality means smaller files",
			func(o *webp.EncoderOptions) { o.Quality = 0 }, func(o *webp.EncoderOptions) { o.Quality = 75 }, def},
		{"Method", "0 = fastest, 6 = slowest / best",
			func(o *webp.EncoderOptions) { o.Method = 0 }, func(o *webp.EncoderOptions) { o.Method = 4 }, def},
		{"Lossless", "Lossless selects VP8L",
			func(o *webp.EncoderOptions) { o.Lossless = true }, func(o *webp.EncoderOptions) { o.Lossless = false }, def},
		{"Exact", "lossless: Exact keeps the RGB values under transparent pixels instead of zeroing them",
			func(o *webp.EncoderOptions) { o.Exact = true }, func(o *webp.EncoderOptions) { o.Exact = false }, ll},
		{"Method", "lossless: 0 = fastest, 6 = best compression",
			func(o *webp.EncoderOptions) { o.Method = 0 }, func(o *webp.EncoderOptions) { o.Method = 6 }, ll},
		{"Quality", "lossless: Quality controls the compression effort",
			func(o *webp.EncoderOptions) { o.Quality = 0 }, func(o *webp.EncoderOptions) { o.Quality = 100 }, ll},
	}
}

// probeImages: several fixed pictures on which the options are observable.  An "explicit value
// ignored" / "bit ignored" verdict requires byte-identical files on EVERY probe: an encoder change
// that makes two settings coincide on one picture does not alarm.
func probeImages() []struct {
	name string
	im   *image.NRGBA
} {
	seg := segmentImageSeed(88172645, 160, 128)
	segA := segmentImageSeed(2463534242, 96, 80)
	for y := 0; y < 80; y++ { // graded alpha with a transparent corner
		for x := 0; x < 96; x++ {
			a := 30 + (x*225)/95
			if x < 12 && y < 12 {
				a = 0
			}
			segA.Pix[y*segA.Stride+x*4+3] = uint8(a)
		}
	}
	return []struct {
		name string
		im   *image.NRGBA
	}{{"observableImage() 48x40, graded alpha", observableImage()}, {"segment image 96x80 with graded alpha", segA}, {"segment image 160x128, opaque", seg}}
}

func explicitValues(c *Ctx) {
	probes := probeImages()
	for _, pm := range explicitPairs() {
		for _, meta := range []bool{false, true} {
			p := pm
			oa, ob := p.base(), p.base()
			p.a(&oa)
			p.b(&ob)
			if meta {
				oa.EXIF, ob.EXIF = []byte{1, 2, 3, 4}, []byte{1, 2, 3, 4}
				if p.field == "Lossless" || !(oa.Lossless || c.Thorough() || p.field == "Exact" || p.field == "AlphaQuality") {
					continue // quick tier: with metadata only the pairs whose code path changes with it
				}
			}
			identicalOnAll, failed := true, false
			var seen []string
			for _, pr := range probes {
				runtime.GC()
				runtime.GC()
				ra := encode(pr.im, &oa)
				runtime.GC()
				runtime.GC()
				rb := encode(pr.im, &ob)
				c.D.Evaluations += 2
				rep := map[string]any{"image": pr.name, "options_a": optsLine(&oa), "options_b": optsLine(&ob), "documentation": p.why}
				if ra.panicked != "" || rb.panicked != "" {
					c.Violate("panic", "webp.Encode panicked: "+ra.panicked+rb.panicked, rep)
					failed = true
					break
				}
				if ra.err != nil || rb.err != nil {
					c.Violate("rejected-valid:"+p.field, "an in-range explicit value was rejected", rep)
					failed = true
					break
				}
				seen = append(seen, pr.name)
				if !bytes.Equal(ra.out, rb.out) {
					identicalOnAll = false
					break // one probe on which the two values differ is enough
				}
				observe(c, "explicit-values-coincide-on-one-probe:"+p.field)
			}
			if failed {
				continue
			}
			c.Count("explicit_value_pairs")
			c.Nontrivial("explicit:" + p.field + optsLine(&oa))
			if identicalOnAll {
				key := "explicit-value-ignored:" + p.field
				if meta {
					key += "-with-metadata"
				}
				c.Violate(key, "two documented-distinct explicit values give byte-identical files on every probe image ("+p.why+")",
					map[string]any{"images": seen, "options_a": optsLine(&oa), "options_b": optsLine(&ob), "documentation": p.why})
			}
		}
	}
}

// segmentImage is a fixed 160x128 (10x8 macroblocks) picture whose macroblocks belong to four
// texture classes in a pseudo-random arrangement (flat gradients, fine noise, stripes, soft
// noise): the segment map is noisy, so the 3x3 majority filter (Preprocessing bit 0) changes it,
// and the gradients make the dithering (bit 1) visible at every quality.
func segmentImage() *image.NRGBA { return segmentImageSeed(88172645, 160, 128) }

func segmentImageSeed(seed uint32, w, h int) *image.NRGBA {
	im := image.NewNRGBA(image.Rect(0, 0, w, h))
	s := seed
	next := func() uint32 { s ^= s << 13; s ^= s >> 17; s ^= s << 5; return s }
	var cls [16][16]int
	for by := 0; by < 16; by++ {
		for bx := 0; bx < 16; bx++ {
			cls[by][bx] = int(next() % 4)
		}
	}
	cl := func(v int) uint8 {
		if v < 0 {
			return 0
		}
		if v > 255 {
			return 255
		}
		return uint8(v)
	}
	for y := 0; y < h; y++ {
		for x := 0; x < w; x++ {
			i := y*im.Stride + x*4
			var r, g, b int
			switch cls[(y/16)%16][(x/16)%16] {
			case 0:
				r, g, b = x, y*2, (x+y)/2
			case 1:
				n := int(next() >> 24)
				r, g, b = n, 255-n, n/2+60
			case 2:
				r, g, b = (x%4)*60, (y%8)*30, 128
			default:
				n := int(next()>>27) - 16
				r, g, b = x+n, 200-y+n, 90+n
			}
			im.Pix[i], im.Pix[i+1], im.Pix[i+2], im.Pix[i+3] = cl(r), cl(g), cl(b), 255
		}
	}
	return im
}

// bitSetOptions: Preprocessing is the one option documented as a bit set (bit 0 = segment
// smoothing, bit 1 = dithering; 3 = both).  Every bit must act whatever the other bit is: for
// each bit b and each value v of the other bits, Encode(v | b) must differ from Encode(v) on an
// image where the bit is observable (several segments with a noisy segment map, gradients).
func bitSetOptions(c *Ctx) {
	images := []struct {
		name string
		im   *image.NRGBA
	}{{"segment image 160x128", segmentImage()}, {"segment image 192x144 (other arrangement)", segmentImageSeed(1234567891, 192, 144)}}
	bases := []struct {
		name string
		f    func(o *webp.EncoderOptions)
	}{
		{"q20", func(o *webp.EncoderOptions) { o.Quality = 20 }},
		{"q75-segments3", func(o *webp.EncoderOptions) { o.Quality = 75; o.Segments = 3 }},
	}
	if c.Thorough() {
		bases = append(bases, struct {
			name string
			f    func(o *webp.EncoderOptions)
		}{"q50-m2", func(o *webp.EncoderOptions) { o.Quality = 50; o.Method = 2 }})
	}
	type pk struct{ bit, v int }
	differsSomewhere := map[pk]bool{}
	probes := 0
	for _, img := range images {
		for _, bs := range bases {
			out := map[int][]byte{}
			for v := 0; v <= 3; v++ {
				o := *webp.DefaultOptions()
				bs.f(&o)
				o.Preprocessing = v
				runtime.GC()
				runtime.GC()
				r := encode(img.im, &o)
				c.D.Evaluations++
				if r.panicked != "" || r.err != nil {
					c.Violate("rejected-valid:Preprocessing", fmt.Sprintf("Encode failed for Preprocessing %d: %v %s", v, r.err, r.panicked), map[string]any{"options": optsLine(&o)})
					return
				}
				out[v] = r.out
			}
			probes++
			for _, bit := range []int{1, 2} {
				for v := 0; v <= 3; v++ {
					if v&bit != 0 {
						continue
					}
					if !bytes.Equal(out[v], out[v|bit]) {
						differsSomewhere[pk{bit, v}] = true
					} else {
						observe(c, fmt.Sprintf("preprocessing-bit-%d-without-effect-on-one-probe", bit))
					}
				}
			}
		}
	}
	for _, bit := range []int{1, 2} {
		for v := 0; v <= 3; v++ {
			if v&bit != 0 {
				continue
			}
			c.Count("bit_set_pairs")
			c.Nontrivial(fmt.Sprintf("bits|%d|%d", bit, v))
			if !differsSomewhere[pk{bit, v}] {
				c.Violate(fmt.Sprintf("bit-ignored:Preprocessing&%d", bit),
					fmt.Sprintf("Preprocessing %d and %d give byte-identical files on all %d probes (2 pictures with a noisy segment map and gradients x %d settings): bit %d (%s) is ignored when the other bits are %d",
						v|bit, v, probes, len(bases), bit, map[int]string{1: "segment smoothing", 2: "dithering"}[bit], v),
					map[string]any{"images": "segmentImage() 160x128, segmentImageSeed(1234567891,192,144)", "preprocessing_a": v | bit, "preprocessing_b": v})
			}
		}
	}
}

// quantizerRange decides the doc sentences "QMin sets the minimum quantizer value (0-100, default
// 0). Must be <= QMax." / "QMax sets the maximum quantizer value (0-100, default 100). Must be >=
// QMin." (Quality, QMin and QMax share the 0-100 quality scale, as libwebp's qmin / qmax) directly
// on the quantizer that the written VP8 frame carries: with one segment and no SNS the frame has
// a single quantizer index, a monotone function of the quality in use.  For Quality outside
// [QMin, QMax] the frame's quantizer must lie between the quantizers of plain encodes at Quality
// QMin and at Quality QMax:
//
//	qrange-ignored:<target>   the quantizer is outside that interval (the bound is not applied)
//
// Byte identity with the clamped Quality is NOT promised by the documentation: when it fails
// the harness only counts observation:quality-outside-range-not-identical-to-clamped:<target>.
func quantizerRange(c *Ctx) {
	im := segmentImage() // opaque: simple container, VP8 payload at offset 20
	baseOpts := func() webp.EncoderOptions {
		o := *webp.DefaultOptions()
		o.Segments = 1
		o.SNSStrength = 0
		return o
	}
	type res struct {
		bytes []byte
		q     int
	}
	fresh := func(o webp.EncoderOptions) (res, bool) {
		runtime.GC()
		runtime.GC()
		r := encode(im, &o)
		c.D.Evaluations++
		if r.panicked != "" || r.err != nil {
			c.Violate("rejected-valid:QMin/QMax", fmt.Sprintf("Encode failed on a documented-valid quantizer range: %v %s", r.err, r.panicked), map[string]any{"options": optsLine(&o)})
			return res{}, false
		}
		if len(r.out) < 30 || string(r.out[12:16]) != "VP8 " {
			observe(c, "qrange-output-not-a-simple-vp8-file")
			return res{}, false
		}
		fi, err := webp.VerifLossyParseHeaders(r.out[20:])
		if err != nil {
			observe(c, "qrange-frame-header-unreadable")
			return res{}, false
		}
		return res{r.out, fi.Dqm[0][1]}, true // luma AC dequantisation step of segment 0: monotone in the quantizer index
	}
	plain := map[int]int{} // Quality -> quantizer index of the plain encoding (default range, no target)
	plainQ := func(q int) (int, bool) {
		if v, ok := plain[q]; ok {
			return v, true
		}
		o := baseOpts()
		o.Quality = float32(q)
		r, ok := fresh(o)
		if ok {
			plain[q] = r.q
		}
		return r.q, ok
	}
	ranges := [][2]int{{30, 30}, {0, 0}, {100, 100}, {20, 60}}
	quals := []int{0, 10, 45, 90, 100}
	if !c.Thorough() {
		ranges = [][2]int{{30, 30}, {100, 100}, {20, 60}}
		quals = []int{0, 45, 90, 100}
	}
	for _, tgt := range []string{"none", "size", "psnr"} {
		for _, r := range ranges {
			mk := func(q int) webp.EncoderOptions {
				o := baseOpts()
				o.Quality = float32(q)
				o.QMin, o.QMax = r[0], r[1]
				switch tgt {
				case "size":
					o.TargetSize = 2500
				case "psnr":
					o.TargetPSNR = 35
				}
				return o
			}
			qLo, ok1 := plainQ(r[1]) // highest quality = smallest quantizer
			qHi, ok2 := plainQ(r[0])
			if !ok1 || !ok2 {
				continue
			}
			if qLo > qHi {
				observe(c, "quantizer-not-monotone-in-quality")
				continue
			}
			for _, q := range quals {
				if q >= r[0] && q <= r[1] {
					continue
				}
				o := mk(q)
				out, ok := fresh(o)
				if !ok {
					continue
				}
				c.Count("quantizer_range_pairs")
				c.Nontrivial(fmt.Sprintf("qrange|%s|%d-%d|%d", tgt, r[0], r[1], q))
				if out.q < qLo || out.q > qHi {
					c.Violate("qrange-ignored:"+tgt,
						fmt.Sprintf("Quality %d with QMin %d QMax %d (target %s): the frame's luma AC quantizer step is %d, outside [%d, %d] = the steps of plain encodes at Quality %d and %d (documented: QMin / QMax set the minimum / maximum quantizer value)",
							q, r[0], r[1], tgt, out.q, qLo, qHi, r[1], r[0]),
						map[string]any{"image": "segmentImage() 160x128", "options": optsLine(&o), "target": tgt, "quantizer": out.q, "allowed": []int{qLo, qHi}})
					continue
				}
				cq := q
				if cq < r[0] {
					cq = r[0]
				}
				if cq > r[1] {
					cq = r[1]
				}
				if ref, ok := fresh(mk(cq)); ok && !bytes.Equal(ref.bytes, out.bytes) {
					observe(c, "quality-outside-range-not-identical-to-clamped:"+tgt)
				}
			}
		}
	}
}

// animationOptions — OBSERVATIONS ONLY: the property quantifies over EncoderOptions values and
// webp.Encode; the animation encoder's own options are outside it.  Nothing here can produce a
// violation; the counters (observation:anim-*) go into the evidence.
// animation.EncodeOptions is never validated.  Correspondence of the option
// sanitizers with the model; totality on the real encoder: for every extreme value of every
// field (Quality, Kmin, Kmax, LoopCount over MinInt..MaxInt, Lossless, AllowMixed), adding
// frames and closing never panics and, when it succeeds, writes a file that decodes to the
// same number of... at least one frame; LoopCount arrives clamped.
const animTimeout = 6 * time.Second

func animationOptions(c *Ctx, rng *Rand) {
	ints := []int{minInt, minInt + 1, -31, -1, 0, 1, 2, 3, 29, 30, 31, 32, 50, 60, 61, 62, 100, 101, 65535, 65536, maxInt - 31, maxInt - 1, maxInt}
	for _, a := range ints {
		for _, b := range ints {
			x, y := animation.VerifSanitizeKeyframeOptions(a, b)
			c.Case(fmt.Sprintf("sanitize %d %d", a, b), fmt.Sprintf("%d %d", x, y))
			c.D.Evaluations++
		}
	}
	for i := 0; i < 300; i++ {
		a, b := rng.Range(-5, 200), rng.Range(-5, 200)
		x, y := animation.VerifSanitizeKeyframeOptions(a, b)
		c.Case(fmt.Sprintf("sanitize %d %d", a, b), fmt.Sprintf("%d %d", x, y))
		c.D.Evaluations++
	}
	c.Nontrivial("anim:sanitize")
	for _, v := range ints {
		var buf bytes.Buffer
		e := animation.NewEncoder(&buf, 4, 4, &animation.EncodeOptions{LoopCount: v})
		_, _, _, _, _, _, loop := animation.VerifEncoderState(e)
		c.Case(fmt.Sprintf("loop %d", v), fmt.Sprint(loop))
		c.D.Evaluations++
	}
	c.Nontrivial("anim:loop")

	frame := func(k int, alpha bool) *image.NRGBA {
		im := image.NewNRGBA(image.Rect(0, 0, 20, 18))
		s := uint32(12345 + k*977)
		for i := 0; i < 20*18; i++ {
			s = s*1664525 + 1013904223
			x, y := i%20, i/20
			im.Pix[i*4], im.Pix[i*4+1], im.Pix[i*4+2], im.Pix[i*4+3] = uint8(x*9+k*40), uint8(y*7)^uint8(s>>28), uint8(k*60), 255
			if alpha && x < 4 && y < 4 {
				im.Pix[i*4+3] = uint8(s >> 24)
			}
		}
		return im
	}
	try := func(o animation.EncodeOptions, n int, alpha bool) {
		res, pan := "", ""
		var buf bytes.Buffer
		done := make(chan struct{})
		go func() {
			defer close(done)
			defer func() {
				if r := recover(); r != nil {
					pan = fmt.Sprint(r)
				}
			}()
			e := animation.NewEncoder(&buf, 20, 18, &o)
			if e == nil {
				res = "nil encoder for a valid canvas"
				return
			}
			for k := 0; k < n; k++ {
				if err := e.AddFrame(frame(k, alpha), 40*time.Millisecond); err != nil {
					res = "AddFrame: " + err.Error()
					return
				}
			}
			if err := e.Close(); err != nil {
				res = "Close: " + err.Error()
				if buf.Len() != 0 {
					res += fmt.Sprintf(" (after writing %d bytes)", buf.Len())
				}
				return
			}
			a, err := animation.DecodeBytes(buf.Bytes())
			if err != nil {
				res = "written file does not parse: " + err.Error()
				return
			}
			if err := a.DecodeFrames(); err != nil {
				res = "written file does not decode: " + err.Error()
				return
			}
			wantLoop := o.LoopCount
			if wantLoop < 0 {
				wantLoop = 0
			}
			if wantLoop > 65535 {
				wantLoop = 65535
			}
			if len(a.Frames) > 1 && a.LoopCount != wantLoop {
				res = fmt.Sprintf("loop count %d written, documented clamp gives %d", a.LoopCount, wantLoop)
			}
		}()
		c.D.Evaluations++
		rep := map[string]any{"options": fmt.Sprintf("%+v", o), "frames": n, "alpha": alpha, "canvas": "20x18, frame(k) of harness/c20"}
		select {
		case <-done:
		case <-time.After(animTimeout):
			// the worker goroutine cannot be stopped; it ends with the process
			_ = rep
			observe(c, fmt.Sprintf("anim-run-exceeded-%v", animTimeout))
			return
		}
		c.Count("anim_option_runs")
		c.Nontrivial(fmt.Sprintf("anim:%+v:%d", o, n))
		switch {
		case pan != "":
			observe(c, "anim-panic")
		case strings.HasPrefix(res, "Close:") && strings.Contains(res, "after writing"):
			observe(c, "anim-error-after-bytes-written")
		case strings.HasPrefix(res, "written file"), strings.HasPrefix(res, "loop count"), strings.HasPrefix(res, "nil encoder"):
			observe(c, "anim-invalid-output")
		}
	}
	qs := []int{minInt, -1, 0, 1, 100, 101, 1 << 24, maxInt}
	for _, q := range qs {
		for _, ll := range []bool{false, true} {
			for _, mixed := range []bool{false, true} {
				if mixed && !c.Thorough() && q != -1 && q != 101 {
					continue
				}
				try(animation.EncodeOptions{Quality: q, Lossless: ll, AllowMixed: mixed}, 1, true)
				if q == 1<<24 && ll {
					continue // one run is enough to show a hang (its goroutine keeps a CPU busy until exit)
				}
				try(animation.EncodeOptions{Quality: q, Lossless: ll, AllowMixed: mixed}, 3, true)
			}
		}
	}
	ks := []int{minInt, -1, 0, 1, 2, 3, 31, maxInt}
	for _, km := range ks {
		for _, kx := range ks {
			try(animation.EncodeOptions{Quality: 60, Kmin: km, Kmax: kx}, 4, false)
		}
	}
	for _, lc := range []int{minInt, -1, 0, 1, 65535, 65536, maxInt} {
		try(animation.EncodeOptions{Quality: 60, LoopCount: lc}, 2, false)
	}

	// Kmin ("frames closer than Kmin to the previous keyframe are always encoded as sub-frames") is
	// sanitized but never read; the only path that could put a keyframe below Kmin is the
	// "more than 90% of the canvas changed and the full-canvas encoding is smaller" choice of
	// encodeSubFrame.  Scenarios built to reach that path: a second frame that differs from the
	// first one everywhere except in its leftmost columns.  A keyframe at distance 1 < Kmin is a
	// violation of the documented clause.
	nsc := 16
	if c.Thorough() {
		nsc = 120
	}
	for it := 0; it < nsc; it++ {
		r := rng.Fork()
		w, h := 32+16*r.Intn(2), 16+16*r.Intn(2)
		ll := it%2 == 0
		kind := r.Intn(4)
		mk := func(k int) *image.NRGBA {
			im := image.NewNRGBA(image.Rect(0, 0, w, h))
			for y := 0; y < h; y++ {
				for x := 0; x < w; x++ {
					i := y*im.Stride + x*4
					var cr, cg, cb byte
					switch kind {
					case 0:
						cr, cg, cb = byte(r.U64()), byte(r.U64()), byte(r.U64())
					case 1:
						cr, cg, cb = byte(x*7+k*90), byte(y*5+k*50), byte(k*120)
					case 2:
						cr, cg, cb = byte(k*200), byte(k*100), byte(50+k*30)
					default:
						cr, cg, cb = byte((x/4+k)*40), byte((y/4)*40+k*17), byte(r.Intn(8)+k*60)
					}
					im.Pix[i], im.Pix[i+1], im.Pix[i+2], im.Pix[i+3] = cr, cg, cb, 255
				}
			}
			return im
		}
		f0, f1 := mk(0), mk(1)
		keep := 1 + r.Intn(3)
		for y := 0; y < h; y++ {
			copy(f1.Pix[y*f1.Stride:y*f1.Stride+keep*4], f0.Pix[y*f0.Stride:y*f0.Stride+keep*4])
		}
		var buf bytes.Buffer
		e := animation.NewEncoder(&buf, w, h, &animation.EncodeOptions{Quality: 60, Lossless: ll, Kmin: 8, Kmax: 9})
		err0 := e.AddFrame(f0, 40*time.Millisecond)
		err1 := e.AddFrame(f1, 40*time.Millisecond)
		fc, sinceKey, _, _, kmin, _, _ := animation.VerifEncoderState(e)
		c.D.Evaluations++
		c.Count("anim_kmin_scenarios")
		if err0 == nil && err1 == nil && fc == 2 && sinceKey == 0 && kmin > 1 {
			observe(c, "anim-keyframe-below-kmin")
		}
	}
	c.Nontrivial("anim:kmin")
}

// ---------------------------------------------------------------------------
// byte-level equivalences on the real encoder

type sentinel struct {
	field string
	vals  []int
	dflt  int
	set   func(o *webp.EncoderOptions, v int)
}

var sentinels = []sentinel{
	{"SNSStrength", []int{-1, -7, minInt}, 50, func(o *webp.EncoderOptions, v int) { o.SNSStrength = v }},
	{"FilterStrength", []int{-1, minInt}, 60, func(o *webp.EncoderOptions, v int) { o.FilterStrength = v }},
	{"FilterType", []int{-1, minInt}, 1, func(o *webp.EncoderOptions, v int) { o.FilterType = v }},
	{"Segments", []int{0, -1, minInt}, 4, func(o *webp.EncoderOptions, v int) { o.Segments = v }},
	{"Pass", []int{0, -1, minInt}, 1, func(o *webp.EncoderOptions, v int) { o.Pass = v }},
	{"QMax", []int{-1, minInt}, 100, func(o *webp.EncoderOptions, v int) { o.QMax = v }},
	{"AlphaCompression", []int{-1, minInt}, 1, func(o *webp.EncoderOptions, v int) { o.AlphaCompression = v }},
	{"AlphaFiltering", []int{-1, minInt}, 1, func(o *webp.EncoderOptions, v int) { o.AlphaFiltering = v }},
	{"AlphaQuality", []int{-1, minInt}, 100, func(o *webp.EncoderOptions, v int) { o.AlphaQuality = v }},
}

func directEquivalences(c *Ctx, rng *Rand) {
	imgs := []struct {
		name string
		im   image.Image
	}{
		{"opaque24x20", testImage(rng.Fork(), 24, 20, 0)},
		{"alpha17x13", testImage(rng.Fork(), 17, 13, 1)},
		{"alpha1x1", testImage(rng.Fork(), 1, 1, 2)},
		{"noisealpha33x18", testImage(rng.Fork(), 33, 18, 2)},
	}
	lossyBases := []struct {
		name string
		o    webp.EncoderOptions
	}{
		{"default", *webp.DefaultOptions()},
		{"q60m3", webp.EncoderOptions{Quality: 60, Method: 3, SNSStrength: -1, FilterStrength: -1, FilterType: -1, Segments: -1, Pass: -1, QMax: -1, AlphaCompression: -1, AlphaFiltering: -1, AlphaQuality: -1}},
		{"photo40m6", func() webp.EncoderOptions { o := *webp.OptionsForPreset(webp.PresetPhoto, 40); o.Method = 6; return o }()},
		{"m0parts3", func() webp.EncoderOptions {
			o := *webp.DefaultOptions()
			o.Method = 0
			o.Partitions = 3
			o.Quality = 90
			return o
		}()},
		{"target400", func() webp.EncoderOptions { o := *webp.DefaultOptions(); o.TargetSize = 400; o.Pass = 6; return o }()},
		{"psnr38prep3sharp", func() webp.EncoderOptions {
			o := *webp.DefaultOptions()
			o.TargetPSNR = 38
			o.Preprocessing = 3
			o.UseSharpYUV = true
			o.Exact = true
			return o
		}()},
	}
	if !c.Thorough() {
		imgs = imgs[:3]
	}
	cache := map[string][]byte{}
	// The byte comparisons below are about options, not about encoder history: two GC
	// cycles empty every sync.Pool so that each encode starts from fresh encoder state
	// (history independence is property C11's subject).
	enc := func(key string, im image.Image, o *webp.EncoderOptions) ([]byte, bool) {
		runtime.GC()
		runtime.GC()
		r := encode(im, o)
		c.D.Evaluations++
		if r.panicked != "" {
			c.Violate("panic", "webp.Encode panicked: "+r.panicked, map[string]any{"options": optsLine(o), "image": key})
			return nil, false
		}
		if r.err != nil {
			c.Violate("valid-options-rejected", "Encode failed on options that should be valid: "+r.err.Error(), map[string]any{"options": optsLine(o), "image": key})
			return nil, false
		}
		return r.out, true
	}
	same := func(key, desc, imname string, im image.Image, o1, o2 *webp.EncoderOptions) {
		ck := imname + "|" + optsLine(o2)
		b2, ok := cache[ck]
		if !ok {
			var ok2 bool
			b2, ok2 = enc(imname, im, o2)
			if !ok2 {
				return
			}
			cache[ck] = b2
		}
		b1, ok1 := enc(imname, im, o1)
		if !ok1 {
			return
		}
		c.Count("equivalence_pairs")
		c.Nontrivial("pair:" + key + "|" + imname + "|" + optsLine(o1))
		if !bytes.Equal(b1, b2) {
			// Re-encode both sides: if the same (image, options) does not reproduce its own
			// bytes, the difference is encoder nondeterminism (C10/C11), not option handling.
			stable := true
			for i := 0; i < 3 && stable; i++ {
				x1, k1 := enc(imname, im, o1)
				x2, k2 := enc(imname, im, o2)
				if !k1 || !k2 || !bytes.Equal(x1, b1) || !bytes.Equal(x2, b2) {
					stable = false
				}
			}
			if !stable {
				delete(cache, ck)
				c.Count("unstable_encoder_output_skipped")
				return
			}
			if strings.HasPrefix(key, "observation:") {
				c.Count(key)
				return
			}
			c.Violate(key, desc+fmt.Sprintf(": outputs differ (%d vs %d bytes)", len(b1), len(b2)),
				map[string]any{"image": imname, "options_a": optsLine(o1), "options_b": optsLine(o2)})
		}
	}

	// nil options = DefaultOptions()
	for _, im := range imgs {
		r := encode(im.im, nil)
		c.D.Evaluations++
		if r.panicked != "" || r.err != nil {
			c.Violate("nil-options", "Encode with nil options failed", map[string]any{"image": im.name})
			continue
		}
		d, ok := enc(im.name, im.im, webp.DefaultOptions())
		if ok && !bytes.Equal(r.out, d) {
			c.Violate("nil-options", "nil options and DefaultOptions() give different bytes", map[string]any{"image": im.name})
		}
		c.Nontrivial("nil:" + im.name)
	}

	// documented sentinels
	for _, s := range sentinels {
		for _, b := range lossyBases {
			for _, im := range imgs {
				d := cloneOpts(&b.o)
				s.set(d, s.dflt)
				for _, v := range s.vals {
					o := cloneOpts(&b.o)
					s.set(o, v)
					same("sentinel-"+s.field, fmt.Sprintf("%s=%d must behave as the documented default %d (base %s)", s.field, v, s.dflt, b.name), im.name, im.im, o, d)
				}
			}
		}
	}

	// options without effect: EmulateJpegSize, the Preset field itself
	allBases := append([]struct {
		name string
		o    webp.EncoderOptions
	}{}, lossyBases...)
	allBases = append(allBases, struct {
		name string
		o    webp.EncoderOptions
	}{"lossless", webp.EncoderOptions{Lossless: true, Quality: 75, Method: 4}})
	for _, b := range allBases {
		for _, im := range imgs[:2] {
			o := cloneOpts(&b.o)
			o.EmulateJpegSize = !o.EmulateJpegSize
			same("no-effect-EmulateJpegSize", "EmulateJpegSize is documented to have no effect on the output", im.name, im.im, o, &b.o)
			for p := 0; p <= 5; p++ {
				if webp.Preset(p) == b.o.Preset {
					continue
				}
				o := cloneOpts(&b.o)
				o.Preset = webp.Preset(p)
				// the doc comment does not say that the Preset field has no effect: observation only
				same("observation:preset-field-changes-output", "the Preset field itself is only validated; OptionsForPreset is what sets fields", im.name, im.im, o, &b.o)
			}
		}
	}

	// lossy-only options do not change lossless output
	llBases := []webp.EncoderOptions{
		{Lossless: true, Quality: 75, Method: 4},
		{Lossless: true, Quality: 20, Method: 0, Exact: true},
		{Lossless: true, Quality: 100, Method: 6, ICC: []byte{1, 2, 3}},
	}
	// documented "(lossy encoding only ...)" in the field's doc comment
	documentedLossyOnly := map[string]bool{"Preprocessing": true, "AlphaCompression": true, "AlphaFiltering": true, "AlphaQuality": true}
	lossyOnly := map[string]bool{"UseSharpYUV": true, "TargetSize": true, "TargetPSNR": true, "Preprocessing": true, "SNSStrength": true,
		"FilterStrength": true, "FilterSharpness": true, "FilterType": true, "Partitions": true, "Segments": true, "Pass": true,
		"QMin": true, "QMax": true, "AlphaCompression": true, "AlphaFiltering": true, "AlphaQuality": true}
	for bi := range llBases {
		if bi == 2 && !c.Thorough() {
			continue
		}
		for _, im := range imgs[:2] {
			for _, f := range fields {
				if !lossyOnly[f.name] {
					continue
				}
				for _, v := range f.valid {
					o := cloneOpts(&llBases[bi])
					f.set(o, v)
					if f.name == "QMin" && v.(int) > 0 {
						// QMin > resolved QMax(0 in the zero-valued base) is rejected by validation: keep the pair valid
						o.QMax = 100
					}
					if optsLine(o) == optsLine(&llBases[bi]) {
						continue
					}
					key := "lossless-affected-by-" + f.name
					if !documentedLossyOnly[f.name] {
						key = "observation:lossless-affected-by-" + f.name // not documented as lossy-only
					}
					same(key, "a lossy-only option changed the lossless output", im.name, im.im, o, &llBases[bi])
				}
			}
		}
	}
}
