package vp8gen

// Package vp8gen is an independent VP8 key-frame emitter for /verif's harnesses: random "syntax
// plans" -> valid key frames that the package's own encoder never produces. Usage:
//
//	p := vp8gen.RandPlan(rng, 64, "")        // "" plain | "segnoupd" | "midclamp" | "zeromb" | "thr"
//	payload := p.Emit(rng)                    // bytes of a "VP8 " chunk
//	tag := p.Tag()                            // "foreign:<class>:<w>x<h>:..."
//
// or vp8gen.KeyFrame(rng, maxDim, class). Class "segnoupd": segmentation enabled without
// update_segment_feature_data; "midclamp": delta-mode segment filter levels leaving 0..63 with
// loop-filter deltas; "zeromb": 16x16 macroblocks without skip flag and without coefficients;
// "thr": final filter levels exactly at the hev / interior-limit thresholds.
//
// An independent VP8 key-frame emitter written from RFC 6386 (boolean entropy
// encoder of section 7, frame / segment / filter / quantiser / probability
// headers of section 9 and 13.4, per-macroblock modes of section 11, tokens of
// section 13).  It produces valid key frames that the package's own encoder
// never emits: absolute or delta per-segment quantisers and filter levels,
// the simple filter with deltas, arbitrary 16x16 / 4x4 / chroma modes,
// coefficient magnitudes from every token category including the cat6
// extremes, 1..8 partitions, skip flags on or off, probability updates.

import (
	"fmt"
	"strings"

	webp "github.com/deepteams/webp"

	. "verifharness/hlib"
)

// ---- boolean encoder (RFC 6386 section 7.3) ----

type boolEnc struct {
	out      []byte
	rng      uint32
	bottom   uint32
	bitCount int
}

func newBoolEnc() *boolEnc { return &boolEnc{rng: 255, bitCount: 24} }

func (e *boolEnc) addOne() {
	i := len(e.out) - 1
	for i >= 0 && e.out[i] == 255 {
		e.out[i] = 0
		i--
	}
	if i >= 0 {
		e.out[i]++
	}
}

func (e *boolEnc) put(prob int, v bool) {
	split := 1 + (((e.rng - 1) * uint32(prob)) >> 8)
	if v {
		e.bottom += split
		e.rng -= split
		if e.bottom < split { // carry out of 32 bits
			e.addOne()
		}
	} else {
		e.rng = split
	}
	for e.rng < 128 {
		e.rng <<= 1
		if e.bottom&(1<<31) != 0 {
			e.addOne()
		}
		e.bottom <<= 1
		e.bitCount--
		if e.bitCount == 0 {
			e.out = append(e.out, byte(e.bottom>>24))
			e.bottom &= (1 << 24) - 1
			e.bitCount = 8
		}
	}
}

func (e *boolEnc) flush() []byte {
	c := e.bitCount
	v := e.bottom
	if v&(1<<uint(32-c)) != 0 {
		e.addOne()
	}
	v <<= uint(c & 7)
	c >>= 3
	for c--; c >= 0; c-- {
		v <<= 8
	}
	for c = 3; c >= 0; c-- {
		e.out = append(e.out, byte(v>>24))
		v <<= 8
	}
	return e.out
}

func (e *boolEnc) flag(v bool) { e.put(128, v) }
func (e *boolEnc) lit(n int, v int) {
	for i := n - 1; i >= 0; i-- {
		e.flag((v>>uint(i))&1 == 1)
	}
}
func (e *boolEnc) signed(n int, v int) {
	m := v
	if m < 0 {
		m = -m
	}
	e.lit(n, m)
	e.flag(v < 0)
}
func (e *boolEnc) optSigned(n int, present bool, v int) {
	e.flag(present)
	if present {
		e.signed(n, v)
	}
}

// ---- trees (written from the RFC, not taken from the package) ----

// bmode codes: bit strings with the index of the probability used for each bit.
type tbit struct {
	p int
	b bool
}

var bmodeCode = [10][]tbit{
	0: {{0, false}},                                                                   // B_DC
	1: {{0, true}, {1, false}},                                                        // B_TM
	2: {{0, true}, {1, true}, {2, false}},                                             // B_VE
	3: {{0, true}, {1, true}, {2, true}, {3, false}, {4, false}},                      // B_HE
	4: {{0, true}, {1, true}, {2, true}, {3, false}, {4, true}, {5, false}},           // B_RD
	5: {{0, true}, {1, true}, {2, true}, {3, false}, {4, true}, {5, true}},            // B_VR
	6: {{0, true}, {1, true}, {2, true}, {3, true}, {6, false}},                       // B_LD
	7: {{0, true}, {1, true}, {2, true}, {3, true}, {6, true}, {7, false}},            // B_VL
	8: {{0, true}, {1, true}, {2, true}, {3, true}, {6, true}, {7, true}, {8, false}}, // B_HD
	9: {{0, true}, {1, true}, {2, true}, {3, true}, {6, true}, {7, true}, {8, true}},  // B_HU
}

var pcat = [6][]int{
	{159}, {165, 145}, {173, 148, 140}, {176, 155, 140, 135}, {180, 157, 141, 134, 130},
	{254, 254, 243, 230, 196, 177, 153, 140, 133, 130, 129},
}
var catBase = [6]int{5, 7, 11, 19, 35, 67}
var fZigzag = [16]int{0, 1, 4, 8, 5, 2, 3, 6, 9, 12, 13, 10, 7, 11, 14, 15}
var fBands = [17]int{0, 1, 2, 3, 6, 4, 5, 6, 6, 6, 6, 6, 6, 6, 6, 7, 0}

// putValue writes the token for |v| >= 1 after the "not zero" decision, then the sign.
func putValue(e *boolEnc, p []uint8, v int) {
	a := v
	if a < 0 {
		a = -a
	}
	pr := func(i int) int { return int(p[i]) }
	switch {
	case a == 1:
		e.put(pr(2), false)
	case a <= 4:
		e.put(pr(2), true)
		e.put(pr(3), false)
		if a == 2 {
			e.put(pr(4), false)
		} else {
			e.put(pr(4), true)
			e.put(pr(5), a == 4)
		}
	default:
		e.put(pr(2), true)
		e.put(pr(3), true)
		cat := 0
		for cat < 5 && a >= catBase[cat+1] {
			cat++
		}
		switch cat {
		case 0, 1:
			e.put(pr(6), false)
			e.put(pr(7), cat == 1)
		case 2, 3:
			e.put(pr(6), true)
			e.put(pr(8), false)
			e.put(pr(9), cat == 3)
		default:
			e.put(pr(6), true)
			e.put(pr(8), true)
			e.put(pr(10), cat == 5)
		}
		extra := a - catBase[cat]
		n := len(pcat[cat])
		for i := 0; i < n; i++ {
			e.put(pcat[cat][i], (extra>>uint(n-1-i))&1 == 1)
		}
	}
	e.flag(v < 0)
}

// putBlock writes the tokens of one block: coefficients c[first..eob) in zig-zag
// order (c[eob-1] != 0 unless eob == 16 or eob == first).
func putBlock(e *boolEnc, probs *[8][3][11]uint8, first, ctx int, c *[16]int, eob int) {
	n := first
	noEOB := false
	for n < 16 {
		p := probs[fBands[n]][ctx][:]
		if n >= eob {
			// eob < 16 here; preceded by a non-zero token or first position
			e.put(int(p[0]), false)
			return
		}
		if !noEOB {
			e.put(int(p[0]), true)
		}
		v := c[n]
		if v == 0 {
			e.put(int(p[1]), false)
			ctx = 0
			noEOB = true
		} else {
			e.put(int(p[1]), true)
			putValue(e, p, v)
			if v == 1 || v == -1 {
				ctx = 1
			} else {
				ctx = 2
			}
			noEOB = false
		}
		n++
	}
}

// ---- domain of the inverse transforms: values that fit the 16-bit variables of RFC 6386's code ----

// quantiser tables of RFC 6386 section 14.1 (written out here, not taken from the package)
var rfcDcQ = [128]int{4, 5, 6, 7, 8, 9, 10, 10, 11, 12, 13, 14, 15, 16, 17, 17, 18, 19, 20, 20, 21, 21, 22, 22, 23, 23, 24, 25, 25, 26, 27, 28, 29, 30, 31, 32, 33, 34, 35, 36, 37, 37, 38, 39, 40, 41, 42, 43, 44, 45, 46, 46, 47, 48, 49, 50, 51, 52, 53, 54, 55, 56, 57, 58, 59, 60, 61, 62, 63, 64, 65, 66, 67, 68, 69, 70, 71, 72, 73, 74, 75, 76, 76, 77, 78, 79, 80, 81, 82, 83, 84, 85, 86, 87, 88, 89, 91, 93, 95, 96, 98, 100, 101, 102, 104, 106, 108, 110, 112, 114, 116, 118, 122, 124, 126, 128, 130, 132, 134, 136, 138, 140, 143, 145, 148, 151, 154, 157}
var rfcAcQ = [128]int{4, 5, 6, 7, 8, 9, 10, 11, 12, 13, 14, 15, 16, 17, 18, 19, 20, 21, 22, 23, 24, 25, 26, 27, 28, 29, 30, 31, 32, 33, 34, 35, 36, 37, 38, 39, 40, 41, 42, 43, 44, 45, 46, 47, 48, 49, 50, 51, 52, 53, 54, 55, 56, 57, 58, 60, 62, 64, 66, 68, 70, 72, 74, 76, 78, 80, 82, 84, 86, 88, 90, 92, 94, 96, 98, 100, 102, 104, 106, 108, 110, 112, 114, 116, 119, 122, 125, 128, 131, 134, 137, 140, 143, 146, 149, 152, 155, 158, 161, 164, 167, 170, 173, 177, 181, 185, 189, 193, 197, 201, 205, 209, 213, 217, 221, 225, 229, 234, 239, 245, 249, 254, 259, 264, 269, 274, 279, 284}

func clipInt(v, lo, hi int) int {
	if v < lo {
		return lo
	}
	if v > hi {
		return hi
	}
	return v
}

func fits16(vs ...int) bool {
	for _, v := range vs {
		if v < -32768 || v > 32767 {
			return false
		}
	}
	return true
}

// WideIDCT reports whether the inverse DCT of RFC 6386 section 14.3 on the raster block in stores
// (or, conservatively, computes) a value outside 16 bits.
func WideIDCT(in [16]int) bool {
	const c1, c2 = 20091, 35468
	var tmp [16]int
	for i := 0; i < 4; i++ {
		a := in[i] + in[8+i]
		b := in[i] - in[8+i]
		t1 := (in[4+i] * c2) >> 16
		t2 := in[12+i] + ((in[12+i] * c1) >> 16)
		c := t1 - t2
		t1 = in[4+i] + ((in[4+i] * c1) >> 16)
		t2 = (in[12+i] * c2) >> 16
		d := t1 + t2
		tmp[i], tmp[12+i], tmp[4+i], tmp[8+i] = a+d, a-d, b+c, b-c
		if !fits16(in[i], in[4+i], in[8+i], in[12+i], a, b, c, d, t1, t2, a+d, a-d, b+c, b-c) {
			return true
		}
	}
	for i := 0; i < 4; i++ {
		ip := tmp[4*i : 4*i+4]
		a := ip[0] + ip[2]
		b := ip[0] - ip[2]
		t1 := (ip[1] * c2) >> 16
		t2 := ip[3] + ((ip[3] * c1) >> 16)
		c := t1 - t2
		t1 = ip[1] + ((ip[1] * c1) >> 16)
		t2 = (ip[3] * c2) >> 16
		d := t1 + t2
		if !fits16(a, b, c, d, t1, t2, a+d+4, a-d+4, b+c+4, b-c+4) {
			return true
		}
	}
	return false
}

// WideWHT is the same for the inverse Walsh-Hadamard transform (14.3); out are its 16 outputs.
func WideWHT(in [16]int) (out [16]int, wide bool) {
	var tmp [16]int
	for i := 0; i < 4; i++ {
		a := in[i] + in[12+i]
		b := in[4+i] + in[8+i]
		c := in[4+i] - in[8+i]
		d := in[i] - in[12+i]
		tmp[i], tmp[4+i], tmp[8+i], tmp[12+i] = a+b, c+d, a-b, d-c
		if !fits16(in[i], in[4+i], in[8+i], in[12+i], a, b, c, d, a+b, c+d, a-b, d-c) {
			wide = true
		}
	}
	for i := 0; i < 4; i++ {
		ip := tmp[4*i : 4*i+4]
		a := ip[0] + ip[3]
		b := ip[1] + ip[2]
		c := ip[1] - ip[2]
		d := ip[0] - ip[3]
		a2, b2, c2, d2 := a+b, c+d, a-b, d-c
		if !fits16(a, b, c, d, a2+3, b2+3, c2+3, d2+3) {
			wide = true
		}
		out[4*i], out[4*i+1], out[4*i+2], out[4*i+3] = (a2+3)>>3, (b2+3)>>3, (c2+3)>>3, (d2+3)>>3
	}
	return out, wide
}

type dqFactors struct{ y1dc, y1ac, y2dc, y2ac, uvdc, uvac int }

// dequants lists the factor sets a conforming decoder may use for segment s: one set, or - for
// segmentation switched on without feature data (the class "segnoupd", where the package and the
// RFC's reference decoder start from different defaults) - both readings.
func (p *Plan) dequants(s int) []dqFactors {
	var qs []int
	switch {
	case !p.segEnabled:
		qs = []int{p.baseQ}
	case !p.segUpdData:
		qs = []int{p.baseQ, 0}
	default:
		v := 0
		if p.segQP[s] {
			v = p.segQ[s]
		}
		if p.segAbs {
			qs = []int{v}
		} else {
			qs = []int{p.baseQ + v}
		}
	}
	var out []dqFactors
	for _, q := range qs {
		q = clipInt(q, 0, 127)
		idx := func(i int) int {
			d := 0
			if p.qdP[i] {
				d = p.qd[i]
			}
			return clipInt(q+d, 0, 127)
		}
		f := dqFactors{y1dc: rfcDcQ[idx(0)], y1ac: rfcAcQ[q], y2dc: 2 * rfcDcQ[idx(1)], y2ac: rfcAcQ[idx(2)] * 155 / 100,
			uvdc: rfcDcQ[idx(3)], uvac: rfcAcQ[idx(4)]}
		if f.y2ac < 8 {
			f.y2ac = 8
		}
		if f.uvdc > 132 {
			f.uvdc = 132
		}
		out = append(out, f)
	}
	return out
}

// dequantRaster: zig-zag levels times the factors, in raster order; wide if a product leaves 16 bits.
func dequantRaster(c *[16]int, dc, ac int) (out [16]int, wide bool) {
	for n := 0; n < 16; n++ {
		f := ac
		if n == 0 {
			f = dc
		}
		v := c[n] * f
		if !fits16(v) {
			wide = true
		}
		out[fZigzag[n]] = v
	}
	return out, wide
}

// ---- random plans ----

type Plan struct {
	W, H                  int
	Feat                  []string // deviation classes present in the plan
	Notes                 []string // coverage notes (not part of the key)
	segEnabled, segUpdMap bool
	segUpdData, segAbs    bool
	segQ, segLF           [4]int
	segQP, segLFP         [4]bool
	segProbP              [3]bool
	segProb               [3]int
	simple                bool
	level, sharp          int
	deltaEn, deltaUpd     bool
	refD, modeD           [4]int
	refP, modeP           [4]bool
	log2parts             int
	baseQ                 int
	qd                    [5]int
	qdP                   [5]bool
	skipEn                bool
	skipProb              int
	version               int
	coefScale             int // 0 small, 1 medium, 2 any category, 3 extremes
	updRate               int // per-mille of probability updates
	modeMix               int // 0 mostly i16, 1 mostly B_PRED, 2 mixed
	allowZeroMB           bool
	padTail               int
	// Wide is set by Emit when some value RFC 6386's inverse transforms (14.3, 14.4) or the
	// dequantisation store in 16-bit variables does not fit: the RFC's code then narrows with
	// implementation-defined results, so the samples of such a frame are not defined by it.
	Wide bool
}

func RandPlan(r *Rand, maxDim int, wantFeat string) *Plan {
	p := &Plan{}
	dims := []int{1, 2, 7, 8, 15, 16, 17, 31, 32, 33, 47, 48, 49, 63, 64}
	pick := func() int {
		for {
			var d int
			if r.Intn(3) == 0 {
				d = 1 + r.Intn(maxDim)
			} else {
				d = dims[r.Intn(len(dims))]
			}
			if d <= maxDim {
				return d
			}
		}
	}
	p.W, p.H = pick(), pick()
	p.version = r.Intn(4)
	p.segEnabled = r.Intn(2) == 0
	if p.segEnabled {
		p.segUpdMap = r.Intn(4) != 0
		p.segUpdData = true
		p.segAbs = r.Bool()
		for i := 0; i < 4; i++ {
			p.segQP[i] = r.Intn(4) != 0
			p.segLFP[i] = r.Intn(4) != 0
			if p.segAbs {
				p.segQ[i] = r.Intn(128)
				p.segLF[i] = r.Intn(64)
			} else {
				p.segQ[i] = r.Range(-40, 40)
				p.segLF[i] = r.Range(-20, 20)
			}
		}
		for i := 0; i < 3; i++ {
			p.segProbP[i] = r.Intn(3) != 0
			p.segProb[i] = r.Range(1, 255)
		}
	}
	p.simple = r.Intn(3) == 0
	p.level = r.Pick(0, 1, 5, 14, 15, 16, 30, 39, 40, 41, 63, r.Intn(64), r.Intn(64))
	p.sharp = r.Intn(8)
	p.deltaEn = r.Intn(2) == 0
	p.deltaUpd = r.Intn(4) != 0
	for i := 0; i < 4; i++ {
		p.refP[i] = r.Intn(3) != 0
		p.modeP[i] = r.Intn(3) != 0
		p.refD[i] = r.Range(-20, 20)
		p.modeD[i] = r.Range(-20, 20)
	}
	p.log2parts = r.Intn(4)
	p.baseQ = r.Pick(0, 1, 10, 40, 80, 117, 118, 126, 127, r.Intn(128), r.Intn(128))
	for i := 0; i < 5; i++ {
		p.qdP[i] = r.Intn(3) == 0
		p.qd[i] = r.Range(-15, 15)
	}
	p.skipEn = r.Intn(3) != 0
	p.skipProb = r.Range(1, 255)
	p.coefScale = r.Intn(4)
	p.updRate = r.Pick(0, 0, 5, 30, 200)
	p.modeMix = r.Intn(3)
	p.padTail = r.Pick(0, 0, 0, 1, 5)

	// keep the plain plans inside the region where the RFC reference decoder and
	// libwebp-derived decoders are known to agree; each deviation class is switched
	// on deliberately and named in the tag
	switch wantFeat {
	case "segnoupd":
		p.segEnabled, p.segUpdData = true, false
		p.segUpdMap = r.Bool()
		if p.baseQ == 0 {
			p.baseQ = 50
		}
		p.Feat = append(p.Feat, "segnoupd")
	case "midclamp":
		p.segEnabled, p.segUpdData, p.segAbs, p.segUpdMap = true, true, false, true
		p.deltaEn, p.deltaUpd = true, true
		p.level = r.Range(1, 20)
		for i := 0; i < 4; i++ {
			p.segLFP[i] = true
			p.segLF[i] = -p.level - r.Range(1, 20) // intermediate level below zero
		}
		p.refP[0], p.refD[0] = true, r.Range(10, 40) // pulled back into range by the delta
		p.Feat = append(p.Feat, "midclamp")
	case "thr":
		// final filter level exactly at a threshold of the hev / interior-limit rules, low-amplitude
		// residuals (sample steps of 1 and 2 across edges); not a deviation class: tag stays "plain"
		p.simple = false
		p.level = r.Pick(1, 14, 15, 16, 39, 40, 41, 63)
		p.deltaEn = false
		if p.segEnabled {
			p.segUpdData, p.segAbs = true, true
			for i := 0; i < 4; i++ {
				p.segLFP[i] = true
				p.segLF[i] = r.Pick(1, 14, 15, 16, 39, 40, 41, 63)
			}
		}
		p.baseQ = r.Intn(12)
		for i := range p.qdP {
			p.qdP[i] = false
		}
		if p.segEnabled {
			for i := 0; i < 4; i++ {
				p.segQP[i] = true
				p.segQ[i] = r.Intn(12)
			}
		}
		p.coefScale = 0
		p.Notes = append(p.Notes, "threshold-level")
	case "zeromb":
		p.allowZeroMB = true
		p.modeMix = 0
		if p.level == 0 {
			p.level = 20
		}
		if r.Bool() {
			p.skipEn = false
		}
		p.Feat = append(p.Feat, "zeromb")
	}
	if wantFeat != "midclamp" && p.segEnabled && p.segUpdData && !p.segAbs && p.deltaEn {
		// make the segment-adjusted level stay within 0..63
		for i := 0; i < 4; i++ {
			v := p.level
			if p.segLFP[i] {
				v += p.segLF[i]
			}
			if v < 0 || v > 63 {
				p.segLF[i] = 0
			}
		}
	}
	return p
}

func (p *Plan) Tag() string {
	f := "plain"
	if len(p.Feat) > 0 {
		f = strings.Join(p.Feat, "+")
	}
	return fmt.Sprintf("foreign:%s:%dx%d:v%d:seg%v%v%v%v:lf%v.%d.%d.%v:p%d:q%d:skip%v:cs%d:mm%d", f, p.W, p.H, p.version,
		b2i(p.segEnabled), b2i(p.segUpdMap), b2i(p.segUpdData), b2i(p.segAbs), b2i(p.simple), p.level, p.sharp, b2i(p.deltaEn),
		p.log2parts, p.baseQ, b2i(p.skipEn), p.coefScale, p.modeMix)
}

func b2i(b bool) int {
	if b {
		return 1
	}
	return 0
}

func randCoef(r *Rand, scale int) int {
	var a int
	switch scale {
	case 0:
		a = 1 + r.Intn(3)
	case 1:
		a = 1 + r.Intn(40)
	case 2:
		cat := r.Intn(8)
		switch {
		case cat < 2:
			a = 1 + r.Intn(4)
		default:
			c := cat - 2
			a = catBase[c] + r.Intn(1<<uint(len(pcat[c])))
		}
	default:
		a = r.Pick(1, 2, 4, 5, 6, 7, 10, 11, 18, 19, 34, 35, 66, 67, 68, 1000, 2047, 2049, 2113, 2114)
	}
	if r.Bool() {
		return -a
	}
	return a
}

// randBlock draws the coefficients of a block in zig-zag order from position first.
func randBlock(r *Rand, first, scale int, density int) (c [16]int, eob int) {
	switch r.Intn(10) {
	case 0, 1, 2:
		return c, first // empty
	case 3:
		eob = first + 1 // one coefficient
	case 4:
		eob = 16
	case 5:
		eob = first + 1 + r.Intn(3)
	default:
		eob = first + 1 + r.Intn(16-first)
	}
	if eob > 16 {
		eob = 16
	}
	for n := first; n < eob; n++ {
		if r.Intn(100) < density {
			c[n] = randCoef(r, scale)
		}
	}
	if eob < 16 && eob > first && c[eob-1] == 0 {
		c[eob-1] = randCoef(r, scale)
	}
	if eob == 16 && r.Intn(3) != 0 && c[15] == 0 {
		c[15] = randCoef(r, scale)
	}
	return c, eob
}

type nzCtx struct {
	y  [4]int
	u  [2]int
	v  [2]int
	y2 int
}

// emit builds the frame for the plan; all remaining random choices (modes,
// segment ids, coefficients) are drawn while emitting.
func (p *Plan) Emit(r *Rand) []byte {
	coeffs0, coeffsUpd, bmodeProbs := webp.VerifLossyTables()
	hd := newBoolEnc()
	// colour space 0 (1 is reserved) and clamping type 0 (1 is the encoder's promise that no sample
	// leaves 0..255 before clamping, which random residuals do not keep): streams with other values
	// are outside "valid key frames"; the draws are kept so that the remaining choices do not shift
	r.Bool()
	r.Bool()
	hd.flag(false) // colour space
	hd.flag(false) // clamping type
	hd.flag(p.segEnabled)
	if p.segEnabled {
		hd.flag(p.segUpdMap)
		hd.flag(p.segUpdData)
		if p.segUpdData {
			hd.flag(p.segAbs)
			for i := 0; i < 4; i++ {
				hd.optSigned(7, p.segQP[i], p.segQ[i])
			}
			for i := 0; i < 4; i++ {
				hd.optSigned(6, p.segLFP[i], p.segLF[i])
			}
		}
		if p.segUpdMap {
			for i := 0; i < 3; i++ {
				hd.flag(p.segProbP[i])
				if p.segProbP[i] {
					hd.lit(8, p.segProb[i])
				}
			}
		}
	}
	hd.flag(p.simple)
	hd.lit(6, p.level)
	hd.lit(3, p.sharp)
	hd.flag(p.deltaEn)
	if p.deltaEn {
		hd.flag(p.deltaUpd)
		if p.deltaUpd {
			for i := 0; i < 4; i++ {
				hd.optSigned(6, p.refP[i], p.refD[i])
			}
			for i := 0; i < 4; i++ {
				hd.optSigned(6, p.modeP[i], p.modeD[i])
			}
		}
	}
	hd.lit(2, p.log2parts)
	hd.lit(7, p.baseQ)
	for i := 0; i < 5; i++ {
		hd.optSigned(4, p.qdP[i], p.qd[i])
	}
	hd.flag(r.Bool()) // refresh_entropy_probs
	probs := coeffs0
	for t := 0; t < 4; t++ {
		for b := 0; b < 8; b++ {
			for c := 0; c < 3; c++ {
				for k := 0; k < 11; k++ {
					upd := r.Intn(1000) < p.updRate
					hd.put(int(coeffsUpd[t][b][c][k]), upd)
					if upd {
						v := r.Pick(1+r.Intn(255), r.Range(1, 255), 128, 255, 1)
						hd.lit(8, v)
						probs[t][b][c][k] = uint8(v)
					}
				}
			}
		}
	}
	hd.flag(p.skipEn)
	if p.skipEn {
		hd.lit(8, p.skipProb)
	}
	segProbs := [3]int{255, 255, 255}
	if p.segEnabled && p.segUpdMap {
		for i := 0; i < 3; i++ {
			if p.segProbP[i] {
				segProbs[i] = p.segProb[i]
			}
		}
	}

	mbw, mbh := (p.W+15)/16, (p.H+15)/16
	nparts := 1 << uint(p.log2parts)
	parts := make([]*boolEnc, nparts)
	for i := range parts {
		parts[i] = newBoolEnc()
	}
	aboveB := make([][4]int, mbw) // B_DC = 0 initially
	aboveNz := make([]nzCtx, mbw)
	cats := map[string]bool{}
	for my := 0; my < mbh; my++ {
		tk := parts[my&(nparts-1)]
		var leftB [4]int
		var leftNz nzCtx
		for mx := 0; mx < mbw; mx++ {
			// segment id
			seg := 0
			if p.segEnabled && p.segUpdMap {
				s := r.Intn(4)
				seg = s
				hd.put(segProbs[0], s >= 2)
				if s < 2 {
					hd.put(segProbs[1], s == 1)
				} else {
					hd.put(segProbs[2], s == 3)
				}
			}
			// modes and coefficients are drawn first: the skip flag depends on them
			is4 := false
			switch p.modeMix {
			case 0:
				is4 = r.Intn(5) == 0
			case 1:
				is4 = r.Intn(5) != 0
			default:
				is4 = r.Bool()
			}
			first := 1
			if is4 {
				first = 0
			}
			density := r.Pick(5, 30, 70, 100)
			type blk struct {
				c   [16]int
				eob int
			}
			var y2 blk
			var yb [16]blk
			var ub, vb [4]blk
			empty := r.Intn(4) == 0 || (p.allowZeroMB && r.Bool())
			any := false
			if !empty {
				if !is4 {
					y2.c, y2.eob = randBlock(r, 0, p.coefScale, density)
					any = any || y2.eob > 0
				}
				for i := range yb {
					yb[i].c, yb[i].eob = randBlock(r, first, p.coefScale, density)
					any = any || yb[i].eob > first
				}
				for i := range ub {
					ub[i].c, ub[i].eob = randBlock(r, 0, p.coefScale, density)
					vb[i].c, vb[i].eob = randBlock(r, 0, p.coefScale, density)
					any = any || ub[i].eob > 0 || vb[i].eob > 0
				}
			} else {
				for i := range yb {
					yb[i].eob = first
				}
			}
			skip := false
			if p.skipEn {
				skip = !any && r.Intn(4) != 0
			}
			if !any && !skip && !is4 && !p.allowZeroMB {
				// plain plans: a 16x16 macroblock without the skip flag carries data
				y2.c[0], y2.eob = randCoef(r, p.coefScale), 1
				any = true
			}
			if !any && !skip && !is4 {
				cats["zero-mb-without-skip-flag"] = true
			}
			if p.skipEn {
				hd.put(p.skipProb, skip)
			}
			// luma mode
			hd.put(145, !is4)
			if !is4 {
				ym := r.Intn(4) // 0 DC, 1 TM, 2 V, 3 H
				// kf_ymode_tree: 156 -> {163 -> DC / V} | {128 -> H / TM}
				hd.put(156, ym == 1 || ym == 3)
				if ym == 0 || ym == 2 {
					hd.put(163, ym == 2)
				} else {
					hd.put(128, ym == 1)
				}
				bm := [4]int{0, 1, 2, 3}[ym] // B_DC, B_TM, B_VE, B_HE
				for i := 0; i < 4; i++ {
					aboveB[mx][i] = bm
					leftB[i] = bm
				}
			} else {
				for y := 0; y < 4; y++ {
					l := leftB[y]
					for x := 0; x < 4; x++ {
						m := r.Intn(10)
						pr := bmodeProbs[aboveB[mx][x]][l]
						for _, tb := range bmodeCode[m] {
							hd.put(int(pr[tb.p]), tb.b)
						}
						aboveB[mx][x] = m
						l = m
					}
					leftB[y] = l
				}
			}
			// chroma mode: 142 -> DC | 114 -> V | 183 -> H / TM
			uvm := r.Intn(4) // 0 DC, 1 TM, 2 V, 3 H
			hd.put(142, uvm != 0)
			if uvm != 0 {
				hd.put(114, uvm != 2)
				if uvm != 2 {
					hd.put(183, uvm == 1)
				}
			}
			// tokens
			a := &aboveNz[mx]
			if skip {
				a.y, a.u, a.v = [4]int{}, [2]int{}, [2]int{}
				leftNz.y, leftNz.u, leftNz.v = [4]int{}, [2]int{}, [2]int{}
				if !is4 {
					a.y2, leftNz.y2 = 0, 0
				}
				continue
			}
			// domain check: every value the RFC's dequantisation and inverse transforms store in 16 bits fits
			for _, f := range p.dequants(seg) {
				var dcs [16]int
				if !is4 {
					raster, w := dequantRaster(&y2.c, f.y2dc, f.y2ac)
					var w2 bool
					dcs, w2 = WideWHT(raster)
					p.Wide = p.Wide || w || w2
				}
				for i := range yb {
					raster, w := dequantRaster(&yb[i].c, f.y1dc, f.y1ac)
					if !is4 {
						raster[0] = dcs[i]
					}
					p.Wide = p.Wide || w || WideIDCT(raster)
				}
				for i := range ub {
					ru, wu := dequantRaster(&ub[i].c, f.uvdc, f.uvac)
					rv, wv := dequantRaster(&vb[i].c, f.uvdc, f.uvac)
					p.Wide = p.Wide || wu || wv || WideIDCT(ru) || WideIDCT(rv)
				}
			}
			ytype := 3
			if !is4 {
				putBlock(tk, &probs[1], 0, a.y2+leftNz.y2, &y2.c, y2.eob)
				f := b2i(y2.eob > 0)
				a.y2, leftNz.y2 = f, f
				ytype = 0
			}
			for y := 0; y < 4; y++ {
				for x := 0; x < 4; x++ {
					b := &yb[y*4+x]
					putBlock(tk, &probs[ytype], first, a.y[x]+leftNz.y[y], &b.c, b.eob)
					f := b2i(b.eob > first)
					a.y[x], leftNz.y[y] = f, f
					for n := first; n < b.eob; n++ {
						v := b.c[n]
						if v < 0 {
							v = -v
						}
						if v >= 67 {
							cats["cat6"] = true
						}
						if v >= 2048 {
							cats["cat6-extreme"] = true
						}
					}
				}
			}
			for ch := 0; ch < 2; ch++ {
				bl := &ub
				an, ln := &a.u, &leftNz.u
				if ch == 1 {
					bl, an, ln = &vb, &a.v, &leftNz.v
				}
				for y := 0; y < 2; y++ {
					for x := 0; x < 2; x++ {
						b := &bl[y*2+x]
						putBlock(tk, &probs[2], 0, an[x]+ln[y], &b.c, b.eob)
						f := b2i(b.eob > 0)
						an[x], ln[y] = f, f
					}
				}
			}
		}
	}
	for k := range cats {
		p.Notes = append(p.Notes, k)
	}
	part1 := hd.flush()
	var out []byte
	tagBits := 0 | p.version<<1 | 1<<4 | len(part1)<<5
	out = append(out, byte(tagBits), byte(tagBits>>8), byte(tagBits>>16))
	out = append(out, 0x9d, 0x01, 0x2a)
	xs, ys := r.Intn(4), r.Intn(4)
	out = append(out, byte(p.W), byte(p.W>>8)|byte(xs<<6), byte(p.H), byte(p.H>>8)|byte(ys<<6))
	out = append(out, part1...)
	bufs := make([][]byte, nparts)
	for i := range parts {
		bufs[i] = parts[i].flush()
	}
	for i := 0; i < nparts-1; i++ {
		n := len(bufs[i])
		out = append(out, byte(n), byte(n>>8), byte(n>>16))
	}
	for i := range bufs {
		out = append(out, bufs[i]...)
	}
	for i := 0; i < p.padTail; i++ {
		out = append(out, byte(r.Intn(256)))
	}
	return out
}

// LogParts is log2 of the number of token partitions; Simple reports the simple loop filter.
func (p *Plan) LogParts() int { return p.log2parts }
func (p *Plan) Simple() bool  { return p.simple }

// KeyFrame draws a plan of the given class and emits it.
func KeyFrame(r *Rand, maxDim int, class string) (payload []byte, tag string, p *Plan) {
	p = RandPlan(r, maxDim, class)
	payload = p.Emit(r)
	return payload, p.Tag(), p
}
