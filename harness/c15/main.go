package main

// C15 — metadata is stored byte-exact and never affects the picture.
//
// Blobs (empty, 1 byte, odd / even, 64 KB random, bytes that look like chunk headers)
// x every subset of {ICC, EXIF, XMP} x lossy / lossless / lossy+alpha stills and
// animations of 1 and 3 frames.  Direct evaluation on the real code: read-back by chunk id
// (mux.Demuxer.GetChunk, animation.DecodeBytes fields), VP8X flags = blobs present, decoded
// pixels and embedded image/alpha bitstreams identical with and without metadata.
// Correspondence: the bytes webp.Encode writes vs the extracted writer model fed with the
// real image bitstream as an opaque blob (W / WL lines; the model line also carries the
// specification-side well-formedness verdict, the chunk lookup by id and the parser model's
// result on the written bytes), and AnimEncoder.Close's output selection (A lines).

import (
	"bytes"
	"encoding/binary"
	"fmt"
	"image"
	"image/color"
	"time"

	webp "github.com/deepteams/webp"
	"github.com/deepteams/webp/animation"
	"github.com/deepteams/webp/mux"

	. "verifharness/hlib"
)

type blob struct {
	Name string
	Data []byte // nil = not given
}

func c15Blobs(rng *Rand) []blob {
	big := rng.Bytes(65536)
	bigOdd := rng.Bytes(65537)
	return []blob{
		{"nil", nil},
		{"empty", []byte{}},
		{"1byte", []byte{0x5a}},
		{"odd", []byte("odd-sized-blob!")},
		{"even", []byte("even-sized-blob!")},
		{"chunklike", []byte("VP8 \x10\x00\x00\x00\x00\x00\x00\x9d\x01\x2a\x01\x00\x01\x00ALPH\x04\x00\x00\x00")},
		{"riff", []byte("RIFF")},
		{"riff-full", []byte("RIFF\x1a\x00\x00\x00WEBPVP8L\x0d\x00\x00\x00\x2f\x00\x00\x00\x10")},
		{"64k", big},
		{"64k+1", bigOdd},
	}
}

func getChunk(d *mux.Demuxer, id uint32) string {
	b, err := d.GetChunk(id)
	if err != nil {
		return "-"
	}
	return fnvs(b)
}

func wantChunk(b []byte, nonNilMeansPresent bool) string {
	if b == nil || (len(b) == 0 && !nonNilMeansPresent) {
		return "-"
	}
	return fnvs(b)
}

type stillKind struct {
	Name     string
	Lossless bool
	Alpha    int
}

// c15Shaped: metadata blobs with the shapes real producers write (a reader that "normalises" one of them
// -- strips an identifier, a BOM, trailing NULs, trusts an embedded size field -- no longer returns the
// blob byte for byte), blobs that look like container structure, and degenerate ones.
func c15Shaped() []blob {
	tiffII := []byte("II*\x00\x08\x00\x00\x00\x01\x00\x12\x01\x03\x00\x01\x00\x00\x00\x06\x00\x00\x00\x00\x00\x00\x00")
	tiffMM := []byte("MM\x00*\x00\x00\x00\x08\x00\x01\x01\x12\x00\x03\x00\x00\x00\x01\x00\x06\x00\x00\x00\x00\x00\x00")
	icc := func(declared int, total int) []byte {
		b := make([]byte, total)
		for i := range b {
			b[i] = byte(i*7 + 1)
		}
		binary.BigEndian.PutUint32(b[0:], uint32(declared))
		copy(b[4:], "lcms")
		copy(b[12:], "mntrRGB XYZ ")
		copy(b[36:], "acsp")
		return b
	}
	xmpBody := `<x:xmpmeta xmlns:x="adobe:ns:meta/"><rdf:RDF xmlns:rdf="http://www.w3.org/1999/02/22-rdf-syntax-ns#"/></x:xmpmeta>`
	return []blob{
		{"exif-app1-II", append([]byte("Exif\x00\x00"), tiffII...)},
		{"exif-app1-MM", append([]byte("Exif\x00\x00"), tiffMM...)},
		{"exif-tiff-II", tiffII},
		{"exif-tiff-MM", tiffMM},
		{"exif-app1-twice", append([]byte("Exif\x00\x00Exif\x00\x00"), tiffII...)},
		{"exif-id-only+1", []byte("Exif\x00\x00\x2a")},
		{"xmp-xpacket", []byte("<?xpacket begin=\"\xef\xbb\xbf\" id=\"W5M0MpCehiHzreSzNTczkc9d\"?>" + xmpBody + "<?xpacket end=\"w\"?>")},
		{"xmp-xmpmeta", []byte(xmpBody)},
		{"xmp-bom-ws", []byte("\xef\xbb\xbf \n\t" + xmpBody)},
		{"xmp-trailing-nul", []byte(xmpBody + "\x00\x00\x00")},
		{"xmp-app1-id", []byte("http://ns.adobe.com/xap/1.0/\x00" + xmpBody)},
		{"icc-128-size-eq", icc(128, 128)},
		{"icc-size-larger", icc(4096, 160)},
		{"icc-size-smaller", icc(128, 161)},
		{"fourcc-vp8", []byte("VP8 \x04\x00\x00\x00abcd")},
		{"fourcc-alph", []byte("ALPH\x01\x00\x00\x00\x00")},
		{"fourcc-exif", []byte("EXIF\x02\x00\x00\x00zz")},
		{"fourcc-anmf", []byte("ANMF\x10\x00\x00\x00\x00\x00\x00\x00\x00\x00\x00\x00\x00\x00\x00\x00\x00\x00\x00\x00")},
		{"zeros-1", []byte{0}},
		{"zeros-7", make([]byte, 7)},
		{"zeros-128", make([]byte, 128)},
		{"ff-5", []byte{0xff, 0xff, 0xff, 0xff, 0xff}},
	}
}

// c15Still evaluates one (image, options, metadata triple).
func c15Still(c *Ctx, k stillKind, img image.Image, base *webp.EncoderOptions, icc, exif, xmp blob, ref *stillRef) {
	c.D.Evaluations++
	o := *base
	o.ICC, o.EXIF, o.XMP = icc.Data, exif.Data, xmp.Data
	name := fmt.Sprintf("%s|icc=%s|exif=%s|xmp=%s", k.Name, icc.Name, exif.Name, xmp.Name)
	replay := map[string]any{"kind": k.Name, "icc": icc.Name, "exif": exif.Name, "xmp": xmp.Name, "w": img.Bounds().Dx(), "h": img.Bounds().Dy(), "quality": o.Quality, "exact": o.Exact, "source": fmt.Sprintf("%T", img)}
	data, err := encodeFile(img, &o)
	if err != nil {
		c.Violate("encode-with-metadata-fails", "Encode failed: "+err.Error(), replay)
		return
	}
	bs, alpha, fourcc, err := webp.VerifRiffEncodeParts(img, &o)
	if err != nil {
		c.Violate("encode-with-metadata-fails", "encoder parts failed: "+err.Error(), replay)
		return
	}
	w, h := img.Bounds().Dx(), img.Bounds().Dy()
	// correspondence line
	pl, p := safeParse(data)
	d, derr := mux.NewDemuxer(data)
	chunks := "icc=E exif=E xmp=E"
	if derr == nil {
		chunks = fmt.Sprintf("icc=%s exif=%s xmp=%s", getChunk(d, mux.FourCCICCP), getChunk(d, mux.FourCCEXIF), getChunk(d, mux.FourCCXMP))
	}
	impl := fmt.Sprintf("out=%s wf=1 %s parse=%s", fnvs(data), chunks, pl)
	if k.Lossless {
		c.Case(fmt.Sprintf("WL %d %d %s %s %s %s %s", w, h, hx(bs), hx(icc.Data), hx(exif.Data), hx(xmp.Data), hx(data)), impl)
	} else {
		c.Case(fmt.Sprintf("W %d %d %d %s %s %s %s %s %s", fourcc, w, h, hx(bs), hx(alpha), hx(icc.Data), hx(exif.Data), hx(xmp.Data), hx(data)), impl)
	}
	c.Count("still:" + k.Name)
	nmeta := 0
	for _, b := range []blob{icc, exif, xmp} {
		if len(b.Data) > 0 {
			nmeta++
		}
	}
	c.Count(fmt.Sprintf("nonempty-blobs:%d", nmeta))
	c.Nontrivial(name + fmt.Sprintf("|parity=%d%d%d|bs=%d|alpha=%d", len(icc.Data)&1, len(exif.Data)&1, len(xmp.Data)&1, len(bs)&1, len(alpha)&1))
	c.Sample(map[string]any{"case": name, "bytes": len(data)})
	// direct evaluation
	if derr != nil || p.ErrClass != 0 {
		c.Violate("written-file-rejected", "demuxer or parser rejects the file Encode wrote", replay)
		return
	}
	for _, q := range []struct {
		n  string
		id uint32
		b  []byte
		fl bool
	}{{"ICCP", mux.FourCCICCP, icc.Data, d.GetFeatures().HasICC}, {"EXIF", mux.FourCCEXIF, exif.Data, d.GetFeatures().HasEXIF}, {"XMP", mux.FourCCXMP, xmp.Data, d.GetFeatures().HasXMP}} {
		got, gerr := d.GetChunk(q.id)
		if len(q.b) > 0 {
			if gerr != nil || !bytes.Equal(got, q.b) {
				c.Violate("metadata-not-byte-exact", q.n+" read back by chunk id differs from the blob given to Encode", replay)
			}
		} else if gerr == nil {
			c.Violate("metadata-chunk-for-empty-blob", q.n+" chunk present although no (or an empty) blob was given", replay)
		}
		if q.fl != (len(q.b) > 0) {
			c.Violate("vp8x-flag-not-exact", q.n+" flag does not announce exactly the blob present", replay)
		}
	}
	for _, ck := range p.Chunks { // container parser accessor: chunks collected before the image chunk (ICCP)
		if ck.FourCC == mux.FourCCICCP && !bytes.Equal(ck.Data, icc.Data) {
			c.Violate("metadata-not-byte-exact", "ICCP chunk held by the container parser differs from the blob given to Encode", replay)
		}
	}
	if p.Format == 3 && (p.HasICCP != (len(icc.Data) > 0) || p.HasEXIF != (len(exif.Data) > 0) || p.HasXMP != (len(xmp.Data) > 0)) {
		c.Violate("vp8x-flag-not-exact", "container parser sees flags that do not match the blobs", replay)
	}
	if a, err := animation.DecodeBytes(data); err != nil {
		c.Violate("written-file-rejected", "animation.DecodeBytes rejects the file", replay)
	} else if wantChunk(icc.Data, false) != wantChunk(a.ICC, true) || wantChunk(exif.Data, false) != wantChunk(a.EXIF, true) || wantChunk(xmp.Data, false) != wantChunk(a.XMP, true) {
		c.Violate("metadata-not-byte-exact", "animation.DecodeBytes ICC/EXIF/XMP fields differ from the blobs", replay)
	}
	// irrelevance: image / alpha bitstream and pixels equal the no-metadata reference
	if len(p.Frames) != 1 {
		c.Violate("written-file-rejected", "not exactly one frame", replay)
		return
	}
	fr := p.Frames[0]
	img2, derr2 := webp.Decode(bytes.NewReader(data))
	if derr2 != nil {
		c.Violate("written-file-rejected", "Decode rejects the file Encode wrote", replay)
		return
	}
	cur := stillRef{fnvs(fr.Payload), fnvs(fr.Alpha), pixelDigest(img2), fnvs(bs), fnvs(alpha)}
	if ref.Payload == "" {
		*ref = cur
	} else if cur != *ref {
		c.Violate("metadata-changes-picture", fmt.Sprintf("image/alpha bitstream or decoded pixels differ from the encoding without metadata: %+v vs %+v", cur, *ref), replay)
	}
	if cur.Payload != cur.EncBS || (len(alpha) > 0 && cur.Alpha != cur.EncAlpha) {
		c.Violate("embedded-bitstream-differs", "the image chunk does not hold the encoder's bitstream byte for byte", replay)
	}
}

type stillRef struct{ Payload, Alpha, Pixels, EncBS, EncAlpha string }

func c15Anim(c *Ctx, rng *Rand, lossless bool, nframes int, w, h int, icc, exif, xmp blob, refs map[string]string) {
	c.D.Evaluations++
	name := fmt.Sprintf("anim%d-lossless=%v|icc=%s|exif=%s|xmp=%s", nframes, lossless, icc.Name, exif.Name, xmp.Name)
	replay := map[string]any{"frames": nframes, "lossless": lossless, "icc": icc.Name, "exif": exif.Name, "xmp": xmp.Name, "w": w, "h": h}
	var out bytes.Buffer
	enc := animation.NewEncoder(&out, w, h, &animation.EncodeOptions{Lossless: lossless, Quality: 80, LoopCount: 3})
	if enc == nil {
		c.Violate("encode-with-metadata-fails", "NewEncoder returned nil", replay)
		return
	}
	if icc.Data != nil {
		enc.SetICCProfile(icc.Data)
	}
	if exif.Data != nil {
		enc.SetEXIF(exif.Data)
	}
	if xmp.Data != nil {
		enc.SetXMP(xmp.Data)
	}
	frng := NewRand(uint64(w*1000 + h*10 + nframes)) // same frames for every metadata choice
	for i := 0; i < nframes; i++ {
		im := testImage(frng, w, h, 0, 10+40*i)
		if err := enc.AddFrame(im, 50*time.Millisecond); err != nil {
			c.Violate("encode-with-metadata-fails", "AddFrame: "+err.Error(), replay)
			return
		}
	}
	animData, simpleData, simpleOK, fc, hasPrev, hasMeta, cerr := enc.VerifCloseCandidates()
	if err := enc.Close(); err != nil || cerr != nil {
		c.Violate("encode-with-metadata-fails", "Close failed", replay)
		return
	}
	data := out.Bytes()
	simple := "none"
	if simpleOK {
		simple = hx(simpleData)
	}
	c.Case(fmt.Sprintf("A %d %s %s %s %s", fc, b01(hasPrev), b01(hasMeta), hx(animData), simple), fnvs(data))
	c.Count(fmt.Sprintf("anim:%dframes-lossless=%v", nframes, lossless))
	c.Nontrivial(name)
	d, err := mux.NewDemuxer(data)
	a, err2 := animation.DecodeBytes(data)
	if err != nil || err2 != nil {
		c.Violate("written-file-rejected", "demuxer rejects the animation encoder's output", replay)
		return
	}
	// the other readers of this module must accept the file as well (container.Parser behind GetFeatures /
	// DecodeConfig / Decode checks the RIFF size against the data, the demuxer is more lenient)
	if _, ferr := webp.GetFeatures(bytes.NewReader(data)); ferr != nil {
		c.Violate("written-file-rejected", "GetFeatures rejects the animation encoder's output ("+ferr.Error()+")", replay)
	}
	if _, cerr2 := webp.DecodeConfig(bytes.NewReader(data)); cerr2 != nil {
		c.Violate("written-file-rejected", "DecodeConfig rejects the animation encoder's output ("+cerr2.Error()+")", replay)
	}
	if _, derr3 := webp.Decode(bytes.NewReader(data)); derr3 != nil {
		c.Violate("written-file-rejected", "Decode rejects the animation encoder's output ("+derr3.Error()+")", replay)
	}
	pl, pp := safeParse(data)
	for _, ck := range pp.Chunks { // container parser accessor: metadata chunks of an animated file
		for _, q := range []struct {
			id uint32
			b  []byte
			n  string
		}{{mux.FourCCICCP, icc.Data, "ICCP"}, {mux.FourCCEXIF, exif.Data, "EXIF"}, {mux.FourCCXMP, xmp.Data, "XMP"}} {
			if ck.FourCC == q.id && !bytes.Equal(ck.Data, q.b) {
				c.Violate("metadata-not-byte-exact", q.n+" chunk held by the container parser differs from the blob set on the animation encoder", replay)
			}
		}
	}
	if pp.ErrClass != 0 {
		c.Violate("written-file-rejected", "container.Parser rejects the animation encoder's output: "+pl, replay)
	} else if binary.LittleEndian.Uint32(data[4:8]) != uint32(len(data)-8) || len(data)%2 != 0 {
		c.Count("note:anim-output-riff-size-field-differs-from-length") // every reader accepts: not a C15 matter, counted only
	}
	// the muxer path treats a non-nil blob (even empty) as present
	for _, q := range []struct {
		n   string
		id  uint32
		b   []byte
		got []byte
		fl  bool
	}{{"ICCP", mux.FourCCICCP, icc.Data, a.ICC, d.GetFeatures().HasICC}, {"EXIF", mux.FourCCEXIF, exif.Data, a.EXIF, d.GetFeatures().HasEXIF}, {"XMP", mux.FourCCXMP, xmp.Data, a.XMP, d.GetFeatures().HasXMP}} {
		got, gerr := d.GetChunk(q.id)
		if q.b != nil {
			if gerr != nil || !bytes.Equal(got, q.b) || !bytes.Equal(q.got, q.b) {
				key := "metadata-not-byte-exact"
				if nframes == 1 && gerr != nil {
					key = "anim-single-frame-drops-metadata"
				}
				c.Violate(key, q.n+" set on the animation encoder cannot be read back from its output", replay)
			}
			if !q.fl && d.GetFeatures().Format == mux.FormatExtended {
				c.Violate("vp8x-flag-not-exact", q.n+" flag clear although the blob was set", replay)
			}
		} else {
			if gerr == nil {
				c.Violate("metadata-chunk-for-empty-blob", q.n+" chunk present although no blob was set", replay)
			}
			if q.fl {
				c.Violate("vp8x-flag-not-exact", q.n+" flag set although no blob was set", replay)
			}
		}
	}
	// irrelevance among outputs of the same container kind: frame bitstreams identical
	var sb bytes.Buffer
	for i := range a.Frames {
		fmt.Fprintf(&sb, "%s/%s/%d,%d;", fnvs(a.Frames[i].BitstreamData), fnvs(a.Frames[i].AlphaData), a.Frames[i].OffsetX, a.Frames[i].OffsetY)
	}
	kind := fmt.Sprintf("%v-%d-%d-anim=%v", lossless, nframes, w, d.GetFeatures().HasAnimation)
	if prev, ok := refs[kind]; !ok {
		refs[kind] = sb.String()
	} else if prev != sb.String() {
		c.Violate("metadata-changes-picture", "frame bitstreams of the animation differ when only the metadata differs", replay)
	}
	// and the first frame's pixels whatever the container kind (lossless frames are exact)
	if lossless {
		if img, err := webp.Decode(bytes.NewReader(data)); err == nil {
			pk := fmt.Sprintf("px-%d-%d", nframes, w)
			dg := nrgbaDigest(img)
			if prev, ok := refs[pk]; !ok {
				refs[pk] = dg
			} else if prev != dg {
				c.Violate("metadata-changes-picture", "first frame pixels differ when only the metadata differs", replay)
			}
		}
	}
}

// c15Boundary: the 100 MB metadata cap (validateConfig's maxEncoderMetadataSize on the way in,
// container.MaxMetadataSize on the way back).  Direct evaluation only (a 100 MB file is not run through
// the extracted model): whatever Encode accepts must be read back byte for byte by the demuxer and be
// accepted by GetFeatures / the container parser; a refusal must not leave partial output.
func c15Boundary(c *Ctx, lossless bool, which string, n int) {
	c.D.Evaluations++
	img := image.NewNRGBA(image.Rect(0, 0, 4, 3))
	for i := range img.Pix {
		img.Pix[i] = byte(40 + i*5)
		if i%4 == 3 {
			img.Pix[i] = 255
		}
	}
	o := webp.DefaultOptions()
	o.Lossless = lossless
	b := make([]byte, n)
	for i := 0; i < n; i += 4093 {
		b[i] = byte(i>>3) | 1
	}
	b[n-1] = 0xA5
	var id uint32
	switch which {
	case "ICC":
		o.ICC, id = b, mux.FourCCICCP
	case "EXIF":
		o.EXIF, id = b, mux.FourCCEXIF
	default:
		o.XMP, id = b, mux.FourCCXMP
	}
	replay := map[string]any{"kind": "metadata-size-boundary", "field": which, "len": n, "lossless": lossless}
	var out bytes.Buffer
	err := webp.Encode(&out, img, o)
	tag := fmt.Sprintf("boundary:%s:len=100MB%+d:lossless=%v", which, n-100*1024*1024, lossless)
	if err != nil {
		c.Count(tag + ":refused")
		if out.Len() != 0 {
			c.Count(tag + ":refused-but-wrote-output") // not part of the property (nothing was stored): counted only
		}
		return
	}
	c.Count(tag + ":accepted")
	c.Nontrivial(tag)
	data := out.Bytes()
	d, derr := mux.NewDemuxer(data)
	if derr != nil {
		c.Violate("written-file-rejected", "demuxer rejects the file Encode wrote ("+derr.Error()+")", replay)
		return
	}
	if got, gerr := d.GetChunk(id); gerr != nil || !bytes.Equal(got, b) {
		c.Violate("metadata-not-byte-exact", which+" of boundary size read back by chunk id differs from the blob given to Encode", replay)
	}
	if _, ferr := webp.GetFeatures(bytes.NewReader(data)); ferr != nil {
		c.Violate("written-file-rejected", "GetFeatures rejects the file Encode wrote ("+ferr.Error()+")", replay)
	}
	if _, derr2 := webp.Decode(bytes.NewReader(data)); derr2 != nil {
		c.Violate("written-file-rejected", "Decode rejects the file Encode wrote ("+derr2.Error()+")", replay)
	}
}

func nrgbaDigest(img image.Image) string {
	b := img.Bounds()
	n := image.NewNRGBA(image.Rect(0, 0, b.Dx(), b.Dy()))
	for y := 0; y < b.Dy(); y++ {
		for x := 0; x < b.Dx(); x++ {
			n.Set(x, y, img.At(b.Min.X+x, b.Min.Y+y))
		}
	}
	return fnvs(n.Pix)
}

type c15Source struct {
	name string
	img  image.Image
}

// opaque wrapper: hides the concrete type so that the encoders take their generic At() path
type c15Wrap struct{ image.Image }

// c15Sources: the same kind of picture (translucent and fully transparent pixels that still carry colour)
// as NRGBA, premultiplied RGBA (incl. pixels like {0,7,0,7}), a sub-image, Gray, Paletted and a generic wrapper.
func c15Sources(rng *Rand, w, h int) []c15Source {
	n := image.NewNRGBA(image.Rect(0, 0, w, h))
	r := image.NewRGBA(image.Rect(0, 0, w, h))
	g := image.NewGray(image.Rect(0, 0, w, h))
	pal := color.Palette{color.NRGBA{0, 0, 0, 0}, color.NRGBA{255, 0, 0, 255}, color.NRGBA{10, 200, 30, 128}, color.NRGBA{90, 90, 255, 7}, color.NRGBA{200, 100, 50, 0}}
	pi := image.NewPaletted(image.Rect(0, 0, w, h), pal)
	alphas := []uint8{255, 0, 7, 128, 254, 1, 200}
	for y := 0; y < h; y++ {
		for x := 0; x < w; x++ {
			a := alphas[(x+2*y)%len(alphas)]
			cr, cg, cb := uint8(30+x*31), uint8(200-y*17), uint8(rng.Intn(256))
			n.SetNRGBA(x, y, color.NRGBA{cr, cg, cb, a}) // alpha 0 pixels keep their colour (Exact)
			// premultiplied: channel <= alpha; includes {0,a,0,a}-like values
			pr, pg, pb := uint8(int(cr)*int(a)/255), uint8(a), uint8(0)
			if (x+y)%3 == 0 {
				pr, pg, pb = 0, a, 0
			}
			r.SetRGBA(x, y, color.RGBA{pr, pg, pb, a})
			g.SetGray(x, y, color.Gray{uint8(x*40 + y*3)})
			pi.SetColorIndex(x, y, uint8((x+3*y)%len(pal)))
		}
	}
	r.SetRGBA(0, 0, color.RGBA{0, 7, 0, 7})
	r.SetRGBA(1, 0, color.RGBA{5, 2, 4, 6})
	big := image.NewNRGBA(image.Rect(0, 0, w+4, h+3))
	for i := range big.Pix {
		big.Pix[i] = byte(rng.U64())
	}
	sub := big.SubImage(image.Rect(2, 1, 2+w, 1+h))
	// picture types without a fast path in the encoders, with bounds that do not start at (0,0): SubImage
	// results whose surroundings differ from their content, so an import that forgets Bounds().Min shows
	subRect := image.Rect(2, 1, 2+w, 1+h)
	bigR := image.Rect(0, 0, w+4, h+3)
	bg := image.NewGray(bigR)
	bg16 := image.NewGray16(bigR)
	bp := image.NewPaletted(bigR, pal)
	b64 := image.NewNRGBA64(bigR)
	brgba := image.NewRGBA(bigR)
	by := image.NewYCbCr(bigR, image.YCbCrSubsampleRatio444)
	for y := 0; y < h+3; y++ {
		for x := 0; x < w+4; x++ {
			v := uint8(17 + x*29 + y*53)
			bg.SetGray(x, y, color.Gray{v})
			bg16.SetGray16(x, y, color.Gray16{uint16(v)<<8 | uint16(x)})
			bp.SetColorIndex(x, y, uint8((2*x+3*y+1)%len(pal)))
			a := alphas[(x+3*y)%len(alphas)]
			b64.SetNRGBA64(x, y, color.NRGBA64{uint16(v) << 8, uint16(x*4000 + 77), uint16(y * 5000), uint16(a)<<8 | uint16(a)})
			brgba.SetRGBA(x, y, color.RGBA{uint8(int(v) * int(a) / 255), uint8(int(x*20) * int(a) / 255), 0, a})
			by.Y[by.YOffset(x, y)] = v
			by.Cb[by.COffset(x, y)] = uint8(90 + 7*x)
			by.Cr[by.COffset(x, y)] = uint8(160 - 9*y)
		}
	}
	return []c15Source{{"nrgba", n}, {"rgba-premul", r}, {"nrgba-subimage", sub}, {"gray", g}, {"paletted", pi},
		{"wrapped-nrgba", c15Wrap{n}}, {"wrapped-rgba", c15Wrap{r}},
		{"gray-subimage", bg.SubImage(subRect)}, {"gray16-subimage", bg16.SubImage(subRect)},
		{"paletted-subimage", bp.SubImage(subRect)}, {"nrgba64-subimage", b64.SubImage(subRect)},
		{"rgba-subimage", brgba.SubImage(subRect)}, {"ycbcr-subimage", by.SubImage(subRect)},
		{"wrapped-nrgba-subimage", c15Wrap{sub}}}
}

func main() {
	Main("c15", func(c *Ctx) {
		c.D.Rule = "blobs {nil, empty, 1 byte, odd, even, chunk-header look-alikes, \"RIFF\", 64 KB, 64 KB+1} and shaped blobs {EXIF with/without the APP1 identifier, II/MM TIFF headers; XMP xpacket / xmpmeta / BOM+whitespace / trailing NULs / APP1 namespace id; ICC headers with acsp and size field equal, larger, smaller than the length; blobs starting with VP8 /ALPH/EXIF/ANMF chunk headers; all-zero and all-0xFF blobs} for ICC x EXIF x XMP (all 8 presence subsets with every blob in each position, plus random triples) x stills {lossy, lossless, lossy+alpha raw/compressed} and animations {1, 3 frames x lossless/lossy}; non-trivial = distinct (kind, blob triple, parities of all chunk payloads)"
		c.D.Notes = append(c.D.Notes,
			"correspondence: bytes written by webp.Encode vs WriterModel.write_riff / encode_lossless_container applied to the encoder's real bitstream (opaque blob); the model line also carries ParserSpec.riff_wf, spec_get_chunk for the three ids and ParserModel.parse of the written bytes, compared with mux.Demuxer.GetChunk and container.NewParser on the Go bytes; AnimEncoder.Close's selection vs WriterModel.anim_close on the two real candidate files",
			"the 100 MB metadata cap: Encode with a blob of exactly 100 MB and of 100 MB + 1 byte is evaluated directly (accepted => read back byte for byte and accepted by GetFeatures/Decode; refused => no output); these files are not run through the extracted model")
		rng := c.Rng.Fork()
		blobs := c15Blobs(rng)
		small := blobs[:8]
		shaped := c15Shaped()
		kinds := []stillKind{{"lossy", false, 0}, {"lossless", true, 0}, {"lossy-alpha-raw", false, 2}, {"lossy-alpha-vp8l", false, 1}, {"lossless-alpha", true, 2}}
		dims := [][2]int{{8, 8}, {13, 9}}
		if c.Thorough() {
			dims = append(dims, [2]int{40, 30}, [2]int{1, 1})
		}
		for di, d := range dims {
			for ki, k := range kinds {
				img := testImage(rng, d[0], d[1], k.Alpha, 30)
				o := webp.DefaultOptions()
				o.Lossless = k.Lossless
				o.Quality = float32(rng.Pick(40, 75, 90))
				if k.Name == "lossy-alpha-raw" {
					o.AlphaCompression = 0
				}
				var ref stillRef
				nilb := blobs[0]
				c15Still(c, k, img, o, nilb, nilb, nilb, &ref) // reference without metadata
				// every blob in every single position; all 8 subsets with small blobs
				for _, b := range blobs[1:] {
					if len(b.Data) > 60000 && (ki+d[0])%2 == 1 && !c.Thorough() {
						continue
					}
					c15Still(c, k, img, o, b, nilb, nilb, &ref)
					c15Still(c, k, img, o, nilb, b, nilb, &ref)
					c15Still(c, k, img, o, nilb, nilb, b, &ref)
				}
				// realistic / structure-like / degenerate shapes, each in each position (every kind on the first size)
				if di == 0 || c.Thorough() {
					for _, b := range shaped {
						c15Still(c, k, img, o, b, nilb, nilb, &ref)
						c15Still(c, k, img, o, nilb, b, nilb, &ref)
						c15Still(c, k, img, o, nilb, nilb, b, &ref)
					}
					c15Still(c, k, img, o, shaped[11], shaped[0], shaped[6], &ref)
				}
				for mask := 1; mask < 8; mask++ {
					pick := func(bit int, alt int) blob {
						if mask&bit != 0 {
							return small[2+(alt+mask+ki)%6]
						}
						return small[(alt+mask)%2] // nil or empty: both mean absent
					}
					c15Still(c, k, img, o, pick(1, 0), pick(2, 1), pick(4, 2), &ref)
				}
				n := 25
				if c.Thorough() {
					n = 400
				}
				for i := 0; i < n; i++ {
					r := rng.Fork()
					c15Still(c, k, img, o, small[r.Intn(len(small))], small[r.Intn(len(small))], small[r.Intn(len(small))], &ref)
				}
				// 64 KB in all three positions at once (odd + even)
				if ki == 0 || c.Thorough() {
					c15Still(c, k, img, o, blobs[8], blobs[9], blobs[8], &ref)
				}
			}
		}
		// source image types x Exact: the metadata (buffered) and no-metadata (streaming) paths must embed the
		// same bitstream and decode to the same pixels whatever the concrete type of the source picture is
		{
			// option sweep: metadata switches Encode to its buffered code paths, which must make the
			// same choices as the streaming ones for EVERY option value (fractional qualities included)
			{
				nilb := blobs[0]
				for _, lossless := range []bool{true, false} {
					for qi, q := range []float32{0, 9.5, 24.5, 25.5, 49.5, 74.5, 75.5, 89.5, 99.5, 100, float32(rng.Intn(1000)) / 10} {
						o := webp.DefaultOptions()
						o.Lossless = lossless
						o.Quality = q
						o.Method = []int{0, 2, 3, 4, 6}[(qi+b2iC15(lossless))%5]
						o.Exact = qi%2 == 0
						img := testImage(rng, 13, 9, 2*b2iC15(qi%3 == 0), 30)
						k := stillKind{fmt.Sprintf("optsweep-lossless=%v-q=%v-m=%d", lossless, q, o.Method), lossless, 0}
						var ref stillRef
						c15Still(c, k, img, o, nilb, nilb, nilb, &ref)
						c15Still(c, k, img, o, nilb, small[4], nilb, &ref)
						c15Still(c, k, img, o, small[2], nilb, small[3], &ref)
						c.Count("stream:option-sweep")
					}
				}
			}
			nilb := blobs[0]
			w, h := 7, 5
			for _, src := range c15Sources(rng, w, h) {
				for _, lossless := range []bool{true, false} {
					for _, exact := range []bool{false, true} {
						o := webp.DefaultOptions()
						o.Lossless = lossless
						o.Exact = exact
						o.Quality = 80
						k := stillKind{fmt.Sprintf("src-%s-lossless=%v-exact=%v", src.name, lossless, exact), lossless, 0}
						var ref stillRef
						c15Still(c, k, src.img, o, nilb, nilb, nilb, &ref)
						for _, tr := range [][3]int{{3, 0, 0}, {0, 4, 0}, {0, 0, 2}, {2, 3, 4}, {6, 0, 3}} {
							c15Still(c, k, src.img, o, small[tr[0]], small[tr[1]], small[tr[2]], &ref)
						}
					}
				}
			}
		}
		// the 100 MB cap, exactly at and one byte above (direct evaluation)
		{
			const cap100 = 100 * 1024 * 1024
			c15Boundary(c, false, "ICC", cap100)
			c15Boundary(c, true, "XMP", cap100+1)
			if c.Thorough() {
				c15Boundary(c, true, "ICC", cap100)
				c15Boundary(c, false, "EXIF", cap100)
				c15Boundary(c, false, "EXIF", cap100+1)
				c15Boundary(c, false, "ICC", cap100+1)
			}
		}
		// animations
		refs := map[string]string{}
		for _, nf := range []int{1, 3} {
			for _, lossless := range []bool{true, false} {
				for _, d := range dims[:1] {
					nilb := blobs[0]
					c15Anim(c, rng, lossless, nf, d[0]*2, d[1]*2, nilb, nilb, nilb, refs)
					for _, b := range small[1:] {
						c15Anim(c, rng, lossless, nf, d[0]*2, d[1]*2, b, nilb, nilb, refs)
						c15Anim(c, rng, lossless, nf, d[0]*2, d[1]*2, nilb, b, nilb, refs)
						c15Anim(c, rng, lossless, nf, d[0]*2, d[1]*2, nilb, nilb, b, refs)
					}
					for _, b := range shaped {
						c15Anim(c, rng, lossless, nf, d[0]*2, d[1]*2, b, nilb, nilb, refs)
						c15Anim(c, rng, lossless, nf, d[0]*2, d[1]*2, nilb, b, nilb, refs)
						c15Anim(c, rng, lossless, nf, d[0]*2, d[1]*2, nilb, nilb, b, refs)
					}
					c15Anim(c, rng, lossless, nf, d[0]*2, d[1]*2, shaped[11], shaped[0], shaped[6], refs)
					for i := 0; i < 12; i++ {
						r := rng.Fork()
						c15Anim(c, rng, lossless, nf, d[0]*2, d[1]*2, small[r.Intn(len(small))], small[r.Intn(len(small))], small[r.Intn(len(small))], refs)
					}
					c15Anim(c, rng, lossless, nf, d[0]*2, d[1]*2, blobs[8], blobs[3], blobs[9], refs)
				}
			}
		}
	})
}

func b2iC15(b bool) int {
	if b {
		return 1
	}
	return 0
}
