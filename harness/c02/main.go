package main

// C02 — every successful Encode emits a conformant, self-describing WebP file.
//
// For a wide product of images x EncoderOptions: every file Encode reports as
// written is (a) walked by a Go-side RIFF walker and checked against the source
// (dimensions, alpha flag, chunk order, flags, sizes, padding), (b) decoded by
// webp.Decode, and (c) handed to the extracted specification models (RIFF grammar,
// VP8L specification decoder, ALPH model, VP8 header reader) whose verdict, header
// fields and pixels must equal what Go reports.

import (
	"bytes"
	"encoding/binary"
	"encoding/hex"
	"fmt"
	"hash/fnv"
	"image"
	"image/color"

	webp "github.com/deepteams/webp"

	. "verifharness/hlib"
)

type c02Case struct {
	W, H    int
	Content string
	Alpha   string
	Opts    webp.EncoderOptions
	Meta    string
}

func fnvHex(b []byte) string {
	h := fnv.New64a()
	h.Write(b)
	return fmt.Sprintf("%016x", h.Sum64())
}

func genImage(rng *Rand, w, h int, content, alpha int) (*image.NRGBA, bool) {
	im := image.NewNRGBA(image.Rect(0, 0, w, h))
	pal := make([]color.NRGBA, 2+rng.Intn(14))
	for i := range pal {
		pal[i] = color.NRGBA{byte(rng.U64()), byte(rng.U64()), byte(rng.U64()), 255}
	}
	transparent := false
	for y := 0; y < h; y++ {
		for x := 0; x < w; x++ {
			var c color.NRGBA
			switch content {
			case 0: // gradient
				c = color.NRGBA{byte(x * 255 / max(1, w-1)), byte(y * 255 / max(1, h-1)), byte((x + y) * 3), 255}
			case 1: // noise
				c = color.NRGBA{byte(rng.U64()), byte(rng.U64()), byte(rng.U64()), 255}
			case 2: // flat
				c = color.NRGBA{40, 180, 90, 255}
			case 3: // few colours, blocks
				c = pal[((x/3)+(y/2)*5)%len(pal)]
			default: // text-like: sharp edges
				if (x*7+y*13)%11 < 3 {
					c = color.NRGBA{0, 0, 0, 255}
				} else {
					c = color.NRGBA{250, 250, 245, 255}
				}
			}
			switch alpha {
			case 1: // binary mask
				if (x+y)%5 == 0 {
					c.A = 0
				}
			case 2: // graded
				c.A = byte((x*37 + y*91) % 256)
			case 3: // one pixel
				if x == w/2 && y == h/2 {
					c.A = 128
				}
			case 4: // only the very last pixel
				if x == w-1 && y == h-1 {
					c.A = 200
				}
			case 5: // only the very first pixel
				if x == 0 && y == 0 {
					c.A = 0
				}
			}
			if c.A != 255 {
				transparent = true
			}
			im.SetNRGBA(x, y, c)
		}
	}
	return im, transparent
}

type rchunk struct {
	id      string
	payload []byte
	odd     bool
}

// walk is the harness's own RIFF walker (independent of /repo's parsers).
func walk(f []byte) ([]rchunk, string) {
	if len(f) < 12 || string(f[0:4]) != "RIFF" || string(f[8:12]) != "WEBP" {
		return nil, "bad RIFF/WEBP magic"
	}
	if int(binary.LittleEndian.Uint32(f[4:8])) != len(f)-8 {
		return nil, fmt.Sprintf("RIFF size %d != file length - 8 = %d", binary.LittleEndian.Uint32(f[4:8]), len(f)-8)
	}
	if len(f)%2 != 0 {
		return nil, "odd file length"
	}
	var cs []rchunk
	p := 12
	for p < len(f) {
		if p+8 > len(f) {
			return nil, "truncated chunk header"
		}
		sz := int(binary.LittleEndian.Uint32(f[p+4 : p+8]))
		if p+8+sz > len(f) {
			return nil, "chunk overruns the file"
		}
		c := rchunk{id: string(f[p : p+4]), payload: f[p+8 : p+8+sz], odd: sz%2 == 1}
		p += 8 + sz
		if c.odd {
			if p >= len(f) {
				return nil, "missing padding byte"
			}
			if f[p] != 0 {
				return nil, "non-zero padding byte"
			}
			p++
		}
		cs = append(cs, c)
	}
	return cs, ""
}

// conform checks the chunk list against the container rules and the source.
func conform(cs []rchunk, w, h int, lossless, transparent bool, o *webp.EncoderOptions) string {
	if len(cs) == 0 {
		return "no chunks"
	}
	wantMeta := len(o.ICC) > 0 || len(o.EXIF) > 0 || len(o.XMP) > 0
	ids := ""
	for _, c := range cs {
		ids += c.id + ","
	}
	idx := 0
	next := func(id string) *rchunk {
		if idx < len(cs) && cs[idx].id == id {
			idx++
			return &cs[idx-1]
		}
		return nil
	}
	var flags byte
	vp8x := next("VP8X")
	if vp8x != nil {
		if len(vp8x.payload) != 10 {
			return "VP8X size != 10"
		}
		flags = vp8x.payload[0]
		if flags&0xC1 != 0 || vp8x.payload[1] != 0 || vp8x.payload[2] != 0 || vp8x.payload[3] != 0 {
			return "reserved VP8X bits set"
		}
		cw := 1 + int(vp8x.payload[4]) | int(vp8x.payload[5])<<8 | int(vp8x.payload[6])<<16
		cw = 1 + (int(vp8x.payload[4]) | int(vp8x.payload[5])<<8 | int(vp8x.payload[6])<<16)
		ch := 1 + (int(vp8x.payload[7]) | int(vp8x.payload[8])<<8 | int(vp8x.payload[9])<<16)
		if cw != w || ch != h {
			return fmt.Sprintf("VP8X canvas %dx%d != image %dx%d", cw, ch, w, h)
		}
		if flags&0x02 != 0 {
			return "animation flag on a still image"
		}
	} else if wantMeta || (!lossless && transparent) {
		return "extended features without a VP8X chunk (" + ids + ")"
	}
	icc := next("ICCP")
	if (icc != nil) != (len(o.ICC) > 0) || (vp8x != nil && (flags&0x20 != 0) != (icc != nil)) {
		return "ICCP chunk / flag / option mismatch (" + ids + ")"
	}
	if icc != nil && !bytes.Equal(icc.payload, o.ICC) {
		return "ICCP payload differs"
	}
	alph := next("ALPH")
	declaredAlpha := false
	if lossless {
		if alph != nil {
			return "ALPH chunk in a lossless file"
		}
		img := next("VP8L")
		if img == nil || len(img.payload) < 5 || img.payload[0] != 0x2f {
			return "missing/short VP8L chunk (" + ids + ")"
		}
		bits := binary.LittleEndian.Uint32(img.payload[1:5])
		if int(bits&0x3fff)+1 != w || int((bits>>14)&0x3fff)+1 != h {
			return "VP8L header dimensions differ from the source"
		}
		if bits>>29 != 0 {
			return "VP8L version != 0"
		}
		declaredAlpha = (bits>>28)&1 == 1
	} else {
		if (alph != nil) != transparent {
			return fmt.Sprintf("ALPH present=%v but source transparency=%v", alph != nil, transparent)
		}
		declaredAlpha = alph != nil
		img := next("VP8 ")
		if img == nil || len(img.payload) < 10 {
			return "missing/short VP8 chunk (" + ids + ")"
		}
		p := img.payload
		if p[0]&1 != 0 || p[3] != 0x9d || p[4] != 0x01 || p[5] != 0x2a {
			return "VP8 frame tag / start code"
		}
		if int(binary.LittleEndian.Uint16(p[6:8])) != w || int(binary.LittleEndian.Uint16(p[8:10])) != h {
			return "VP8 header dimensions (or scale bits) differ from the source"
		}
		tag := uint32(p[0]) | uint32(p[1])<<8 | uint32(p[2])<<16
		if int(tag>>5) > len(p)-10 {
			return "partition 0 longer than the chunk"
		}
		if (tag>>4)&1 != 1 || (tag>>1)&7 > 3 {
			return "VP8 show/profile bits"
		}
	}
	if vp8x != nil && (flags&0x10 != 0) != declaredAlpha {
		return fmt.Sprintf("VP8X alpha flag %v != bitstream alpha %v", flags&0x10 != 0, declaredAlpha)
	}
	if declaredAlpha != transparent {
		return fmt.Sprintf("declared alpha %v != source transparency %v", declaredAlpha, transparent)
	}
	exif := next("EXIF")
	if (exif != nil) != (len(o.EXIF) > 0) || (vp8x != nil && (flags&0x08 != 0) != (exif != nil)) {
		return "EXIF chunk / flag / option mismatch (" + ids + ")"
	}
	if exif != nil && !bytes.Equal(exif.payload, o.EXIF) {
		return "EXIF payload differs"
	}
	xmp := next("XMP ")
	if (xmp != nil) != (len(o.XMP) > 0) || (vp8x != nil && (flags&0x04 != 0) != (xmp != nil)) {
		return "XMP chunk / flag / option mismatch (" + ids + ")"
	}
	if xmp != nil && !bytes.Equal(xmp.payload, o.XMP) {
		return "XMP payload differs"
	}
	if idx != len(cs) {
		return "unexpected chunk order / extra chunks: " + ids
	}
	return ""
}

func randOpts(rng *Rand, i int) (webp.EncoderOptions, string) {
	o := *webp.DefaultOptions()
	o.Lossless = i%3 == 0
	o.Quality = float32(rng.Pick(0, 1, 10, 30, 50, 75, 90, 95, 100))
	o.Method = i % 7
	if rng.Intn(4) == 0 {
		p := webp.Preset(rng.Intn(6))
		o = *webp.OptionsForPreset(p, o.Quality)
		o.Lossless = i%3 == 0
		o.Method = i % 7
	}
	o.Exact = rng.Intn(3) == 0
	if !o.Lossless {
		o.Segments = rng.Pick(-1, 1, 2, 3, 4)
		o.Partitions = rng.Pick(0, 0, 1, 2, 3)
		o.Pass = rng.Pick(-1, 1, 2, 3, 6, 10)
		o.SNSStrength = rng.Pick(-1, 0, 50, 100)
		o.FilterStrength = rng.Pick(-1, 0, 20, 60, 100)
		o.FilterSharpness = rng.Pick(0, 0, 3, 7)
		o.FilterType = rng.Pick(-1, 0, 1)
		o.UseSharpYUV = rng.Intn(5) == 0
		o.Preprocessing = rng.Pick(0, 0, 1, 2, 3)
		switch rng.Intn(8) {
		case 0:
			o.QMin, o.QMax = 20, 60
		case 1:
			o.QMin, o.QMax = 50, 50
		case 2:
			o.TargetSize = rng.Pick(200, 800, 3000)
		case 3:
			o.TargetPSNR = float32(rng.Pick(30, 38, 45))
		}
		o.AlphaCompression = rng.Pick(-1, 0, 1)
		o.AlphaFiltering = rng.Pick(-1, 0, 1, 2)
		o.AlphaQuality = rng.Pick(-1, -1, 100, 50, 0)
	}
	meta := ""
	blob := func(n int) []byte {
		if rng.Intn(5) == 0 {
			return append([]byte("VP8 \x10\x00\x00\x00RIFF"), rng.Bytes(n)...)
		}
		return rng.Bytes(n)
	}
	if rng.Intn(3) == 0 {
		o.ICC = blob(rng.Pick(1, 2, 17, 128))
		meta += "I"
	}
	if rng.Intn(3) == 0 {
		o.EXIF = blob(rng.Pick(1, 6, 33, 64))
		meta += "E"
	}
	if rng.Intn(3) == 0 {
		o.XMP = blob(rng.Pick(1, 9, 40))
		meta += "X"
	}
	// empty but non-nil blobs: documented as "absent" (len == 0): no chunk and no flag
	switch rng.Intn(8) {
	case 0:
		if o.ICC == nil {
			o.ICC = []byte{}
			meta += "i"
		}
	case 1:
		if o.EXIF == nil {
			o.EXIF = []byte{}
			meta += "e"
		}
	case 2:
		if o.XMP == nil {
			o.XMP = []byte{}
			meta += "x"
		}
	}
	return o, meta
}

func main() {
	Main("c02", func(c *Ctx) {
		c.D.Rule = "images (sizes 1..40 quick / ..96 thorough; gradient, noise, flat, few-colour, text-like; opaque, binary, graded, single-pixel alpha) x EncoderOptions product (lossy/lossless, Quality, Method 0..6, presets, Segments, Partitions, Pass, SNS, filter settings, sharp YUV, Preprocessing, QMin/QMax, TargetSize/TargetPSNR, Exact, alpha settings, ICC/EXIF/XMP subsets); non-trivial+distinct = distinct (lossless, method, content, alpha pattern, partitions, segments, metadata set, vp8x) signature"
		n := 260
		maxSide := 40
		if c.Thorough() {
			n, maxSide = 3000, 96
		}
		contents := []string{"gradient", "noise", "flat", "few-colours", "text"}
		alphas := []string{"opaque", "binary", "graded", "one-pixel", "last-pixel", "first-pixel"}
		sizes := [][2]int{{1, 1}, {1, 7}, {9, 1}, {15, 17}, {16, 16}, {17, 33}, {32, 32}}
		evalCase := func(i int, im *image.NRGBA, transparent bool, o webp.EncoderOptions, meta, contentName, alphaName string) {
			w, h := im.Bounds().Dx(), im.Bounds().Dy()
			cs := c02Case{w, h, contentName, alphaName, o, meta}
			cs.Opts.ICC, cs.Opts.EXIF, cs.Opts.XMP = nil, nil, nil
			c.D.Evaluations++
			c.Count(fmt.Sprintf("lossless:%v", o.Lossless))
			c.Count("content:" + contentName)
			c.Count("alpha:" + alphaName)
			var buf bytes.Buffer
			var err error
			func() {
				defer func() {
					if r := recover(); r != nil {
						err = fmt.Errorf("PANIC %v", r)
					}
				}()
				err = webp.Encode(&buf, im, &o)
			}()
			if err != nil {
				if len(err.Error()) > 5 && err.Error()[:5] == "PANIC" {
					c.Violate("encode-panic", err.Error(), cs)
				} else if buf.Len() != 0 {
					// C02 speaks about calls that return nil: counted, not reported
					c.Count("observation:error-after-bytes-written")
				} else {
					c.Count("encode-error")
				}
				return
			}
			file := buf.Bytes()
			chunks, werr := walk(file)
			if werr != "" {
				c.Violate("riff-walk", "written file is not a well-formed RIFF/WebP container: "+werr, map[string]any{"case": cs, "file": hex.EncodeToString(file)})
				return
			}
			if msg := conform(chunks, w, h, o.Lossless, transparent, &o); msg != "" {
				c.Violate("container-conformance", msg, map[string]any{"case": cs, "file": hex.EncodeToString(file)})
				return
			}
			vp8x := chunks[0].id == "VP8X"
			c.Nontrivial(fmt.Sprintf("%v/m%d/%s/%s/p%d/s%d/%s/%v", o.Lossless, o.Method, contentName, alphaName, o.Partitions, o.Segments, meta, vp8x))
			// webp.Decode must accept it
			var dec image.Image
			func() {
				defer func() {
					if r := recover(); r != nil {
						err = fmt.Errorf("PANIC %v", r)
					}
				}()
				dec, err = webp.Decode(bytes.NewReader(file))
			}()
			if err != nil {
				c.Violate("own-decoder-rejects", "webp.Decode rejects a file Encode reported as written: "+err.Error(), map[string]any{"case": cs, "file": hex.EncodeToString(file)})
				return
			}
			if dec.Bounds().Dx() != w || dec.Bounds().Dy() != h {
				c.Violate("decoded-dims", "decoded dimensions differ from the source", cs)
				return
			}
			// canonical line: what Go says about the file; the specification models must say the same
			digest := "-"
			if o.Lossless {
				t, ok := dec.(*image.NRGBA)
				if !ok {
					c.Violate("colour-model", "a lossless file did not decode to NRGBA", cs)
					return
				}
				digest = fnvHex(t.Pix[:w*h*4])
			} else {
				// Y, U, V planes: decode the VP8 chunk alone (simple container) so that Go hands
				// out the planes themselves even when the file carries alpha
				var vp8 []byte
				for _, ch := range chunks {
					if ch.id == "VP8 " {
						vp8 = ch.payload
					}
				}
				simple := append([]byte("RIFF\x00\x00\x00\x00WEBPVP8 \x00\x00\x00\x00"), vp8...)
				if len(vp8)%2 == 1 {
					simple = append(simple, 0)
				}
				binary.LittleEndian.PutUint32(simple[4:8], uint32(len(simple)-8))
				binary.LittleEndian.PutUint32(simple[16:20], uint32(len(vp8)))
				yim, yerr := webp.Decode(bytes.NewReader(simple))
				ycc, ok := yim.(*image.YCbCr)
				if yerr != nil || !ok {
					c.Violate("vp8-chunk-alone", fmt.Sprintf("the VP8 chunk of the written file does not decode on its own: %v", yerr), cs)
					return
				}
				cw, chh := (w+1)/2, (h+1)/2
				planes := make([]byte, 0, w*h+2*cw*chh)
				for y := 0; y < h; y++ {
					planes = append(planes, ycc.Y[y*ycc.YStride:y*ycc.YStride+w]...)
				}
				for y := 0; y < chh; y++ {
					planes = append(planes, ycc.Cb[y*ycc.CStride:y*ycc.CStride+cw]...)
				}
				for y := 0; y < chh; y++ {
					planes = append(planes, ycc.Cr[y*ycc.CStride:y*ycc.CStride+cw]...)
				}
				digest = fnvHex(planes)
				switch t := dec.(type) {
				case *image.NRGBA:
					if !transparent {
						c.Violate("colour-model", "an opaque lossy file decoded to NRGBA", cs)
					}
					a := make([]byte, w*h)
					for k := range a {
						a[k] = t.Pix[k*4+3]
					}
					digest += "/" + fnvHex(a)
				case *image.YCbCr:
					if transparent {
						c.Violate("colour-model", "a transparent lossy file decoded to YCbCr", cs)
					}
				}
			}
			line := fmt.Sprintf("1 %d %d %d %d %s", B2i(o.Lossless), w, h, B2i(transparent), digest)
			c.Case("file "+hex.EncodeToString(file), line)
			if i < 3 {
				c.Sample(map[string]any{"case": cs, "file_bytes": len(file), "go_line": line})
			}
		}
		for i := 0; i < n; i++ {
			rng := c.Rng.Fork()
			sz := sizes[rng.Intn(len(sizes))]
			if rng.Intn(3) == 0 {
				sz = [2]int{rng.Range(1, maxSide), rng.Range(1, maxSide)}
			}
			w, h := sz[0], sz[1]
			content, alpha := i%5, (i/5)%6
			im, transparent := genImage(rng, w, h, content, alpha)
			o, meta := randOpts(rng, i)
			evalCase(i, im, transparent, o, meta, contents[content], alphas[alpha])
		}
		// VP8L plane-code sweep: one picture per short-distance code (dx, dy), built so that the
		// LZ77 search of the lossless encoder copies from exactly that offset: an encoder whose
		// distance-code table differs from the format's is seen by the specification decoder
		// (the package's own decoder shares the table and cannot see it).
		for k := 0; k < 120; k++ {
			rng := c.Rng.Fork()
			dy, dx := k/17, k%17-8 // dy 0..7, dx -8..8 (RFC: 120 codes over this neighbourhood)
			if dy == 0 && dx <= 0 {
				continue
			}
			w, h := 20+rng.Intn(5), 10+rng.Intn(4)
			im := image.NewNRGBA(image.Rect(0, 0, w, h))
			for y := 0; y < h; y++ {
				for x := 0; x < w; x++ {
					o := im.PixOffset(x, y)
					sx, sy := x-dx, y-dy
					if sy >= 0 && sx >= 0 && sx < w && (y*w+x) > w+9 {
						copy(im.Pix[o:o+4], im.Pix[im.PixOffset(sx, sy):])
					} else {
						im.Pix[o], im.Pix[o+1], im.Pix[o+2], im.Pix[o+3] = byte(rng.U64()), byte(rng.U64()), byte(rng.U64()), 255
					}
				}
			}
			o := *webp.DefaultOptions()
			o.Lossless = true
			o.Method = rng.Pick(0, 3, 4, 6)
			o.Quality = float32(rng.Pick(20, 75, 100))
			c.Count("stream:plane-code-sweep")
			evalCase(1000000+k, im, false, o, "none", fmt.Sprintf("plane-copy(%d,%d)", dx, dy), "opaque")
		}
		// header-field correspondence: assembleFrame's fixed-width fields through the real
		// encoder are covered above (dimensions, tag); the size-table layout is compared on
		// hand-picked partition length vectors against the Go decoder's reader.
		for _, hc := range [][]int{{5, 7, 3}, {16383, 16383, 0, 1}, {1, 1, 524287, 70000, 1}, {300, 200, 524288, 1}, {300, 200, 10, 65536, 255, 256}, {640, 480, 1000, 1, 2, 3, 4, 5, 6, 7, 8}} {
			w, h, p0 := hc[0], hc[1], hc[2]
			parts := hc[3:]
			if len(parts) == 0 {
				parts = []int{0}
			}
			lens := ""
			for k, l := range parts {
				if k > 0 {
					lens += ","
				}
				lens += fmt.Sprint(l)
			}
			exp := "ERR1"
			if p0 < 1<<19 {
				exp = ""
				bad := false
				for k := 0; k < len(parts)-1; k++ {
					if parts[k] >= 1<<24 {
						bad = true
					}
				}
				if bad {
					exp = "ERR2"
				} else {
					tag := uint32(16) | uint32(p0)<<5
					b := []byte{byte(tag), byte(tag >> 8), byte(tag >> 16), 0x9d, 0x01, 0x2a, byte(w), byte(w >> 8), byte(h), byte(h >> 8)}
					for k := 0; k < len(parts)-1; k++ {
						b = append(b, byte(parts[k]), byte(parts[k]>>8), byte(parts[k]>>16))
					}
					exp = hex.EncodeToString(b)
				}
			}
			c.Case(fmt.Sprintf("hdr %d %d %d %s", w, h, p0, lens), exp)
		}
	})
}

func B2i(b bool) int {
	if b {
		return 1
	}
	return 0
}
