// Package hlib is the shared part of the Go side of /verif's correspondence checks and direct
// property evaluations.  Usage of each binary (one per property, harness/cXX): cXX -seed N -tier quick|thorough -out DIR
//
// Every property is a main package harness/cXX calling hlib.Main("cXX", fn).  The
// function runs the implementation under test (/repo, built with -tags verif) on
// generated cases and writes, into the out directory:
//
//	cases.txt   one line per case, in the input format of extract/run_<id>
//	impl.txt    one line per case: what the implementation returned, in the
//	            canonical form the model runner prints after "I "
//	direct.json the result of evaluating the property directly on the
//	            implementation (violations with replay data, counters, samples)
package hlib

import (
	"bufio"
	"encoding/json"
	"flag"
	"fmt"
	"os"
	"path/filepath"
)

// Violation is one failing input found by direct evaluation of the property.
type Violation struct {
	Key    string `json:"key"`    // class of the failure (matched against KNOWN_FINDINGS.txt)
	Desc   string `json:"desc"`   // what failed
	Replay any    `json:"replay"` // the concrete input / history
}

// Direct is what a property function reports.
type Direct struct {
	Evaluations        int            `json:"evaluations"`
	DistinctNontrivial int            `json:"distinct_nontrivial"`
	Rule               string         `json:"rule"`
	Samples            []any          `json:"samples"`
	Distribution       map[string]int `json:"distribution"`
	Violations         []Violation    `json:"violations"`
	Notes              []string       `json:"notes,omitempty"`
}

// Ctx is handed to each property function.
type Ctx struct {
	ID     string
	Seed   int64
	Tier   string
	OutDir string
	Rng    *Rand
	cases  *bufio.Writer
	impl   *bufio.Writer
	D      Direct
	seen   map[string]bool
}

func (c *Ctx) Thorough() bool { return c.Tier == "thorough" }

// Case records one correspondence case: the runner input line and the
// implementation's canonical result.
func (c *Ctx) Case(caseLine, implLine string) {
	fmt.Fprintln(c.cases, caseLine)
	fmt.Fprintln(c.impl, implLine)
}

func (c *Ctx) Count(key string) {
	if c.D.Distribution == nil {
		c.D.Distribution = map[string]int{}
	}
	c.D.Distribution[key]++
}

// Nontrivial counts a case signature once.
func (c *Ctx) Nontrivial(sig string) {
	if !c.seen[sig] {
		c.seen[sig] = true
		c.D.DistinctNontrivial++
	}
}

func (c *Ctx) Sample(s any) {
	if len(c.D.Samples) < 5 {
		c.D.Samples = append(c.D.Samples, s)
	}
}

func (c *Ctx) Violate(key, desc string, replay any) {
	// keep at most 20 per key
	n := 0
	for _, v := range c.D.Violations {
		if v.Key == key {
			n++
		}
	}
	if n < 20 {
		c.D.Violations = append(c.D.Violations, Violation{key, desc, replay})
	}
}

// Main is called by each property's main package with its check function.
func Main(id string, fn func(*Ctx)) {
	fs := flag.NewFlagSet(id, flag.ExitOnError)
	seed := fs.Int64("seed", 1, "PRNG seed")
	tier := fs.String("tier", "quick", "quick|thorough")
	out := fs.String("out", ".", "output directory")
	fs.Parse(os.Args[1:])
	if err := os.MkdirAll(*out, 0o755); err != nil {
		panic(err)
	}
	cf, err := os.Create(filepath.Join(*out, "cases.txt"))
	if err != nil {
		panic(err)
	}
	imf, err := os.Create(filepath.Join(*out, "impl.txt"))
	if err != nil {
		panic(err)
	}
	ctx := &Ctx{ID: id, Seed: *seed, Tier: *tier, OutDir: *out, Rng: NewRand(uint64(*seed)),
		cases: bufio.NewWriterSize(cf, 1<<20), impl: bufio.NewWriterSize(imf, 1<<20), seen: map[string]bool{}}
	ctx.D.Violations = []Violation{}
	ctx.D.Samples = []any{}
	fn(ctx)
	ctx.cases.Flush()
	ctx.impl.Flush()
	cf.Close()
	imf.Close()
	b, _ := json.MarshalIndent(ctx.D, "", " ")
	if err := os.WriteFile(filepath.Join(*out, "direct.json"), b, 0o644); err != nil {
		panic(err)
	}
}
