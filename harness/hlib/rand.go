package hlib

// Rand is a small deterministic PRNG (splitmix64); every random choice of the
// harness derives from one seed so that disagreements replay exactly.
type Rand struct{ s uint64 }

func NewRand(seed uint64) *Rand { return &Rand{s: seed*0x9E3779B97F4A7C15 + 0x1234567} }

func (r *Rand) U64() uint64 {
	r.s += 0x9E3779B97F4A7C15
	z := r.s
	z = (z ^ (z >> 30)) * 0xBF58476D1CE4E5B9
	z = (z ^ (z >> 27)) * 0x94D049BB133111EB
	return z ^ (z >> 31)
}

// Intn returns a value in [0,n).
func (r *Rand) Intn(n int) int {
	if n <= 1 {
		return 0
	}
	return int(r.U64() % uint64(n))
}

// Range returns a value in [lo,hi].
func (r *Rand) Range(lo, hi int) int { return lo + r.Intn(hi-lo+1) }

func (r *Rand) Bool() bool { return r.U64()&1 == 1 }

// Pick returns one of the given ints.
func (r *Rand) Pick(xs ...int) int { return xs[r.Intn(len(xs))] }

func (r *Rand) Bytes(n int) []byte {
	b := make([]byte, n)
	for i := range b {
		b[i] = byte(r.U64())
	}
	return b
}

// Fork derives an independent generator (so that adding draws in one place
// does not shift every later case).
func (r *Rand) Fork() *Rand { return NewRand(r.U64()) }
