package main

// C18 — animations keep their transparency in lossy and mixed-codec modes.
// Same machinery as C08 (harness/animenc): real AnimEncoder sessions in the four
// Lossless x AllowMixed modes over a Quality sweep with binary and graded alpha;
// correspondence = container structure + alpha planes of the played canvases vs the
// extracted model run on the recorded size comparisons; direct evaluation = played
// alpha vs source alpha, and "every lossy ANMF of a transparent picture has an ALPH
// sub-chunk"; qualityToMaxDiff compared with the model's table for all 101 qualities.

import (
	"fmt"
	"image/color"

	"github.com/deepteams/webp/animation"

	"verifharness/animenc"
	. "verifharness/hlib"
)

func check(c *Ctx, h *animenc.History, stream string) {
	rng := c.Rng.Fork()
	o, vkey := animenc.RunAndEval(c, h, rng, animenc.EvalAlpha)
	if h.Faulty() {
		c.Count(fmt.Sprintf("rejected-addframes:%d", len(o.Rejected)))
	}
	mode := "al"
	if o.Err == "" && o.CodecExact(h) >= 0 {
		mode = "st" // the codec hypothesis fails on a written frame: compare the structure only
		c.Count("correspondence:structure-only")
	}
	c.Case(h.CaseLine(mode, o), o.ImplLine(mode))
	c.D.Evaluations++
	c.Count("stream:" + stream)
	c.Count(fmt.Sprintf("mode:lossless=%v,mixed=%v", h.Lossless, h.Mixed))
	c.Count(fmt.Sprintf("quality:%d-%d", h.Quality/25*25, h.Quality/25*25+24))
	if o.Err == "" {
		if o.Still {
			c.Count("out:still")
		}
		for _, f := range o.Frames {
			if f.Lossy {
				c.Count("frame:lossy")
				if f.HasALPH {
					c.Count("frame:lossy+ALPH")
				}
			} else {
				c.Count("frame:lossless")
			}
			if !f.BlendNone {
				c.Count("frame:blend")
			}
			if f.DispBG {
				c.Count("frame:dispose-bg")
			}
		}
	}
	if len(h.Frames) >= 2 {
		c.Nontrivial(animenc.Signature(h, o))
	}
	c.Sample(map[string]any{"canvas": fmt.Sprintf("%dx%d", h.W, h.H), "inputs": len(h.Frames), "lossless": h.Lossless, "mixed": h.Mixed, "quality": h.Quality, "result": animenc.Signature(h, o)})
	if vkey != "" {
		c.Count("violation:" + vkey)
	}
}

func main() {
	Main("c18", func(c *Ctx) {
		c.D.Rule = "encoder sessions in the four Lossless x AllowMixed modes, Quality swept over 0..100, canvas 1x1..16x16, 1..8 AddFrame calls with binary / graded / boundary alpha (and opaque controls), all change kinds and Kmin/Kmax settings of C08; plus qualityToMaxDiff for all 101 qualities and pixelsAreSimilar unit cases; non-trivial = >= 2 inputs, distinct = distinct per-written-frame (full, 1x1, blend, dispose, codec) signature per mode"
		n, ns := 2000, 4000
		if c.Thorough() {
			n, ns = 8000, 40000
		}
		// corpus: the model witness (transparent then opaque 1x1, lossy)
		check(c, &animenc.History{W: 1, H: 1, Quality: 75, Frames: []animenc.Frame{
			{W: 1, H: 1, Pix: []byte{0, 0, 0, 0}, DurMS: 10}, {W: 1, H: 1, Pix: []byte{255, 0, 0, 255}, DurMS: 10}}}, "corpus")
		// a lossy overflow filler (transparent 1x1 frame blended over an opaque canvas)
		op := []byte{9, 9, 9, 255, 9, 9, 9, 255, 9, 9, 9, 255, 9, 9, 9, 255}
		check(c, &animenc.History{W: 2, H: 2, Quality: 50, Frames: []animenc.Frame{
			{W: 2, H: 2, Pix: op, DurMS: 0xFFFFFF}, {W: 2, H: 2, Pix: op, DurMS: 10}}}, "corpus")
		classes := []int{animenc.ClassBinary, animenc.ClassGraded, animenc.ClassBoundary, animenc.ClassBinary, animenc.ClassOpaque}
		for i := 0; i < n; i++ {
			rng := c.Rng.Fork()
			lossless, mixed := i&1 == 1, i&2 == 2
			q := rng.Pick(0, 1, 10, 25, 50, 75, 90, 99, 100, rng.Intn(101))
			h := animenc.RandHistory(rng, 16, lossless, mixed, q, classes)
			check(c, h, "random")
		}
		nsc := 8
		if c.Thorough() {
			nsc = 100
		}
		for i := 0; i < nsc; i++ {
			rng := c.Rng.Fork()
			for _, h := range animenc.Scenarios(rng, i&1 == 1, i&2 == 2, rng.Pick(0, 50, 75, 100), classes) {
				check(c, h, "scenario")
			}
		}
		ninj := 300
		if c.Thorough() {
			ninj = 4000
		}
		for i := 0; i < ninj; i++ {
			rng := c.Rng.Fork()
			h := animenc.RandHistory(rng, 8, i&1 == 1, i&2 == 2, rng.Pick(0, 50, 100), classes)
			for k := rng.Range(1, 3); k > 0; k-- {
				h.FailCalls = append(h.FailCalls, rng.Intn(4*len(h.Frames)))
			}
			check(c, h, "error-injection")
		}
		for q := 0; q <= 100; q++ {
			c.Case(fmt.Sprintf("qmd %d", q), fmt.Sprintf("%d", animation.VerifQualityToMaxDiff(q)))
			c.D.Evaluations++
			c.Count("stream:unit-qualityToMaxDiff")
		}
		for i := 0; i < ns; i++ {
			rng := c.Rng.Fork()
			a := color.NRGBA{R: byte(rng.U64()), G: byte(rng.U64()), B: byte(rng.U64()), A: byte(rng.Pick(0, 1, 128, 255, rng.Intn(256)))}
			b := a
			switch rng.Intn(4) {
			case 0:
				b.R = byte(int(b.R) + rng.Range(-40, 40))
			case 1:
				b.G, b.B = byte(int(b.G)+rng.Range(-40, 40)), byte(rng.U64())
			case 2:
				b.A = byte(rng.U64())
			}
			md := animation.VerifQualityToMaxDiff(rng.Intn(101))
			c.Case(fmt.Sprintf("sim %d %d %d %d %d %d %d %d %d", a.R, a.G, a.B, a.A, b.R, b.G, b.B, b.A, md),
				fmt.Sprintf("%d", map[bool]int{false: 0, true: 1}[animation.VerifPixelsAreSimilar(a, b, md)]))
			c.D.Evaluations++
			c.Count("stream:unit-pixelsAreSimilar")
		}
	})
}
