// Package muxh is shared by the C05 and C14 harnesses: canonical text form of a
// demuxer result (identical to extract/c05/riffio.ml), an independent RIFF walker,
// and the pool of real bitstreams produced with webp.Encode.
package muxh

import (
	"bytes"
	"encoding/binary"
	"encoding/hex"
	"fmt"
	"image"
	"image/color"
	"strings"

	webp "github.com/deepteams/webp"
	"github.com/deepteams/webp/mux"

	"verifharness/hlib"
)

func fnv64(b []byte) uint64 {
	h := uint64(0xcbf29ce484222325)
	for _, x := range b {
		h = (h ^ uint64(x)) * 0x100000001b3
	}
	return h
}

// FmtBytes: "e" empty, "h<hex>" up to 16 bytes, otherwise "<len>:<fnv64>".
func FmtBytes(b []byte) string {
	switch {
	case len(b) == 0:
		return "e"
	case len(b) <= 16:
		return "h" + hex.EncodeToString(b)
	default:
		return fmt.Sprintf("%d:%016x", len(b), fnv64(b))
	}
}

// FmtOBlob: "-" for a nil slice.
func FmtOBlob(b []byte) string {
	if b == nil {
		return "-"
	}
	return FmtBytes(b)
}

// Blob is the case-line syntax of an optional byte string: "-" nil, "e" empty, hex.
func Blob(b []byte) string {
	if b == nil {
		return "-"
	}
	if len(b) == 0 {
		return "e"
	}
	return hex.EncodeToString(b)
}

func B2i(b bool) int {
	if b {
		return 1
	}
	return 0
}

var ProbeIDs = []uint32{1480085590, 540561494, 1278758998, 1213221953, 1296649793, 1179471425, 1346585417, 1179211845, 542133592, 1313558101}

func fmtFrame(fi *mux.FrameInfo) string {
	return fmt.Sprintf("%s,%s,%d,%d,%d,%d,%d,%d,%d,%d,%d", FmtOBlob(fi.Data), FmtOBlob(fi.AlphaData),
		fi.Width, fi.Height, fi.OffsetX, fi.OffsetY, fi.Duration, B2i(fi.IsKeyframe), B2i(fi.HasAlpha), int(fi.BlendMode), int(fi.DisposeMode))
}

// FmtDemux renders everything observable of a Demuxer through its accessors.
func FmtDemux(d *mux.Demuxer) string {
	f := d.GetFeatures()
	var cs []string
	for _, c := range d.VerifChunks() {
		cs = append(cs, fmt.Sprintf("%d:%d:%s", c.ID, c.Size, FmtBytes(c.Data)))
	}
	n := d.NumFrames()
	frameAt := func(i int) string {
		fi, err := d.Frame(i)
		if err != nil {
			return "!"
		}
		return fmtFrame(fi)
	}
	var fr []string
	for i := 0; i < n; i++ {
		fr = append(fr, frameAt(i))
	}
	var gc []string
	for _, id := range ProbeIDs {
		b, err := d.GetChunk(id)
		if err != nil {
			gc = append(gc, "!")
		} else {
			gc = append(gc, FmtBytes(b))
		}
	}
	icc, _ := d.GetChunk(mux.FourCCICCP)
	exif, _ := d.GetChunk(mux.FourCCEXIF)
	xmp, _ := d.GetChunk(mux.FourCCXMP)
	return fmt.Sprintf("ok F=%d,%d,%d,%d,%d,%d,%d,%d L=%d B=%d M=%s,%s,%s C=%s N=%d R=%s X=%s%s G=%s",
		f.Width, f.Height, B2i(f.HasAlpha), B2i(f.HasAnimation), B2i(f.HasICC), B2i(f.HasEXIF), B2i(f.HasXMP), int(f.Format),
		d.LoopCount(), d.BackgroundColor(), FmtOBlob(icc), FmtOBlob(exif), FmtOBlob(xmp),
		strings.Join(cs, ";"), n, strings.Join(fr, ";"), frameAt(-1), frameAt(n), strings.Join(gc, ","))
}

// DemuxLine runs NewDemuxer + all accessors under recover.
func DemuxLine(data []byte) (line string, d *mux.Demuxer) {
	defer func() {
		if r := recover(); r != nil {
			line, d = "panic", nil
		}
	}()
	dm, err := mux.NewDemuxer(data)
	if err != nil {
		return "err", nil
	}
	return FmtDemux(dm), dm
}

// RChunk is one chunk found by the harness's own RIFF walker.
type RChunk struct {
	ID   string
	Data []byte
	Sub  []RChunk // ANMF: sub-chunks after the 16-byte frame header
}

// WalkChunks tiles b with chunks; ok=false if the tiling does not come out even.
func WalkChunks(b []byte, nest bool) (cs []RChunk, ok bool) {
	for len(b) > 0 {
		if len(b) < 8 {
			return cs, false
		}
		sz := int(binary.LittleEndian.Uint32(b[4:8]))
		if 8+sz > len(b) {
			return cs, false
		}
		c := RChunk{ID: string(b[0:4]), Data: b[8 : 8+sz]}
		adv := 8 + sz
		if sz%2 == 1 {
			if adv >= len(b) || b[adv] != 0 {
				return cs, false
			}
			adv++
		}
		if nest && c.ID == "ANMF" && sz >= 16 {
			sub, sok := WalkChunks(c.Data[16:], false)
			if !sok {
				return cs, false
			}
			c.Sub = sub
		}
		cs = append(cs, c)
		b = b[adv:]
	}
	return cs, true
}

// WalkFile checks the RIFF header (size field covers the file exactly) and tiles the payload.
func WalkFile(f []byte) ([]RChunk, bool) {
	if len(f) < 12 || string(f[0:4]) != "RIFF" || string(f[8:12]) != "WEBP" {
		return nil, false
	}
	if int(binary.LittleEndian.Uint32(f[4:8]))+8 != len(f) {
		return nil, false
	}
	return WalkChunks(f[12:], true)
}

// PoolItem is one frame payload as a caller hands it to Muxer.AddFrame.
type PoolItem struct {
	Data     []byte // what is passed to AddFrame
	Alpha    []byte // nil unless Data carries an ALPH chunk prefix
	Bits     []byte // the VP8/VP8L bitstream inside Data
	W, H     int
	Lossless bool
	AlphaBit bool // VP8L header alpha bit
	Valid    bool // a VP8/VP8L bitstream with optional ALPH prefix
}

func testImage(rng *hlib.Rand, w, h int, alpha bool) image.Image {
	im := image.NewNRGBA(image.Rect(0, 0, w, h))
	mode := rng.Intn(3)
	for y := 0; y < h; y++ {
		for x := 0; x < w; x++ {
			var c color.NRGBA
			switch mode {
			case 0:
				c = color.NRGBA{byte(x * 7), byte(y * 11), byte(x + y), 255}
			case 1:
				c = color.NRGBA{byte(rng.U64()), byte(rng.U64()), byte(rng.U64()), 255}
			default:
				c = color.NRGBA{byte((x / 3) * 40), byte((y / 2) * 60), 128, 255}
			}
			if alpha {
				c.A = byte((x*37 + y*91 + int(rng.U64()&3)) & 0xff)
				if (x+y)%5 == 0 {
					c.A = 0
				}
			}
			im.SetNRGBA(x, y, c)
		}
	}
	return im
}

// EncodeFile returns a complete WebP file for a generated picture.
func EncodeFile(rng *hlib.Rand, w, h int, lossless, alpha bool, q float32) []byte {
	var buf bytes.Buffer
	o := webp.DefaultOptions()
	o.Lossless = lossless
	o.Quality = q
	o.Method = 2
	if err := webp.Encode(&buf, testImage(rng, w, h, alpha), o); err != nil {
		panic(err)
	}
	return buf.Bytes()
}

func le32(n int) []byte {
	var b [4]byte
	binary.LittleEndian.PutUint32(b[:], uint32(n))
	return b[:]
}

// AlphPrefixed builds "ALPH" size alpha [pad] bits.
func AlphPrefixed(alpha, bits []byte) []byte {
	d := append([]byte("ALPH"), le32(len(alpha))...)
	d = append(d, alpha...)
	if len(alpha)%2 == 1 {
		d = append(d, 0)
	}
	return append(d, bits...)
}

// ItemFromFile extracts the AddFrame payload (with ALPH prefix when the file has one) from a still file.
func ItemFromFile(f []byte, w, h int) PoolItem {
	cs, ok := WalkFile(f)
	if !ok {
		panic("encoder output does not tile")
	}
	it := PoolItem{W: w, H: h, Valid: true}
	for _, c := range cs {
		switch c.ID {
		case "ALPH":
			it.Alpha = append([]byte{}, c.Data...)
		case "VP8 ":
			it.Bits = append([]byte{}, c.Data...)
		case "VP8L":
			it.Bits = append([]byte{}, c.Data...)
			it.Lossless = true
			it.AlphaBit = len(c.Data) >= 5 && (c.Data[4]>>4)&1 == 1
		}
	}
	if it.Bits == nil {
		panic("no bitstream in encoder output")
	}
	if it.Alpha != nil {
		it.Data = AlphPrefixed(it.Alpha, it.Bits)
	} else {
		it.Data = it.Bits
	}
	return it
}

// BuildPool: lossy / lossless / lossy+alpha / lossless+alpha pictures of several sizes; both
// parities of bitstream length and of alpha length are guaranteed to occur.
func BuildPool(rng *hlib.Rand, n int) []PoolItem {
	var pool []PoolItem
	dims := [][2]int{{1, 1}, {2, 2}, {3, 5}, {4, 4}, {8, 6}, {7, 9}, {16, 16}, {21, 13}, {32, 18}, {40, 40}, {64, 33}}
	parity := map[string]bool{}
	for i := 0; len(pool) < n || len(parity) < 12; i++ {
		d := dims[rng.Intn(len(dims))]
		kind := i % 4
		lossless, alpha := kind == 1 || kind == 3, kind >= 2
		f := EncodeFile(rng, d[0], d[1], lossless, alpha, float32(rng.Pick(10, 50, 75, 95)))
		it := ItemFromFile(f, d[0], d[1])
		key := fmt.Sprintf("k%d-b%d-a%d", kind, len(it.Bits)%2, len(it.Alpha)%2)
		if len(pool) >= n && parity[key] {
			if i > 40*n {
				break
			}
			continue
		}
		parity[key] = true
		pool = append(pool, it)
		if i > 40*n {
			break
		}
	}
	return pool
}
