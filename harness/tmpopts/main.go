package main

import (
	"bytes"
	"crypto/sha1"
	"fmt"
	"image"

	webp "github.com/deepteams/webp"
	. "verifharness/hlib"
)

func testImage(rng *Rand, w, h int, alpha int) *image.NRGBA {
	im := image.NewNRGBA(image.Rect(0, 0, w, h))
	for y := 0; y < h; y++ {
		for x := 0; x < w; x++ {
			i := y*im.Stride + x*4
			im.Pix[i] = uint8(x*255/(w+1)) ^ uint8(rng.Intn(24))
			im.Pix[i+1] = uint8(y*255/(h+1)) ^ uint8(rng.Intn(24))
			im.Pix[i+2] = uint8((x+y)*5) ^ uint8(rng.Intn(64))
			a := 255
			switch alpha {
			case 1:
				if x < w/3 && y < h/2 {
					a = 0
				} else if x > 2*w/3 {
					a = 40 + rng.Intn(200)
				}
			case 2:
				a = rng.Intn(256)
			}
			im.Pix[i+3] = uint8(a)
		}
	}
	return im
}

func enc(im image.Image, o *webp.EncoderOptions) string {
	var b bytes.Buffer
	if err := webp.Encode(&b, im, o); err != nil {
		panic(err)
	}
	return fmt.Sprintf("%x/%d", sha1.Sum(b.Bytes()), b.Len())[:14] + fmt.Sprintf("/%d", b.Len())
}

func main() {
	rng := NewRand(7)
	im := testImage(rng, 17, 13, 1)
	o := *webp.OptionsForPreset(webp.PresetPhoto, 40)
	o.Method = 6
	ref := enc(im, &o)
	culprits := map[string]int{}
	for i := 0; i < 3000; i++ {
		p := *webp.DefaultOptions()
		p.Method = rng.Intn(7)
		p.Quality = float32(rng.Intn(101))
		p.Partitions = rng.Intn(4)
		p.Segments = rng.Intn(5)
		p.Pass = rng.Intn(11)
		p.Preprocessing = rng.Intn(4)
		p.SNSStrength = rng.Intn(101)
		p.FilterStrength = rng.Intn(101)
		p.FilterType = rng.Intn(2)
		p.FilterSharpness = rng.Intn(8)
		p.UseSharpYUV = rng.Intn(4) == 0
		p.Exact = rng.Intn(4) == 0
		if rng.Intn(4) == 0 {
			p.TargetSize = 100 + rng.Intn(500)
		}
		if rng.Intn(4) == 0 {
			p.TargetPSNR = float32(30 + rng.Intn(15))
		}
		enc(im, &p)
		if h := enc(im, &o); h != ref {
			k := fmt.Sprintf("m%d parts%d segs%d pass%d prep%d sharp%v exact%v ts%d psnr%v", p.Method, p.Partitions, p.Segments, p.Pass, p.Preprocessing, p.UseSharpYUV, p.Exact, p.TargetSize, p.TargetPSNR)
			if len(culprits) < 12 {
				fmt.Println("DIFF after", k, h, "ref", ref)
			}
			culprits[k]++
		}
	}
	fmt.Println("diffs", len(culprits))
}
