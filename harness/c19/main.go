package main

// C19 — Encode depends on the picture, not on how the pixels are stored.
//
// Direct evaluation (this is the property): for each generated picture the same
// non-premultiplied pixels are supplied as an *image.NRGBA at the origin, as sub-image
// views of larger parents at several offsets (two different noises outside the bounds),
// with stride padding, with a shifted Rect, and through wrapper types forwarding At()
// (which defeat every type assertion); webp.Encode must produce byte-identical files
// for all of them, lossy and lossless, alpha / no alpha, Exact, UseSharpYUV, every
// Preprocessing value (dithering), several methods; and must leave the caller's buffer
// untouched (checksum).  The import kernels (alpha scan, alpha extraction, transparent
// clean-up copy, sharp-YUV import, lossy Y/U/V import) are compared across placements too.
//
// Correspondence: the extracted Coq models of the kernels' index arithmetic (with Panic)
// vs the Go kernels on random placements, valid and invalid.

import (
	"bytes"
	"encoding/hex"
	"fmt"
	"hash/fnv"
	"image"
	"image/color"
	"runtime"
	"strings"

	webp "github.com/deepteams/webp"

	. "verifharness/hlib"
)

type picture struct {
	w, h int
	pix  []byte // w*h*4, R G B A
	kind string
}

// wrapper forwarding At: no fast path applies.
type wrapImage struct{ im *image.NRGBA }

func (w wrapImage) ColorModel() color.Model { return color.NRGBAModel }
func (w wrapImage) Bounds() image.Rectangle { return w.im.Bounds() }
func (w wrapImage) At(x, y int) color.Color { return w.im.NRGBAAt(x, y) }

type placement struct {
	name  string
	img   image.Image
	back  []byte // the whole backing buffer (for the checksum)
	inner *image.NRGBA
}

func fillNoise(b []byte, rng *Rand) {
	for i := range b {
		b[i] = byte(rng.U64())
	}
}

func setPixels(im *image.NRGBA, p *picture) {
	b := im.Bounds()
	for y := 0; y < p.h; y++ {
		for x := 0; x < p.w; x++ {
			s := p.pix[(y*p.w+x)*4:]
			im.SetNRGBA(b.Min.X+x, b.Min.Y+y, color.NRGBA{s[0], s[1], s[2], s[3]})
		}
	}
}

func subOf(p *picture, ox, oy, extraR, extraB int, originX, originY int, rng *Rand) *placement {
	parent := image.NewNRGBA(image.Rect(originX, originY, originX+p.w+ox+extraR, originY+p.h+oy+extraB))
	fillNoise(parent.Pix, rng)
	sub := parent.SubImage(image.Rect(originX+ox, originY+oy, originX+ox+p.w, originY+oy+p.h)).(*image.NRGBA)
	setPixels(sub, p)
	return &placement{img: sub, back: parent.Pix, inner: sub}
}

func placements(p *picture, rng *Rand) []*placement {
	var out []*placement
	add := func(name string, pl *placement) {
		pl.name = name
		out = append(out, pl)
	}
	o := image.NewNRGBA(image.Rect(0, 0, p.w, p.h))
	copy(o.Pix, p.pix)
	add("origin", &placement{img: o, back: o.Pix, inner: o})
	for _, off := range [][2]int{{0, 0}, {1, 0}, {0, 1}, {3, 5}} {
		add(fmt.Sprintf("sub(%d,%d)noiseA", off[0], off[1]), subOf(p, off[0], off[1], 2, 3, 0, 0, rng.Fork()))
	}
	add("sub(3,5)noiseB", subOf(p, 3, 5, 2, 3, 0, 0, rng.Fork()))
	add("sub(2,1)negorigin", subOf(p, 2, 1, 1, 1, -9, -4, rng.Fork()))
	// full-width horizontal bands of a taller parent (Stride == 4*w, so "contiguous rows" shortcuts
	// apply) whose rows above / below carry noise (incl. non-opaque alpha): top band, middle band,
	// and a parent with extra rows only below
	add("band-top(+3 below)", subOf(p, 0, 0, 0, 3, 0, 0, rng.Fork()))
	add("band-mid(2 above,+3 below)", subOf(p, 0, 2, 0, 3, 0, 0, rng.Fork()))
	add("band-mid-negorigin", subOf(p, 0, 1, 0, 2, -5, -6, rng.Fork()))
	{ // own buffer, Stride == 4*w, trailing rows of noise after the picture
		buf := make([]byte, p.w*4*(p.h+2))
		fillNoise(buf, rng)
		im := &image.NRGBA{Pix: buf[:len(buf):len(buf)], Stride: p.w * 4, Rect: image.Rect(0, 0, p.w, p.h)}
		setPixels(im, p)
		add("band-trailing-rows", &placement{img: im, back: buf, inner: im})
	}
	// stride padding, own buffer, cap == len
	for _, extra := range []int{4, 7, 64} {
		stride := p.w*4 + extra
		buf := make([]byte, (p.h-1)*stride+p.w*4+extra)
		fillNoise(buf, rng)
		im := &image.NRGBA{Pix: buf[:len(buf):len(buf)], Stride: stride, Rect: image.Rect(0, 0, p.w, p.h)}
		setPixels(im, p)
		add(fmt.Sprintf("stride+%d", extra), &placement{img: im, back: buf, inner: im})
	}
	// shifted Rect on an exact buffer
	{
		buf := make([]byte, p.w*p.h*4)
		im := &image.NRGBA{Pix: buf, Stride: p.w * 4, Rect: image.Rect(10, 20, 10+p.w, 20+p.h)}
		setPixels(im, p)
		add("rect(10,20)", &placement{img: im, back: buf, inner: im})
	}
	// wrappers
	{
		w := image.NewNRGBA(image.Rect(0, 0, p.w, p.h))
		copy(w.Pix, p.pix)
		add("wrapper", &placement{img: wrapImage{w}, back: w.Pix, inner: w})
		s := subOf(p, 3, 5, 2, 3, 0, 0, rng.Fork())
		s.img = wrapImage{s.inner}
		add("wrapper(sub(3,5))", s)
	}
	return out
}

func sum(b []byte) uint64 {
	h := fnv.New64a()
	h.Write(b)
	return h.Sum64()
}

func genPicture(rng *Rand, w, h int, kind string) *picture {
	p := &picture{w: w, h: h, pix: make([]byte, w*h*4), kind: kind}
	for y := 0; y < h; y++ {
		for x := 0; x < w; x++ {
			i := (y*w + x) * 4
			switch {
			case strings.HasPrefix(kind, "noise"):
				p.pix[i], p.pix[i+1], p.pix[i+2] = byte(rng.U64()), byte(rng.U64()), byte(rng.U64())
			default: // smooth gradient with some texture
				p.pix[i] = byte(x*255/(w+1)) ^ byte(rng.Intn(16))
				p.pix[i+1] = byte(y*255/(h+1)) ^ byte(rng.Intn(16))
				p.pix[i+2] = byte((x*3+y*5)&255) ^ byte(rng.Intn(32))
			}
			a := 255
			switch {
			case strings.HasSuffix(kind, "-alpha"): // mixed: transparent region with garbage RGB, semi-transparent band
				if x < (w+1)/2 && y < (h+1)/2 {
					a = 0
				} else if x >= 2*w/3 {
					a = 1 + rng.Intn(254)
				}
			case strings.HasSuffix(kind, "-semi"): // alpha in 1..254 everywhere (no fully transparent pixel)
				a = 1 + rng.Intn(254)
			case strings.HasSuffix(kind, "-lastpx"): // only the very last pixel is non-opaque
				if x == w-1 && y == h-1 {
					a = 254
				}
			}
			p.pix[i+3] = byte(a)
		}
	}
	return p
}

type cfgCase struct {
	name string
	o    webp.EncoderOptions
}

func configs(thorough bool) []cfgCase {
	d := func(f func(o *webp.EncoderOptions)) webp.EncoderOptions {
		o := *webp.DefaultOptions()
		f(&o)
		return o
	}
	cs := []cfgCase{
		{"lossless", webp.EncoderOptions{Lossless: true, Quality: 75, Method: 4}},
		{"lossless-exact-m0", webp.EncoderOptions{Lossless: true, Quality: 30, Method: 0, Exact: true}},
		{"lossless-meta", webp.EncoderOptions{Lossless: true, Quality: 50, Method: 2, EXIF: []byte{1, 2, 3}}},
		{"lossy", d(func(o *webp.EncoderOptions) {})},
		{"lossy-exact", d(func(o *webp.EncoderOptions) { o.Exact = true })},
		{"lossy-sharp", d(func(o *webp.EncoderOptions) { o.UseSharpYUV = true })},
		{"lossy-sharp-exact", d(func(o *webp.EncoderOptions) { o.UseSharpYUV = true; o.Exact = true; o.Quality = 90 })},
		{"lossy-prep1", d(func(o *webp.EncoderOptions) { o.Preprocessing = 1 })},
		{"lossy-prep2-dither", d(func(o *webp.EncoderOptions) { o.Preprocessing = 2; o.Quality = 40 })},
		{"lossy-prep3-dither-exact", d(func(o *webp.EncoderOptions) { o.Preprocessing = 3; o.Exact = true; o.Quality = 20 })},
		{"lossy-m0-q10", d(func(o *webp.EncoderOptions) { o.Method = 0; o.Quality = 10 })},
		{"lossy-m6-alphaq50", d(func(o *webp.EncoderOptions) { o.Method = 6; o.AlphaQuality = 50; o.AlphaFiltering = 2 })},
	}
	if !thorough {
		// quick tier: drop one configuration whose import paths are covered by the others
		// (lossless-meta stays: metadata switches Encode to encodeLossless, a second copy of the
		// lossless import loops)
		keep := cs[:0]
		for _, x := range cs {
			if x.name != "lossy-prep1" {
				keep = append(keep, x)
			}
		}
		cs = keep
	}
	if thorough {
		cs = append(cs,
			cfgCase{"lossy-m2-rawalpha", d(func(o *webp.EncoderOptions) { o.Method = 2; o.AlphaCompression = 0 })},
			cfgCase{"lossy-target", d(func(o *webp.EncoderOptions) { o.TargetSize = 300; o.Pass = 4 })},
			cfgCase{"lossless-m6-q100", webp.EncoderOptions{Lossless: true, Quality: 100, Method: 6}},
			cfgCase{"photo-preset", *webp.OptionsForPreset(webp.PresetPhoto, 60)},
		)
	}
	return cs
}

func encodeFresh(img image.Image, o *webp.EncoderOptions) (out []byte, err error, pan string) {
	// fresh encoder state: history independence is property C11's subject
	runtime.GC()
	runtime.GC()
	var buf bytes.Buffer
	defer func() {
		if p := recover(); p != nil {
			pan = fmt.Sprint(p)
		}
		out = buf.Bytes()
	}()
	err = webp.Encode(&buf, img, o)
	return
}

func main() { Main("c19", run) }

// observe records something no clause of the property (as stated in properties.jsonl) decides:
// a counter in the evidence, never a violation.
func observe(c *Ctx, key string) { c.Count("observation:" + key) }

func run(c *Ctx) {
	c.D.Rule = "an evaluation is one (picture, configuration, placement) encode compared byte-for-byte with the origin placement's output, one kernel (alpha scan / alpha extraction / clean-up / sharp YUV / lossy import) comparison across placements, or one kernel-vs-model case; non-trivial = distinct (picture kind, size class, configuration, placement kind) signatures whose placement differs from the origin one"
	rng := c.Rng.Fork()
	sizes := [][2]int{{1, 1}, {2, 3}, {7, 5}, {16, 16}, {17, 33}, {31, 8}}
	kinds := []string{"smooth-opaque", "noise-opaque", "smooth-alpha", "noise-semi", "smooth-lastpx"}
	if c.Thorough() {
		sizes = append(sizes, [2]int{33, 17}, [2]int{64, 48}, [2]int{3, 100}, [2]int{130, 9})
	}
	cfgs := configs(c.Thorough())
	for _, sz := range sizes {
		for ki, kind := range kinds {
			if !c.Thorough() && (sz[0]*sz[1] > 300) && ki%2 == 1 && kind != "noise-semi" {
				continue
			}
			p := genPicture(rng.Fork(), sz[0], sz[1], kind)
			pls := placements(p, rng.Fork())
			sums := make([]uint64, len(pls))
			for i, pl := range pls {
				sums[i] = sum(pl.back)
			}
			kernels(c, p, pls)
			for _, cf := range cfgs {
				if !c.Thorough() {
					// quick tier: skip configurations that cannot behave differently on this picture kind
					alphaOnly := cf.o.Exact || strings.Contains(cf.name, "alphaq")
					if strings.HasSuffix(p.kind, "-opaque") && alphaOnly && !cf.o.Lossless {
						continue
					}
					if strings.HasSuffix(p.kind, "-lastpx") && cf.name != "lossless" && cf.name != "lossless-meta" && cf.name != "lossy" && cf.name != "lossy-exact" {
						continue
					}
				}
				var ref []byte
				originFailed := false
				for i, pl := range pls {
					if !c.Thorough() && p.w*p.h > 100 && (pl.name == "sub(1,0)noiseA" || pl.name == "sub(0,1)noiseA" || pl.name == "stride+4") {
						continue
					}
					o := cf.o
					out, err, pan := encodeFresh(pl.img, &o)
					c.D.Evaluations++
					rep := map[string]any{"picture": fmt.Sprintf("%s %dx%d", p.kind, p.w, p.h), "pixels_rgba_hex": hex.EncodeToString(p.pix),
						"config": cf.name, "placement": pl.name}
					if i == 0 {
						if pan != "" || err != nil {
							// the origin placement itself fails: whether Encode may fail here is not C19's subject
							observe(c, "origin-placement-encode-failed")
							originFailed = true
						} else {
							ref = out
						}
						continue
					}
					if originFailed {
						if pan == "" && err == nil {
							c.Violate("outcome-differs-"+placementClass(pl.name), "Encode fails for the origin placement but succeeds for this placement of the same picture", rep)
						}
						continue
					}
					if pan != "" {
						c.Violate("panic-"+placementClass(pl.name), "webp.Encode succeeds for the origin placement but panics for this placement of the same picture: "+pan, rep)
						continue
					}
					if err != nil {
						c.Violate("encode-error-"+placementClass(pl.name), "webp.Encode succeeds for the origin placement but fails for this placement of the same picture: "+err.Error(), rep)
						continue
					}
					c.Count("placement_" + placementClass(pl.name))
					c.Nontrivial(fmt.Sprintf("%s|%dx%d|%s|%s", p.kind, p.w, p.h, cf.name, pl.name))
					if !bytes.Equal(out, ref) {
						// exclude encoder nondeterminism (C10/C11): both sides must reproduce themselves
						o1, o2 := cf.o, cf.o
						r1, _, _ := encodeFresh(pls[0].img, &o1)
						r2, _, _ := encodeFresh(pl.img, &o2)
						if !bytes.Equal(r1, ref) || !bytes.Equal(r2, out) {
							c.Count("unstable_encoder_output_skipped")
							continue
						}
						mode := "lossy"
						if cf.o.Lossless {
							mode = "lossless"
						}
						al := "opaque"
						if !strings.HasSuffix(p.kind, "-opaque") {
							al = "alpha"
						}
						c.Violate(fmt.Sprintf("bytes-differ-%s-%s-%s", mode, al, placementClass(pl.name)),
							fmt.Sprintf("same picture, different placement: %d vs %d bytes (first difference at %d)", len(ref), len(out), firstDiff(ref, out)), rep)
					}
				}
			}
			for i, pl := range pls {
				if sum(pl.back) != sums[i] {
					c.Violate("source-modified-"+placementClass(pl.name), "Encode modified the caller's pixel buffer",
						map[string]any{"picture": fmt.Sprintf("%s %dx%d", p.kind, p.w, p.h), "placement": pl.name})
				}
			}
		}
	}
	rgbaSubcheck(c, rng.Fork(), cfgs)
	modelCases(c, rng.Fork())
	c.Sample(map[string]any{"sizes": sizes, "kinds": kinds, "configs": len(cfgs)})
}

// ---------------------------------------------------------------------------
// Sub-check "premultiplied sources" (separate from the NRGBA property proper): for an
// *image.RGBA the logical picture is color.NRGBAModel.Convert(At(x, y)).  The same premultiplied
// pixels as an RGBA at the origin, as a sub-image view, with stride padding, through a wrapper
// forwarding At (generic path), and as an *image.NRGBA holding the converted pixels must give
// byte-identical files.  Violation keys start with "rgba-".

type wrapRGBA struct{ im *image.RGBA }

func (w wrapRGBA) ColorModel() color.Model { return color.RGBAModel }
func (w wrapRGBA) Bounds() image.Rectangle { return w.im.Bounds() }
func (w wrapRGBA) At(x, y int) color.Color { return w.im.RGBAAt(x, y) }

func rgbaSubcheck(c *Ctx, rng *Rand, cfgs []cfgCase) {
	sizes := [][2]int{{1, 1}, {7, 5}, {17, 19}}
	if c.Thorough() {
		sizes = append(sizes, [2]int{16, 16}, [2]int{33, 17})
	} else {
		var sub []cfgCase
		for _, x := range cfgs {
			switch x.name {
			case "lossless", "lossless-meta", "lossless-exact-m0", "lossy", "lossy-exact", "lossy-sharp", "lossy-sharp-exact", "lossy-prep2-dither":
				sub = append(sub, x)
			}
		}
		cfgs = sub
	}
	for _, sz := range sizes {
		for _, kind := range []string{"opaque", "alpha", "semi"} {
			w, h := sz[0], sz[1]
			pm := make([]byte, w*h*4) // premultiplied R G B A
			for y := 0; y < h; y++ {
				for x := 0; x < w; x++ {
					a := 255
					switch kind {
					case "alpha":
						if x < (w+1)/2 && y < (h+1)/2 {
							a = 0
						} else if x >= 2*w/3 {
							a = 1 + rng.Intn(254)
						}
					case "semi":
						a = 1 + rng.Intn(254)
					}
					i := (y*w + x) * 4
					pm[i] = byte(rng.Intn(a + 1))
					pm[i+1] = byte((x * 255 / (w + 1)) * a / 255)
					pm[i+2] = byte(rng.Intn(a + 1))
					pm[i+3] = byte(a)
				}
			}
			set := func(im *image.RGBA) {
				b := im.Bounds()
				for y := 0; y < h; y++ {
					for x := 0; x < w; x++ {
						q := pm[(y*w+x)*4:]
						im.SetRGBA(b.Min.X+x, b.Min.Y+y, color.RGBA{q[0], q[1], q[2], q[3]})
					}
				}
			}
			type pl struct {
				name string
				img  image.Image
				back []byte
			}
			var pls []pl
			o := image.NewRGBA(image.Rect(0, 0, w, h))
			set(o)
			pls = append(pls, pl{"rgba-origin", o, o.Pix})
			parent := image.NewRGBA(image.Rect(0, 0, w+3+2, h+5+3))
			fillNoise(parent.Pix, rng)
			sub := parent.SubImage(image.Rect(3, 5, 3+w, 5+h)).(*image.RGBA)
			set(sub)
			pls = append(pls, pl{"rgba-sub(3,5)", sub, parent.Pix})
			stride := w*4 + 7
			buf := make([]byte, (h-1)*stride+w*4+7)
			fillNoise(buf, rng)
			sp := &image.RGBA{Pix: buf[:len(buf):len(buf)], Stride: stride, Rect: image.Rect(0, 0, w, h)}
			set(sp)
			pls = append(pls, pl{"rgba-stride+7", sp, buf})
			wr := image.NewRGBA(image.Rect(0, 0, w, h))
			set(wr)
			pls = append(pls, pl{"rgba-wrapper", wrapRGBA{wr}, wr.Pix})
			conv := image.NewNRGBA(image.Rect(0, 0, w, h))
			for y := 0; y < h; y++ {
				for x := 0; x < w; x++ {
					conv.SetNRGBA(x, y, color.NRGBAModel.Convert(o.At(x, y)).(color.NRGBA))
				}
			}
			pls = append(pls, pl{"nrgba-of-converted", conv, conv.Pix})
			for _, bd := range []struct {
				name       string
				top, below int
			}{{"rgba-band-top", 0, 3}, {"rgba-band-mid", 2, 3}} {
				bp := image.NewRGBA(image.Rect(0, 0, w, h+bd.top+bd.below))
				fillNoise(bp.Pix, rng)
				bs := bp.SubImage(image.Rect(0, bd.top, w, bd.top+h)).(*image.RGBA)
				set(bs)
				pls = append(pls, pl{bd.name, bs, bp.Pix})
			}
			{ // generic path with a non-zero origin: wrapper around a sub-image
				wp := image.NewRGBA(image.Rect(0, 0, w+3+2, h+5+3))
				fillNoise(wp.Pix, rng)
				ws := wp.SubImage(image.Rect(3, 5, 3+w, 5+h)).(*image.RGBA)
				set(ws)
				pls = append(pls, pl{"rgba-wrapper(sub(3,5))", wrapRGBA{ws}, wp.Pix})
			}
			sums := make([]uint64, len(pls))
			for i := range pls {
				sums[i] = sum(pls[i].back)
			}
			for _, cf := range cfgs {
				outs := make([][]byte, len(pls))
				failed := make([]string, len(pls))
				for i, p := range pls {
					oo := cf.o
					out, err, pan := encodeFresh(p.img, &oo)
					c.D.Evaluations++
					if pan != "" || err != nil {
						failed[i] = fmt.Sprintf("%v %s", err, pan)
						continue
					}
					outs[i] = out
				}
				const refIdx = 3 // rgba-wrapper: the generic At() path defines the picture
				if outs[refIdx] == nil {
					observe(c, "rgba-reference-encode-failed")
					continue
				}
				for i, p := range pls {
					if failed[i] != "" {
						c.Violate("rgba-encode-failed-"+p.name, "Encode succeeds through the generic At() path but fails for this placement of the same premultiplied picture: "+failed[i],
							map[string]any{"picture": fmt.Sprintf("premultiplied %s %dx%d", kind, w, h), "premultiplied_rgba_hex": hex.EncodeToString(pm), "config": cf.name, "placement": p.name})
					}
				}
				if outs[0] == nil {
					continue
				}
				mode := "lossy"
				if cf.o.Lossless {
					mode = "lossless"
				}
				al := "opaque"
				if kind != "opaque" {
					al = "alpha"
				}
				ex, sh := "", ""
				if cf.o.Exact {
					ex = "-exact"
				}
				if cf.o.UseSharpYUV {
					sh = "-sharp"
				}
				cmp := func(i, j int, key, desc string) {
					if outs[i] == nil || outs[j] == nil {
						return
					}
					c.Count("rgba_comparisons")
					c.Nontrivial(fmt.Sprintf("rgba|%s|%dx%d|%s|%s|%s", kind, w, h, cf.name, pls[i].name, pls[j].name))
					if bytes.Equal(outs[i], outs[j]) {
						return
					}
					o2, o3 := cf.o, cf.o
					ai, _, _ := encodeFresh(pls[i].img, &o2)
					aj, _, _ := encodeFresh(pls[j].img, &o3)
					if !bytes.Equal(ai, outs[i]) || !bytes.Equal(aj, outs[j]) {
						c.Count("unstable_encoder_output_skipped")
						return
					}
					c.Violate(key, fmt.Sprintf("%s: %s gives %d bytes, %s gives %d bytes (first difference at %d)", desc, pls[i].name, len(outs[i]),
						pls[j].name, len(outs[j]), firstDiff(outs[i], outs[j])),
						map[string]any{"picture": fmt.Sprintf("premultiplied %s %dx%d", kind, w, h), "premultiplied_rgba_hex": hex.EncodeToString(pm),
							"config": cf.name, "placement_a": pls[i].name, "placement_b": pls[j].name})
				}
				// (a) storage of the premultiplied pixels: sub-image / stride padding vs origin
				cmp(1, 0, fmt.Sprintf("rgba-placement-bytes-differ-%s-%s-subimage", mode, al), "premultiplied source, same pixels, different placement")
				cmp(2, 0, fmt.Sprintf("rgba-placement-bytes-differ-%s-%s-stridepad", mode, al), "premultiplied source, same pixels, different placement")
				cmp(5, 0, fmt.Sprintf("rgba-placement-bytes-differ-%s-%s-band", mode, al), "premultiplied source, same pixels, full-width band of a taller parent")
				cmp(6, 0, fmt.Sprintf("rgba-placement-bytes-differ-%s-%s-band", mode, al), "premultiplied source, same pixels, full-width band of a taller parent")
				cmp(7, refIdx, fmt.Sprintf("rgba-generic-origin-bytes-differ-%s-%s", mode, al), "premultiplied source through the generic At() path: bounds at (3,5) vs at the origin")
				// (b) fast path vs the generic At() path, and vs an NRGBA holding the converted picture
				cmp(0, refIdx, fmt.Sprintf("rgba-fastpath-vs-generic-%s%s%s-%s", mode, ex, sh, al), "premultiplied source: *image.RGBA fast path vs generic At() path")
				// an NRGBA holding NRGBAModel.Convert(At) is a different image (different colour values through At):
				// "the same colours" of the property does not obviously cover it -> observation only
				if outs[4] != nil && !bytes.Equal(outs[4], outs[refIdx]) {
					observe(c, "rgba-converted-nrgba-differs-from-generic")
				}
			}
			for i := range pls {
				if sum(pls[i].back) != sums[i] {
					c.Violate("rgba-source-modified-"+pls[i].name, "Encode modified the caller's pixel buffer", map[string]any{"placement": pls[i].name})
				}
			}
		}
	}
}

func placementClass(name string) string {
	switch {
	case strings.HasPrefix(name, "wrapper"):
		return "wrapper"
	case strings.HasPrefix(name, "sub"):
		return "subimage"
	case strings.HasPrefix(name, "band"):
		return "band"
	case strings.HasPrefix(name, "stride"):
		return "stridepad"
	case strings.HasPrefix(name, "rect"):
		return "shiftedrect"
	}
	return name
}

func firstDiff(a, b []byte) int {
	n := len(a)
	if len(b) < n {
		n = len(b)
	}
	for i := 0; i < n; i++ {
		if a[i] != b[i] {
			return i
		}
	}
	return n
}

// kernels compares every import kernel's output across the placements of one picture.
func kernels(c *Ctx, p *picture, pls []*placement) {
	type res struct {
		name string
		val  string
	}
	run := func(pl *placement) (rs []res) {
		add := func(n string, f func() string) {
			v := ""
			func() {
				defer func() {
					if r := recover(); r != nil {
						v = fmt.Sprint("PANIC ", r)
					}
				}()
				v = f()
			}()
			rs = append(rs, res{n, v})
		}
		add("imageHasAlpha", func() string { return fmt.Sprint(webp.VerifImageHasAlpha(pl.img)) })
		add("lossy.imageHasAlpha", func() string { return fmt.Sprint(webp.VerifLossyImageHasAlpha(pl.img)) })
		add("extractAlpha", func() string { return hex.EncodeToString(webp.VerifExtractAlpha(pl.img)) })
		add("cleanupTransparentAreaLossy", func() string { return hex.EncodeToString(webp.VerifCleanupTransparentAreaLossy(pl.img)) })
		add("sharpYUVConvert", func() string {
			y, cb, cr, ys, cs, err := webp.VerifSharpYUV(pl.img)
			if err != nil {
				return "ERR"
			}
			return fmt.Sprintf("%d %d %x", ys, cs, sum(append(append(append([]byte{}, y...), cb...), cr...)))
		})
		for _, ha := range []int{-1, 0, 1} {
			for _, dith := range []float32{0, 0.75} {
				ha, dith := ha, dith
				add(fmt.Sprintf("lossy.importImage(hasAlpha=%d,dither=%v)", ha, dith), func() string {
					y, u, v, ys, us, pw, ph := webp.VerifLossyImportPlanes(pl.img, dith, ha)
					return fmt.Sprintf("%d %d %d %d %x", ys, us, pw, ph, sum(append(append(append([]byte{}, y...), u...), v...)))
				})
			}
		}
		return
	}
	ref := run(pls[0])
	for _, pl := range pls[1:] {
		got := run(pl)
		for i := range ref {
			c.D.Evaluations++
			if got[i].val != ref[i].val {
				// internal kernels are not the property's observable (bytes of Encode are): count only
				observe(c, "kernel-"+ref[i].name+"-depends-on-placement-"+placementClass(pl.name))
			}
		}
	}
}

func trunc(s string) string {
	if len(s) > 200 {
		return s[:200] + "..."
	}
	return s
}

// ---------------------------------------------------------------------------
// kernel-level correspondence with the extracted model on random placements

func modelCases(c *Ctx, rng *Rand) {
	n := 400
	if c.Thorough() {
		n = 4000
	}
	for i := 0; i < n; i++ {
		w, h := 1+rng.Intn(9), 1+rng.Intn(7)
		if rng.Intn(6) == 0 {
			w, h = 15+rng.Intn(4), 15+rng.Intn(4) // around the macroblock size
		}
		stride := w * 4
		switch rng.Intn(5) {
		case 0:
			stride += 1 + rng.Intn(3) // not a multiple of 4
		case 1:
			stride += 4 * (1 + rng.Intn(5))
		case 2:
			if rng.Intn(3) == 0 && w > 1 {
				stride -= 4 // invalid: rows overlap
			}
		}
		need := (h-1)*stride + w*4
		ln := need
		invalid := stride < w*4
		switch rng.Intn(6) {
		case 0:
			ln += 1 + rng.Intn(9)
		case 1:
			ln += stride * (1 + rng.Intn(2))
		case 2:
			if rng.Intn(2) == 0 { // too short
				ln -= 1 + rng.Intn(6)
				if ln < 0 {
					ln = 0
				}
				invalid = true
			}
		}
		pix := make([]byte, ln, ln)
		amode := rng.Intn(4)
		for k := range pix {
			pix[k] = byte(rng.U64())
			if k%4 == 3 && stride%4 == 0 {
				switch amode {
				case 0:
					pix[k] = 255
				case 1:
					if rng.Intn(12) != 0 {
						pix[k] = 255
					}
				case 2:
					pix[k] = byte(1 + rng.Intn(254))
				}
			}
		}
		mx, my := rng.Range(-5, 5), rng.Range(-5, 5)
		im := &image.NRGBA{Pix: pix, Stride: stride, Rect: image.Rect(mx, my, mx+w, my+h)}
		head := fmt.Sprintf("%d %d %d %d %d %s", stride, mx, my, mx+w, my+h, hexOrDash(pix))
		safe := func(f func() string) (v string) {
			defer func() {
				if r := recover(); r != nil {
					v = "PANIC"
				}
			}()
			return f()
		}
		if invalid {
			// outside the property's domain (not a valid placement): what the code does with it -
			// fall back, panic, early exit - may change freely; no correspondence case
			observe(c, "invalid-placement-not-compared")
			continue
		}
		c.Count("model_valid_placement")
		c.Case("rootalpha "+head, safe(func() string { return b2s(webp.VerifImageHasAlpha(im)) }))
		c.Case("alpha "+head, safe(func() string { return hex.EncodeToString(webp.VerifExtractAlpha(im)) }))
		c.D.Evaluations += 2
		// clean-up = plain copy only when no pixel is fully transparent
		if !invalid {
			noZero := true
			for y := 0; y < h && noZero; y++ {
				for x := 0; x < w; x++ {
					if pix[y*stride+x*4+3] == 0 {
						noZero = false
						break
					}
				}
			}
			if noZero {
				observe(c, "cleanup-copy-kernel-not-compared") // internal buffer, not an observable of the property
			}
			// the lossy package's kernels have no validNRGBA guard and run in goroutines: valid placements only
			c.Case("lossyalpha "+head, safe(func() string { return b2s(webp.VerifLossyImageHasAlpha(im)) }))
			// the luma plane depends on the RGB->Y formula, which the property does not fix: not compared
			// with the model (the placement independence of the planes is an observation in kernels())
			// lossless import observed through an Exact lossless round trip (method 3: away from the
			// known decoder defect with <= 16 colours at method >= 5)
			c.Case("argb "+head, safe(func() string {
				var buf bytes.Buffer
				if err := webp.Encode(&buf, im, &webp.EncoderOptions{Lossless: true, Exact: true, Quality: 40, Method: 3}); err != nil {
					return "ERR"
				}
				dec, err := webp.Decode(bytes.NewReader(buf.Bytes()))
				if err != nil {
					return "DECERR"
				}
				var sb strings.Builder
				b := dec.Bounds()
				for y := b.Min.Y; y < b.Max.Y; y++ {
					for x := b.Min.X; x < b.Max.X; x++ {
						n := color.NRGBAModel.Convert(dec.At(x, y)).(color.NRGBA)
						fmt.Fprintf(&sb, "%02x%02x%02x%02x", n.A, n.R, n.G, n.B)
					}
				}
				return sb.String()
			}))
			c.D.Evaluations += 3
			// the same through encodeLossless (metadata present: second copy of the import loops),
			// and both copies through their generic At() loop (wrapper type)
			rt := func(src image.Image, meta bool) string {
				o := &webp.EncoderOptions{Lossless: true, Exact: true, Quality: 40, Method: 3}
				if meta {
					o.EXIF = []byte{1, 2, 3}
				}
				var buf bytes.Buffer
				if err := webp.Encode(&buf, src, o); err != nil {
					return "ERR"
				}
				dec, err := webp.Decode(bytes.NewReader(buf.Bytes()))
				if err != nil {
					return "DECERR"
				}
				var sb strings.Builder
				b := dec.Bounds()
				for y := b.Min.Y; y < b.Max.Y; y++ {
					for x := b.Min.X; x < b.Max.X; x++ {
						n := color.NRGBAModel.Convert(dec.At(x, y)).(color.NRGBA)
						fmt.Fprintf(&sb, "%02x%02x%02x%02x", n.A, n.R, n.G, n.B)
					}
				}
				return sb.String()
			}
			c.Case("argb "+head, safe(func() string { return rt(im, true) }))
			c.Case("argbgen "+head, safe(func() string { return rt(wrapImage{im}, false) }))
			c.Case("argbgen "+head, safe(func() string { return rt(wrapImage{im}, true) }))
			c.D.Evaluations += 3
		}
		c.Nontrivial(fmt.Sprintf("model|%d|%d|%v|%d", w, h, invalid, stride-w*4))
	}
}

func hexOrDash(b []byte) string {
	if len(b) == 0 {
		return "-"
	}
	return hex.EncodeToString(b)
}

func b2s(b bool) string {
	if b {
		return "1"
	}
	return "0"
}
